/- helper lemmas for C11: every admissible composition of views, to any nesting depth, is lawful (induction over the
   expression language that the driver and the harness interpret) -/
import CelloProofs.Lemmas.IterContainers
import CelloProofs.Lemmas.IterTree
import CelloProofs.Lemmas.IterViews
import CelloProofs.Lemmas.IterSlice
import CelloProofs.Lemmas.IterMutDenote

namespace Cello.Iter

instance (n a b c : Int) : Decidable (SliceRegionFwd n a b c) := by unfold SliceRegionFwd; infer_instance
instance (n a b c : Int) : Decidable (SliceRegionBwd n a b c) := by unfold SliceRegionBwd; infer_instance

mutual
/-- does the object denoted by `e` implement Len -/
def Expr.hasLen : Expr → Bool
  | .filter _ _ _ => false
  | .map e _ _ => e.hasLen
  | .zip es => Expr.hasLenList es
  | .enum e => e.hasLen
  | _ => true
def Expr.hasLenList : List Expr → Bool
  | [] => true
  | e :: es => e.hasLen && Expr.hasLenList es
end

def sameLength (ls : List (List Val)) : Bool :=
  match ls with
  | [] => true
  | l :: ls => ls.all (fun x => x.length == l.length)

mutual
/-- the sequence that the DEFINITION of an expression selects — `none` when the expression is outside the part of the
    library that is right (a Tuple with a repeated object, a Slice outside the region, a Zip of unequal inputs) or
    cannot be constructed -/
def specOf : Expr → Option (List Val)
  | .array vs => some (vs.map Val.int)
  | .list vs => some (vs.map Val.int)
  | .tuple ids => if ids.Nodup then some (ids.map (fun (i : Nat) => Val.int (i : Int))) else none
  | .table slots => some (occupied (slots.map (fun o => o.map Val.int)))
  | .tree t => some (t.inorder.map Val.int)
  | .rtree ks => some ((ks.foldl T.insert .nil).inorder.map Val.int)
  | .range args => match rangeStack args with
    | some (a, b, c) => some ((rangeList a b c).map Val.int)
    | none => none
  | .slice e args => match specOf e with
    | some l =>
      if e.hasLen then
        match sliceStack l.length args with
        | some (a, b, c) =>
          if 0 ≤ a ∧ a ≤ l.length ∧ 0 ≤ b ∧ b ≤ l.length ∧ SliceRegionFwd l.length a b c ∧ SliceRegionBwd l.length a b c
          then some (sliceSpec l a b c) else none
        | none => none
      else none
    | none => none
  | .zip es => match specOfList es with
    | some ls => if es ≠ [] ∧ sameLength ls then some ((zipLists ls).map Val.tup) else none
    | none => none
  | .enum e => match specOf e with
    | some l => if e.hasLen then
        some ((zipLists [(List.range l.length).map (fun (j : Nat) => Val.int (j : Int)), l]).map Val.tup) else none
    | none => none
  | .filter e m r => match specOf e with
    | some l => if l.length < filterFuel then some (l.filter (testPred m r)) else none
    | none => none
  | .map e a b => match specOf e with
    | some l => some (l.map (testFun a b))
    | none => none
  -- containers MUTATED before they are iterated: the sequence that the documented meaning of the history leaves
  -- (List, Array: `LL.specRun` / `AR.specRun`); Table: the keys in the slots of the table the model of Table.c builds, in
  -- slot order (a permutation of the keys of the finite map: `C11_table_mutated_lawful`); Tree: the in-order sequence
  | .mlist init ops => some ((LL.specRun 0 init ops).1.map Val.int)
  | .marray init ops => some ((AR.specRun init ops).1.map Val.int)
  | .mtable init ops => match mtableOf init ops with
    | some t => some ((occupied (tabSlots t)).map Val.int)
    | none => none
  | .mtree init ops => some ((mtreeOf init ops).root.inorder.map Val.int)
def specOfList : List Expr → Option (List (List Val))
  | [] => some []
  | e :: es => match specOf e, specOfList es with
    | some l, some ls => some (l :: ls)
    | _, _ => none
end

theorem zipLen_of_all : ∀ (Is : List (Iterable Val)) (ls : List (List Val)),
    All₂ (fun (I : Iterable Val) l => I.len = some l.length) Is ls → zipLen Is = some (zipLists ls).length := by
  intro Is ls h
  induction h with
  | nil => rfl
  | @cons I l Is' ls' hI hrest ih =>
    cases hrest with
    | nil => simp [zipLen, zipLists, hI]
    | @cons J l' Js ls'' hJ hrest' =>
      simp only [zipLen] at ih ⊢
      simp only [hI, ih, zipLists, List.length_zipWith]

theorem sameLength_spec : ∀ (ls : List (List Val)), sameLength ls = true → ∃ n, ∀ l ∈ ls, l.length = n := by
  intro ls h
  cases ls with
  | nil => exact ⟨0, by simp⟩
  | cons l ls =>
    refine ⟨l.length, ?_⟩
    intro x hx
    simp only [sameLength, List.all_eq_true, beq_iff_eq] at h
    simp only [List.mem_cons] at hx
    rcases hx with rfl | hx
    · rfl
    · exact h x hx

mutual
/-- **every admissible composition is lawful** — by induction over the expression, so to any nesting depth -/
theorem denote_lawful : ∀ (e : Expr) (l : List Val), specOf e = some l →
    ∃ I, denote e = .ok I ∧ LawfulAs I l ∧ (e.hasLen = true → I.len = some l.length)
  | .array vs, l, h => by
    simp only [specOf, Option.some.injEq] at h; subst h
    exact ⟨_, rfl, array_lawfulAs _, fun _ => rfl⟩
  | .list vs, l, h => by
    simp only [specOf, Option.some.injEq] at h; subst h
    exact ⟨_, rfl, list_lawfulAs _, fun _ => rfl⟩
  | .tuple ids, l, h => by
    simp only [specOf] at h
    split at h
    · next hnd =>
      simp only [Option.some.injEq] at h; subst h
      exact ⟨_, rfl, map_lawfulAs _ _ (tuple_lawfulAs ids hnd), fun _ => by simp [mapI, tupleI]⟩
    · simp at h
  | .table slots, l, h => by
    simp only [specOf, Option.some.injEq] at h; subst h
    exact ⟨_, rfl, table_lawfulAs _, fun _ => rfl⟩
  | .tree t, l, h => by
    simp only [specOf, Option.some.injEq] at h; subst h
    exact ⟨_, rfl, map_lawfulAs _ _ (tree_lawfulAs t), fun _ => by simp [mapI, treeI, T.size_eq_length]⟩
  | .rtree ks, l, h => by
    simp only [specOf, Option.some.injEq] at h; subst h
    exact ⟨_, rfl, map_lawfulAs _ _ (tree_lawfulAs _), fun _ => by simp [mapI, treeI, T.size_eq_length]⟩
  | .range args, l, h => by
    simp only [specOf] at h
    cases hr : rangeStack args with
    | none => simp [hr] at h
    | some abc =>
      obtain ⟨a, b, c⟩ := abc
      simp only [hr, Option.some.injEq] at h; subst h
      refine ⟨mapI (rangeI a b c) Val.int, by simp [denote, hr], map_lawfulAs _ _ (range_lawfulAs a b c), fun _ => ?_⟩
      simp [mapI, rangeI, rangeList]
  | .slice e args, l, h => by
    simp only [specOf] at h
    cases hs : specOf e with
    | none => simp [hs] at h
    | some l0 =>
      obtain ⟨I, hd, hl, hlen⟩ := denote_lawful e l0 hs
      simp only [hs] at h
      split at h
      · next hhl =>
        have hIlen := hlen hhl
        cases hst : sliceStack l0.length args with
        | none => simp [hst] at h
        | some abc =>
          obtain ⟨a, b, c⟩ := abc
          simp only [hst] at h
          split at h
          · next hc =>
            simp only [Option.some.injEq] at h; subst h
            obtain ⟨ha0, han, hb0, hbn, hrf, hrb⟩ := hc
            obtain ⟨A, rfl⟩ := Int.eq_ofNat_of_zero_le ha0
            obtain ⟨B, rfl⟩ := Int.eq_ofNat_of_zero_le hb0
            have hA : A ≤ l0.length := by omega
            have hB : B ≤ l0.length := by omega
            have hlg := slice_len_get I hl A B c hB
            refine ⟨sliceI I l0.length A B c, by simp [denote, hd, hIlen, hst],
              ⟨slice_fwdAs I hl A B c hA hB hrf, slice_bwdAs I hl A B c hA hB hrb, hlg.1, hlg.2⟩, fun _ => ?_⟩
            have := hlg.1 (rangeLen A B c) rfl
            simp [sliceI, this]
          · simp at h
      · simp at h
  | .zip es, l, h => by
    simp only [specOf] at h
    cases hs : specOfList es with
    | none => simp [hs] at h
    | some ls =>
      obtain ⟨Is, hd, hall, hlens⟩ := denoteList_lawful es ls hs
      simp only [hs] at h
      split at h
      · next hc =>
        simp only [Option.some.injEq] at h; subst h
        obtain ⟨hne, hsame⟩ := hc
        obtain ⟨n, hn⟩ := sameLength_spec ls hsame
        have hIs : Is ≠ [] := by
          intro e0; subst e0
          cases hall
          cases es with
          | nil => exact hne rfl
          | cons e es' =>
            simp only [specOfList] at hs
            cases h1 : specOf e <;> cases h2 : specOfList es' <;> simp [h1, h2] at hs
        refine ⟨mapI (zipI Is) Val.tup, by simp [denote, hd], map_lawfulAs _ _ (zip_lawfulAs Is ls hIs n hn hall), fun hh => ?_⟩
        have hz := zipLen_of_all Is ls (hlens (by simpa [Expr.hasLen] using hh))
        simp only [mapI, zipI, hz, List.length_map]
      · simp at h
  | .enum e, l, h => by
    simp only [specOf] at h
    cases hs : specOf e with
    | none => simp [hs] at h
    | some l0 =>
      obtain ⟨I, hd, hl, hlen⟩ := denote_lawful e l0 hs
      simp only [hs] at h
      split at h
      · next hhl =>
        simp only [Option.some.injEq] at h; subst h
        have hIlen := hlen hhl
        refine ⟨mapI (enumI I l0.length Val.int) Val.tup, by simp [denote, hd, hIlen],
          map_lawfulAs _ _ (enum_lawfulAs I Val.int hl), fun _ => ?_⟩
        have hr : (mapI (rangeI 0 l0.length 1) Val.int).len = some ((List.range l0.length).map (fun (j : Nat) => Val.int (j : Int))).length := by
          simp [mapI, rangeI, rangeLen_count]
        have hz := zipLen_of_all [mapI (rangeI 0 l0.length 1) Val.int, I] _ (All₂.cons hr (All₂.cons hIlen All₂.nil))
        rw [List.length_map]; exact hz
      · simp at h
  | .filter e m r, l, h => by
    simp only [specOf] at h
    cases hs : specOf e with
    | none => simp [hs] at h
    | some l0 =>
      obtain ⟨I, hd, hl, _⟩ := denote_lawful e l0 hs
      simp only [hs] at h
      split at h
      · next hf =>
        simp only [Option.some.injEq] at h; subst h
        exact ⟨filterI I (testPred m r) filterFuel, by simp [denote, hd], filter_lawfulAs I _ _ hl hf,
          fun hh => by simp [Expr.hasLen] at hh⟩
      · simp at h
  | .map e a b, l, h => by
    simp only [specOf] at h
    cases hs : specOf e with
    | none => simp [hs] at h
    | some l0 =>
      obtain ⟨I, hd, hl, hlen⟩ := denote_lawful e l0 hs
      simp only [hs, Option.some.injEq] at h; subst h
      exact ⟨mapI I (testFun a b), by simp [denote, hd], map_lawfulAs _ _ hl,
        fun hh => by simp [mapI, hlen (by simpa [Expr.hasLen] using hh)]⟩
  | .mlist init ops, l, h => by
    simp only [specOf, Option.some.injEq] at h; subst h
    obtain ⟨ll, xs, e, c, v⟩ := mlistOf_spec init ops
    refine ⟨mapI (llI ll) Val.int, by simp [denote, e], ?_, fun _ => ?_⟩
    · rw [← v]; exact map_lawfulAs _ _ (ll_lawfulAs ll xs c)
    · simp [mapI, llI, c.count, ← v, LL.vals]
  | .marray init ops, l, h => by
    simp only [specOf, Option.some.injEq] at h; subst h
    obtain ⟨a, e, c⟩ := marrayOf_spec init ops
    refine ⟨mapI (arI a) Val.int, by simp [denote, e], map_lawfulAs _ _ (ar_lawfulAs a _ c), fun _ => ?_⟩
    simp [mapI, arI, c.count]
  | .mtable init ops, l, h => by
    obtain ⟨t, e, r⟩ := mtableOf_spec init ops
    simp only [specOf, e, Option.some.injEq] at h; subst h
    obtain ⟨hl, hn, _⟩ := tabI_lawful t _ r
    refine ⟨mapI (tabI t) Val.int, by simp [denote, e], map_lawfulAs _ _ hl, fun _ => ?_⟩
    have := hl.len t.nitems rfl
    simp [mapI, tabI, tableNI, this]
  | .mtree init ops, l, h => by
    simp only [specOf, Option.some.injEq] at h; subst h
    have hc := mtreeOf_count init ops
    refine ⟨mapI (rbI (mtreeOf init ops)) Val.int, by simp [denote],
      map_lawfulAs _ _ (treeNI_lawfulAs _ _ hc), fun _ => ?_⟩
    simp [mapI, rbI, treeNI, hc, T.size_eq_length]
theorem denoteList_lawful : ∀ (es : List Expr) (ls : List (List Val)), specOfList es = some ls →
    ∃ Is, denoteList es = .ok Is ∧ All₂ (fun I l => LawfulAs I l) Is ls ∧
      (Expr.hasLenList es = true → All₂ (fun (I : Iterable Val) l => I.len = some l.length) Is ls)
  | [], ls, h => by
    simp only [specOfList, Option.some.injEq] at h; subst h
    exact ⟨[], rfl, All₂.nil, fun _ => All₂.nil⟩
  | e :: es, ls, h => by
    simp only [specOfList] at h
    cases h1 : specOf e with
    | none => simp [h1] at h
    | some l =>
      cases h2 : specOfList es with
      | none => simp [h1, h2] at h
      | some ls' =>
        simp only [h1, h2, Option.some.injEq] at h; subst h
        obtain ⟨I, hd, hl, hlen⟩ := denote_lawful e l h1
        obtain ⟨Is, hds, hall, hlens⟩ := denoteList_lawful es ls' h2
        refine ⟨I :: Is, by simp [denoteList, hd, hds], All₂.cons hl hall, fun hh => ?_⟩
        simp only [Expr.hasLenList, Bool.and_eq_true] at hh
        exact All₂.cons (hlen hh.1) (hlens hh.2)
end

/-! ### exactness of the Slice regions on small instances -/

/-- does the model's forward / backward walk of `slice(array [0..n), a, b, c)` produce the defined sequence and Terminal -/
def sliceFwdOk (n a b : Nat) (c : Int) : Bool :=
  (sliceI (arrayI (List.range n)) n a b c).forward (n + 2) == (sliceSpec (List.range n) a b c, End.term)
def sliceBwdOk (n a b : Nat) (c : Int) : Bool :=
  (sliceI (arrayI (List.range n)) n a b c).backward (n + 2) == ((sliceSpec (List.range n) a b c).reverse, End.term)

/-- the steps `-k … k` -/
def stepsUpTo (k : Nat) : List Int := (List.range (2 * k + 1)).map (fun (i : Nat) => (i : Int) - k)

end Cello.Iter
