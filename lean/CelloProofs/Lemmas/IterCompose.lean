/- helper lemmas for C11: every composition of views, to any nesting depth (induction over the expression language that
   the driver and the harness interpret) — PER DIRECTION: `defOf e` is the sequence the definitions select, `dirOf e` says
   for which walks (forward / backward) the C code is right and whether the object absorbs a Terminal cursor -/
import CelloProofs.Lemmas.IterContainers
import CelloProofs.Lemmas.IterTree
import CelloProofs.Lemmas.IterViews
import CelloProofs.Lemmas.IterSlice
import CelloProofs.Lemmas.IterAbs
import CelloProofs.Lemmas.IterDir
import CelloProofs.Lemmas.IterMutDenote

namespace Cello.Iter

instance (n a b c : Int) : Decidable (SliceRegionFwd n a b c) := by unfold SliceRegionFwd; infer_instance
instance (n a b c : Int) : Decidable (SliceRegionBwd n a b c) := by unfold SliceRegionBwd; infer_instance
instance (n a b c : Int) : Decidable (SliceRegionFwdAbs n a b c) := by unfold SliceRegionFwdAbs; infer_instance
instance (n a b c : Int) : Decidable (SliceRegionBwdAbs n a b c) := by unfold SliceRegionBwdAbs; infer_instance

mutual
/-- does the object denoted by `e` implement Len -/
def Expr.hasLen : Expr → Bool
  | .filter _ _ _ => false
  | .map e _ _ => e.hasLen
  | .zip es => Expr.hasLenList es
  | .enum e => e.hasLen
  | _ => true
def Expr.hasLenList : List Expr → Bool
  | [] => true
  | e :: es => e.hasLen && Expr.hasLenList es
end

def sameLength (ls : List (List Val)) : Bool :=
  match ls with
  | [] => true
  | l :: ls => ls.all (fun x => x.length == l.length)

/-- the backward walk of a Zip over inputs with these sequences is right: equal lengths, or one input empty (then
    Zip_Iter_Last answers Terminal at once) -/
def zipBwdOk : Option (List (List Val)) → Bool
  | some ls => sameLength ls || ls.any List.isEmpty
  | none => false

/-! ### what is proved of one walk of one object -/

/-- `no`: nothing (known-finding territory); `run`: the walk yields the defined sequence and then Terminal; `abs`: … and
    the object answers Terminal again whenever Terminal is handed back to it as a cursor -/
inductive Lvl where
  | no | run | abs
deriving DecidableEq, Repr

def Lvl.ok : Lvl → Bool
  | .no => false
  | _ => true

/-- Zip (hence enumerate) does not absorb: Zip_Iter_Next calls `get(Terminal, i)` -/
def Lvl.cap : Lvl → Lvl
  | .abs => .run
  | x => x

def FwdAt {α : Type} (I : Iterable α) (l : List α) : Lvl → Prop
  | .no => True
  | .run => FwdAs I l
  | .abs => AbsFwdAs I l
def BwdAt {α : Type} (I : Iterable α) (l : List α) : Lvl → Prop
  | .no => True
  | .run => BwdAs I l
  | .abs => AbsBwdAs I l

theorem FwdAt.fwd {α : Type} {I : Iterable α} {l : List α} {lv : Lvl} (h : FwdAt I l lv) (hok : lv.ok = true) : FwdAs I l := by
  cases lv with
  | no => simp [Lvl.ok] at hok
  | run => exact h
  | abs => exact h.1
theorem BwdAt.bwd {α : Type} {I : Iterable α} {l : List α} {lv : Lvl} (h : BwdAt I l lv) (hok : lv.ok = true) : BwdAs I l := by
  cases lv with
  | no => simp [Lvl.ok] at hok
  | run => exact h
  | abs => exact h.1

theorem emb_fwdAt {α β : Type} (I : Iterable α) (f : α → β) {l : List α} {lv : Lvl} (h : FwdAt I l lv) :
    FwdAt (embI I f) (l.map f) lv := by
  cases lv with
  | no => trivial
  | run => exact emb_fwdAs I f h
  | abs => exact emb_absFwd I f h
theorem emb_bwdAt {α β : Type} (I : Iterable α) (f : α → β) {l : List α} {lv : Lvl} (h : BwdAt I l lv) :
    BwdAt (embI I f) (l.map f) lv := by
  cases lv with
  | no => trivial
  | run => exact emb_bwdAs I f h
  | abs => exact emb_absBwd I f h
theorem map_fwdAt {α β : Type} (I : Iterable α) (f : α → β) {l : List α} {lv : Lvl} (h : FwdAt I l lv) :
    FwdAt (mapI I f) (l.map f) lv := by
  cases lv with
  | no => trivial
  | run => exact map_fwdAs I f h
  | abs => exact map_absFwd I f h
theorem map_bwdAt {α β : Type} (I : Iterable α) (f : α → β) {l : List α} {lv : Lvl} (h : BwdAt I l lv) :
    BwdAt (mapI I f) (l.map f) lv := by
  cases lv with
  | no => trivial
  | run => exact map_bwdAs I f h
  | abs => exact map_absBwd I f h
theorem filter_fwdAt {α : Type} (I : Iterable α) (p : α → Bool) (fuel : Nat) {l : List α} {lv : Lvl} (h : FwdAt I l lv)
    (hf : l.length < fuel) : FwdAt (filterI I p fuel) (l.filter p) lv := by
  cases lv with
  | no => trivial
  | run => exact filter_fwdAs I p fuel h hf
  | abs => exact filter_absFwd I p fuel h hf
theorem filter_bwdAt {α : Type} (I : Iterable α) (p : α → Bool) (fuel : Nat) {l : List α} {lv : Lvl} (h : BwdAt I l lv)
    (hf : l.length < fuel) : BwdAt (filterI I p fuel) (l.filter p) lv := by
  cases lv with
  | no => trivial
  | run => exact filter_bwdAs I p fuel h hf
  | abs => exact filter_absBwd I p fuel h hf

/-! ### Slice: the level of its walks from the level of the walks underneath and the parameters -/

/-- forward walk of `slice(x, a, b, c)` (parameters clamped; `n = len x`): step 0 is Terminal at once; over an absorbing `x`
    the walk is right (and absorbing) in the region `SliceRegionFwdAbs`; over an `x` that does not take Terminal as a cursor
    it is right only where the stride lands exactly on Terminal, `SliceRegionFwd`.  A positive step walks `x` forwards, a
    negative step backwards. -/
def sliceLvlFwd (n a b c : Int) (uf ub : Lvl) : Lvl :=
  if c = 0 then .abs else
  let u := if c > 0 then uf else ub
  if u = .abs ∧ SliceRegionFwdAbs n a b c then .abs
  else if u.ok = true ∧ SliceRegionFwd n a b c then .run else .no

def sliceLvlBwd (n a b c : Int) (uf ub : Lvl) : Lvl :=
  if c = 0 then .abs else
  let u := if c > 0 then ub else uf
  if u = .abs ∧ SliceRegionBwdAbs n a b c then .abs
  else if u.ok = true ∧ SliceRegionBwd n a b c then .run else .no

theorem slice_fwdAt {α : Type} (I : Iterable α) {l : List α} (A B : Nat) (c : Int) (uf ub : Lvl)
    (hf : FwdAt I l uf) (hb : BwdAt I l ub) (hA : A ≤ l.length) (hB : B ≤ l.length) :
    FwdAt (sliceI I l.length A B c) (sliceSpec l A B c) (sliceLvlFwd l.length A B c uf ub) := by
  unfold sliceLvlFwd
  by_cases hc : c = 0
  · rw [if_pos hc]; subst hc
    exact slice_absFwd I (fun h => absurd h (by omega)) (fun h => absurd h (by omega)) A B hA hB
      (by simp [SliceRegionFwdAbs, sliceVisitFwd, rangeList, rangeLen])
  · rw [if_neg hc]
    dsimp only
    generalize hu : (if c > 0 then uf else ub) = u
    by_cases h1 : u = .abs ∧ SliceRegionFwdAbs l.length A B c
    · rw [if_pos h1]
      refine slice_absFwd I (fun hc' => ?_) (fun hc' => ?_) A B hA hB h1.2
      · rw [if_pos hc', h1.1] at hu; rw [hu] at hf; exact hf
      · rw [if_neg (by omega), h1.1] at hu; rw [hu] at hb; exact hb
    · rw [if_neg h1]
      by_cases h2 : u.ok = true ∧ SliceRegionFwd l.length A B c
      · rw [if_pos h2]
        refine slice_fwdAs I (fun hc' => ?_) (fun hc' => ?_) A B hA hB h2.2
        · rw [if_pos hc'] at hu; rw [← hu] at h2; exact hf.fwd h2.1
        · rw [if_neg (by omega)] at hu; rw [← hu] at h2; exact hb.bwd h2.1
      · rw [if_neg h2]; trivial

theorem slice_bwdAt {α : Type} (I : Iterable α) {l : List α} (A B : Nat) (c : Int) (uf ub : Lvl)
    (hf : FwdAt I l uf) (hb : BwdAt I l ub) (hA : A ≤ l.length) (hB : B ≤ l.length) :
    BwdAt (sliceI I l.length A B c) (sliceSpec l A B c) (sliceLvlBwd l.length A B c uf ub) := by
  unfold sliceLvlBwd
  by_cases hc : c = 0
  · rw [if_pos hc]; subst hc
    exact slice_absBwd I (fun h => absurd h (by omega)) (fun h => absurd h (by omega)) A B hA hB
      (by simp [SliceRegionBwdAbs, sliceVisitBwd, rangeList, rangeLen])
  · rw [if_neg hc]
    dsimp only
    generalize hu : (if c > 0 then ub else uf) = u
    by_cases h1 : u = .abs ∧ SliceRegionBwdAbs l.length A B c
    · rw [if_pos h1]
      refine slice_absBwd I (fun hc' => ?_) (fun hc' => ?_) A B hA hB h1.2
      · rw [if_pos hc', h1.1] at hu; rw [hu] at hb; exact hb
      · rw [if_neg (by omega), h1.1] at hu; rw [hu] at hf; exact hf
    · rw [if_neg h1]
      by_cases h2 : u.ok = true ∧ SliceRegionBwd l.length A B c
      · rw [if_pos h2]
        refine slice_bwdAs I (fun hc' => ?_) (fun hc' => ?_) A B hA hB h2.2
        · rw [if_pos hc'] at hu; rw [← hu] at h2; exact hb.bwd h2.1
        · rw [if_neg (by omega)] at hu; rw [← hu] at h2; exact hf.fwd h2.1
      · rw [if_neg h2]; trivial

theorem sliceArg_bounds (n : Nat) (x : Int) : 0 ≤ sliceArg n x ∧ sliceArg n x ≤ n := by
  simp only [sliceArg]
  constructor <;> (repeat' split) <;> omega

theorem sliceArg_opt_bounds (n : Nat) (x : Option Int) (d : Int) (hd : 0 ≤ d ∧ d ≤ n) :
    0 ≤ (x.map (sliceArg n)).getD d ∧ (x.map (sliceArg n)).getD d ≤ n := by
  cases x with
  | none => exact hd
  | some v => exact sliceArg_bounds n v

/-- slice_stack leaves start and stop inside `[0, n]` -/
theorem sliceStack_bounds (n : Nat) (args : List (Option Int)) (a b c : Int) (h : sliceStack n args = some (a, b, c)) :
    0 ≤ a ∧ a ≤ n ∧ 0 ≤ b ∧ b ≤ n := by
  have h0 : (0 : Int) ≤ 0 ∧ (0 : Int) ≤ n := ⟨by omega, by omega⟩
  have hn : (0 : Int) ≤ n ∧ (n : Int) ≤ n := ⟨by omega, by omega⟩
  match args, h with
  | [], h => simp only [sliceStack, Option.some.injEq, Prod.mk.injEq] at h; obtain ⟨rfl, rfl, _⟩ := h; omega
  | [x], h =>
    simp only [sliceStack, Option.some.injEq, Prod.mk.injEq] at h; obtain ⟨rfl, rfl, _⟩ := h
    have := sliceArg_opt_bounds n x n hn; omega
  | [x, y], h =>
    simp only [sliceStack, Option.some.injEq, Prod.mk.injEq] at h; obtain ⟨rfl, rfl, _⟩ := h
    have := sliceArg_opt_bounds n x 0 h0; have := sliceArg_opt_bounds n y n hn; omega
  | [x, y, z], h =>
    simp only [sliceStack, Option.some.injEq, Prod.mk.injEq] at h; obtain ⟨rfl, rfl, _⟩ := h
    have := sliceArg_opt_bounds n x 0 h0; have := sliceArg_opt_bounds n y n hn; omega
  | _ :: _ :: _ :: _ :: _, h => simp [sliceStack] at h

/-! ### the sequence an expression is DEFINED to yield, and which of its walks are right -/

mutual
/-- the sequence that the DEFINITION of an expression selects — defined whenever the object can be constructed (also in
    known-finding territory: a Tuple with a repeated object, any Slice, a Zip of unequal inputs) -/
def defOf : Expr → Option (List Val)
  | .array vs => some (vs.map Val.int)
  | .list vs => some (vs.map Val.int)
  | .tuple ids => some (ids.map (fun (i : Nat) => Val.int (i : Int)))
  | .table slots => some (occupied (slots.map (fun o => o.map Val.int)))
  | .tree t => some (t.inorder.map Val.int)
  | .rtree ks => some ((ks.foldl T.insert .nil).inorder.map Val.int)
  | .range args => match rangeStack args with
    | some (a, b, c) => some ((rangeList a b c).map Val.int)
    | none => none
  | .slice e args => match defOf e with
    | some l =>
      if e.hasLen then
        match sliceStack l.length args with
        | some (a, b, c) => some (sliceSpec l a b c)
        | none => none
      else none
    | none => none
  | .zip es => match defOfList es with
    | some ls => if es ≠ [] then some ((zipLists ls).map Val.tup) else none
    | none => none
  | .enum e => match defOf e with
    | some l => if e.hasLen then some ((enumSpec Val.int l).map Val.tup) else none
    | none => none
  | .filter e m r => match defOf e with
    | some l => some (l.filter (testPred m r))
    | none => none
  | .map e a b => match defOf e with
    | some l => some (l.map (testFun a b))
    | none => none
  -- containers MUTATED before they are iterated: the sequence that the documented meaning of the history leaves
  -- (List, Array: `LL.specRun` / `AR.specRun`); Table: the keys in the slots of the table the model of Table.c builds, in
  -- slot order (a permutation of the keys of the finite map: `C11_table_mutated_lawful`); Tree: the in-order sequence
  | .mlist init ops => some ((LL.specRun 0 init ops).1.map Val.int)
  | .marray init ops => some ((AR.specRun init ops).1.map Val.int)
  | .mtable init ops => match mtableOf init ops with
    | some t => some ((occupied (tabSlots t)).map Val.int)
    | none => none
  | .mtree init ops => some ((mtreeOf init ops).root.inorder.map Val.int)
def defOfList : List Expr → Option (List (List Val))
  | [] => some []
  | e :: es => match defOf e, defOfList es with
    | some l, some ls => some (l :: ls)
    | _, _ => none
end

mutual
/-- (level of the forward walk, level of the backward walk) of the object `denote e` -/
def dirOf : Expr → Lvl × Lvl
  | .tuple ids => if ids.Nodup then (.abs, .abs) else (.no, .no)                 -- F13 otherwise
  | .range _ => (.abs, .abs)
  | .slice e args => match defOf e with
    | some l => match sliceStack l.length args with
      | some (a, b, c) => (sliceLvlFwd l.length a b c (dirOf e).1 (dirOf e).2, sliceLvlBwd l.length a b c (dirOf e).1 (dirOf e).2)
      | none => (.no, .no)
    | none => (.no, .no)
  | .zip es => (if allFwd es then .run else .no,
                if allBwd es && zipBwdOk (defOfList es) then .run else .no)   -- F12 otherwise
  | .enum e => ((dirOf e).1.cap, (dirOf e).2.cap)
  | .filter e _ _ => match defOf e with
    | some l => if l.length < filterFuel then dirOf e else (.no, .no)
    | none => (.no, .no)
  | .map e _ _ => dirOf e
  | _ => (.run, .run)
def allFwd : List Expr → Bool
  | [] => true
  | e :: es => (dirOf e).1.ok && allFwd es
def allBwd : List Expr → Bool
  | [] => true
  | e :: es => (dirOf e).2.ok && allBwd es
end

/-- the sequence foreach is PROVED to yield: defined wherever the forward walk is right -/
def specFwd (e : Expr) : Option (List Val) := if (dirOf e).1.ok then defOf e else none
/-- … the backward walk (its reverse) -/
def specBwd (e : Expr) : Option (List Val) := if (dirOf e).2.ok then defOf e else none
/-- … both -/
def specOf (e : Expr) : Option (List Val) := if (dirOf e).1.ok ∧ (dirOf e).2.ok then defOf e else none

theorem zipLen_of_all : ∀ (Is : List (Iterable Val)) (ls : List (List Val)),
    All₂ (fun (I : Iterable Val) l => I.len = some l.length) Is ls → zipLen Is = some (zipLists ls).length := by
  intro Is ls h
  induction h with
  | nil => rfl
  | @cons I l Is' ls' hI hrest ih =>
    cases hrest with
    | nil => simp [zipLen, zipLists, hI]
    | @cons J l' Js ls'' hJ hrest' =>
      simp only [zipLen] at ih ⊢
      simp only [hI, ih, zipLists, List.length_zipWith]

theorem sameLength_spec : ∀ (ls : List (List Val)), sameLength ls = true → ∃ n, ∀ l ∈ ls, l.length = n := by
  intro ls h
  cases ls with
  | nil => exact ⟨0, by simp⟩
  | cons l ls =>
    refine ⟨l.length, ?_⟩
    intro x hx
    simp only [sameLength, List.all_eq_true, beq_iff_eq] at h
    simp only [List.mem_cons] at hx
    rcases hx with rfl | hx
    · rfl
    · exact h x hx

theorem tuple_lenGet (ids : List Nat) : LenGetAs (tupleI ids) ids :=
  ⟨fun n hn => by simp [tupleI] at hn; omega, fun g hg i hi => by
    simp only [tupleI, Option.some.injEq] at hg
    subst hg; exact getIdx_ofNat ids i hi⟩

mutual
/-- **every composition, per direction** — by induction over the expression, so to any nesting depth: the model object is
    constructed, `len` and `get` agree with the defined sequence, and each walk is right at the level `dirOf` says -/
theorem denote_dir : ∀ (e : Expr) (l : List Val), defOf e = some l →
    ∃ I, denote e = .ok I ∧ LenGetAs I l ∧ FwdAt I l (dirOf e).1 ∧ BwdAt I l (dirOf e).2 ∧
      (e.hasLen = true → I.len = some l.length)
  | .array vs, l, h => by
    simp only [defOf, Option.some.injEq] at h; subst h
    exact ⟨_, rfl, (array_lawfulAs _).lg, (array_lawfulAs _).fwd, (array_lawfulAs _).bwd, fun _ => rfl⟩
  | .list vs, l, h => by
    simp only [defOf, Option.some.injEq] at h; subst h
    exact ⟨_, rfl, (list_lawfulAs _).lg, (list_lawfulAs _).fwd, (list_lawfulAs _).bwd, fun _ => rfl⟩
  | .tuple ids, l, h => by
    simp only [defOf, Option.some.injEq] at h; subst h
    refine ⟨_, rfl, emb_lenGet _ _ (tuple_lenGet ids), ?_, ?_, fun _ => by simp [embI, tupleI]⟩
    · simp only [dirOf]
      split
      · next hnd => exact emb_absFwd _ _ (tuple_abs ids hnd).1
      · trivial
    · simp only [dirOf]
      split
      · next hnd => exact emb_absBwd _ _ (tuple_abs ids hnd).2
      · trivial
  | .table slots, l, h => by
    simp only [defOf, Option.some.injEq] at h; subst h
    exact ⟨_, rfl, (table_lawfulAs _).lg, (table_lawfulAs _).fwd, (table_lawfulAs _).bwd, fun _ => rfl⟩
  | .tree t, l, h => by
    simp only [defOf, Option.some.injEq] at h; subst h
    have hl := emb_lawfulAs _ Val.int (tree_lawfulAs t)
    exact ⟨_, rfl, hl.lg, hl.fwd, hl.bwd, fun _ => by simp [embI, treeI, T.size_eq_length]⟩
  | .rtree ks, l, h => by
    simp only [defOf, Option.some.injEq] at h; subst h
    have hl := emb_lawfulAs _ Val.int (tree_lawfulAs (ks.foldl T.insert .nil))
    exact ⟨_, rfl, hl.lg, hl.fwd, hl.bwd, fun _ => by simp [embI, treeI, T.size_eq_length]⟩
  | .range args, l, h => by
    simp only [defOf] at h
    cases hr : rangeStack args with
    | none => simp [hr] at h
    | some abc =>
      obtain ⟨a, b, c⟩ := abc
      simp only [hr, Option.some.injEq] at h; subst h
      refine ⟨embI (rangeI a b c) Val.int, by simp [denote, hr], emb_lenGet _ _ (range_lawfulAs a b c).lg,
        emb_absFwd _ _ (range_abs a b c).1, emb_absBwd _ _ (range_abs a b c).2, fun _ => ?_⟩
      simp [embI, rangeI, rangeList]
  | .slice e args, l, h => by
    simp only [defOf] at h
    cases hs : defOf e with
    | none => simp [hs] at h
    | some l0 =>
      obtain ⟨I, hd, hlg, hfw, hbw, hlen⟩ := denote_dir e l0 hs
      simp only [hs] at h
      split at h
      · next hhl =>
        have hIlen := hlen hhl
        cases hst : sliceStack l0.length args with
        | none => simp [hst] at h
        | some abc =>
          obtain ⟨a, b, c⟩ := abc
          simp only [hst, Option.some.injEq] at h; subst h
          obtain ⟨ha0, han, hb0, hbn⟩ := sliceStack_bounds l0.length args a b c hst
          obtain ⟨A, rfl⟩ := Int.eq_ofNat_of_zero_le ha0
          obtain ⟨B, rfl⟩ := Int.eq_ofNat_of_zero_le hb0
          have hA : A ≤ l0.length := by omega
          have hB : B ≤ l0.length := by omega
          have hlg' := slice_len_get I hlg A B c hB
          refine ⟨sliceI I l0.length A B c, by simp [denote, hd, hIlen, hst], ⟨hlg'.1, hlg'.2⟩, ?_, ?_, fun _ => ?_⟩
          · simp only [dirOf, hs, hst]
            exact slice_fwdAt I A B c _ _ hfw hbw hA hB
          · simp only [dirOf, hs, hst]
            exact slice_bwdAt I A B c _ _ hfw hbw hA hB
          · have := hlg'.1 (rangeLen A B c) rfl
            simp [sliceI, this]
      · simp at h
  | .zip es, l, h => by
    simp only [defOf] at h
    cases hs : defOfList es with
    | none => simp [hs] at h
    | some ls =>
      obtain ⟨Is, hd, hall, hF, hB, hlens⟩ := denoteList_dir es ls hs
      simp only [hs] at h
      split at h
      · next hne =>
        simp only [Option.some.injEq] at h; subst h
        have hIs : Is ≠ [] := by
          intro e0; subst e0
          cases hall
          cases es with
          | nil => exact hne rfl
          | cons e es' =>
            simp only [defOfList] at hs
            cases h1 : defOf e <;> cases h2 : defOfList es' <;> simp [h1, h2] at hs
        refine ⟨embI (zipI Is) Val.tup, by simp [denote, hd], emb_lenGet _ _ (zip_lenGet Is ls hIs hall), ?_, ?_, fun hh => ?_⟩
        · simp only [dirOf]
          split
          · next hf => exact emb_fwdAs _ _ (zip_fwdAs Is ls hIs (hF hf))
          · trivial
        · simp only [dirOf, hs]
          split
          · next hb =>
            simp only [Bool.and_eq_true, zipBwdOk, Bool.or_eq_true] at hb
            rcases hb.2 with hsame | hemp
            · obtain ⟨n, hn⟩ := sameLength_spec ls hsame
              exact emb_bwdAs _ _ (zip_bwdAs Is ls hIs n hn (hB hb.1))
            · have hex : ∃ l ∈ ls, l = [] := by
                obtain ⟨l, hl, he⟩ := List.any_eq_true.mp hemp
                exact ⟨l, hl, List.isEmpty_iff.mp he⟩
              exact emb_bwdAs _ _ (zip_bwdAs_of_empty Is ls hIs (hB hb.1) hex)
          · trivial
        · have hz := zipLen_of_all Is ls (hlens (by simpa [Expr.hasLen] using hh))
          simp only [embI, zipI, hz, List.length_map]
      · simp at h
  | .enum e, l, h => by
    simp only [defOf] at h
    cases hs : defOf e with
    | none => simp [hs] at h
    | some l0 =>
      obtain ⟨I, hd, hlg, hfw, hbw, hlen⟩ := denote_dir e l0 hs
      simp only [hs] at h
      split at h
      · next hhl =>
        simp only [Option.some.injEq] at h; subst h
        have hIlen := hlen hhl
        refine ⟨embI (enumI I l0.length Val.int) Val.tup, by simp [denote, hd, hIlen],
          emb_lenGet _ _ (enum_lenGet I Val.int hlg), ?_, ?_, fun _ => ?_⟩
        · simp only [dirOf]
          cases hlv : (dirOf e).1 with
          | no => trivial
          | run => rw [hlv] at hfw; exact emb_fwdAs _ _ (enum_fwdAs I Val.int hfw)
          | abs => rw [hlv] at hfw; exact emb_fwdAs _ _ (enum_fwdAs I Val.int hfw.1)
        · simp only [dirOf]
          cases hlv : (dirOf e).2 with
          | no => trivial
          | run => rw [hlv] at hbw; exact emb_bwdAs _ _ (enum_bwdAs I Val.int hbw)
          | abs => rw [hlv] at hbw; exact emb_bwdAs _ _ (enum_bwdAs I Val.int hbw.1)
        · have hr : (embI (rangeI 0 l0.length 1) Val.int).len = some ((List.range l0.length).map (fun (j : Nat) => Val.int (j : Int))).length := by
            simp [embI, rangeI, rangeLen_count]
          have hz := zipLen_of_all [embI (rangeI 0 l0.length 1) Val.int, I] _ (All₂.cons hr (All₂.cons hIlen All₂.nil))
          rw [List.length_map]; exact hz
      · simp at h
  | .filter e m r, l, h => by
    simp only [defOf] at h
    cases hs : defOf e with
    | none => simp [hs] at h
    | some l0 =>
      obtain ⟨I, hd, _, hfw, hbw, _⟩ := denote_dir e l0 hs
      simp only [hs, Option.some.injEq] at h; subst h
      refine ⟨filterI I (testPred m r) filterFuel, by simp [denote, hd], filter_lenGet _ _ _ _, ?_, ?_,
        fun hh => by simp [Expr.hasLen] at hh⟩
      · simp only [dirOf, hs]
        split
        · next hf => exact filter_fwdAt I _ _ hfw hf
        · trivial
      · simp only [dirOf, hs]
        split
        · next hf => exact filter_bwdAt I _ _ hbw hf
        · trivial
  | .map e a b, l, h => by
    simp only [defOf] at h
    cases hs : defOf e with
    | none => simp [hs] at h
    | some l0 =>
      obtain ⟨I, hd, hlg, hfw, hbw, hlen⟩ := denote_dir e l0 hs
      simp only [hs, Option.some.injEq] at h; subst h
      exact ⟨mapI I (testFun a b), by simp [denote, hd], map_lenGet _ _ hlg, map_fwdAt _ _ hfw, map_bwdAt _ _ hbw,
        fun hh => by simp [mapI, hlen (by simpa [Expr.hasLen] using hh)]⟩
  | .mlist init ops, l, h => by
    simp only [defOf, Option.some.injEq] at h; subst h
    obtain ⟨ll, xs, e, c, v⟩ := mlistOf_spec init ops
    have hl := emb_lawfulAs _ Val.int (ll_lawfulAs ll xs c)
    rw [v] at hl
    refine ⟨embI (llI ll) Val.int, by simp [denote, e], hl.lg, hl.fwd, hl.bwd, fun _ => ?_⟩
    simp [embI, llI, c.count, ← v, LL.vals]
  | .marray init ops, l, h => by
    simp only [defOf, Option.some.injEq] at h; subst h
    obtain ⟨a, e, c⟩ := marrayOf_spec init ops
    have hl := emb_lawfulAs _ Val.int (ar_lawfulAs a _ c)
    refine ⟨embI (arI a) Val.int, by simp [denote, e], hl.lg, hl.fwd, hl.bwd, fun _ => ?_⟩
    simp [embI, arI, c.count]
  | .mtable init ops, l, h => by
    obtain ⟨t, e, r⟩ := mtableOf_spec init ops
    simp only [defOf, e, Option.some.injEq] at h; subst h
    obtain ⟨hl0, hn, _⟩ := tabI_lawful t _ r
    have hl := emb_lawfulAs _ Val.int hl0
    refine ⟨embI (tabI t) Val.int, by simp [denote, e], hl.lg, hl.fwd, hl.bwd, fun _ => ?_⟩
    have := hl0.len t.nitems rfl
    simp [embI, tabI, tableNI, this]
  | .mtree init ops, l, h => by
    simp only [defOf, Option.some.injEq] at h; subst h
    have hc := mtreeOf_count init ops
    have hl := emb_lawfulAs _ Val.int (treeNI_lawfulAs _ _ hc)
    refine ⟨embI (rbI (mtreeOf init ops)) Val.int, by simp [denote], hl.lg, hl.fwd, hl.bwd, fun _ => ?_⟩
    simp [embI, rbI, treeNI, hc, T.size_eq_length]
theorem denoteList_dir : ∀ (es : List Expr) (ls : List (List Val)), defOfList es = some ls →
    ∃ Is, denoteList es = .ok Is ∧ All₂ (fun I l => LenGetAs I l) Is ls ∧
      (allFwd es = true → All₂ (fun I l => FwdAs I l) Is ls) ∧ (allBwd es = true → All₂ (fun I l => BwdAs I l) Is ls) ∧
      (Expr.hasLenList es = true → All₂ (fun (I : Iterable Val) l => I.len = some l.length) Is ls)
  | [], ls, h => by
    simp only [defOfList, Option.some.injEq] at h; subst h
    exact ⟨[], rfl, All₂.nil, fun _ => All₂.nil, fun _ => All₂.nil, fun _ => All₂.nil⟩
  | e :: es, ls, h => by
    simp only [defOfList] at h
    cases h1 : defOf e with
    | none => simp [h1] at h
    | some l =>
      cases h2 : defOfList es with
      | none => simp [h1, h2] at h
      | some ls' =>
        simp only [h1, h2, Option.some.injEq] at h; subst h
        obtain ⟨I, hd, hlg, hfw, hbw, hlen⟩ := denote_dir e l h1
        obtain ⟨Is, hds, hall, hF, hB, hlens⟩ := denoteList_dir es ls' h2
        refine ⟨I :: Is, by simp [denoteList, hd, hds], All₂.cons hlg hall, fun hh => ?_, fun hh => ?_, fun hh => ?_⟩
        · simp only [allFwd, Bool.and_eq_true] at hh
          exact All₂.cons (hfw.fwd hh.1) (hF hh.2)
        · simp only [allBwd, Bool.and_eq_true] at hh
          exact All₂.cons (hbw.bwd hh.1) (hB hh.2)
        · simp only [Expr.hasLenList, Bool.and_eq_true] at hh
          exact All₂.cons (hlen hh.1) (hlens hh.2)
end

/-- every expression whose FORWARD walk is outside known-finding territory: foreach, len and get are right -/
theorem denote_fwd (e : Expr) (l : List Val) (h : specFwd e = some l) : ∃ I, denote e = .ok I ∧ LawfulFwdAs I l := by
  simp only [specFwd] at h
  split at h
  · next hok =>
    obtain ⟨I, hd, hlg, hfw, _, _⟩ := denote_dir e l h
    exact ⟨I, hd, hfw.fwd hok, hlg⟩
  · simp at h

theorem denote_bwd (e : Expr) (l : List Val) (h : specBwd e = some l) : ∃ I, denote e = .ok I ∧ LawfulBwdAs I l := by
  simp only [specBwd] at h
  split at h
  · next hok =>
    obtain ⟨I, hd, hlg, _, hbw, _⟩ := denote_dir e l h
    exact ⟨I, hd, hbw.bwd hok, hlg⟩
  · simp at h

/-- **every admissible composition is lawful** -/
theorem denote_lawful (e : Expr) (l : List Val) (h : specOf e = some l) :
    ∃ I, denote e = .ok I ∧ LawfulAs I l ∧ (e.hasLen = true → I.len = some l.length) := by
  simp only [specOf] at h
  split at h
  · next hok =>
    obtain ⟨I, hd, hlg, hfw, hbw, hlen⟩ := denote_dir e l h
    exact ⟨I, hd, ⟨hfw.fwd hok.1, hbw.bwd hok.2, hlg.len, hlg.get⟩, hlen⟩
  · simp at h

/-! ### exactness of the Slice regions on small instances -/

/-- does the model's forward / backward walk of `slice(array [0..n), a, b, c)` produce the defined sequence and Terminal -/
def sliceFwdOk (n a b : Nat) (c : Int) : Bool :=
  (sliceI (arrayI (List.range n)) n a b c).forward (n + 2) == (sliceSpec (List.range n) a b c, End.term)
def sliceBwdOk (n a b : Nat) (c : Int) : Bool :=
  (sliceI (arrayI (List.range n)) n a b c).backward (n + 2) == ((sliceSpec (List.range n) a b c).reverse, End.term)

/-- the steps `-k … k` -/
def stepsUpTo (k : Nat) : List Int := (List.range (2 * k + 1)).map (fun (i : Nat) => (i : Int) - k)

/-- the same over a Tuple (which absorbs a Terminal cursor) -/
def sliceFwdOkT (n a b : Nat) (c : Int) : Bool :=
  (sliceI (tupleI (List.range n)) n a b c).forward (n + 2) == (sliceSpec (List.range n) a b c, End.term)
def sliceBwdOkT (n a b : Nat) (c : Int) : Bool :=
  (sliceI (tupleI (List.range n)) n a b c).backward (n + 2) == ((sliceSpec (List.range n) a b c).reverse, End.term)

end Cello.Iter
