/-
  CelloProofs/Lemmas/RegistryKills.lean — removals that happen while a sweep (or another removal) is in progress:
  destructors that delete other objects (`K p` = what the destructor of `p` deletes).  The nested GC_Rem / finalisation of
  the model (`exec`, `finaliseLoop`, `gcSweep`, `gcRem` with an arbitrary `K`) refines the same recursion on the ledger of
  live managed addresses and the list of addresses waiting on the pending list.
-/
import Cello.Registry
import CelloProofs.Lemmas.RegistryHistory
set_option linter.unusedSectionVars false
set_option linter.unusedVariables false
namespace Cello.Registry
open RH

/-- the addresses still waiting on the pending list -/
def pendList (r : Reg) : List Nat := r.pending.toList.filterMap id

theorem findIdx?_none_filterMap (l : List (Option Nat)) (x : Nat) :
    l.findIdx? (fun y => y == some x) = none → x ∉ l.filterMap id := by
  induction l with
  | nil => intro _; simp
  | cons a l ih =>
    intro h
    rw [List.findIdx?_cons] at h
    split at h
    · cases h
    · rename_i hne
      have h' : l.findIdx? (fun y => y == some x) = none := by
        cases hl : l.findIdx? (fun y => y == some x) with
        | none => rfl
        | some i => rw [hl] at h; simp at h
      have := ih h'
      cases a with
      | none => simpa using this
      | some v =>
        simp only [List.filterMap_cons, id, List.mem_cons, not_or]
        refine ⟨?_, this⟩
        intro hxv; apply hne; simp [hxv]

theorem findIdx?_some_filterMap (l : List (Option Nat)) (x : Nat) :
    ∀ i, l.findIdx? (fun y => y == some x) = some i →
      x ∈ l.filterMap id ∧ (l.set i none).filterMap id = (l.filterMap id).erase x := by
  induction l with
  | nil => intro i h; simp at h
  | cons a l ih =>
    intro i h
    rw [List.findIdx?_cons] at h
    split at h
    · rename_i heq
      cases h
      have : a = some x := by simpa using heq
      subst this
      simp
    · rename_i hne
      cases hl : l.findIdx? (fun y => y == some x) with
      | none => rw [hl] at h; simp at h
      | some j =>
        rw [hl] at h; simp at h; subst h
        obtain ⟨h1, h2⟩ := ih j hl
        cases a with
        | none => simp [List.set_cons_succ, h1, h2]
        | some v =>
          have hvx : v ≠ x := by intro hv; apply hne; simp [hv]
          simp only [List.set_cons_succ, List.filterMap_cons, id, h2]
          refine ⟨List.mem_cons_of_mem _ h1, ?_⟩
          rw [List.erase_cons]
          simp [hvx]

/-- no destructor passes NULL to `del` (needed only for the variant of GC_Rem_Ptr without the NULL test, which matches NULL
    against the struck-off slots of the pending list) -/
def NoNull (K : Nat → List Nat) : Prop := ∀ p, 0 ∉ K p

/-- what the destructor theorems need about NULL: nothing when GC_Rem_Ptr returns at once for NULL (the source as it is
    now), `NoNull K` for the variant before fix d3e4e44 -/
def NullOk (c : Cfg) (K : Nat → List Nat) : Prop := c.remNullGuard = true ∨ NoNull K

/-- the commands for which GC_Rem_Ptr behaves as a search for the object: every command when GC_Rem_Ptr returns at once for
    NULL; without that test, a removal of a non-NULL pointer, or any removal while no sweep is in progress (empty pending
    list) -/
def CmdOk (c : Cfg) (r : Reg) : Cmd → Prop
  | .fin _ => True
  | .rem x => c.remNullGuard = true ∨ x ≠ 0 ∨ r.pending = #[]

/-- a pointer that passed the entry test of GC_Rem_Ptr is searched for as an object -/
theorem cmdOk_past_guard {c : Cfg} {r : Reg} {x : Nat} (h : c.remNullGuard = true ∨ x ≠ 0 ∨ r.pending = #[])
    (hg : ¬ (c.remNullGuard && x == 0) = true) : x ≠ 0 ∨ r.pending = #[] := by
  rcases h with h | h
  · left; intro hx; apply hg; simp [h, hx]
  · exact h

theorem findIdx?_none_of_not_mem (l : List (Option Nat)) (x : Nat) (h : x ∉ l.filterMap id) :
    l.findIdx? (fun y => y == some x) = none := by
  rw [List.findIdx?_eq_none_iff]
  intro y hy
  cases y with
  | none => simp
  | some v =>
    have : v ≠ x := by
      intro hv; apply h; rw [List.mem_filterMap]; exact ⟨some v, hy, by simp [hv]⟩
    simp [this]

/-- for a non-NULL pointer the raw comparison `freelist[i] is ptr` is the search for a slot holding that object -/
theorem pendPred_eq (x : Nat) (hx : x ≠ 0) : (fun y : Option Nat => y.getD 0 == x) = (fun y => y == some x) := by
  funext y
  cases y with
  | none => simp; exact fun h => hx h.symm
  | some v => simp

theorem findIdx_pend (r : Reg) (x : Nat) (hx : x ≠ 0 ∨ r.pending = #[]) :
    r.pending.findIdx? (fun y => y.getD 0 == x) = r.pending.findIdx? (fun y => y == some x) := by
  rcases hx with h | h
  · rw [pendPred_eq x h]
  · rw [h]; simp

/-- well-formedness while objects may be waiting on the pending list -/
structure WFP (c : Cfg) (r : Reg) (L : Ledger) : Prop where
  core : Core c r L noMark
  count : r.nitems = occ r.slots
  room : Room r
  bounded : Bounded r L
  nodup : (L.map Prod.fst).Nodup
  pzero : r.n = 0 → pendList r = []
  /-- no NULL object is waiting (the pending list is filled from the registry) -/
  pnz : 0 ∉ pendList r

theorem WF.toWFP {c : Cfg} {r : Reg} {L : Ledger} (h : WF c r L) : WFP c r L :=
  ⟨h.core, h.count, h.room, h.bounded, h.nodup, fun _ => by unfold pendList; rw [h.pend]; rfl,
   by unfold pendList; rw [h.pend]; simp⟩

theorem WFP.toWF {c : Cfg} {r : Reg} {L : Ledger} (h : WFP c r L) (hp : r.pending = #[]) : WF c r L :=
  ⟨h.core, h.count, h.room, h.bounded, h.nodup, hp⟩

/-- **GC_Rem_Ptr** with a pending list: an address waiting to be finalised is struck off (first occurrence); otherwise a
    registered address is erased from the table; otherwise nothing happens. -/
theorem remPtr_abs (c : Cfg) (r : Reg) (L : Ledger) (hwf : WFP c r L) (x : Nat)
    (hx00 : c.remNullGuard = true ∨ x ≠ 0 ∨ r.pending = #[]) :
    ∃ r1 fi, remPtr c r x = some (r1, fi) ∧ r1.running = r.running ∧ r1.mitems = r.mitems ∧
      ((x ∈ pendList r ∧ fi = some x ∧ pendList r1 = (pendList r).erase x ∧ WFP c r1 L ∧ r1.pending.size = r.pending.size) ∨
       (x ∉ pendList r ∧ x ∈ L.map Prod.fst ∧ fi = some x ∧ r1.pending = r.pending ∧ WFP c r1 (L.filter (fun y => y.1 != x)) ∧
          r1.nitems + 1 = r.nitems) ∨
       (x ∉ pendList r ∧ x ∉ L.map Prod.fst ∧ fi = none ∧ r1 = r)) := by
  unfold remPtr
  rcases Nat.eq_zero_or_pos r.n with h0 | hn
  · rw [dif_neg (by omega)]
    have hx : x ∉ L.map Prod.fst := by
      intro hx
      obtain ⟨i, hi, _⟩ := (mem_ledger_of_core hwf.core x).2 hx
      omega
    refine ⟨r, none, rfl, rfl, rfl, Or.inr (Or.inr ⟨?_, hx, rfl, rfl⟩)⟩
    rw [hwf.pzero h0]; simp
  · rw [dif_pos hn]
    by_cases hg : (c.remNullGuard && x == 0) = true
    · -- `ptr is NULL`: GC_Rem_Ptr returns at once; NULL is neither live nor waiting
      rw [if_pos hg]
      have hx0 : x = 0 := by simpa using (Bool.and_eq_true_iff.1 hg).2
      have hx : x ∉ L.map Prod.fst := by
        intro hx
        obtain ⟨⟨q, b⟩, hqb, hq⟩ := List.mem_map.1 hx
        exact hwf.bounded.nonnull q b hqb (by simpa [hx0] using hq)
      exact ⟨r, none, rfl, rfl, rfl, Or.inr (Or.inr ⟨by rw [hx0]; exact hwf.pnz, hx, rfl, rfl⟩)⟩
    have hx0 := cmdOk_past_guard hx00 hg
    rw [if_neg hg, findIdx_pend r x hx0]
    cases hfi : r.pending.findIdx? (fun y => y == some x) with
    | some i =>
      simp only []
      have hxne : x ≠ 0 := by
        rcases hx0 with h | h
        · exact h
        · rw [h] at hfi; simp at hfi
      rw [if_neg hxne]
      have hfi' : r.pending.toList.findIdx? (fun y => y == some x) = some i := by
        rw [← hfi]; cases r.pending; simp
      obtain ⟨h1, h2⟩ := findIdx?_some_filterMap _ x i hfi'
      refine ⟨_, some x, rfl, rfl, rfl, Or.inl ⟨h1, rfl, ?_, ⟨hwf.core.of_slots rfl HEq.rfl, hwf.count, hwf.room,
        ⟨hwf.bounded.bounds, hwf.bounded.aligned, hwf.bounded.zero, hwf.bounded.nonnull⟩, hwf.nodup, ?_, ?_⟩, by simp⟩⟩
      · unfold pendList; simp only [Array.toList_setIfInBounds]; exact h2
      · intro h0'; have : r.n = 0 := h0'; omega
      · unfold pendList; simp only [Array.toList_setIfInBounds]; rw [h2]
        exact fun h => hwf.pnz (List.mem_of_mem_erase h)
    | none =>
      simp only []
      have hfi' : r.pending.toList.findIdx? (fun y => y == some x) = none := by
        rw [← hfi]; cases r.pending; simp
      have hxp : x ∉ pendList r := findIdx?_none_filterMap _ x hfi'
      obtain ⟨z, hz, hze⟩ := empty_of_room r hwf.count hn hwf.room
      have inv : Inv (hashOf c) r.slots := hwf.core.inv.toInv z hz hze
      obtain ⟨⟨res, hres⟩, hfound, hnone⟩ := find_correct (hashOf c) r.slots inv hn x
      rw [hres]
      cases res with
      | none =>
        have hx : x ∉ L.map Prod.fst := fun hx => hnone hres ((mem_ledger_of_core hwf.core x).2 hx)
        exact ⟨r, none, rfl, rfl, rfl, Or.inr (Or.inr ⟨hxp, hx, rfl, rfl⟩)⟩
      | some i =>
        obtain ⟨e, he, hk⟩ := hfound i hres
        have hxL : x ∈ L.map Prod.fst := (mem_ledger_of_core hwf.core x).1 ⟨i.1, i.2, e, he, hk⟩
        obtain ⟨s', hs', inv', hz', hmem', hocc', _⟩ := eraseAt_spec (hashOf c) r.slots hwf.core.inv i.1 i.2 e he z hz hze
        simp only [hs']
        have hpos : 0 < occ r.slots := occ_pos_of_some r.slots i.1 i.2 e he
        refine ⟨_, some x, rfl, rfl, rfl, Or.inr (Or.inl ⟨hxp, hxL, rfl, rfl, ⟨⟨inv', ?_⟩, ?_, Or.inl ?_, ⟨?_, ?_, ?_, ?_⟩, ?_, ?_, hwf.pnz⟩, ?_⟩)⟩
        · intro e'
          show Mem s' e' ↔ _
          rw [hmem' e', hwf.core.ents e', List.mem_filter]
          constructor
          · rintro ⟨⟨a, b, d⟩, hne⟩
            refine ⟨⟨a, ?_⟩, b, d⟩
            simp only [bne_iff_ne, ne_eq]
            intro hkx
            obtain ⟨q, hq, hq'⟩ := (hwf.core.ents e').2 ⟨a, b, d⟩
            have := hwf.core.inv.distinct q i.1 hq i.2 e' e hq' he (by rw [hkx, hk])
            subst this
            rw [he] at hq'; cases hq'; exact hne rfl
          · rintro ⟨⟨a, hne⟩, b, d⟩
            refine ⟨⟨a, b, d⟩, ?_⟩
            intro heq; subst heq
            simp only [bne_iff_ne, ne_eq] at hne
            exact hne hk
        · show r.nitems - 1 = occ s'
          rw [hwf.count]; omega
        · show r.nitems - 1 < r.n
          rcases hwf.room with h | h <;> omega
        · intro p b hp; exact hwf.bounded.bounds p b (List.mem_filter.1 hp).1
        · intro p b hp; exact hwf.bounded.aligned p b (List.mem_filter.1 hp).1
        · intro h0'; have : r.n = 0 := h0'; omega
        · intro p b hp; exact hwf.bounded.nonnull p b (List.mem_filter.1 hp).1
        · exact List.Nodup.sublist (List.Sublist.map _ List.filter_sublist) hwf.nodup
        · intro h0'; have : r.n = 0 := h0'; omega
        · show r.nitems - 1 + 1 = r.nitems
          rw [hwf.count]; omega

/-- ledger of live managed objects and the addresses waiting on the pending list -/
abbrev Abs := Ledger × List Nat

/-- GC_Rem and finalisation on the abstract state: the same recursion as `exec`, on sets -/
def absExec (K : Nat → List Nat) (running : Bool) : (fuel : Nat) → Abs → Cmd → Option (Abs × List Nat)
  | 0, _, _ => none
  | fuel+1, a, .fin p =>
    match (K p).foldl (fun (acc : Option (Abs × List Nat)) y =>
        match acc with
        | none => none
        | some (a', t) =>
          match absExec K running fuel a' (.rem y) with
          | none => none
          | some (a'', t') => some (a'', t ++ t')) (some (a, [])) with
    | none => none
    | some (a', t) => some (a', t ++ [p])
  | fuel+1, a, .rem x =>
    if !running then some (a, [])
    else if x ∈ a.2 then absExec K running fuel (a.1, a.2.erase x) (.fin x)
    else if x ∈ a.1.map Prod.fst then absExec K running fuel (a.1.filter (fun y => y.1 != x), a.2) (.fin x)
    else some (a, [])

/-- the model's outcome simulates the abstract one: both fail, or both succeed with the same deallocation trace and related
    states -/
def Sim (c : Cfg) (running : Bool) (psize : Nat) : Option (Reg × List Nat) → Option (Abs × List Nat) → Prop
  | none, none => True
  | some (r', t), some (a', t') =>
      t = t' ∧ WFP c r' a'.1 ∧ pendList r' = a'.2 ∧ r'.running = running ∧ r'.pending.size = psize
  | _, _ => False

theorem exec_fin_succ (c : Cfg) (K : Nat → List Nat) (f : Nat) (r : Reg) (p : Nat) :
    exec c K (f+1) r (.fin p) =
      match (K p).foldl (fun (acc : Option (Reg × List Nat)) y =>
          match acc with
          | none => none
          | some (r', t) =>
            match exec c K f r' (.rem y) with
            | none => none
            | some (r'', t') => some (r'', t ++ t')) (some (r, [])) with
      | none => none
      | some (r', t) => some (r', t ++ [p]) := by
  rw [exec]; rfl

/-- the tail of GC_Rem (GC_Resize_Less, threshold) keeps everything the simulation looks at -/
theorem rem_tail (c : Cfg) (g : GoodCfg c) (r2 : Reg) (L : Ledger) (h : WFP c r2 L) :
    ∃ r3, resizeLess c r2 = some r3 ∧ WFP c { r3 with mitems := c.mitemsOf r3.nitems } L ∧
      pendList { r3 with mitems := c.mitemsOf r3.nitems } = pendList r2 ∧ r3.running = r2.running ∧
      r3.pending.size = r2.pending.size := by
  obtain ⟨r3, hr3, hmeta, hcore, hocc, hroom, hz⟩ := resizeLess_spec c g r2 L h.core h.count h.room
  have hpl : pendList { r3 with mitems := c.mitemsOf r3.nitems } = pendList r2 := by
    unfold pendList; show r3.pending.toList.filterMap id = _; rw [hmeta.pending]
  refine ⟨r3, hr3, ⟨hcore.of_slots rfl HEq.rfl, ?_, hroom, ⟨?_, ?_, ?_, h.bounded.nonnull⟩, h.nodup, ?_, by rw [hpl]; exact h.pnz⟩, ?_,
    hmeta.running, by rw [hmeta.pending]⟩
  · show r3.nitems = occ r3.slots; rw [hmeta.nitems, hocc]; exact h.count
  · intro p b hp; show r3.minptr ≤ p ∧ p ≤ r3.maxptr; rw [hmeta.minptr, hmeta.maxptr]; exact h.bounded.bounds p b hp
  · exact h.bounded.aligned
  · intro h0; show r3.minptr = uintptrMax ∧ r3.maxptr = 0; rw [hmeta.minptr, hmeta.maxptr]; exact h.bounded.zero (hz h0)
  · intro h0
    show pendList { r3 with mitems := c.mitemsOf r3.nitems } = []
    have : pendList { r3 with mitems := c.mitemsOf r3.nitems } = pendList r2 := by unfold pendList; show r3.pending.toList.filterMap id = _; rw [hmeta.pending]
    rw [this]; exact h.pzero (hz h0)
  · unfold pendList; show r3.pending.toList.filterMap id = _; rw [hmeta.pending]

/-- **Nested removals refine the abstract recursion**, for every destructor behaviour `K` and every fuel. -/
theorem exec_sim (c : Cfg) (g : GoodCfg c) (K : Nat → List Nat) (hK : NullOk c K) :
    ∀ (fuel : Nat) (r : Reg) (a : Abs) (cmd : Cmd), WFP c r a.1 → pendList r = a.2 → CmdOk c r cmd →
      Sim c r.running r.pending.size (exec c K fuel r cmd) (absExec K r.running fuel a cmd) := by
  intro fuel
  induction fuel with
  | zero => intro r a cmd _ _ _; simp [exec, absExec, Sim]
  | succ fuel ih =>
    intro r a cmd hwf hp hok
    cases cmd with
    | fin p =>
      rw [exec_fin_succ]
      simp only [absExec]
      -- the fold over the destructor's deletions keeps the simulation
      have hfold : ∀ (l : List Nat) (x : Option (Reg × List Nat)) (y : Option (Abs × List Nat)),
          (c.remNullGuard = true ∨ ∀ z ∈ l, z ≠ 0) →
          Sim c r.running r.pending.size x y →
          Sim c r.running r.pending.size
            (l.foldl (fun (acc : Option (Reg × List Nat)) y =>
              match acc with
              | none => none
              | some (r', t) =>
                match exec c K fuel r' (.rem y) with
                | none => none
                | some (r'', t') => some (r'', t ++ t')) x)
            (l.foldl (fun (acc : Option (Abs × List Nat)) y =>
              match acc with
              | none => none
              | some (a', t) =>
                match absExec K r.running fuel a' (.rem y) with
                | none => none
                | some (a'', t') => some (a'', t ++ t')) y) := by
        intro l
        induction l with
        | nil => intro x y _ h; exact h
        | cons z l ihl =>
          intro x y hz h
          simp only [List.foldl_cons]
          apply ihl _ _ (hz.imp id (fun h w hw => h w (List.mem_cons_of_mem _ hw)))
          match x, y, h with
          | none, none, _ => simp [Sim]
          | some (r', t), some (a', t'), h =>
            obtain ⟨h1, h2, h3, h4, h5⟩ := h
            subst h1
            have := ih r' a' (.rem z) h2 h3 (hz.elim Or.inl (fun h => Or.inr (Or.inl (h z List.mem_cons_self))))
            rw [h4, h5] at this
            simp only []
            match hx : exec c K fuel r' (.rem z), hy : absExec K r.running fuel a' (.rem z), this with
            | none, none, _ => simp [Sim]
            | some (r'', t1), some (a'', t2), h' =>
              obtain ⟨e1, e2, e3, e4, e5⟩ := h'
              subst e1
              exact ⟨rfl, e2, e3, e4, e5⟩
      have h0 : Sim c r.running r.pending.size (some (r, [])) (some (a, [])) := ⟨rfl, hwf, hp, rfl, rfl⟩
      have := hfold (K p) _ _ (hK.imp id (fun hK z hz hz0 => hK p (hz0 ▸ hz))) h0
      match hx : (K p).foldl _ (some (r, [])), hy : (K p).foldl _ (some (a, [])), this with
      | none, none, _ => simp [Sim]
      | some (r', t), some (a', t'), h' =>
        obtain ⟨e1, e2, e3, e4, e5⟩ := h'
        subst e1
        exact ⟨rfl, e2, e3, e4, e5⟩
    | rem x =>
      rw [exec_rem_succ]
      simp only [absExec]
      cases hrun : r.running with
      | false => simp only [Bool.not_false, if_true]; exact ⟨rfl, hwf, hp, hrun, rfl⟩
      | true =>
        simp only [Bool.not_true, Bool.false_eq_true, if_false]
        obtain ⟨r1, fi, hrem, hrun1, _, hcases⟩ := remPtr_abs c r a.1 hwf x hok
        rw [hrem]; simp only []
        -- what happens after the (possible) finalisation
        have tail : ∀ (x' : Option (Reg × List Nat)) (y' : Option (Abs × List Nat)), Sim c true r.pending.size x' y' →
            Sim c true r.pending.size
              (match x' with
               | none => none
               | some (r2, t) =>
                 match resizeLess c r2 with
                 | none => none
                 | some r3 => some ({ r3 with mitems := c.mitemsOf r3.nitems }, t)) y' := by
          intro x' y' h
          match x', y', h with
          | none, none, _ => simp [Sim]
          | some (r2, t), some (a2, t'), h =>
            obtain ⟨e1, e2, e3, e4, e5⟩ := h
            obtain ⟨r3, hr3, w3, p3, run3, sz3⟩ := rem_tail c g r2 a2.1 e2
            simp only [hr3]
            exact ⟨e1, w3, by rw [p3]; exact e3, by show r3.running = true; rw [run3]; exact e4, by show r3.pending.size = _; rw [sz3]; exact e5⟩
        rcases hcases with ⟨hx, hfi, hpl, hw1, hsz⟩ | ⟨hxp, hxL, hfi, hpend, hw1, _⟩ | ⟨hxp, hxL, hfi, hr1⟩
        · subst hfi
          rw [← hp, if_pos hx]
          simp only []
          have := ih r1 (a.1, (pendList r).erase x) (.fin x) hw1 hpl trivial
          rw [hrun1, hrun, hsz] at this
          exact tail _ _ this
        · subst hfi
          rw [← hp, if_neg hxp, if_pos hxL]
          simp only []
          have hpl : pendList r1 = pendList r := by unfold pendList; rw [hpend]
          have := ih r1 (a.1.filter (fun y => y.1 != x), pendList r) (.fin x) hw1 hpl trivial
          rw [hrun1, hrun, hpend] at this
          exact tail _ _ this
        · subst hfi; subst hr1
          rw [← hp, if_neg hxp, if_neg hxL]
          simp only []
          exact tail (some (r1, [])) (some (a, [])) ⟨rfl, hwf, hp, hrun, rfl⟩

def Abs.size (a : Abs) : Nat := a.1.length + a.2.length

/-- with fuel `2·size + 2` (finalise) / `2·size + 1` (remove) the abstract recursion answers, and never grows the state:
    every nested finalisation is paid for by an object leaving the ledger or the pending list -/
theorem absExec_ok (K : Nat → List Nat) (running : Bool) :
    ∀ (fuel : Nat) (a : Abs) (cmd : Cmd),
      (match cmd with | .fin _ => 2 * a.size + 2 | .rem _ => 2 * a.size + 1) ≤ fuel →
      ∃ a' t, absExec K running fuel a cmd = some (a', t) ∧ a'.size ≤ a.size := by
  intro fuel
  induction fuel with
  | zero => intro a cmd h; cases cmd <;> simp at h
  | succ fuel ih =>
    intro a cmd hf
    cases cmd with
    | fin p =>
      simp only at hf
      simp only [absExec]
      have hfold : ∀ (l : List Nat) (a1 : Abs) (t1 : List Nat), a1.size ≤ a.size →
          ∃ a' t, l.foldl (fun (acc : Option (Abs × List Nat)) y =>
              match acc with
              | none => none
              | some (a', t) =>
                match absExec K running fuel a' (.rem y) with
                | none => none
                | some (a'', t') => some (a'', t ++ t')) (some (a1, t1)) = some (a', t) ∧ a'.size ≤ a.size := by
        intro l
        induction l with
        | nil => intro a1 t1 h; exact ⟨a1, t1, rfl, h⟩
        | cons z l ihl =>
          intro a1 t1 h
          simp only [List.foldl_cons]
          obtain ⟨a2, t2, h2, hs2⟩ := ih a1 (.rem z) (by simp only; omega)
          rw [h2]
          exact ihl a2 (t1 ++ t2) (by omega)
      obtain ⟨a', t, h1, h2⟩ := hfold (K p) a [] (Nat.le_refl _)
      rw [h1]
      exact ⟨a', t ++ [p], rfl, h2⟩
    | rem x =>
      simp only at hf
      simp only [absExec]
      cases running with
      | false => exact ⟨a, [], by simp, Nat.le_refl _⟩
      | true =>
        simp only [Bool.not_true, Bool.false_eq_true, if_false]
        by_cases hP : x ∈ a.2
        · rw [if_pos hP]
          have hlen : (a.2.erase x).length = a.2.length - 1 := List.length_erase_of_mem hP
          have hpos : 0 < a.2.length := List.length_pos_of_mem hP
          obtain ⟨a', t, h1, h2⟩ := ih (a.1, a.2.erase x) (.fin x) (by simp only [Abs.size] at *; omega)
          exact ⟨a', t, h1, by simp only [Abs.size] at *; omega⟩
        · rw [if_neg hP]
          by_cases hL : x ∈ a.1.map Prod.fst
          · rw [if_pos hL]
            have hlt : (a.1.filter (fun y => y.1 != x)).length < a.1.length := by
              rw [List.length_filter_lt_length_iff_exists]
              obtain ⟨y, hy, hyx⟩ := List.mem_map.1 hL
              exact ⟨y, hy, by simp [hyx]⟩
            obtain ⟨a', t, h1, h2⟩ := ih (a.1.filter (fun y => y.1 != x), a.2) (.fin x) (by simp only [Abs.size] at *; omega)
            exact ⟨a', t, h1, by simp only [Abs.size] at *; omega⟩
          · rw [if_neg hL]
            exact ⟨a, [], rfl, Nat.le_refl _⟩

theorem wfp_count (c : Cfg) (r : Reg) (L : Ledger) (h : WFP c r L) : r.nitems = L.length :=
  wf_count c { r with pending := #[] } L
    ⟨h.core.of_slots rfl HEq.rfl, h.count, h.room, ⟨h.bounded.bounds, h.bounded.aligned, h.bounded.zero, h.bounded.nonnull⟩, h.nodup, rfl⟩

theorem pendList_length_le (r : Reg) : (pendList r).length ≤ r.pending.size := by
  unfold pendList
  have := List.length_filterMap_le id r.pending.toList
  simpa using this

/-- the model's fuel for nested destructors is enough -/
theorem nestFuel_ok (c : Cfg) (r : Reg) (L : Ledger) (h : WFP c r L) : 2 * Abs.size (L, pendList r) + 1 ≤ nestFuel r := by
  have h1 := wfp_count c r L h
  have h2 := pendList_length_le r
  unfold nestFuel Abs.size
  simp only
  omega

/-- **GC_Rem with arbitrary destructors**: from a well-formed state it answers; the new state is well formed for the
    abstract result, with the same deallocation trace. -/
theorem gcRem_sim (c : Cfg) (g : GoodCfg c) (K : Nat → List Nat) (hK : NullOk c K) (r : Reg) (L : Ledger) (h : WFP c r L) (x : Nat)
    (hx : c.remNullGuard = true ∨ x ≠ 0 ∨ r.pending = #[]) :
    ∃ r' a' t, gcRem c K r x = some (r', t) ∧ absExec K r.running (nestFuel r) (L, pendList r) (.rem x) = some (a', t) ∧
      WFP c r' a'.1 ∧ pendList r' = a'.2 ∧ r'.running = r.running ∧ r'.pending.size = r.pending.size ∧
      Abs.size a' ≤ Abs.size (L, pendList r) := by
  obtain ⟨a', t, ha, hsz⟩ := absExec_ok K r.running (nestFuel r) (L, pendList r) (.rem x) (nestFuel_ok c r L h)
  have hsim := exec_sim c g K hK (nestFuel r) r (L, pendList r) (.rem x) h rfl hx
  rw [ha] at hsim
  unfold gcRem
  match hx : exec c K (nestFuel r) r (.rem x), hsim with
  | some (r', t'), hs =>
    obtain ⟨e1, e2, e3, e4, e5⟩ := hs
    exact ⟨r', a', t, by rw [e1], ha, e2, e3, e4, e5, hsz⟩

end Cello.Registry
