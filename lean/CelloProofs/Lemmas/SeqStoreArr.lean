/-
  C04 helper lemmas: the store-level Array (`ArrS`: block of cells, memmove as an index-range copy, realloc as a new block)
  simulates the list-level `Arr` operation by operation, and never leaves the block.
-/
import Cello.SeqStore
import CelloProofs.Lemmas.SeqArr

namespace Cello.Seq
variable {α : Type}

namespace ArrS

/-- the first cells of the block hold the list `l` (all written) -/
def Pre (s : ArrS α) (l : List α) : Prop := ∀ k, k < l.length → s.cells[k]? = some (l[k]?)

/-- the abstraction relation: capacity, counter, and the records in use are the items -/
structure Abs (s : ArrS α) (a : Arr α) : Prop where
  size : s.cells.size = a.nslots
  len : s.nitems = a.items.length
  cell : s.Pre a.items

theorem Pre.le_size {s : ArrS α} {l : List α} (h : s.Pre l) : l.length ≤ s.cells.size := by
  cases hl : l.length with
  | zero => omega
  | succ n =>
    have := h n (by omega)
    by_cases hn : n < s.cells.size
    · omega
    · rw [Array.getElem?_eq_none (by omega)] at this; cases this

theorem Pre.rd {s : ArrS α} {l : List α} (h : s.Pre l) (k : Nat) (hk : k < l.length) : s.rd k = l[k]? := by
  unfold ArrS.rd; rw [h k hk]; rfl

theorem Pre.mono {s : ArrS α} {l l' : List α} (h : s.Pre l) (hl : ∀ k, k < l'.length → k < l.length ∧ l'[k]? = l[k]?) :
    s.Pre l' := by
  intro k hk
  obtain ⟨h1, h2⟩ := hl k hk
  rw [h k h1, h2]

theorem realloc_get (s : ArrS α) (n j : Nat) :
    (s.realloc n).cells[j]? = if j < n then some ((s.cells[j]?).getD none) else none := by
  simp only [realloc, Array.getElem?_ofFn]
  split <;> rfl

theorem realloc_size (s : ArrS α) (n : Nat) : (s.realloc n).cells.size = n := by simp [realloc]
theorem realloc_nitems (s : ArrS α) (n : Nat) : (s.realloc n).nitems = s.nitems := rfl

theorem Pre.realloc {s : ArrS α} {l : List α} (h : s.Pre l) (n : Nat) (hn : l.length ≤ n) : (s.realloc n).Pre l := by
  intro k hk
  rw [realloc_get, if_pos (by omega), h k hk]; rfl

theorem wr_get {s s' : ArrS α} {k : Nat} {x : α} (h : s.wr k x = some s') (j : Nat) :
    s'.cells[j]? = if j = k then some (some x) else s.cells[j]? := by
  unfold wr at h
  split at h
  · cases h
    simp only [Array.getElem?_setIfInBounds]
    by_cases hj : j = k
    · subst hj; simp [*]
    · rw [if_neg (by omega), if_neg hj]
  · cases h

theorem wr_size {s s' : ArrS α} {k : Nat} {x : α} (h : s.wr k x = some s') :
    s'.cells.size = s.cells.size ∧ s'.nitems = s.nitems ∧ s'.blk = s.blk := by
  unfold wr at h
  split at h
  · cases h; simp
  · cases h

theorem wr_some (s : ArrS α) (k : Nat) (x : α) (hk : k < s.cells.size) : ∃ s', s.wr k x = some s' := by
  unfold wr; rw [if_pos hk]; exact ⟨_, rfl⟩

theorem memmove_get {s s' : ArrS α} {d sr c : Nat} (h : s.memmove d sr c = some s') (j : Nat) (hj : j < s.cells.size) :
    s'.cells[j]? = if d ≤ j ∧ j < d + c then s.cells[sr + (j - d)]? else s.cells[j]? := by
  unfold memmove at h
  split at h
  · rename_i hb
    cases h
    simp only [Array.getElem?_ofFn, hj, dite_true]
    split
    · rename_i hc
      have : sr + (j - d) < s.cells.size := by omega
      simp [Array.getElem?_eq_getElem this]
    · simp [Array.getElem?_eq_getElem hj]
  · cases h

theorem memmove_size {s s' : ArrS α} {d sr c : Nat} (h : s.memmove d sr c = some s') :
    s'.cells.size = s.cells.size ∧ s'.nitems = s.nitems ∧ s'.blk = s.blk := by
  unfold memmove at h
  split at h
  · cases h; simp
  · cases h

theorem memmove_some (s : ArrS α) (d sr c : Nat) (h1 : sr + c ≤ s.cells.size) (h2 : d + c ≤ s.cells.size) :
    ∃ s', s.memmove d sr c = some s' := by
  unfold memmove; rw [if_pos ⟨h1, h2⟩]; exact ⟨_, rfl⟩

/-! ### the prefix through writes and moves -/

theorem Pre.wr_snoc {s s' : ArrS α} {l : List α} {x : α} (h : s.Pre l) (hw : s.wr l.length x = some s') :
    s'.Pre (l ++ [x]) := by
  intro k hk
  simp only [List.length_append, List.length_singleton] at hk
  rw [wr_get hw]
  by_cases hkl : k = l.length
  · subst hkl; simp
  · rw [if_neg hkl, h k (by omega), List.getElem?_append_left (by omega)]

theorem Pre.wr_set {s s' : ArrS α} {l : List α} {x : α} {k : Nat} (h : s.Pre l) (hw : s.wr k x = some s') :
    s'.Pre (l.set k x) := by
  intro j hj
  simp only [List.length_set] at hj
  rw [wr_get hw, List.getElem?_set]
  by_cases hjk : j = k
  · subst hjk; simp [hj]
  · rw [if_neg hjk, if_neg (by omega), h j hj]

/-- `memmove` of the tail one cell up, then a write into the gap = insertion -/
theorem Pre.insert {s s1 s2 : ArrS α} {l : List α} {x : α} {k : Nat} (h : s.Pre l) (hk : k ≤ l.length)
    (hm : s.memmove (k + 1) k (l.length - k) = some s1) (hw : s1.wr k x = some s2) :
    s2.Pre (l.take k ++ x :: l.drop k) := by
  have hsz : l.length + 1 ≤ s.cells.size := by
    unfold memmove at hm
    split at hm
    · rename_i hb; omega
    · cases hm
  intro j hj
  rw [take_cons_drop_eq_insertIdx l k x hk] at hj ⊢
  rw [List.length_insertIdx_of_le_length hk] at hj
  rw [wr_get hw, List.getElem?_insertIdx]
  by_cases hjk : j = k
  · subst hjk; simp [hk]
  · rw [if_neg hjk, memmove_get hm j (by omega)]
    by_cases hlt : j < k
    · rw [if_neg (by omega), if_pos hlt, h j (by omega)]
    · rw [if_pos (by omega), if_neg hlt, if_neg hjk]
      have e : k + (j - (k + 1)) = j - 1 := by omega
      rw [e, h (j - 1) (by omega)]

/-- `memmove` of the tail one cell down = removal -/
theorem Pre.erase {s s1 : ArrS α} {l : List α} {k : Nat} (h : s.Pre l) (hk : k < l.length)
    (hm : s.memmove k (k + 1) (l.length - 1 - k) = some s1) : s1.Pre (l.take k ++ l.drop (k + 1)) := by
  have hsz := h.le_size
  intro j hj
  rw [take_drop_succ_eq_eraseIdx] at hj ⊢
  rw [List.length_eraseIdx_of_lt hk] at hj
  rw [memmove_get hm j (by omega), List.getElem?_eraseIdx]
  by_cases hlt : j < k
  · rw [if_neg (by omega), if_pos hlt, h j (by omega)]
  · rw [if_pos (by omega), if_neg hlt]
    have e : k + 1 + (j - k) = j + 1 := by omega
    rw [e, h (j + 1) (by omega)]

theorem Pre.wrFrom {l : List α} : ∀ (ys : List α) {s s' : ArrS α}, s.Pre l → s.wrFrom l.length ys = some s' →
    s'.Pre (l ++ ys) ∧ s'.cells.size = s.cells.size ∧ s'.nitems = s.nitems ∧ s'.blk = s.blk := by
  intro ys
  induction ys generalizing l with
  | nil => intro s s' h hw; simp only [ArrS.wrFrom] at hw; cases hw; simpa using h
  | cons y ys ih =>
    intro s s' h hw
    simp only [ArrS.wrFrom] at hw
    cases h1 : s.wr l.length y with
    | none => rw [h1] at hw; cases hw
    | some s1 =>
      rw [h1] at hw; simp only at hw
      have hp := h.wr_snoc h1
      have hlen : l.length + 1 = (l ++ [y]).length := by simp
      rw [hlen] at hw
      obtain ⟨g1, g2, g3, g4⟩ := ih hp hw
      obtain ⟨w1, w2, w3⟩ := wr_size h1
      refine ⟨by simpa using g1, by omega, by omega, by omega⟩

theorem wrFrom_some : ∀ (ys : List α) (s : ArrS α) (k : Nat), k + ys.length ≤ s.cells.size → ∃ s', s.wrFrom k ys = some s' := by
  intro ys
  induction ys with
  | nil => intro s k _; exact ⟨s, rfl⟩
  | cons y ys ih =>
    intro s k hk
    simp only [List.length_cons] at hk
    obtain ⟨s1, h1⟩ := wr_some s k y (by omega)
    simp only [ArrS.wrFrom, h1]
    exact ih s1 (k + 1) (by rw [(wr_size h1).1]; omega)

/-! ### reserve -/

theorem reserveMore_size (s : ArrS α) : s.reserveMore.cells.size = Seq.reserveMore s.nitems s.cells.size := by
  unfold ArrS.reserveMore Seq.reserveMore
  split <;> simp [realloc_size]

theorem reserveMore_nitems (s : ArrS α) : s.reserveMore.nitems = s.nitems := by
  unfold ArrS.reserveMore; split <;> rfl

theorem Pre.reserveMore {s : ArrS α} {l : List α} (h : s.Pre l) (hl : l.length ≤ s.nitems) : s.reserveMore.Pre l := by
  unfold ArrS.reserveMore
  split
  · exact h.realloc _ (by omega)
  · exact h

theorem reserveLess_size (s : ArrS α) : s.reserveLess.cells.size = Seq.reserveLess s.nitems s.cells.size := by
  unfold ArrS.reserveLess Seq.reserveLess
  split <;> simp [realloc_size]

theorem reserveLess_nitems (s : ArrS α) : s.reserveLess.nitems = s.nitems := by
  unfold ArrS.reserveLess; split <;> rfl

theorem Pre.reserveLess {s : ArrS α} {l : List α} (h : s.Pre l) (hl : l.length ≤ s.nitems) : s.reserveLess.Pre l := by
  unfold ArrS.reserveLess
  split
  · exact h.realloc _ (by omega)
  · exact h

/-! ### one store-level operation = the list-level operation -/

theorem Abs.capOk {s : ArrS α} {a : Arr α} (h : s.Abs a) : a.CapOk := by
  unfold Arr.CapOk; rw [← h.size]; exact h.cell.le_size

theorem push_sim {s : ArrS α} {a : Arr α} (h : s.Abs a) (x : α) :
    (s.push x).1.Abs (a.push x).1 ∧ (s.push x).2 = (a.push x).2 := by
  have hn : a.nitems = a.items.length := rfl
  let s0 : ArrS α := { s with nitems := s.nitems + 1 }
  have hp1 : s0.reserveMore.Pre a.items := (show s0.Pre a.items from h.cell).reserveMore (by show a.items.length ≤ s.nitems + 1; rw [h.len]; omega)
  have hsz : s0.reserveMore.cells.size = Seq.reserveMore (a.items.length + 1) a.nslots := by
    rw [reserveMore_size]; show Seq.reserveMore (s.nitems + 1) s.cells.size = _; rw [h.len, h.size]
  have hni : s0.reserveMore.nitems = a.items.length + 1 := by rw [reserveMore_nitems]; show s.nitems + 1 = _; rw [h.len]
  have hge := Arr.reserveMore_ge (a.items.length + 1) a.nslots
  obtain ⟨s2, hw⟩ := wr_some s0.reserveMore a.items.length x (by omega)
  have hw' : s0.reserveMore.wr (s0.reserveMore.nitems - 1) x = some s2 := by rw [hni]; exact hw
  have e : s.push x = (s2, .ok ()) := by
    show (match s0.reserveMore.wr (s0.reserveMore.nitems - 1) x with
      | some s2 => (s2, Res.ok ()) | none => (s, Res.ub)) = _
    rw [hw']
  rw [e]
  obtain ⟨w1, w2, _⟩ := wr_size hw
  refine ⟨⟨?_, ?_, ?_⟩, rfl⟩
  · show s2.cells.size = Seq.reserveMore (a.nitems + 1) a.nslots; rw [w1, hsz, hn]
  · show s2.nitems = (a.items ++ [x]).length; rw [w2, hni]; simp
  · exact hp1.wr_snoc hw

theorem pop_sim {s : ArrS α} {a : Arr α} (h : s.Abs a) :
    s.pop.1.Abs a.pop.1 ∧ s.pop.2 = a.pop.2 := by
  have hn : a.nitems = a.items.length := rfl
  unfold ArrS.pop Arr.pop
  by_cases h0 : s.nitems = 0
  · rw [if_pos h0, if_pos (by rw [hn, ← h.len]; exact h0)]; exact ⟨h, rfl⟩
  · rw [if_neg h0, if_neg (by rw [hn, ← h.len]; exact h0)]
    have hlast : s.nitems - 1 < a.items.length := by rw [← h.len]; omega
    rw [h.cell.rd _ hlast, List.getElem?_eq_getElem hlast]
    refine ⟨⟨?_, ?_, ?_⟩, rfl⟩
    · rw [reserveLess_size]; show Seq.reserveLess (s.nitems - 1) s.cells.size = Seq.reserveLess (a.nitems - 1) a.nslots
      rw [h.len, h.size, hn]
    · rw [reserveLess_nitems]; show s.nitems - 1 = _; rw [h.len]; simp
    · apply Pre.reserveLess (s := { s with nitems := s.nitems - 1 })
      · exact (show Pre { s with nitems := s.nitems - 1 } a.items from h.cell).mono (by
          intro k hk; simp only [List.length_dropLast] at hk
          exact ⟨by omega, by rw [List.getElem?_dropLast, if_pos hk]⟩)
      · show a.items.dropLast.length ≤ s.nitems - 1; rw [h.len]; simp

theorem pushAt_sim {s : ArrS α} {a : Arr α} (h : s.Abs a) (x : α) (i : Int) :
    (s.pushAt x i).1.Abs (a.pushAt x i).1 ∧ (s.pushAt x i).2 = (a.pushAt x i).2 := by
  have hn : a.nitems = a.items.length := rfl
  unfold ArrS.pushAt Arr.pushAt
  simp only [h.len, hn]
  by_cases hc : pushIdx a.items.length i < 0 ∨ pushIdx a.items.length i > (a.items.length : Int)
  · rw [if_pos hc, if_pos hc]; exact ⟨h, rfl⟩
  · rw [if_neg hc, if_neg hc]
    generalize hk : (pushIdx a.items.length i).toNat = k
    have hkl : k ≤ a.items.length := by omega
    let s0 : ArrS α := { s with nitems := a.items.length + 1 }
    have hp1 : s0.reserveMore.Pre a.items := (show s0.Pre a.items from h.cell).reserveMore (by show a.items.length ≤ a.items.length + 1; omega)
    have hsz : s0.reserveMore.cells.size = Seq.reserveMore (a.items.length + 1) a.nslots := by
      rw [reserveMore_size]; show Seq.reserveMore (a.items.length + 1) s.cells.size = _; rw [h.size]
    have hni : s0.reserveMore.nitems = a.items.length + 1 := by rw [reserveMore_nitems]
    have hge := Arr.reserveMore_ge (a.items.length + 1) a.nslots
    have hcnt : s0.reserveMore.nitems - 1 - k = a.items.length - k := by rw [hni]; omega
    obtain ⟨s2, hm⟩ := memmove_some s0.reserveMore (k + 1) k (a.items.length - k) (by omega) (by omega)
    obtain ⟨s3, hw⟩ := wr_some s2 k x (by rw [(memmove_size hm).1]; omega)
    show (match s0.reserveMore.memmove (k + 1) k (s0.reserveMore.nitems - 1 - k) with
      | none => (s, Res.ub)
      | some s2 => match s2.wr k x with
        | some s3 => (s3, Res.ok ())
        | none => (s, Res.ub)).1.Abs _ ∧ _
    rw [hcnt, hm]; simp only [hw]
    obtain ⟨m1, m2, _⟩ := memmove_size hm
    obtain ⟨w1, w2, _⟩ := wr_size hw
    refine ⟨⟨?_, ?_, ?_⟩, by first | rfl | trivial⟩
    · show s3.cells.size = Seq.reserveMore (a.items.length + 1) a.nslots; rw [w1, m1, hsz]
    · show s3.nitems = (a.items.take k ++ x :: a.items.drop k).length
      rw [w2, m2, hni]; simp; omega
    · exact hp1.insert hkl hm hw

theorem popAt_sim {s : ArrS α} {a : Arr α} (h : s.Abs a) (i : Int) :
    (s.popAt i).1.Abs (a.popAt i).1 ∧ (s.popAt i).2 = (a.popAt i).2 := by
  have hn : a.nitems = a.items.length := rfl
  unfold ArrS.popAt Arr.popAt
  simp only [h.len, hn]
  by_cases hc : normIdx a.items.length i < 0 ∨ normIdx a.items.length i ≥ (a.items.length : Int)
  · rw [if_pos hc, if_pos hc]; exact ⟨h, rfl⟩
  · rw [if_neg hc, if_neg hc]
    generalize hk : (normIdx a.items.length i).toNat = k
    have hkl : k < a.items.length := by omega
    rw [h.cell.rd k hkl, List.getElem?_eq_getElem hkl]
    simp only
    have hle := h.cell.le_size
    obtain ⟨s1, hm⟩ := memmove_some s k (k + 1) (a.items.length - 1 - k) (by omega) (by omega)
    rw [hm]; simp only
    obtain ⟨m1, m2, _⟩ := memmove_size hm
    have hlen' : (a.items.take k ++ a.items.drop (k + 1)).length = a.items.length - 1 := by
      simp; omega
    refine ⟨⟨?_, ?_, ?_⟩, by first | rfl | trivial⟩
    · rw [reserveLess_size]; show Seq.reserveLess (s1.nitems - 1) s1.cells.size = Seq.reserveLess (a.items.length - 1) a.nslots
      rw [m1, m2, h.len, h.size]
    · rw [reserveLess_nitems]; show s1.nitems - 1 = _; rw [m2, h.len, hlen']
    · have he : s1.Pre _ := h.cell.erase hkl hm
      apply Pre.reserveLess (s := { s1 with nitems := s1.nitems - 1 }) he
      show _ ≤ s1.nitems - 1; rw [m2, h.len, hlen']; omega

theorem get_sim {s : ArrS α} {a : Arr α} (h : s.Abs a) (i : Int) : s.get i = a.get i := by
  have hn : a.nitems = a.items.length := rfl
  unfold ArrS.get Arr.get
  simp only [h.len, hn]
  by_cases hc : normIdx a.items.length i < 0 ∨ normIdx a.items.length i ≥ (a.items.length : Int)
  · rw [if_pos hc, if_pos hc]
  · rw [if_neg hc, if_neg hc, h.cell.rd _ (by omega)]
    cases a.items[(normIdx a.items.length i).toNat]? <;> rfl

theorem set_sim {s : ArrS α} {a : Arr α} (h : s.Abs a) (i : Int) (x : α) :
    (s.set i x).1.Abs (a.set i x).1 ∧ (s.set i x).2 = (a.set i x).2 := by
  have hn : a.nitems = a.items.length := rfl
  unfold ArrS.set Arr.set
  simp only [h.len, hn]
  by_cases hc : normIdx a.items.length i < 0 ∨ normIdx a.items.length i ≥ (a.items.length : Int)
  · rw [if_pos hc, if_pos hc]; exact ⟨h, rfl⟩
  · rw [if_neg hc, if_neg hc]
    generalize hk : (normIdx a.items.length i).toNat = k
    have hkl : k < a.items.length := by omega
    rw [h.cell.rd k hkl, List.getElem?_eq_getElem hkl]
    have hle := h.cell.le_size
    obtain ⟨s1, hw⟩ := wr_some s k x (by omega)
    simp only [hw]
    obtain ⟨w1, w2, _⟩ := wr_size hw
    refine ⟨⟨?_, ?_, ?_⟩, by first | rfl | trivial⟩
    · show s1.cells.size = a.nslots; rw [w1, h.size]
    · show s1.nitems = (a.items.set k x).length; rw [w2, h.len]; simp
    · exact h.cell.wr_set hw

theorem readFrom_eq {s : ArrS α} {l : List α} (h : s.Pre l) : ∀ (n i : Nat), i + n ≤ l.length →
    s.readFrom i n = some ((l.drop i).take n) := by
  intro n
  induction n with
  | zero => intro i _; simp [ArrS.readFrom]
  | succ n ih =>
    intro i hi
    have hil : i < l.length := by omega
    simp only [ArrS.readFrom, h.rd i hil, List.getElem?_eq_getElem hil, ih (i + 1) (by omega)]
    simp only [Option.map_some]
    rw [List.drop_eq_getElem_cons hil, List.take_succ_cons]

theorem items?_eq {s : ArrS α} {a : Arr α} (h : s.Abs a) : s.items? = some a.items := by
  unfold ArrS.items?
  rw [readFrom_eq h.cell s.nitems 0 (by rw [h.len]; omega), h.len]
  simp

theorem allLive_true {s : ArrS α} {l : List α} (h : s.Pre l) (i j : Nat) (hj : j ≤ l.length) : s.allLive i j = true := by
  unfold ArrS.allLive
  by_cases hij : i ≤ j
  · rw [readFrom_eq h (j - i) i (by omega)]; rfl
  · have : j - i = 0 := by omega
    rw [this]; rfl

theorem scan_eq [BEq α] {s : ArrS α} {l : List α} (h : s.Pre l) (x : α) : ∀ (n i : Nat), i + n = l.length →
    s.scan x n i = .ok (((l.drop i).findIdx? (· == x)).map (· + i)) := by
  intro n
  induction n with
  | zero => intro i hi; simp [ArrS.scan, List.drop_eq_nil_of_le (show l.length ≤ i by omega)]
  | succ n ih =>
    intro i hi
    have hil : i < l.length := by omega
    simp only [ArrS.scan, h.rd i hil, List.getElem?_eq_getElem hil]
    rw [List.drop_eq_getElem_cons hil, List.findIdx?_cons]
    by_cases hx : (l[i] == x) = true
    · simp [hx]
    · simp only [hx, Bool.false_eq_true, if_false]
      rw [ih (i + 1) (by omega)]
      cases (List.drop (i + 1) l).findIdx? (· == x) with
      | none => rfl
      | some j => simp only [Option.map_some]; congr 2; omega

theorem scan_sim [BEq α] {s : ArrS α} {a : Arr α} (h : s.Abs a) (x : α) :
    s.scan x s.nitems 0 = .ok (a.items.findIdx? (· == x)) := by
  rw [scan_eq h.cell x s.nitems 0 (by rw [h.len]; omega)]
  simp

theorem mem_sim [BEq α] {s : ArrS α} {a : Arr α} (h : s.Abs a) (x : α) : s.mem x = .ok (a.mem x) := by
  unfold ArrS.mem Arr.mem
  rw [scan_sim h x]
  simp only
  cases hf : a.items.findIdx? (· == x) with
  | none => rw [(findIdx?_none_any _ _).1 hf]; rfl
  | some i => rw [findIdx?_some_any _ _ _ hf]; rfl

theorem rem_sim [BEq α] {s : ArrS α} {a : Arr α} (h : s.Abs a) (x : α) :
    (s.rem x).1.Abs (a.rem x).1 ∧ (s.rem x).2 = (a.rem x).2 := by
  unfold ArrS.rem Arr.rem
  rw [scan_sim h x]
  cases hf : a.items.findIdx? (· == x) with
  | none => exact ⟨h, rfl⟩
  | some i => exact popAt_sim h _

theorem clear_sim {s : ArrS α} {a : Arr α} (h : s.Abs a) :
    s.clear.1.Abs a.clear ∧ s.clear.2 = .ok () := by
  unfold ArrS.clear
  rw [allLive_true h.cell 0 s.nitems (by rw [h.len]; omega), if_pos rfl]
  refine ⟨⟨rfl, rfl, ?_⟩, rfl⟩
  intro k hk; simp [Arr.clear] at hk

theorem concat_sim {s : ArrS α} {a : Arr α} (h : s.Abs a) (ys : List α) :
    (s.concat ys).1.Abs (a.concat ys).1 ∧ (s.concat ys).2 = (a.concat ys).2 := by
  have hn : a.nitems = a.items.length := rfl
  let s0 : ArrS α := { s with nitems := s.nitems + ys.length }
  have hp1 : s0.reserveMore.Pre a.items :=
    (show s0.Pre a.items from h.cell).reserveMore (by show a.items.length ≤ s.nitems + ys.length; rw [h.len]; omega)
  have hsz : s0.reserveMore.cells.size = Seq.reserveMore (a.items.length + ys.length) a.nslots := by
    rw [reserveMore_size]; show Seq.reserveMore (s.nitems + ys.length) s.cells.size = _; rw [h.len, h.size]
  have hni : s0.reserveMore.nitems = a.items.length + ys.length := by
    rw [reserveMore_nitems]; show s.nitems + ys.length = _; rw [h.len]
  have hge := Arr.reserveMore_ge (a.items.length + ys.length) a.nslots
  obtain ⟨s2, hw⟩ := wrFrom_some ys s0.reserveMore a.items.length (by omega)
  have hw' : s0.reserveMore.wrFrom (s0.reserveMore.nitems - ys.length) ys = some s2 := by
    rw [hni, Nat.add_sub_cancel]; exact hw
  have e : s.concat ys = (s2, .ok ()) := by
    show (match s0.reserveMore.wrFrom (s0.reserveMore.nitems - ys.length) ys with
      | some s2 => (s2, Res.ok ()) | none => (s, Res.ub)) = _
    rw [hw']
  rw [e]
  obtain ⟨g1, g2, g3, _⟩ := Pre.wrFrom ys hp1 hw
  refine ⟨⟨?_, ?_, g1⟩, rfl⟩
  · show s2.cells.size = Seq.reserveMore (a.nitems + ys.length) a.nslots; rw [g2, hsz, hn]
  · show s2.nitems = (a.items ++ ys).length; rw [g3, hni]; simp

theorem resize_sim {s : ArrS α} {a : Arr α} (h : s.Abs a) (n : Nat) :
    (s.resize n).1.Abs (a.resize n).1 ∧ (s.resize n).2 = (a.resize n).2 := by
  unfold ArrS.resize Arr.resize
  by_cases h0 : n = 0
  · rw [if_pos h0, if_pos h0]; exact clear_sim h
  · rw [if_neg h0, if_neg h0, allLive_true h.cell n s.nitems (by rw [h.len]; omega), if_pos rfl]
    refine ⟨⟨?_, ?_, ?_⟩, rfl⟩
    · exact realloc_size _ _
    · show min n s.nitems = (a.items.take n).length; rw [h.len]; simp
    · apply Pre.realloc (s := { s with nitems := min n s.nitems })
      · exact (show Pre { s with nitems := min n s.nitems } a.items from h.cell).mono (by
          intro k hk; simp only [List.length_take] at hk
          exact ⟨by omega, by rw [List.getElem?_take, if_pos (by omega)]⟩)
      · simp only [List.length_take]; omega

theorem pushAll_sim : ∀ (ys : List α) {s : ArrS α} {a : Arr α}, s.Abs a →
    (s.pushAll ys).1.Abs (ys.foldl (fun a y => (a.push y).1) a) ∧ (s.pushAll ys).2 = .ok () := by
  intro ys
  induction ys with
  | nil => intro s a h; exact ⟨h, rfl⟩
  | cons y ys ih =>
    intro s a h
    obtain ⟨h1, h2⟩ := push_sim h y
    simp only [ArrS.pushAll, List.foldl_cons]
    have e2 : (s.push y).2 = .ok () := h2
    rcases hp : s.push y with ⟨s1, r⟩
    rw [hp] at h1 e2
    simp only at h1 e2
    subst e2
    exact ih h1

theorem assign_sim {s : ArrS α} {a : Arr α} (h : s.Abs a) (ys : List α) (b : Bool) :
    (s.assign ys b).1.Abs (a.assign ys b).1 ∧ (s.assign ys b).2 = (a.assign ys b).2 := by
  obtain ⟨c1, c2⟩ := clear_sim h
  unfold ArrS.assign Arr.assign
  rcases hc : s.clear with ⟨c, r⟩
  rw [hc] at c1 c2
  simp only at c1 c2
  subst c2
  simp only
  cases b with
  | false =>
    simp only [Bool.false_eq_true, if_false]
    exact pushAll_sim ys c1
  | true =>
    simp only [if_true]
    by_cases h0 : ys.length = 0
    · rw [if_pos h0]
      have : ys = [] := List.eq_nil_of_length_eq_zero h0
      subst this
      exact ⟨c1, rfl⟩
    · rw [if_neg h0]
      let m : ArrS α := ⟨Array.replicate ys.length none, ys.length, c.blk + 1⟩
      have hm : m.Pre ([] : List α) := by intro k hk; simp at hk
      obtain ⟨s2, hw⟩ := wrFrom_some ys m 0 (by simp [m])
      obtain ⟨g1, g2, g3, _⟩ := Pre.wrFrom ys hm hw
      show (match m.wrFrom 0 ys with
        | some s2 => (s2, Res.ok ()) | none => (s, Res.ub)).1.Abs _ ∧ _
      rw [hw]
      refine ⟨⟨?_, ?_, by simpa using g1⟩, rfl⟩
      · show s2.cells.size = ys.length; rw [g2]; simp [m]
      · show s2.nitems = ys.length; rw [g3]

theorem sortBy_sim {s : ArrS α} {a : Arr α} (h : s.Abs a) (f : α → α → Bool) :
    (s.sortBy f).1.Abs (a.sortBy f).1 ∧ (s.sortBy f).2 = (a.sortBy f).2 := by
  unfold ArrS.sortBy Arr.sortBy
  rw [items?_eq h]
  simp only
  have hp0 : s.Pre ([] : List α) := by intro k hk; simp at hk
  have hle := h.cell.le_size
  obtain ⟨s1, hw⟩ := wrFrom_some (Sort.sortList f a.items) s 0 (by rw [Sort.sortList_length]; omega)
  obtain ⟨g1, g2, g3, _⟩ := Pre.wrFrom _ hp0 hw
  rw [hw]
  refine ⟨⟨?_, ?_, by simpa using g1⟩, rfl⟩
  · show s1.cells.size = a.nslots; rw [g2, h.size]
  · show s1.nitems = (Sort.sortList f a.items).length; rw [g3, h.len, Sort.sortList_length]

/-- every operation of a history: the store-level step is the list-level step -/
theorem step_sim [BEq α] {s : ArrS α} {a : Arr α} (h : s.Abs a) (op : Op α) :
    (s.step op).1.Abs (a.step op).1 ∧ (s.step op).2 = (a.step op).2 := by
  cases op with
  | push x => exact push_sim h x
  | append x => exact push_sim h x
  | pop => exact pop_sim h
  | pushAt x i => exact pushAt_sim h x i
  | popAt i => exact popAt_sim h i
  | set i x => exact set_sim h i x
  | rem x => exact rem_sim h x
  | concat ys => exact concat_sim h ys
  | resize n => exact resize_sim h n
  | sort f => exact sortBy_sim h f
  | assign ys b => exact assign_sim h ys b

theorem new_abs (xs : List α) : (ArrS.new xs).Abs (Arr.new xs) := by
  refine ⟨by simp [ArrS.new, Arr.new], by simp [ArrS.new, Arr.new], ?_⟩
  intro k hk
  simp only [ArrS.new, Arr.new, List.getElem?_toArray, List.getElem?_map] at *
  rw [List.getElem?_eq_getElem hk]; rfl

/-! ### observations: iteration through record addresses, copy -/

/-- `collect` looks at `read` and `next` only along the positions it visits -/
theorem collect_congr {σ β : Type} (P : σ → Prop) (next next' : σ → Option σ) (read read' : σ → Option β)
    (hn : ∀ c, P c → next c = next' c ∧ ∀ c', next c = some c' → P c') (hr : ∀ c, P c → read c = read' c) :
    ∀ (fuel : Nat) (c : Option σ), (∀ c', c = some c' → P c') → collect next read fuel c = collect next' read' fuel c := by
  intro fuel
  induction fuel with
  | zero => intro c _; cases c <;> rfl
  | succ fuel ih =>
    intro c hc
    cases c with
    | none => rfl
    | some c =>
      have hp := hc c rfl
      simp only [collect, hr c hp, ← (hn c hp).1]
      cases read' c with
      | none => rfl
      | some x => simp only; rw [ih (next c) (fun c' h' => (hn c hp).2 c' h')]

theorem iterFwd_sim {s : ArrS α} {a : Arr α} (h : s.Abs a) : s.iterFwd = a.iterFwd := by
  have hn : a.nitems = a.items.length := rfl
  unfold ArrS.iterFwd Arr.iterFwd
  have e1 : s.iterInit = a.iterInit := by unfold ArrS.iterInit Arr.iterInit; rw [h.len, hn]
  rw [e1, h.len, hn]
  apply collect_congr (fun k => k < a.items.length)
  · intro k hk
    have e : s.iterNext k = a.iterNext k := by unfold ArrS.iterNext Arr.iterNext; rw [h.len, hn]
    refine ⟨e, ?_⟩
    intro c' hc'
    unfold ArrS.iterNext at hc'
    split at hc'
    · cases hc'
    · cases hc'; rw [h.len] at *; omega
  · intro k hk; exact h.cell.rd k hk
  · intro c' hc'
    unfold Arr.iterInit at hc'
    split at hc'
    · cases hc'
    · cases hc'; rw [hn] at *; omega

theorem iterBwd_sim {s : ArrS α} {a : Arr α} (h : s.Abs a) : s.iterBwd = a.iterBwd := by
  have hn : a.nitems = a.items.length := rfl
  unfold ArrS.iterBwd Arr.iterBwd
  have e1 : s.iterLast = a.iterLast := by unfold ArrS.iterLast Arr.iterLast; rw [h.len, hn]
  rw [e1, h.len, hn]
  apply collect_congr (fun k => k < a.items.length)
  · intro k hk
    refine ⟨rfl, ?_⟩
    intro c' hc'
    unfold ArrS.iterPrev at hc'
    split at hc'
    · cases hc'
    · cases hc'; omega
  · intro k hk; exact h.cell.rd k hk
  · intro c' hc'
    unfold Arr.iterLast at hc'
    split at hc'
    · cases hc'
    · cases hc'; rw [hn] at *; omega

theorem copy_sim {s : ArrS α} {a : Arr α} (h : s.Abs a) : s.copy.1.Abs a.copy ∧ s.copy.2 = .ok () := by
  unfold ArrS.copy Arr.copy
  rw [items?_eq h]
  have h0 : (⟨#[], 0, 0⟩ : ArrS α).Abs (⟨[], 0⟩ : Arr α) := ⟨rfl, rfl, by intro k hk; simp at hk⟩
  have := assign_sim h0 a.items true
  exact ⟨this.1, by rw [this.2]; rfl⟩

/-! ### the Array's own element as the argument: the list-level formulas of `Arr.pushElem` / `Arr.pushAtElem` are what the
    cells do (realloc → memmove → zero → read through the pointer → write) -/

theorem getPtr_sim {s : ArrS α} {a : Arr α} (h : s.Abs a) (k : Int) :
    (∀ x, a.get k = .ok x → s.getPtr k = .ok ⟨s.blk, (normIdx a.items.length k).toNat⟩ ∧
        (normIdx a.items.length k).toNat < a.items.length ∧ a.items[(normIdx a.items.length k).toNat]? = some x) ∧
    (∀ e, a.get k = .raised e → s.getPtr k = .raised e) ∧ a.get k ≠ .ub := by
  have hn : a.nitems = a.items.length := rfl
  unfold ArrS.getPtr Arr.get
  simp only [h.len, hn]
  by_cases hc : normIdx a.items.length k < 0 ∨ normIdx a.items.length k ≥ (a.items.length : Int)
  · simp only [if_pos hc]
    refine ⟨?_, ?_, ?_⟩
    · intro x hx; cases hx
    · intro e he; cases he; rfl
    · intro h; cases h
  · simp only [if_neg hc]
    have hkl : (normIdx a.items.length k).toNat < a.items.length := by omega
    rw [h.cell.rd _ hkl, List.getElem?_eq_getElem hkl]
    refine ⟨?_, ?_, ?_⟩
    · intro x hx; cases hx; exact ⟨rfl, hkl, rfl⟩
    · intro e he; cases he
    · intro h; cases h

theorem pushElem_sim [Inhabited α] {s : ArrS α} {a : Arr α} (h : s.Abs a) (k : Int) :
    (s.pushElem k).1.Abs (a.pushElem k).1 ∧ (s.pushElem k).2 = (a.pushElem k).2 := by
  have hn : a.nitems = a.items.length := rfl
  obtain ⟨g1, g2, g3⟩ := getPtr_sim h k
  unfold ArrS.pushElem Arr.pushElem
  cases hg : a.get k with
  | ub => exact absurd hg g3
  | raised e => rw [g2 e hg]; exact ⟨h, rfl⟩
  | ok x =>
    obtain ⟨p1, p2, p3⟩ := g1 x hg
    rw [p1]
    simp only
    generalize hkk : (normIdx a.items.length k).toNat = kk at *
    let s0 : ArrS α := { s with nitems := s.nitems + 1 }
    have hni : s0.reserveMore.nitems = a.items.length + 1 := by rw [reserveMore_nitems]; show s.nitems + 1 = _; rw [h.len]
    have hsz : s0.reserveMore.cells.size = Seq.reserveMore (a.items.length + 1) a.nslots := by
      rw [reserveMore_size]; show Seq.reserveMore (s.nitems + 1) s.cells.size = _; rw [h.len, h.size]
    have hge := Arr.reserveMore_ge (a.items.length + 1) a.nslots
    obtain ⟨s2, hz⟩ := wr_some s0.reserveMore a.items.length (default : α) (by omega)
    have hz' : s0.reserveMore.zero (s0.reserveMore.nitems - 1) = some s2 := by rw [hni]; exact hz
    obtain ⟨z1, z2, z3⟩ := wr_size hz
    have eq0 : s.pushPtr ⟨s.blk, kk⟩ = (match s2.deref ⟨s.blk, kk⟩ with
        | none => (s, Res.ub)
        | some x => match s2.wr (s2.nitems - 1) x with
          | some s3 => (s3, Res.ok ())
          | none => (s, Res.ub)) := by
      show (match s0.reserveMore.zero (s0.reserveMore.nitems - 1) with
        | none => (s, Res.ub)
        | some s2 => match s2.deref ⟨s.blk, kk⟩ with
          | none => (s, Res.ub)
          | some x => match s2.wr (s2.nitems - 1) x with
            | some s3 => (s3, Res.ok ())
            | none => (s, Res.ub)) = _
      rw [hz']
    rw [eq0]
    by_cases hgrow : a.nitems + 1 > a.nslots
    · -- the block is reallocated: the pointer dangles
      rw [if_pos hgrow]
      have hb : s2.blk = s.blk + 1 := by
        rw [z3]; unfold ArrS.reserveMore
        rw [if_pos (by show s.nitems + 1 > s.cells.size; rw [h.len, h.size]; exact hgrow)]; rfl
      have : s2.deref ⟨s.blk, kk⟩ = none := by unfold ArrS.deref; rw [if_neg (by simp only [hb]; omega)]
      rw [this]; exact ⟨h, rfl⟩
    · rw [if_neg hgrow]
      have hsame : s0.reserveMore = s0 := by
        unfold ArrS.reserveMore
        rw [if_neg (by show ¬ s.nitems + 1 > s.cells.size; rw [h.len, h.size]; exact hgrow)]
      have hb : s2.blk = s.blk := by rw [z3, hsame]
      have hrd : s2.rd kk = some x := by
        unfold ArrS.rd
        rw [wr_get hz, if_neg (by omega), hsame]
        show (s.cells[kk]?).getD none = some x
        rw [h.cell kk p2, p3]; rfl
      have : s2.deref ⟨s.blk, kk⟩ = some x := by unfold ArrS.deref; rw [if_pos hb.symm]; exact hrd
      rw [this]; simp only
      obtain ⟨s3, hw⟩ := wr_some s2 a.items.length x (by rw [z1]; omega)
      have hw' : s2.wr (s2.nitems - 1) x = some s3 := by rw [z2, hni]; exact hw
      rw [hw']
      obtain ⟨w1, w2, _⟩ := wr_size hw
      have hp2 : s2.Pre a.items := by
        intro j hj
        rw [wr_get hz, if_neg (by omega), hsame]; exact h.cell j hj
      refine ⟨⟨?_, ?_, hp2.wr_snoc hw⟩, rfl⟩
      · show s3.cells.size = Seq.reserveMore (a.nitems + 1) a.nslots; rw [w1, z1, hsz, hn]
      · show s3.nitems = (a.items ++ [x]).length; rw [w2, z2, hni]; simp

theorem pushAtElem_sim [Inhabited α] {s : ArrS α} {a : Arr α} (h : s.Abs a) (k i : Int) :
    (s.pushAtElem k i).1.Abs (a.pushAtElem k i).1 ∧ (s.pushAtElem k i).2 = (a.pushAtElem k i).2 := by
  have hn : a.nitems = a.items.length := rfl
  obtain ⟨g1, g2, g3⟩ := getPtr_sim h k
  unfold ArrS.pushAtElem Arr.pushAtElem
  cases hg : a.get k with
  | ub => exact absurd hg g3
  | raised e => rw [g2 e hg]; exact ⟨h, rfl⟩
  | ok x0 =>
    obtain ⟨p1, p2, p3⟩ := g1 x0 hg
    rw [p1]
    simp only [hn]
    by_cases hc : pushIdx a.items.length i < 0 ∨ pushIdx a.items.length i > (a.items.length : Int)
    · have e : s.pushAtPtr ⟨s.blk, (normIdx a.items.length k).toNat⟩ i = (s, .raised .indexOutOfBounds) := by
        unfold ArrS.pushAtPtr; simp only [h.len]; rw [if_pos hc]
      rw [e, if_pos hc]; exact ⟨h, rfl⟩
    · rw [if_neg hc]
      generalize hkk : (normIdx a.items.length k).toNat = kk at *
      generalize hjj : (pushIdx a.items.length i).toNat = jj
      have hjl : jj ≤ a.items.length := by omega
      let s0 : ArrS α := { s with nitems := a.items.length + 1 }
      have hni : s0.reserveMore.nitems = a.items.length + 1 := by rw [reserveMore_nitems]
      have hsz : s0.reserveMore.cells.size = Seq.reserveMore (a.items.length + 1) a.nslots := by
        rw [reserveMore_size]; show Seq.reserveMore (a.items.length + 1) s.cells.size = _; rw [h.size]
      have hge := Arr.reserveMore_ge (a.items.length + 1) a.nslots
      have hcnt : s0.reserveMore.nitems - 1 - jj = a.items.length - jj := by rw [hni]; omega
      obtain ⟨s2, hm⟩ := memmove_some s0.reserveMore (jj + 1) jj (a.items.length - jj) (by omega) (by omega)
      obtain ⟨m1, m2, m3⟩ := memmove_size hm
      obtain ⟨s3, hz⟩ := wr_some s2 jj (default : α) (by rw [m1]; omega)
      obtain ⟨z1, z2, z3⟩ := wr_size hz
      have hz' : s2.zero jj = some s3 := hz
      have eq0 : s.pushAtPtr ⟨s.blk, kk⟩ i = (match s3.deref ⟨s.blk, kk⟩ with
          | none => (s, Res.ub)
          | some x => match s3.wr jj x with
            | some s4 => (s4, Res.ok ())
            | none => (s, Res.ub)) := by
        unfold ArrS.pushAtPtr
        simp only [h.len]
        rw [if_neg hc, hjj]
        show (match s0.reserveMore.memmove (jj + 1) jj (s0.reserveMore.nitems - 1 - jj) with
          | none => (s, Res.ub)
          | some s2 => match s2.zero jj with
            | none => (s, Res.ub)
            | some s3 => match s3.deref ⟨s.blk, kk⟩ with
              | none => (s, Res.ub)
              | some x => match s3.wr jj x with
                | some s4 => (s4, Res.ok ())
                | none => (s, Res.ub)) = _
        rw [hcnt, hm]; simp only [hz']
      rw [eq0]
      by_cases hgrow : a.items.length + 1 > a.nslots
      · rw [if_pos hgrow]
        have hb : s3.blk = s.blk + 1 := by
          rw [z3, m3]; unfold ArrS.reserveMore
          rw [if_pos (by show a.items.length + 1 > s.cells.size; rw [h.size]; exact hgrow)]; rfl
        have : s3.deref ⟨s.blk, kk⟩ = none := by unfold ArrS.deref; rw [if_neg (by simp only [hb]; omega)]
        rw [this]; exact ⟨h, rfl⟩
      · rw [if_neg hgrow]
        have hsame : s0.reserveMore = s0 := by
          unfold ArrS.reserveMore
          rw [if_neg (by show ¬ a.items.length + 1 > s.cells.size; rw [h.size]; exact hgrow)]
        have hb : s3.blk = s.blk := by rw [z3, m3, hsame]
        have hp0 : s0.reserveMore.Pre a.items := by rw [hsame]; exact h.cell
        have hp3 : s3.Pre (a.items.take jj ++ default :: a.items.drop jj) := hp0.insert hjl hm hz
        have hlen3 : (a.items.take jj ++ default :: a.items.drop jj).length = a.items.length + 1 := by
          simp; omega
        have hrd : s3.rd kk = (a.items.take jj ++ default :: a.items.drop jj)[kk]? := hp3.rd kk (by omega)
        have hd : s3.deref ⟨s.blk, kk⟩ = (a.items.take jj ++ default :: a.items.drop jj)[kk]? := by
          unfold ArrS.deref; rw [if_pos hb.symm]; exact hrd
        rw [hd]
        have hkin : kk < (a.items.take jj ++ default :: a.items.drop jj).length := by omega
        rw [List.getElem?_eq_getElem hkin]
        simp only
        obtain ⟨s4, hw⟩ := wr_some s3 jj ((a.items.take jj ++ default :: a.items.drop jj)[kk]) (by rw [z1, m1]; omega)
        rw [hw]
        obtain ⟨w1, w2, _⟩ := wr_size hw
        refine ⟨⟨?_, ?_, hp3.wr_set hw⟩, rfl⟩
        · show s4.cells.size = a.nslots
          rw [w1, z1, m1, hsame]; exact h.size
        · show s4.nitems = ((a.items.take jj ++ default :: a.items.drop jj).set jj _).length
          rw [w2, z2, m2, hni, List.length_set, hlen3]

end ArrS
end Cello.Seq
