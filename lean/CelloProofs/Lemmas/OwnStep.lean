/-
  CelloProofs/Lemmas/OwnStep.lean — C05: every in-contract `step` of the world preserves the invariant and conserves
  identities; frame property of `step`.
-/
import CelloProofs.Lemmas.OwnTyped
set_option linter.unusedVariables false
set_option linter.unusedSimpArgs false

namespace Cello.Own
open List

/-- what one good step establishes -/
structure StepOK (w w' : World) (o : Obs) : Prop where
  inv : Inv w'
  issued : w'.issuedLog = ids o.issued ++ w.issuedLog
  retired : w'.retiredLog = ids o.retired ++ w.retiredLog
  cons : allIds w'.objs ++ ids o.retired ~ allIds w.objs ++ ids o.issued
  fresh : FreshFrom w.next o.issued
  next : w'.next = w.next + o.issued.length

theorem stepOK_bad {w : World} (hinv : Inv w) : StepOK w (badOp w).1 (badOp w).2 := by
  refine ⟨hinv, ?_, ?_, ?_, ?_, ?_⟩ <;> simp [badOp, FreshFrom]

theorem stepOK_commit {w : World} (hinv : Inv w) (c : Nat) (isBox : Bool) (cont : Option Cont) (r : Res Unit)
    (touched : List Nat) (hf : FreshFrom w.next r.issued)
    (hc : Conserves (oldToks w c) (newToks cont) r.issued r.retired)
    (hok : ∀ mk kvs, cont = some (.map mk kvs) → (keys kvs).Nodup) :
    StepOK w (commit w c isBox cont r touched).1 (commit w c isBox cont r touched).2 := by
  obtain ⟨h1, h2, h3⟩ := commit_inv hinv c isBox cont r touched hf hc hok
  refine ⟨h1, ?_, ?_, ?_, ?_, ?_⟩ <;> rw [h2] <;> simp only
  · exact h3
  · exact hf

theorem stepOK_seq {w : World} (hinv : Inv w) (c : Nat) (k : SeqKind) (ek : ElemKind) (r : Res (List Tok))
    (touched : List Nat) (wasBox : Bool) (old : List Tok) (hold : oldToks w c = old)
    (h : Conserves old r.val r.issued r.retired ∧ FreshFrom w.next r.issued) :
    StepOK w (commitSeq w c k ek r touched wasBox).1 (commitSeq w c k ek r touched wasBox).2 := by
  unfold commitSeq
  apply stepOK_commit hinv
  · exact h.2
  · rw [hold]; exact h.1
  · intro mk kvs he; simp at he

theorem stepOK_map {w : World} (hinv : Inv w) (c : Nat) (mk : MapKind) (r : Res (List KV))
    (touched : List Nat) (old : List Tok) (hold : oldToks w c = old)
    (h : Conserves old (kvToks r.val) r.issued r.retired ∧ FreshFrom w.next r.issued)
    (hk : (keys r.val).Nodup) :
    StepOK w (commitMap w c mk r touched).1 (commitMap w c mk r touched).2 := by
  unfold commitMap
  apply stepOK_commit hinv
  · exact h.2
  · rw [hold]; exact h.1
  · intro mk' kvs he
    simp only [Option.some.injEq, Cont.map.injEq] at he
    rw [← he.2]; exact hk

theorem nofresh {n : Nat} {l : List Tok} (h : l = []) : FreshFrom n l := by subst h; rfl

theorem oldToks_of_lookup {w : World} {c : Nat} {x : Cont} (h : lookup w.objs c = some x) : oldToks w c = x.toks := by
  simp [oldToks, h]

theorem oldToks_of_none {w : World} {c : Nat} (h : lookup w.objs c = none) : oldToks w c = [] := by
  simp [oldToks, h]

theorem inv_noraw {w : World} (hinv : Inv w) {c : Nat} {x : Cont} (h : lookup w.objs c = some x) : 0 ∉ ids x.toks := by
  intro h0
  have h1 : (0 : Nat) ∈ allIds w.objs := by
    have := ids_perm (allToks_erase h)
    exact this.mem_iff.mpr (by simp [h0])
  have h2 : (0 : Nat) ∈ w.issuedLog := hinv.cons.mem_iff.mpr (List.mem_append_right _ h1)
  have := (hinv.bound 0 h2).1
  omega

theorem inv_keys {w : World} (hinv : Inv w) {c : Nat} {mk : MapKind} {kvs : List KV}
    (h : lookup w.objs c = some (.map mk kvs)) : (keys kvs).Nodup :=
  hinv.mapsOK c mk kvs (mem_of_lookup h)

theorem isSome_false_iff {α : Type} {o : Option α} : ¬ (o.isSome = true) ↔ o = none := by
  cases o <;> simp

/-- **every in-contract operation** keeps the invariant and conserves identities -/
theorem step_ok {w : World} (hinv : Inv w) (op : Op) (hin : noKnownFinding w op = true) :
    StepOK w (step w op).1 (step w op).2 := by
  have hpos := hinv.pos
  cases op with
  | new c k =>
    simp only [step]
    split
    · exact stepOK_bad hinv
    · rename_i hfree
      have hnone : lookup w.objs c = none := by
        rcases hl : lookup w.objs c with _ | x
        · rfl
        · exfalso; apply hfree; right; simp [hl]
      apply stepOK_commit hinv
      · rfl
      · rw [oldToks_of_none hnone]; cases k <;> simp [Conserves, newToks, CKind.empty, Cont.toks, kvToks]
      · intro mk kvs he; cases k <;> simp [CKind.empty] at he <;> (obtain ⟨_, rfl⟩ := he; simp [keys])
  | newSeq c k ps =>
    simp only [step]
    split
    · exact stepOK_bad hinv
    · rename_i hfree
      have hnone : lookup w.objs c = none := by
        rcases hl : lookup w.objs c with _ | x
        · rfl
        · exfalso; apply hfree; right; simp [hl]
      exact stepOK_seq hinv c k .probe _ _ _ [] (oldToks_of_none hnone) ⟨by simp [Conserves], fresh_mkFresh _ _⟩
  | newMap c k kvs =>
    simp only [step]
    split
    · exact stepOK_bad hinv
    · rename_i hfree
      have hnone : lookup w.objs c = none := by
        rcases hl : lookup w.objs c with _ | x
        · rfl
        · exfalso; apply hfree; right; simp [hl]
      exact stepOK_map hinv c k _ _ [] (oldToks_of_none hnone)
        (by simpa using cons_mapSetMany k kvs w.next [] hpos (by simp)) (keys_mapSetMany k kvs w.next [] (by simp [keys]))
  | box c p =>
    simp only [step]
    split
    · exact stepOK_bad hinv
    · rename_i hfree
      have hnone : lookup w.objs c = none := by
        rcases hl : lookup w.objs c with _ | x
        · rfl
        · exfalso; apply hfree; right; simp [hl]
      apply stepOK_commit hinv
      · exact fresh_one _ _
      · rw [oldToks_of_none hnone]; simp [Conserves, newToks, Cont.toks]
      · intro mk kvs he; simp at he
  | push c p =>
    simp only [step]
    split
    · rename_i k xs hl
      exact stepOK_seq hinv c k .probe _ _ _ xs (oldToks_of_lookup hl) (cons_seqPush _ _ _)
    · rename_i k xs hl
      exact stepOK_seq hinv c k .box _ _ _ xs (oldToks_of_lookup hl)
        (by simp [withPointee, Conserves, FreshFrom])
    · exact stepOK_bad hinv
  | pushAt c i p =>
    simp only [step]
    split
    · rename_i xs hl
      exact stepOK_seq hinv c _ .probe _ _ _ xs (oldToks_of_lookup hl) (cons_arrayPushAt _ _ _ _)
    · rename_i xs hl
      exact stepOK_seq hinv c _ .probe _ _ _ xs (oldToks_of_lookup hl) (cons_listPushAt _ _ _ _)
    · rename_i xs hl
      exact stepOK_seq hinv c _ .box _ _ _ xs (oldToks_of_lookup hl) (cons_arrayPushAtBox _ _ _ _)
    · rename_i xs hl
      exact stepOK_seq hinv c _ .box _ _ _ xs (oldToks_of_lookup hl) (cons_listPushAtBox _ _ _ _)
    · exact stepOK_bad hinv
  | pop c =>
    simp only [step]
    split
    · rename_i k ek xs hl
      have := cons_seqPop xs
      exact stepOK_seq hinv c k ek _ _ _ xs (oldToks_of_lookup hl) ⟨this.1, nofresh this.2⟩
    · exact stepOK_bad hinv
  | popAt c i =>
    simp only [step]
    split
    · rename_i k ek xs hl
      have := cons_seqPopAt xs i
      exact stepOK_seq hinv c k ek _ _ _ xs (oldToks_of_lookup hl) ⟨this.1, nofresh this.2⟩
    · exact stepOK_bad hinv
  | set c i p =>
    simp only [step]
    split
    · rename_i k xs hl
      exact stepOK_seq hinv c k .probe _ _ _ xs (oldToks_of_lookup hl)
        (cons_seqSetProbe _ _ _ _ (by simpa [Cont.toks] using inv_noraw hinv hl))
    · rename_i k xs hl
      simp [noKnownFinding, hl] at hin
    · exact stepOK_bad hinv
  | rem c p =>
    simp only [step]
    split
    · rename_i k xs hl
      have := cons_seqRem xs p
      exact stepOK_seq hinv c k .probe _ _ _ xs (oldToks_of_lookup hl) ⟨this.1, nofresh this.2⟩
    · exact stepOK_bad hinv
  | resize c n =>
    simp only [step]
    split
    · rename_i ek xs hl
      have := cons_arrayResize xs n
      exact stepOK_seq hinv c _ ek _ _ _ xs (oldToks_of_lookup hl) ⟨this.1, nofresh this.2⟩
    · rename_i ek xs hl
      have hle : n ≤ xs.length := by
        simp only [noKnownFinding, hl] at hin
        simpa using hin
      have := cons_listResize xs n hle
      exact stepOK_seq hinv c _ ek _ _ _ xs (oldToks_of_lookup hl) ⟨this.1, nofresh this.2⟩
    · rename_i k kvs hl
      have := cons_mapResize k kvs n
      exact stepOK_map hinv c k _ _ (kvToks kvs) (oldToks_of_lookup hl) ⟨this.1, nofresh this.2⟩
        (keys_mapResize k kvs n (inv_keys hinv hl))
    · exact stepOK_bad hinv
  | sort c =>
    simp only [step]
    split
    · rename_i xs hl
      have := cons_seqSort xs
      exact stepOK_seq hinv c _ .probe _ _ _ xs (oldToks_of_lookup hl) ⟨this.1, nofresh this.2⟩
    · exact stepOK_bad hinv
  | concat c d =>
    simp only [step]
    split
    · exact stepOK_bad hinv
    · split
      · rename_i k xs _ src hl hd
        exact stepOK_seq hinv c k .probe _ _ _ xs (oldToks_of_lookup hl) (cons_seqConcatProbe _ _ _)
      · rename_i k xs _ src hl hd
        simp [noKnownFinding, srcIsBox, hd, Cont.isBox] at hin
      · exact stepOK_bad hinv
  | assign c d =>
    simp only [step]
    split
    · -- assign(x, x): nothing happens
      split
      · exact stepOK_bad hinv
      · rename_i x hcell hl
        apply stepOK_commit hinv
        · rfl
        · rw [oldToks_of_lookup hl]; simp [Conserves, newToks]
        · intro mk kvs he
          simp only [Option.some.injEq] at he
          exact inv_keys hinv (by rw [hl, he])
      · exact stepOK_bad hinv
    · rename_i hcd
      split
      · rename_i k ek xs _ src hl hd
        exact stepOK_seq hinv c k .probe _ _ _ xs (oldToks_of_lookup hl) (cons_seqAssignProbe _ _ _)
      · rename_i k _ xs _ src hl hd
        simp [noKnownFinding, srcIsBox, hd, Cont.isBox, hcd] at hin
      · rename_i k kvs _ src hl hd
        exact stepOK_map hinv c k _ _ (kvToks kvs) (oldToks_of_lookup hl) (cons_mapAssign k w.next kvs _ hpos)
          (keys_mapAssign k w.next kvs _)
      · -- sequence ← map.  List: the destination is cleared (every element finalised), then — source non-empty — the call
        -- raises: conservation holds either way.  Array: in contract only for an empty source.
        rename_i k ek xs _ src hl hd
        cases k with
        | list =>
          refine stepOK_seq hinv c .list .probe _ _ _ xs (oldToks_of_lookup hl) ?_
          simp only [seqAssignFromMap]
          split <;> simp [Conserves, FreshFrom]
        | array =>
          have hsrc : src = [] := by
            simp [noKnownFinding, srcIsBox, crossRefused, hl, hd, Cont.isBox, hcd] at hin; exact hin
          subst hsrc
          exact stepOK_seq hinv c .array .probe _ _ _ xs (oldToks_of_lookup hl) (by simp [seqAssignFromMap, Conserves, FreshFrom])
      · exact stepOK_bad hinv
  | copy c d =>
    simp only [step]
    split
    · exact stepOK_bad hinv
    · rename_i hfree
      have hnone : lookup w.objs c = none := by
        rcases hl : lookup w.objs c with _ | x
        · rfl
        · exfalso; apply hfree; right; simp [hl]
      split
      · rename_i k src hd
        exact stepOK_seq hinv c k .probe _ _ _ [] (oldToks_of_none hnone) (cons_seqAssignProbe _ _ _)
      · rename_i k src hd
        simp [noKnownFinding, srcIsBox, hd, Cont.isBox] at hin
      · rename_i k src hd
        exact stepOK_map hinv c k _ _ [] (oldToks_of_none hnone) (by simpa using cons_mapAssign k w.next [] src hpos)
          (keys_mapAssign k w.next [] src)
      · rename_i t hd
        simp [noKnownFinding, srcIsBox, hd, Cont.isBox] at hin
      · exact stepOK_bad hinv
  | mset c k v =>
    simp only [step]
    split
    · rename_i mk kvs hl
      exact stepOK_map hinv c mk _ _ (kvToks kvs) (oldToks_of_lookup hl)
        (cons_mapSet mk w.next kvs k v (by simpa [Cont.toks] using inv_noraw hinv hl))
        (keys_mapSet mk w.next kvs k v (inv_keys hinv hl)).1
    · exact stepOK_bad hinv
  | mrem c k =>
    simp only [step]
    split
    · rename_i mk kvs hl
      have := cons_mapRem kvs k
      exact stepOK_map hinv c mk _ _ (kvToks kvs) (oldToks_of_lookup hl) ⟨this.1, nofresh this.2⟩
        (keys_mapRem kvs k (inv_keys hinv hl))
    · exact stepOK_bad hinv
  | del c =>
    simp only [step]
    split
    · rename_i x hl
      apply stepOK_commit hinv
      · rfl
      · rw [oldToks_of_lookup hl]; simp [Conserves, newToks]
      · intro mk kvs he; simp at he
    · exact stepOK_bad hinv
  | bassign c d => simp [noKnownFinding] at hin
  | bref c p => simp [noKnownFinding] at hin
  | read c =>
    simp only [step]
    split
    · rename_i x hl
      apply stepOK_commit hinv
      · rfl
      · rw [oldToks_of_lookup hl]; simp [Conserves, newToks]
      · intro mk kvs he
        simp only [Option.some.injEq] at he
        exact inv_keys hinv (by rw [hl, he])
    · exact stepOK_bad hinv
  | typed c t =>
    simp only [step]
    have hfreeNone : ¬ (c ≥ maxConts ∨ (lookup w.objs c).isSome = true) → lookup w.objs c = none := by
      intro hfree
      rcases hl : lookup w.objs c with _ | x
      · rfl
      · exfalso; apply hfree; right; simp [hl]
    cases t with
    | push wk =>
      simp only [stepTyped]
      split
      · rename_i xs hl; simp [noKnownFinding, typedAtomic, hl] at hin
      · rename_i xs hl
        exact stepOK_seq hinv c .list .probe _ _ _ xs (oldToks_of_lookup hl) (cons_refused xs _ _)
      · exact stepOK_bad hinv
    | pushAt i wk =>
      simp only [stepTyped]
      split
      · rename_i xs hl
        have h1 : arrayPushAtWrong xs i = refused xs .indexOutOfBounds :=
          arrayPushAtWrong_oob (by simpa [noKnownFinding, typedAtomic, hl] using hin)
        rw [h1]
        exact stepOK_seq hinv c .array .probe _ _ _ xs (oldToks_of_lookup hl) (cons_refused xs _ _)
      · rename_i xs hl
        obtain ⟨e, he⟩ := listPushAtWrong_spec xs i
        rw [he]
        exact stepOK_seq hinv c .list .probe _ _ _ xs (oldToks_of_lookup hl) (cons_refused xs _ _)
      · exact stepOK_bad hinv
    | set i wk =>
      simp only [stepTyped]
      split
      · rename_i k xs hl
        obtain ⟨e, he⟩ := seqSetWrong_spec xs i
        rw [he]
        exact stepOK_seq hinv c k .probe _ _ _ xs (oldToks_of_lookup hl) (cons_refused xs _ _)
      · exact stepOK_bad hinv
    | rem wk =>
      simp only [stepTyped]
      split
      · rename_i k xs hl
        exact stepOK_seq hinv c k .probe _ _ _ xs (oldToks_of_lookup hl) (cons_refused xs _ _)
      · exact stepOK_bad hinv
    | concat args =>
      simp only [stepTyped]
      split
      · rename_i xs hl
        have hg : allGood args = true := by simpa [noKnownFinding, typedAtomic, hl] using hin
        have := cons_arrayConcatArgs_good w.next xs args hg
        exact stepOK_seq hinv c .array .probe _ _ _ xs (oldToks_of_lookup hl) ⟨this.1, this.2.1⟩
      · rename_i xs hl
        exact stepOK_seq hinv c .list .probe _ _ _ xs (oldToks_of_lookup hl) (cons_listConcatArgs _ _ _)
      · exact stepOK_bad hinv
    | mset k v =>
      simp only [stepTyped]
      split
      · rename_i mk kvs hl
        by_cases hg : ∃ a b, k = .pay a ∧ v = .pay b
        · obtain ⟨a, b, rfl, rfl⟩ := hg
          rw [mapSetArgs_good]
          exact stepOK_map hinv c mk _ _ (kvToks kvs) (oldToks_of_lookup hl)
            (cons_mapSet mk w.next kvs a b (by simpa [Cont.toks] using inv_noraw hinv hl))
            (keys_mapSet mk w.next kvs a b (inv_keys hinv hl)).1
        · rw [mapSetArgs_refused hg]
          exact stepOK_map hinv c mk _ _ (kvToks kvs) (oldToks_of_lookup hl) (cons_refusedKV kvs _ _) (inv_keys hinv hl)
      · exact stepOK_bad hinv
    | mrem wk =>
      simp only [stepTyped]
      split
      · rename_i mk kvs hl
        exact stepOK_map hinv c mk _ _ (kvToks kvs) (oldToks_of_lookup hl) (cons_refusedKV kvs _ _) (inv_keys hinv hl)
      · exact stepOK_bad hinv
    | newSeq k args =>
      simp only [stepTyped]
      split
      · exact stepOK_bad hinv
      · rename_i hfree
        have hnone := hfreeNone hfree
        split
        · exact stepOK_seq hinv c k .probe _ _ _ [] (oldToks_of_none hnone) ⟨by simp [Conserves], fresh_mkFresh _ _⟩
        · rename_i hng
          cases k with
          | array => simp [noKnownFinding, typedAtomic, hng] at hin
          | list =>
            simp only []
            have h := cons_listNewRefused w.next args
            apply stepOK_commit hinv
            · exact h.2.1
            · rw [oldToks_of_none hnone]; exact h.1
            · intro mk kvs he; simp at he
    | newMap k args =>
      simp only [stepTyped]
      split
      · exact stepOK_bad hinv
      · rename_i hfree
        have hnone := hfreeNone hfree
        split
        · exact stepOK_map hinv c k _ _ [] (oldToks_of_none hnone)
            (by simpa using cons_mapSetMany k (goodPairs args).1 w.next [] hpos (by simp))
            (keys_mapSetMany k _ w.next [] (by simp [keys]))
        · have h := cons_mapNewRefused k w.next args hpos
          apply stepOK_commit hinv
          · exact h.2
          · rw [oldToks_of_none hnone]; exact h.1
          · intro mk kvs he; simp at he

/-! ### frame: an operation changes only the container it is applied to -/

/-- the container an operation is applied to (the receiver; for `copy` the new container) -/
def Op.target : Op → Nat
  | .new c _ => c | .newSeq c _ _ => c | .newMap c _ _ => c | .box c _ => c | .push c _ => c | .pushAt c _ _ => c
  | .pop c => c | .popAt c _ => c | .set c _ _ => c | .rem c _ => c | .resize c _ => c | .sort c => c
  | .concat c _ => c | .assign c _ => c | .copy c _ => c | .mset c _ _ => c | .mrem c _ => c | .del c => c
  | .bassign c _ => c | .bref c _ => c | .read c => c | .typed c _ => c

theorem commit_objs (w : World) (c : Nat) (isBox : Bool) (cont : Option Cont) (r : Res Unit) (touched : List Nat) :
    (commit w c isBox cont r touched).1.objs = objsAfter w.objs c cont := by
  cases cont <;> rfl

theorem lookup_objsAfter_ne (objs : List (Nat × Cont)) (c : Nat) (cont : Option Cont) {e : Nat} (h : e ≠ c) :
    lookup (objsAfter objs c cont) e = lookup objs e := by
  cases cont with
  | none => exact lookup_erase_ne objs h
  | some y => simp [objsAfter, lookup_store, h]

theorem lookup_objsAfter_self (objs : List (Nat × Cont)) (c : Nat) (y : Cont) :
    lookup (objsAfter objs c (some y)) c = some y := by
  simp [objsAfter, lookup_store]

theorem commit_frame (w : World) (c : Nat) (isBox : Bool) (cont : Option Cont) (r : Res Unit) (touched : List Nat)
    {e : Nat} (h : e ≠ c) : lookup (commit w c isBox cont r touched).1.objs e = lookup w.objs e := by
  rw [commit_objs]; exact lookup_objsAfter_ne _ _ _ h

/-- **frame**: whatever the operation (in contract or not), every container other than its target is the same
    value afterwards -/
theorem step_frame (w : World) (op : Op) {e : Nat} (h : e ≠ op.target) :
    lookup (step w op).1.objs e = lookup w.objs e := by
  cases op with
  | typed c t =>
    simp only [Op.target] at h
    simp only [step]
    cases t <;> simp only [stepTyped] <;> (repeat' split) <;> first
      | rfl
      | exact commit_frame _ _ _ _ _ _ h
  | _ =>
    simp only [Op.target] at h
    simp only [step]
    (repeat' split) <;> first
        | rfl
        | exact commit_frame _ _ _ _ _ _ h

end Cello.Own
