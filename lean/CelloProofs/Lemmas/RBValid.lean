/-
  Lemmas/RBValid.lean — the Tree object (`root` + `nitems`): `Valid` is preserved by every operation of the model,
  no operation dereferences NULL from a valid tree, and each operation computes the specification's operation on the
  in-order sequence.  The operations that descend by `cmp`, move node payload or test `self is obj` take the hypothesis
  `SourceOk` (Lemmas/RBSource.lean): the model reads those parts of Tree.c from CelloGen.Tree.
-/
import CelloProofs.Lemmas.RBDel
import CelloProofs.Lemmas.RBIter

namespace Cello.RB
open Std
variable {α β : Type} {cmp : α → α → Ordering}

/-- the key has the size of the key type and the value the size of the value type (`sz` = `(ksize, vsize)`, bytes) -/
def Fits [Packed α] [Packed β] (sz : Nat × Nat) (e : α × β) : Prop :=
  8 * (Packed.words e.1).length = sz.1 ∧ 8 * (Packed.words e.2).length = sz.2

/-- a valid Tree: black root, no red node with a red child, equal black heights, strictly descending keys,
    `nitems` = number of nodes, and every stored key / value has the size of the Tree's key / value type -/
structure Valid [Packed α] [Packed β] (cmp : α → α → Ordering) (m : Tree α β) : Prop where
  shape : ValidT m.root
  ordered : Desc cmp (toList m.root)
  count : size m.root = m.nitems
  sized : ∀ e ∈ toList m.root, Fits m.sizes e

section
variable [Packed α] [Packed β]

/-- the abstraction function: a tree stands for its in-order sequence -/
@[reducible] def Tree.abs (m : Tree α β) : List (α × β) := toList m.root

/-- `get` of the specification as an outcome: KeyError for an absent key -/
def lookupOutcome : Option β → Outcome β
  | some v => .ok v
  | none => .raised .KeyError

theorem valid_mk0 (ks vs : Nat) : Valid cmp (Tree.mk0 ks vs : Tree α β) :=
  ⟨⟨rfl, trivial, trivial⟩, Desc.nil, rfl, fun _ h => by cases h⟩

theorem valid_empty : Valid cmp (Tree.empty : Tree α β) := valid_mk0 0 0

/-- the entries of a valid tree fit the layout its `Tree_Rem` uses -/
theorem Valid.fitsLay {m : Tree α β} (h : Valid cmp m) : ∀ e ∈ toList m.root, FitsLay m.lay e := by
  intro e he
  obtain ⟨h1, h2⟩ := h.sized e he
  simp only [Tree.sizes] at h1 h2
  constructor
  · show _ = m.ksize / 8; omega
  · show _ = m.vsize / 8; omega

omit [Packed α] [Packed β] in
theorem Spec.mem_rem (k : α) (l : List (α × β)) (e : α × β) (he : e ∈ Spec.rem cmp k l) : e ∈ l := by
  induction l with
  | nil => simp [Spec.rem] at he
  | cons a l ih =>
    obtain ⟨ak, av⟩ := a
    simp only [Spec.rem] at he
    split at he
    · exact List.mem_cons_of_mem _ he
    · rcases List.mem_cons.mp he with h | h
      · rw [h]; exact List.mem_cons_self
      · exact List.mem_cons_of_mem _ (ih h)

theorem Valid.len_eq {m : Tree α β} (h : Valid cmp m) : m.len = m.abs.length := by
  rw [Tree.len, ← h.count, size_eq_length]

/-- `Tree_Set` -/
theorem set_valid [TransCmp cmp] (hsrc : SourceOk) (m : Tree α β) (k : α) (v : β) (h : Valid cmp m) (hkv : Fits m.sizes (k, v)) :
    ∃ m', m.set cmp k v = some m' ∧ Valid cmp m' ∧ m'.abs = Spec.set cmp k v m.abs ∧ m'.sizes = m.sizes := by
  obtain ⟨t', fresh, e, hv⟩ := insAt_valid cmp m.root [] k v (ZipOK.root _ h.shape)
  obtain ⟨h1, h2⟩ := toList_insAt m.root [] k v t' fresh h.ordered e
  simp only [ctxL_nil, ctxR_nil, List.nil_append, List.append_nil] at h1
  refine ⟨{ m with root := t', nitems := if fresh then m.nitems + 1 else m.nitems }, by simp [Tree.set, hsrc.orient_set, e],
    ⟨hv, ?_, ?_, ?_⟩, h1, rfl⟩
  · simp only; rw [h1]; exact Spec.desc_set k v _ h.ordered
  · simp only
    rw [size_eq_length, h1, Spec.length_set k v _ h.ordered, h2, ← h.count, size_eq_length]
    cases (Spec.get cmp k (toList m.root)).isNone <;> simp
  · intro e he
    simp only at he
    rw [h1] at he
    rcases Spec.mem_set he with rfl | he
    · exact hkv
    · exact h.sized e he

/-- `Tree_Get` / `Tree_Mem` -/
theorem get_eq [TransCmp cmp] (hsrc : SourceOk) (m : Tree α β) (k : α) (h : Valid cmp m) :
    m.get cmp k = lookupOutcome (Spec.get cmp k m.abs) := by
  simp only [Tree.get, hsrc.orient_get, find_eq_get m.root k h.ordered, Tree.abs]
  cases Spec.get cmp k (toList m.root) <;> rfl

theorem mem_eq [TransCmp cmp] (hsrc : SourceOk) (m : Tree α β) (k : α) (h : Valid cmp m) :
    m.mem cmp k = (Spec.get cmp k m.abs).isSome := by
  simp only [Tree.mem, hsrc.orient_mem, find_eq_get m.root k h.ordered, Tree.abs]

/-- `Tree_Rem`: KeyError exactly for absent keys, with the tree unchanged -/
theorem rem_valid [LawfulPacked α] [LawfulPacked β] [TransCmp cmp] (hsrc : SourceOk) (m : Tree α β) (k : α) (h : Valid cmp m) :
    ∃ m' o, m.rem cmp k = some (m', o) ∧ Valid cmp m' ∧ m'.sizes = m.sizes ∧
      ((Spec.get cmp k m.abs = none ∧ m' = m ∧ o = .raised .KeyError) ∨
       ((Spec.get cmp k m.abs).isSome ∧ o = .ok () ∧ m'.abs = Spec.rem cmp k m.abs)) := by
  obtain ⟨r, e, hv⟩ := remAt_valid cmp m.root [] k (ZipOK.root _ h.shape)
  obtain ⟨h1, h2⟩ := toList_remAt (cmp := cmp) m.root [] k h.ordered
  -- the block that `Tree_Rem` moves is the whole entry, because every entry has the sizes of the tree's types
  rw [← remAt_eq hsrc.layout cmp m.lay m.root [] k h.fitsLay] at e
  rw [← remAt_eq hsrc.layout cmp m.lay m.root [] k h.fitsLay] at h1 h2
  cases r with
  | none =>
    exact ⟨m, _, by simp [Tree.rem, hsrc.orient_rem, e], h, rfl, Or.inl ⟨h1 e, rfl, rfl⟩⟩
  | some t' =>
    obtain ⟨g1, g2⟩ := h2 t' e
    simp only [ctxL_nil, ctxR_nil, List.nil_append, List.append_nil] at g2
    refine ⟨{ m with root := t', nitems := m.nitems - 1 }, _, by simp [Tree.rem, hsrc.orient_rem, e], ⟨hv t' rfl, ?_, ?_, ?_⟩, rfl,
      Or.inr ⟨g1, rfl, g2⟩⟩
    · simp only; rw [g2]; exact Spec.desc_rem k _ h.ordered
    · simp only
      have := Spec.length_rem k _ g1
      rw [size_eq_length, g2, ← h.count, size_eq_length]; omega
    · intro e he
      simp only at he
      rw [g2] at he
      exact h.sized e (Spec.mem_rem k _ e he)

theorem clear_valid (m : Tree α β) : Valid cmp m.clear ∧ m.clear.abs = [] ∧ m.clear.sizes = m.sizes :=
  ⟨⟨⟨rfl, trivial, trivial⟩, Desc.nil, rfl, fun _ h => by cases h⟩, rfl, rfl⟩

/-- `Tree_New` with initial bindings -/
theorem new_valid [TransCmp cmp] (hsrc : SourceOk) (ks vs : Nat) (init : List (α × β)) (hfit : ∀ e ∈ init, Fits (ks, vs) e) :
    ∃ m, Tree.new cmp ks vs init = some m ∧ Valid cmp m ∧
      m.abs = init.foldl (fun l kv => Spec.set cmp kv.1 kv.2 l) [] ∧ m.sizes = (ks, vs) := by
  have key : ∀ (init : List (α × β)) (m0 : Tree α β), Valid cmp m0 → (∀ e ∈ init, Fits m0.sizes e) →
      ∃ m, init.foldlM (fun m kv => m.set cmp kv.1 kv.2) m0 = some m ∧ Valid cmp m ∧
        m.abs = init.foldl (fun l kv => Spec.set cmp kv.1 kv.2 l) m0.abs ∧ m.sizes = m0.sizes := by
    intro init
    induction init with
    | nil => intro m0 h0 _; exact ⟨m0, rfl, h0, rfl, rfl⟩
    | cons kv init ih =>
      intro m0 h0 hf
      obtain ⟨m1, e1, v1, a1, s1⟩ := set_valid hsrc m0 kv.1 kv.2 h0 (hf kv (by simp))
      obtain ⟨m, e, v, a, s⟩ := ih m1 v1 (fun e he => by rw [s1]; exact hf e (by simp [he]))
      exact ⟨m, by simp [List.foldlM, e1, e], v, by rw [a, a1]; rfl, by rw [s, s1]⟩
  exact key init (Tree.mk0 ks vs) (valid_mk0 ks vs) hfit

/-- forward / backward iteration -/
theorem iterFwd_valid (m : Tree α β) (h : Valid cmp m) : m.iterFwd = some (m.abs, true) :=
  iterFwd_eq m h.count

theorem iterBwd_valid (m : Tree α β) (h : Valid cmp m) : m.iterBwd = some (m.abs.reverse, true) :=
  iterBwd_eq m h.count

/-- the loop of `Tree_Assign`: setting the bindings of a strictly descending list, in order, appends them -/
theorem assignLoop_valid [TransCmp cmp] (hsrc : SourceOk) (src : Tree α β) (hs : Valid cmp src) (ks : List (α × β)) (m : Tree α β)
    (hm : Valid cmp m) (hpre : m.abs ++ ks = src.abs) (hsz : m.sizes = src.sizes) :
    ∃ m', assignLoop cmp src ks m = some (m', .ok ()) ∧ Valid cmp m' ∧ m'.abs = src.abs ∧ m'.sizes = src.sizes := by
  induction ks generalizing m with
  | nil => exact ⟨m, rfl, hm, by simpa using hpre, hsz⟩
  | cons kv ks ih =>
    obtain ⟨k, v⟩ := kv
    have hd : Desc cmp (m.abs ++ (k, v) :: ks) := by rw [hpre]; exact hs.ordered
    have hmem : (k, v) ∈ src.abs := by rw [← hpre]; simp
    have hget : src.get cmp k = .ok v := by
      rw [get_eq hsrc src k hs, Spec.get_of_mem k v _ hs.ordered hmem]; rfl
    obtain ⟨m1, e1, v1, a1, s1⟩ := set_valid hsrc m k v hm (by rw [hsz]; exact hs.sized _ hmem)
    have hgt : ∀ a ∈ m.abs, cmp a.1 k = .gt := (desc_mid hd).2.2.1
    rw [Spec.set_all_gt k v _ hgt] at a1
    obtain ⟨m', e, hv, ha, hz⟩ := ih m1 v1 (by rw [a1, ← hpre]; simp) (by rw [s1, hsz])
    exact ⟨m', by simp [assignLoop, hget, e1, e], hv, ha, hz⟩

/-- `Tree_Assign` from another tree, `copy` -/
theorem assign_valid [TransCmp cmp] (hsrc : SourceOk) (dst src : Tree α β) (hs : Valid cmp src) :
    ∃ m', Tree.assign cmp dst src = some (m', .ok ()) ∧ Valid cmp m' ∧ m'.abs = src.abs ∧ m'.sizes = src.sizes := by
  obtain ⟨m', e, hv, ha, hz⟩ := assignLoop_valid hsrc src hs src.abs
    { dst.clear with ksize := src.ksize, vsize := src.vsize }
    ⟨⟨rfl, trivial, trivial⟩, Desc.nil, rfl, fun _ h => by cases h⟩ (by simp [Tree.abs, Tree.clear]) rfl
  exact ⟨m', by simp [Tree.assign, iterFwd_valid src hs, e], hv, ha, hz⟩

theorem copy_valid [TransCmp cmp] (hsrc : SourceOk) (src : Tree α β) (hs : Valid cmp src) :
    ∃ m', Tree.copy cmp src = some (m', .ok ()) ∧ Valid cmp m' ∧ m'.abs = src.abs ∧ m'.sizes = src.sizes :=
  assign_valid hsrc Tree.empty src hs

end

end Cello.RB
