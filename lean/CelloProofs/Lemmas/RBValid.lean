/-
  Lemmas/RBValid.lean — the Tree object (`root` + `nitems`): `Valid` is preserved by every operation of the model,
  no operation dereferences NULL from a valid tree, and each operation computes the specification's operation on the
  in-order sequence.
-/
import CelloProofs.Lemmas.RBDel
import CelloProofs.Lemmas.RBIter

namespace Cello.RB
open Std
variable {α β : Type} {cmp : α → α → Ordering}

/-- a valid Tree: black root, no red node with a red child, equal black heights, strictly descending keys, and
    `nitems` = number of nodes -/
structure Valid (cmp : α → α → Ordering) (m : Tree α β) : Prop where
  shape : ValidT m.root
  ordered : Desc cmp (toList m.root)
  count : size m.root = m.nitems

/-- the abstraction function: a tree stands for its in-order sequence -/
@[reducible] def Tree.abs (m : Tree α β) : List (α × β) := toList m.root

/-- `get` of the specification as an outcome: KeyError for an absent key -/
def lookupOutcome : Option β → Outcome β
  | some v => .ok v
  | none => .raised .KeyError

theorem valid_empty : Valid cmp (Tree.empty : Tree α β) :=
  ⟨⟨rfl, trivial, trivial⟩, Desc.nil, rfl⟩

theorem Valid.len_eq {m : Tree α β} (h : Valid cmp m) : m.len = m.abs.length := by
  rw [Tree.len, ← h.count, size_eq_length]

/-- `Tree_Set` -/
theorem set_valid [TransCmp cmp] (m : Tree α β) (k : α) (v : β) (h : Valid cmp m) :
    ∃ m', m.set cmp k v = some m' ∧ Valid cmp m' ∧ m'.abs = Spec.set cmp k v m.abs := by
  obtain ⟨t', fresh, e, hv⟩ := insAt_valid cmp m.root [] k v (ZipOK.root _ h.shape)
  obtain ⟨h1, h2⟩ := toList_insAt m.root [] k v t' fresh h.ordered e
  simp only [ctxL_nil, ctxR_nil, List.nil_append, List.append_nil] at h1
  refine ⟨⟨t', if fresh then m.nitems + 1 else m.nitems⟩, by simp [Tree.set, e], ⟨hv, ?_, ?_⟩, h1⟩
  · simp only; rw [h1]; exact Spec.desc_set k v _ h.ordered
  · simp only
    rw [size_eq_length, h1, Spec.length_set k v _ h.ordered, h2, ← h.count, size_eq_length]
    cases (Spec.get cmp k (toList m.root)).isNone <;> simp

/-- `Tree_Get` / `Tree_Mem` -/
theorem get_eq [TransCmp cmp] (m : Tree α β) (k : α) (h : Valid cmp m) :
    m.get cmp k = lookupOutcome (Spec.get cmp k m.abs) := by
  simp only [Tree.get, find_eq_get m.root k h.ordered, Tree.abs]
  cases Spec.get cmp k (toList m.root) <;> rfl

theorem mem_eq [TransCmp cmp] (m : Tree α β) (k : α) (h : Valid cmp m) :
    m.mem cmp k = (Spec.get cmp k m.abs).isSome := by
  simp only [Tree.mem, find_eq_get m.root k h.ordered, Tree.abs]

/-- `Tree_Rem`: KeyError exactly for absent keys, with the tree unchanged -/
theorem rem_valid [TransCmp cmp] (m : Tree α β) (k : α) (h : Valid cmp m) :
    ∃ m' o, m.rem cmp k = some (m', o) ∧ Valid cmp m' ∧
      ((Spec.get cmp k m.abs = none ∧ m' = m ∧ o = .raised .KeyError) ∨
       ((Spec.get cmp k m.abs).isSome ∧ o = .ok () ∧ m'.abs = Spec.rem cmp k m.abs)) := by
  obtain ⟨r, e, hv⟩ := remAt_valid cmp m.root [] k (ZipOK.root _ h.shape)
  obtain ⟨h1, h2⟩ := toList_remAt (cmp := cmp) m.root [] k h.ordered
  cases r with
  | none =>
    exact ⟨m, _, by simp [Tree.rem, e], h, Or.inl ⟨h1 e, rfl, rfl⟩⟩
  | some t' =>
    obtain ⟨g1, g2⟩ := h2 t' e
    simp only [ctxL_nil, ctxR_nil, List.nil_append, List.append_nil] at g2
    refine ⟨⟨t', m.nitems - 1⟩, _, by simp [Tree.rem, e], ⟨hv t' rfl, ?_, ?_⟩, Or.inr ⟨g1, rfl, g2⟩⟩
    · simp only; rw [g2]; exact Spec.desc_rem k _ h.ordered
    · simp only
      have := Spec.length_rem k _ g1
      rw [size_eq_length, g2, ← h.count, size_eq_length]; omega

theorem clear_valid (m : Tree α β) : Valid cmp m.clear ∧ m.clear.abs = [] := ⟨valid_empty, rfl⟩

/-- `Tree_New` with initial bindings -/
theorem new_valid [TransCmp cmp] (init : List (α × β)) :
    ∃ m, Tree.new cmp init = some m ∧ Valid cmp m ∧
      m.abs = init.foldl (fun l kv => Spec.set cmp kv.1 kv.2 l) [] := by
  have key : ∀ (init : List (α × β)) (m0 : Tree α β), Valid cmp m0 →
      ∃ m, init.foldlM (fun m kv => m.set cmp kv.1 kv.2) m0 = some m ∧ Valid cmp m ∧
        m.abs = init.foldl (fun l kv => Spec.set cmp kv.1 kv.2 l) m0.abs := by
    intro init
    induction init with
    | nil => intro m0 h0; exact ⟨m0, rfl, h0, rfl⟩
    | cons kv init ih =>
      intro m0 h0
      obtain ⟨m1, e1, v1, a1⟩ := set_valid m0 kv.1 kv.2 h0
      obtain ⟨m, e, v, a⟩ := ih m1 v1
      exact ⟨m, by simp [List.foldlM, e1, e], v, by rw [a, a1]; rfl⟩
  exact key init Tree.empty valid_empty

/-- forward / backward iteration -/
theorem iterFwd_valid (m : Tree α β) (h : Valid cmp m) : m.iterFwd = some (m.abs, true) :=
  iterFwd_eq m h.count

theorem iterBwd_valid (m : Tree α β) (h : Valid cmp m) : m.iterBwd = some (m.abs.reverse, true) :=
  iterBwd_eq m h.count

/-- the loop of `Tree_Assign`: setting the bindings of a strictly descending list, in order, appends them -/
theorem assignLoop_valid [TransCmp cmp] (src : Tree α β) (hs : Valid cmp src) (ks : List (α × β)) (m : Tree α β)
    (hm : Valid cmp m) (hpre : m.abs ++ ks = src.abs) :
    ∃ m', assignLoop cmp src ks m = some (m', .ok ()) ∧ Valid cmp m' ∧ m'.abs = src.abs := by
  induction ks generalizing m with
  | nil => exact ⟨m, rfl, hm, by simpa using hpre⟩
  | cons kv ks ih =>
    obtain ⟨k, v⟩ := kv
    have hd : Desc cmp (m.abs ++ (k, v) :: ks) := by rw [hpre]; exact hs.ordered
    have hmem : (k, v) ∈ src.abs := by rw [← hpre]; simp
    have hget : src.get cmp k = .ok v := by
      rw [get_eq src k hs, Spec.get_of_mem k v _ hs.ordered hmem]; rfl
    obtain ⟨m1, e1, v1, a1⟩ := set_valid m k v hm
    have hgt : ∀ a ∈ m.abs, cmp a.1 k = .gt := (desc_mid hd).2.2.1
    rw [Spec.set_all_gt k v _ hgt] at a1
    obtain ⟨m', e, hv, ha⟩ := ih m1 v1 (by rw [a1, ← hpre]; simp)
    exact ⟨m', by simp [assignLoop, hget, e1, e], hv, ha⟩

/-- `Tree_Assign` from another tree, `copy` -/
theorem assign_valid [TransCmp cmp] (dst src : Tree α β) (hs : Valid cmp src) :
    ∃ m', Tree.assign cmp dst src = some (m', .ok ()) ∧ Valid cmp m' ∧ m'.abs = src.abs := by
  obtain ⟨m', e, hv, ha⟩ := assignLoop_valid src hs src.abs dst.clear valid_empty (by simp [Tree.abs, Tree.clear])
  exact ⟨m', by simp [Tree.assign, iterFwd_valid src hs, e], hv, ha⟩

theorem copy_valid [TransCmp cmp] (src : Tree α β) (hs : Valid cmp src) :
    ∃ m', Tree.copy cmp src = some (m', .ok ()) ∧ Valid cmp m' ∧ m'.abs = src.abs :=
  assign_valid Tree.empty src hs

end Cello.RB
