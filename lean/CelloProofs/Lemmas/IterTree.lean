/- helper lemmas for C11: Tree iteration (successor / predecessor through child and parent pointers) is the in-order walk -/
import CelloProofs.Lemmas.IterRun

namespace Cello.Iter

variable {α : Type}

/-- the elements that follow the current subtree, read off the path to the root -/
def ctxAfter : List (Frame α) → List α
  | [] => []
  | .L k r :: c => k :: r.inorder ++ ctxAfter c
  | .R _ _ :: c => ctxAfter c

/-- the elements that precede the current subtree, nearest first -/
def ctxBefore : List (Frame α) → List α
  | [] => []
  | .R l k :: c => k :: l.inorder.reverse ++ ctxBefore c
  | .L _ _ :: c => ctxBefore c

/-- what a forward walk standing on `c` still has to yield -/
def restOf (c : Loc α) : List α := c.k :: c.r.inorder ++ ctxAfter c.ctx
/-- what a backward walk standing on `c` still has to yield -/
def prevOf (c : Loc α) : List α := c.k :: c.l.inorder.reverse ++ ctxBefore c.ctx

theorem T.size_eq_length (t : T α) : t.size = t.inorder.length := by
  induction t with
  | nil => rfl
  | node l k r ihl ihr => simp [T.size, T.inorder, ihl, ihr]; omega

theorem restOf_leftmost : ∀ (l : T α) (k : α) (r : T α) (ctx : List (Frame α)),
    restOf (leftmost l k r ctx) = l.inorder ++ k :: r.inorder ++ ctxAfter ctx := by
  intro l
  induction l with
  | nil => intro k r ctx; simp [leftmost, restOf, T.inorder]
  | node ll lk lr ihl _ =>
    intro k r ctx
    rw [leftmost, ihl]
    simp [T.inorder, ctxAfter]

theorem prevOf_rightmost : ∀ (r : T α) (l : T α) (k : α) (ctx : List (Frame α)),
    prevOf (rightmost l k r ctx) = r.inorder.reverse ++ k :: l.inorder.reverse ++ ctxBefore ctx := by
  intro r
  induction r with
  | nil => intro l k ctx; simp [rightmost, prevOf, T.inorder]
  | node rl rk rr _ ihr =>
    intro l k ctx
    rw [rightmost, ihr]
    simp [T.inorder, ctxBefore]

theorem climbNext_spec : ∀ (ctx : List (Frame α)) (child : T α),
    match climbNext ctx child with
    | none => ctxAfter ctx = []
    | some c => restOf c = ctxAfter ctx := by
  intro ctx
  induction ctx with
  | nil => intro child; simp [climbNext, ctxAfter]
  | cons f ctx ih =>
    intro child
    cases f with
    | L k r => simp [climbNext, ctxAfter, restOf]
    | R l k => simpa [climbNext, ctxAfter] using ih (.node l k child)

theorem climbPrev_spec : ∀ (ctx : List (Frame α)) (child : T α),
    match climbPrev ctx child with
    | none => ctxBefore ctx = []
    | some c => prevOf c = ctxBefore ctx := by
  intro ctx
  induction ctx with
  | nil => intro child; simp [climbPrev, ctxBefore]
  | cons f ctx ih =>
    intro child
    cases f with
    | R l k => simp [climbPrev, ctxBefore, prevOf]
    | L k r => simpa [climbPrev, ctxBefore] using ih (.node child k r)

theorem tree_fwd_from (t : T α) : ∀ (n : Nat) (c : Loc α), (restOf c).length = n →
    Run (treeI t).next (some c, .item c.k) (restOf c) := by
  intro n
  induction n using Nat.strongRecOn with
  | _ n ih =>
    intro c hn
    obtain ⟨l, k, r, ctx⟩ := c
    show Run (treeI t).next (some ⟨l, k, r, ctx⟩, .item k) (k :: r.inorder ++ ctxAfter ctx)
    refine Run.item _ _ _ ?_
    cases r with
    | node rl rk rr =>
      have e := restOf_leftmost rl rk rr (.R l k :: ctx)
      have : (restOf (leftmost rl rk rr (.R l k :: ctx))).length < n := by
        rw [e]; simp [restOf, T.inorder, ctxAfter] at hn ⊢; omega
      have h := ih _ this (leftmost rl rk rr (.R l k :: ctx)) rfl
      rw [e] at h
      simpa [treeI, locRes, T.inorder, ctxAfter] using h
    | nil =>
      have sp := climbNext_spec ctx (.node l k .nil)
      cases hc : climbNext ctx (.node l k .nil) with
      | none =>
        rw [hc] at sp
        simp only [treeI, hc, locRes, T.inorder, List.nil_append, sp]
        exact Run.term _
      | some c' =>
        rw [hc] at sp
        have : (restOf c').length < n := by
          rw [sp]; simp [restOf, T.inorder] at hn; omega
        have h := ih _ this c' rfl
        rw [sp] at h
        simpa [treeI, hc, locRes, T.inorder] using h

theorem tree_bwd_from (t : T α) : ∀ (n : Nat) (c : Loc α), (prevOf c).length = n →
    Run (treeI t).prev (some c, .item c.k) (prevOf c) := by
  intro n
  induction n using Nat.strongRecOn with
  | _ n ih =>
    intro c hn
    obtain ⟨l, k, r, ctx⟩ := c
    show Run (treeI t).prev (some ⟨l, k, r, ctx⟩, .item k) (k :: l.inorder.reverse ++ ctxBefore ctx)
    refine Run.item _ _ _ ?_
    cases l with
    | node ll lk lr =>
      have e := prevOf_rightmost lr ll lk (.L k r :: ctx)
      have : (prevOf (rightmost ll lk lr (.L k r :: ctx))).length < n := by
        rw [e]; simp [prevOf, T.inorder, ctxBefore] at hn ⊢; omega
      have h := ih _ this (rightmost ll lk lr (.L k r :: ctx)) rfl
      rw [e] at h
      simpa [treeI, locRes, T.inorder, ctxBefore] using h
    | nil =>
      have sp := climbPrev_spec ctx (.node .nil k r)
      cases hc : climbPrev ctx (.node .nil k r) with
      | none =>
        rw [hc] at sp
        simp only [treeI, hc, locRes, T.inorder, List.reverse_nil, List.nil_append, sp]
        exact Run.term _
      | some c' =>
        rw [hc] at sp
        have : (prevOf c').length < n := by
          rw [sp]; simp [prevOf, T.inorder] at hn; omega
        have h := ih _ this c' rfl
        rw [sp] at h
        simpa [treeI, hc, locRes, T.inorder] using h

theorem tree_lawfulAs (t : T α) : LawfulAs (treeI t) t.inorder := by
  refine ⟨?_, ?_, ?_, ?_⟩
  · intro s
    cases t with
    | nil => exact Run.term _
    | node l k r =>
      have h := tree_fwd_from (.node l k r) _ (leftmost l k r []) rfl
      rw [restOf_leftmost] at h
      simpa [treeI, locRes, T.inorder, ctxAfter] using h
  · intro s
    cases t with
    | nil => exact Run.term _
    | node l k r =>
      have h := tree_bwd_from (.node l k r) _ (rightmost l k r []) rfl
      rw [prevOf_rightmost] at h
      simpa [treeI, locRes, T.inorder, ctxBefore] using h
  · intro n hn
    simp only [treeI, Option.some.injEq] at hn
    rw [← hn, T.size_eq_length]
  · intro g hg; simp [treeI] at hg

end Cello.Iter
