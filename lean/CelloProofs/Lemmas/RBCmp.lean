/-
  Lemmas/RBCmp.lean — `Tree_Cmp` and `Tree_Hash` (third layer, Cello/RBTreeCmp.lean): on valid trees the lock-step walk of
  `Tree_Cmp` (parent-link successor on both sides, value look-ups by a fresh descent) is the lexicographic comparison of the
  two in-order sequences, and the walk of `Tree_Hash` is the xor-fold over the in-order sequence — whatever the shapes.
  Then the third layer of histories (`BOp` / `stepB` / `runB`) refines its specification.
-/
import CelloProofs.Lemmas.RBArgs
import Cello.RBTreeCmp

namespace Cello.RB
open Std
variable {α β : Type} {cmp : α → α → Ordering}

/-! ### Tree_Hash -/

theorem hashLoop_spec (hk : α → UInt64) (hv : β → UInt64) (n : Nat) (c : Cursor α β) (h : UInt64)
    (hn : (afterC c).length ≤ n) :
    hashLoop hk hv n c h = some ((afterC c).foldl (fun h e => h ^^^ hk e.1 ^^^ hv e.2) h) := by
  induction n generalizing c h with
  | zero =>
    cases c with
    | none => simp [hashLoop, afterC]
    | some x => simp [afterC] at hn
  | succ n ih =>
    cases c with
    | none => simp [hashLoop, afterC]
    | some x =>
      have hx := iterNext_spec x
      simp only [hashLoop]
      rw [ih (iterNext x) _ (by rw [hx]; simp [afterC] at hn ⊢; omega)]
      rw [hx]; simp [afterC]

/-- the first cursor of a tree whose `nitems` is its node count: everything is still to come -/
theorem iterInit_spec (m : Tree α β) (hn : size m.root = m.nitems) :
    ∃ c, m.iterInit = some c ∧ afterC c = toList m.root := by
  unfold Tree.iterInit
  split
  · rename_i h0
    have : m.root = .nil := by
      rw [← toList_eq_nil_iff]; apply List.eq_nil_of_length_eq_zero; rw [← size_eq_length]; omega
    exact ⟨none, rfl, by simp [this, afterC]⟩
  · rename_i h0
    have hne : m.root ≠ .nil := by
      intro h; rw [h] at hn; simp [size] at hn; omega
    obtain ⟨x, hx⟩ := minLoc_isSome m.root [] hne
    obtain ⟨_, _, h3⟩ := minLoc_spec _ _ _ hx
    rw [hx]
    exact ⟨some x, rfl, by simpa [afterC] using h3⟩

/-- `Tree_Hash` = xor of the hashes of all keys and values, in whatever shape the tree is -/
theorem hashTree_eq (hk : α → UInt64) (hv : β → UInt64) (m : Tree α β) (hn : size m.root = m.nitems) :
    m.hashTree hk hv = some (Spec.hashList hk hv (toList m.root)) := by
  obtain ⟨c, hc, ha⟩ := iterInit_spec m hn
  simp only [Tree.hashTree, hc]
  rw [hashLoop_spec _ _ _ _ _ (by rw [ha, ← size_eq_length]; omega), ha]; rfl

/-! ### Tree_Cmp -/

section
variable [Packed α] [Packed β]

theorem cmpLoop_spec [TransCmp cmp] (hsrc : SourceOk) (vcmp : β → β → Ordering) (m s : Tree α β)
    (hm : Valid cmp m) (hs : Valid cmp s) (n : Nat) (c0 c1 : Cursor α β)
    (h0 : ∀ e ∈ afterC c0, e ∈ toList m.root) (h1 : ∀ e ∈ afterC c1, e ∈ toList s.root)
    (hn : (afterC c0).length ≤ n) :
    cmpLoop cmp vcmp m s n c0 c1 = some (.ok (Spec.cmpList cmp vcmp (afterC c0) (afterC c1))) := by
  induction n generalizing c0 c1 with
  | zero =>
    cases c0 with
    | none => cases c1 <;> simp [cmpLoop, afterC, Spec.cmpList]
    | some x => simp [afterC] at hn
  | succ n ih =>
    cases c0 with
    | none => cases c1 <;> simp [cmpLoop, afterC, Spec.cmpList]
    | some x =>
      cases c1 with
      | none => simp [cmpLoop, afterC, Spec.cmpList]
      | some y =>
        have hx := iterNext_spec x
        have hy := iterNext_spec y
        have gx : m.get cmp x.k = .ok x.v := by
          rw [get_eq hsrc m x.k hm, Spec.get_of_mem x.k x.v m.abs hm.ordered (h0 _ (by simp [afterC]))]; rfl
        have gy : s.get cmp y.k = .ok y.v := by
          rw [get_eq hsrc s y.k hs, Spec.get_of_mem y.k y.v s.abs hs.ordered (h1 _ (by simp [afterC]))]; rfl
        have ax : afterC (some x) = (x.k, x.v) :: afterC (iterNext x) := by rw [hx]; rfl
        have ay : afterC (some y) = (y.k, y.v) :: afterC (iterNext y) := by rw [hy]; rfl
        have ihn := ih (iterNext x) (iterNext y)
          (fun e he => h0 e (by rw [ax]; exact List.mem_cons_of_mem _ he))
          (fun e he => h1 e (by rw [ay]; exact List.mem_cons_of_mem _ he))
          (by rw [ax] at hn; simp at hn; omega)
        rw [ax, ay]
        simp only [cmpLoop, Spec.cmpList, gx, gy]
        cases cmp x.k y.k with
        | lt => rfl
        | gt => rfl
        | eq =>
          simp only []
          cases vcmp x.v y.v with
          | lt => rfl
          | gt => rfl
          | eq => exact ihn

/-- `Tree_Cmp` on two valid trees: defined, raises nothing, and is the lexicographic comparison of the two in-order sequences -/
theorem cmpTree_eq [TransCmp cmp] (hsrc : SourceOk) (vcmp : β → β → Ordering) (m s : Tree α β)
    (hm : Valid cmp m) (hs : Valid cmp s) :
    m.cmpTree cmp vcmp s = some (.ok (Spec.cmpList cmp vcmp m.abs s.abs)) := by
  obtain ⟨c0, e0, a0⟩ := iterInit_spec m hm.count
  obtain ⟨c1, e1, a1⟩ := iterInit_spec s hs.count
  simp only [Tree.cmpTree, e0, e1]
  rw [cmpLoop_spec hsrc vcmp m s hm hs _ c0 c1 (by rw [a0]; exact fun _ h => h) (by rw [a1]; exact fun _ h => h)
    (by rw [a0, ← size_eq_length]; omega), a0, a1]

/-! ### histories of the third layer -/

def tyStepB (env : Store (Nat × Nat)) : BOp α β → Store (Nat × Nat)
  | .a op => tyStepA env op
  | _ => env

def BOp.typed (env : Store (Nat × Nat)) : BOp α β → Prop
  | .a op => op.typed env
  | _ => True

def WellTypedB : Store (Nat × Nat) → List (BOp α β) → Prop
  | _, [] => True
  | env, op :: ops => op.typed env ∧ WellTypedB (tyStepB env op) ops

/-- the operations of the second layer inside a history of the third -/
def BOp.aOp : BOp α β → Option (AOp α β)
  | .a op => some op
  | _ => none

/-- `cmp` and `hash` need no typing hypothesis and change no type: a history is well typed iff its second-layer part is -/
theorem wellTypedB_of_A (env : Store (Nat × Nat)) (ops : List (BOp α β))
    (h : WellTypedA env (ops.filterMap BOp.aOp)) : WellTypedB env ops := by
  induction ops generalizing env with
  | nil => trivial
  | cons op ops ih =>
    cases op with
    | a op => exact ⟨h.1, ih _ h.2⟩
    | cmp t s => exact ⟨trivial, ih _ h⟩
    | hash t => exact ⟨trivial, ih _ h⟩

variable [LawfulPacked α] [LawfulPacked β]

theorem stepB_refines [TransCmp cmp] (hsrc : SourceOk) (E : Elem α β) (st : Store (Tree α β)) (op : BOp α β)
    (hv : AllValid cmp st) (hty : op.typed (sizeStore st)) :
    ∃ st' o, stepB true cmp E st op = some (st', o) ∧ Spec.stepB cmp E (absStore st) op = (absStore st', o) ∧
      AllValid cmp st' ∧ tyStepB (sizeStore st) op = sizeStore st' := by
  cases op with
  | a op =>
    obtain ⟨st', o, h1, h2, h3, h4⟩ := stepA_refines hsrc st op hv hty
    exact ⟨st', .base o, by simp [stepB, h1], by simp [Spec.stepB, h2], h3, h4⟩
  | cmp t s =>
    simp only [stepB, Spec.stepB, tyStepB, get?_abs]
    cases hg : st.get? t with
    | none => exact ⟨st, .base .noobj, rfl, rfl, hv, rfl⟩
    | some m =>
      cases hg2 : st.get? s with
      | none => exact ⟨st, .base .noobj, rfl, rfl, hv, rfl⟩
      | some m2 =>
        refine ⟨st, .ord (Spec.cmpList cmp E.vcmp m.abs m2.abs), ?_, rfl, hv, rfl⟩
        simp [cmpTree_eq hsrc E.vcmp m m2 (hv.get hg) (hv.get hg2)]
  | hash t =>
    simp only [stepB, Spec.stepB, tyStepB, get?_abs]
    cases hg : st.get? t with
    | none => exact ⟨st, .base .noobj, rfl, rfl, hv, rfl⟩
    | some m =>
      refine ⟨st, .word (Spec.hashList E.hk E.hv m.abs), ?_, rfl, hv, rfl⟩
      simp [hashTree_eq E.hk E.hv m (hv.get hg).count]

theorem runB_refines [TransCmp cmp] (hsrc : SourceOk) (E : Elem α β) (ops : List (BOp α β)) (st : Store (Tree α β))
    (hv : AllValid cmp st) (hty : WellTypedB (sizeStore st) ops) :
    ∃ st' os, runB true cmp E st ops = some (st', os) ∧ Spec.runB cmp E (absStore st) ops = (absStore st', os) ∧
      AllValid cmp st' := by
  induction ops generalizing st with
  | nil => exact ⟨st, [], rfl, rfl, hv⟩
  | cons op ops ih =>
    obtain ⟨st1, o, e1, s1, v1, z1⟩ := stepB_refines hsrc E st op hv hty.1
    obtain ⟨st2, os, e2, s2, v2⟩ := ih st1 v1 (by rw [← z1]; exact hty.2)
    exact ⟨st2, o :: os, by simp [runB, e1, e2], by simp [Spec.runB, s1, s2], v2⟩

end

/-! ### what the comparison of two maps means -/

/-- `cmp(t, s) = 0` exactly when the two maps have the same number of bindings and, position by position, keys that compare
    equal and values that compare equal -/
theorem Spec.cmpList_eq_iff (vcmp : β → β → Ordering) (l l' : List (α × β)) :
    Spec.cmpList cmp vcmp l l' = .eq ↔
      l.length = l'.length ∧ ∀ p ∈ l.zip l', cmp p.1.1 p.2.1 = .eq ∧ vcmp p.1.2 p.2.2 = .eq := by
  induction l generalizing l' with
  | nil => cases l' <;> simp [Spec.cmpList]
  | cons a l ih =>
    cases l' with
    | nil => simp [Spec.cmpList]
    | cons b l' =>
      simp only [Spec.cmpList, List.zip_cons_cons, List.mem_cons, List.length_cons, forall_eq_or_imp]
      cases cmp a.1 b.1 <;> simp
      cases vcmp a.2 b.2 <;> simp [ih]

/-- a map compares equal to itself when every key and every value compares equal to itself -/
theorem Spec.cmpList_self (vcmp : β → β → Ordering) (l : List (α × β))
    (hk : ∀ e ∈ l, cmp e.1 e.1 = .eq) (hv : ∀ e ∈ l, vcmp e.2 e.2 = .eq) : Spec.cmpList cmp vcmp l l = .eq := by
  induction l with
  | nil => rfl
  | cons a l ih =>
    simp only [Spec.cmpList, hk a (by simp), hv a (by simp)]
    exact ih (fun e he => hk e (by simp [he])) (fun e he => hv e (by simp [he]))

end Cello.RB
