/-
  CelloProofs/Lemmas/RHErase.lean — backward-shift deletion (the inner loop of GC_Rem_Ptr / GC_Sweep / Table_Rem,
  `RH.shiftLoop`, `RH.eraseAt` in Cello/Registry.lean) preserves the local robin-hood invariant, removes exactly the erased
  entry, lowers the number of occupied slots by one, terminates before the next empty slot, and has a closed form
  (slots in the shifted block take their successor's content, the slot at its end becomes empty, all others are unchanged).
-/
import Cello.Registry
import CelloProofs.Lemmas.RH
import CelloProofs.Lemmas.RHIns
set_option linter.unusedSectionVars false
set_option linter.unusedVariables false
namespace RH
variable {κ ε : Type} [DecidableEq κ] {n : Nat}

/-- entry `e` is stored in some slot -/
def Mem (s : Slots κ ε n) (e : Entry κ ε) : Prop := ∃ q, ∃ hq : q < n, s[q] = some e

theorem Inv.toInv0 {hash : κ → Nat} {s : Slots κ ε n} (h : Inv hash s) : Inv0 hash s := ⟨h.home_ok, h.distinct, h.loc⟩
theorem Inv0.toInv {hash : κ → Nat} {s : Slots κ ε n} (h : Inv0 hash s) (z : Nat) (hz : z < n) (hze : s[z] = none) :
    Inv hash s := ⟨h.home_ok, h.distinct, h.loc, ⟨z, hz, hze⟩⟩

theorem dist_succ_first {n j h : Nat} (hj : j < n) (hh : h < n) (hpos : 0 < dist n (next n j) h) :
    dist n j h + 1 = dist n (next n j) h := by
  revert hpos; unfold dist next; (repeat' split) <;> omega

theorem prev_eq_imp {n q j : Nat} (hq : q < n) (h : prev n q = j) : q = next n j := by
  rw [← h, next_prev hq]

theorem getElem_set2 (s : Slots κ ε n) (j nj : Nat) (hj : j < n) (hnj : nj < n) (v : Option (Entry κ ε)) (q : Nat) (hq : q < n) :
    ((s.set j v hj).set nj none hnj)[q] = if nj = q then none else if j = q then v else s[q] := by
  rw [Vector.getElem_set]; split
  · rfl
  · rw [Vector.getElem_set]

/-- State of the backward shift: slot `j` is a hole; the invariant holds everywhere except possibly at the slot after the
    hole, which is supported by a *ghost* entry at distance `g` from its home sitting in the hole. -/
structure Hole (hash : κ → Nat) (s : Slots κ ε n) (j g : Nat) : Prop where
  hj : j < n
  home_ok : ∀ i (hi : i < n) e, s[i] = some e → e.home = hash e.key % n
  distinct : ∀ a b (ha : a < n) (hb : b < n) e e', s[a] = some e → s[b] = some e' → e.key = e'.key → a = b
  empty : s[j]'hj = none
  loc : ∀ q (hq : q < n) e, s[q] = some e → 0 < dist n q e.home → q ≠ next n j →
          ∃ e', s[prev n q]'(prev_lt hq) = some e' ∧ dist n q e.home ≤ dist n (prev n q) e'.home + 1
  ghost_next : ∀ e, s[next n j]'(next_lt hj) = some e → dist n (next n j) e.home ≤ g + 1
  ghost_prev : 0 < g → ∃ e', s[prev n j]'(prev_lt hj) = some e' ∧ g ≤ dist n (prev n j) e'.home + 1

theorem home_lt {hash : κ → Nat} {s : Slots κ ε n} (hk : ∀ i (hi : i < n) e, s[i] = some e → e.home = hash e.key % n)
    {i : Nat} (hi : i < n) {e : Entry κ ε} (he : s[i] = some e) : e.home < n := by
  rw [hk i hi e he]; exact Nat.mod_lt _ (by omega)

/-- zeroing an occupied slot of a table that satisfies the invariant gives a hole state -/
theorem hole_init (hash : κ → Nat) (s : Slots κ ε n) (inv : Inv0 hash s) (i : Nat) (hi : i < n) (x : Entry κ ε)
    (hx : s[i] = some x) : Hole hash (s.set i none hi) i (dist n i x.home) := by
  have hxh : x.home < n := home_lt inv.home_ok hi hx
  refine ⟨hi, ?_, ?_, ?_, ?_, ?_, ?_⟩
  · intro q hq e he
    rw [Vector.getElem_set] at he; split at he
    · cases he
    · exact inv.home_ok q hq e he
  · intro a b ha hb e e' hea heb hk
    rw [Vector.getElem_set] at hea heb
    split at hea
    · cases hea
    · split at heb
      · cases heb
      · exact inv.distinct a b ha hb e e' hea heb hk
  · rw [Vector.getElem_set_self]
  · intro q hq e he hpos hne
    rw [Vector.getElem_set] at he; split at he
    · cases he
    · obtain ⟨e', he', hle⟩ := inv.loc q hq e he hpos
      refine ⟨e', ?_, hle⟩
      rw [Vector.getElem_set]; split
      · rename_i h; exact absurd (prev_eq_imp hq h.symm) hne
      · exact he'
  · intro e he
    rw [Vector.getElem_set] at he; split at he
    · cases he
    · rename_i hne
      by_cases hpos : 0 < dist n (next n i) e.home
      · obtain ⟨e', he', hle⟩ := inv.loc (next n i) (next_lt hi) e he hpos
        rw [idx_congr s (prev_lt (next_lt hi)) hi (prev_next hi), hx] at he'
        cases he'
        rw [prev_next hi] at hle; exact hle
      · omega
  · intro hg
    obtain ⟨e', he', hle⟩ := inv.loc i hi x hx hg
    have hne : i ≠ prev n i := by
      intro h
      have : n = 1 := by unfold prev at h; split at h <;> omega
      subst this
      revert hg; unfold dist; split <;> omega
    refine ⟨e', ?_, hle⟩
    rw [Vector.getElem_set]; split
    · rename_i h; exact absurd h hne
    · exact he'

/-- one move of the backward shift keeps the hole state (hole advances, ghost = the moved entry's old distance) -/
theorem hole_step (hash : κ → Nat) (s : Slots κ ε n) (j g : Nat) (H : Hole hash s j g) (e : Entry κ ε)
    (he : s[next n j]'(next_lt H.hj) = some e) (hd : 0 < dist n (next n j) e.home) :
    Hole hash ((s.set j (some e) H.hj).set (next n j) none (next_lt H.hj)) (next n j) (dist n (next n j) e.home) := by
  have hj := H.hj
  have hnj := next_lt hj
  have hne : next n j ≠ j := by
    intro h; rw [idx_congr s hnj hj h, H.empty] at he; cases he
  have heh : e.home < n := home_lt H.home_ok hnj he
  have hdj : dist n j e.home + 1 = dist n (next n j) e.home := dist_succ_first hj heh hd
  have hdlt : dist n (next n j) e.home < n := dist_lt hnj heh
  refine ⟨hnj, ?_, ?_, ?_, ?_, ?_, ?_⟩
  · intro q hq e0 h0
    rw [getElem_set2] at h0
    split at h0
    · cases h0
    · split at h0
      · cases h0; exact H.home_ok _ hnj e he
      · exact H.home_ok q hq e0 h0
  · intro a b ha hb e1 e2 h1 h2 hk
    rw [getElem_set2] at h1 h2
    split at h1
    · cases h1
    · split at h2
      · cases h2
      · split at h1 <;> split at h2
        · omega
        · cases h1
          have := H.distinct (next n j) b hnj hb e e2 he h2 hk
          omega
        · cases h2
          have := H.distinct a (next n j) ha hnj e1 e h1 he hk
          omega
        · exact H.distinct a b ha hb e1 e2 h1 h2 hk
  · rw [getElem_set2]; simp
  · intro q hq e0 h0 hpos hqn
    rw [getElem_set2] at h0
    split at h0
    · cases h0
    · rename_i hq1
      split at h0
      · -- q = j: the moved entry, now one slot closer to home
        rename_i hq2; subst hq2; cases h0
        have hg : 0 < g := by have := H.ghost_next e he; omega
        obtain ⟨e', he', hle⟩ := H.ghost_prev hg
        have hp1 : j ≠ prev n j := by
          intro h; rw [idx_congr s (prev_lt hj) hj h.symm, H.empty] at he'; cases he'
        have hp2 : next n j ≠ prev n j := by
          intro h
          have : n ≤ 2 := by unfold next prev at h; split at h <;> split at h <;> omega
          omega
        refine ⟨e', ?_, ?_⟩
        · rw [getElem_set2, if_neg hp2, if_neg hp1]; exact he'
        · have := H.ghost_next e he; omega
      · rename_i hq2
        obtain ⟨e', he', hle⟩ := H.loc q hq e0 h0 hpos (by omega)
        refine ⟨e', ?_, hle⟩
        rw [getElem_set2]
        have h1 : next n j ≠ prev n q := by
          intro h; exact hqn (prev_eq_imp hq h.symm)
        have h2 : j ≠ prev n q := by
          intro h; exact hq1 (prev_eq_imp hq h.symm).symm
        rw [if_neg h1, if_neg h2]; exact he'
  · intro f hf
    rw [getElem_set2] at hf
    split at hf
    · cases hf
    · rename_i hq1
      split at hf
      · rename_i hq2; cases hf
        have : dist n (next n (next n j)) e.home = dist n j e.home := by rw [← hq2]
        omega
      · rename_i hq2
        by_cases hpos : 0 < dist n (next n (next n j)) f.home
        · obtain ⟨e', he', hle⟩ := H.loc _ (next_lt hnj) f hf hpos (by omega)
          rw [idx_congr s (prev_lt (next_lt hnj)) hnj (prev_next hnj), he] at he'
          cases he'
          rw [prev_next hnj] at hle; exact hle
        · omega
  · intro _
    refine ⟨e, ?_, ?_⟩
    · rw [getElem_set2]
      have h1 : next n j ≠ prev n (next n j) := by rw [prev_next hj]; exact hne
      have h2 : j = prev n (next n j) := (prev_next hj).symm
      rw [if_neg h1, if_pos h2]
    · rw [prev_next hj]; omega

/-- when the shift stops the invariant holds again -/
theorem hole_stop (hash : κ → Nat) (s : Slots κ ε n) (j g : Nat) (H : Hole hash s j g)
    (hstop : ∀ e, s[next n j]'(next_lt H.hj) = some e → dist n (next n j) e.home = 0) : Inv0 hash s := by
  refine ⟨H.home_ok, H.distinct, ?_⟩
  intro q hq e he hpos
  by_cases hqn : q = next n j
  · subst hqn
    have := hstop e he; omega
  · exact H.loc q hq e he hpos hqn

theorem step_mem (s : Slots κ ε n) (j : Nat) (hj : j < n) (hempty : s[j] = none) (e : Entry κ ε)
    (he : s[next n j]'(next_lt hj) = some e) (e0 : Entry κ ε) :
    Mem ((s.set j (some e) hj).set (next n j) none (next_lt hj)) e0 ↔ Mem s e0 := by
  have hnj := next_lt hj
  have hne : next n j ≠ j := by
    intro h; rw [idx_congr s hnj hj h, hempty] at he; cases he
  constructor
  · rintro ⟨q, hq, h⟩
    rw [getElem_set2] at h
    split at h
    · cases h
    · split at h
      · cases h; exact ⟨_, hnj, he⟩
      · exact ⟨q, hq, h⟩
  · rintro ⟨q, hq, h⟩
    by_cases h1 : next n j = q
    · subst h1
      rw [he] at h; cases h
      exact ⟨j, hj, by rw [getElem_set2, if_neg hne]; simp⟩
    · by_cases h2 : j = q
      · subst h2; rw [hempty] at h; cases h
      · exact ⟨q, hq, by rw [getElem_set2, if_neg h1, if_neg h2]; exact h⟩

theorem step_occ (s : Slots κ ε n) (j : Nat) (hj : j < n) (hempty : s[j] = none) (e : Entry κ ε)
    (he : s[next n j]'(next_lt hj) = some e) :
    occ ((s.set j (some e) hj).set (next n j) none (next_lt hj)) = occ s := by
  have hnj := next_lt hj
  have hne : next n j ≠ j := by
    intro h; rw [idx_congr s hnj hj h, hempty] at he; cases he
  unfold occ
  rw [Vector.countP_set, Vector.countP_set]
  have h1 : (s.set j (some e) hj)[next n j] = some e := by
    rw [Vector.getElem_set]; split
    · rename_i h; exact absurd h.symm hne
    · exact he
  rw [h1, hempty]
  have : 0 < Vector.countP Option.isSome s := by
    have := Vector.boole_getElem_le_countP (p := Option.isSome) (xs := s) hnj
    rw [he] at this; simpa using this
  simp <;> omega

/-- **Backward shift, invariant part.**  From a hole state with an empty slot `z ≠ j` somewhere, the loop terminates within
    `dist z j` iterations, re-establishes the invariant, keeps exactly the stored entries and their number, and never
    writes to `z`. -/
theorem shiftLoop_inv (hash : κ → Nat) :
    ∀ (fuel : Nat) (s : Slots κ ε n) (j g : Nat) (H : Hole hash s j g) (z : Nat) (hz : z < n),
      s[z] = none → z ≠ j → dist n z j ≤ fuel →
      ∃ s', shiftLoop fuel s j H.hj = some s' ∧ Inv0 hash s' ∧ s'[z] = none ∧ (∀ e, Mem s' e ↔ Mem s e) ∧ occ s' = occ s := by
  intro fuel
  induction fuel with
  | zero =>
    intro s j g H z hz hze hne hf
    have := dist_pos_of_ne H.hj hz hne.symm
    omega
  | succ fuel ih =>
    intro s j g H z hz hze hne hf
    have hj := H.hj
    unfold shiftLoop
    split
    · rename_i hnone
      refine ⟨s, rfl, hole_stop hash s j g H ?_, hze, fun _ => Iff.rfl, rfl⟩
      intro e he; rw [hnone] at he; cases he
    · rename_i e he
      by_cases hd : dist n (next n j) e.home > 0
      · rw [if_pos hd]
        have H' := hole_step hash s j g H e he hd
        have hnz : next n j ≠ z := by
          intro h; rw [idx_congr s (next_lt hj) hz h, hze] at he; cases he
        have hze' : ((s.set j (some e) hj).set (next n j) none (next_lt hj))[z] = none := by
          rw [getElem_set2, if_neg hnz, if_neg (Ne.symm hne)]; exact hze
        have hdz := dist_next_fwd hj hz (Ne.symm hne)
        obtain ⟨s', hs', hinv, hz', hmem, hocc⟩ := ih _ (next n j) _ H' z hz hze' (Ne.symm hnz) (by omega)
        refine ⟨s', hs', hinv, hz', ?_, ?_⟩
        · intro e0; rw [hmem e0]; exact step_mem s j hj H.empty e he e0
        · rw [hocc]; exact step_occ s j hj H.empty e he
      · rw [if_neg hd]
        refine ⟨s, rfl, hole_stop hash s j g H ?_, hze, fun _ => Iff.rfl, rfl⟩
        intro e' he'; rw [he] at he'; cases he'; omega

/-- **Backward shift, closed form.**  `m` slots were moved: the slots at forward distance `< m` from the hole take their
    successor's content, the slot at distance `m` is the new hole, every other slot is unchanged. -/
theorem shiftLoop_closed :
    ∀ (fuel : Nat) (s : Slots κ ε n) (j : Nat) (hj : j < n) (z : Nat) (hz : z < n),
      s[j] = none → s[z] = none → z ≠ j → dist n z j ≤ fuel →
      ∃ s' m, shiftLoop fuel s j hj = some s' ∧ m < dist n z j ∧
        ∀ q (hq : q < n), s'[q] = if dist n q j < m then s[next n q]'(next_lt hq) else if dist n q j = m then none else s[q] := by
  intro fuel
  induction fuel with
  | zero =>
    intro s j hj z hz _ _ hne hf
    have := dist_pos_of_ne hj hz hne.symm
    omega
  | succ fuel ih =>
    intro s j hj z hz hje hze hne hf
    have hpos := dist_pos_of_ne hj hz hne.symm
    have stop : ∃ s' m, some s = some s' ∧ m < dist n z j ∧
        ∀ q (hq : q < n), s'[q] = if dist n q j < m then s[next n q]'(next_lt hq) else if dist n q j = m then none else s[q] := by
      refine ⟨s, 0, rfl, hpos, ?_⟩
      intro q hq
      have c0 : ¬ dist n q j < 0 := by omega
      rw [if_neg c0]
      by_cases h : dist n q j = 0
      · have : q = j := by revert h; unfold dist; split <;> omega
        subst this; rw [if_pos h]; exact hje
      · rw [if_neg h]
    unfold shiftLoop
    split
    · exact stop
    · rename_i e he
      by_cases hd : dist n (next n j) e.home > 0
      · rw [if_pos hd]
        have hnj := next_lt hj
        have hnej : next n j ≠ j := by
          intro h; rw [idx_congr s hnj hj h, hje] at he; cases he
        have hnz : next n j ≠ z := by
          intro h; rw [idx_congr s hnj hz h, hze] at he; cases he
        have hdz := dist_next_fwd hj hz (Ne.symm hne)
        have hzlt : dist n z j < n := dist_lt hz hj
        have h1 : ((s.set j (some e) hj).set (next n j) none hnj)[next n j] = none := by rw [getElem_set2]; simp
        have h2 : ((s.set j (some e) hj).set (next n j) none hnj)[z] = none := by
          rw [getElem_set2, if_neg hnz, if_neg (Ne.symm hne)]; exact hze
        obtain ⟨s', m', hs', hm', hcl⟩ := ih _ (next n j) hnj z hz h1 h2 (Ne.symm hnz) (by omega)
        refine ⟨s', m' + 1, hs', by omega, ?_⟩
        intro q hq
        rw [hcl q hq]
        by_cases hqj : q = j
        · subst hqj
          have hd0 : dist n q q = 0 := by unfold dist; split <;> omega
          have hdn : dist n q (next n q) = n - 1 := by unfold dist next; (repeat' split) <;> omega
          have c1 : ¬ n - 1 < m' := by omega
          have c2 : ¬ n - 1 = m' := by omega
          have c3 : 0 < m' + 1 := by omega
          rw [hd0, hdn, if_neg c1, if_neg c2, if_pos c3, getElem_set2, if_neg hnej]
          simp [he]
        · have hdq := dist_next_fwd hj hq (Ne.symm hqj)
          by_cases hc1 : dist n q (next n j) < m'
          · have hc1' : dist n q j < m' + 1 := by omega
            rw [if_pos hc1, if_pos hc1']
            rw [getElem_set2]
            have a1 : next n j ≠ next n q := by
              intro h
              have := congrArg (prev n) h
              rw [prev_next hj, prev_next hq] at this; exact hqj this.symm
            have a2 : j ≠ next n q := by
              intro h
              have hq' : q = prev n j := by rw [h, prev_next hq]
              have : dist n q j = n - 1 := by
                rw [hq']; unfold dist prev; (repeat' split) <;> omega
              omega
            rw [if_neg a1, if_neg a2]
          · have hc1' : ¬ dist n q j < m' + 1 := by omega
            rw [if_neg hc1, if_neg hc1']
            by_cases hc2 : dist n q (next n j) = m'
            · have hc2' : dist n q j = m' + 1 := by omega
              rw [if_pos hc2, if_pos hc2']
            · have hc2' : ¬ dist n q j = m' + 1 := by omega
              rw [if_neg hc2, if_neg hc2', getElem_set2]
              have a1 : next n j ≠ q := by
                intro h
                have : dist n q (next n j) = 0 := by rw [h]; unfold dist; split <;> omega
                omega
              rw [if_neg a1, if_neg (Ne.symm hqj)]
      · rw [if_neg hd]; exact stop

/-- **Erase.**  Removing the entry `x` stored at slot `i` of a table that satisfies the invariant and has an empty slot `z`:
    the loop terminates (fuel `n` suffices), the invariant holds again, exactly `x` is gone, the number of occupied slots
    drops by one, `z` stays empty, and every slot holds its old content or its old successor's. -/
theorem eraseAt_spec (hash : κ → Nat) (s : Slots κ ε n) (inv : Inv0 hash s) (i : Nat) (hi : i < n) (x : Entry κ ε)
    (hx : s[i] = some x) (z : Nat) (hz : z < n) (hze : s[z] = none) :
    ∃ s', eraseAt s i hi = some s' ∧ Inv0 hash s' ∧ s'[z] = none ∧ (∀ e, Mem s' e ↔ Mem s e ∧ e ≠ x) ∧ occ s' + 1 = occ s ∧
      (∀ q (hq : q < n) e, s'[q] = some e → (q ≠ i ∧ s[q] = some e) ∨ (next n q ≠ i ∧ s[next n q]'(next_lt hq) = some e)) := by
  have hzi : z ≠ i := by intro h; rw [idx_congr s hz hi h, hx] at hze; cases hze
  have H := hole_init hash s inv i hi x hx
  have hze' : (s.set i none hi)[z] = none := by
    rw [Vector.getElem_set]; split
    · rfl
    · exact hze
  have hfuel : dist n z i ≤ n := Nat.le_of_lt (dist_lt hz hi)
  obtain ⟨s', hs', hinv, hz', hmem, hocc⟩ := shiftLoop_inv hash n _ i _ H z hz hze' hzi hfuel
  obtain ⟨s'', m, hs'', hm, hcl⟩ := shiftLoop_closed n (s.set i none hi) i hi z hz (by rw [Vector.getElem_set_self]) hze' hzi hfuel
  have heq : s'' = s' := by
    have : some s'' = some s' := by rw [← hs'', ← hs']
    exact Option.some.inj this
  subst heq
  refine ⟨s'', hs', hinv, hz', ?_, ?_, ?_⟩
  · intro e; rw [hmem e]
    constructor
    · rintro ⟨q, hq, h⟩
      rw [Vector.getElem_set] at h; split at h
      · cases h
      · rename_i hne
        refine ⟨⟨q, hq, h⟩, ?_⟩
        intro hex; subst hex
        exact hne (inv.distinct i q hi hq e e hx h rfl)
    · rintro ⟨⟨q, hq, h⟩, hne⟩
      refine ⟨q, hq, ?_⟩
      rw [Vector.getElem_set]; split
      · rename_i hiq; subst hiq; rw [hx] at h; cases h; exact absurd rfl hne
      · exact h
  · rw [hocc]; unfold occ
    rw [Vector.countP_set, hx]
    have : 0 < Vector.countP Option.isSome s := by
      have := Vector.boole_getElem_le_countP (p := Option.isSome) (xs := s) hi
      rw [hx] at this; simpa using this
    simp <;> omega
  · intro q hq e he
    rw [hcl q hq] at he
    split at he
    · right
      rw [Vector.getElem_set] at he; split at he
      · cases he
      · rename_i hne; exact ⟨fun h => hne h.symm, he⟩
    · split at he
      · cases he
      · left
        rw [Vector.getElem_set] at he; split at he
        · cases he
        · rename_i hne; exact ⟨fun h => hne h.symm, he⟩

end RH
