/-
  Lemmas for C19: every operation of the container models keeps "each element carries the declared type, class data and
  the magic number" (`BodyOK`); freeing and in-place operations on an embedded object never touch its header.
-/
import CelloProofs.Lemmas.Hdr

namespace Cello.Hdr

variable {cfg : Config}

theorem seqElem_hdr (F : Facts cfg) (s : St) (k : SeqKind) (ety : Ty) (v : Scalar) :
    (seqElem cfg s k ety v).hdr = dataHdr cfg ety := by
  cases k <;> simp [seqElem, mkElem, headerInit_eq F, dataHdr, F.bArray, F.bList]

theorem mapEntry_hdr (F : Facts cfg) (s : St) (k : MapKind) (kty vty : Ty) (a b : Scalar) :
    (mapEntry cfg s k kty vty a b).1.hdr = dataHdr cfg kty ∧ (mapEntry cfg s k kty vty a b).2.hdr = dataHdr cfg vty := by
  cases k <;> simp [mapEntry, mkElem, headerInit_eq F, dataHdr, F.bTableK, F.bTableV, F.bTreeK, F.bTreeV]

theorem destructElem_hdr (e : Elem) : (destructElem cfg e).1.hdr = e.hdr := by
  unfold destructElem
  repeat' split
  all_goals rfl

theorem freeElem_hdr (f : FreeOp) (e : Elem) : (freeElem cfg f e).1.hdr = e.hdr := by
  unfold freeElem
  cases f <;> simp only
  all_goals first
    | rfl
    | exact destructElem_hdr e
    | (repeat' split
       all_goals first | rfl | exact destructElem_hdr e)

theorem inPlaceElem_hdr {s : St} {e e1 : Elem} {ip : InPlace} {out : Outcome}
    (h : inPlaceElem cfg s e ip = some (e1, out)) : e1.hdr = e.hdr := by
  unfold inPlaceElem at h
  split at h
  · split at h
    · cases h; rfl
    · cases h
  · cases h

theorem insertEnt_mem (e : Elem × Elem) (l : List (Elem × Elem)) (x : Elem × Elem) :
    x ∈ insertEnt e l → x = e ∨ x ∈ l := by
  induction l with
  | nil => intro h; simp [insertEnt] at h; exact Or.inl h
  | cons y r ih =>
    intro h
    simp only [insertEnt] at h
    split at h
    · simp only [List.mem_cons] at h ⊢
      rcases h with h | h | h
      · exact Or.inl h
      · exact Or.inr (Or.inl h)
      · exact Or.inr (Or.inr h)
    · simp only [List.mem_cons] at h ⊢
      rcases h with h | h
      · exact Or.inr (Or.inl h)
      · rcases ih h with h | h
        · exact Or.inl h
        · exact Or.inr (Or.inr h)

/-- replacing the element a target designates by one with the same header keeps the body well formed -/
theorem bodyOK_setElemAt {b : Body} {t : Target} {e e1 : Elem} (hb : BodyOK cfg b) (he : b.elemAt t = some e)
    (hh : e1.hdr = e.hdr) : BodyOK cfg (b.setElemAt t e1) := by
  cases b with
  | seq k ety es =>
    cases t with
    | elem id i =>
      simp only [Body.elemAt] at he
      simp only [Body.setElemAt, BodyOK] at hb ⊢
      intro x hx
      rcases List.mem_or_eq_of_mem_set hx with hx | hx
      · exact hb x hx
      · subst hx; rw [hh]; exact hb e (List.mem_of_getElem? he)
    | _ => exact hb
  | map k kty vty ents =>
    cases t with
    | key id i =>
      simp only [Body.elemAt] at he
      simp only [Body.setElemAt]
      cases hp : ents[i]? with
      | none => simp [hp] at he
      | some p =>
        simp only [hp, Option.map_some, Option.some.injEq] at he
        simp only [BodyOK] at hb ⊢
        intro x hx
        rcases List.mem_or_eq_of_mem_set hx with hx | hx
        · exact hb x hx
        · subst hx
          have := hb p (List.mem_of_getElem? hp)
          simp only
          rw [hh, ← he]; exact this
    | val id i =>
      simp only [Body.elemAt] at he
      simp only [Body.setElemAt]
      cases hp : ents[i]? with
      | none => simp [hp] at he
      | some p =>
        simp only [hp, Option.map_some, Option.some.injEq] at he
        simp only [BodyOK] at hb ⊢
        intro x hx
        rcases List.mem_or_eq_of_mem_set hx with hx | hx
        · exact hb x hx
        · subst hx
          have := hb p (List.mem_of_getElem? hp)
          simp only
          rw [hh, ← he]; exact this
    | _ => exact hb
  | _ => cases t <;> exact hb

/-! ### lists of elements that all carry the header of type `ety` -/

def AllHdr (cfg : Config) (ety : Ty) (l : List Elem) : Prop := ∀ e ∈ l, e.hdr = dataHdr cfg ety

theorem allHdr_nil (ety : Ty) : AllHdr cfg ety [] := by intro e he; cases he
theorem allHdr_append {ety : Ty} {a b : List Elem} (ha : AllHdr cfg ety a) (hb : AllHdr cfg ety b) : AllHdr cfg ety (a ++ b) := by
  intro e he; rcases List.mem_append.mp he with h | h
  · exact ha e h
  · exact hb e h
theorem allHdr_cons {ety : Ty} {x : Elem} {l : List Elem} (hx : x.hdr = dataHdr cfg ety) (hl : AllHdr cfg ety l) :
    AllHdr cfg ety (x :: l) := by
  intro e he; rcases List.mem_cons.mp he with h | h
  · subst h; exact hx
  · exact hl e h
theorem allHdr_single {ety : Ty} {x : Elem} (hx : x.hdr = dataHdr cfg ety) : AllHdr cfg ety [x] :=
  allHdr_cons hx (allHdr_nil ety)
theorem allHdr_take {ety : Ty} {l : List Elem} (n : Nat) (hl : AllHdr cfg ety l) : AllHdr cfg ety (l.take n) :=
  fun e he => hl e (List.mem_of_mem_take he)
theorem allHdr_drop {ety : Ty} {l : List Elem} (n : Nat) (hl : AllHdr cfg ety l) : AllHdr cfg ety (l.drop n) :=
  fun e he => hl e (List.mem_of_mem_drop he)
theorem allHdr_eraseIdx {ety : Ty} {l : List Elem} (n : Nat) (hl : AllHdr cfg ety l) : AllHdr cfg ety (l.eraseIdx n) :=
  fun e he => hl e (List.mem_of_mem_eraseIdx he)
theorem allHdr_replicate {ety : Ty} {x : Elem} (n : Nat) (hx : x.hdr = dataHdr cfg ety) : AllHdr cfg ety (List.replicate n x) := by
  intro e he; rw [(List.mem_replicate.mp he).2]; exact hx
theorem allHdr_map_seqElem (F : Facts cfg) (s : St) (k : SeqKind) (ety : Ty) {α : Type} (l : List α) (g : α → Scalar) :
    AllHdr cfg ety (l.map (fun a => seqElem cfg s k ety (g a))) := by
  intro e he
  obtain ⟨a, _, rfl⟩ := List.mem_map.mp he
  exact seqElem_hdr F s k ety (g a)

theorem seqOp_ok (F : Facts cfg) {s : St} {k : SeqKind} {ety : Ty} {es : List Elem} {op : InPlace} {b : Body} {out : Outcome}
    (hb : AllHdr cfg ety es) (h : seqOp cfg s k ety es op = some (b, out)) : BodyOK cfg b := by
  have hmk : ∀ v, (seqElem cfg s k ety v).hdr = dataHdr cfg ety := seqElem_hdr F s k ety
  have hsame : BodyOK cfg (Body.seq k ety es) := hb
  cases op with
  | push src =>
    simp only [seqOp] at h
    split at h
    · split at h
      · cases h; exact allHdr_append hb (allHdr_single (hmk _))
      · cases h
    · cases h
  | pop =>
    simp only [seqOp] at h
    split at h
    · cases h; exact hsame
    · cases h; exact allHdr_take _ hb
  | pushAt src i =>
    simp only [seqOp] at h
    split at h
    · split at h
      · cases k with
        | array =>
          simp only at h
          repeat' split at h
          all_goals first
            | (cases h; exact hsame)
            | (cases h; exact allHdr_append (allHdr_append (allHdr_take _ hb) (allHdr_single (hmk _))) (allHdr_drop _ hb))
        | list =>
          simp only at h
          split at h
          · cases h; exact allHdr_cons (hmk _) hb
          · split at h
            · cases h; exact hsame
            · cases h; exact allHdr_append (allHdr_append (allHdr_take _ hb) (allHdr_single (hmk _))) (allHdr_drop _ hb)
      · cases h
    · cases h
  | popAt i =>
    simp only [seqOp] at h
    split at h
    · cases h; exact hsame
    · cases h; exact allHdr_eraseIdx _ hb
  | resize m =>
    simp only [seqOp] at h
    split at h
    · cases h; exact allHdr_nil ety
    · split at h
      · cases h; exact allHdr_take _ hb
      · cases k with
        | array => simp only at h; cases h; exact hsame
        | list =>
          simp only at h
          split at h
          · cases h; exact hsame
          · split at h
            · cases h; exact allHdr_append hb (allHdr_replicate _ (hmk _))
            · cases h; exact allHdr_append hb (allHdr_replicate _ (hmk _))
            · cases h
  | concat src =>
    simp only [seqOp] at h
    split at h
    · split at h
      · split at h
        · split at h
          · cases h; exact allHdr_append hb (allHdr_map_seqElem F s k ety _ _)
          · cases h
        · cases h
      · cases h
    · cases h
  | assign _ => simp [seqOp] at h
  | rem _ => simp [seqOp] at h
  | set _ _ => simp [seqOp] at h

def AllEnt (cfg : Config) (kty vty : Ty) (l : List (Elem × Elem)) : Prop :=
  ∀ p ∈ l, p.1.hdr = dataHdr cfg kty ∧ p.2.hdr = dataHdr cfg vty

theorem allEnt_insert {kty vty : Ty} {e : Elem × Elem} {l : List (Elem × Elem)}
    (he : e.1.hdr = dataHdr cfg kty ∧ e.2.hdr = dataHdr cfg vty) (hl : AllEnt cfg kty vty l) : AllEnt cfg kty vty (insertEnt e l) := by
  intro x hx
  rcases insertEnt_mem e l x hx with h | h
  · subst h; exact he
  · exact hl x h

theorem mapOp_ok (F : Facts cfg) {s : St} {k : MapKind} {kty vty : Ty} {ents : List (Elem × Elem)} {op : InPlace} {b : Body}
    {out : Outcome} (hb : AllEnt cfg kty vty ents) (h : mapOp cfg s k kty vty ents op = some (b, out)) : BodyOK cfg b := by
  have hsame : BodyOK cfg (Body.map k kty vty ents) := hb
  have hmk : ∀ a c, (mapEntry cfg s k kty vty a c).1.hdr = dataHdr cfg kty ∧ (mapEntry cfg s k kty vty a c).2.hdr = dataHdr cfg vty :=
    mapEntry_hdr F s k kty vty
  cases op with
  | set key val =>
    simp only [mapOp] at h
    split at h
    · split at h
      · split at h
        · cases k with
          | table =>
            simp only at h; cases h
            intro x hx
            obtain ⟨y, hy, rfl⟩ := List.mem_map.mp hx
            split
            · exact hmk _ _
            · exact hb y hy
          | tree =>
            simp only at h; cases h
            intro x hx
            obtain ⟨y, hy, rfl⟩ := List.mem_map.mp hx
            split
            · exact hb y hy
            · exact hb y hy
        · cases h; exact allEnt_insert (hmk _ _) hb
      · cases h
    · cases h
  | rem key =>
    simp only [mapOp] at h
    split at h
    · split at h
      · split at h
        · cases h; intro x hx; exact hb x (List.mem_filter.mp hx).1
        · cases h; exact hsame
      · cases h
    · cases h
  | resize m =>
    simp only [mapOp] at h
    split at h
    · cases h; intro x hx; cases hx
    · cases k with
      | table => simp only at h; split at h <;> (cases h; exact hsame)
      | tree => simp only at h; cases h; exact hsame
  | concat _ => simp [mapOp] at h
  | assign _ => simp [mapOp] at h
  | push _ => simp [mapOp] at h
  | pop => simp [mapOp] at h
  | pushAt _ _ => simp [mapOp] at h
  | popAt _ => simp [mapOp] at h

/-- results of `runGuarded` are the old body or the mutated one -/
theorem runGuarded_cases (g : Guard) (alloc : Nat) (bounds : Option String) (b : Body) (m : Body → Body) :
    (runGuarded cfg g alloc bounds b m).1 = b ∨ (runGuarded cfg g alloc bounds b m).1 = m b := by
  unfold runGuarded
  repeat' split
  all_goals first | exact Or.inl rfl | exact Or.inr rfl

/-- a body without embedded objects -/
def Flat : Body → Prop
  | .seq _ _ _ => False
  | .map _ _ _ _ => False
  | _ => True

theorem flat_ok {b : Body} (h : Flat b) : BodyOK cfg b := by
  cases b <;> first | trivial | cases h

theorem runGuarded_flat (g : Guard) (alloc : Nat) (bounds : Option String) (b : Body) (m : Body → Body)
    (hb : Flat b) (hm : Flat (m b)) : Flat (runGuarded cfg g alloc bounds b m).1 := by
  rcases runGuarded_cases (cfg := cfg) g alloc bounds b m with h | h <;> rw [h] <;> assumption

theorem flat_of_eq {x : Body × Outcome} {b : Body} {out : Outcome} (h : some x = some (b, out)) (hx : Flat x.1) : Flat b := by
  cases x; simp only [Option.some.injEq, Prod.mk.injEq] at h; obtain ⟨rfl, rfl⟩ := h; exact hx

theorem stringOp_flat {s : St} {alloc : Nat} {cur : String} {op : InPlace} {b : Body} {out : Outcome}
    (h : stringOp cfg s alloc cur op = some (b, out)) : Flat b := by
  unfold stringOp at h
  cases op <;> simp only at h
  all_goals (repeat' split at h)
  all_goals first
    | exact flat_of_eq h (runGuarded_flat _ _ _ _ _ trivial trivial)
    | exact flat_of_eq h trivial
    | (cases h; done)

theorem tupleOp_flat {s : St} {alloc : Nat} {items : List Nat} {op : InPlace} {b : Body} {out : Outcome}
    (h : tupleOp cfg s alloc items op = some (b, out)) : Flat b := by
  unfold tupleOp at h
  cases op <;> simp only at h
  all_goals (repeat' split at h)
  all_goals first
    | exact flat_of_eq h (runGuarded_flat _ _ _ _ _ trivial trivial)
    | exact flat_of_eq h trivial
    | (cases h; done)

theorem inPlaceObj_ok (F : Facts cfg) {s : St} {o : Obj} {ip : InPlace} {b : Body} {out : Outcome}
    (hb : BodyOK cfg o.body) (h : inPlaceObj cfg s o ip = some (b, out)) : BodyOK cfg b := by
  unfold inPlaceObj at h
  split at h
  · exact flat_ok (stringOp_flat h)
  · exact flat_ok (tupleOp_flat h)
  · rename_i k ety es heq; rw [heq] at hb; exact seqOp_ok F hb h
  · rename_i k kty vty ents heq; rw [heq] at hb; exact mapOp_ok F hb h
  · rename_i heq
    split at h
    · cases h; exact hb
    · cases h; exact hb
    · cases h
  · cases h

theorem destructBody_ok {h : Header} {b : Body} (hb : BodyOK cfg b) : BodyOK cfg (destructBody cfg h b).1 := by
  unfold destructBody
  repeat' split
  all_goals first | exact hb | trivial

theorem foldl_insert_ok (F : Facts cfg) (s : St) (k : MapKind) (kty vty : Ty) (l : List (Scalar × Scalar)) :
    ∀ acc, AllEnt cfg kty vty acc →
      AllEnt cfg kty vty (l.foldl (fun acc e => insertEnt (mapEntry cfg s k kty vty e.1 e.2) acc) acc) := by
  induction l with
  | nil => intro acc h; exact h
  | cons x r ih => intro acc h; exact ih _ (allEnt_insert (mapEntry_hdr F s k kty vty x.1 x.2) h)

theorem buildBody_ok (F : Facts cfg) {s : St} {r : Route} {i : Init} {b : Body} (h : buildBody cfg s r i = some b) :
    BodyOK cfg b := by
  unfold buildBody at h
  cases i <;> simp only at h
  case seq k ety vals =>
    split at h
    · cases h
      intro e he
      obtain ⟨a, _, rfl⟩ := List.mem_map.mp he
      exact seqElem_hdr F s k ety a
    · cases h
  case map k kty vty ents =>
    split at h
    · cases h
      exact foldl_insert_ok F s k kty vty _ [] (fun p hp => by cases hp)
    · cases h
  all_goals (repeat' split at h)
  all_goals first
    | (cases h; trivial)
    | (cases h; done)

theorem copyBody_ok (F : Facts cfg) {s : St} {o : Obj} {t : Ty} {b : Body} (h : copyBody cfg s o = some (t, b)) :
    BodyOK cfg b := by
  unfold copyBody at h
  split at h
  all_goals first
    | (cases h; trivial)
    | (cases h; done)
    | (cases h
       intro e he
       obtain ⟨a, _, rfl⟩ := List.mem_map.mp he
       first | exact seqElem_hdr F s _ _ _ | exact mapEntry_hdr F s _ _ _ _ _)

end Cello.Hdr
