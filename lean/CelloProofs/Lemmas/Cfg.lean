/-
  Helper lemmas for C18 (CelloProofs/Props/C18.lean): the one-step simulation between the default configuration and any other.
-/
import Cello.Config
import CelloGen.Cfg

namespace Cello.Config
open CelloGen.Cfg

/-! ### small list facts -/

theorem lookup_mem {α β : Type} [BEq α] [LawfulBEq α] (a : α) (b : β) :
    ∀ (l : List (α × β)), l.lookup a = some b → (a, b) ∈ l
  | [], h => by simp [List.lookup] at h
  | (a', b') :: l, h => by
    by_cases hk : a == a'
    · have : a = a' := by simpa using hk
      subst this
      simp [List.lookup] at h
      simp [h]
    · have h' : l.lookup a = some b := by simpa [List.lookup, hk] using h
      exact List.mem_cons_of_mem _ (lookup_mem a b l h')

theorem fst_nodup_unique {α β : Type} (a : α) (b b' : β) :
    ∀ (l : List (α × β)), (l.map (·.1)).Nodup → (a, b) ∈ l → (a, b') ∈ l → b = b'
  | [], _, h, _ => by simp at h
  | x :: l, hn, h1, h2 => by
    simp only [List.map_cons, List.nodup_cons] at hn
    rcases List.mem_cons.mp h1 with h1 | h1 <;> rcases List.mem_cons.mp h2 with h2 | h2
    · rw [← h1] at h2; exact (Prod.mk.inj h2).2.symm ▸ rfl
    · exfalso; apply hn.1; rw [← h1]; exact List.mem_map.mpr ⟨(a, b'), h2, rfl⟩
    · exfalso; apply hn.1; rw [← h2]; exact List.mem_map.mpr ⟨(a, b), h1, rfl⟩
    · exact fst_nodup_unique a b b' l hn.2 h1 h2

/-! ### findObj -/

theorem findObj_cons (o : Obj) (heap : List Obj) (i : Nat) :
    findObj (o :: heap) i = if o.id == i then some o else findObj heap i := by
  simp only [findObj, List.find?_cons]
  cases h : (o.id == i) <;> simp

theorem findObj_some_id {heap : List Obj} {i : Nat} {o : Obj} (h : findObj heap i = some o) : o.id = i := by
  have := List.find?_some h
  simpa using this

theorem findObj_filter (q : Obj → Bool) (i : Nat) :
    ∀ (heap : List Obj), (∀ o, o.id = i → q o = true) → findObj (heap.filter q) i = findObj heap i
  | [], _ => rfl
  | o :: heap, hq => by
    by_cases hi : o.id = i
    · have hqo : q o = true := hq o hi
      simp [hqo, findObj_cons, hi]
    · cases hqo : q o
      · simp [hqo, findObj_cons, hi, findObj_filter q i heap hq]
      · simp [hqo, findObj_cons, hi, findObj_filter q i heap hq]

theorem findObj_filter_ne (j i : Nat) :
    ∀ (heap : List Obj), findObj (heap.filter (fun o => !(o.id == j))) i = if i = j then none else findObj heap i
  | [] => by simp [findObj]
  | o :: heap => by
    have ih := findObj_filter_ne j i heap
    by_cases hj : o.id = j
    · simp only [List.filter_cons, hj, beq_self_eq_true, Bool.not_true, Bool.false_eq_true, if_false, ih, findObj_cons]
      by_cases hij : i = j
      · simp [hij]
      · have : ¬ (j = i) := fun h => hij h.symm
        simp [hij, this]
    · have hb : (o.id == j) = false := by simpa using hj
      simp only [List.filter_cons, hb, Bool.not_false, if_true, findObj_cons, ih]
      by_cases hij : i = j
      · subst hij
        have : (o.id == i) = false := hb
        simp [this]
      · simp [hij]

theorem findObj_setBody (i : Nat) (b : Body) (j : Nat) :
    ∀ (heap : List Obj), findObj (setBody heap i b) j =
      (findObj heap j).map (fun o => if o.id == i then { o with body := b } else o)
  | [] => rfl
  | o :: heap => by
    have ih := findObj_setBody i b j heap
    have hid : (if o.id == i then ({ o with body := b } : Obj) else o).id = o.id := by split <;> rfl
    simp only [setBody, List.map_cons] at ih ⊢
    rw [findObj_cons, findObj_cons, ih, hid]
    cases hj : (o.id == j) <;> simp

/-! ### what the program can observe; invariants -/

/-- the two states show the program the same thing: same handles, and behind every handle an object with the same
    identity, type and contents (headers, registry, cache and garbage may differ) -/
def Equiv (s t : St) : Prop :=
  s.next = t.next ∧ s.live = t.live ∧
  ∀ p ∈ s.live, (findObj s.heap p.2).map Obj.proj = (findObj t.heap p.2).map Obj.proj

theorem Equiv.refl (s : St) : Equiv s s := ⟨rfl, rfl, fun _ _ => rfl⟩

theorem Equiv.symm {s t : St} (h : Equiv s t) : Equiv t s :=
  ⟨h.1.symm, h.2.1.symm, fun p hp => (h.2.2 p (h.2.1 ▸ hp)).symm⟩

theorem Equiv.trans {s t u : St} (h1 : Equiv s t) (h2 : Equiv t u) : Equiv s u :=
  ⟨h1.1.trans h2.1, h1.2.1.trans h2.2.1, fun p hp => (h1.2.2 p hp).trans (h2.2.2 p (h1.2.1 ▸ hp))⟩

/-- every filled cache slot holds what `Type_Scan` returns for the class that owns the slot -/
def MemoOK (memo : List ((String × Nat) × String)) : Prop :=
  ∀ ty i inst, ((ty, i), inst) ∈ memo → ∃ cls, (i, cls) ∈ cacheSlots ∧ scan ty cls = some inst

/-- every object behind a live handle passes `type_of`'s checks of this configuration (its header was written by
    `header_init` of the same build) -/
def HdrOK (cfg : Cfg) (s : St) : Prop :=
  ∀ p ∈ s.live, ∀ o, findObj s.heap p.2 = some o → o.hdr = headerInit cfg o.hdr.type heapClass

/-- a header written by `header_init` of this build passes `type_of`'s checks of this build -/
theorem typeOf_of_hdr {cfg : Cfg} {o : Obj} {c : AllocClass} (h : o.hdr = headerInit cfg o.hdr.type c) :
    typeOf cfg o = .ok o.hdr.type := by
  have hm := congrArg Hdr.magic h
  simp only [headerInit] at hm
  unfold typeOf
  cases hmac : macroOn cfg "CELLO_MAGIC_CHECK"
  · simp
  · simp only [hmac, if_true] at hm ⊢
    simp [hm]

/-- … and holds the class `alloc_by` stamps, in the field that exists only under CELLO_ALLOC_CHECK -/
theorem siteClass_self_of_hdr {cfg : Cfg} {o : Obj} (h : o.hdr = headerInit cfg o.hdr.type heapClass) :
    siteClass o .self = heapClass := by
  have ha := congrArg Hdr.alloc h
  simp only [headerInit] at ha
  unfold siteClass
  rw [ha]
  cases macroOn cfg "CELLO_ALLOC_CHECK" <;> rfl

theorem sitesFire_congr {o₁ o₂ : Obj} (h : siteClass o₁ .self = siteClass o₂ .self) :
    ∀ (l : List (String × Where)), sitesFire o₁ l = sitesFire o₂ l
  | [] => rfl
  | (fn, w) :: rest => by
    have hw : siteClass o₁ w = siteClass o₂ w := by
      cases w with
      | self => exact h
      | elem f k => rfl
    simp only [sitesFire, hw, sitesFire_congr h rest]

/-- the guards of a call see the same classes in every build: both headers were written by the `header_init` of their build -/
theorem sitesFire_of_hdr {c₁ c₂ : Cfg} {o₁ o₂ : Obj} (h₁ : o₁.hdr = headerInit c₁ o₁.hdr.type heapClass)
    (h₂ : o₂.hdr = headerInit c₂ o₂.hdr.type heapClass) (l : List (String × Where)) : sitesFire o₁ l = sitesFire o₂ l :=
  sitesFire_congr (by rw [siteClass_self_of_hdr h₁, siteClass_self_of_hdr h₂]) l

def WF (cfg : Cfg) (s : St) : Prop := MemoOK s.memo ∧ HdrOK cfg s

theorem WF_init (cfg : Cfg) : WF cfg St.init :=
  ⟨fun _ _ _ h => by simp [St.init] at h, fun p h => by simp [St.init] at h⟩

/-- only the cache contents differ -/
def SameBut (s s' : St) : Prop :=
  s'.next = s.next ∧ s'.heap = s.heap ∧ s'.live = s.live ∧ s'.reg = s.reg ∧ s'.mitems = s.mitems

theorem SameBut.refl (s : St) : SameBut s s := ⟨rfl, rfl, rfl, rfl, rfl⟩

theorem SameBut.trans {s t u : St} (h1 : SameBut s t) (h2 : SameBut t u) : SameBut s u :=
  ⟨h2.1.trans h1.1, h2.2.1.trans h1.2.1, h2.2.2.1.trans h1.2.2.1, h2.2.2.2.1.trans h1.2.2.2.1, h2.2.2.2.2.trans h1.2.2.2.2⟩

theorem SameBut.equiv {s s' : St} (h : SameBut s s') : Equiv s s' :=
  ⟨h.1.symm, h.2.2.1.symm, fun _ _ => by rw [h.2.1]⟩

theorem SameBut.hdrOK {cfg : Cfg} {s s' : St} (h : SameBut s s') (hh : HdrOK cfg s) : HdrOK cfg s' := by
  intro p hp o ho
  rw [h.2.2.1] at hp; rw [h.2.1] at ho
  exact hh p hp o ho

theorem view_eq_of_equiv {s t : St} (h : Equiv s t) : s.view = t.view := by
  unfold St.view
  rw [← h.2.1]
  apply List.map_congr_left
  intro p hp
  have := h.2.2 p hp
  have e : ∀ x : Option Obj, x.map (·.body) = (x.map Obj.proj).map (fun q => q.2.2) := by
    intro x; cases x <;> rfl
  rw [e, e, this]

/-! ### the method cache is a memo of `Type_Scan` -/

theorem slotOf_mem {cls : String} {i : Nat} (h : slotOf cls = some i) : (i, cls) ∈ cacheSlots := by
  unfold slotOf at h
  rcases hf : cacheSlots.find? (fun e => e.2 == cls) with _ | ⟨j, c⟩
  · rw [hf] at h; simp at h
  · rw [hf] at h
    have hj : j = i := by simpa using h
    have hc : c = cls := by simpa using List.find?_some hf
    subst hj hc
    exact List.mem_of_find?_eq_some hf

theorem cacheSlots_idx_nodup : (cacheSlots.map (·.1)).Nodup := by decide +kernel

/-- `Type_Instance` returns what `Type_Scan` returns in every configuration, and keeps the cache a memo of it -/
theorem typeInstance_spec (cfg : Cfg) (memo : List ((String × Nat) × String)) (ty cls : String) (hm : MemoOK memo) :
    (typeInstance cfg memo ty cls).2 = scan ty cls ∧ MemoOK (typeInstance cfg memo ty cls).1 := by
  unfold typeInstance
  rcases hs : (if cfg.cache then slotOf cls else none) with _ | i
  · exact ⟨rfl, hm⟩
  · have hslot : slotOf cls = some i := by
      cases hc : cfg.cache <;> simp [hc] at hs
      exact hs
    have hmem := slotOf_mem hslot
    simp only
    rcases hl : memo.lookup (ty, i) with _ | inst
    · simp only
      rcases hsc : scan ty cls with _ | inst
      · exact ⟨rfl, hm⟩
      · refine ⟨rfl, ?_⟩
        intro ty' i' inst' h
        rcases List.mem_cons.mp h with h | h
        · have h1 : ty' = ty ∧ i' = i ∧ inst' = inst := by
            have := Prod.mk.inj h
            have h2 := Prod.mk.inj this.1
            exact ⟨h2.1, h2.2, this.2⟩
          obtain ⟨rfl, rfl, rfl⟩ := h1
          exact ⟨cls, hmem, hsc⟩
        · exact hm ty' i' inst' h
    · simp only
      refine ⟨?_, hm⟩
      obtain ⟨cls', hc', hsc'⟩ := hm ty i inst (lookup_mem _ _ _ hl)
      have : cls' = cls := fst_nodup_unique i cls' cls cacheSlots cacheSlots_idx_nodup hc' hmem
      rw [← this, hsc']

/-! ### dispatch: `type_of` + `Type_Instance` + method check -/

theorem typeOf_ok {cfg : Cfg} {o : Obj} {ty : String} (h : typeOf cfg o = .ok ty) : ty = o.hdr.type := by
  unfold typeOf at h
  split at h
  · split at h
    · exact (Outcome.ok.inj h).symm
    · cases h
  · exact (Outcome.ok.inj h).symm

/-- what a successful dispatch means -/
theorem dispatchGen_ok {req : Bool} {cfg : Cfg} {s s' : St} {h : Nat} {cls : String} {o : Obj}
    (hm : MemoOK s.memo) (hd : dispatchGen req cfg s h cls = (s', .ok o)) :
    ∃ i, s.live.lookup h = some i ∧ findObj s.heap i = some o ∧ typeOf cfg o = .ok o.hdr.type ∧
      (req = true → (scan o.hdr.type cls).isSome = true) ∧ SameBut s s' ∧ MemoOK s'.memo := by
  unfold dispatchGen at hd
  rcases hl : s.live.lookup h with _ | i
  · rw [hl] at hd; simp only [refuse] at hd; split at hd <;> cases hd
  · rw [hl] at hd; simp only at hd
    rcases hf : findObj s.heap i with _ | o'
    · rw [hf] at hd; simp only [refuse] at hd; split at hd <;> cases hd
    · rw [hf] at hd; simp only at hd
      rcases ht : typeOf cfg o' with ty | e | _
      · rw [ht] at hd; simp only at hd
        have hty := typeOf_ok ht
        subst hty
        have hspec := typeInstance_spec cfg s.memo o'.hdr.type cls hm
        rcases hr : (typeInstance cfg s.memo o'.hdr.type cls).2 with _ | inst
        · rw [hr] at hd; simp only at hd
          cases req
          · simp only [Bool.false_eq_true, if_false] at hd
            have h1 := (Prod.mk.inj hd)
            have h2 : o' = o := Outcome.ok.inj h1.2
            subst h2
            refine ⟨i, rfl, hf, ht, by simp, ?_, ?_⟩
            · rw [← h1.1]; exact ⟨rfl, rfl, rfl, rfl, rfl⟩
            · rw [← h1.1]; exact hspec.2
          · simp only [if_true, refuse] at hd
            split at hd <;> cases hd
        · rw [hr] at hd; simp only at hd
          have h1 := (Prod.mk.inj hd)
          have h2 : o' = o := Outcome.ok.inj h1.2
          subst h2
          refine ⟨i, rfl, hf, ht, ?_, ?_, ?_⟩
          · intro _; rw [← hspec.1, hr]; rfl
          · rw [← h1.1]; exact ⟨rfl, rfl, rfl, rfl, rfl⟩
          · rw [← h1.1]; exact hspec.2
      · rw [ht] at hd; cases hd
      · rw [ht] at hd; cases hd

/-- … and the facts that make a dispatch succeed -/
theorem dispatchGen_intro {req : Bool} {cfg : Cfg} {s : St} {h i : Nat} {cls : String} {o : Obj}
    (hm : MemoOK s.memo) (hl : s.live.lookup h = some i) (hf : findObj s.heap i = some o)
    (ht : typeOf cfg o = .ok o.hdr.type) (hs : req = true → (scan o.hdr.type cls).isSome = true) :
    ∃ s', dispatchGen req cfg s h cls = (s', .ok o) ∧ SameBut s s' ∧ MemoOK s'.memo := by
  have hspec := typeInstance_spec cfg s.memo o.hdr.type cls hm
  unfold dispatchGen
  simp only [hl, hf, ht]
  rcases hr : (typeInstance cfg s.memo o.hdr.type cls).2 with _ | inst
  · cases req
    · exact ⟨_, rfl, ⟨rfl, rfl, rfl, rfl, rfl⟩, hspec.2⟩
    · have := hs rfl
      rw [← hspec.1, hr] at this
      cases this
  · exact ⟨_, rfl, ⟨rfl, rfl, rfl, rfl, rfl⟩, hspec.2⟩

/-- a dispatch that succeeds in the default configuration succeeds in every configuration, on the same object -/
theorem dispatchGen_sim (req : Bool) (cfg : Cfg) {s₁ s₂ s₁' : St} {h : Nat} {cls : String} {o₁ : Obj}
    (he : Equiv s₁ s₂) (hm₁ : MemoOK s₁.memo) (hw₂ : WF cfg s₂)
    (hd : dispatchGen req Cfg.default s₁ h cls = (s₁', .ok o₁)) :
    ∃ s₂' o₂, dispatchGen req cfg s₂ h cls = (s₂', .ok o₂) ∧ o₁.proj = o₂.proj ∧
      SameBut s₁ s₁' ∧ SameBut s₂ s₂' ∧ MemoOK s₁'.memo ∧ MemoOK s₂'.memo ∧
      (h, o₁.id) ∈ s₁.live ∧ findObj s₁.heap o₁.id = some o₁ ∧ findObj s₂.heap o₁.id = some o₂ := by
  obtain ⟨i, hl, hf, _, hs, hsb, hm₁'⟩ := dispatchGen_ok hm₁ hd
  have hid : o₁.id = i := findObj_some_id hf
  have hmem : (h, i) ∈ s₁.live := lookup_mem _ _ _ hl
  have hp := he.2.2 (h, i) hmem
  simp only [hf, Option.map_some] at hp
  rcases hf₂ : findObj s₂.heap i with _ | o₂
  · rw [hf₂] at hp; cases hp
  · rw [hf₂] at hp
    have hproj : o₁.proj = o₂.proj := Option.some.inj hp
    have hty : o₂.hdr.type = o₁.hdr.type := by
      have := congrArg (fun q => q.2.1) hproj
      exact this.symm
    have hl₂ : s₂.live.lookup h = some i := by rw [← he.2.1]; exact hl
    have ht₂ := typeOf_of_hdr (hw₂.2 (h, i) (he.2.1 ▸ hmem) o₂ hf₂)
    obtain ⟨s₂', hd₂, hsb₂, hm₂'⟩ := dispatchGen_intro (req := req) (cls := cls) hw₂.1 hl₂ hf₂ ht₂ (by rw [hty]; exact hs)
    exact ⟨s₂', o₂, hd₂, hproj, hsb, hsb₂, hm₁', hm₂', hid ▸ hmem, hid ▸ hf, hid ▸ hf₂⟩

theorem equiv_of_sameBut {s₁ s₂ s₁' s₂' : St} (he : Equiv s₁ s₂) (h1 : SameBut s₁ s₁') (h2 : SameBut s₂ s₂') :
    Equiv s₁' s₂' :=
  (h1.equiv.symm.trans he).trans h2.equiv

theorem dispatchAll_sim (cfg : Cfg) : ∀ (uses : List (Nat × String)) {s₁ s₂ s₁' : St},
    Equiv s₁ s₂ → MemoOK s₁.memo → WF cfg s₂ → dispatchAll Cfg.default s₁ uses = (s₁', .ok ()) →
    ∃ s₂', dispatchAll cfg s₂ uses = (s₂', .ok ()) ∧ SameBut s₁ s₁' ∧ SameBut s₂ s₂' ∧ MemoOK s₁'.memo ∧ MemoOK s₂'.memo
  | [], s₁, s₂, s₁', _, hm₁, hw₂, h => by
    simp only [dispatchAll] at h
    have : s₁ = s₁' := (Prod.mk.inj h).1
    subst this
    exact ⟨s₂, rfl, SameBut.refl _, SameBut.refl _, hm₁, hw₂.1⟩
  | (hd, cls) :: rest, s₁, s₂, s₁', he, hm₁, hw₂, h => by
    simp only [dispatchAll, dispatch] at h ⊢
    rcases hdis : dispatchGen true Cfg.default s₁ hd cls with ⟨sA, (o₁ | e | _)⟩
    · rw [hdis] at h; simp only at h
      obtain ⟨sB, o₂, hd₂, _, hsb₁, hsb₂, hmA, hmB, _⟩ := dispatchGen_sim true cfg he hm₁ hw₂ hdis
      rw [hd₂]; simp only
      have heA : Equiv sA sB := equiv_of_sameBut he hsb₁ hsb₂
      obtain ⟨s₂', hr, h1, h2, h3, h4⟩ := dispatchAll_sim cfg rest heA hmA ⟨hmB, hsb₂.hdrOK hw₂.2⟩ h
      exact ⟨s₂', hr, hsb₁.trans h1, hsb₂.trans h2, h3, h4⟩
    · rw [hdis] at h; cases h
    · rw [hdis] at h; cases h

/-! ### effects on the heap keep what the program sees -/

theorem equiv_setBody {s t : St} (i : Nat) (b : Body) (he : Equiv s t) :
    Equiv { s with heap := setBody s.heap i b } { t with heap := setBody t.heap i b } := by
  refine ⟨he.1, he.2.1, ?_⟩
  intro p hp
  have e : ∀ x : Option Obj, (x.map (fun o => if o.id == i then ({ o with body := b } : Obj) else o)).map Obj.proj
      = (x.map Obj.proj).map (fun q => (q.1, q.2.1, if q.1 == i then b else q.2.2)) := by
    intro x
    cases x with
    | none => rfl
    | some o =>
      simp only [Option.map_some, Obj.proj]
      split <;> rfl
  simp only [findObj_setBody, e]
  rw [he.2.2 p hp]

theorem hdrOK_setBody {cfg : Cfg} {s : St} (i : Nat) (b : Body) (hh : HdrOK cfg s) :
    HdrOK cfg { s with heap := setBody s.heap i b } := by
  intro p hp o ho
  simp only [findObj_setBody] at ho
  rcases hf : findObj s.heap p.2 with _ | o'
  · rw [hf] at ho; cases ho
  · rw [hf] at ho
    have ho' : o = (if o'.id == i then ({ o' with body := b } : Obj) else o') := (Option.some.inj ho).symm
    have hhdr : o.hdr = o'.hdr := by rw [ho']; split <;> rfl
    have := hh p hp o' hf
    rw [hhdr]; exact this

theorem collect_find (s : St) : ∀ p ∈ s.live, findObj (collect s).heap p.2 = findObj s.heap p.2 := by
  intro p hp
  simp only [collect]
  rw [findObj_filter]
  intro o ho
  simp only [List.contains_eq_mem, List.mem_append, List.mem_map, Bool.or_eq_true, Bool.not_eq_true', decide_eq_false_iff_not,
    decide_eq_true_eq]
  right
  left
  exact ⟨p, hp, ho.symm⟩

theorem collect_equiv (s : St) : Equiv s (collect s) :=
  ⟨rfl, rfl, fun p hp => by rw [collect_find s p hp]⟩

theorem gcSet_equiv (s : St) (i : Nat) : Equiv s (gcSet s i) := by
  unfold gcSet
  simp only
  split
  · exact (show Equiv s { s with reg := i :: s.reg } from ⟨rfl, rfl, fun _ _ => rfl⟩).trans (collect_equiv _)
  · exact ⟨rfl, rfl, fun _ _ => rfl⟩

theorem hdrOK_of_equiv_heap {cfg : Cfg} {s t : St} (hl : t.live = s.live)
    (hf : ∀ p ∈ s.live, findObj t.heap p.2 = findObj s.heap p.2) (hh : HdrOK cfg s) : HdrOK cfg t := by
  intro p hp o ho
  rw [hl] at hp
  rw [hf p hp] at ho
  exact hh p hp o ho

theorem hdrOK_collect {cfg : Cfg} {s : St} (hh : HdrOK cfg s) : HdrOK cfg (collect s) :=
  hdrOK_of_equiv_heap (s := s) (t := collect s) rfl (collect_find s) hh

theorem hdrOK_gcSet {cfg : Cfg} {s : St} (i : Nat) (hh : HdrOK cfg s) : HdrOK cfg (gcSet s i) := by
  unfold gcSet
  simp only
  split
  · exact hdrOK_collect (s := { s with reg := i :: s.reg }) hh
  · exact hh

theorem memo_collect (s : St) : (collect s).memo = s.memo := rfl
theorem memo_gcSet (s : St) (i : Nat) : (gcSet s i).memo = s.memo := by
  unfold gcSet; simp only; split <;> rfl

/-! ### lookups on embedded elements, guards over the allocation class -/

/-- the lookups on embedded elements come out the same in every configuration (the cache is a memo), and touch only the cache -/
theorem innerAll_spec (cfg : Cfg) : ∀ (l : List (String × String)) (s : St), MemoOK s.memo →
    (innerAll cfg s l).2 = l.any (fun p => (scan p.1 p.2).isNone) ∧ SameBut s (innerAll cfg s l).1 ∧
      MemoOK (innerAll cfg s l).1.memo
  | [], s, hm => ⟨rfl, SameBut.refl _, hm⟩
  | (ty, cls) :: rest, s, hm => by
    have hspec := typeInstance_spec cfg s.memo ty cls hm
    simp only [innerAll, List.any_cons]
    rcases hr : (typeInstance cfg s.memo ty cls).2 with _ | inst
    · rw [← hspec.1, hr]
      exact ⟨rfl, ⟨rfl, rfl, rfl, rfl, rfl⟩, hspec.2⟩
    · simp only
      have ih := innerAll_spec cfg rest { s with memo := (typeInstance cfg s.memo ty cls).1 } hspec.2
      rw [← hspec.1, hr]
      refine ⟨by simpa using ih.1, ?_, ih.2.2⟩
      exact SameBut.trans (s := s) (t := { s with memo := (typeInstance cfg s.memo ty cls).1 }) ⟨rfl, rfl, rfl, rfl, rfl⟩ ih.2.1

theorem siteClass_self_headerInit (cfg : Cfg) (i : Nat) (ty : String) (b : Body) :
    siteClass { id := i, hdr := headerInit cfg ty heapClass, body := b } .self = heapClass :=
  siteClass_self_of_hdr (cfg := cfg) (o := { id := i, hdr := headerInit cfg ty heapClass, body := b }) rfl

/-! ### one step -/

theorem typeOf_headerInit (cfg : Cfg) (i : Nat) (ty : String) (c : AllocClass) (b : Body) :
    typeOf cfg { id := i, hdr := headerInit cfg ty c, body := b } = .ok ty := by
  unfold typeOf headerInit
  cases h : macroOn cfg "CELLO_MAGIC_CHECK" <;> simp

/-- the conclusion of every simulation lemma -/
def SimGoal (cfg : Cfg) (r₁ r₂ : St × Outcome Out) (out : Out) : Prop :=
  r₂.2 = .ok out ∧ Equiv r₁.1 r₂.1 ∧ WF cfg r₂.1

theorem runCall_sim (cfg : Cfg) (c : Call) {s₁ s₂ : St} {out : Out}
    (he : Equiv s₁ s₂) (hw₁ : WF Cfg.default s₁) (hw₂ : WF cfg s₂)
    (h : (runCall Cfg.default c s₁).2 = .ok out) :
    SimGoal cfg (runCall Cfg.default c s₁) (runCall cfg c s₂) out := by
  unfold runCall at h ⊢
  simp only [dispatch] at h ⊢
  rcases hdis : dispatchGen true Cfg.default s₁ c.self c.cls with ⟨sA, (o₁ | e | _)⟩
  · rw [hdis] at h; simp only at h ⊢
    obtain ⟨sB, o₂, hd₂, hproj, hsb₁, hsb₂, hmA, hmB, hlive, hf₁, hf₂⟩ := dispatchGen_sim true cfg he hw₁.1 hw₂ hdis
    rw [hd₂]; simp only
    have heA : Equiv sA sB := equiv_of_sameBut he hsb₁ hsb₂
    have hh₁ := hw₁.2 _ hlive o₁ hf₁
    have hh₂ := hw₂.2 _ (he.2.1 ▸ hlive) o₂ hf₂
    rcases hall : dispatchAll Cfg.default sA c.uses with ⟨sA', (u | e | _)⟩
    · rw [hall] at h; simp only at h ⊢
      obtain ⟨sB', hall₂, hs1, hs2, hmA', hmB'⟩ := dispatchAll_sim cfg c.uses heA hmA ⟨hmB, hsb₂.hdrOK hw₂.2⟩ hall
      rw [hall₂]; simp only
      have heA' : Equiv sA' sB' := equiv_of_sameBut heA hs1 hs2
      have hhB' : HdrOK cfg sB' := hs2.hdrOK (hsb₂.hdrOK hw₂.2)
      have hbody : o₂.body = o₁.body := (congrArg (fun q => q.2.2) hproj).symm
      have hid : o₂.id = o₁.id := (congrArg (fun q => q.1) hproj).symm
      rw [hbody, hid]
      rcases hg : c.guard o₁.body with _ | e
      · rw [hg] at h; simp only at h ⊢
        -- lookups on embedded elements: the same answer in both builds, only the caches move
        have hiA := innerAll_spec Cfg.default (c.inner o₁.body) sA' hmA'
        have hiB := innerAll_spec cfg (c.inner o₁.body) sB' hmB'
        rcases hinA : innerAll Cfg.default sA' (c.inner o₁.body) with ⟨sA3, fA⟩
        rcases hinB : innerAll cfg sB' (c.inner o₁.body) with ⟨sB3, fB⟩
        rw [hinA] at hiA h; rw [hinB] at hiB
        simp only at hiA hiB h ⊢
        have hf : fB = fA := by rw [hiA.1, hiB.1]
        subst hf
        have heA3 : Equiv sA3 sB3 := equiv_of_sameBut heA' hiA.2.1 hiB.2.1
        have hhB3 : HdrOK cfg sB3 := hiB.2.1.hdrOK hhB'
        cases fB
        · simp only at h ⊢
          -- the guards over the allocation class read the same class in both headers
          rw [← sitesFire_of_hdr hh₁ hh₂ (c.sites o₁.body)]
          rcases hsf : sitesFire o₁ (c.sites o₁.body) with _ | e
          · rw [hsf] at h; simp only at h ⊢
            cases hu : c.undef o₁.body
            · rw [hu] at h; simp only [Bool.false_eq_true, if_false] at h ⊢
              rcases hh : c.hard o₁.body with _ | e
              · rw [hh] at h; simp only at h ⊢
                exact ⟨h, equiv_setBody _ _ heA3, hiB.2.2, hdrOK_setBody _ _ hhB3⟩
              · rw [hh] at h; cases h
            · rw [hu] at h; simp only [if_true] at h; cases h
          · rw [hsf] at h; simp only [refuse, Cfg.default, if_true] at h; cases h
        · simp only [refuse, Cfg.default, if_true] at h; cases h
      · rw [hg] at h; simp only [refuse, Cfg.default, if_true] at h; cases h
    · rw [hall] at h; simp at h
    · rw [hall] at h; simp at h
  · rw [hdis] at h; simp at h
  · rw [hdis] at h; simp at h

theorem register_equiv (cfg : Cfg) (mode : AMode) (s : St) (i : Nat) : Equiv s (register cfg mode s i) := by
  unfold register
  cases cfg.gc
  · exact Equiv.refl s
  · simp only [if_true]
    cases mode
    · exact gcSet_equiv s i
    · exact Equiv.refl s
    · exact (show Equiv s { s with roots := i :: s.roots } from ⟨rfl, rfl, fun _ _ => rfl⟩).trans (gcSet_equiv _ i)

theorem memo_register (cfg : Cfg) (mode : AMode) (s : St) (i : Nat) : (register cfg mode s i).memo = s.memo := by
  unfold register
  cases cfg.gc
  · rfl
  · simp only [if_true]
    cases mode
    · exact memo_gcSet s i
    · rfl
    · exact memo_gcSet _ i

theorem hdrOK_register {cfg : Cfg} (c : Cfg) (mode : AMode) {s : St} (i : Nat) (hh : HdrOK cfg s) :
    HdrOK cfg (register c mode s i) := by
  unfold register
  cases c.gc
  · exact hh
  · simp only [if_true]
    cases mode
    · exact hdrOK_gcSet i hh
    · exact hh
    · exact hdrOK_gcSet (s := { s with roots := i :: s.roots }) i hh

theorem runAlloc_sim (cfg : Cfg) (d : Nat) (ty : String) (b : Body) (uses : List (Nat × String)) (mode : AMode) {s₁ s₂ : St} {out : Out}
    (he : Equiv s₁ s₂) (hw₁ : WF Cfg.default s₁) (hw₂ : WF cfg s₂)
    (h : (runAlloc Cfg.default d ty b uses mode s₁).2 = .ok out) :
    SimGoal cfg (runAlloc Cfg.default d ty b uses mode s₁) (runAlloc cfg d ty b uses mode s₂) out := by
  unfold runAlloc at h ⊢
  rcases hall : dispatchAll Cfg.default s₁ uses with ⟨sA, (u | e | _)⟩
  · rw [hall] at h; simp only at h ⊢
    obtain ⟨sB, hall₂, hs1, hs2, hmA, hmB⟩ := dispatchAll_sim cfg uses he hw₁.1 hw₂ hall
    rw [hall₂]; simp only
    have heA : Equiv sA sB := equiv_of_sameBut he hs1 hs2
    have hhB : HdrOK cfg sB := hs2.hdrOK hw₂.2
    -- the states right after `alloc_by` and before registration
    let oA : Obj := { id := sA.next, hdr := headerInit Cfg.default ty heapClass, body := b }
    let oB : Obj := { id := sB.next, hdr := headerInit cfg ty heapClass, body := b }
    -- the constructor's guards see the class `alloc_by` stamps, in either build
    have hsite : sitesFire oB ((ty ++ "_Assign", .self) :: elemSites "_Assign" b) =
        sitesFire oA ((ty ++ "_Assign", .self) :: elemSites "_Assign" b) :=
      sitesFire_congr (by simp only [oA, oB, siteClass_self_headerInit]) _
    rw [hsite]
    rcases hsf : sitesFire oA ((ty ++ "_Assign", .self) :: elemSites "_Assign" b) with _ | e
    · rw [hsf] at h; simp only at h ⊢
      let tA : St := { sA with next := sA.next + 1, heap := oA :: sA.heap, live := (d, oA.id) :: sA.live }
      let tB : St := { sB with next := sB.next + 1, heap := oB :: sB.heap, live := (d, oB.id) :: sB.live }
      have het : Equiv tA tB := by
        refine ⟨by simp [tA, tB, heA.1], by simp [tA, tB, oA, oB, heA.1, heA.2.1], ?_⟩
        intro p hp
        simp only [tA, tB, findObj_cons, oA, oB]
        rw [← heA.1]
        by_cases hpn : sA.next = p.2
        · simp [hpn, Obj.proj, headerInit]
        · have hb : (sA.next == p.2) = false := by simpa using hpn
          simp only [hb, Bool.false_eq_true, if_false]
          rcases List.mem_cons.mp hp with hp | hp
          · exfalso; apply hpn; rw [hp]
          · exact heA.2.2 p hp
      have hht : HdrOK cfg tB := by
        intro p hp o ho
        simp only [tB, findObj_cons, oB] at ho
        by_cases hpn : sB.next = p.2
        · simp only [hpn, beq_self_eq_true, if_true] at ho
          have := Option.some.inj ho
          rw [← this]
          rfl
        · have hb : (sB.next == p.2) = false := by simpa using hpn
          simp only [hb, Bool.false_eq_true, if_false] at ho
          rcases List.mem_cons.mp hp with hp | hp
          · exfalso; apply hpn; rw [hp]
          · exact hhB p hp o ho
      have hout : out = .unit := by
        have := Outcome.ok.inj h
        exact this.symm
      subst hout
      refine ⟨rfl, ?_, ?_, ?_⟩
      · -- default registers (and may sweep); cfg may or may not
        exact ((register_equiv Cfg.default mode tA oA.id).symm.trans het).trans (register_equiv cfg mode tB oB.id)
      · show MemoOK (register cfg mode tB oB.id).memo
        rw [memo_register]; exact hmB
      · exact hdrOK_register cfg mode oB.id hht
    · rw [hsf] at h; simp only [refuse, Cfg.default, if_true] at h; cases h
  · rw [hall] at h; simp at h
  · rw [hall] at h; simp at h

theorem equiv_free {s t : St} (x i : Nat) (r₁ r₂ q₁ q₂ : List Nat) (he : Equiv s t) :
    Equiv { s with heap := s.heap.filter (fun o => !(o.id == i)), reg := r₁, roots := q₁, live := s.live.filter (fun p => !(p.1 == x)) }
          { t with heap := t.heap.filter (fun o => !(o.id == i)), reg := r₂, roots := q₂, live := t.live.filter (fun p => !(p.1 == x)) } := by
  refine ⟨he.1, by simp only [he.2.1], ?_⟩
  intro p hp
  have hp' : p ∈ s.live := (List.mem_filter.mp hp).1
  simp only [findObj_filter_ne]
  split
  · rfl
  · exact he.2.2 p hp'

theorem hdrOK_free {cfg : Cfg} {s : St} (x i : Nat) (r q : List Nat) (hh : HdrOK cfg s) :
    HdrOK cfg { s with heap := s.heap.filter (fun o => !(o.id == i)), reg := r, roots := q, live := s.live.filter (fun p => !(p.1 == x)) } := by
  intro p hp o ho
  have hp' : p ∈ s.live := (List.mem_filter.mp hp).1
  simp only [findObj_filter_ne] at ho
  split at ho
  · cases ho
  · exact hh p hp' o ho

theorem runDel_sim (cfg : Cfg) (x : Nat) {s₁ s₂ : St} {out : Out}
    (he : Equiv s₁ s₂) (hw₁ : WF Cfg.default s₁) (hw₂ : WF cfg s₂)
    (h : (runDel Cfg.default x s₁).2 = .ok out) :
    SimGoal cfg (runDel Cfg.default x s₁) (runDel cfg x s₂) out := by
  unfold runDel at h ⊢
  rcases hdis : dispatchGen false Cfg.default s₁ x "New" with ⟨sA, (o₁ | e | _)⟩
  · rw [hdis] at h; simp only at h ⊢
    obtain ⟨sB, o₂, hd₂, hproj, hsb₁, hsb₂, hmA, hmB, hlive, hf₁, hf₂⟩ := dispatchGen_sim false cfg he hw₁.1 hw₂ hdis
    rw [hd₂]; simp only
    have heA : Equiv sA sB := equiv_of_sameBut he hsb₁ hsb₂
    have hhB : HdrOK cfg sB := hsb₂.hdrOK hw₂.2
    have hh₁ := hw₁.2 _ hlive o₁ hf₁
    have hh₂ := hw₂.2 _ (he.2.1 ▸ hlive) o₂ hf₂
    rcases hdis2 : dispatchGen false Cfg.default sA x "Alloc" with ⟨sA', (o₁' | e | _)⟩
    · rw [hdis2] at h; simp only at h ⊢
      obtain ⟨sB', o₂', hd₂', _, hs1, hs2, _, hmB', _, _, _⟩ := dispatchGen_sim false cfg heA hmA ⟨hmB, hhB⟩ hdis2
      rw [hd₂']; simp only
      have heA' : Equiv sA' sB' := equiv_of_sameBut heA hs1 hs2
      have hhB' : HdrOK cfg sB' := hs2.hdrOK hhB
      have hid : o₂.id = o₁.id := (congrArg (fun q => q.1) hproj).symm
      have hbody : o₂.body = o₁.body := (congrArg (fun q => q.2.2) hproj).symm
      have hty : o₂.hdr.type = o₁.hdr.type := (congrArg (fun q => q.2.1) hproj).symm
      rw [hid, hbody, hty, ← sitesFire_of_hdr hh₁ hh₂]
      rcases hsf : sitesFire o₁ ((o₁.hdr.type ++ "_Del", .self) :: elemSites "_Del" o₁.body ++ [("dealloc", .self)]) with _ | e
      · rw [hsf] at h; simp only [hsf] at h ⊢
        refine ⟨h, ?_, ?_, ?_⟩
        · exact equiv_free x o₁.id _ _ _ _ heA'
        · exact hmB'
        · exact hdrOK_free x o₁.id _ _ hhB'
      · rw [hsf] at h; simp only [refuse, Cfg.default, if_true] at h; cases h
    · rw [hdis2] at h; simp at h
    · rw [hdis2] at h; simp at h
  · rw [hdis] at h; simp at h
  · rw [hdis] at h; simp at h

/-- **One step.** If a step is in contract under the default configuration (outcome `ok`), then from any state that shows
    the program the same objects, under any configuration, it has the same outcome and leaves states that again show the
    same objects. -/
theorem step_sim (cfg : Cfg) (op : Op) {s₁ s₂ : St} {out : Out}
    (he : Equiv s₁ s₂) (hw₁ : WF Cfg.default s₁) (hw₂ : WF cfg s₂)
    (h : (step Cfg.default op s₁).2 = .ok out) :
    SimGoal cfg (step Cfg.default op s₁) (step cfg op s₂) out := by
  unfold step at h ⊢
  rw [← view_eq_of_equiv he]
  rcases hp : plan op s₁.view with c | ⟨d, ty, b, uses, mode⟩ | x | x | _ | o | e | _
  · rw [hp] at h; exact runCall_sim cfg c he hw₁ hw₂ h
  · rw [hp] at h; exact runAlloc_sim cfg d ty b uses mode he hw₁ hw₂ h
  · rw [hp] at h; exact runDel_sim cfg x he hw₁ hw₂ h
  · rw [hp] at h; simp only at h ⊢
    refine ⟨h, ⟨he.1, by simp only [he.2.1], ?_⟩, hw₂.1, ?_⟩
    · intro p hp'; exact he.2.2 p (List.mem_filter.mp hp').1
    · intro p hp' o ho; exact hw₂.2 p (List.mem_filter.mp hp').1 o ho
  · rw [hp] at h; simp only at h ⊢
    refine ⟨h, ?_, ?_, ?_⟩
    · simp only [Cfg.default, if_true]
      cases cfg.gc
      · simp only [Bool.false_eq_true, if_false]; exact (collect_equiv s₁).symm.trans he
      · simp only [if_true]; exact ((collect_equiv s₁).symm.trans he).trans (collect_equiv s₂)
    · cases cfg.gc
      · simp only [Bool.false_eq_true, if_false]; exact hw₂.1
      · simp only [if_true]; exact hw₂.1
    · cases cfg.gc
      · simp only [Bool.false_eq_true, if_false]; exact hw₂.2
      · simp only [if_true]; exact hdrOK_collect hw₂.2
  · rw [hp] at h; simp only at h ⊢
    exact ⟨h, he, hw₂⟩
  · rw [hp] at h; simp only [refuse, Cfg.default, if_true] at h; cases h
  · rw [hp] at h; cases h

end Cello.Config
