/-
  CelloProofs/Lemmas/TableRep.lean — the representation relation between a model table and an association list, and
  what `Table_Set_Move`, `Table_Rehash` (a fold of re-insertions) and the `foreach` of `Table_Assign` do to it.
-/
import CelloProofs.Lemmas.TableBasic
import CelloProofs.Lemmas.RHAbsIns
import CelloProofs.Lemmas.TableFind
import CelloProofs.Lemmas.TableSpec
set_option linter.unusedSectionVars false
set_option linter.unusedVariables false
namespace Cello.Table
open RH
variable {κ ν : Type} [DecidableEq κ]

/-- the slot array is well formed and `nitems` counts it -/
structure WF (hash : κ → Nat) (t : Tab κ ν) : Prop where
  inv0 : Inv0 hash t.slots
  cnt : count t.slots = t.nitems

/-- `t` represents the finite map `m` (room for one more insertion not included) -/
structure Rep0 (hash : κ → Nat) (t : Tab κ ν) (m : Spec κ ν) : Prop extends WF hash t where
  nodup : (m.map Prod.fst).Nodup
  len : m.length = t.nitems
  has : ∀ k v, Has t.slots k v ↔ (k, v) ∈ m

/-- the invariant between operations: representation + at least one empty slot (or no slots at all) -/
structure Rep (hash : κ → Nat) (t : Tab κ ν) (m : Spec κ ν) : Prop extends Rep0 hash t m where
  room : t.nitems < t.n ∨ t.n = 0

theorem wf_empty (hash : κ → Nat) (n : Nat) : WF hash (Tab.empty n : Tab κ ν) :=
  ⟨inv0_replicate_none hash, count_replicate_none⟩

theorem not_has_empty (n : Nat) (k : κ) (v : ν) : ¬ Has (Tab.empty n : Tab κ ν).slots k v := by
  rintro ⟨e, he, _⟩; exact not_mem_replicate_none e he

theorem rep_empty (hash : κ → Nat) (n : Nat) (hn : 0 < n) : Rep hash (Tab.empty n : Tab κ ν) [] := by
  refine ⟨⟨wf_empty hash n, List.nodup_nil, rfl, ?_⟩, Or.inl hn⟩
  intro k v; simp [not_has_empty]

theorem rep_empty_zero (hash : κ → Nat) : Rep hash (Tab.empty 0 : Tab κ ν) [] := by
  refine ⟨⟨wf_empty hash 0, List.nodup_nil, rfl, ?_⟩, Or.inr rfl⟩
  intro k v; simp [not_has_empty]

theorem WF.exists_empty {hash : κ → Nat} {t : Tab κ ν} (w : WF hash t) (h : t.nitems < t.n) :
    ∃ z, ∃ hz : z < t.n, t.slots[z] = none :=
  exists_empty_of_count_lt t.slots (by rw [w.cnt]; exact h)

/-- `Table_Set_Move` of a key that is not stored (either tie rule) -/
theorem setMove_fresh (cfg : Cfg) (hash : κ → Nat) (t : Tab κ ν) (w : WF hash t) (hroom : t.nitems < t.n)
    (k : κ) (v : ν) (hfresh : ¬ HasKey t.slots k) :
    ∃ t', setMove cfg hash t k v = .ok t' ∧ t'.n = t.n ∧ WF hash t' ∧ t'.nitems = t.nitems + 1 ∧
      ∀ k' v', Has t'.slots k' v' ↔ Has t.slots k' v' ∨ (k' = k ∧ v' = v) := by
  have hn : t.n ≠ 0 := by omega
  obtain ⟨z, hz, hze⟩ := w.exists_empty hroom
  have P := pending_start hash t.slots w.inv0 k v (Nat.pos_of_ne_zero hn) hfresh z hz hze
  obtain ⟨s', hs', hinv, hmem, hcnt⟩ := setLoop_fresh hash cfg.ge t.n t.slots _ _ 0 z (Nat.mod_lt _ (Nat.pos_of_ne_zero hn)) P
    (dist_lt hz (Nat.mod_lt _ (Nat.pos_of_ne_zero hn)))
  refine ⟨⟨t.n, s', t.nitems + 1⟩, ?_, rfl, ⟨hinv, by rw [hcnt, w.cnt]⟩, rfl, ?_⟩
  · simp only [setMove, dif_neg hn, hs', if_true]
  · intro k' v'
    constructor
    · rintro ⟨e, he, hk, hv⟩
      rcases (hmem e).mp he with h | h
      · exact Or.inl ⟨e, h, hk, hv⟩
      · subst h; exact Or.inr ⟨hk.symm, hv.symm⟩
    · rintro (⟨e, he, hk, hv⟩ | ⟨hk, hv⟩)
      · exact ⟨e, (hmem e).mpr (Or.inl he), hk, hv⟩
      · exact ⟨_, (hmem _).mpr (Or.inr rfl), hk.symm, hv.symm⟩

/-- `Table_Set_Move` of a key that is stored, strict rule -/
theorem setMove_update (cfg : Cfg) (hge : cfg.ge = false) (hash : κ → Nat) (t : Tab κ ν) (w : WF hash t)
    (k : κ) (v : ν) (hk : HasKey t.slots k) :
    ∃ t', setMove cfg hash t k v = .ok t' ∧ t'.n = t.n ∧ WF hash t' ∧ t'.nitems = t.nitems ∧
      ∀ k' v', Has t'.slots k' v' ↔ (k' = k ∧ v' = v) ∨ (k' ≠ k ∧ Has t.slots k' v') := by
  obtain ⟨e, ⟨p, hp, hpe⟩, hek⟩ := hk
  have hn : t.n ≠ 0 := by omega
  have hpos := Nat.pos_of_ne_zero hn
  have hloop := update_hits_existing hash t.slots w.inv0 hpos k v p hp e hpe hek
  have hh : e.home = hash k % t.n := by rw [← hek]; exact w.inv0.home_ok p hp e hpe
  refine ⟨⟨t.n, t.slots.set p (some ⟨k, hash k % t.n, v⟩) hp, t.nitems⟩, ?_, rfl,
    ⟨inv0_set_same hash t.slots w.inv0 p hp e _ hpe hek.symm hh.symm, ?_⟩, rfl, ?_⟩
  · simp only [setMove, dif_neg hn, hge, hloop]; rfl
  · rw [count_set_some_some t.slots p hp _ e hpe]; exact w.cnt
  · intro k' v'
    constructor
    · rintro ⟨x, hx, hxk, hxv⟩
      rcases (mem_set_iff t.slots p hp _ _).mp hx with h | ⟨q, hq, hqp, hqx⟩
      · cases h; exact Or.inl ⟨hxk.symm, hxv.symm⟩
      · refine Or.inr ⟨?_, x, ⟨q, hq, hqx⟩, hxk, hxv⟩
        intro hkk
        exact hqp (w.inv0.distinct q p hq hp x e hqx hpe (by rw [hxk, hkk, hek]))
    · rintro (⟨hkk, hvv⟩ | ⟨hne, x, ⟨q, hq, hqx⟩, hxk, hxv⟩)
      · exact ⟨_, (mem_set_iff t.slots p hp _ _).mpr (Or.inl rfl), hkk.symm, hvv.symm⟩
      · refine ⟨x, (mem_set_iff t.slots p hp _ _).mpr (Or.inr ⟨q, hq, ?_, hqx⟩), hxk, hxv⟩
        intro hqp; subst hqp
        rw [hpe] at hqx; cases hqx
        exact hne (hxk.symm.trans hek)

theorem hasKey_iff_spec {hash : κ → Nat} {t : Tab κ ν} {m : Spec κ ν} (r : Rep0 hash t m) (k : κ) :
    HasKey t.slots k ↔ ∃ v, (k, v) ∈ m := by
  constructor
  · rintro ⟨e, he, hk⟩; exact ⟨e.val, (r.has k e.val).mp ⟨e, he, hk, rfl⟩⟩
  · rintro ⟨v, hv⟩; obtain ⟨e, he, hk, _⟩ := (r.has k v).mpr hv; exact ⟨e, he, hk⟩

/-- `Table_Set_Move` on a represented map with room, strict rule: the map gains / updates the binding -/
theorem setMove_rep0 (cfg : Cfg) (hge : cfg.ge = false) (hash : κ → Nat) (t : Tab κ ν) (m : Spec κ ν)
    (r : Rep0 hash t m) (hroom : t.nitems < t.n) (k : κ) (v : ν) :
    ∃ t', setMove cfg hash t k v = .ok t' ∧ t'.n = t.n ∧ Rep0 hash t' (Spec.set m k v) := by
  by_cases hk : HasKey t.slots k
  · obtain ⟨t', h1, h2, h3, h4, h5⟩ := setMove_update cfg hge hash t r.toWF k v hk
    obtain ⟨v0, hv0⟩ := (hasKey_iff_spec r k).mp hk
    refine ⟨t', h1, h2, h3, nodup_spec_set m r.nodup k v, ?_, ?_⟩
    · have := length_spec_rem_present m r.nodup k v0 hv0
      simp only [Spec.set, List.length_cons]; rw [h4, ← r.len]; omega
    · intro k' v'; rw [h5, mem_spec_set, r.has]
  · obtain ⟨t', h1, h2, h3, h4, h5⟩ := setMove_fresh cfg hash t r.toWF hroom k v hk
    have habs : ∀ v, (k, v) ∉ m := fun v hv => hk ((hasKey_iff_spec r k).mpr ⟨v, hv⟩)
    refine ⟨t', h1, h2, h3, nodup_spec_set m r.nodup k v, ?_, ?_⟩
    · simp only [Spec.set, List.length_cons]; rw [spec_rem_absent m k habs, h4, r.len]
    · intro k' v'; rw [h5, mem_spec_set, r.has]
      constructor
      · rintro (h | h)
        · refine Or.inr ⟨?_, h⟩
          intro hkk; subst hkk; exact habs v' h
        · exact Or.inl h
      · rintro (h | ⟨_, h⟩)
        · exact Or.inr h
        · exact Or.inl h

/-! ### re-insertion folds: `Table_Rehash`, `Table_Assign` -/

/-- number of occupied entries in a list of slots -/
def occ (l : List (Option (Entry κ ν))) : Nat := l.countP Option.isSome

/-- the entries of the list have pairwise different keys -/
def DistinctKeys (l : List (Option (Entry κ ν))) : Prop :=
  l.Pairwise (fun a b => ∀ x y, a = some x → b = some y → x.key ≠ y.key)

theorem reinsert_fold (cfg : Cfg) (hash : κ → Nat) :
    ∀ (l : List (Option (Entry κ ν))) (t : Tab κ ν), WF hash t → t.nitems + occ l < t.n → DistinctKeys l →
      (∀ x, some x ∈ l → ¬ HasKey t.slots x.key) →
      ∃ t', l.foldlM (reinsert cfg hash) t = .ok t' ∧ t'.n = t.n ∧ WF hash t' ∧ t'.nitems = t.nitems + occ l ∧
        ∀ k v, Has t'.slots k v ↔ Has t.slots k v ∨ ∃ x, some x ∈ l ∧ x.key = k ∧ x.val = v := by
  intro l
  induction l with
  | nil =>
    intro t w _ _ _
    exact ⟨t, rfl, rfl, w, by simp [occ], by simp⟩
  | cons a l ih =>
    intro t w hroom hd hfresh
    rw [DistinctKeys, List.pairwise_cons] at hd
    cases a with
    | none =>
      have hocc : occ (none :: l) = occ l := by simp [occ]
      obtain ⟨t', h1, h2, h3, h4, h5⟩ := ih t w (by rw [hocc] at hroom; exact hroom) hd.2
        (fun x hx => hfresh x (List.mem_cons_of_mem _ hx))
      refine ⟨t', ?_, h2, h3, by rw [h4, hocc], ?_⟩
      · rw [List.foldlM_cons]; exact h1
      · intro k v; rw [h5]
        constructor
        · rintro (h | ⟨x, hx, h⟩)
          · exact Or.inl h
          · exact Or.inr ⟨x, List.mem_cons_of_mem _ hx, h⟩
        · rintro (h | ⟨x, hx, h⟩)
          · exact Or.inl h
          · rcases List.mem_cons.mp hx with hx | hx
            · cases hx
            · exact Or.inr ⟨x, hx, h⟩
    | some e =>
      have hocc : occ (some e :: l) = occ l + 1 := by simp [occ]
      rw [hocc] at hroom
      obtain ⟨t1, g1, g2, g3, g4, g5⟩ := setMove_fresh cfg hash t w (by omega) e.key e.val
        (hfresh e (List.mem_cons_self))
      have hfresh1 : ∀ x, some x ∈ l → ¬ HasKey t1.slots x.key := by
        intro x hx ⟨y, hy, hyk⟩
        rcases (g5 x.key y.val).mp ⟨y, hy, hyk, rfl⟩ with h | ⟨h, _⟩
        · obtain ⟨y', hy', hyk', _⟩ := h
          exact hfresh x (List.mem_cons_of_mem _ hx) ⟨y', hy', hyk'⟩
        · exact hd.1 (some x) hx e x rfl rfl h.symm
      obtain ⟨t', h1, h2, h3, h4, h5⟩ := ih t1 g3 (by rw [g2, g4]; omega) hd.2 hfresh1
      refine ⟨t', ?_, by rw [h2, g2], h3, by rw [h4, g4, hocc]; omega, ?_⟩
      · rw [List.foldlM_cons]; simp only [reinsert, g1]; exact h1
      · intro k v; rw [h5, g5]
        constructor
        · rintro ((h | ⟨hk, hv⟩) | ⟨x, hx, h⟩)
          · exact Or.inl h
          · exact Or.inr ⟨e, List.mem_cons_self, hk.symm, hv.symm⟩
          · exact Or.inr ⟨x, List.mem_cons_of_mem _ hx, h⟩
        · rintro (h | ⟨x, hx, hk, hv⟩)
          · exact Or.inl (Or.inl h)
          · rcases List.mem_cons.mp hx with hx | hx
            · cases hx; exact Or.inl (Or.inr ⟨hk.symm, hv.symm⟩)
            · exact Or.inr ⟨x, hx, hk, hv⟩

theorem distinctKeys_toList {n : Nat} (hash : κ → Nat) (s : Slots κ ν n) (inv : Inv0 hash s) :
    DistinctKeys s.toList := by
  unfold DistinctKeys
  rw [List.pairwise_iff_getElem]
  intro i j hi hj hij x y hx hy hk
  have hi' : i < n := by simpa using hi
  have hj' : j < n := by simpa using hj
  rw [Vector.getElem_toList] at hx hy
  have := inv.distinct i j hi' hj' x y hx hy hk
  omega

theorem occ_toList {n : Nat} (s : Slots κ ν n) : occ s.toList = count s := by
  unfold occ count
  rw [← Vector.countP_toList]

theorem some_mem_toList {n : Nat} (s : Slots κ ν n) (x : Entry κ ν) : some x ∈ s.toList ↔ Mem s x := by
  rw [Vector.mem_toList_iff, Vector.mem_iff_getElem]
  rfl

/-- what a fold of re-insertions of all slots of `src` into an empty array of `newSize > nitems` slots produces -/
theorem refill_rep (cfg : Cfg) (hash : κ → Nat) (src : Tab κ ν) (m : Spec κ ν) (r : Rep0 hash src m)
    (newSize : Nat) (hbig : src.nitems < newSize) :
    ∃ t', src.slots.toList.foldlM (reinsert cfg hash) (Tab.empty newSize) = .ok t' ∧ t'.n = newSize ∧ Rep hash t' m := by
  have hocc : occ src.slots.toList = src.nitems := by rw [occ_toList, r.cnt]
  obtain ⟨t', h1, h2, h3, h4, h5⟩ := reinsert_fold cfg hash src.slots.toList (Tab.empty newSize) (wf_empty hash newSize)
    (by rw [hocc]; simpa [Tab.empty] using hbig) (distinctKeys_toList hash src.slots r.inv0)
    (fun x _ ⟨y, hy, _⟩ => not_mem_replicate_none y hy)
  have hn : t'.n = newSize := by rw [h2]; rfl
  have hni : t'.nitems = src.nitems := by rw [h4, hocc]; simp [Tab.empty]
  refine ⟨t', h1, hn, ⟨⟨h3, r.nodup, by rw [hni, r.len], ?_⟩, Or.inl (by rw [hni, hn]; exact hbig)⟩⟩
  intro k v
  rw [h5, ← r.has]
  constructor
  · rintro (h | ⟨x, hx, hk, hv⟩)
    · exact absurd h (not_has_empty newSize k v)
    · exact ⟨x, (some_mem_toList _ x).mp hx, hk, hv⟩
  · rintro ⟨x, hx, hk, hv⟩
    exact Or.inr ⟨x, (some_mem_toList _ x).mpr hx, hk, hv⟩

/-- **`Table_Rehash` as a fold**: the abstraction is preserved and the invariant is established in the fresh array -/
theorem rehash_rep (cfg : Cfg) (hash : κ → Nat) (t : Tab κ ν) (m : Spec κ ν) (r : Rep0 hash t m)
    (newSize : Nat) (hbig : t.nitems < newSize) :
    ∃ t', rehash cfg hash t newSize = .ok t' ∧ t'.n = newSize ∧ Rep hash t' m :=
  refill_rep cfg hash t m r newSize hbig

end Cello.Table
