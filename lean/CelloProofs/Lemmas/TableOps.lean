/-
  CelloProofs/Lemmas/TableOps.lean — every single-table operation of the model refines the association-list operation,
  keeping the representation invariant `Rep` (strict tie rule, `Table_Set` grows an empty table, `n < ideal n`).
-/
import CelloProofs.Lemmas.TableRep
import CelloProofs.Lemmas.TableIter
set_option linter.unusedSectionVars false
set_option linter.unusedVariables false
namespace Cello.Table
open RH
variable {κ ν : Type} [DecidableEq κ]

/-- the parameters under which the refinement holds: strict displacement test, `Table_Set` grows an `nslots = 0` table,
    and `Table_Ideal_Size n > n` -/
structure GoodCfg (cfg : Cfg) : Prop where
  strict : cfg.ge = false
  grows : cfg.growEmpty = true
  ideal_gt : ∀ n, n < cfg.ideal n
  /-- `Table_Assign` returns at once when `self is obj` (fix a3140e4) -/
  guards : cfg.selfGuard = true

theorem Rep.nitems_zero_of_n_zero {hash : κ → Nat} {t : Tab κ ν} {m : Spec κ ν} (r : Rep hash t m) (h : t.n = 0) :
    t.nitems = 0 := by
  have := count_le t.slots
  rw [r.cnt] at this; omega

theorem resizeMore_rep (cfg : Cfg) (g : GoodCfg cfg) (hash : κ → Nat) (t : Tab κ ν) (m : Spec κ ν) (r : Rep0 hash t m) :
    ∃ t', resizeMore cfg hash t = .ok t' ∧ Rep hash t' m := by
  unfold resizeMore
  split
  · obtain ⟨t', h1, _, h3⟩ := rehash_rep cfg hash t m r (cfg.ideal t.nitems) (g.ideal_gt _)
    exact ⟨t', h1, h3⟩
  · rename_i h
    exact ⟨t, rfl, r, Or.inl (by have := g.ideal_gt t.nitems; omega)⟩

theorem resizeLess_rep (cfg : Cfg) (g : GoodCfg cfg) (hash : κ → Nat) (t : Tab κ ν) (m : Spec κ ν) (r : Rep hash t m) :
    ∃ t', resizeLess cfg hash t = .ok t' ∧ Rep hash t' m := by
  unfold resizeLess
  split
  · obtain ⟨t', h1, _, h3⟩ := rehash_rep cfg hash t m r.toRep0 (cfg.ideal t.nitems) (g.ideal_gt _)
    exact ⟨t', h1, h3⟩
  · exact ⟨t, rfl, r⟩

/-- `Table_Set` -/
theorem set_rep (cfg : Cfg) (g : GoodCfg cfg) (hash : κ → Nat) (t : Tab κ ν) (m : Spec κ ν) (r : Rep hash t m)
    (k : κ) (v : ν) : ∃ t', set cfg hash t k v = .ok t' ∧ Rep hash t' (Spec.set m k v) := by
  unfold set
  simp only [bind, Except.bind]
  by_cases hn : t.n = 0
  · rw [if_pos ⟨hn, g.grows⟩]
    have h0 := r.nitems_zero_of_n_zero hn
    obtain ⟨t1, e1, n1, r1⟩ := rehash_rep cfg hash t m r.toRep0 (cfg.ideal 0) (by rw [h0]; exact g.ideal_gt 0)
    have room1 : t1.nitems < t1.n := by
      rcases r1.room with h | h
      · exact h
      · have := g.ideal_gt 0; omega
    obtain ⟨t2, e2, n2, r2⟩ := setMove_rep0 cfg g.strict hash t1 m r1.toRep0 room1 k v
    obtain ⟨t3, e3, r3⟩ := resizeMore_rep cfg g hash t2 _ r2
    exact ⟨t3, by simp only [e1, e2, e3], r3⟩
  · rw [if_neg (fun h => hn h.1)]
    have room : t.nitems < t.n := by
      rcases r.room with h | h
      · exact h
      · exact absurd h hn
    obtain ⟨t2, e2, n2, r2⟩ := setMove_rep0 cfg g.strict hash t m r.toRep0 room k v
    obtain ⟨t3, e3, r3⟩ := resizeMore_rep cfg g hash t2 _ r2
    exact ⟨t3, by simp only [e2, e3], r3⟩

/-- the probing loop finds a bound key at the slot that stores it, and reports an unbound key absent -/
theorem find_rep (hash : κ → Nat) (t : Tab κ ν) (m : Spec κ ν) (r : Rep hash t m) (k : κ) :
    (Spec.get m k = none ∧ find hash t k = .ok none) ∨
    (∃ v p, ∃ hp : p < t.n, ∃ e, Spec.get m k = some v ∧ find hash t k = .ok (some ⟨p, hp⟩) ∧
        t.slots[p] = some e ∧ e.key = k ∧ e.val = v) := by
  by_cases hk : HasKey t.slots k
  · right
    obtain ⟨e, ⟨p, hp, hpe⟩, hek⟩ := hk
    have hn : t.n ≠ 0 := by omega
    refine ⟨e.val, p, hp, e, ?_, ?_, hpe, hek, rfl⟩
    · rw [spec_get_some m r.nodup]; exact (r.has k e.val).mp ⟨e, ⟨p, hp, hpe⟩, hek, rfl⟩
    · simp only [find, dif_neg hn, find_present hash t.slots r.inv0 (Nat.pos_of_ne_zero hn) k p hp e hpe hek]
  · left
    constructor
    · rw [spec_get_none]; intro v hv
      exact hk ((hasKey_iff_spec r.toRep0 k).mpr ⟨v, hv⟩)
    · by_cases hn : t.n = 0
      · simp only [find, dif_pos hn]
      · have room : t.nitems < t.n := by
          rcases r.room with h | h
          · exact h
          · exact absurd h hn
        obtain ⟨z, hz, hze⟩ := r.toWF.exists_empty room
        simp only [find, dif_neg hn, find_absent hash t.slots (Nat.pos_of_ne_zero hn) k hk z hz hze]

/-- `Table_Get` -/
theorem get_rep (hash : κ → Nat) (t : Tab κ ν) (m : Spec κ ν) (r : Rep hash t m) (k : κ) :
    get hash t k = .ok (match Spec.get m k with | none => .raised .KeyError | some v => .val v) := by
  rcases find_rep hash t m r k with ⟨h1, h2⟩ | ⟨v, p, hp, e, h1, h2, h3, h4, h5⟩
  · simp only [get, h2, h1]
  · simp only [get, h2, h1, Fin.getElem_fin, h3, h5]

/-- `Table_Get` given a pointer into the record that stores `k` (the key object: `foreach (p in t) get(t, p)`): the address
    test of Table.c:523-525 — as it is, and as repaired — answers the value stored in that record, i.e. what the map binds to `k` -/
theorem getViaKey_rep (cfg : Cfg) (hash : κ → Nat) (asKey : ν → Option κ) (t : Tab κ ν) (m : Spec κ ν) (r : Rep hash t m) (k : κ) :
    getViaKey cfg hash asKey t k = .ok (match Spec.get m k with | none => .raised .KeyError | some v => .val v) := by
  rcases find_rep hash t m r k with ⟨h1, h2⟩ | ⟨v, p, hp, e, h1, h2, h3, h4, h5⟩
  · simp only [getViaKey, h2, h1]
  · simp only [getViaKey, h2, h1, getArg, dif_pos hp]
    cases cfg.getChecksKey
    · simp only [Bool.false_eq_true, if_false, getInSlot, Fin.getElem_fin, h3, h5]
    · simp only [if_true, getInSlotChecked, Fin.getElem_fin, h3, h5]

/-- … and given the *value* object of that record (`get(t, get(t, k))`) the test as it is answers that same value again -/
theorem getViaVal_rep (cfg : Cfg) (hc : cfg.getChecksKey = false) (hash : κ → Nat) (asKey : ν → Option κ) (t : Tab κ ν)
    (m : Spec κ ν) (r : Rep hash t m) (k : κ) :
    getViaVal cfg hash asKey t k = .ok (match Spec.get m k with | none => .raised .KeyError | some v => .val v) := by
  rcases find_rep hash t m r k with ⟨h1, h2⟩ | ⟨v, p, hp, e, h1, h2, h3, h4, h5⟩
  · simp only [getViaVal, h2, h1]
  · simp only [getViaVal, h2, h1, getArg, dif_pos hp, hc, Bool.false_eq_true, if_false, getInSlot, Fin.getElem_fin, h3, h5]

/-- … while the repaired test lets it fall through to the cast and the probing loop: the answer is what the map binds to
    the value read as a key -/
theorem getViaVal_rep_checked (cfg : Cfg) (hc : cfg.getChecksKey = true) (hash : κ → Nat) (asKey : ν → Option κ) (t : Tab κ ν)
    (m : Spec κ ν) (r : Rep hash t m) (k : κ) :
    getViaVal cfg hash asKey t k = .ok (Spec.getOfVal asKey m k) := by
  rcases find_rep hash t m r k with ⟨h1, h2⟩ | ⟨v, p, hp, e, h1, h2, h3, h4, h5⟩
  · simp only [getViaVal, h2, Spec.getOfVal, h1]
  · simp only [getViaVal, h2, Spec.getOfVal, h1, getArg, dif_pos hp, hc, if_true, getInSlotChecked, Fin.getElem_fin, h3, h5]
    cases hk : asKey v with
    | none => rfl
    | some k' => simp only [get_rep hash t m r k']; cases m.get k' <;> rfl

/-- **`Table_Get`, the whole function, for ANY key argument** (source since fix bc940bb: `getChecksKey`): an object outside the
    table, the stored key object of a record, the value object of a record, an address inside an empty record.  The answer is
    what the map binds to the key value the argument stands for (`KeyArg.denote`), or the exception its cast raises. -/
theorem getArg_rep_checked (cfg : Cfg) (hc : cfg.getChecksKey = true) (hash : κ → Nat) (asKey : ν → Option κ) (t : Tab κ ν)
    (m : Spec κ ν) (r : Rep hash t m) (a : KeyArg κ) :
    getArg cfg hash asKey t a = .ok (match a.denote asKey t with
      | none => .badOp
      | some (.error e) => .raised e
      | some (.ok k) => match Spec.get m k with | none => .raised .KeyError | some v => .val v) := by
  cases a with
  | obj k => simp only [getArg, KeyArg.denote]; exact get_rep hash t m r k
  | inSlot i part =>
    by_cases h : i < t.n
    · simp only [getArg, KeyArg.denote, dif_pos h, hc, if_true, getInSlotChecked, Fin.getElem_fin]
      cases hs : t.slots[i] with
      | none => cases part <;> rfl
      | some e =>
        cases part with
        | key =>
          have hg : Spec.get m e.key = some e.val := by
            rw [spec_get_some m r.nodup]; exact (r.has e.key e.val).mp ⟨e, ⟨i, h, hs⟩, rfl, rfl⟩
          simp only [hg]
        | val =>
          simp only []
          cases hk : asKey e.val with
          | none => rfl
          | some k' => simp only [get_rep hash t m r k']
    · simp only [getArg, KeyArg.denote, dif_neg h]

/-- `Table_Mem` -/
theorem mem_rep (hash : κ → Nat) (t : Tab κ ν) (m : Spec κ ν) (r : Rep hash t m) (k : κ) :
    mem hash t k = .ok (.bool (Spec.get m k).isSome) := by
  rcases find_rep hash t m r k with ⟨h1, h2⟩ | ⟨v, p, hp, e, h1, h2, h3, h4, h5⟩
  · simp only [mem, h2, h1]; rfl
  · simp only [mem, h2, h1]; rfl

/-- `Table_Len` -/
theorem len_rep (hash : κ → Nat) (t : Tab κ ν) (m : Spec κ ν) (r : Rep hash t m) : t.nitems = m.length := r.len.symm

/-- `Table_Resize` -/
theorem resize_rep (cfg : Cfg) (g : GoodCfg cfg) (hash : κ → Nat) (t : Tab κ ν) (m : Spec κ ν) (r : Rep hash t m)
    (sz : Nat) :
    ∃ t', resize cfg hash t sz = .ok (t', if sz = 0 then .done else if sz < m.length then .raised .FormatError else .done) ∧
      Rep hash t' (if sz = 0 then [] else m) := by
  unfold resize
  by_cases h0 : sz = 0
  · simp only [h0, if_true]
    exact ⟨_, rfl, rep_empty_zero hash⟩
  · simp only [h0, if_false, r.len]
    by_cases hlt : sz < t.nitems
    · simp only [hlt, if_true]; exact ⟨t, rfl, r⟩
    · simp only [hlt, if_false]
      obtain ⟨t', h1, _, h3⟩ := rehash_rep cfg hash t m r.toRep0 (cfg.ideal sz) (by have := g.ideal_gt sz; omega)
      exact ⟨t', by simp only [h1], h3⟩

/-- `Table_Assign` from another table / `copy` -/
theorem assignFrom_rep (cfg : Cfg) (g : GoodCfg cfg) (hash : κ → Nat) (src : Tab κ ν) (m : Spec κ ν)
    (r : Rep hash src m) : ∃ t', assignFrom cfg hash src = .ok t' ∧ Rep hash t' m := by
  unfold assignFrom
  have hid := g.ideal_gt src.nitems
  rw [if_neg (by omega)]
  unfold sourceEntries
  split
  · rename_i h0
    have hm : m = [] := List.eq_nil_of_length_eq_zero (by rw [r.len]; exact h0)
    subst hm
    exact ⟨_, rfl, rep_empty hash _ (by omega)⟩
  · obtain ⟨t', h1, _, h3⟩ := refill_rep cfg hash src m r.toRep0 (cfg.ideal src.nitems) hid
    exact ⟨t', h1, h3⟩

theorem length_spec_set_le (m : Spec κ ν) (k : κ) (v : ν) : (Spec.set m k v).length ≤ m.length + 1 := by
  simp only [Spec.set, Spec.rem, List.length_cons]
  exact Nat.succ_le_succ (List.length_filter_le _ _)

/-- the insertion loop of `Table_New` / `Table_Assign` (no growth in between): as long as the array has room for all pairs,
    every `Table_Set_Move` succeeds and the table represents the pairs folded into the map, a later pair replacing an earlier
    one for the same key -/
theorem insertAll_rep0 (cfg : Cfg) (hge : cfg.ge = false) (hash : κ → Nat) :
    ∀ (kvs : List (κ × ν)) (t : Tab κ ν) (m : Spec κ ν), Rep0 hash t m → t.nitems + kvs.length < t.n →
      ∃ t', insertAll cfg hash t kvs = .ok t' ∧ t'.n = t.n ∧ t'.nitems ≤ t.nitems + kvs.length ∧
        Rep0 hash t' (kvs.foldl (fun m p => Spec.set m p.1 p.2) m) := by
  intro kvs
  induction kvs with
  | nil => intro t m r _; exact ⟨t, rfl, rfl, by simp, r⟩
  | cons p kvs ih =>
    intro t m r hroom
    simp only [List.length_cons] at hroom
    obtain ⟨t1, e1, n1, r1⟩ := setMove_rep0 cfg hge hash t m r (by omega) p.1 p.2
    have hl : t1.nitems ≤ t.nitems + 1 := by
      have := length_spec_set_le m p.1 p.2
      rw [r1.len, r.len] at this; exact this
    obtain ⟨t', e2, n2, l2, r2⟩ := ih t1 (Spec.set m p.1 p.2) r1 (by rw [n1]; omega)
    refine ⟨t', ?_, by rw [n2, n1], by simp only [List.length_cons]; omega, r2⟩
    unfold insertAll at e2 ⊢
    rw [List.foldlM_cons]; simp only [e1]; exact e2

/-- `Table_New` with initial pairs / `Table_Assign` from a map that is not a Table -/
theorem fill_rep (cfg : Cfg) (g : GoodCfg cfg) (hash : κ → Nat) (kvs : List (κ × ν)) :
    ∃ t', fill cfg hash kvs = .ok t' ∧ Rep hash t' (Spec.ofPairs kvs) := by
  unfold fill
  have hid := g.ideal_gt kvs.length
  rw [if_neg (by omega)]
  obtain ⟨t', e, n, l, r⟩ := insertAll_rep0 cfg g.strict hash kvs (Tab.empty (cfg.ideal kvs.length)) []
    (rep_empty hash _ (by omega)).toRep0 (by simp only [Tab.empty]; omega)
  refine ⟨t', e, r, Or.inl ?_⟩
  rw [n]; simp only [Tab.empty] at l ⊢; omega

/-- `new(Table, K, V)` -/
theorem new_rep (cfg : Cfg) (g : GoodCfg cfg) (hash : κ → Nat) : Rep hash (new cfg : Tab κ ν) [] :=
  rep_empty hash _ (by have := g.ideal_gt 0; omega)

end Cello.Table
