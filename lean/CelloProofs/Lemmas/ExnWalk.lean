/-
  Lemmas about the filter walk of `exception_catch` (Cello/Exn.lean).
  Current code (`walkIdx`, `catchDecision`: walk by index, fix a0ef2da): the walk is membership for every filter,
  repeated objects or not, and it always terminates.
  OLD variant (`tupleNext`, `walkFrom`, `catchDecisionOld`: foreach over the Tuple): on a duplicate-free filter the
  walk is membership; on a filter with a repeated object and a non-matching exception it never terminates, whatever
  the fuel.
-/
import Cello.Exn

namespace Cello.Exn

/-! ### current code: the walk by index -/

theorem walkIdx_membership (obj : Nat) (hobj : obj ≠ 0) (f : List Nat) (h0 : 0 ∉ f) :
    walkIdx obj f = if f.contains obj then .matched else .exhausted := by
  induction f with
  | nil => simp [walkIdx]
  | cons a rest ih =>
    have ha0 : a ≠ 0 := fun e => h0 (by simp [e])
    have hr0 : 0 ∉ rest := fun e => h0 (by simp [e])
    simp only [walkIdx, hobj, ha0, if_false]
    by_cases ha : a = obj
    · simp [ha]
    · have hne : ¬ obj = a := fun e => ha e.symm
      simp [ha, hne, ih hr0]

/-- **`exception_catch` decides by membership, for every filter** of non-NULL entries (empty = catch all) — also one
    that names an object twice. -/
theorem catchDecision_membership (f : List Nat) (obj : Nat) (hobj : obj ≠ 0) (h0 : 0 ∉ f) :
    catchDecision f obj = if fmatch f obj then .matched else .exhausted := by
  unfold catchDecision fmatch
  by_cases he : f.isEmpty
  · simp [he]
  · simp [he, walkIdx_membership obj hobj f h0]

theorem walkIdx_ne_hang (obj : Nat) (f : List Nat) : walkIdx obj f ≠ .hang := by
  induction f with
  | nil => simp [walkIdx]
  | cons a rest ih =>
    simp only [walkIdx]
    split
    · simp
    · split
      · simp
      · split
        · simp
        · exact ih

/-- the walk by index always ends (any filter, any object, NULL included) -/
theorem catchDecision_ne_hang (f : List Nat) (obj : Nat) : catchDecision f obj ≠ .hang := by
  unfold catchDecision
  split
  · simp
  · exact walkIdx_ne_hang obj f

/-! ### OLD variant: the foreach walk -/

theorem tupleNext_skip (pre : List Nat) (a : Nat) (rest : List Nat) (h : a ∉ pre) :
    tupleNext (pre ++ a :: rest) a = rest.head? := by
  induction pre with
  | nil => simp [tupleNext]
  | cons x xs ih =>
    have hx : x ≠ a := fun e => h (by simp [e])
    have hxs : a ∉ xs := fun e => h (by simp [e])
    simp [tupleNext, hx, ih hxs]

/-- the walk from position `rest` of a duplicate-free tuple `pre ++ rest`, nothing matched so far -/
theorem walkFrom_nodup_aux (obj : Nat) (hobj : obj ≠ 0) :
    ∀ (rest pre : List Nat) (n : Nat), (pre ++ rest).Nodup → rest.length + 1 ≤ n →
      walkFrom (pre ++ rest) obj n rest.head? = if rest.contains obj then .matched else .exhausted := by
  intro rest
  induction rest with
  | nil =>
    intro pre n _ hn
    match n, hn with
    | n+1, _ => simp [walkFrom]
  | cons a rest ih =>
    intro pre n hnd hn
    match n, hn with
    | n+1, hn =>
      simp only [List.head?_cons, walkFrom, hobj, if_false]
      by_cases ha : a = obj
      · simp [ha]
      · have hnotin : a ∉ pre := by
          intro hmem
          have := (List.nodup_append.mp hnd).2.2 a hmem a (by simp)
          exact this rfl
        rw [tupleNext_skip pre a rest hnotin]
        have hnd' : ((pre ++ [a]) ++ rest).Nodup := by simpa using hnd
        have := ih (pre ++ [a]) n hnd' (by simp at hn; omega)
        simp only [List.append_assoc, List.singleton_append] at this
        rw [this]
        have hne : ¬ obj = a := fun e => ha e.symm
        simp [hne, ha]

/-- **On a duplicate-free filter the OLD `exception_catch` decided by membership** (empty = catch all). -/
theorem catchDecisionOld_nodup (f : List Nat) (obj : Nat) (hobj : obj ≠ 0) (hnd : f.Nodup) :
    catchDecisionOld f obj = if fmatch f obj then .matched else .exhausted := by
  unfold catchDecisionOld fmatch
  by_cases he : f.isEmpty
  · simp [he]
  · have := walkFrom_nodup_aux obj hobj f [] (f.length + 1) (by simpa using hnd) (Nat.le_refl _)
    simp only [List.nil_append] at this
    simp [he, this]

/-- inside a duplicate-free prefix `P` of the tuple, followed by an object `b` of `P`, every step of `Tuple_Iter_Next`
    stays inside `P` -/
theorem tupleNext_cycle (P : List Nat) (b : Nat) (rest : List Nat) (hP : P.Nodup) (hb : b ∈ P) :
    ∀ c ∈ P, ∃ c' ∈ P, tupleNext (P ++ b :: rest) c = some c' := by
  intro c hc
  obtain ⟨p1, p2, rfl⟩ := List.append_of_mem hc
  have hnotin : c ∉ p1 := by
    intro hmem
    have := (List.nodup_append.mp hP).2.2 c hmem c (by simp)
    exact this rfl
  have : tupleNext (p1 ++ c :: p2 ++ b :: rest) c = (p2 ++ b :: rest).head? := by
    have := tupleNext_skip p1 c (p2 ++ b :: rest) hnotin
    simpa using this
  rw [this]
  cases p2 with
  | nil => exact ⟨b, hb, by simp⟩
  | cons y ys => exact ⟨y, by simp, by simp⟩

theorem walkFrom_cycle (f P : List Nat) (obj : Nat) (hobj : obj ≠ 0) (hnot : obj ∉ P)
    (hstep : ∀ c ∈ P, ∃ c' ∈ P, tupleNext f c = some c') :
    ∀ (n : Nat) (c : Nat), c ∈ P → walkFrom f obj n (some c) = .hang := by
  intro n
  induction n with
  | zero => intro c _; simp [walkFrom]
  | succ n ih =>
    intro c hc
    obtain ⟨c', hc', hn⟩ := hstep c hc
    have hne : c ≠ obj := fun e => hnot (e ▸ hc)
    simp [walkFrom, hobj, hne, hn, ih c' hc']

theorem walkFrom_dup_aux (obj : Nat) (hobj : obj ≠ 0) :
    ∀ (rest pre : List Nat) (a : Nat), (pre ++ [a]).Nodup → ¬ (pre ++ a :: rest).Nodup → obj ∉ pre ++ a :: rest →
      ∀ n, walkFrom (pre ++ a :: rest) obj n (some a) = .hang := by
  intro rest
  induction rest with
  | nil => intro pre a h1 h2; exact absurd h1 h2
  | cons b rest ih =>
    intro pre a hP hdup hnot n
    have hane : a ≠ obj := fun e => hnot (by simp [e])
    have hnotin : a ∉ pre := by
      intro hmem
      have := (List.nodup_append.mp hP).2.2 a hmem a (by simp)
      exact this rfl
    match n with
    | 0 => simp [walkFrom]
    | n+1 =>
      simp only [walkFrom, hobj, hane, if_false]
      rw [tupleNext_skip pre a (b :: rest) hnotin]
      simp only [List.head?_cons]
      by_cases hb : b ∈ pre ++ [a]
      · -- the walk is back inside the prefix: a cycle
        have hstep := tupleNext_cycle (pre ++ [a]) b rest hP hb
        have hf : pre ++ [a] ++ b :: rest = pre ++ a :: b :: rest := by simp
        rw [hf] at hstep
        have hnotP : obj ∉ pre ++ [a] := by
          intro h; apply hnot
          rcases List.mem_append.mp h with h | h
          · exact List.mem_append_left _ h
          · simp at h; simp [h]
        exact walkFrom_cycle _ (pre ++ [a]) obj hobj hnotP hstep n b hb
      · have hP' : ((pre ++ [a]) ++ [b]).Nodup := by
          rw [List.nodup_append]
          refine ⟨hP, by simp, ?_⟩
          intro u hu v hv
          simp at hv; subst hv
          intro e; exact hb (e ▸ hu)
        have := ih (pre ++ [a]) b hP' (by simpa using hdup) (by simpa using hnot) n
        simpa using this

/-- **A filter that lists an object twice**: for an exception that is in the filter nowhere, the foreach walk of the
    OLD `exception_catch` never ends — for every amount of fuel (this was finding KF-C07-filter-dup, consequence of F13;
    repaired by a0ef2da). -/
theorem walkFrom_dup_hangs (f : List Nat) (obj : Nat) (hobj : obj ≠ 0) (hdup : ¬ f.Nodup) (hnot : obj ∉ f) :
    ∀ n, walkFrom f obj n f.head? = .hang := by
  cases f with
  | nil => exact absurd List.nodup_nil hdup
  | cons a rest =>
    intro n
    have := walkFrom_dup_aux obj hobj rest [] a (by simp) (by simpa using hdup) (by simpa using hnot) n
    simpa using this

theorem catchDecisionOld_dup_hangs (f : List Nat) (obj : Nat) (hobj : obj ≠ 0) (hdup : ¬ f.Nodup) (hnot : obj ∉ f) :
    catchDecisionOld f obj = .hang := by
  unfold catchDecisionOld
  have hne : f.isEmpty = false := by
    cases f with
    | nil => exact absurd List.nodup_nil hdup
    | cons _ _ => rfl
  simp [hne, walkFrom_dup_hangs f obj hobj hdup hnot]

end Cello.Exn
