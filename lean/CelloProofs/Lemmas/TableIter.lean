/-
  CelloProofs/Lemmas/TableIter.lean — `foreach` over a table (Table_Iter_Init / Table_Iter_Next) yields the occupied
  slots in slot order: each stored key exactly once, with its value.
-/
import CelloProofs.Lemmas.TableRep
import Mathlib.Data.List.Perm.Basic
set_option linter.unusedSectionVars false
set_option linter.unusedVariables false
namespace Cello.Table
open RH
variable {κ ν : Type} [DecidableEq κ]

def kv (e : Entry κ ν) : κ × ν := (e.key, e.val)

/-- the bindings in slot order -/
def entriesList {n : Nat} (s : Slots κ ν n) : List (κ × ν) := s.toList.filterMap (Option.map kv)

/-- bindings of the slots with index `≥ i` -/
def entriesFrom {n : Nat} (s : Slots κ ν n) (i : Nat) : List (κ × ν) := (s.toList.drop i).filterMap (Option.map kv)

theorem entriesFrom_zero {n : Nat} (s : Slots κ ν n) : entriesFrom s 0 = entriesList s := by
  simp [entriesFrom, entriesList]

theorem entriesFrom_ge {n : Nat} (s : Slots κ ν n) (i : Nat) (h : n ≤ i) : entriesFrom s i = [] := by
  unfold entriesFrom
  rw [List.drop_eq_nil_of_le (by simpa using h)]; rfl

theorem entriesFrom_lt {n : Nat} (s : Slots κ ν n) (i : Nat) (h : i < n) :
    entriesFrom s i = (match s[i] with | some e => [kv e] | none => []) ++ entriesFrom s (i+1) := by
  unfold entriesFrom
  rw [List.drop_eq_getElem_cons (by simpa using h), Vector.getElem_toList]
  cases s[i] <;> simp

theorem scanUp_ge {n : Nat} (s : Slots κ ν n) (fuel i : Nat) (h : n ≤ i) : scanUp s fuel i = none := by
  cases fuel with
  | zero => rfl
  | succ f => simp only [scanUp]; rw [dif_neg (by omega)]

theorem walk_none (t : Tab κ ν) (nxt : Fin t.n → Option (Fin t.n)) (fuel : Nat) : walk t nxt fuel none = [] := by
  cases fuel <;> rfl

/-- walking from the first occupied slot `≥ i` collects exactly the bindings of the slots `≥ i` -/
theorem walk_scanUp (t : Tab κ ν) :
    ∀ (d i f fuel : Nat), t.n - i = d → d ≤ f → d + 1 ≤ fuel →
      walk t (iterNext t) fuel (scanUp t.slots f i) = entriesFrom t.slots i := by
  intro d
  induction d with
  | zero =>
    intro i f fuel hd _ _
    rw [scanUp_ge t.slots f i (by omega), walk_none, entriesFrom_ge t.slots i (by omega)]
  | succ d ih =>
    intro i f fuel hd hf hfuel
    have hi : i < t.n := by omega
    match f, hf with
    | f+1, hf =>
      rw [entriesFrom_lt t.slots i hi]
      simp only [scanUp, dif_pos hi]
      cases hsi : t.slots[i] with
      | none =>
        simp only [List.nil_append]
        exact ih (i+1) f fuel (by omega) (by omega) (by omega)
      | some e =>
        match fuel, hfuel with
        | fuel+1, hfuel =>
          simp only [walk, Fin.getElem_fin, hsi]
          have := ih (i+1) t.n fuel (by omega) (by omega) (by omega)
          simp only [iterNext] at this ⊢
          rw [this]; rfl

theorem entriesList_nil_of_count_zero {n : Nat} (s : Slots κ ν n) (h : count s = 0) : entriesList s = [] := by
  unfold entriesList
  rw [List.filterMap_eq_nil_iff]
  intro a ha
  unfold count at h
  rw [Vector.countP_eq_zero] at h
  have := h a (Vector.mem_toList_iff.mp ha)
  cases a with
  | none => rfl
  | some _ => simp at this

/-- **`foreach` is the slot-order list of bindings** -/
theorem foreach_eq (hash : κ → Nat) (t : Tab κ ν) (w : WF hash t) : foreach t = entriesList t.slots := by
  unfold foreach iterInit
  split
  · rename_i h0
    rw [walk_none, entriesList_nil_of_count_zero t.slots (by rw [w.cnt]; exact h0)]
  · rw [walk_scanUp t t.n 0 t.n (t.n+1) (by omega) (by omega) (by omega), entriesFrom_zero]

theorem mem_entriesList {n : Nat} (s : Slots κ ν n) (k : κ) (v : ν) : (k, v) ∈ entriesList s ↔ Has s k v := by
  unfold entriesList
  rw [List.mem_filterMap]
  constructor
  · rintro ⟨a, ha, hkv⟩
    cases a with
    | none => cases hkv
    | some e =>
      simp only [Option.map_some, Option.some.injEq, kv, Prod.mk.injEq] at hkv
      exact ⟨e, (some_mem_toList s e).mp ha, hkv.1, hkv.2⟩
  · rintro ⟨e, he, hk, hv⟩
    exact ⟨some e, (some_mem_toList s e).mpr he, by simp [kv, hk, hv]⟩

theorem keys_entriesList_nodup {n : Nat} (hash : κ → Nat) (s : Slots κ ν n) (inv : Inv0 hash s) :
    ((entriesList s).map Prod.fst).Nodup := by
  unfold entriesList
  rw [List.map_filterMap]
  unfold List.Nodup
  rw [List.pairwise_filterMap]
  have hd := distinctKeys_toList hash s inv
  unfold DistinctKeys at hd
  refine hd.imp ?_
  intro a b hab x hx y hy
  cases a with
  | none => simp at hx
  | some ea =>
    cases b with
    | none => simp at hy
    | some eb =>
      simp [kv] at hx hy
      rw [← hx, ← hy]
      exact hab ea eb rfl rfl

/-- under the representation, iteration is a permutation of the specification's bindings: every key exactly once -/
theorem foreach_perm (hash : κ → Nat) (t : Tab κ ν) (m : Spec κ ν) (r : Rep0 hash t m) : (foreach t).Perm m := by
  rw [foreach_eq hash t r.toWF]
  rw [List.perm_ext_iff_of_nodup (List.Nodup.of_map _ (keys_entriesList_nodup hash t.slots r.inv0)) (List.Nodup.of_map _ r.nodup)]
  rintro ⟨k, v⟩
  rw [mem_entriesList, r.has]

theorem foreach_keys_nodup (hash : κ → Nat) (t : Tab κ ν) (w : WF hash t) : ((foreach t).map Prod.fst).Nodup := by
  rw [foreach_eq hash t w]; exact keys_entriesList_nodup hash t.slots w.inv0

/-! ### backwards: `Table_Iter_Last` / `Table_Iter_Prev` -/

/-- bindings of the slots with index `< j` -/
def entriesUpTo {n : Nat} (s : Slots κ ν n) (j : Nat) : List (κ × ν) := (s.toList.take j).filterMap (Option.map kv)

theorem entriesUpTo_succ {n : Nat} (s : Slots κ ν n) (i : Nat) (h : i < n) :
    entriesUpTo s (i+1) = entriesUpTo s i ++ (match s[i] with | some e => [kv e] | none => []) := by
  unfold entriesUpTo
  rw [List.take_succ_eq_append_getElem (by simpa using h), Vector.getElem_toList, List.filterMap_append]
  cases s[i] <;> simp

theorem entriesUpTo_all {n : Nat} (s : Slots κ ν n) : entriesUpTo s n = entriesList s := by
  unfold entriesUpTo entriesList
  rw [List.take_of_length_le (by simp)]

theorem walk_scanDown (t : Tab κ ν) :
    ∀ (i f fuel : Nat), i < t.n → i + 1 ≤ f → i + 2 ≤ fuel →
      walk t (iterPrev t) fuel (scanDown t.slots f i) = (entriesUpTo t.slots (i+1)).reverse := by
  intro i
  induction i with
  | zero =>
    intro f fuel hi hf hfuel
    match f, hf with
    | f+1, hf =>
      rw [entriesUpTo_succ t.slots 0 hi]
      simp only [scanDown, dif_pos hi]
      cases hsi : t.slots[0] with
      | none => simp [walk_none, entriesUpTo]
      | some e =>
        match fuel, hfuel with
        | fuel+1, hfuel =>
          simp only [walk, Fin.getElem_fin, hsi, iterPrev, if_true, walk_none]
          simp [entriesUpTo, kv]
  | succ i ih =>
    intro f fuel hi hf hfuel
    match f, hf with
    | f+1, hf =>
      rw [entriesUpTo_succ t.slots (i+1) hi]
      simp only [scanDown, dif_pos hi]
      cases hsi : t.slots[i+1] with
      | none =>
        simp only [Nat.add_one_ne_zero, if_false, Nat.add_sub_cancel, List.append_nil]
        exact ih f fuel (by omega) (by omega) (by omega)
      | some e =>
        match fuel, hfuel with
        | fuel+1, hfuel =>
          have := ih t.n fuel (by omega) (by omega) (by omega)
          simp only [walk, Fin.getElem_fin, hsi, iterPrev, Nat.add_one_ne_zero, if_false, Nat.add_sub_cancel, this]
          simp [kv]

/-- **backward iteration is forward iteration reversed** -/
theorem foreachRev_eq (hash : κ → Nat) (t : Tab κ ν) (w : WF hash t) : foreachRev t = (entriesList t.slots).reverse := by
  unfold foreachRev iterLast
  split
  · rename_i h0
    rw [walk_none, entriesList_nil_of_count_zero t.slots (by rw [w.cnt]; exact h0)]; rfl
  · rename_i h0
    have hn : 0 < t.n := by
      have := count_le t.slots; rw [w.cnt] at this; omega
    rw [walk_scanDown t (t.n - 1) t.n (t.n + 1) (by omega) (by omega) (by omega)]
    have : t.n - 1 + 1 = t.n := by omega
    rw [this, entriesUpTo_all]

theorem foreachRev_eq_reverse (hash : κ → Nat) (t : Tab κ ν) (w : WF hash t) : foreachRev t = (foreach t).reverse := by
  rw [foreachRev_eq hash t w, foreach_eq hash t w]

theorem foreachRev_perm (hash : κ → Nat) (t : Tab κ ν) (m : Spec κ ν) (r : Rep0 hash t m) : (foreachRev t).Perm m := by
  rw [foreachRev_eq_reverse hash t r.toWF]
  exact (List.reverse_perm _).trans (foreach_perm hash t m r)

end Cello.Table
