/-
  C14 helper lemmas: everything `print_to_with` does to its destination is a sequence of `format_to` calls that does
  not depend on the destination ("purity"), and what such a sequence does to a String / a File / the position.
-/
import Cello.Fmt

namespace Cello.Fmt

variable (prim : Str → PVal → Str)

/-! ### what a sequence of calls does -/

theorem emitAll_nil (o : Out) : emitAll prim o [] = o := rfl

theorem emitAll_cons (o : Out) (c : Call) (cs : List Call) :
    emitAll prim o (c :: cs) = emitAll prim (o.formatTo prim c.frag c.val) cs := rfl

theorem emitAll_append (o : Out) (cs ds : List Call) :
    emitAll prim o (cs ++ ds) = emitAll prim (emitAll prim o cs) ds := by
  simp [emitAll, List.foldl_append]

theorem textOf_cons (c : Call) (cs : List Call) : textOf prim (c :: cs) = prim c.frag c.val ++ textOf prim cs := by
  simp [textOf]

theorem emitAll_pos (cs : List Call) : ∀ o : Out, (emitAll prim o cs).pos = o.pos + (textOf prim cs).length := by
  induction cs with
  | nil => intro o; simp [emitAll, textOf]
  | cons c cs ih => intro o; rw [emitAll_cons, ih, textOf_cons]; simp [Out.formatTo]; omega

theorem emitAll_calls (cs : List Call) : ∀ o : Out, (emitAll prim o cs).calls = o.calls ++ cs := by
  induction cs with
  | nil => intro o; simp [emitAll]
  | cons c cs ih => intro o; rw [emitAll_cons, ih]; simp [Out.formatTo]

theorem emitAll_file (cs : List Call) : ∀ (o : Out) (c : Str), o.sink = .file c →
    (emitAll prim o cs).sink = .file (c ++ textOf prim cs) := by
  induction cs with
  | nil => intro o c h; simp [emitAll, textOf, h]
  | cons d cs ih =>
    intro o c h
    rw [emitAll_cons, ih _ (c ++ prim d.frag d.val) (by simp [Out.formatTo, h, Sink.write]), textOf_cons]
    simp

/-- a String whose length is the position: every call appends -/
theorem emitAll_str_end (cs : List Call) : ∀ (o : Out) (v : Str), o.sink = .str v → o.pos = v.length →
    (emitAll prim o cs).sink = .str (v ++ textOf prim cs) := by
  induction cs with
  | nil => intro o v h _; simp [emitAll, textOf, h]
  | cons d cs ih =>
    intro o v h hp
    rw [emitAll_cons, ih _ (v ++ prim d.frag d.val) (by simp [Out.formatTo, h, Sink.write, hp])
      (by simp [Out.formatTo, hp]), textOf_cons]
    simp

/-- a String written from a position inside it: the first call cuts it there -/
theorem emitAll_str (c : Call) (cs : List Call) (o : Out) (v : Str) (h : o.sink = .str v) (hp : o.pos ≤ v.length) :
    (emitAll prim o (c :: cs)).sink = .str (v.take o.pos ++ textOf prim (c :: cs)) := by
  rw [emitAll_cons, emitAll_str_end prim cs _ (v.take o.pos ++ prim c.frag c.val)
    (by simp [Out.formatTo, h, Sink.write]) (by simp [Out.formatTo, List.length_take]; omega), textOf_cons]
  simp

/-! ### purity -/

/-- `f` touches its destination only through a fixed sequence of `format_to` calls -/
def Pure (f : Out → Out × Outcome) : Prop := ∃ cs oc, ∀ o, f o = (emitAll prim o cs, oc)

theorem pure_andThen {f g : Out → Out × Outcome} (hf : Pure prim f) (hg : Pure prim g) : Pure prim (andThen f g) := by
  obtain ⟨cs, oc, hf⟩ := hf
  obtain ⟨ds, od, hg⟩ := hg
  cases oc with
  | ok => exact ⟨cs ++ ds, od, fun o => by simp [andThen, hf, hg, emitAll_append]⟩
  | raised e => exact ⟨cs, .raised e, fun o => by simp [andThen, hf]⟩
  | oob => exact ⟨cs, .oob, fun o => by simp [andThen, hf]⟩

variable (cfg : Cfg) (shw : Obj → Out → Out × Outcome)

theorem action_pure (hs : ∀ a, Pure prim (shw a)) (k : Kind) (buf : Str) (a : Obj) :
    Pure prim (action prim shw k buf a) := by
  cases k with
  | «show» => exact hs a
  | cstr =>
    cases h : cStr a with
    | ok s => exact ⟨[⟨buf, .cstr s⟩], .ok, fun o => by simp [action, h, emitAll]⟩
    | error e => exact ⟨[], .raised e, fun o => by simp [action, h, emitAll]⟩
  | cint =>
    cases h : cInt a with
    | ok s => exact ⟨[⟨buf, .i64 s⟩], .ok, fun o => by simp [action, h, emitAll]⟩
    | error e => exact ⟨[], .raised e, fun o => by simp [action, h, emitAll]⟩
  | cfloat =>
    cases h : cFloat a with
    | ok s => exact ⟨[⟨buf, .dbl s⟩], .ok, fun o => by simp [action, h, emitAll]⟩
    | error e => exact ⟨[], .raised e, fun o => by simp [action, h, emitAll]⟩
  | obj => exact ⟨[⟨buf, .ptr⟩], .ok, fun o => by simp [action, emitAll]⟩

theorem dispatch_pure (hs : ∀ a, Pure prim (shw a)) (c : Char) (buf : Str) (a : Obj) :
    ∀ d : List (Matcher × Kind), Pure prim (dispatch prim shw d c buf a) := by
  intro d
  induction d with
  | nil => exact ⟨[], .ok, fun o => by simp [dispatch, emitAll]⟩
  | cons mk r ih =>
    obtain ⟨m, k⟩ := mk
    by_cases hm : m.hit c = true
    · obtain ⟨cs, oc, ha⟩ := action_pure prim shw hs k buf a
      obtain ⟨ds, od, hd⟩ := ih
      cases oc with
      | ok => exact ⟨cs ++ ds, od, fun o => by simp [dispatch, hm, ha, hd, emitAll_append]⟩
      | raised e => exact ⟨cs, .raised e, fun o => by simp [dispatch, hm, ha]⟩
      | oob => exact ⟨cs, .oob, fun o => by simp [dispatch, hm, ha]⟩
    · obtain ⟨ds, od, hd⟩ := ih
      exact ⟨ds, od, fun o => by simp [dispatch, hm, hd]⟩

/-- the whole scanner loop is pure: its calls, outcome and marks do not depend on the destination -/
theorem loop_pure (hs : ∀ a, Pure prim (shw a)) (fmt : Str) (args : List Obj) :
    ∀ (fuel i index : Nat) (mk : Marks), ∃ cs oc mk', ∀ o,
      loop cfg prim shw fmt args fuel i index o mk = ⟨emitAll prim o cs, oc, mk'⟩ := by
  intro fuel
  induction fuel with
  | zero => intro i index mk; exact ⟨[], .oob, mk, fun o => by simp [loop, emitAll]⟩
  | succ f ih =>
    intro i index mk
    cases h0 : rd fmt i with
    | none => exact ⟨[], .oob, _, fun o => by rw [loop]; simp only [h0]; rfl⟩
    | some c0 =>
    by_cases hn : c0 = NUL
    · exact ⟨[], .ok, _, fun o => by rw [loop]; simp only [h0, hn, if_true]; rfl⟩
    cases h1 : scanLit fmt (fmt.length + 2) i with
    | none => exact ⟨[], .oob, _, fun o => by rw [loop]; simp only [h0, hn, if_false, h1]; rfl⟩
    | some j =>
    by_cases hij : i ≠ j
    · cases h2 : slice fmt i (j - i) with
      | none => exact ⟨[], .oob, _, fun o => by rw [loop]; simp only [h0, hn, if_false, h1, if_pos hij, h2]; rfl⟩
      | some buf =>
      by_cases hgt : j - i > fmt.length
      · exact ⟨[], .oob, _, fun o => by rw [loop]; simp only [h0, hn, if_false, h1, if_pos hij, h2, if_pos hgt]; rfl⟩
      · obtain ⟨cs, oc, mk', h⟩ := ih j index (((mk.read i).read j).write (j - i))
        exact ⟨⟨cstrOf buf, .none⟩ :: cs, oc, mk', fun o => by
          rw [loop]; simp only [h0, hn, if_false, h1, if_pos hij, h2, if_neg hgt, h]; rfl⟩
    · cases h5 : (if c0 = '%' then rd fmt (i + 1) else some NUL) with
      | none => exact ⟨[], .oob, _, fun o => by rw [loop]; simp only [h0, hn, if_false, h1, if_neg hij, h5]; rfl⟩
      | some c1 =>
      by_cases hpp : c0 = '%' ∧ c1 = '%'
      · obtain ⟨cs, oc, mk', h⟩ := ih (i + 2) index (if c0 = '%' then ((mk.read i).read j).read (i + 1) else (mk.read i).read j)
        exact ⟨⟨['%', '%'], .none⟩ :: cs, oc, mk', fun o => by
          rw [loop]; simp only [h0, hn, if_false, h1, if_neg hij, h5, if_pos hpp, h]; rfl⟩
      · cases h7 : scanConv cfg.conv fmt (fmt.length + 2) i with
        | none => exact ⟨[], .oob, _, fun o => by rw [loop]; simp only [h0, hn, if_false, h1, if_neg hij, h5, if_neg hpp, h7]; rfl⟩
        | some j' =>
        by_cases hij' : i ≠ j'
        · cases h8 : slice fmt i (j' - i + 1) with
          | none => exact ⟨[], .oob, _, fun o => by
              rw [loop]; simp only [h0, hn, if_false, h1, if_neg hij, h5, if_neg hpp, h7, if_pos hij', h8]; rfl⟩
          | some buf =>
          by_cases hgt : j' - i + 1 > fmt.length
          · exact ⟨[], .oob, _, fun o => by
              rw [loop]; simp only [h0, hn, if_false, h1, if_neg hij, h5, if_neg hpp, h7, if_pos hij', h8, if_pos hgt]; rfl⟩
          · cases h9 : args[index]? with
            | none => exact ⟨[], .raised .FormatError, _, fun o => by
                rw [loop]; simp only [h0, hn, if_false, h1, if_neg hij, h5, if_neg hpp, h7, if_pos hij', h8, if_neg hgt, h9]; rfl⟩
            | some a =>
            cases h10 : rd fmt j' with
            | none => exact ⟨[], .oob, _, fun o => by
                rw [loop]; simp only [h0, hn, if_false, h1, if_neg hij, h5, if_neg hpp, h7, if_pos hij', h8, if_neg hgt, h9, h10]; rfl⟩
            | some c =>
            obtain ⟨ds, od, hd⟩ := dispatch_pure prim shw hs c (cstrOf buf) a cfg.disp
            cases od with
            | ok =>
              obtain ⟨cs, oc, mk', h⟩ := ih (j' + 1) (index + 1)
                ((if c0 = '%' then ((mk.read i).read j).read (i + 1) else (mk.read i).read j).read j' |>.write (j' - i + 1))
              exact ⟨ds ++ cs, oc, mk', fun o => by
                rw [loop]; simp only [h0, hn, if_false, h1, if_neg hij, h5, if_neg hpp, h7, if_pos hij', h8, if_neg hgt, h9, h10, hd, h, emitAll_append]⟩
            | raised e => exact ⟨ds, .raised e, _, fun o => by
                rw [loop]; simp only [h0, hn, if_false, h1, if_neg hij, h5, if_neg hpp, h7, if_pos hij', h8, if_neg hgt, h9, h10, hd]; rfl⟩
            | oob => exact ⟨ds, .oob, _, fun o => by
                rw [loop]; simp only [h0, hn, if_false, h1, if_neg hij, h5, if_neg hpp, h7, if_pos hij', h8, if_neg hgt, h9, h10, hd]; rfl⟩
        · exact ⟨[], .raised .FormatError, _, fun o => by
            rw [loop]; simp only [h0, hn, if_false, h1, if_neg hij, h5, if_neg hpp, h7, if_neg hij']; rfl⟩

theorem printToWith_pure (hs : ∀ a, Pure prim (shw a)) (fmt : Str) (args : List Obj) :
    Pure prim (fun o => (printToWith cfg prim shw fmt args o).pair) := by
  obtain ⟨cs, oc, mk', h⟩ := loop_pure prim cfg shw hs fmt args (fmt.length + 1) 0 0 ⟨0, 0⟩
  exact ⟨cs, oc, fun o => by simp [printToWith, h, Result.pair]⟩

/-! ### the built-in Show instances are pure -/

variable (sc : ShowCfg)

theorem showItems_pure (hs : ∀ a, Pure prim (shw a)) (sep : Str) :
    ∀ items : List Obj, Pure prim (showItems cfg prim shw sep items) := by
  intro items
  induction items with
  | nil => exact ⟨[], .ok, fun o => by simp [showItems, emitAll]⟩
  | cons a r ih =>
    cases r with
    | nil => simpa [showItems] using printToWith_pure prim cfg shw hs ['%', '$'] [a]
    | cons b r =>
      simp only [showItems]
      exact pure_andThen prim (printToWith_pure prim cfg shw hs _ _)
        (pure_andThen prim (printToWith_pure prim cfg shw hs _ _) ih)

theorem showChars_pure (hs : ∀ a, Pure prim (shw a)) :
    ∀ s : Str, Pure prim (showChars cfg prim sc shw s) := by
  intro s
  induction s with
  | nil => exact ⟨[], .ok, fun o => by simp [showChars, emitAll]⟩
  | cons c r ih =>
    simp only [showChars]
    refine pure_andThen prim ?_ ih
    cases sc.strEsc.lookup c with
    | none => exact printToWith_pure prim cfg shw hs _ _
    | some e => exact printToWith_pure prim cfg shw hs _ _

theorem showD_pure : ∀ (d : Nat) (a : Obj), Pure prim (showD cfg prim sc d a) := by
  intro d
  induction d with
  | zero => intro a; exact ⟨[], .raised .Fuel, fun o => by simp [showD, emitAll]⟩
  | succ d ih =>
    intro a
    have hs : ∀ x, Pure prim (fun o => showD cfg prim sc d x o) := ih
    cases a with
    | int v => simpa [showD] using printToWith_pure prim cfg _ hs _ _
    | flt v => simpa [showD] using printToWith_pure prim cfg _ hs _ _
    | str s =>
      simp only [showD]
      exact pure_andThen prim (printToWith_pure prim cfg _ hs _ _)
        (pure_andThen prim (showChars_pure prim cfg _ sc hs s) (printToWith_pure prim cfg _ hs _ _))
    | array items =>
      simp only [showD]
      exact pure_andThen prim (printToWith_pure prim cfg _ hs _ _)
        (pure_andThen prim (showItems_pure prim cfg _ hs _ items) (printToWith_pure prim cfg _ hs _ _))
    | tuple items =>
      simp only [showD]
      exact pure_andThen prim (printToWith_pure prim cfg _ hs _ _)
        (pure_andThen prim (showItems_pure prim cfg _ hs _ items) (printToWith_pure prim cfg _ hs _ _))
    | list items =>
      simp only [showD]
      exact pure_andThen prim (printToWith_pure prim cfg _ hs _ _)
        (pure_andThen prim (showItems_pure prim cfg _ hs _ items) (printToWith_pure prim cfg _ hs _ _))

end Cello.Fmt
