/-
  C14 helper lemmas: everything `print_to_with` does to its destination is a sequence of `format_to` calls that does
  not depend on the destination ("purity"), and what such a sequence does to a String / a File / the position.
-/
import Cello.Fmt

namespace Cello.Fmt

variable (prim : Prim)

/-! ### one call -/

theorem out_of_rej {frag : Str} {v : PVal} (h : prim.rej frag v = true) : prim.out frag v = [] := by simp [Prim.out, h]

theorem out_of_acc {frag : Str} {v : PVal} (h : prim.rej frag v = false) : prim.out frag v = prim.text frag v := by
  simp [Prim.out, h]

theorem sink_reject_guarded (hg : prim.Guarded) (s : Sink) (pos : Nat) :
    s.reject prim.strSteps pos = (s, .raised .FormatError) := by
  cases s with
  | str v => exact hg v pos
  | file c => rfl

/-- with the guard in place a rejected call only enters the log -/
theorem formatTo_rej (hg : prim.Guarded) (o : Out) {frag : Str} {v : PVal} (h : prim.rej frag v = true) :
    o.formatTo prim frag v = { o with calls := o.calls ++ [⟨frag, v⟩] } := by
  simp [Out.formatTo, h, sink_reject_guarded prim hg]

theorem formatTo_acc (o : Out) {frag : Str} {v : PVal} (h : prim.rej frag v = false) :
    o.formatTo prim frag v =
      { sink := o.sink.write o.pos (prim.text frag v), pos := o.pos + (prim.text frag v).length, calls := o.calls ++ [⟨frag, v⟩] } := by
  simp [Out.formatTo, h]

/-- what `print_to_with` sees after one call: FormatError exactly when libc rejected it (guard in place) -/
def callOutcome (frag : Str) (v : PVal) : Outcome := if prim.rej frag v then .raised .FormatError else .ok

theorem callOc_guarded (hg : prim.Guarded) (o : Out) (frag : Str) (v : PVal) :
    o.callOc prim frag v = callOutcome prim frag v := by
  unfold Out.callOc callOutcome
  split
  · rw [sink_reject_guarded prim hg]
  · rfl

theorem call_guarded (hg : prim.Guarded) (o : Out) (frag : Str) (v : PVal) :
    o.call prim frag v = (o.formatTo prim frag v, callOutcome prim frag v) := by
  simp [Out.call, callOc_guarded prim hg]

theorem call_acc (o : Out) {frag : Str} {v : PVal} (h : prim.rej frag v = false) :
    o.call prim frag v = (o.formatTo prim frag v, .ok) := by
  simp [Out.call, Out.callOc, h]

theorem formatTo_pos (o : Out) (frag : Str) (v : PVal) : (o.formatTo prim frag v).pos = o.pos + (prim.out frag v).length := by
  unfold Out.formatTo Prim.out
  split <;> simp

theorem formatTo_calls (o : Out) (frag : Str) (v : PVal) : (o.formatTo prim frag v).calls = o.calls ++ [⟨frag, v⟩] := by
  unfold Out.formatTo
  split <;> simp

theorem formatTo_file (o : Out) (frag : Str) (v : PVal) (c : Str) (h : o.sink = .file c) :
    (o.formatTo prim frag v).sink = .file (c ++ prim.out frag v) := by
  unfold Out.formatTo Prim.out
  split <;> simp [h, Sink.reject, Sink.write]

/-! ### what a sequence of calls does -/

theorem emitAll_nil (o : Out) : emitAll prim o [] = o := rfl

theorem emitAll_cons (o : Out) (c : Call) (cs : List Call) :
    emitAll prim o (c :: cs) = emitAll prim (o.formatTo prim c.frag c.val) cs := rfl

theorem emitAll_append (o : Out) (cs ds : List Call) :
    emitAll prim o (cs ++ ds) = emitAll prim (emitAll prim o cs) ds := by
  simp [emitAll, List.foldl_append]

theorem textOf_cons (c : Call) (cs : List Call) : textOf prim (c :: cs) = prim.out c.frag c.val ++ textOf prim cs := by
  simp [textOf]

theorem textOf_append (cs ds : List Call) : textOf prim (cs ++ ds) = textOf prim cs ++ textOf prim ds := by
  simp [textOf]

theorem emitAll_pos (cs : List Call) : ∀ o : Out, (emitAll prim o cs).pos = o.pos + (textOf prim cs).length := by
  induction cs with
  | nil => intro o; simp [emitAll, textOf]
  | cons c cs ih => intro o; rw [emitAll_cons, ih, textOf_cons, formatTo_pos]; simp; omega

theorem emitAll_calls (cs : List Call) : ∀ o : Out, (emitAll prim o cs).calls = o.calls ++ cs := by
  induction cs with
  | nil => intro o; simp [emitAll]
  | cons c cs ih => intro o; rw [emitAll_cons, ih, formatTo_calls]; simp

/-- a File receives the text of the accepted calls, whatever `String_Format_To` looks like -/
theorem emitAll_file (cs : List Call) : ∀ (o : Out) (c : Str), o.sink = .file c →
    (emitAll prim o cs).sink = .file (c ++ textOf prim cs) := by
  induction cs with
  | nil => intro o c h; simp [emitAll, textOf, h]
  | cons d cs ih =>
    intro o c h
    rw [emitAll_cons, ih _ (c ++ prim.out d.frag d.val) (formatTo_file prim o _ _ c h), textOf_cons]
    simp

/-- all calls of the list are accepted by libc -/
def AllAcc (cs : List Call) : Prop := ∀ c ∈ cs, prim.rej c.frag c.val = false

theorem allAcc_accepted (cs : List Call) : AllAcc prim (accepted prim cs) := by
  intro c hc
  have := (List.mem_filter.1 hc).2
  simpa using this

theorem textOf_accepted (cs : List Call) : textOf prim (accepted prim cs) = textOf prim cs := by
  induction cs with
  | nil => rfl
  | cons c cs ih =>
    by_cases h : prim.rej c.frag c.val = true
    · have : accepted prim (c :: cs) = accepted prim cs := by simp [accepted, h]
      rw [this, ih, textOf_cons, out_of_rej prim h]; rfl
    · have : accepted prim (c :: cs) = c :: accepted prim cs := by simp [accepted, h]
      rw [this, textOf_cons, textOf_cons, ih]

/-- a String whose length is the position: every accepted call appends -/
theorem emitAll_str_end (cs : List Call) (hacc : AllAcc prim cs) : ∀ (o : Out) (v : Str), o.sink = .str v → o.pos = v.length →
    (emitAll prim o cs).sink = .str (v ++ textOf prim cs) := by
  induction cs with
  | nil => intro o v h _; simp [emitAll, textOf, h]
  | cons d cs ih =>
    intro o v h hp
    have hd : prim.rej d.frag d.val = false := hacc d (by simp)
    rw [emitAll_cons, ih (fun c hc => hacc c (by simp [hc])) _ (v ++ prim.text d.frag d.val)
      (by simp [formatTo_acc prim o hd, h, Sink.write, hp]) (by simp [formatTo_acc prim o hd, hp]), textOf_cons,
      out_of_acc prim hd]
    simp

/-- a String written from a position inside it: the first accepted call cuts it there -/
theorem emitAll_str (c : Call) (cs : List Call) (hacc : AllAcc prim (c :: cs)) (o : Out) (v : Str) (h : o.sink = .str v)
    (hp : o.pos ≤ v.length) :
    (emitAll prim o (c :: cs)).sink = .str (v.take o.pos ++ textOf prim (c :: cs)) := by
  have hc : prim.rej c.frag c.val = false := hacc c (by simp)
  rw [emitAll_cons, emitAll_str_end prim cs (fun d hd => hacc d (by simp [hd])) _ (v.take o.pos ++ prim.text c.frag c.val)
    (by simp [formatTo_acc prim o hc, h, Sink.write]) (by simp [formatTo_acc prim o hc, List.length_take]; omega), textOf_cons,
    out_of_acc prim hc]
  simp

/-- sink and position after a sequence of calls depend only on sink and position before it -/
theorem emitAll_congr (cs : List Call) : ∀ (o1 o2 : Out), o1.sink = o2.sink → o1.pos = o2.pos →
    (emitAll prim o1 cs).sink = (emitAll prim o2 cs).sink ∧ (emitAll prim o1 cs).pos = (emitAll prim o2 cs).pos := by
  induction cs with
  | nil => intro o1 o2 h1 h2; exact ⟨h1, h2⟩
  | cons c cs ih =>
    intro o1 o2 h1 h2
    rw [emitAll_cons, emitAll_cons]
    apply ih
    · unfold Out.formatTo; split <;> simp [h1, h2]
    · unfold Out.formatTo; split <;> simp [h2]

/-- with the guard in place the rejected calls of a sequence leave no trace on sink and position -/
theorem emitAll_sink_accepted (hg : prim.Guarded) (cs : List Call) : ∀ (o : Out),
    (emitAll prim o cs).sink = (emitAll prim o (accepted prim cs)).sink ∧
    (emitAll prim o cs).pos = (emitAll prim o (accepted prim cs)).pos := by
  induction cs with
  | nil => intro o; exact ⟨rfl, rfl⟩
  | cons c cs ih =>
    intro o
    by_cases h : prim.rej c.frag c.val = true
    · have ha : accepted prim (c :: cs) = accepted prim cs := by simp [accepted, h]
      rw [ha, emitAll_cons, formatTo_rej prim hg o h]
      have h1 := ih { o with calls := o.calls ++ [⟨c.frag, c.val⟩] }
      have h2 := emitAll_congr prim (accepted prim cs) { o with calls := o.calls ++ [⟨c.frag, c.val⟩] } o rfl rfl
      exact ⟨h1.1.trans h2.1, h1.2.trans h2.2⟩
    · have ha : accepted prim (c :: cs) = c :: accepted prim cs := by simp [accepted, h]
      rw [ha, emitAll_cons, emitAll_cons]
      exact ih _

/-- **a String sink after any sequence of calls** (guard in place): untouched if no call was accepted, else cut at the
    start position and followed by the text of the accepted calls -/
theorem emitAll_str_guarded (hg : prim.Guarded) (cs : List Call) (o : Out) (v : Str) (h : o.sink = .str v) (hp : o.pos ≤ v.length) :
    (emitAll prim o cs).sink = if accepted prim cs = [] then .str v else .str (v.take o.pos ++ textOf prim cs) := by
  rw [(emitAll_sink_accepted prim hg cs o).1, ← textOf_accepted]
  cases ha : accepted prim cs with
  | nil => simp [emitAll, h]
  | cons d ds =>
    have := emitAll_str prim d ds (ha ▸ allAcc_accepted prim cs) o v h hp
    simpa using this

/-! ### purity -/

/-- `f` touches its destination only through a fixed sequence of `format_to` calls -/
def Pure (f : Out → Out × Outcome) : Prop := ∃ cs oc, ∀ o, f o = (emitAll prim o cs, oc)

theorem pure_andThen {f g : Out → Out × Outcome} (hf : Pure prim f) (hg : Pure prim g) : Pure prim (andThen f g) := by
  obtain ⟨cs, oc, hf⟩ := hf
  obtain ⟨ds, od, hg⟩ := hg
  cases oc with
  | ok => exact ⟨cs ++ ds, od, fun o => by simp [andThen, hf, hg, emitAll_append]⟩
  | raised e => exact ⟨cs, .raised e, fun o => by simp [andThen, hf]⟩
  | oob => exact ⟨cs, .oob, fun o => by simp [andThen, hf]⟩

/-- one call is pure when the guard is in place: the outcome does not depend on the sink -/
theorem call_pure (hg : prim.Guarded) (frag : Str) (v : PVal) : Pure prim (fun o => o.call prim frag v) :=
  ⟨[⟨frag, v⟩], callOutcome prim frag v, fun o => by simp [call_guarded prim hg, emitAll]⟩

variable (cfg : Cfg) (shw : Obj → Out → Out × Outcome)

/-- an argument `print_to_with` can hand to any conversion without leaving purity: it is not the destination itself and
    its `show` is pure -/
def ArgPure (a : Obj) : Prop := a.isSink = false ∧ Pure prim (shw a)

theorem action_pure (hg : prim.Guarded) (k : Kind) (buf : Str) (a : Obj) (ha : ArgPure prim shw a) :
    Pure prim (action prim shw k buf a) := by
  cases k with
  | «show» => exact ha.2
  | cstr =>
    have hns : ∀ o, action prim shw .cstr buf a o =
        match cStr a with
        | .ok s => o.call prim buf (.cstr s)
        | .error e => (o, .raised e) := by
      intro o
      cases a <;> first | rfl | exact absurd ha.1 (by decide)
    cases h : cStr a with
    | ok s =>
      obtain ⟨cs, oc, hc⟩ := call_pure prim hg buf (.cstr s)
      exact ⟨cs, oc, fun o => by rw [hns, h]; exact hc o⟩
    | error e => exact ⟨[], .raised e, fun o => by rw [hns, h]; rfl⟩
  | cint =>
    cases h : cInt a with
    | ok s =>
      obtain ⟨cs, oc, hc⟩ := call_pure prim hg buf (.i64 s)
      exact ⟨cs, oc, fun o => by simpa [action, h] using hc o⟩
    | error e => exact ⟨[], .raised e, fun o => by simp [action, h, emitAll]⟩
  | cfloat =>
    cases h : cFloat a with
    | ok s =>
      obtain ⟨cs, oc, hc⟩ := call_pure prim hg buf (.dbl s)
      exact ⟨cs, oc, fun o => by simpa [action, h] using hc o⟩
    | error e => exact ⟨[], .raised e, fun o => by simp [action, h, emitAll]⟩
  | obj =>
    obtain ⟨cs, oc, hc⟩ := call_pure prim hg buf .ptr
    exact ⟨cs, oc, fun o => by simpa [action] using hc o⟩

theorem dispatch_pure (hg : prim.Guarded) (c : Char) (buf : Str) (a : Obj) (ha : ArgPure prim shw a) :
    ∀ d : List (Matcher × Kind), Pure prim (dispatch prim shw d c buf a) := by
  intro d
  induction d with
  | nil => exact ⟨[], .ok, fun o => by simp [dispatch, emitAll]⟩
  | cons mk r ih =>
    obtain ⟨m, k⟩ := mk
    by_cases hm : m.hit c = true
    · obtain ⟨cs, oc, ha⟩ := action_pure prim shw hg k buf a ha
      obtain ⟨ds, od, hd⟩ := ih
      cases oc with
      | ok => exact ⟨cs ++ ds, od, fun o => by simp [dispatch, hm, ha, hd, emitAll_append]⟩
      | raised e => exact ⟨cs, .raised e, fun o => by simp [dispatch, hm, ha]⟩
      | oob => exact ⟨cs, .oob, fun o => by simp [dispatch, hm, ha]⟩
    · obtain ⟨ds, od, hd⟩ := ih
      exact ⟨ds, od, fun o => by simp [dispatch, hm, hd]⟩

/-- the whole scanner loop is pure: its calls, outcome and marks do not depend on the destination -/
theorem loop_pure (hg : prim.Guarded) (fmt : Str) (args : List Obj) (hs : ∀ a ∈ args, ArgPure prim shw a) :
    ∀ (fuel i index : Nat) (mk : Marks), ∃ cs oc mk', ∀ o,
      loop cfg prim shw fmt args fuel i index o mk = ⟨emitAll prim o cs, oc, mk'⟩ := by
  intro fuel
  induction fuel with
  | zero => intro i index mk; exact ⟨[], .oob, mk, fun o => by simp [loop, emitAll]⟩
  | succ f ih =>
    intro i index mk
    cases h0 : rd fmt i with
    | none => exact ⟨[], .oob, _, fun o => by rw [loop]; simp only [h0]; rfl⟩
    | some c0 =>
    by_cases hn : c0 = NUL
    · exact ⟨[], .ok, _, fun o => by rw [loop]; simp only [h0, hn, if_true]; rfl⟩
    cases h1 : scanLit fmt (fmt.length + 2) i with
    | none => exact ⟨[], .oob, _, fun o => by rw [loop]; simp only [h0, hn, if_false, h1]; rfl⟩
    | some j =>
    by_cases hij : i ≠ j
    · cases h2 : slice fmt i (j - i) with
      | none => exact ⟨[], .oob, _, fun o => by rw [loop]; simp only [h0, hn, if_false, h1, if_pos hij, h2]; rfl⟩
      | some buf =>
      by_cases hgt : j - i > fmt.length
      · exact ⟨[], .oob, _, fun o => by rw [loop]; simp only [h0, hn, if_false, h1, if_pos hij, h2, if_pos hgt]; rfl⟩
      · by_cases hr : prim.rej (cstrOf buf) .none = true
        · exact ⟨[⟨cstrOf buf, .none⟩], .raised .FormatError, _, fun o => by
            rw [loop]; simp only [h0, hn, if_false, h1, if_pos hij, h2, if_neg hgt, call_guarded prim hg, callOutcome, if_pos hr]; rfl⟩
        · obtain ⟨cs, oc, mk', h⟩ := ih j index (((mk.read i).read j).write (j - i))
          exact ⟨⟨cstrOf buf, .none⟩ :: cs, oc, mk', fun o => by
            rw [loop]; simp only [h0, hn, if_false, h1, if_pos hij, h2, if_neg hgt, call_guarded prim hg, callOutcome, if_neg hr, h]; rfl⟩
    · cases h5 : (if c0 = '%' then rd fmt (i + 1) else some NUL) with
      | none => exact ⟨[], .oob, _, fun o => by rw [loop]; simp only [h0, hn, if_false, h1, if_neg hij, h5]; rfl⟩
      | some c1 =>
      by_cases hpp : c0 = '%' ∧ c1 = '%'
      · by_cases hr : prim.rej ['%', '%'] .none = true
        · exact ⟨[⟨['%', '%'], .none⟩], .raised .FormatError, _, fun o => by
            rw [loop]; simp only [h0, hn, if_false, h1, if_neg hij, h5, if_pos hpp, call_guarded prim hg, callOutcome, if_pos hr]; rfl⟩
        · obtain ⟨cs, oc, mk', h⟩ := ih (i + 2) index (if c0 = '%' then ((mk.read i).read j).read (i + 1) else (mk.read i).read j)
          exact ⟨⟨['%', '%'], .none⟩ :: cs, oc, mk', fun o => by
            rw [loop]; simp only [h0, hn, if_false, h1, if_neg hij, h5, if_pos hpp, call_guarded prim hg, callOutcome, if_neg hr, h]; rfl⟩
      · cases h7 : scanConv cfg.conv fmt (fmt.length + 2) i with
        | none => exact ⟨[], .oob, _, fun o => by rw [loop]; simp only [h0, hn, if_false, h1, if_neg hij, h5, if_neg hpp, h7]; rfl⟩
        | some j' =>
        by_cases hij' : i ≠ j'
        · cases h8 : slice fmt i (j' - i + 1) with
          | none => exact ⟨[], .oob, _, fun o => by
              rw [loop]; simp only [h0, hn, if_false, h1, if_neg hij, h5, if_neg hpp, h7, if_pos hij', h8]; rfl⟩
          | some buf =>
          by_cases hgt : j' - i + 1 > fmt.length
          · exact ⟨[], .oob, _, fun o => by
              rw [loop]; simp only [h0, hn, if_false, h1, if_neg hij, h5, if_neg hpp, h7, if_pos hij', h8, if_pos hgt]; rfl⟩
          · cases h9 : args[index]? with
            | none => exact ⟨[], .raised .FormatError, _, fun o => by
                rw [loop]; simp only [h0, hn, if_false, h1, if_neg hij, h5, if_neg hpp, h7, if_pos hij', h8, if_neg hgt, h9]; rfl⟩
            | some a =>
            cases h10 : rd fmt j' with
            | none => exact ⟨[], .oob, _, fun o => by
                rw [loop]; simp only [h0, hn, if_false, h1, if_neg hij, h5, if_neg hpp, h7, if_pos hij', h8, if_neg hgt, h9, h10]; rfl⟩
            | some c =>
            obtain ⟨ds, od, hd⟩ := dispatch_pure prim shw hg c (cstrOf buf) a (hs a (List.mem_of_getElem? h9)) cfg.disp
            cases od with
            | ok =>
              obtain ⟨cs, oc, mk', h⟩ := ih (j' + 1) (index + 1)
                ((if c0 = '%' then ((mk.read i).read j).read (i + 1) else (mk.read i).read j).read j' |>.write (j' - i + 1))
              exact ⟨ds ++ cs, oc, mk', fun o => by
                rw [loop]; simp only [h0, hn, if_false, h1, if_neg hij, h5, if_neg hpp, h7, if_pos hij', h8, if_neg hgt, h9, h10, hd, h, emitAll_append]⟩
            | raised e => exact ⟨ds, .raised e, _, fun o => by
                rw [loop]; simp only [h0, hn, if_false, h1, if_neg hij, h5, if_neg hpp, h7, if_pos hij', h8, if_neg hgt, h9, h10, hd]; rfl⟩
            | oob => exact ⟨ds, .oob, _, fun o => by
                rw [loop]; simp only [h0, hn, if_false, h1, if_neg hij, h5, if_neg hpp, h7, if_pos hij', h8, if_neg hgt, h9, h10, hd]; rfl⟩
        · exact ⟨[], .raised .FormatError, _, fun o => by
            rw [loop]; simp only [h0, hn, if_false, h1, if_neg hij, h5, if_neg hpp, h7, if_neg hij']; rfl⟩

theorem printToWith_pure (hg : prim.Guarded) (fmt : Str) (args : List Obj) (hs : ∀ a ∈ args, ArgPure prim shw a) :
    Pure prim (fun o => (printToWith cfg prim shw fmt args o).pair) := by
  obtain ⟨cs, oc, mk', h⟩ := loop_pure prim cfg shw hg fmt args hs (fmt.length + 1) 0 0 ⟨0, 0⟩
  exact ⟨cs, oc, fun o => by simp [printToWith, h, Result.pair]⟩

/-! ### the loops of the built-in Show instances are pure -/

variable (sc : ShowCfg)

theorem showItems_pure (hg : prim.Guarded) (sep : Str) :
    ∀ items : List Obj, (∀ a ∈ items, ArgPure prim shw a) → Pure prim (showItems cfg prim shw sep items) := by
  intro items
  induction items with
  | nil => intro _; exact ⟨[], .ok, fun o => by simp [showItems, emitAll]⟩
  | cons a r ih =>
    intro hs
    have ha : ∀ x ∈ [a], ArgPure prim shw x := fun x hx => hs x (by simp at hx; simp [hx])
    cases r with
    | nil => simpa [showItems] using printToWith_pure prim cfg shw hg ['%', '$'] [a] ha
    | cons b r =>
      simp only [showItems]
      exact pure_andThen prim (printToWith_pure prim cfg shw hg _ _ ha)
        (pure_andThen prim (printToWith_pure prim cfg shw hg _ [] (by simp)) (ih (fun x hx => hs x (by simp [hx]))))

theorem showPairs_pure (hg : prim.Guarded) (pair sep : Str) :
    ∀ ps : List (Obj × Obj), (∀ p ∈ ps, ArgPure prim shw p.1 ∧ ArgPure prim shw p.2) →
      Pure prim (showPairs cfg prim shw pair sep ps) := by
  intro ps
  induction ps with
  | nil => intro _; exact ⟨[], .ok, fun o => by simp [showPairs, emitAll]⟩
  | cons p r ih =>
    intro hs
    obtain ⟨k, v⟩ := p
    have hp := hs (k, v) (by simp)
    have ha : ∀ x ∈ [k, v], ArgPure prim shw x := by
      intro x hx
      simp at hx
      rcases hx with rfl | rfl
      · exact hp.1
      · exact hp.2
    cases r with
    | nil => simpa [showPairs] using printToWith_pure prim cfg shw hg pair [k, v] ha
    | cons q r =>
      simp only [showPairs]
      exact pure_andThen prim (printToWith_pure prim cfg shw hg _ _ ha)
        (pure_andThen prim (printToWith_pure prim cfg shw hg _ [] (by simp)) (ih (fun x hx => hs x (by simp [hx]))))

theorem showInts_pure (hg : prim.Guarded) (hi : ∀ n, Pure prim (shw (.int n))) (item sep : Str) :
    ∀ ns : List Int, Pure prim (showInts cfg prim shw item sep ns) := by
  intro ns
  have ha : ∀ n, ∀ x ∈ [Obj.int n], ArgPure prim shw x := by
    intro n x hx
    simp at hx
    subst hx
    exact ⟨rfl, hi n⟩
  induction ns with
  | nil => exact ⟨[], .ok, fun o => by simp [showInts, emitAll]⟩
  | cons n r ih =>
    cases r with
    | nil => simpa [showInts] using printToWith_pure prim cfg shw hg item [.int n] (ha n)
    | cons m r =>
      simp only [showInts]
      exact pure_andThen prim (printToWith_pure prim cfg shw hg _ _ (ha n))
        (pure_andThen prim (printToWith_pure prim cfg shw hg _ [] (by simp)) ih)

theorem showChars_pure (hg : prim.Guarded) (hi : ∀ n, Pure prim (shw (.int n))) :
    ∀ s : Str, Pure prim (showChars cfg prim sc shw s) := by
  intro s
  induction s with
  | nil => exact ⟨[], .ok, fun o => by simp [showChars, emitAll]⟩
  | cons c r ih =>
    simp only [showChars]
    refine pure_andThen prim ?_ ih
    cases sc.strEsc.lookup c with
    | none =>
      exact printToWith_pure prim cfg shw hg _ _ (by
        intro x hx
        simp at hx
        subst hx
        exact ⟨rfl, hi _⟩)
    | some e => exact printToWith_pure prim cfg shw hg _ [] (by simp)

end Cello.Fmt
