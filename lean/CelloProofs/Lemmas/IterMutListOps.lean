/- helper lemmas for C11: every mutation of a List keeps the doubly-linked invariant `Chain` and has the effect `listSpec`
   on the sequence of elements; hence every history does -/
import CelloProofs.Lemmas.IterMutList

namespace Cello.Iter
namespace LL

variable {α : Type}

theorem vals_append (xs ys : List (Nat × α)) : vals (xs ++ ys) = vals xs ++ vals ys := by simp [vals]
theorem vals_cons (x : Nat × α) (ys : List (Nat × α)) : vals (x :: ys) = x.2 :: vals ys := rfl
theorem vals_length (xs : List (Nat × α)) : (vals xs).length = xs.length := by simp [vals]
theorem vals_take (xs : List (Nat × α)) (k : Nat) : vals (xs.take k) = (vals xs).take k := by simp [vals, List.map_take]
theorem vals_drop (xs : List (Nat × α)) (k : Nat) : vals (xs.drop k) = (vals xs).drop k := by simp [vals, List.map_drop]

theorem Chain.nil_iff {l : LL α} {xs : List (Nat × α)} (h : Chain l xs) : l.nitems = 0 ↔ xs = [] := by
  rw [h.count]; exact List.length_eq_zero_iff

/-! ### push, pop, push_at, pop_at -/

theorem push_chain (l : LL α) (xs : List (Nat × α)) (h : Chain l xs) (v : α) :
    ∃ l', l.push v = (l', .ok) ∧ Chain l' (xs ++ [(l.brk, v)]) := by
  have h' : Chain l (xs ++ []) := by simpa using h
  exact insert_chain l xs [] v h' _ _ (by simpa [alloc, store] using h.tail) rfl

theorem pop_chain (l : LL α) (xs : List (Nat × α)) (h : Chain l xs) :
    (xs = [] ∧ l.pop = (l, .index)) ∨
    (xs ≠ [] ∧ ∃ l', l.pop = (l', .ok) ∧ Chain l' (xs.take (xs.length - 1))) := by
  by_cases e : xs = []
  · exact Or.inl ⟨e, by simp [pop, h.nil_iff.mpr e]⟩
  · refine Or.inr ⟨e, ?_⟩
    obtain ⟨ini, w, rfl⟩ := snoc_of_ne_nil xs e
    obtain ⟨l', e1, c1⟩ := dropNode_chain l ini [] w h
    refine ⟨l', ?_, by simpa using c1⟩
    have hn : l.nitems ≠ 0 := fun c => e (h.nil_iff.mp c)
    simp only [pop, hn, if_false, h.tail, lastAddr_snoc, e1]

theorem pushAt_chain (l : LL α) (xs : List (Nat × α)) (h : Chain l xs) (v : α) (i : Int) :
    (i = 0 ∧ ∃ l', l.pushAt v i = (l', .ok) ∧ Chain l' ((l.brk, v) :: xs)) ∨
    (i ≠ 0 ∧ idxOf xs.length i = none ∧ l.pushAt v i = (l, .index)) ∨
    (i ≠ 0 ∧ ∃ k, idxOf xs.length i = some k ∧ ∃ l', l.pushAt v i = (l', .ok) ∧
      Chain l' (xs.take k ++ (l.brk, v) :: xs.drop k)) := by
  by_cases hi : i = 0
  · refine Or.inl ⟨hi, ?_⟩
    have h' : Chain l ([] ++ xs) := by simpa using h
    obtain ⟨l', e, c⟩ := insert_chain l [] xs v h' (fun _ => none) (fun l1 => l1.head) rfl (by simpa [alloc, store] using h.head)
    exact ⟨l', by simp only [pushAt, hi, if_true, e], by simpa using c⟩
  · refine Or.inr ?_
    cases hk : idxOf xs.length i with
    | none => exact Or.inl ⟨hi, rfl, by simp only [pushAt, hi, if_false, nodeAt_oob l xs h i hk]⟩
    | some k =>
      refine Or.inr ⟨hi, k, rfl, ?_⟩
      obtain ⟨hkl, en⟩ := nodeAt_node l xs h i k hk
      have hs := split_at xs k hkl
      have h' : Chain l (xs.take k ++ xs[k] :: xs.drop (k + 1)) := by rw [← hs]; exact h
      obtain ⟨_, hx, _⟩ := h'.split
      obtain ⟨l', e, c⟩ := insert_chain l (xs.take k) (xs[k] :: xs.drop (k + 1)) v h' (fun _ => lastAddr (xs.take k) none)
        (fun _ => some xs[k].1) rfl rfl
      refine ⟨l', ?_, ?_⟩
      · simp only [pushAt, hi, if_false, en, hx, e]
      · rw [List.drop_eq_getElem_cons hkl]; exact c

theorem popAt_chain (l : LL α) (xs : List (Nat × α)) (h : Chain l xs) (i : Int) :
    (idxOf xs.length i = none ∧ l.popAt i = (l, .index)) ∨
    (∃ k, idxOf xs.length i = some k ∧ ∃ l', l.popAt i = (l', .ok) ∧ Chain l' (xs.take k ++ xs.drop (k + 1))) := by
  cases hk : idxOf xs.length i with
  | none => exact Or.inl ⟨rfl, by simp only [popAt, nodeAt_oob l xs h i hk]⟩
  | some k =>
    refine Or.inr ⟨k, rfl, ?_⟩
    obtain ⟨hkl, en⟩ := nodeAt_node l xs h i k hk
    have h' : Chain l (xs.take k ++ xs[k] :: xs.drop (k + 1)) := by rw [← split_at xs k hkl]; exact h
    obtain ⟨l', e, c⟩ := dropNode_chain l _ _ _ h'
    exact ⟨l', by simp only [popAt, en, e], c⟩

/-! ### rem -/

theorem findFrom_seg [DecidableEq α] (l : LL α) (v : α) : ∀ (xs : List (Nat × α)) (p : Option Nat) (fuel : Nat),
    Seg l.mem p xs none → xs.length < fuel →
    (v ∉ vals xs ∧ l.findFrom v fuel (firstAddr xs none) = some none) ∨
    (∃ pre x post, xs = pre ++ x :: post ∧ x.2 = v ∧ v ∉ vals pre ∧
      l.findFrom v fuel (firstAddr xs none) = some (some x.1)) := by
  intro xs
  induction xs with
  | nil =>
    intro p fuel _ _
    exact Or.inl ⟨by simp [vals], by cases fuel <;> rfl⟩
  | cons x r ih =>
    intro p fuel h hf
    cases fuel with
    | zero => simp at hf
    | succ fuel =>
      simp only [firstAddr, findFrom, h.1]
      by_cases hv : x.2 = v
      · exact Or.inr ⟨[], x, r, rfl, hv, by simp [vals], by simp [hv]⟩
      · simp only [hv, if_false]
        rcases ih (some x.1) fuel h.2 (by simpa using hf) with ⟨h1, h2⟩ | ⟨pre, y, post, h1, h2, h3, h4⟩
        · refine Or.inl ⟨?_, h2⟩
          simp only [vals_cons, List.mem_cons, not_or]
          exact ⟨fun e => hv e.symm, h1⟩
        · refine Or.inr ⟨x :: pre, y, post, by simp [h1], h2, ?_, h4⟩
          simp only [vals_cons, List.mem_cons, not_or]
          exact ⟨fun e => hv e.symm, h3⟩

theorem rem_chain [DecidableEq α] (l : LL α) (xs : List (Nat × α)) (h : Chain l xs) (v : α) :
    (v ∉ vals xs ∧ l.rem v = (l, .value)) ∨
    (v ∈ vals xs ∧ ∃ l' xs', l.rem v = (l', .ok) ∧ Chain l' xs' ∧ vals xs' = (vals xs).erase v) := by
  rcases findFrom_seg l v xs none (l.brk + 1) h.seg (Nat.lt_succ_of_le h.room) with ⟨h1, h2⟩ | ⟨pre, x, post, h1, h2, h3, h4⟩
  · exact Or.inl ⟨h1, by simp only [rem, h.head, h2]⟩
  · subst h1
    refine Or.inr ⟨by simp [vals_append, vals_cons, h2], ?_⟩
    obtain ⟨l', e, c⟩ := dropNode_chain l pre post x h
    refine ⟨l', pre ++ post, by simp only [rem, h.head, h4, e], c, ?_⟩
    rw [vals_append, vals_append, vals_cons, List.erase_append_right _ h3, ← h2, List.erase_cons_head]

/-! ### set -/

theorem put_chain (l : LL α) (xs : List (Nat × α)) (h : Chain l xs) (i : Int) (v : α) :
    (idxOf xs.length i = none ∧ l.put i v = (l, .index)) ∨
    (∃ k, idxOf xs.length i = some k ∧ ∃ (hk : k < xs.length) (l' : LL α), l.put i v = (l', .ok) ∧
      Chain l' (xs.take k ++ (xs[k].1, v) :: xs.drop (k + 1))) := by
  cases hk : idxOf xs.length i with
  | none => exact Or.inl ⟨rfl, by simp only [put, nodeAt_oob l xs h i hk]⟩
  | some k =>
    refine Or.inr ⟨k, rfl, ?_⟩
    obtain ⟨hkl, en⟩ := nodeAt_node l xs h i k hk
    refine ⟨hkl, ?_⟩
    have hs := split_at xs k hkl
    have h' : Chain l (xs.take k ++ xs[k] :: xs.drop (k + 1)) := by rw [← hs]; exact h
    obtain ⟨sx, hx, sy, hh, ht, ndx, ndy, nx, ny, dis⟩ := h'.split
    have ha : addrs (xs.take k ++ (xs[k].1, v) :: xs.drop (k + 1)) = addrs (xs.take k ++ xs[k] :: xs.drop (k + 1)) := by
      simp only [addrs, List.map_append, List.map_cons]
    have hl : (xs.take k ++ (xs[k].1, v) :: xs.drop (k + 1)).length = (xs.take k ++ xs[k] :: xs.drop (k + 1)).length := by
      simp only [List.length_append, List.length_cons]
    refine ⟨_, by simp only [put, en, hx]; rfl, ?_, ?_, ?_, ?_, ?_, ?_, ?_⟩
    · rw [Seg_append]
      refine ⟨Seg_congr _ _ _ (fun c hc => ?_) sx, ?_, Seg_congr _ _ _ (fun c hc => ?_) sy⟩
      · have : c ≠ xs[k].1 := fun e => nx (e ▸ hc)
        simp [store, this]
      · simp [store]
      · have : c ≠ xs[k].1 := fun e => ny (e ▸ hc)
        simp [store, this]
    · simp only [store, hh, firstAddr_append]; rfl
    · simp only [store, ht, lastAddr_append_cons]
      cases xs.drop (k + 1) with
      | nil => rfl
      | cons y r => exact lastAddr_nonempty _ (by simp) _ _
    · rw [ha]; exact h'.nodup
    · intro a hmem; rw [ha] at hmem; exact h'.fresh a hmem
    · rw [hl]; exact h'.room
    · rw [hl]; exact h'.count

/-! ### concat, clear, resize -/

theorem concat_chain (ws : List α) : ∀ (l : LL α) (xs : List (Nat × α)), Chain l xs →
    ∃ l' xs', l.concat ws = (l', .ok) ∧ Chain l' xs' ∧ vals xs' = vals xs ++ ws := by
  induction ws with
  | nil => intro l xs h; exact ⟨l, xs, rfl, h, by simp⟩
  | cons w ws ih =>
    intro l xs h
    obtain ⟨l1, e1, c1⟩ := push_chain l xs h w
    obtain ⟨l2, xs2, e2, c2, v2⟩ := ih l1 _ c1
    exact ⟨l2, xs2, by simp only [concat, e1, e2], c2, by rw [v2, vals_append]; simp [vals]⟩

theorem clearLoop_seg : ∀ (xs : List (Nat × α)) (l : LL α) (p : Option Nat) (fuel : Nat), Seg l.mem p xs none →
    (addrs xs).Nodup → xs.length < fuel →
    ∃ l', l.clearLoop fuel (firstAddr xs none) = some l' ∧ l'.brk = l.brk := by
  intro xs
  induction xs with
  | nil => intro l p fuel _ _ _; exact ⟨l, by cases fuel <;> rfl, rfl⟩
  | cons x r ih =>
    intro l p fuel h hnd hf
    cases fuel with
    | zero => simp at hf
    | succ fuel =>
      have hr : Seg (l.free x.1).mem (some x.1) r none := by
        refine Seg_congr _ _ _ (fun c hc => ?_) h.2
        have : c ≠ x.1 := fun e => (List.nodup_cons.mp hnd).1 (e ▸ hc)
        simp [free, store, this]
      obtain ⟨l', e, b⟩ := ih (l.free x.1) (some x.1) fuel hr (List.nodup_cons.mp hnd).2 (by simpa using hf)
      exact ⟨l', by simp only [firstAddr_cons, clearLoop, h.1]; exact e, b⟩

theorem clear_chain (l : LL α) (xs : List (Nat × α)) (h : Chain l xs) : ∃ l', l.clear = (l', .ok) ∧ Chain l' [] := by
  obtain ⟨l1, e, b⟩ := clearLoop_seg xs l none (l.brk + 1) h.seg h.nodup (Nat.lt_succ_of_le h.room)
  refine ⟨{ l1 with head := none, tail := none, nitems := 0 }, by simp only [clear, h.head, e], trivial, rfl, rfl, ?_, ?_, ?_, rfl⟩
  · simp [addrs]
  · intro a ha; simp [addrs] at ha
  · simp

theorem shrink_chain : ∀ (k : Nat) (l : LL α) (xs : List (Nat × α)), Chain l xs → k ≤ xs.length →
    ∃ l', l.shrink k = (l', .ok) ∧ Chain l' (xs.take (xs.length - k)) := by
  intro k
  induction k with
  | zero => intro l xs h _; exact ⟨l, rfl, by simpa using h⟩
  | succ k ih =>
    intro l xs h hk
    have hne : xs ≠ [] := by intro e; subst e; simp at hk
    obtain ⟨ini, w, rfl⟩ := snoc_of_ne_nil xs hne
    obtain ⟨l1, e1, c1⟩ := dropNode_chain l ini [] w h
    rw [List.append_nil] at c1
    simp only [List.length_append, List.length_singleton] at hk
    obtain ⟨l2, e2, c2⟩ := ih l1 ini c1 (by omega)
    refine ⟨l2, by simp only [shrink, h.tail, lastAddr_snoc, e1, e2], ?_⟩
    have : (ini ++ [w]).length - (k + 1) = ini.length - k := by simp
    rw [this, List.take_append_of_le_length (by omega)]
    exact c2

theorem grow_chain (z : α) : ∀ (k : Nat) (l : LL α) (xs : List (Nat × α)), Chain l xs →
    ∃ l' xs', l.grow z k = (l', .ok) ∧ Chain l' xs' ∧ vals xs' = vals xs ++ List.replicate k z := by
  intro k
  induction k with
  | zero => intro l xs h; exact ⟨l, xs, rfl, h, by simp⟩
  | succ k ih =>
    intro l xs h
    obtain ⟨l1, e1, c1⟩ := push_chain l xs h z
    obtain ⟨l2, xs2, e2, c2, v2⟩ := ih l1 _ c1
    refine ⟨l2, xs2, by simp only [grow, e1, e2], c2, ?_⟩
    rw [v2, vals_append, List.replicate_succ]
    simp [vals]

theorem resize_chain (z : α) (l : LL α) (xs : List (Nat × α)) (h : Chain l xs) (n : Nat) :
    ∃ l' xs', l.resize z n = (l', .ok) ∧ Chain l' xs' ∧
      vals xs' = (vals xs).take n ++ List.replicate (n - xs.length) z := by
  by_cases hn : n = 0
  · obtain ⟨l', e, c⟩ := clear_chain l xs h
    exact ⟨l', [], by simp only [resize, hn, if_true, e], c, by simp [hn, vals]⟩
  · obtain ⟨l1, e1, c1⟩ := shrink_chain (l.nitems - n) l xs h (by rw [h.count]; omega)
    obtain ⟨l2, xs2, e2, c2, v2⟩ := grow_chain z (n - l1.nitems) l1 _ c1
    refine ⟨l2, xs2, by simp only [resize, hn, if_false, e1, e2], c2, ?_⟩
    rw [v2, vals_take, c1.count, h.count, List.length_take]
    by_cases hle : n ≤ xs.length
    · have a1 : xs.length - (xs.length - n) = n := by omega
      have a2 : n - min n xs.length = 0 := by omega
      have a3 : n - xs.length = 0 := by omega
      rw [a1, a2, a3]
    · have a1 : xs.length - (xs.length - n) = xs.length := by omega
      have a2 : min xs.length xs.length = xs.length := by omega
      rw [a1, a2, List.take_of_length_le (by rw [vals_length]; omega), List.take_of_length_le (by rw [vals_length]; omega)]

/-! ### one mutation, any history -/

/-- **one mutation**: from a chained list, the model of List.c never leaves the object; the outcome and the new
    sequence of elements are those of `listSpec`, the result is chained again, and a mutation that raises changes
    nothing -/
theorem step_chain [DecidableEq α] (z : α) (l : LL α) (xs : List (Nat × α)) (h : Chain l xs) (op : SOp α) :
    ∃ l' xs', LL.step z l op = (l', (listSpec z (vals xs) op).2) ∧ Chain l' xs' ∧
      vals xs' = (listSpec z (vals xs) op).1 ∧ ((listSpec z (vals xs) op).2 ≠ .ok → l' = l) := by
  cases op with
  | push v =>
    obtain ⟨l', e, c⟩ := push_chain l xs h v
    exact ⟨l', _, e, c, by simp [listSpec, vals], fun hne => absurd rfl hne⟩
  | pop =>
    simp only [step, listSpec, vals_length]
    rcases pop_chain l xs h with ⟨e, p⟩ | ⟨e, l', p, c⟩
    · subst e; exact ⟨l, [], by simpa using p, h, rfl, fun _ => rfl⟩
    · have hl : xs.length ≠ 0 := fun c => e (List.length_eq_zero_iff.mp c)
      simp only [hl, if_false]
      exact ⟨l', _, p, c, by rw [vals_take], fun hne => absurd rfl hne⟩
  | pushAt v i =>
    simp only [step, listSpec, vals_length]
    rcases pushAt_chain l xs h v i with ⟨hi, l', e, c⟩ | ⟨hi, hk, e⟩ | ⟨hi, k, hk, l', e, c⟩
    · simp only [hi, if_true]
      exact ⟨l', _, by simpa [hi] using e, c, rfl, fun hne => absurd rfl hne⟩
    · simp only [hi, if_false, hk]
      exact ⟨l, xs, e, h, rfl, fun _ => rfl⟩
    · simp only [hi, if_false, hk]
      exact ⟨l', _, e, c, by rw [vals_append, vals_cons, vals_take, vals_drop], fun hne => absurd rfl hne⟩
  | popAt i =>
    simp only [step, listSpec, vals_length]
    rcases popAt_chain l xs h i with ⟨hk, e⟩ | ⟨k, hk, l', e, c⟩
    · simp only [hk]; exact ⟨l, xs, e, h, rfl, fun _ => rfl⟩
    · simp only [hk]
      exact ⟨l', _, e, c, by rw [vals_append, vals_take, vals_drop], fun hne => absurd rfl hne⟩
  | rem v =>
    simp only [step, listSpec]
    rcases rem_chain l xs h v with ⟨hv, e⟩ | ⟨hv, l', xs', e, c, hv'⟩
    · simp only [hv, if_false]; exact ⟨l, xs, e, h, rfl, fun _ => rfl⟩
    · simp only [hv, if_true]; exact ⟨l', xs', e, c, hv', fun hne => absurd rfl hne⟩
  | put i v =>
    simp only [step, listSpec, vals_length]
    rcases put_chain l xs h i v with ⟨hk, e⟩ | ⟨k, hk, hkl, l', e, c⟩
    · simp only [hk]; exact ⟨l, xs, e, h, rfl, fun _ => rfl⟩
    · simp only [hk]
      exact ⟨l', _, e, c, by rw [vals_append, vals_cons, vals_take, vals_drop], fun hne => absurd rfl hne⟩
  | concat ws =>
    obtain ⟨l', xs', e, c, hv⟩ := concat_chain ws l xs h
    exact ⟨l', xs', e, c, hv, fun hne => absurd rfl hne⟩
  | resize n =>
    obtain ⟨l', xs', e, c, hv⟩ := resize_chain z l xs h n
    exact ⟨l', xs', e, c, by simpa [listSpec, vals_length] using hv, fun hne => absurd rfl hne⟩

/-- the abstract run of a history: the sequence of elements after it and the outcome of every mutation -/
def specRun {α : Type} [DecidableEq α] (z : α) : List α → List (SOp α) → List α × List MOut
  | vs, [] => (vs, [])
  | vs, op :: ops =>
    let (vs1, o) := listSpec z vs op
    let (vs2, os) := specRun z vs1 ops
    (vs2, o :: os)

theorem listSpec_ne_undef [DecidableEq α] (z : α) (vs : List α) (op : SOp α) : (listSpec z vs op).2 ≠ .undef := by
  cases op <;> simp only [listSpec] <;> (repeat' split) <;> simp

/-- **every history**: from a chained list, after any sequence of mutations the list is chained again, the model never
    leaves the object, and elements and outcomes are those of the abstract run -/
theorem run_chain [DecidableEq α] (z : α) : ∀ (ops : List (SOp α)) (l : LL α) (xs : List (Nat × α)), Chain l xs →
    ∃ l' xs', LL.run z l ops = (l', (specRun z (vals xs) ops).2) ∧ Chain l' xs' ∧
      vals xs' = (specRun z (vals xs) ops).1 := by
  intro ops
  induction ops with
  | nil => intro l xs h; exact ⟨l, xs, rfl, h, rfl⟩
  | cons op ops ih =>
    intro l xs h
    obtain ⟨l1, xs1, e1, c1, v1, _⟩ := step_chain z l xs h op
    obtain ⟨l2, xs2, e2, c2, v2⟩ := ih l1 xs1 c1
    refine ⟨l2, xs2, ?_, c2, ?_⟩
    · have hne := listSpec_ne_undef z (vals xs) op
      simp only [run, specRun]
      rw [e1]
      generalize hso : (listSpec z (vals xs) op) = so at hne e1
      obtain ⟨vs1, o⟩ := so
      cases o <;> simp_all
    · simp only [specRun]; rw [v2, v1]

theorem specRun_no_undef [DecidableEq α] (z : α) : ∀ (ops : List (SOp α)) (vs : List α),
    (specRun z vs ops).2.contains .undef = false := by
  intro ops
  induction ops with
  | nil => intro vs; rfl
  | cons op ops ih =>
    intro vs
    have h1 := listSpec_ne_undef z vs op
    have h2 := ih (listSpec z vs op).1
    simp only [specRun, List.contains_cons, Bool.or_eq_false_iff]
    exact ⟨by simpa using fun e => h1 e.symm, h2⟩

theorem chain_empty : Chain (empty : LL α) [] :=
  ⟨trivial, rfl, rfl, by simp [addrs], fun a ha => by simp [addrs] at ha, by simp, rfl⟩

/-- `new(List, T, v…)` -/
theorem new_chain (vs : List α) : ∃ l xs, LL.new vs = (l, .ok) ∧ Chain l xs ∧ vals xs = vs := by
  obtain ⟨l, xs, e, c, v⟩ := concat_chain vs empty [] chain_empty
  exact ⟨l, xs, e, c, by simpa [vals] using v⟩

end LL
end Cello.Iter
