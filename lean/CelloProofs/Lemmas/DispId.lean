/-
  Helper lemmas for C08, identity level (Cello/DispatchId.lean): type objects named by ids, created at addresses the
  allocator chooses (fresh or recycled), used through lookups and dispatching calls; the step-by-step simulation of
  `AHeap.step` by the address-free spec `specIds`.
-/
import CelloProofs.Lemmas.DispHeap
import Cello.DispatchId

namespace Cello.Dispatch

/-! ### list-level facts about `World` -/

theorem mem_of_get {w : World} {a : Nat} {t : TypeRec} (h : w.get a = some t) : (a, t) ∈ w.types := by
  unfold World.get at h
  simp only [Option.map_eq_some_iff] at h
  obtain ⟨p, hp, rfl⟩ := h
  have h1 := List.find?_some hp
  have h2 := List.mem_of_find?_eq_some hp
  simp only [decide_eq_true_eq] at h1
  rw [← h1]; exact h2

theorem mem_put {w : World} {tid : Nat} {t : TypeRec} {p : Nat × TypeRec} (h : p ∈ (w.put tid t).types) :
    p ∈ w.types ∨ p = (tid, t) := by
  unfold World.put at h
  split at h
  · simp only [List.mem_map] at h
    obtain ⟨q, hq, rfl⟩ := h
    by_cases hqt : q.1 = tid
    · right; simp [hqt]
    · left; simp [hqt, hq]
  · simp only [List.mem_append, List.mem_singleton] at h
    exact h

/-- no `cls` word of any record holds the address of a run-time type object: only library classes were ever looked up -/
def LibOnly (h : Heap) : Prop := ∀ p ∈ h.w.types, ∀ c ∈ memosOf p.2, c.id = 0

theorem nameWriteSafe_of_libOnly {h : Heap} (hl : LibOnly h) (addr : Nat) (name : String) :
    h.nameWriteSafe addr name = true := by
  simp only [Heap.nameWriteSafe, List.all_eq_true, Bool.or_eq_true, decide_eq_true_eq]
  intro p hp c hc
  left
  rw [hl p hp c hc]; omega

/-! ### the world after a lookup -/

theorem typeMethodAtW_fst {w : World} {a : Nat} {t : TypeRec} (hget : w.get a = some t) (cls : Cls) (k : Nat) :
    (typeMethodAtW w (.typeObj a) cls k).1 = w.put a (instanceOf w.slots t cls).1 := by
  simp only [typeMethodAtW, typeInstanceW_typeObj hget]
  rcases instanceOf w.slots t cls with ⟨t1, o⟩
  cases o with
  | ok r =>
    cases r with
    | none => rfl
    | some inst => simp only; cases memberAt inst k with
      | ok b => cases b <;> rfl
      | raised e => rfl
      | ub => rfl
  | raised e => rfl
  | ub => rfl

theorem typeImplementsMethodAtW_fst {w : World} {a : Nat} {t : TypeRec} (hget : w.get a = some t) (cls : Cls) (k : Nat) :
    (typeImplementsMethodAtW w (.typeObj a) cls k).1 = (w.put a { t with hdr := true }).put a (scan t cls).1 := by
  simp only [typeImplementsMethodAtW, typeScanW_typeObj hget]
  cases (scan t cls).2 <;> rfl

/-- the record a lookup writes back -/
def lookRec (slots : List (Nat × Cls)) (t : TypeRec) (l : Look) (cls : Cls) : TypeRec :=
  match l with
  | .inst => (instanceOf slots t cls).1
  | .meth _ => (instanceOf slots t cls).1
  | .impl => (scan t cls).1
  | .implMeth _ => (scan t cls).1

theorem lookRec_memos (slots : List (Nat × Cls)) (t : TypeRec) (l : Look) (cls : Cls) :
    ∀ c ∈ memosOf (lookRec slots t l cls), c ∈ memosOf t ∨ c = cls := by
  cases l with
  | inst => exact instanceOf_memos slots t cls
  | meth k => exact instanceOf_memos slots t cls
  | impl => exact scan_memos t cls
  | implMeth k => exact scan_memos t cls

/-- every record of the world after a lookup is a record of the world before, the looked-up record with its header word
    set, or the record the lookup wrote back -/
theorem lookW_types {w : World} {a : Nat} {t : TypeRec} (hget : w.get a = some t) (l : Look) (cls : Cls) :
    ∀ p ∈ (lookW w a l cls).1.types, p ∈ w.types ∨ p = (a, { t with hdr := true }) ∨ p = (a, lookRec w.slots t l cls) := by
  intro p hp
  have two : p ∈ ((w.put a { t with hdr := true }).put a (scan t cls).1).types →
      p ∈ w.types ∨ p = (a, { t with hdr := true }) ∨ p = (a, (scan t cls).1) := by
    intro h
    rcases mem_put h with h1 | h1
    · rcases mem_put h1 with h2 | h2
      · exact Or.inl h2
      · exact Or.inr (Or.inl h2)
    · exact Or.inr (Or.inr h1)
  cases l with
  | inst =>
    simp only [lookW, typeInstanceW_typeObj hget] at hp
    rcases mem_put hp with h | h
    · exact Or.inl h
    · exact Or.inr (Or.inr h)
  | impl =>
    simp only [lookW, typeScanW_typeObj hget] at hp
    exact two hp
  | meth k =>
    simp only [lookW, typeMethodAtW_fst hget] at hp
    rcases mem_put hp with h | h
    · exact Or.inl h
    · exact Or.inr (Or.inr h)
  | implMeth k =>
    simp only [lookW, typeImplementsMethodAtW_fst hget] at hp
    exact two hp

theorem libOnly_look {h : Heap} (hl : LibOnly h) {a : Nat} {t : TypeRec} (hget : h.w.get a = some t) (l : Look) (cls : Cls)
    (hc : cls.id = 0) : LibOnly { h with w := (lookW h.w a l cls).1 } := by
  intro p hp c hcm
  have ht := hl _ (mem_of_get hget)
  rcases lookW_types hget l cls p hp with h1 | h1 | h1
  · exact hl p h1 c hcm
  · subst h1; exact ht c hcm
  · subst h1
    rcases lookRec_memos h.w.slots t l cls c hcm with h2 | h2
    · exact ht c h2
    · rw [h2]; exact hc

/-! ### calls are lookups followed by the invocation -/

/-- the lookup a use performs -/
def Way.asLook : Way → Look
  | .look l => l
  | .call false k => .meth k
  | .call true _ => .inst
  | .typeCall k => .meth k

theorem useW_fst (w : World) (a : Nat) (way : Way) (cls : Cls) : (useW w a way cls).1 = (lookW w a way.asLook cls).1 := by
  cases way with
  | look l => rfl
  | call soft k => cases soft <;> rfl
  | typeCall k => rfl

theorem specCall_hard (sent : Bool) (D : String → Option Inst) (cls : Cls) (k : Nat) (r : Outcome Inst)
    (h : Obs.meth r = specObs sent D (.methodAt cls k)) : callOfMeth k r = specCall false sent D cls k := by
  simp only [specObs] at h
  unfold specCall
  cases hD : D cls.name with
  | none =>
    simp only [hD, Obs.meth.injEq] at h
    subst h; rfl
  | some inst =>
    simp only [hD] at h
    simp only
    cases hm : memberAt inst k with
    | ok b =>
      cases b with
      | true => simp only [hm, Obs.meth.injEq] at h; subst h; rfl
      | false => simp only [hm, Obs.meth.injEq] at h; subst h; rfl
    | raised e => simp only [hm, Obs.meth.injEq] at h; subst h; rfl
    | ub => simp only [hm, Obs.meth.injEq] at h; subst h; rfl

theorem specCall_soft (sent : Bool) (D : String → Option Inst) (cls : Cls) (k : Nat) :
    callOfInst k (.ok (D cls.name)) = specCall true sent D cls k := by
  unfold specCall callOfInst
  cases hD : D cls.name with
  | none => rfl
  | some inst =>
    simp only
    cases memberAt inst k with
    | ok b => cases b <;> rfl
    | raised e => rfl
    | ub => rfl

/-- **one use of a type object answers from its declaration**: any of the four lookups, a dispatching call on an object of
    the type (hard or soft), `type_method` on the type object -/
theorem useW_spec {n : Nat} {w : World} (hs : SlotsOK w.slots n) {a : Nat} {t : TypeRec} (hget : w.get a = some t)
    {D : String → Option Inst} (hinv : Inv D w.slots n t) (way : Way) (cls : Cls) :
    (useW w a way cls).2 = specUse t.sentinel D way cls := by
  have key : ∀ l, (lookW w a l cls).2 = specObs t.sentinel D (l.op cls) := by
    intro l
    rw [(lookW_spec hs hget l cls).1, (applyOp_spec hs hinv (l.op cls)).1]
  cases way with
  | look l => simp only [useW, specUse, key l]
  | call soft k =>
    cases soft with
    | false =>
      have hk := key (.meth k)
      simp only [lookW, Look.op] at hk
      simp only [useW, specUse, callMethodW, methodAtW, typeOfW]
      rw [specCall_hard _ _ _ _ _ hk]
    | true =>
      have hk := key .inst
      simp only [lookW, Look.op, specObs, Obs.inst.injEq] at hk
      simp only [useW, specUse, callSoftW, instanceW, typeOfW]
      rw [hk, specCall_soft]
  | typeCall k =>
    have hk := key (.meth k)
    simp only [lookW, Look.op] at hk
    simp only [useW, specUse, callTypeMethodW]
    rw [specCall_hard _ _ _ _ _ hk]

/-! ### the invariant of a heap of type objects named by ids -/

structure AOK (n : Nat) (x : AHeap) : Prop where
  hok : HeapOK n x.h
  lib : LibOnly x.h
  live : ∀ id a, x.addrOf id = some a → ∃ t, x.h.w.get a = some t
  inj : ∀ id id' a, x.addrOf id = some a → x.addrOf id' = some a → id = id'

theorem decls_of_get {x : AHeap} {id a : Nat} {t : TypeRec} (ha : x.addrOf id = some a) (hget : x.h.w.get a = some t) :
    x.decls id = some (t.sentinel, declared t.entries) := by
  simp [AHeap.decls, ha, Heap.abs, hget]

theorem decls_none {x : AHeap} {id : Nat} (ha : x.addrOf id = none) : x.decls id = none := by
  simp [AHeap.decls, ha]

theorem get_delete (h : Heap) (a y : Nat) : (h.delete a).w.get y = if y = a then none else h.w.get y := by
  simp only [Heap.delete, World.get]
  exact get_filter h.w.types a y

theorem addrOf_cons (x : AHeap) (id addr i : Nat) (g : List (Nat × Nat)) (h : Heap) :
    ({ h := h, loc := (id, addr) :: x.loc, gen := g } : AHeap).addrOf i = if i = id then some addr else x.addrOf i := by
  unfold AHeap.addrOf
  by_cases hi : i = id
  · subst hi; simp
  · have hi' : ¬ id = i := fun e => hi e.symm
    simp [hi, hi']

theorem addrOf_filter (x : AHeap) (id i : Nat) (h : Heap) :
    ({ x with h := h, loc := x.loc.filter (fun p => p.1 ≠ id) } : AHeap).addrOf i = if i = id then none else x.addrOf i := by
  unfold AHeap.addrOf
  simp only
  rw [find_filter_ne]
  split <;> rfl

/-- a construction at an address where nothing lives, in a heap where no `cls` word holds a run-time address -/
theorem construct_fresh {L : Layout} {h : Heap} (hl : LibOnly h) {addr : Nat} (hget : h.w.get addr = none) (name : String)
    {es : List (String × Inst)} (hbig : ¬ es.length > L.maxInstances) :
    h.construct L addr name es =
      ({ w := h.w.put addr (mkType L.cacheNum true es false), names := (addr, name) :: h.names.filter (fun p => p.1 ≠ addr) }, .ok ()) := by
  simp only [Heap.construct, hbig, if_false, hget, retarget_safe (nameWriteSafe_of_libOnly hl addr name)]

theorem construct_big {L : Layout} (h : Heap) (addr : Nat) (name : String) {es : List (String × Inst)}
    (hbig : es.length > L.maxInstances) : h.construct L addr name es = (h, .raised .OutOfMemoryError) := by
  simp only [Heap.construct, hbig, if_true]

/-- **one operation of a history over ids**: it answers what the address-free spec says, the spec state after it describes
    the heap after it, the invariant survives -/
theorem AHeap.step_spec {L : Layout} {x : AHeap} (hs : SlotsOK x.h.w.slots L.cacheNum) (hok : AOK L.cacheNum x) (op : AOp)
    (hal : ∀ id addr name es, op = .create id addr name es → x.h.w.get addr = none) :
    (x.step L op).2 = op.erase.obs L.maxInstances x.decls ∧
    (x.step L op).1.decls = op.erase.next L.maxInstances x.decls ∧
    AOK L.cacheNum (x.step L op).1 ∧ (x.step L op).1.h.w.slots = x.h.w.slots := by
  cases op with
  | use id way c =>
    simp only [AHeap.step, AOp.erase, EOp.obs, EOp.next]
    cases ha : x.addrOf id with
    | none => simp only [decls_none ha]; exact ⟨trivial, trivial, hok, trivial⟩
    | some a =>
      obtain ⟨t, hget⟩ := hok.live id a ha
      simp only [hget, decls_of_get ha hget]
      have hinv := hok.hok.inv a t hget
      have sp := lookW_spec hs hget way.asLook ⟨0, c⟩
      have hst : WStep L.cacheNum ⟨0, c⟩ x.h.w (useW x.h.w a way ⟨0, c⟩).1 := by rw [useW_fst]; exact sp.2.1
      refine ⟨useW_spec hs hget hinv way ⟨0, c⟩, ?_, ⟨hok.hok.wstep hst (Or.inl rfl), ?_, ?_, hok.inj⟩, hst.1⟩
      · funext i
        simp only [AHeap.decls]
        show (x.addrOf i).bind _ = (x.addrOf i).bind _
        cases x.addrOf i with
        | none => rfl
        | some b => exact abs_wstep hok.hok hst b
      · have := libOnly_look hok.lib hget way.asLook ⟨0, c⟩ rfl
        rw [← useW_fst] at this; exact this
      · intro i b hb
        obtain ⟨t', ht'⟩ := hok.live i b hb
        obtain ⟨t'', ht'', _⟩ := (hst.2.2 b).2 t' ht'
        exact ⟨t'', ht''⟩
  | reset id =>
    simp only [AHeap.step, AOp.erase, EOp.obs, EOp.next]
    cases ha : x.addrOf id with
    | none => simp only [decls_none ha]; exact ⟨rfl, trivial, hok, trivial⟩
    | some a =>
      obtain ⟨t, hget⟩ := hok.live id a ha
      simp only [hget, decls_of_get ha hget]
      have hst : WStep L.cacheNum castClsLib x.h.w (x.h.w.put a (reset t)) := WStep.put hget (reset_recStep _ _ _ t)
      refine ⟨rfl, ?_, ⟨hok.hok.wstep hst (Or.inl rfl), ?_, ?_, hok.inj⟩, hst.1⟩
      · funext i
        simp only [AHeap.decls]
        show (x.addrOf i).bind _ = (x.addrOf i).bind _
        cases x.addrOf i with
        | none => rfl
        | some b => exact abs_wstep hok.hok hst b
      · intro p hp c hc
        rcases mem_put hp with h1 | h1
        · exact hok.lib p h1 c hc
        · subst h1
          rcases (reset_recStep x.h.w.slots L.cacheNum castClsLib t).2.2 c hc with h2 | h2
          · exact hok.lib _ (mem_of_get hget) c h2
          · rw [h2]; rfl
      · intro i b hb
        obtain ⟨t', ht'⟩ := hok.live i b hb
        obtain ⟨t'', ht'', _⟩ := (hst.2.2 b).2 t' ht'
        exact ⟨t'', ht''⟩
  | create id addr name es =>
    simp only [AHeap.step, AOp.erase, EOp.obs, EOp.next]
    cases ha : x.addrOf id with
    | some a =>
      obtain ⟨t, hget⟩ := hok.live id a ha
      simp only [Option.isSome_some, Bool.true_or, if_true, decls_of_get ha hget]
      exact ⟨trivial, trivial, hok, trivial⟩
    | none =>
      have hga : x.h.w.get addr = none := hal id addr name es rfl
      simp only [hga, Option.isSome_none, Bool.or_false, decls_none ha, Bool.false_eq_true, if_false, Bool.false_or]
      by_cases hbig : es.length > L.maxInstances
      · simp only [construct_big x.h addr name hbig, hbig, if_true, decide_true]
        exact ⟨trivial, trivial, hok, trivial⟩
      · rw [construct_fresh hok.lib hga name hbig]
        simp only [hbig, if_false, decide_false, Bool.false_eq_true]
        -- the heap invariant: through the address-level step lemma
        have hsafe : (HOp.construct addr name es).safeIn L x.h = true := by
          simp only [HOp.safeIn, nameWriteSafe_of_libOnly hok.lib addr name, Bool.or_true]
        obtain ⟨_, _, hok', _, _, _⟩ := Heap.step_spec hs hok.hok (absRel_self x.h) (.construct addr name es) hsafe []
        have hstep : (x.h.step L (.construct addr name es)).1 =
            { w := x.h.w.put addr (mkType L.cacheNum true es false), names := (addr, name) :: x.h.names.filter (fun p => p.1 ≠ addr) } := by
          simp only [Heap.step, construct_fresh hok.lib hga name hbig]
        rw [hstep] at hok'
        have hgetn : ∀ y, (x.h.w.put addr (mkType L.cacheNum true es false)).get y =
            if y = addr then some (mkType L.cacheNum true es false) else x.h.w.get y := by
          intro y
          by_cases hy : y = addr
          · subst hy; simp [get_put_same]
          · simp [hy, get_put_other _ _ _ _ hy]
        refine ⟨trivial, ?_, ⟨hok', ?_, ?_, ?_⟩, (put_slots _ _ _).1⟩
        · funext i
          simp only [AHeap.decls, addrOf_cons]
          by_cases hi : i = id
          · subst hi
            simp only [if_true, Option.bind_some, Heap.abs, hgetn, Option.map_some, declOf_mk]
            rfl
          · simp only [hi, if_false]
            cases hb : x.addrOf i with
            | none => rfl
            | some b =>
              obtain ⟨t', ht'⟩ := hok.live i b hb
              have hne : b ≠ addr := by intro e; rw [e, hga] at ht'; cases ht'
              simp only [Option.bind_some, Heap.abs, hgetn, hne, if_false]
        · intro p hp c hc
          rcases mem_put hp with h1 | h1
          · exact hok.lib p h1 c hc
          · subst h1; rw [memosOf_mkType] at hc; cases hc
        · intro i b hb
          rw [addrOf_cons] at hb
          simp only [hgetn]
          by_cases hi : i = id
          · simp only [hi, if_true, Option.some.injEq] at hb
            subst hb; exact ⟨mkType L.cacheNum true es false, by simp⟩
          · simp only [hi, if_false] at hb
            obtain ⟨t', ht'⟩ := hok.live i b hb
            have hne : b ≠ addr := by intro e; rw [e, hga] at ht'; cases ht'
            exact ⟨t', by simp [hne, ht']⟩
        · intro i i' b hb hb'
          rw [addrOf_cons] at hb hb'
          by_cases hi : i = id <;> by_cases hi' : i' = id
          · rw [hi, hi']
          · simp only [hi, if_true, Option.some.injEq] at hb
            simp only [hi', if_false] at hb'
            obtain ⟨t', ht'⟩ := hok.live i' b hb'
            rw [← hb, hga] at ht'; cases ht'
          · simp only [hi', if_true, Option.some.injEq] at hb'
            simp only [hi, if_false] at hb
            obtain ⟨t', ht'⟩ := hok.live i b hb
            rw [← hb', hga] at ht'; cases ht'
          · simp only [hi, if_false] at hb
            simp only [hi', if_false] at hb'
            exact hok.inj i i' b hb hb'
  | delete id =>
    simp only [AHeap.step, AOp.erase, EOp.obs, EOp.next]
    cases ha : x.addrOf id with
    | none => simp only [decls_none ha]; exact ⟨rfl, by funext i; by_cases hi : i = id <;> simp [hi, decls_none ha], hok, trivial⟩
    | some a =>
      obtain ⟨t, hget⟩ := hok.live id a ha
      simp only [decls_of_get ha hget]
      obtain ⟨_, _, hok', _, _, _⟩ := Heap.step_spec hs hok.hok (absRel_self x.h) (.delete a) rfl []
      have hstep : (x.h.step L (.delete a)).1 = x.h.delete a := rfl
      rw [hstep] at hok'
      refine ⟨rfl, ?_, ⟨hok', ?_, ?_, ?_⟩, rfl⟩
      · funext i
        simp only [AHeap.decls, addrOf_filter]
        by_cases hi : i = id
        · simp [hi]
        · simp only [hi, if_false]
          cases hb : x.addrOf i with
          | none => rfl
          | some b =>
            have hne : b ≠ a := by intro e; exact hi (hok.inj i id a (e ▸ hb) ha)
            simp only [Option.bind_some, Heap.abs, get_delete, hne, if_false]
      · intro p hp c hc
        simp only [Heap.delete, List.mem_filter] at hp
        exact hok.lib p hp.1 c hc
      · intro i b hb
        rw [addrOf_filter] at hb
        by_cases hi : i = id
        · simp [hi] at hb
        · simp only [hi, if_false] at hb
          obtain ⟨t', ht'⟩ := hok.live i b hb
          have hne : b ≠ a := by intro e; exact hi (hok.inj i id a (e ▸ hb) ha)
          exact ⟨t', by simp [get_delete, hne, ht']⟩
      · intro i i' b hb hb'
        rw [addrOf_filter] at hb hb'
        by_cases hi : i = id
        · simp [hi] at hb
        · by_cases hi' : i' = id
          · simp [hi'] at hb'
          · simp only [hi, if_false] at hb
            simp only [hi', if_false] at hb'
            exact hok.inj i i' b hb hb'

theorem AHeap.allocOK_cons (L : Layout) (x : AHeap) (op : AOp) (ops : List AOp) :
    AHeap.allocOK L x (op :: ops) =
      ((match op with | .create _ addr _ _ => (x.h.w.get addr).isNone | _ => true) && AHeap.allocOK L (x.step L op).1 ops) := rfl

/-- **histories over type objects named by ids** -/
theorem AHeap.run_spec {L : Layout} : ∀ (ops : List AOp) (x : AHeap), SlotsOK x.h.w.slots L.cacheNum → AOK L.cacheNum x →
    AHeap.allocOK L x ops = true →
      (AHeap.run L x ops).2 = specIds L.maxInstances x.decls (ops.map AOp.erase) ∧ AOK L.cacheNum (AHeap.run L x ops).1
  | [], _, _, hok, _ => ⟨rfl, hok⟩
  | op :: ops, x, hs, hok, hal => by
    rw [AHeap.allocOK_cons, Bool.and_eq_true] at hal
    have hal1 : ∀ id addr name es, op = .create id addr name es → x.h.w.get addr = none := by
      intro id addr name es e
      have := hal.1
      rw [e] at this
      simpa using this
    obtain ⟨hobs, hnext, hok', hsl⟩ := AHeap.step_spec hs hok op hal1
    have hs' : SlotsOK (x.step L op).1.h.w.slots L.cacheNum := by rw [hsl]; exact hs
    have ih := AHeap.run_spec ops (x.step L op).1 hs' hok' hal.2
    simp only [AHeap.run, List.map_cons, specIds]
    rw [hobs, ih.1, hnext]
    exact ⟨rfl, ih.2⟩

/-- the executable invariant is the invariant of the theorems -/
theorem aok_of_okb {n : Nat} {x : AHeap} (hb : x.okb n = true) : AOK n x := by
  simp only [AHeap.okb, Bool.and_eq_true, List.all_eq_true, beq_iff_eq] at hb
  obtain ⟨⟨⟨⟨h1, h2⟩, h3⟩, h4⟩, h5⟩ := hb
  have hmem : ∀ id a, x.addrOf id = some a → (id, a) ∈ x.loc := by
    intro id a ha
    unfold AHeap.addrOf at ha
    simp only [Option.map_eq_some_iff] at ha
    obtain ⟨p, hp, rfl⟩ := ha
    have e1 := List.find?_some hp
    simp only [decide_eq_true_eq] at e1
    rw [← e1]; exact List.mem_of_find?_eq_some hp
  refine ⟨heapOK_of_okb h1, fun p hp c hc => h2 p hp c hc, ?_, ?_⟩
  · intro id a ha
    have := h3 _ (hmem id a ha)
    simp only at this
    cases hg : x.h.w.get a with
    | none => rw [hg] at this; cases this
    | some t => exact ⟨t, rfl⟩
  · intro id id' a ha ha'
    have m1 := hmem id a ha
    have m2 := hmem id' a ha'
    have hlen := h5 a (List.mem_map.mpr ⟨(id, a), m1, rfl⟩)
    -- both pairs survive the filter on the address; the filtered list has one element
    have f1 : (id, a) ∈ x.loc.filter (fun p => p.2 = a) := List.mem_filter.mpr ⟨m1, by simp⟩
    have f2 : (id', a) ∈ x.loc.filter (fun p => p.2 = a) := List.mem_filter.mpr ⟨m2, by simp⟩
    cases hl : x.loc.filter (fun p => p.2 = a) with
    | nil => rw [hl] at f1; cases f1
    | cons q rest =>
      rw [hl] at hlen f1 f2
      cases rest with
      | nil =>
        simp only [List.mem_singleton] at f1 f2
        have := f1.trans f2.symm
        exact (Prod.mk.inj this).1
      | cons q' rest' => simp at hlen

end Cello.Dispatch
