/-
  Lemmas/RBStore.lean — histories over several trees: every step of the model (`step`) on a store of valid trees is
  defined (no NULL dereference), gives the observation of the specification (`Spec.step`) on the abstracted store, and
  leaves a store of valid trees.
-/
import CelloProofs.Lemmas.RBValid

namespace Cello.RB
open Std
variable {α β : Type} {cmp : α → α → Ordering}

/-- the abstraction of a store: every tree becomes its in-order sequence -/
def absStore (st : Store (Tree α β)) : Store (List (α × β)) := st.map (fun e => (e.1, e.2.abs))

/-- the sizes of the key and value types of every tree -/
def sizeStore (st : Store (Tree α β)) : Store (Nat × Nat) := st.map (fun e => (e.1, e.2.sizes))

/-! ### typing of histories: `set` and `new` are given keys / values of the tree's key / value types -/

/-- the sizes of the types of every tree as the history fixes them: given at `new`, taken over by `assign` / `copy` -/
def tyStep (env : Store (Nat × Nat)) : Op α β → Store (Nat × Nat)
  | .new t ks vs _ => env.put t (ks, vs)
  | .set t _ _ => match env.get? t with | none => env | some z => env.put t z
  | .rem t _ => match env.get? t with | none => env | some z => env.put t z
  | .resize t _ => match env.get? t with | none => env | some z => env.put t z
  | .assign t s => match env.get? t, env.get? s with | some _, some z => env.put t z | _, _ => env
  | .copy t s => match env.get? s with | none => env | some z => env.put t z
  | .del t => match env.get? t with | none => env | some _ => env.erase t
  | _ => env

/-- the keys and values an operation stores have the sizes of the tree's key and value types -/
def Op.typed [Packed α] [Packed β] (env : Store (Nat × Nat)) : Op α β → Prop
  | .new _ ks vs init => ∀ e ∈ init, Fits (ks, vs) e
  | .set t k v => ∀ z, env.get? t = some z → Fits z (k, v)
  | _ => True

/-- a well-typed history (what `cast(key, m->ktype)` / `cast(val, m->vtype)` enforce in `Tree_Set`) -/
def WellTyped [Packed α] [Packed β] : Store (Nat × Nat) → List (Op α β) → Prop
  | _, [] => True
  | env, op :: ops => op.typed env ∧ WellTyped (tyStep env op) ops

section maps
variable {γ δ : Type} (f : γ → δ)

theorem get?_map (st : Store γ) (t : Nat) :
    Store.get? (st.map (fun e => (e.1, f e.2))) t = (st.get? t).map f := by
  simp [Store.get?, List.find?_map, Function.comp_def]

theorem erase_map (st : Store γ) (t : Nat) :
    Store.erase (st.map (fun e => (e.1, f e.2))) t = (st.erase t).map (fun e => (e.1, f e.2)) := by
  simp [Store.erase, List.filter_map, Function.comp_def]

theorem put_map (st : Store γ) (t : Nat) (x : γ) :
    Store.put (st.map (fun e => (e.1, f e.2))) t (f x) = (st.put t x).map (fun e => (e.1, f e.2)) := by
  simp only [Store.put, erase_map]; rfl

end maps

theorem get?_abs (st : Store (Tree α β)) (t : Nat) : (absStore st).get? t = (st.get? t).map Tree.abs :=
  get?_map Tree.abs st t

theorem erase_abs (st : Store (Tree α β)) (t : Nat) : absStore (st.erase t) = (absStore st).erase t :=
  (erase_map Tree.abs st t).symm

theorem put_abs (st : Store (Tree α β)) (t : Nat) (m : Tree α β) :
    absStore (st.put t m) = (absStore st).put t m.abs :=
  (put_map Tree.abs st t m).symm

theorem get?_size (st : Store (Tree α β)) (t : Nat) : (sizeStore st).get? t = (st.get? t).map Tree.sizes :=
  get?_map Tree.sizes st t

theorem erase_size (st : Store (Tree α β)) (t : Nat) : sizeStore (st.erase t) = (sizeStore st).erase t :=
  (erase_map Tree.sizes st t).symm

theorem put_size (st : Store (Tree α β)) (t : Nat) (m : Tree α β) :
    sizeStore (st.put t m) = (sizeStore st).put t m.sizes :=
  (put_map Tree.sizes st t m).symm

section
variable [Packed α] [Packed β]

def AllValid (cmp : α → α → Ordering) (st : Store (Tree α β)) : Prop := ∀ e ∈ st, Valid cmp e.2

theorem AllValid.nil : AllValid cmp ([] : Store (Tree α β)) := fun _ h => by cases h

theorem AllValid.get {st : Store (Tree α β)} (h : AllValid cmp st) {t : Nat} {m : Tree α β}
    (hg : st.get? t = some m) : Valid cmp m := by
  simp only [Store.get?, Option.map_eq_some_iff] at hg
  obtain ⟨e, he, rfl⟩ := hg
  exact h e (List.mem_of_find?_eq_some he)

theorem AllValid.erase {st : Store (Tree α β)} (h : AllValid cmp st) (t : Nat) : AllValid cmp (st.erase t) :=
  fun e he => h e (List.mem_filter.mp he).1

theorem AllValid.put {st : Store (Tree α β)} (h : AllValid cmp st) (t : Nat) {m : Tree α β} (hm : Valid cmp m) :
    AllValid cmp (st.put t m) := by
  intro e he
  rcases List.mem_cons.mp he with rfl | he
  · exact hm
  · exact h.erase t e he

variable [LawfulPacked α] [LawfulPacked β]

/-- one step -/
theorem step_refines [TransCmp cmp] (hsrc : SourceOk) (st : Store (Tree α β)) (op : Op α β) (hv : AllValid cmp st)
    (hty : op.typed (sizeStore st)) :
    ∃ st' o, step cmp st op = some (st', o) ∧ Spec.step cmp (absStore st) op = (absStore st', o) ∧
      AllValid cmp st' ∧ tyStep (sizeStore st) op = sizeStore st' := by
  cases op with
  | new t ks vs init =>
    obtain ⟨m, e, v, a, z⟩ := new_valid (cmp := cmp) hsrc ks vs init hty
    exact ⟨st.put t m, .done, by simp [step, e], by simp [Spec.step, put_abs, a], hv.put t v,
      by simp [tyStep, put_size, z]⟩
  | set t k v =>
    simp only [step, Spec.step, tyStep, get?_abs, get?_size]
    cases hg : st.get? t with
    | none => exact ⟨st, .noobj, rfl, rfl, hv, rfl⟩
    | some m =>
      obtain ⟨m', e, v', a, z⟩ := set_valid hsrc m k v (hv.get hg) (hty m.sizes (by simp [get?_size, hg]))
      exact ⟨st.put t m', .done, by simp [e], by simp [put_abs, a], hv.put t v', by simp [put_size, z]⟩
  | rem t k =>
    simp only [step, Spec.step, tyStep, get?_abs, get?_size]
    cases hg : st.get? t with
    | none => exact ⟨st, .noobj, rfl, rfl, hv, rfl⟩
    | some m =>
      obtain ⟨m', o, e, v', z, a⟩ := rem_valid hsrc m k (hv.get hg)
      refine ⟨st.put t m', obsOf o, by simp [e], ?_, hv.put t v', by simp [put_size, z]⟩
      rcases a with ⟨a1, rfl, rfl⟩ | ⟨a1, rfl, a3⟩
      · simp [a1, put_abs, obsOf]
      · obtain ⟨w, hw⟩ := Option.isSome_iff_exists.mp a1
        simp [hw, put_abs, obsOf, a3]
  | get t k =>
    simp only [step, Spec.step, tyStep, get?_abs]
    cases hg : st.get? t with
    | none => exact ⟨st, .noobj, rfl, rfl, hv, rfl⟩
    | some m =>
      refine ⟨st, _, rfl, ?_, hv, rfl⟩
      simp only [Option.map_some, get_eq hsrc m k (hv.get hg)]
      cases Spec.get cmp k m.abs <;> rfl
  | mem t k =>
    simp only [step, Spec.step, tyStep, get?_abs]
    cases hg : st.get? t with
    | none => exact ⟨st, .noobj, rfl, rfl, hv, rfl⟩
    | some m => exact ⟨st, _, rfl, by simp [mem_eq hsrc m k (hv.get hg)], hv, rfl⟩
  | len t =>
    simp only [step, Spec.step, tyStep, get?_abs]
    cases hg : st.get? t with
    | none => exact ⟨st, .noobj, rfl, rfl, hv, rfl⟩
    | some m => exact ⟨st, _, rfl, by simp [(hv.get hg).len_eq], hv, rfl⟩
  | resize t n =>
    simp only [step, Spec.step, tyStep, get?_abs, get?_size]
    cases hg : st.get? t with
    | none => exact ⟨st, .noobj, rfl, rfl, hv, rfl⟩
    | some m =>
      by_cases hn : n = 0
      · exact ⟨st.put t m.clear, .done, by simp [Tree.resize, hn, obsOf], by simp [hn, put_abs, Tree.clear, Tree.abs],
          hv.put t (clear_valid m).1, by simp [put_size, (clear_valid (cmp := cmp) m).2.2]⟩
      · exact ⟨st.put t m, .err .FormatError, by simp [Tree.resize, hn, obsOf], by simp [hn, put_abs],
          hv.put t (hv.get hg), by simp [put_size]⟩
  | assign t s =>
    simp only [step, Spec.step, tyStep, get?_abs, get?_size]
    cases hg : st.get? t with
    | none => exact ⟨st, .noobj, by simp, by simp, hv, by simp⟩
    | some m =>
      cases hs : st.get? s with
      | none => exact ⟨st, .noobj, by simp, by simp, hv, by simp⟩
      | some src =>
        by_cases hts : t = s
        · -- `self is obj`: nothing happens; the map assigned to itself is itself
          subst hts
          rw [hg] at hs; cases hs
          exact ⟨st.put t m, .done, by simp [hsrc.selfGuard, Tree.assignSelf, obsOf], by simp [put_abs], hv.put t (hv.get hg),
            by simp [put_size]⟩
        · obtain ⟨m', e, v', a, z⟩ := assign_valid (cmp := cmp) hsrc m src (hv.get hs)
          exact ⟨st.put t m', .done, by simp [hts, e, obsOf], by simp [put_abs, a], hv.put t v',
            by simp [put_size, z]⟩
  | copy t s =>
    simp only [step, Spec.step, tyStep, get?_abs, get?_size]
    cases hs : st.get? s with
    | none => exact ⟨st, .noobj, rfl, rfl, hv, rfl⟩
    | some src =>
      obtain ⟨m', e, v', a, z⟩ := copy_valid (cmp := cmp) hsrc src (hv.get hs)
      exact ⟨st.put t m', .done, by simp [e, obsOf], by simp [put_abs, a], hv.put t v', by simp [put_size, z]⟩
  | iter t =>
    simp only [step, Spec.step, tyStep, get?_abs]
    cases hg : st.get? t with
    | none => exact ⟨st, .noobj, rfl, rfl, hv, rfl⟩
    | some m => exact ⟨st, .items m.abs true, by simp [iterFwd_valid m (hv.get hg)], by simp, hv, rfl⟩
  | riter t =>
    simp only [step, Spec.step, tyStep, get?_abs]
    cases hg : st.get? t with
    | none => exact ⟨st, .noobj, rfl, rfl, hv, rfl⟩
    | some m => exact ⟨st, .items m.abs.reverse true, by simp [iterBwd_valid m (hv.get hg)], by simp, hv, rfl⟩
  | del t =>
    simp only [step, Spec.step, tyStep, get?_abs, get?_size]
    cases hg : st.get? t with
    | none => exact ⟨st, .noobj, rfl, rfl, hv, rfl⟩
    | some m => exact ⟨st.erase t, .done, rfl, by simp [erase_abs], hv.erase t, by simp [erase_size]⟩

/-- whole histories -/
theorem run_refines [TransCmp cmp] (hsrc : SourceOk) (ops : List (Op α β)) (st : Store (Tree α β)) (hv : AllValid cmp st)
    (hty : WellTyped (sizeStore st) ops) :
    ∃ st' os, run cmp st ops = some (st', os) ∧ Spec.run cmp (absStore st) ops = (absStore st', os) ∧
      AllValid cmp st' := by
  induction ops generalizing st with
  | nil => exact ⟨st, [], rfl, rfl, hv⟩
  | cons op ops ih =>
    obtain ⟨st1, o, e1, s1, v1, z1⟩ := step_refines hsrc st op hv hty.1
    obtain ⟨st2, os, e2, s2, v2⟩ := ih st1 v1 (by rw [← z1]; exact hty.2)
    exact ⟨st2, o :: os, by simp [run, e1, e2], by simp [Spec.run, s1, s2], v2⟩

end

end Cello.RB
