/-
  Lemmas/RBStore.lean — histories over several trees: every step of the model (`step`) on a store of valid trees is
  defined (no NULL dereference), gives the observation of the specification (`Spec.step`) on the abstracted store, and
  leaves a store of valid trees.
-/
import CelloProofs.Lemmas.RBValid

namespace Cello.RB
open Std
variable {α β : Type} {cmp : α → α → Ordering}

/-- the abstraction of a store: every tree becomes its in-order sequence -/
def absStore (st : Store (Tree α β)) : Store (List (α × β)) := st.map (fun e => (e.1, e.2.abs))

def AllValid (cmp : α → α → Ordering) (st : Store (Tree α β)) : Prop := ∀ e ∈ st, Valid cmp e.2

/-- `assign(t, t)` is excluded (Tree_Assign clears `t` before reading it) -/
def Op.wf : Op α β → Prop
  | .assign t s => t ≠ s
  | _ => True

theorem get?_abs (st : Store (Tree α β)) (t : Nat) : (absStore st).get? t = (st.get? t).map Tree.abs := by
  simp [absStore, Store.get?, List.find?_map, Function.comp_def]

theorem erase_abs (st : Store (Tree α β)) (t : Nat) : absStore (st.erase t) = (absStore st).erase t := by
  simp [absStore, Store.erase, List.filter_map, Function.comp_def]

theorem put_abs (st : Store (Tree α β)) (t : Nat) (m : Tree α β) :
    absStore (st.put t m) = (absStore st).put t m.abs := by
  simp only [Store.put, ← erase_abs]; rfl

theorem AllValid.nil : AllValid cmp ([] : Store (Tree α β)) := fun _ h => by cases h

theorem AllValid.get {st : Store (Tree α β)} (h : AllValid cmp st) {t : Nat} {m : Tree α β}
    (hg : st.get? t = some m) : Valid cmp m := by
  simp only [Store.get?, Option.map_eq_some_iff] at hg
  obtain ⟨e, he, rfl⟩ := hg
  exact h e (List.mem_of_find?_eq_some he)

theorem AllValid.erase {st : Store (Tree α β)} (h : AllValid cmp st) (t : Nat) : AllValid cmp (st.erase t) :=
  fun e he => h e (List.mem_filter.mp he).1

theorem AllValid.put {st : Store (Tree α β)} (h : AllValid cmp st) (t : Nat) {m : Tree α β} (hm : Valid cmp m) :
    AllValid cmp (st.put t m) := by
  intro e he
  rcases List.mem_cons.mp he with rfl | he
  · exact hm
  · exact h.erase t e he

/-- one step -/
theorem step_refines [TransCmp cmp] (st : Store (Tree α β)) (op : Op α β) (hv : AllValid cmp st) (hwf : op.wf) :
    ∃ st' o, step cmp st op = some (st', o) ∧ Spec.step cmp (absStore st) op = (absStore st', o) ∧
      AllValid cmp st' := by
  cases op with
  | new t init =>
    obtain ⟨m, e, v, a⟩ := new_valid (cmp := cmp) init
    exact ⟨st.put t m, .done, by simp [step, e], by simp [Spec.step, put_abs, a], hv.put t v⟩
  | set t k v =>
    simp only [step, Spec.step, get?_abs]
    cases hg : st.get? t with
    | none => exact ⟨st, .noobj, rfl, rfl, hv⟩
    | some m =>
      obtain ⟨m', e, v', a⟩ := set_valid m k v (hv.get hg)
      exact ⟨st.put t m', .done, by simp [e], by simp [put_abs, a], hv.put t v'⟩
  | rem t k =>
    simp only [step, Spec.step, get?_abs]
    cases hg : st.get? t with
    | none => exact ⟨st, .noobj, rfl, rfl, hv⟩
    | some m =>
      obtain ⟨m', o, e, v', a⟩ := rem_valid m k (hv.get hg)
      refine ⟨st.put t m', obsOf o, by simp [e], ?_, hv.put t v'⟩
      rcases a with ⟨a1, rfl, rfl⟩ | ⟨a1, rfl, a3⟩
      · simp [a1, put_abs, obsOf]
      · obtain ⟨w, hw⟩ := Option.isSome_iff_exists.mp a1
        simp [hw, put_abs, obsOf, a3]
  | get t k =>
    simp only [step, Spec.step, get?_abs]
    cases hg : st.get? t with
    | none => exact ⟨st, .noobj, rfl, rfl, hv⟩
    | some m =>
      refine ⟨st, _, rfl, ?_, hv⟩
      simp only [Option.map_some, get_eq m k (hv.get hg)]
      cases Spec.get cmp k m.abs <;> rfl
  | mem t k =>
    simp only [step, Spec.step, get?_abs]
    cases hg : st.get? t with
    | none => exact ⟨st, .noobj, rfl, rfl, hv⟩
    | some m => exact ⟨st, _, rfl, by simp [mem_eq m k (hv.get hg)], hv⟩
  | len t =>
    simp only [step, Spec.step, get?_abs]
    cases hg : st.get? t with
    | none => exact ⟨st, .noobj, rfl, rfl, hv⟩
    | some m => exact ⟨st, _, rfl, by simp [(hv.get hg).len_eq], hv⟩
  | resize t n =>
    simp only [step, Spec.step, get?_abs]
    cases hg : st.get? t with
    | none => exact ⟨st, .noobj, rfl, rfl, hv⟩
    | some m =>
      by_cases hn : n = 0
      · exact ⟨st.put t m.clear, .done, by simp [Tree.resize, hn, obsOf], by simp [hn, put_abs, Tree.clear, Tree.abs],
          hv.put t valid_empty⟩
      · exact ⟨st.put t m, .err .FormatError, by simp [Tree.resize, hn, obsOf], by simp [hn, put_abs],
          hv.put t (hv.get hg)⟩
  | assign t s =>
    have hne : t ≠ s := hwf
    simp only [step, Spec.step, get?_abs]
    cases hg : st.get? t with
    | none => exact ⟨st, .noobj, by simp, by simp, hv⟩
    | some m =>
      cases hs : st.get? s with
      | none => exact ⟨st, .noobj, by simp, by simp, hv⟩
      | some src =>
        obtain ⟨m', e, v', a⟩ := assign_valid (cmp := cmp) m src (hv.get hs)
        exact ⟨st.put t m', .done, by simp [hne, e, obsOf], by simp [put_abs, a], hv.put t v'⟩
  | copy t s =>
    simp only [step, Spec.step, get?_abs]
    cases hs : st.get? s with
    | none => exact ⟨st, .noobj, rfl, rfl, hv⟩
    | some src =>
      obtain ⟨m', e, v', a⟩ := copy_valid (cmp := cmp) src (hv.get hs)
      exact ⟨st.put t m', .done, by simp [e, obsOf], by simp [put_abs, a], hv.put t v'⟩
  | iter t =>
    simp only [step, Spec.step, get?_abs]
    cases hg : st.get? t with
    | none => exact ⟨st, .noobj, rfl, rfl, hv⟩
    | some m => exact ⟨st, .items m.abs true, by simp [iterFwd_valid m (hv.get hg)], by simp, hv⟩
  | riter t =>
    simp only [step, Spec.step, get?_abs]
    cases hg : st.get? t with
    | none => exact ⟨st, .noobj, rfl, rfl, hv⟩
    | some m => exact ⟨st, .items m.abs.reverse true, by simp [iterBwd_valid m (hv.get hg)], by simp, hv⟩
  | del t =>
    simp only [step, Spec.step, get?_abs]
    cases hg : st.get? t with
    | none => exact ⟨st, .noobj, rfl, rfl, hv⟩
    | some m => exact ⟨st.erase t, .done, rfl, by simp [erase_abs], hv.erase t⟩

/-- whole histories -/
theorem run_refines [TransCmp cmp] (ops : List (Op α β)) (st : Store (Tree α β)) (hv : AllValid cmp st)
    (hwf : ∀ op ∈ ops, op.wf) :
    ∃ st' os, run cmp st ops = some (st', os) ∧ Spec.run cmp (absStore st) ops = (absStore st', os) ∧
      AllValid cmp st' := by
  induction ops generalizing st with
  | nil => exact ⟨st, [], rfl, rfl, hv⟩
  | cons op ops ih =>
    obtain ⟨st1, o, e1, s1, v1⟩ := step_refines st op hv (hwf op (by simp))
    obtain ⟨st2, os, e2, s2, v2⟩ := ih st1 v1 (fun op' h => hwf op' (by simp [h]))
    exact ⟨st2, o :: os, by simp [run, e1, e2], by simp [Spec.run, s1, s2], v2⟩

end Cello.RB
