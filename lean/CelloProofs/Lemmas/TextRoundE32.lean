/-
  Lemmas for C15 (engine `text`), second-round audit item 1: `%e` / `%E` *without* `l` — scan_from_with stores through a `float`
  (`strtof`) — for doubles that are `float` values: the widened `float` read back from the seven-digit text is at least as close to
  that decimal as the value written, finite, with the same sign (the narrow twin of `reparseE_near` / `reparseE_within`).
  The overflow argument is the one of the double case with binary32's numbers: the decimal is a multiple of 10^32 from 10^38 on,
  and the largest such multiple within half a unit of FLT_MAX, 3402823 · 10^32, is below FLT_MAX.
-/
import CelloProofs.Lemmas.TextRound

namespace Cello.Text

/-- FLT_MAX = (2^24 − 1) · 2^104 -/
def fltMax : ℕ := (2 ^ 24 - 1) * 2 ^ 104

theorem reparseE32_near (upper : Bool) (bits : ℕ) (hfin : fFinite bits = true) (h32 : isFloat32 bits = true)
    (hnz : (fDecode bits).2.1 ≠ 0) :
    ∃ (my : ℕ) (ey : ℤ) (t : ℚ) (x0 : ℤ),
      fDecode (reparseSpec true (if upper then .E else .e) bits) = ((fDecode bits).1, my, ey) ∧
      fFinite (reparseSpec true (if upper then .E else .e) bits) = true ∧
      (10 : ℚ) ^ x0 ≤ val (fDecode bits).2.1 (fDecode bits).2.2 ∧
      |val (fDecode bits).2.1 (fDecode bits).2.2 - t| ≤ (10 : ℚ) ^ (x0 - 6) / 2 ∧
      |val my ey - t| ≤ |val (fDecode bits).2.1 (fDecode bits).2.2 - t| := by
  obtain ⟨hmx, hex1, hex2⟩ := fDecode_finite bits hfin
  obtain ⟨k, E, hk, hE1, hE2, hkE⟩ := isFloat32_spec bits hfin h32
  have hparse := printE_parse true upper bits
  have hre : reparseSpec true (if upper then .E else .e) bits =
      decToBitsW true (fDecode bits).1
        (sciDigits 6 (fFrac (fDecode bits).2.1 (fDecode bits).2.2).1 (fFrac (fDecode bits).2.1 (fDecode bits).2.2).2).1
        ((sciDigits 6 (fFrac (fDecode bits).2.1 (fDecode bits).2.2).1 (fFrac (fDecode bits).2.1 (fDecode bits).2.2).2).2 - 6) := by
    simp only [hnz, if_false] at hparse
    cases upper <;> simp only [reparseSpec, printFloatSpec, hparse, if_true, Bool.false_eq_true, if_false]
  generalize (fDecode bits).1 = sg at *
  generalize (fDecode bits).2.1 = mx at *
  generalize (fDecode bits).2.2 = ex at *
  have hmpos : 0 < mx := by omega
  obtain ⟨hd, hn, hfv⟩ := fFrac_val mx ex
  have hn := hn hmpos
  obtain ⟨D1, D2, hX, herr⟩ := sciDigits6_spec _ _ hn hd
  obtain ⟨f1, f2⟩ := floorLog10_spec _ _ hn hd
  rw [hfv] at herr f1 f2
  generalize floorLog10 (fFrac mx ex).1 (fFrac mx ex).2 = x0 at *
  generalize (sciDigits 6 (fFrac mx ex).1 (fFrac mx ex).2).1 = D at *
  generalize (sciDigits 6 (fFrac mx ex).1 (fFrac mx ex).2).2 = X at *
  have h10 : (10 : ℚ) ≠ 0 := by norm_num
  have h2ne : (2 : ℚ) ≠ 0 := by norm_num
  -- the value written is at most FLT_MAX
  have hxU : val mx ex ≤ ((fltMax : ℕ) : ℚ) := by
    rw [hkE]
    have hx : val k E ≤ val k 104 := val_mono_exp k E 104 hE2
    have : val k 104 ≤ ((fltMax : ℕ) : ℚ) := by
      unfold val fltMax
      have e2 : (2 : ℚ) ^ (104 : ℤ) = ((2 ^ 104 : ℕ) : ℚ) := by
        rw [show (104 : ℤ) = ((104 : ℕ) : ℤ) by rfl, zpow_natCast]; push_cast; rfl
      rw [e2, Nat.cast_mul]
      apply mul_le_mul_of_nonneg_right _ (by positivity)
      have : k ≤ 2 ^ 24 - 1 := by omega
      exact_mod_cast this
    linarith
  have hxge : (2 : ℚ) ^ (-1074 : ℤ) ≤ val mx ex := by
    have h1 : (2 : ℚ) ^ (((0 : ℕ) : ℤ) + ex) ≤ val mx ex := val_ge mx ex 0 (by norm_num; omega)
    have h2 : (2 : ℚ) ^ (-1074 : ℤ) ≤ (2 : ℚ) ^ (((0 : ℕ) : ℤ) + ex) := zpow_le_zpow_right₀ (by norm_num) (by simpa using hex1)
    linarith
  have hx0hi : x0 ≤ 38 := by
    have h1 : ((fltMax : ℕ) : ℚ) < (10 : ℚ) ^ ((39 : ℕ) : ℤ) := by
      rw [zpow_natCast]
      have : fltMax < 10 ^ 39 := by decide +kernel
      exact_mod_cast this
    have : (10 : ℚ) ^ x0 < (10 : ℚ) ^ ((39 : ℕ) : ℤ) := lt_of_le_of_lt f1 (lt_of_le_of_lt hxU h1)
    have := (ten_zpow_lt_iff _ _).1 this
    omega
  have hx0lo : -324 ≤ x0 := by
    have h1 : (10 : ℚ) ^ (-324 : ℤ) ≤ (2 : ℚ) ^ (-1074 : ℤ) := by
      rw [show (-324 : ℤ) = -((324 : ℕ) : ℤ) by norm_num, show (-1074 : ℤ) = -((1074 : ℕ) : ℤ) by norm_num, zpow_neg, zpow_neg,
        zpow_natCast, zpow_natCast]
      have h : 2 ^ 1074 ≤ 10 ^ 324 := by decide +kernel
      have h' : ((2 ^ 1074 : ℕ) : ℚ) ≤ ((10 ^ 324 : ℕ) : ℚ) := by exact_mod_cast h
      push_cast at h'
      exact inv_anti₀ (by positivity) h'
    have : (10 : ℚ) ^ (-324 : ℤ) < (10 : ℚ) ^ (x0 + 1) := lt_of_le_of_lt (le_trans h1 hxge) f2
    have := (ten_zpow_lt_iff _ _).1 this
    omega
  have hXlo : -324 ≤ X := by rcases hX with h | h <;> omega
  have hXhi : X ≤ 39 := by rcases hX with h | h <;> omega
  -- the decimal
  set t : ℚ := (D : ℚ) * (10 : ℚ) ^ (X - 6) with ht
  -- `decToBitsW` converts it with `ratToBits32`
  have hD0 : ¬ D = 0 := by omega
  have hlen := natDigits_len7 D D1 D2
  obtain ⟨n', d', hn', hd', hnd', hrb⟩ : ∃ n' d' : ℕ, 0 < n' ∧ 0 < d' ∧ (n' : ℚ) / d' = t ∧
      decToBitsW true sg D (X - 6) = ratToBits32 sg n' d' := by
    unfold decToBitsW
    have c1 : ¬ (X - 6 + ((natDigits D).length : ℤ) > 400) := by rw [hlen]; omega
    have c2 : ¬ (X - 6 + ((natDigits D).length : ℤ) < -400) := by rw [hlen]; omega
    simp only [hD0, c1, c2, if_false, if_true]
    by_cases hk : X - 6 ≥ 0
    · refine ⟨D * 10 ^ (X - 6).toNat, 1, by positivity, by norm_num, ?_, by simp only [hk, if_true]⟩
      rw [ht, ten_zpow_toNat _ hk]; push_cast; ring
    · refine ⟨D, 10 ^ (-(X - 6)).toNat, by omega, by positivity, ?_, by simp only [hk, if_false]⟩
      rw [ht, ten_zpow_neg_toNat _ (by omega)]; push_cast; ring
  rw [hrb] at hre
  have hn0 : ¬ n' = 0 := by omega
  simp only [ratToBits32, hn0, if_false] at hre
  have R := roundRat_ok 24 (-149) n' d' hn' hd' (by norm_num)
  generalize (roundRat 24 (-149) n' d').1 = m' at *
  generalize (roundRat 24 (-149) n' d').2 = e' at *
  have hnear := R.nearest k E hk hE1
  rw [hnd', ← hkE] at hnear
  have hu := ten_zpow_pos (x0 - 6)
  -- no overflow of binary32
  have hno : ¬ e' ≥ 105 := by
    intro hov
    have hm' : 2 ^ 23 ≤ m' := by have := R.normal (by omega); simpa using this
    have hy : (2 : ℚ) ^ (((23 : ℕ) : ℤ) + 105) ≤ val m' e' :=
      le_trans (val_ge m' 105 23 hm') (val_mono_exp m' 105 e' hov)
    have e1 : (2 : ℚ) ^ (((23 : ℕ) : ℤ) + 105) = (2 : ℚ) ^ (128 : ℕ) := by rw [← zpow_natCast]; congr 1
    rw [e1] at hy
    -- u ≤ 10^32
    have hu32 : (10 : ℚ) ^ (x0 - 6) ≤ ((10 ^ 32 : ℕ) : ℚ) := by
      have : (10 : ℚ) ^ (x0 - 6) ≤ (10 : ℚ) ^ ((32 : ℕ) : ℤ) := zpow_le_zpow_right₀ (by norm_num) (by omega)
      rw [zpow_natCast] at this; exact_mod_cast this
    have a2 := abs_le.1 herr
    have ht_hi : t ≤ ((fltMax : ℕ) : ℚ) + ((10 ^ 32 : ℕ) : ℚ) / 2 := by
      have h1 := a2.1
      have h2 : (10 : ℚ) ^ (x0 - 6) / 2 ≤ ((10 ^ 32 : ℕ) : ℚ) / 2 := div_le_div_of_nonneg_right hu32 (by norm_num)
      generalize ((10 ^ 32 : ℕ) : ℚ) = C at *
      linarith only [h1, h2, hxU]
    have hM38 : ((10 ^ 38 : ℕ) : ℚ) ≤ ((fltMax : ℕ) : ℚ) := by
      have : 10 ^ 38 ≤ fltMax := by decide +kernel
      exact_mod_cast this
    have htM : t ≤ ((fltMax : ℕ) : ℚ) := by
      by_cases hc : X ≤ 37
      · have hXle : X - 6 ≤ ((31 : ℕ) : ℤ) := by omega
        have h1 : (10 : ℚ) ^ (X - 6) ≤ (10 : ℚ) ^ ((31 : ℕ) : ℤ) := zpow_le_zpow_right₀ (by norm_num) hXle
        rw [zpow_natCast] at h1
        have h2 : (D : ℚ) < ((10 ^ 7 : ℕ) : ℚ) := by exact_mod_cast D2
        have h3 : (0 : ℚ) < (10 : ℚ) ^ (X - 6) := ten_zpow_pos _
        have : t < ((10 ^ 38 : ℕ) : ℚ) := by
          calc t = (D : ℚ) * (10 : ℚ) ^ (X - 6) := ht
            _ < ((10 ^ 7 : ℕ) : ℚ) * (10 : ℚ) ^ (X - 6) := mul_lt_mul_of_pos_right h2 h3
            _ ≤ ((10 ^ 7 : ℕ) : ℚ) * (10 : ℚ) ^ (31 : ℕ) := mul_le_mul_of_nonneg_left h1 (by positivity)
            _ = ((10 ^ 38 : ℕ) : ℚ) := by norm_num
        linarith
      · obtain ⟨j, hj⟩ : ∃ j : ℕ, t = ((j * 10 ^ 32 : ℕ) : ℚ) := by
          refine ⟨D * 10 ^ (X - 38).toNat, ?_⟩
          have : X - 6 = (((X - 38).toNat + 32 : ℕ) : ℤ) := by push_cast; rw [Int.toNat_of_nonneg (by omega)]; ring
          rw [ht, this, zpow_natCast]; push_cast; rw [pow_add]; ring
        rw [hj] at ht_hi ⊢
        have hhi' : 2 * (j * 10 ^ 32) ≤ 2 * fltMax + 10 ^ 32 := by
          have : ((2 * (j * 10 ^ 32) : ℕ) : ℚ) ≤ ((2 * fltMax + 10 ^ 32 : ℕ) : ℚ) := by push_cast at ht_hi ⊢; linarith
          exact_mod_cast this
        have k1 : 3402823 * 10 ^ 32 ≤ fltMax := by norm_num [fltMax]
        have k2 : 2 * fltMax + 10 ^ 32 < 2 * (3402824 * 10 ^ 32) := by norm_num [fltMax]
        have hjle : j * 10 ^ 32 ≤ fltMax := by
          rcases Nat.lt_or_ge j 3402824 with hjl | hjg
          · have : j * 10 ^ 32 ≤ 3402823 * 10 ^ 32 := Nat.mul_le_mul_right _ (by omega)
            exact le_trans this k1
          · have : 3402824 * 10 ^ 32 ≤ j * 10 ^ 32 := Nat.mul_le_mul_right _ hjg
            exact absurd (lt_of_le_of_lt (le_trans (Nat.mul_le_mul_left 2 this) hhi') k2) (lt_irrefl _)
        exact_mod_cast hjle
    -- but then FLT_MAX itself is closer to the decimal than anything from 2^128 on
    have hnM := R.nearest (2 ^ 24 - 1) 104 (by norm_num) (by norm_num)
    rw [hnd'] at hnM
    have hvM : val (2 ^ 24 - 1) 104 = ((fltMax : ℕ) : ℚ) := by
      unfold val fltMax
      rw [show (104 : ℤ) = ((104 : ℕ) : ℤ) by rfl, zpow_natCast]; norm_num
    rw [hvM] at hnM
    have hMlt : ((fltMax : ℕ) : ℚ) < (2 : ℚ) ^ (128 : ℕ) := by
      have : fltMax < 2 ^ 128 := by decide +kernel
      have h' : ((fltMax : ℕ) : ℚ) < ((2 ^ 128 : ℕ) : ℚ) := by exact_mod_cast this
      push_cast at h' ⊢; exact h'
    rw [abs_of_nonneg (by linarith), abs_of_nonneg (by linarith)] at hnM
    generalize ((fltMax : ℕ) : ℚ) = Mq at *
    generalize (2 : ℚ) ^ (128 : ℕ) = T at *
    linarith only [hnM, hy, hMlt]
  simp only [hno, if_false] at hre
  by_cases hm0 : m' = 0
  · subst hm0
    have hw : widen32 0 e' = (0, -1074) := by simp [widen32]
    rw [hw] at hre
    obtain ⟨hdec, hfin'⟩ := fDecode_encode sg 0 (-1074) (by norm_num) (fun _ => rfl) (fun h => absurd h (by norm_num))
    rw [hre]
    refine ⟨0, -1074, t, x0, hdec, hfin', f1, herr, ?_⟩
    have : val 0 (-1074) = val 0 e' := by simp [val]
    rw [this]; exact hnear
  · obtain ⟨hv, hw1, hw2, hw3, hw4⟩ := widen32_spec m' e' R.lt (by omega)
    have hemin := R.emin_le
    obtain ⟨hdec, hfin'⟩ := fDecode_encode sg (widen32 m' e').1 (widen32 m' e').2 hw2
      (fun h => absurd h (by omega)) (fun _ => ⟨by omega, by omega⟩)
    rw [hre]
    refine ⟨_, _, t, x0, hdec, hfin', f1, herr, ?_⟩
    rw [hv]; exact hnear

/-- **`%e` / `%E` without `l`, for `float` values, numerically**: same sign, finite, within one millionth of the value written -/
theorem reparseE32_within (upper : Bool) (bits : ℕ) (hfin : fFinite bits = true) (h32 : isFloat32 bits = true) :
    (fDecode (reparseSpec true (if upper then .E else .e) bits)).1 = (fDecode bits).1 ∧
    fFinite (reparseSpec true (if upper then .E else .e) bits) = true ∧
    |val (fDecode (reparseSpec true (if upper then .E else .e) bits)).2.1 (fDecode (reparseSpec true (if upper then .E else .e) bits)).2.2
        - val (fDecode bits).2.1 (fDecode bits).2.2| ≤ val (fDecode bits).2.1 (fDecode bits).2.2 / 10 ^ 6 := by
  by_cases hnz : (fDecode bits).2.1 = 0
  · have hparse := printE_parse true upper bits
    simp only [hnz, if_true] at hparse
    have hre : reparseSpec true (if upper then .E else .e) bits = signBit (fDecode bits).1 := by
      cases upper <;> simp [reparseSpec, printFloatSpec, hparse, decToBitsW]
    rw [hre, fDecode_signBit, hnz]
    refine ⟨rfl, ?_, by simp [val]⟩
    have := (fDecode_encode (fDecode bits).1 0 (-1074) (by norm_num) (fun _ => rfl) (fun h => absurd h (by norm_num))).2
    simpa [encode64] using this
  · obtain ⟨my, ey, t, x0, hdec, hfin', hlo, herr, hnear⟩ := reparseE32_near upper bits hfin h32 hnz
    rw [hdec]
    refine ⟨rfl, hfin', ?_⟩
    simp only
    have a1 := abs_le.1 (le_trans hnear herr)
    have a2 := abs_le.1 herr
    have hu : (10 : ℚ) ^ (x0 - 6) = (10 : ℚ) ^ x0 / 10 ^ 6 := by
      rw [zpow_sub₀ (by norm_num : (10 : ℚ) ≠ 0)]; norm_num
    have hle : (10 : ℚ) ^ x0 / 10 ^ 6 ≤ val (fDecode bits).2.1 (fDecode bits).2.2 / 10 ^ 6 :=
      div_le_div_of_nonneg_right hlo (by norm_num)
    rw [abs_le]
    rw [hu] at a1 a2
    constructor <;> linarith only [a1.1, a1.2, a2.1, a2.2, hle]

end Cello.Text
