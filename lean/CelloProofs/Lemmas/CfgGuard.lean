/-
  Helper lemmas for C18, third part: the guards over the allocation class (`CELLO_ALLOC_CHECK`) along the functions an
  in-place edit runs, on the object the edit reaches.
-/
import CelloProofs.Lemmas.Cfg

namespace Cello.Config
open CelloGen.Cfg

/-- no guard fires along a list of sites whose objects all carry a class the function is defined on -/
theorem sitesFire_none_of {o : Obj} (hq : ∀ fn c, c ∈ inContractClasses fn → allocGuardFires fn c = none) :
    ∀ (l : List (String × Where)), (∀ p ∈ l, siteClass o p.2 ∈ inContractClasses p.1) → sitesFire o l = none
  | [], _ => rfl
  | (fn, w) :: rest, h => by
    have h1 := hq fn (siteClass o w) (h (fn, w) (List.mem_cons_self ..))
    simp only [sitesFire, h1]
    exact sitesFire_none_of hq rest (fun p hp => h p (List.mem_cons_of_mem _ hp))

/-- the functions an edit runs are String_* / Int_* functions, never `dealloc` -/
theorem edit_fns_ne_dealloc (e : Edit) (x : Val) : ∀ f ∈ e.fns x.ty.name, f ≠ "dealloc" := by
  intro f hf
  cases x <;> cases e <;> simp only [Edit.fns, Val.ty, Ty.name, List.mem_cons, List.not_mem_nil, or_false] at hf
  all_goals first
    | (subst hf; decide)
    | (rcases hf with hf | hf
       · subst hf; decide
       · split at hf
         · cases hf
         · simp only [List.mem_singleton] at hf; subst hf; decide)

theorem stamp_seq_mem (k : SeqKind) : stampOf (seqFn k) 0 ∈ reallocClasses := by
  cases k <;> simp [seqFn, reallocClasses]

theorem stamp_map_key_mem (k : MapKind) : stampOf (mapFn k) 0 ∈ reallocClasses := by
  cases k <;> simp [mapFn, reallocClasses]

theorem stamp_map_val_mem (k : MapKind) : stampOf (mapFn k) 1 ∈ reallocClasses := by
  cases k <;> simp [mapFn, reallocClasses]

/-- wherever an edit reaches — the handle's own object or an element embedded in a container — the class found there is
    one on which the reallocating functions are defined -/
theorem siteClass_edit_mem {cfg : Cfg} (o : Obj) (ho : o.hdr = headerInit cfg o.hdr.type heapClass) (sel : Sel) (b : Body) :
    siteClass o (selWhere sel b) ∈ reallocClasses := by
  have hself : siteClass o .self ∈ reallocClasses := by
    rw [siteClass_self_of_hdr ho]
    simp [reallocClasses, heapClass]
  cases sel <;> cases b <;>
    first
      | exact hself
      | exact stamp_seq_mem _
      | exact stamp_map_key_mem _
      | exact stamp_map_val_mem _

theorem edit_sites_quiet (hq : ∀ fn c, c ∈ inContractClasses fn → allocGuardFires fn c = none)
    (cfg : Cfg) (o : Obj) (ho : o.hdr = headerInit cfg o.hdr.type heapClass) (sel : Sel) (e : Edit) (b : Body) (x : Val) :
    sitesFire o ((e.fns x.ty.name).map (fun f => (f, selWhere sel b))) = none := by
  apply sitesFire_none_of hq
  intro p hp
  obtain ⟨f, hf, rfl⟩ := List.mem_map.mp hp
  have hne := edit_fns_ne_dealloc e x f hf
  simp only [inContractClasses, hne, if_false]
  exact siteClass_edit_mem o ho sel b

end Cello.Config
