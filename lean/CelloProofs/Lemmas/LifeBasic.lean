/-
  Lemmas for C06, part 1: ledger predicates (`Clean`, `Once`), the effect relation `Eff` between collector states,
  measures.  Model: Cello/Lifecycle.lean.
-/
import Cello.Lifecycle

namespace Cello.Life

/-! ### ledger predicates -/

/-- no event of object `a` in `l` -/
def Clean (a : Addr) (l : List Ev) : Prop := Ev.fin a ∉ l ∧ Ev.free a ∉ l

/-- `l` contains exactly one `fin a` and exactly one `free a`, the `fin` first -/
def Once (a : Addr) (l : List Ev) : Prop :=
  ∃ pre mid post, l = pre ++ Ev.fin a :: (mid ++ Ev.free a :: post) ∧ Clean a pre ∧ Clean a mid ∧ Clean a post

theorem Clean.nil (a : Addr) : Clean a [] := by simp [Clean]

theorem clean_append {a : Addr} {l r : List Ev} : Clean a (l ++ r) ↔ Clean a l ∧ Clean a r := by
  simp only [Clean, List.mem_append, not_or]; constructor
  · rintro ⟨⟨h1, h2⟩, h3, h4⟩; exact ⟨⟨h1, h3⟩, h2, h4⟩
  · rintro ⟨⟨h1, h3⟩, h2, h4⟩; exact ⟨⟨h1, h2⟩, h3, h4⟩

theorem clean_cons_fin {a b : Addr} {l : List Ev} : Clean a (Ev.fin b :: l) ↔ a ≠ b ∧ Clean a l := by
  simp only [Clean, List.mem_cons, not_or, Ev.fin.injEq, reduceCtorEq, not_false_eq_true, true_and]
  constructor
  · rintro ⟨⟨h1, h2⟩, h3⟩; exact ⟨h1, h2, h3⟩
  · rintro ⟨h1, h2, h3⟩; exact ⟨⟨h1, h2⟩, h3⟩

theorem clean_cons_free {a b : Addr} {l : List Ev} : Clean a (Ev.free b :: l) ↔ a ≠ b ∧ Clean a l := by
  simp only [Clean, List.mem_cons, not_or, Ev.free.injEq, reduceCtorEq, not_false_eq_true, true_and]
  constructor
  · rintro ⟨h1, h2, h3⟩; exact ⟨h2, h1, h3⟩
  · rintro ⟨h1, h2, h3⟩; exact ⟨h2, h1, h3⟩

theorem clean_bracket {a b : Addr} {m : List Ev} (h : a ≠ b) (hm : Clean a m) :
    Clean a (Ev.fin b :: (m ++ [Ev.free b])) := by
  rw [clean_cons_fin, clean_append, clean_cons_free]
  exact ⟨h, hm, h, Clean.nil a⟩

theorem Once.append_right {a : Addr} {l r : List Ev} (h : Once a l) (hr : Clean a r) : Once a (l ++ r) := by
  obtain ⟨pre, mid, post, rfl, h1, h2, h3⟩ := h
  refine ⟨pre, mid, post ++ r, by simp, h1, h2, clean_append.2 ⟨h3, hr⟩⟩

theorem Once.append_left {a : Addr} {l r : List Ev} (hl : Clean a l) (h : Once a r) : Once a (l ++ r) := by
  obtain ⟨pre, mid, post, rfl, h1, h2, h3⟩ := h
  refine ⟨l ++ pre, mid, post, by simp, clean_append.2 ⟨hl, h1⟩, h2, h3⟩

theorem once_bracket {a : Addr} {m : List Ev} (hm : Clean a m) : Once a (Ev.fin a :: (m ++ [Ev.free a])) :=
  ⟨[], m, [], by simp, Clean.nil a, hm, Clean.nil a⟩

theorem Once.bracket {a b : Addr} {m : List Ev} (h : a ≠ b) (hm : Once a m) :
    Once a (Ev.fin b :: (m ++ [Ev.free b])) := by
  have h1 : Once a (m ++ [Ev.free b]) := hm.append_right (by rw [clean_cons_free]; exact ⟨h, Clean.nil a⟩)
  have h2 : Once a ([Ev.fin b] ++ (m ++ [Ev.free b])) :=
    Once.append_left (by rw [clean_cons_fin]; exact ⟨h, Clean.nil a⟩) h1
  simpa using h2

theorem count_eq_zero_of_clean {a : Addr} {l : List Ev} (h : Clean a l) :
    l.count (Ev.fin a) = 0 ∧ l.count (Ev.free a) = 0 :=
  ⟨List.count_eq_zero.2 h.1, List.count_eq_zero.2 h.2⟩

/-- `Once` in terms of counting: one `fin`, one `free` -/
theorem Once.counts {a : Addr} {l : List Ev} (h : Once a l) :
    l.count (Ev.fin a) = 1 ∧ l.count (Ev.free a) = 1 := by
  obtain ⟨pre, mid, post, rfl, h1, h2, h3⟩ := h
  have c1 := count_eq_zero_of_clean h1
  have c2 := count_eq_zero_of_clean h2
  have c3 := count_eq_zero_of_clean h3
  simp [List.count_append, c1.1, c1.2, c2.1, c2.2, c3.1, c3.2]

theorem Once.not_nil {a : Addr} : ¬ Once a [] := by
  rintro ⟨pre, mid, post, h, _⟩
  cases pre <;> simp at h

/-! ### tracked objects, measure -/

/-- `a` is known to the collector: on the pending list or in the registry -/
def Tracked (s : St) (a : Addr) : Prop := some a ∈ s.pending ∨ a ∈ s.regAddrs

/-- pending addresses are not (any more) in the registry -/
def Disj (s : St) : Prop := ∀ a, some a ∈ s.pending → a ∉ s.regAddrs

/-- number of tracked slots: bounds the nesting of destructor-issued deletions -/
def mu (s : St) : Nat := s.reg.length + (s.pending.filter Option.isSome).length

/-- no destructor known to the collector state allocates -/
def NoDAlloc (s : St) : Prop := s.dalloc = []

theorem St.dallocOf_nil {s : St} (h : NoDAlloc s) (a : Addr) : s.dallocOf a = [] := by
  unfold St.dallocOf; rw [h]; rfl

/-- the pending list after every address in `D` has been struck off -/
def strikeAll (D : List Addr) (p : List (Option Addr)) : List (Option Addr) :=
  p.map (fun o => match o with
    | some y => if y ∈ D then none else some y
    | none => none)

/-- the registry without the addresses in `D` -/
def regWithout (D : List Addr) (r : List Entry) : List Entry := r.filter (fun e => decide (e.addr ∉ D))

theorem strike_eq (x : Addr) (p : List (Option Addr)) : strike x p = strikeAll [x] p := by
  unfold strike strikeAll
  apply List.map_congr_left
  intro o _
  cases o with
  | none => simp
  | some y => by_cases h : y = x <;> simp [h]

theorem eraseReg_eq (x : Addr) (r : List Entry) : eraseReg x r = regWithout [x] r := by
  unfold eraseReg regWithout
  apply List.filter_congr
  intro e _
  by_cases h : e.addr = x <;> simp [h]

theorem strikeAll_nil (p : List (Option Addr)) : strikeAll [] p = p := by
  unfold strikeAll
  conv => rhs; rw [← List.map_id p]
  apply List.map_congr_left
  intro o _; cases o <;> simp

theorem regWithout_nil (r : List Entry) : regWithout [] r = r := by
  unfold regWithout; simp

theorem strikeAll_strikeAll (D1 D2 : List Addr) (p : List (Option Addr)) :
    strikeAll D2 (strikeAll D1 p) = strikeAll (D1 ++ D2) p := by
  unfold strikeAll
  rw [List.map_map]
  apply List.map_congr_left
  intro o _
  cases o with
  | none => simp
  | some y =>
    by_cases h1 : y ∈ D1 <;> by_cases h2 : y ∈ D2 <;> simp [h1, h2]

theorem regWithout_regWithout (D1 D2 : List Addr) (r : List Entry) :
    regWithout D2 (regWithout D1 r) = regWithout (D1 ++ D2) r := by
  unfold regWithout
  rw [List.filter_filter]
  apply List.filter_congr
  intro e _
  by_cases h1 : e.addr ∈ D1 <;> by_cases h2 : e.addr ∈ D2 <;> simp [h1, h2]

theorem mem_strikeAll {D : List Addr} {p : List (Option Addr)} {a : Addr} :
    some a ∈ strikeAll D p ↔ some a ∈ p ∧ a ∉ D := by
  unfold strikeAll
  rw [List.mem_map]
  constructor
  · rintro ⟨o, ho, h⟩
    cases o with
    | none => simp at h
    | some y =>
      by_cases hy : y ∈ D
      · simp [hy] at h
      · simp only [hy, if_false, Option.some.injEq] at h; subst h; exact ⟨ho, hy⟩
  · rintro ⟨h1, h2⟩
    exact ⟨some a, h1, by simp [h2]⟩

theorem mem_regWithout_addrs {D : List Addr} {r : List Entry} {a : Addr} :
    a ∈ (regWithout D r).map (·.addr) ↔ a ∈ r.map (·.addr) ∧ a ∉ D := by
  unfold regWithout
  simp only [List.mem_map, List.mem_filter, decide_eq_true_eq]
  constructor
  · rintro ⟨e, ⟨h1, h2⟩, rfl⟩; exact ⟨⟨e, h1, rfl⟩, h2⟩
  · rintro ⟨⟨e, h1, rfl⟩, h2⟩; exact ⟨e, ⟨h1, h2⟩, rfl⟩

theorem length_filter_isSome_strikeAll_le (D : List Addr) (p : List (Option Addr)) :
    ((strikeAll D p).filter Option.isSome).length ≤ (p.filter Option.isSome).length := by
  induction p with
  | nil => simp [strikeAll]
  | cons o p ih =>
    have ih' : (List.filter Option.isSome (strikeAll D p)).length ≤ (List.filter Option.isSome p).length := ih
    cases o with
    | none =>
      simpa [strikeAll, List.filter_cons] using ih
    | some y =>
      by_cases hy : y ∈ D
      · have : strikeAll D (some y :: p) = none :: strikeAll D p := by simp [strikeAll, hy]
        rw [this]; simp only [List.filter_cons, Option.isSome_none, Option.isSome_some, Bool.false_eq_true, if_false, if_true,
          List.length_cons]; omega
      · have : strikeAll D (some y :: p) = some y :: strikeAll D p := by simp [strikeAll, hy]
        rw [this]; simp only [List.filter_cons, Option.isSome_some, if_true, List.length_cons]; omega

theorem length_filter_isSome_strike_lt {x : Addr} {p : List (Option Addr)} (h : some x ∈ p) :
    ((strikeAll [x] p).filter Option.isSome).length < (p.filter Option.isSome).length := by
  induction p with
  | nil => simp at h
  | cons o p ih =>
    have hle := length_filter_isSome_strikeAll_le [x] p
    cases o with
    | none =>
      have h' : some x ∈ p := by simpa using h
      have := ih h'
      simpa [strikeAll, List.filter_cons] using this
    | some y =>
      by_cases hy : y = x
      · subst hy
        have : strikeAll [y] (some y :: p) = none :: strikeAll [y] p := by simp [strikeAll]
        rw [this]; simp only [List.filter_cons, Option.isSome_none, Option.isSome_some, Bool.false_eq_true, if_false, if_true,
          List.length_cons]; omega
      · have h' : some x ∈ p := by
          rcases List.mem_cons.1 h with h | h
          · exact absurd (Option.some.inj h).symm hy
          · exact h
        have := ih h'
        have e : strikeAll [x] (some y :: p) = some y :: strikeAll [x] p := by simp [strikeAll, hy]
        rw [e]; simp only [List.filter_cons, Option.isSome_some, if_true, List.length_cons]; omega

theorem length_regWithout_le (D : List Addr) (r : List Entry) : (regWithout D r).length ≤ r.length := by
  unfold regWithout; exact List.length_filter_le _ _

theorem length_regWithout_lt {x : Addr} {r : List Entry} (h : x ∈ r.map (·.addr)) :
    (regWithout [x] r).length < r.length := by
  induction r with
  | nil => simp at h
  | cons e r ih =>
    have hle := length_regWithout_le [x] r
    by_cases he : e.addr = x
    · have : regWithout [x] (e :: r) = regWithout [x] r := by simp [regWithout, he]
      rw [this]; simp only [List.length_cons]; omega
    · have h' : x ∈ r.map (·.addr) := by
        simp only [List.map_cons, List.mem_cons] at h
        rcases h with h | h
        · exact absurd h.symm he
        · exact h
      have := ih h'
      have e' : regWithout [x] (e :: r) = e :: regWithout [x] r := by simp [regWithout, he]
      rw [e']; simp only [List.length_cons]; omega

/-! ### the effect of a piece of collector work -/

/-- from `s` to `s'`: exactly the objects `D` left the collector's tables, the events `evs` were logged, nothing else
    (but `mitems`) changed -/
structure Eff (s s' : St) (D : List Addr) (evs : List Ev) : Prop where
  reg : s'.reg = regWithout D s.reg
  pending : s'.pending = strikeAll D s.pending
  running : s'.running = s.running
  owns : s'.owns = s.owns
  log : s'.log = s.log ++ evs
  dalloc : s'.dalloc = s.dalloc

/-- `del(NULL)` touches nothing the ledger model is about: only `mitems` (and, in the code before fix d3e4e44, `ub`) -/
theorem gcRemNull_fields (c : Cfg) (s : St) :
    (gcRemNull c s).reg = s.reg ∧ (gcRemNull c s).pending = s.pending ∧ (gcRemNull c s).running = s.running ∧
    (gcRemNull c s).owns = s.owns ∧ (gcRemNull c s).log = s.log ∧ (gcRemNull c s).dalloc = s.dalloc ∧
    (gcRemNull c s).nulldel = s.nulldel ∧ (gcRemNull c s).marked = s.marked := by
  unfold gcRemNull
  cases hr : s.running <;> cases hg : c.remGuardsNull <;>
    cases hp : (s.pending.contains none && c.remFinalisesPending) <;> simp [hr]

theorem Eff.refl (s : St) : Eff s s [] [] :=
  ⟨(regWithout_nil _).symm, (strikeAll_nil _).symm, rfl, rfl, by simp, rfl⟩

/-- the `del(NULL)` a destructor may issue -/
theorem Eff.maybe_null (c : Cfg) (b : Bool) (s : St) : Eff s (if b then gcRemNull c s else s) [] [] := by
  cases b with
  | false => exact Eff.refl s
  | true =>
    obtain ⟨h1, h2, h3, h4, h5, h6, _⟩ := gcRemNull_fields c s
    exact ⟨by rw [regWithout_nil]; exact h1, by rw [strikeAll_nil]; exact h2, h3, h4, by simp [h5], h6⟩

theorem Eff.trans {s s' s'' : St} {D1 D2 : List Addr} {e1 e2 : List Ev}
    (h1 : Eff s s' D1 e1) (h2 : Eff s' s'' D2 e2) : Eff s s'' (D1 ++ D2) (e1 ++ e2) :=
  ⟨by rw [h2.reg, h1.reg, regWithout_regWithout], by rw [h2.pending, h1.pending, strikeAll_strikeAll],
   by rw [h2.running, h1.running], by rw [h2.owns, h1.owns], by rw [h2.log, h1.log, List.append_assoc],
   by rw [h2.dalloc, h1.dalloc]⟩

theorem Eff.tracked {s s' : St} {D : List Addr} {e : List Ev} (h : Eff s s' D e) (a : Addr) :
    Tracked s' a ↔ Tracked s a ∧ a ∉ D := by
  unfold Tracked St.regAddrs
  rw [h.reg, h.pending, mem_strikeAll, mem_regWithout_addrs]
  constructor
  · rintro (⟨h1, h2⟩ | ⟨h1, h2⟩)
    · exact ⟨Or.inl h1, h2⟩
    · exact ⟨Or.inr h1, h2⟩
  · rintro ⟨h1 | h1, h2⟩
    · exact Or.inl ⟨h1, h2⟩
    · exact Or.inr ⟨h1, h2⟩

theorem Eff.disj {s s' : St} {D : List Addr} {e : List Ev} (h : Eff s s' D e) (hd : Disj s) : Disj s' := by
  intro a ha
  unfold St.regAddrs
  rw [h.pending, mem_strikeAll] at ha
  rw [h.reg, mem_regWithout_addrs]
  intro hh
  exact hd a ha.1 hh.1

theorem Eff.mu_le {s s' : St} {D : List Addr} {e : List Ev} (h : Eff s s' D e) : mu s' ≤ mu s := by
  unfold mu
  rw [h.reg, h.pending]
  have h1 := length_regWithout_le D s.reg
  have h2 := length_filter_isSome_strikeAll_le D s.pending
  omega

theorem St.ownsOf_congr {s s' : St} (h : s'.owns = s.owns) (a : Addr) : s'.ownsOf a = s.ownsOf a := by
  unfold St.ownsOf; rw [h]

/-- `x` is owned, through one or more ownership links, by `a` -/
inductive Reach (s : St) : Addr → Addr → Prop where
  | base {a x : Addr} : x ∈ s.ownsOf a → Reach s a x
  | step {a b x : Addr} : Reach s a b → x ∈ s.ownsOf b → Reach s a x

theorem Reach.congr {s s' : St} (h : s'.owns = s.owns) {a x : Addr} (r : Reach s' a x) : Reach s a x := by
  induction r with
  | base hx => exact Reach.base (by rwa [St.ownsOf_congr h] at hx)
  | step _ hx ih => exact Reach.step ih (by rwa [St.ownsOf_congr h] at hx)

theorem Reach.head {s : St} {a b x : Addr} (hb : b ∈ s.ownsOf a) (r : Reach s b x) : Reach s a x := by
  induction r with
  | base hx => exact Reach.step (Reach.base hb) hx
  | step _ hx ih => exact Reach.step ih hx

/-- a predicate that is inherited along ownership links holds for everything reachable -/
theorem Reach.closed {s : St} {P : Addr → Prop} (hP : ∀ b x, x ∈ s.ownsOf b → P b → P x) {a x : Addr}
    (r : Reach s a x) (ha : P a) : P x := by
  induction r with
  | base hx => exact hP _ _ hx ha
  | step _ hx ih => exact hP _ _ hx ih

end Cello.Life
