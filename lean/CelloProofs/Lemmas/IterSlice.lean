/- helper lemmas for C11: Slice iteration inside the parameter region where the C code is right -/
import CelloProofs.Lemmas.IterRun
import CelloProofs.Lemmas.IterRange

namespace Cello.Iter

variable {σ α : Type}

/-- the elements of `l` at positions `s, s+c, …` (`q` of them) -/
def pick (l : List α) (s c q : Nat) : List α := (List.range q).filterMap (fun j => l[s + c * j]?)

theorem filterMap_congr' {β γ : Type} {f g : β → Option γ} : ∀ (l : List β), (∀ x ∈ l, f x = g x) →
    l.filterMap f = l.filterMap g := by
  intro l
  induction l with
  | nil => intro _; rfl
  | cons x t ih =>
    intro h
    have hx := h x (by simp)
    have ht := ih (fun y hy => h y (by simp [hy]))
    simp only [List.filterMap_cons, hx, ht]

theorem pick_succ (l : List α) (s c q : Nat) :
    pick l s c (q + 1) = (l[s]?).toList ++ pick l (s + c) c q := by
  simp only [pick, List.range_succ_eq_map, List.filterMap_cons, List.filterMap_map]
  have : (fun j => l[s + c * j]?) ∘ Nat.succ = fun j => l[s + c + c * j]? := by
    funext j; simp only [Function.comp, Nat.succ_eq_add_one, Nat.mul_add, Nat.mul_one]
    congr 1; omega
  rw [this]
  simp only [Nat.mul_zero, Nat.add_zero]
  cases l[s]? <;> simp

theorem pick_drop (l : List α) (d s c q : Nat) : pick (l.drop d) s c q = pick l (d + s) c q := by
  simp only [pick, List.getElem?_drop, Nat.add_assoc]

/-- stepping `c` at a time along a walk of `q*c` items yields every `c`-th item and ends exactly on Terminal -/
theorem pick_run (step : σ → σ × Res α) (c : Nat) (hc : 1 ≤ c) : ∀ (q : Nat) {r : σ × Res α} {l : List α},
    Run step r l → l.length = q * c →
    Run (fun s => stepN step (c - 1) (step s)) r (pick l 0 c q) := by
  intro q
  induction q with
  | zero =>
    intro r l h hl
    have : l = [] := List.length_eq_zero_iff.mp (by simpa using hl)
    subst this
    cases h with
    | term s => exact Run.term s
  | succ q ih =>
    intro r l h hl
    have hmul : (q + 1) * c = q * c + c := Nat.succ_mul q c
    cases h with
    | term s => simp at hl; omega
    | item s a t ht =>
      simp only [List.length_cons] at hl
      rw [pick_succ]
      simp only [List.getElem?_cons_zero, Option.toList_some, List.singleton_append, Nat.zero_add]
      refine Run.item _ _ _ ?_
      have hdrop := Run.stepN (c - 1) ht (by omega)
      have := ih hdrop (by simp only [List.length_drop]; omega)
      rw [pick_drop] at this
      have e : pick (a :: t) c c q = pick t (c - 1 + 0) c q := by
        simp only [pick]
        congr 1; funext j
        have : c + c * j = (c - 1 + 0 + c * j) + 1 := by omega
        rw [this, List.getElem?_cons_succ]
      rw [e]; exact this

theorem getElem?_reverse_drop (l : List α) (d k : Nat) (hk : d + k < l.length) :
    (l.reverse.drop d)[k]? = l[l.length - 1 - (d + k)]? := by
  rw [List.getElem?_drop, List.getElem?_reverse hk]

/-- the same along the reversed list from position `B-1` downwards -/
theorem pick_reverse_drop (l : List α) (B c q : Nat) (hc : 1 ≤ c) (hB : B ≤ l.length) (hq : q * c = B) :
    pick (l.reverse.drop (l.length - B)) 0 c q = (List.range q).filterMap (fun j => l[B - 1 - c * j]?) := by
  simp only [pick]
  apply filterMap_congr'
  intro j hj
  have hj' : j < q := List.mem_range.mp hj
  have h1 : c * j + c ≤ q * c := by
    have : (j + 1) * c ≤ q * c := Nat.mul_le_mul_right c (by omega)
    rw [Nat.succ_mul, Nat.mul_comm j c] at this; exact this
  have hlt : l.length - B + (0 + c * j) < l.length := by omega
  rw [getElem?_reverse_drop l _ _ hlt]
  congr 1; omega

/-! ### arithmetic helpers -/

theorem mul_step_le {C j q : Nat} (h : j < q) : C * j + C ≤ q * C := by
  have : (j + 1) * C ≤ q * C := Nat.mul_le_mul_right C (by omega)
  rw [Nat.succ_mul, Nat.mul_comm j C] at this; exact this

theorem mul_le_of_le {C j q : Nat} (h : q ≤ j) : q * C ≤ C * j := by
  have : q * C ≤ j * C := Nat.mul_le_mul_right C h
  rw [Nat.mul_comm j C] at this; exact this

theorem mul_split {C j q : Nat} (h : j < q) : C * (q - 1 - j) + C * j + C = q * C := by
  have e : (q - 1 - j) + j + 1 = q := by omega
  calc C * (q - 1 - j) + C * j + C = C * ((q - 1 - j) + j + 1) := by
        rw [Nat.mul_add, Nat.mul_add, Nat.mul_one]
    _ = q * C := by rw [e, Nat.mul_comm]

theorem nat_eq_of_lt_iff {m q : Nat} (h : ∀ j, j < m ↔ j < q) : m = q := by
  have h1 := h m
  have h2 := h q
  omega

theorem filterMap_range_reverse {β : Type} (f : Nat → Option β) : ∀ q,
    ((List.range q).filterMap f).reverse = (List.range q).filterMap (fun j => f (q - 1 - j)) := by
  intro q
  induction q with
  | zero => rfl
  | succ q ih =>
    have e1 : (List.range (q + 1)).filterMap f = (List.range q).filterMap f ++ (f q).toList := by
      rw [List.range_succ, List.filterMap_append]
      congr 1
    have e2 : (List.range (q + 1)).filterMap (fun j => f (q + 1 - 1 - j)) =
        (f q).toList ++ (List.range q).filterMap (fun j => f (q - 1 - j)) := by
      rw [List.range_succ_eq_map, List.filterMap_cons, List.filterMap_map]
      have : (fun j => f (q + 1 - 1 - j)) ∘ Nat.succ = fun j => f (q - 1 - j) := by
        funext j; simp only [Function.comp, Nat.succ_eq_add_one]; congr 1; omega
      rw [this]; simp only [Nat.add_sub_cancel, Nat.sub_zero]
      cases f q <;> simp
    rw [e1, e2, List.reverse_append, ih]
    cases f q <;> simp

/-! ### the specification in index form -/

theorem sliceSpec_pos (l : List α) (A : Nat) (b : Int) (C : Nat) (hC : 1 ≤ C) :
    sliceSpec l A b C = (List.range (rangeLen A b C)).filterMap (fun j => l[A + C * j]?) := by
  have hc : (C : Int) > 0 := by omega
  simp only [sliceSpec, rangeList, hc, if_true, List.filterMap_map]
  apply filterMap_congr'
  intro j _
  have e : (A : Int) + (C : Int) * (j : Int) = ((A + C * j : Nat) : Int) := by push_cast; rfl
  have hn : ¬ (((A + C * j : Nat) : Int) < 0) := by omega
  simp only [Function.comp, e, hn, if_false, Int.toNat_natCast]

theorem sliceSpec_neg (l : List α) (A B K : Nat) (hK : 1 ≤ K) :
    sliceSpec l A B (-(K : Int)) = (List.range (rangeLen A B (-(K : Int)))).filterMap (fun j => l[B - 1 - K * j]?) := by
  have hc : ¬ (-(K : Int) > 0) := by omega
  have hc' : -(K : Int) < 0 := by omega
  simp only [sliceSpec, rangeList, hc, if_false, List.filterMap_map]
  apply filterMap_congr'
  intro j hj
  have hj' := (rangeLen_neg_iff A B (-(K : Int)) hc' j).mpr (List.mem_range.mp hj)
  have hm : -(K : Int) * (j : Int) = -(((K * j : Nat)) : Int) := by push_cast; rw [Int.neg_mul]
  have e : (B : Int) - 1 + -(K : Int) * (j : Int) = ((B - 1 - K * j : Nat) : Int) := by
    rw [hm] at hj' ⊢; omega
  have hn : ¬ (((B - 1 - K * j : Nat) : Int) < 0) := by omega
  simp only [Function.comp, e, hn, if_false, Int.toNat_natCast]

end Cello.Iter
