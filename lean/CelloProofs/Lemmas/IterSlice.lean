/- helper lemmas for C11: Slice iteration inside the parameter region where the C code is right -/
import CelloProofs.Lemmas.IterRun
import CelloProofs.Lemmas.IterRange

namespace Cello.Iter

variable {σ α : Type}

/-- the elements of `l` at positions `s, s+c, …` (`q` of them) -/
def pick (l : List α) (s c q : Nat) : List α := (List.range q).filterMap (fun j => l[s + c * j]?)

theorem filterMap_congr' {β γ : Type} {f g : β → Option γ} : ∀ (l : List β), (∀ x ∈ l, f x = g x) →
    l.filterMap f = l.filterMap g := by
  intro l
  induction l with
  | nil => intro _; rfl
  | cons x t ih =>
    intro h
    have hx := h x (by simp)
    have ht := ih (fun y hy => h y (by simp [hy]))
    simp only [List.filterMap_cons, hx, ht]

theorem pick_succ (l : List α) (s c q : Nat) :
    pick l s c (q + 1) = (l[s]?).toList ++ pick l (s + c) c q := by
  simp only [pick, List.range_succ_eq_map, List.filterMap_cons, List.filterMap_map]
  have : (fun j => l[s + c * j]?) ∘ Nat.succ = fun j => l[s + c + c * j]? := by
    funext j; simp only [Function.comp, Nat.succ_eq_add_one, Nat.mul_add, Nat.mul_one]
    congr 1; omega
  rw [this]
  simp only [Nat.mul_zero, Nat.add_zero]
  cases l[s]? <;> simp

theorem pick_drop (l : List α) (d s c q : Nat) : pick (l.drop d) s c q = pick l (d + s) c q := by
  simp only [pick, List.getElem?_drop, Nat.add_assoc]

/-- stepping `c` at a time along a walk of `q*c` items yields every `c`-th item and ends exactly on Terminal -/
theorem pick_run (step : σ → σ × Res α) (c : Nat) (hc : 1 ≤ c) : ∀ (q : Nat) {r : σ × Res α} {l : List α},
    Run step r l → l.length = q * c →
    Run (fun s => stepN step (c - 1) (step s)) r (pick l 0 c q) := by
  intro q
  induction q with
  | zero =>
    intro r l h hl
    have : l = [] := List.length_eq_zero_iff.mp (by simpa using hl)
    subst this
    cases h with
    | term s => exact Run.term s
  | succ q ih =>
    intro r l h hl
    have hmul : (q + 1) * c = q * c + c := Nat.succ_mul q c
    cases h with
    | term s => simp at hl; omega
    | item s a t ht =>
      simp only [List.length_cons] at hl
      rw [pick_succ]
      simp only [List.getElem?_cons_zero, Option.toList_some, List.singleton_append, Nat.zero_add]
      refine Run.item _ _ _ ?_
      have hdrop := Run.stepN (c - 1) ht (by omega)
      have := ih hdrop (by simp only [List.length_drop]; omega)
      rw [pick_drop] at this
      have e : pick (a :: t) c c q = pick t (c - 1 + 0) c q := by
        simp only [pick]
        congr 1; funext j
        have : c + c * j = (c - 1 + 0 + c * j) + 1 := by omega
        rw [this, List.getElem?_cons_succ]
      rw [e]; exact this

theorem getElem?_reverse_drop (l : List α) (d k : Nat) (hk : d + k < l.length) :
    (l.reverse.drop d)[k]? = l[l.length - 1 - (d + k)]? := by
  rw [List.getElem?_drop, List.getElem?_reverse hk]

/-- the same along the reversed list from position `B-1` downwards -/
theorem pick_reverse_drop (l : List α) (B c q : Nat) (hc : 1 ≤ c) (hB : B ≤ l.length) (hq : q * c = B) :
    pick (l.reverse.drop (l.length - B)) 0 c q = (List.range q).filterMap (fun j => l[B - 1 - c * j]?) := by
  simp only [pick]
  apply filterMap_congr'
  intro j hj
  have hj' : j < q := List.mem_range.mp hj
  have h1 : c * j + c ≤ q * c := by
    have : (j + 1) * c ≤ q * c := Nat.mul_le_mul_right c (by omega)
    rw [Nat.succ_mul, Nat.mul_comm j c] at this; exact this
  have hlt : l.length - B + (0 + c * j) < l.length := by omega
  rw [getElem?_reverse_drop l _ _ hlt]
  congr 1; omega

/-! ### arithmetic helpers -/

theorem mul_step_le {C j q : Nat} (h : j < q) : C * j + C ≤ q * C := by
  have : (j + 1) * C ≤ q * C := Nat.mul_le_mul_right C (by omega)
  rw [Nat.succ_mul, Nat.mul_comm j C] at this; exact this

theorem mul_le_of_le {C j q : Nat} (h : q ≤ j) : q * C ≤ C * j := by
  have : q * C ≤ j * C := Nat.mul_le_mul_right C h
  rw [Nat.mul_comm j C] at this; exact this

theorem mul_split {C j q : Nat} (h : j < q) : C * (q - 1 - j) + C * j + C = q * C := by
  have e : (q - 1 - j) + j + 1 = q := by omega
  calc C * (q - 1 - j) + C * j + C = C * ((q - 1 - j) + j + 1) := by
        rw [Nat.mul_add, Nat.mul_add, Nat.mul_one]
    _ = q * C := by rw [e, Nat.mul_comm]

theorem nat_eq_of_lt_iff {m q : Nat} (h : ∀ j, j < m ↔ j < q) : m = q := by
  have h1 := h m
  have h2 := h q
  omega

theorem filterMap_range_reverse {β : Type} (f : Nat → Option β) : ∀ q,
    ((List.range q).filterMap f).reverse = (List.range q).filterMap (fun j => f (q - 1 - j)) := by
  intro q
  induction q with
  | zero => rfl
  | succ q ih =>
    have e1 : (List.range (q + 1)).filterMap f = (List.range q).filterMap f ++ (f q).toList := by
      rw [List.range_succ, List.filterMap_append]
      congr 1
    have e2 : (List.range (q + 1)).filterMap (fun j => f (q + 1 - 1 - j)) =
        (f q).toList ++ (List.range q).filterMap (fun j => f (q - 1 - j)) := by
      rw [List.range_succ_eq_map, List.filterMap_cons, List.filterMap_map]
      have : (fun j => f (q + 1 - 1 - j)) ∘ Nat.succ = fun j => f (q - 1 - j) := by
        funext j; simp only [Function.comp, Nat.succ_eq_add_one]; congr 1; omega
      rw [this]; simp only [Nat.add_sub_cancel, Nat.sub_zero]
      cases f q <;> simp
    rw [e1, e2, List.reverse_append, ih]
    cases f q <;> simp

/-! ### the specification in index form -/

theorem sliceSpec_pos (l : List α) (A : Nat) (b : Int) (C : Nat) (hC : 1 ≤ C) :
    sliceSpec l A b C = (List.range (rangeLen A b C)).filterMap (fun j => l[A + C * j]?) := by
  have hc : (C : Int) > 0 := by omega
  simp only [sliceSpec, rangeList, hc, if_true, List.filterMap_map]
  apply filterMap_congr'
  intro j _
  have e : (A : Int) + (C : Int) * (j : Int) = ((A + C * j : Nat) : Int) := by push_cast; rfl
  have hn : ¬ (((A + C * j : Nat) : Int) < 0) := by omega
  simp only [Function.comp, e, hn, if_false, Int.toNat_natCast]

theorem sliceSpec_neg (l : List α) (A B K : Nat) (hK : 1 ≤ K) :
    sliceSpec l A B (-(K : Int)) = (List.range (rangeLen A B (-(K : Int)))).filterMap (fun j => l[B - 1 - K * j]?) := by
  have hc : ¬ (-(K : Int) > 0) := by omega
  have hc' : -(K : Int) < 0 := by omega
  simp only [sliceSpec, rangeList, hc, if_false, List.filterMap_map]
  apply filterMap_congr'
  intro j hj
  have hj' := (rangeLen_neg_iff A B (-(K : Int)) hc' j).mpr (List.mem_range.mp hj)
  have hm : -(K : Int) * (j : Int) = -(((K * j : Nat)) : Int) := by push_cast; rw [Int.neg_mul]
  have e : (B : Int) - 1 + -(K : Int) * (j : Int) = ((B - 1 - K * j : Nat) : Int) := by
    rw [hm] at hj' ⊢; omega
  have hn : ¬ (((B - 1 - K * j : Nat) : Int) < 0) := by omega
  simp only [Function.comp, e, hn, if_false, Int.toNat_natCast]

/-! ### the four walks of a Slice inside the region -/

theorem rangeLen_eq_pos (A B C q : Nat) (hC : 1 ≤ C) (h : ∀ j : Nat, A + C * j < B ↔ j < q) :
    rangeLen A B C = q := by
  apply nat_eq_of_lt_iff
  intro j
  rw [← rangeLen_pos_iff (A : Int) (B : Int) (C : Int) (by omega) j, ← h j]
  have e : (A : Int) + (C : Int) * (j : Int) = ((A + C * j : Nat) : Int) := by push_cast; rfl
  rw [e]; omega

theorem rangeLen_eq_neg (A B K q : Nat) (hK : 1 ≤ K) (h : ∀ j : Nat, (A + K * j + 1 ≤ B) ↔ j < q) :
    rangeLen A B (-(K : Int)) = q := by
  apply nat_eq_of_lt_iff
  intro j
  rw [← rangeLen_neg_iff (A : Int) (B : Int) (-(K : Int)) (by omega) j, ← h j]
  have hm : -(K : Int) * (j : Int) = -(((K * j : Nat)) : Int) := by push_cast; rw [Int.neg_mul]
  rw [hm]; omega

/-- positive step, forward: the walk lands exactly on Terminal (`A + q*C = n`) and `stop` lies in the last stride -/
theorem slice_fwd_pos (I : Iterable α) {l : List α} (h : FwdAs I l) (A B C q : Nat) (hC : 1 ≤ C)
    (hA : A + q * C = l.length) (hB : B ≤ l.length) (hreg : q = 0 ∨ l.length < B + C) :
    FwdAs (sliceI I l.length A B C) (sliceSpec l A B C) := by
  intro s
  have hc : (C : Int) > 0 := by omega
  have hnext : (sliceI I l.length A B C).next = fun s => stepN I.next (C - 1) (I.next s) := by
    funext s; simp only [sliceI, hc, if_true, Int.toNat_natCast]
  have hinit : (sliceI I l.length A B C).init s = stepN I.next A (I.init s) := by
    simp only [sliceI, hc, if_true, Int.toNat_natCast]
  rw [hnext, hinit, sliceSpec_pos l A B C hC]
  have hrun := Run.stepN A (h s) (by omega)
  have := pick_run I.next C hC q hrun (by simp only [List.length_drop]; omega)
  rw [pick_drop] at this
  have hm : rangeLen A B C = q := by
    apply rangeLen_eq_pos A B C q hC
    intro j
    constructor
    · intro hj
      by_cases hjq : j < q
      · exact hjq
      · have := mul_le_of_le (C := C) (show q ≤ j by omega); omega
    · intro hj
      have := mul_step_le (C := C) hj
      rcases hreg with h0 | h1 <;> omega
  rw [hm]
  exact this

/-- positive step, backward: `stop` is a multiple of the step and `start = step - 1` -/
theorem slice_bwd_pos (I : Iterable α) {l : List α} (h : BwdAs I l) (A B C q : Nat) (hC : 1 ≤ C)
    (hB : q * C = B) (hBn : B ≤ l.length) (hreg : q = 0 ∨ A + 1 = C) :
    BwdAs (sliceI I l.length A B C) (sliceSpec l A B C) := by
  intro s
  have hc : (C : Int) > 0 := by omega
  have hprev : (sliceI I l.length A B C).prev = fun s => stepN I.prev (C - 1) (I.prev s) := by
    funext s; simp only [sliceI, hc, if_true, Int.toNat_natCast]
  have hlast : (sliceI I l.length A B C).last s = stepN I.prev (l.length - B) (I.last s) := by
    have : ((l.length : Int) - (B : Int)).toNat = l.length - B := by omega
    simp only [sliceI, hc, if_true, this]
  rw [hprev, hlast, sliceSpec_pos l A B C hC]
  have hrun := Run.stepN (l.length - B) (h s) (by simp)
  have := pick_run I.prev C hC q hrun (by simp only [List.length_drop, List.length_reverse]; omega)
  rw [pick_reverse_drop l B C q hC hBn hB] at this
  have hm : rangeLen A B C = q := by
    apply rangeLen_eq_pos A B C q hC
    intro j
    constructor
    · intro hj
      by_cases hjq : j < q
      · exact hjq
      · have := mul_le_of_le (C := C) (show q ≤ j by omega); omega
    · intro hj
      have := mul_step_le (C := C) hj
      rcases hreg with h0 | h1 <;> omega
  rw [hm, filterMap_range_reverse]
  have e : (List.range q).filterMap (fun j => l[A + C * (q - 1 - j)]?) =
      (List.range q).filterMap (fun j => l[B - 1 - C * j]?) := by
    apply filterMap_congr'
    intro j hj
    have hj' : j < q := List.mem_range.mp hj
    have := mul_split (C := C) hj'
    have := mul_step_le (C := C) hj'
    rcases hreg with h0 | h1
    · omega
    · congr 1; omega
  rw [e]; exact this

/-- negative step `-K`, forward (the walk runs backwards over the underlying iterable) -/
theorem slice_fwd_neg (I : Iterable α) {l : List α} (h : BwdAs I l) (A B K q : Nat) (hK : 1 ≤ K)
    (hB : q * K = B) (hBn : B ≤ l.length) (hreg : q = 0 ∨ A + 1 ≤ K) :
    FwdAs (sliceI I l.length A B (-(K : Int))) (sliceSpec l A B (-(K : Int))) := by
  intro s
  have hc : ¬ (-(K : Int) > 0) := by omega
  have hc' : -(K : Int) < 0 := by omega
  have hk : (- -(K : Int)).toNat - 1 = K - 1 := by omega
  have hnext : (sliceI I l.length A B (-(K : Int))).next = fun s => stepN I.prev (K - 1) (I.prev s) := by
    funext s; simp only [sliceI, hc, if_false, hc', if_true, hk]
  have hinit : (sliceI I l.length A B (-(K : Int))).init s = stepN I.prev (l.length - B) (I.last s) := by
    have : ((l.length : Int) - (B : Int)).toNat = l.length - B := by omega
    simp only [sliceI, hc, if_false, hc', if_true, this]
  rw [hnext, hinit, sliceSpec_neg l A B K hK]
  have hrun := Run.stepN (l.length - B) (h s) (by simp)
  have := pick_run I.prev K hK q hrun (by simp only [List.length_drop, List.length_reverse]; omega)
  rw [pick_reverse_drop l B K q hK hBn hB] at this
  have hm : rangeLen A B (-(K : Int)) = q := by
    apply rangeLen_eq_neg A B K q hK
    intro j
    constructor
    · intro hj
      by_cases hjq : j < q
      · exact hjq
      · have := mul_le_of_le (C := K) (show q ≤ j by omega); omega
    · intro hj
      have := mul_step_le (C := K) hj
      rcases hreg with h0 | h1 <;> omega
  rw [hm]; exact this

/-- negative step `-K`, backward (the walk runs forwards over the underlying iterable) -/
theorem slice_bwd_neg (I : Iterable α) {l : List α} (h : FwdAs I l) (A B K q : Nat) (hK : 1 ≤ K)
    (hA : A + q * K = l.length) (hBn : B ≤ l.length) (hreg : q = 0 ∨ B + K = l.length + 1) :
    BwdAs (sliceI I l.length A B (-(K : Int))) (sliceSpec l A B (-(K : Int))) := by
  intro s
  have hc : ¬ (-(K : Int) > 0) := by omega
  have hc' : -(K : Int) < 0 := by omega
  have hk : (- -(K : Int)).toNat - 1 = K - 1 := by omega
  have hprev : (sliceI I l.length A B (-(K : Int))).prev = fun s => stepN I.next (K - 1) (I.next s) := by
    funext s; simp only [sliceI, hc, if_false, hc', if_true, hk]
  have hlast : (sliceI I l.length A B (-(K : Int))).last s = stepN I.next A (I.init s) := by
    simp only [sliceI, hc, if_false, hc', if_true, Int.toNat_natCast]
  rw [hprev, hlast, sliceSpec_neg l A B K hK]
  have hrun := Run.stepN A (h s) (by omega)
  have := pick_run I.next K hK q hrun (by simp only [List.length_drop]; omega)
  rw [pick_drop] at this
  have hm : rangeLen A B (-(K : Int)) = q := by
    apply rangeLen_eq_neg A B K q hK
    intro j
    constructor
    · intro hj
      by_cases hjq : j < q
      · exact hjq
      · have := mul_le_of_le (C := K) (show q ≤ j by omega)
        rcases hreg with h0 | h1 <;> omega
    · intro hj
      have := mul_step_le (C := K) hj
      rcases hreg with h0 | h1 <;> omega
  rw [hm, filterMap_range_reverse]
  have e : (List.range q).filterMap (fun j => l[B - 1 - K * (q - 1 - j)]?) =
      (List.range q).filterMap (fun j => l[A + K * j]?) := by
    apply filterMap_congr'
    intro j hj
    have hj' : j < q := List.mem_range.mp hj
    have := mul_split (C := K) hj'
    have := mul_step_le (C := K) hj'
    rcases hreg with h0 | h1
    · omega
    · congr 1; omega
  rw [e]; exact this

/-! ### len and get of a Slice (right for all clamped parameters) -/

theorem getElem?_filterMap_all_some {β γ : Type} (f : β → Option γ) : ∀ (L : List β), (∀ x ∈ L, (f x).isSome) →
    ∀ i : Nat, (L.filterMap f)[i]? = (L[i]?).bind f := by
  intro L
  induction L with
  | nil => intro _ i; simp
  | cons x t ih =>
    intro hall i
    have hx := hall x (by simp)
    obtain ⟨y, hy⟩ := Option.isSome_iff_exists.mp hx
    rw [List.filterMap_cons_some hy]
    cases i with
    | zero => simp [hy]
    | succ i => simpa using ih (fun z hz => hall z (by simp [hz])) i

theorem length_filterMap_all_some {β γ : Type} (f : β → Option γ) : ∀ (L : List β), (∀ x ∈ L, (f x).isSome) →
    (L.filterMap f).length = L.length := by
  intro L
  induction L with
  | nil => intro _; rfl
  | cons x t ih =>
    intro hall
    obtain ⟨y, hy⟩ := Option.isSome_iff_exists.mp (hall x (by simp))
    rw [List.filterMap_cons_some hy]
    simp [ih (fun z hz => hall z (by simp [hz]))]

/-- the positions of a Slice with clamped parameters lie inside the underlying sequence -/
theorem rangeList_in_range (n A B : Nat) (c : Int) (hB : B ≤ n) :
    ∀ p ∈ rangeList A B c, 0 ≤ p ∧ p < n := by
  intro p hp
  simp only [rangeList, List.mem_map, List.mem_range] at hp
  obtain ⟨j, hj, rfl⟩ := hp
  rcases Int.lt_trichotomy c 0 with hc | hc | hc
  · have hnc : ¬ (c > 0) := by omega
    have k := (rangeLen_neg_iff A B c hc j).mpr hj
    have : c * (j : Int) ≤ 0 := Int.mul_nonpos_of_nonpos_of_nonneg (by omega) (by omega)
    simp only [hnc, if_false]; omega
  · subst hc; simp [rangeLen] at hj
  · have k := (rangeLen_pos_iff A B c hc j).mpr hj
    have : 0 ≤ c * (j : Int) := Int.mul_nonneg (by omega) (by omega)
    simp only [hc, gt_iff_lt, if_true]; omega

theorem slice_len_get (I : Iterable α) {l : List α} (h : LenGetAs I l) (A B : Nat) (c : Int) (hB : B ≤ l.length) :
    (∀ n, (sliceI I l.length A B c).len = some n → n = (sliceSpec l A B c).length) ∧
    (∀ g, (sliceI I l.length A B c).get = some g → ∀ i (hi : i < (sliceSpec l A B c).length),
      g (Int.ofNat i) = some (sliceSpec l A B c)[i]) := by
  have hin := rangeList_in_range l.length A B c hB
  have hall : ∀ p ∈ rangeList A B c, ((fun (p : Int) => if p < 0 then none else l[p.toNat]?) p).isSome := by
    intro p hp
    obtain ⟨h0, h1⟩ := hin p hp
    have : ¬ (p < 0) := by omega
    have hlt : p.toNat < l.length := by omega
    simp [this, List.getElem?_eq_getElem hlt]
  have hlen : (sliceSpec l A B c).length = rangeLen A B c := by
    rw [sliceSpec, length_filterMap_all_some _ _ hall]; simp [rangeList]
  constructor
  · intro n hn
    simp only [sliceI, Option.some.injEq] at hn
    rw [hlen, hn]
  · intro G hG i hi
    cases hg : I.get with
    | none => simp [sliceI, hg] at hG
    | some g =>
      simp only [sliceI, hg, Option.some.injEq] at hG
      subst hG
      have hi' : i < (rangeList A B c).length := by
        rw [hlen] at hi; simpa [rangeList] using hi
      have hr := (range_lawfulAs A B c).get (rangeGet A B c) rfl i hi'
      have hp := hin _ (List.getElem_mem hi')
      have hpn : ¬ ((rangeList A B c)[i] < 0) := by omega
      have hlt : ((rangeList A B c)[i]).toNat < l.length := by omega
      have hx : (sliceSpec l A B c)[i]? = some l[((rangeList A B c)[i]).toNat] := by
        rw [sliceSpec, getElem?_filterMap_all_some _ _ hall, List.getElem?_eq_getElem hi']
        simp [hpn, List.getElem?_eq_getElem hlt]
      obtain ⟨_, hx'⟩ := List.getElem?_eq_some_iff.mp hx
      rw [hx']
      have hgi := h.get g hg _ hlt
      have e : Int.ofNat ((rangeList A B c)[i]).toNat = (rangeList A B c)[i] := by
        simp only [Int.ofNat_eq_natCast]; omega
      rw [e] at hgi
      simp only [hr, hgi]

/-! ### from the region in `Int` form to the index form -/

theorem exists_mul_of_emod (x : Nat) (C : Nat) (hC : 1 ≤ C) (h : (x : Int) % (C : Int) = 0) : ∃ q : Nat, q * C = x := by
  have hd : (C : Int) ∣ (x : Int) := Int.dvd_of_emod_eq_zero h
  obtain ⟨k, hk⟩ := hd
  have hk0 : 0 ≤ k := by
    by_cases hk0 : 0 ≤ k
    · exact hk0
    · have : (C : Int) * k < 0 := Int.mul_neg_of_pos_of_neg (by omega) (by omega)
      omega
  obtain ⟨q, rfl⟩ := Int.eq_ofNat_of_zero_le hk0
  refine ⟨q, ?_⟩
  have : ((q * C : Nat) : Int) = (x : Int) := by push_cast; rw [Int.mul_comm]; omega
  exact_mod_cast this

theorem slice_fwdAs (I : Iterable α) {l : List α} {c : Int} (hfw : c > 0 → FwdAs I l) (hbw : c < 0 → BwdAs I l) (A B : Nat)
    (hA : A ≤ l.length) (hB : B ≤ l.length) (hr : SliceRegionFwd l.length A B c) :
    FwdAs (sliceI I l.length A B c) (sliceSpec l A B c) := by
  rcases hr with ⟨hc, hr⟩ | ⟨hc, hr⟩ | hc
  · obtain ⟨C, rfl⟩ := Int.eq_ofNat_of_zero_le (show 0 ≤ c by omega)
    have hC : 1 ≤ C := by omega
    rcases hr with ha | ⟨hm, hb⟩
    · have : A = l.length := by omega
      exact slice_fwd_pos I (hfw hc) A B C 0 hC (by omega) hB (Or.inl rfl)
    · have hm' : ((l.length - A : Nat) : Int) % (C : Int) = 0 := by
        have : ((l.length - A : Nat) : Int) = (l.length : Int) - (A : Int) := by omega
        rw [this]; exact hm
      obtain ⟨q, hq⟩ := exists_mul_of_emod (l.length - A) C hC hm'
      exact slice_fwd_pos I (hfw hc) A B C q hC (by omega) hB (Or.inr (by omega))
  · obtain ⟨K, hK⟩ := Int.eq_ofNat_of_zero_le (show 0 ≤ -c by omega)
    have : c = -(K : Int) := by omega
    subst this
    have hK1 : 1 ≤ K := by omega
    rcases hr with hb | ⟨hm, ha⟩
    · have : B = 0 := by omega
      subst this
      exact slice_fwd_neg I (hbw hc) A 0 K 0 hK1 (by simp) (by omega) (Or.inl rfl)
    · have hm' : (B : Int) % (K : Int) = 0 := by simpa using hm
      obtain ⟨q, hq⟩ := exists_mul_of_emod B K hK1 hm'
      exact slice_fwd_neg I (hbw hc) A B K q hK1 hq hB (Or.inr (by omega))
  · subst hc
    intro s
    have : sliceSpec l A B 0 = [] := by simp [sliceSpec, rangeList, rangeLen]
    rw [this]
    exact Run.of_term (by simp [sliceI])

theorem slice_bwdAs (I : Iterable α) {l : List α} {c : Int} (hbw : c > 0 → BwdAs I l) (hfw : c < 0 → FwdAs I l) (A B : Nat)
    (hA : A ≤ l.length) (hB : B ≤ l.length) (hr : SliceRegionBwd l.length A B c) :
    BwdAs (sliceI I l.length A B c) (sliceSpec l A B c) := by
  rcases hr with ⟨hc, hr⟩ | ⟨hc, hr⟩ | hc
  · obtain ⟨C, rfl⟩ := Int.eq_ofNat_of_zero_le (show 0 ≤ c by omega)
    have hC : 1 ≤ C := by omega
    rcases hr with hb | ⟨hm, ha⟩
    · have : B = 0 := by omega
      subst this
      exact slice_bwd_pos I (hbw hc) A 0 C 0 hC (by simp) (by omega) (Or.inl rfl)
    · obtain ⟨q, hq⟩ := exists_mul_of_emod B C hC hm
      exact slice_bwd_pos I (hbw hc) A B C q hC hq hB (Or.inr (by omega))
  · obtain ⟨K, hK⟩ := Int.eq_ofNat_of_zero_le (show 0 ≤ -c by omega)
    have : c = -(K : Int) := by omega
    subst this
    have hK1 : 1 ≤ K := by omega
    rcases hr with ha | ⟨hm, hb⟩
    · have : A = l.length := by omega
      exact slice_bwd_neg I (hfw hc) A B K 0 hK1 (by omega) hB (Or.inl rfl)
    · have hm' : ((l.length - A : Nat) : Int) % (K : Int) = 0 := by
        have : ((l.length - A : Nat) : Int) = (l.length : Int) - (A : Int) := by omega
        rw [this]; simpa using hm
      obtain ⟨q, hq⟩ := exists_mul_of_emod (l.length - A) K hK1 hm'
      exact slice_bwd_neg I (hfw hc) A B K q hK1 (by omega) hB (Or.inr (by omega))
  · subst hc
    intro s
    have : sliceSpec l A B 0 = [] := by simp [sliceSpec, rangeList, rangeLen]
    rw [this]
    exact Run.of_term (by simp [sliceI])

end Cello.Iter
