/-
  C14 helper lemmas: the parser `parse` (decidable well-formedness) is sound and complete for the grammar `wfSegs`.
-/
import CelloProofs.Lemmas.FmtRefine

namespace Cello.Fmt

theorem wfSegs_mk {conv : Str} {s : Seg} {r : List Seg} (hs : s.wf conv = true) (hr : wfSegs conv r = true)
    (hadj : s.isLit = true → ∀ t ∈ r.head?, t.isLit = false) : wfSegs conv (s :: r) = true := by
  cases r with
  | nil => simpa [wfSegs] using hs
  | cons t r =>
    simp only [wfSegs, Bool.and_eq_true, Bool.not_eq_true', Bool.and_eq_false_imp]
    exact ⟨⟨hs, fun h => hadj h t (by simp)⟩, hr⟩

theorem dropWhile_head_false {p : Char → Bool} : ∀ {l : Str} {d : Char} {r : Str}, l.dropWhile p = d :: r → p d = false := by
  intro l
  induction l with
  | nil => intro d r h; simp at h
  | cons a l ih =>
    intro d r h
    by_cases ha : p a = true
    · rw [List.dropWhile_cons_of_pos ha] at h; exact ih h
    · rw [List.dropWhile_cons_of_neg ha] at h
      simp only [List.cons.injEq] at h
      rw [← h.1]; simpa using ha

theorem mem_takeWhile_imp {p : Char → Bool} : ∀ {l : Str} {x : Char}, x ∈ l.takeWhile p → p x = true := by
  intro l
  induction l with
  | nil => intro x h; simp at h
  | cons a l ih =>
    intro x h
    by_cases ha : p a = true
    · rw [List.takeWhile_cons_of_pos ha] at h
      rcases List.mem_cons.1 h with rfl | h
      · exact ha
      · exact ih h
    · rw [List.takeWhile_cons_of_neg ha] at h; simp at h

theorem parse_sound (conv : Str) : ∀ (fuel : Nat) (fmt : Str) (segs : List Seg),
    parse conv fuel fmt = some segs →
    render segs = fmt ∧ wfSegs conv segs = true ∧
      (¬ (headOrNul fmt ≠ NUL ∧ headOrNul fmt ≠ '%') → ∀ t ∈ segs.head?, t.isLit = false) := by
  intro fuel
  induction fuel with
  | zero => intro fmt segs h; simp [parse] at h
  | succ f ih =>
    intro fmt segs h
    cases fmt with
    | nil => simp [parse] at h; subst h; simp [render_nil, wfSegs]
    | cons c r =>
      simp only [parse] at h
      by_cases hc : c = '%'
      · subst hc
        simp only [if_true] at h
        by_cases hr : r.head? = some '%'
        · simp only [hr, if_true, Option.map_eq_some_iff] at h
          obtain ⟨segs', h1, rfl⟩ := h
          obtain ⟨e1, e2, _⟩ := ih _ _ h1
          refine ⟨?_, wfSegs_mk (by simp [Seg.wf]) e2 (by simp [Seg.isLit]), fun _ => by simp [Seg.isLit]⟩
          rw [render_cons, e1]
          cases r with
          | nil => simp at hr
          | cons d r => simp at hr; subst hr; simp [Seg.text]
        · simp only [hr, if_false] at h
          split at h
          · simp at h
          · rename_i d r' hd
            by_cases hdn : d = NUL
            · simp [hdn] at h
            · simp only [hdn, if_false, Option.map_eq_some_iff] at h
              obtain ⟨segs', h1, rfl⟩ := h
              obtain ⟨e1, e2, _⟩ := ih _ _ h1
              have hd' : strchrHit conv d = true := by
                have := dropWhile_head_false hd; simpa using this
              have hdc : d ∈ conv := by
                simp only [strchrHit, decide_eq_true_eq] at hd'
                rcases hd' with h | h
                · exact absurd h hdn
                · exact h
              have hbody : ∀ x ∈ r.takeWhile (fun x => !strchrHit conv x), x ∉ conv ∧ x ≠ NUL := by
                intro x hx
                have := mem_takeWhile_imp hx
                simp only [Bool.not_eq_true', strchrHit, decide_eq_false_iff_not, not_or] at this
                exact ⟨this.2, this.1⟩
              have hhead : (r.takeWhile fun x => !strchrHit conv x).head? ≠ some '%' := by
                cases r with
                | nil => simp
                | cons a r =>
                  simp only [List.head?_cons, Option.some.injEq] at hr
                  simp only [List.takeWhile_cons]
                  split <;> simp [hr]
              refine ⟨?_, wfSegs_mk ?_ e2 (by simp [Seg.isLit]), fun _ => by simp [Seg.isLit]⟩
              · rw [render_cons, e1]
                simp only [Seg.text, List.cons_append, List.append_assoc, List.cons.injEq, true_and]
                simp only [List.nil_append]
                rw [← hd]; exact List.takeWhile_append_dropWhile
              · simp only [Seg.wf, Bool.and_eq_true, decide_eq_true_eq, List.all_eq_true, ne_eq]
                refine ⟨⟨⟨hdc, by simpa using hdn⟩, fun x hx => ?_⟩, by simpa using hhead⟩
                have := hbody x hx; simp [this.1, this.2]
      · simp only [hc, if_false] at h
        by_cases hn : c = NUL
        · simp [hn] at h
        · simp only [hn, if_false, Option.map_eq_some_iff] at h
          obtain ⟨segs', h1, rfl⟩ := h
          obtain ⟨e1, e2, e3⟩ := ih _ _ h1
          have hco : ordinary c = true := by simp [ordinary, hc, hn]
          refine ⟨?_, wfSegs_mk ?_ e2 (fun _ => e3 ?_), fun hh => ?_⟩
          · rw [render_cons, e1]; simp only [Seg.text]; exact List.takeWhile_append_dropWhile
          · simp only [Seg.wf, Bool.and_eq_true, Bool.not_eq_true', List.all_eq_true]
            refine ⟨by rw [List.takeWhile_cons_of_pos hco]; simp, fun x hx => ?_⟩
            have := mem_takeWhile_imp hx; simpa [ordinary] using this
          · -- the rest starts with a non-ordinary character (or is empty)
            cases hd : (c :: r).dropWhile ordinary with
            | nil => simp [headOrNul]
            | cons d r' =>
              have := dropWhile_head_false hd
              simp only [ordinary, Bool.and_eq_false_iff, decide_eq_false_iff_not, ne_eq, Decidable.not_not] at this
              simp only [headOrNul, List.headD_cons]
              rcases this with h | h <;> simp [h]
          · simp [headOrNul, hn, hc] at hh

theorem takeWhile_append_stop {p : Char → Bool} : ∀ (s t : Str), (∀ x ∈ s, p x = true) → (∀ d ∈ t.head?, p d = false) →
    (s ++ t).takeWhile p = s ∧ (s ++ t).dropWhile p = t := by
  intro s
  induction s with
  | nil =>
    intro t _ ht
    cases t with
    | nil => simp
    | cons d t =>
      have := ht d (by simp)
      simp [this]
  | cons a s ih =>
    intro t hs ht
    have ha := hs a (by simp)
    obtain ⟨h1, h2⟩ := ih t (fun x hx => hs x (by simp [hx])) ht
    simp [ha, h1, h2]

theorem parse_render (conv : Str) (hpct : '%' ∉ conv) : ∀ (segs : List Seg), wfSegs conv segs = true →
    ∀ fuel, segs.length < fuel → parse conv fuel (render segs) = some segs := by
  intro segs
  induction segs with
  | nil =>
    intro _ fuel hf
    obtain ⟨f, rfl⟩ : ∃ f, fuel = f + 1 := ⟨fuel - 1, by simp at hf; omega⟩
    simp [render_nil, parse]
  | cons seg rest ih =>
    intro hwf fuel hf
    obtain ⟨f, rfl⟩ : ∃ f, fuel = f + 1 := ⟨fuel - 1, by simp at hf; omega⟩
    obtain ⟨hseg, hrest, hstop⟩ := wfSegs_cons hwf
    have hf' : rest.length < f := by simp at hf; omega
    have ihr := ih hrest f hf'
    rw [render_cons]
    cases seg with
    | lit s =>
      obtain ⟨hs0, hs⟩ := lit_wf hseg
      obtain ⟨c, s', rfl⟩ := List.exists_cons_of_ne_nil hs0
      have hc := hs c (by simp)
      have hst : ∀ d ∈ (render rest).head?, ordinary d = false := by
        intro d hd
        have := hstop rfl
        cases hr : render rest with
        | nil => simp [hr] at hd
        | cons e r =>
          simp only [hr, List.head?_cons, Option.mem_def, Option.some.injEq] at hd
          subst hd
          simp only [hr, headOrNul, List.headD_cons, ne_eq, not_and, Decidable.not_not] at this
          by_cases he : e = NUL
          · simp [ordinary, he]
          · simp [ordinary, this he]
      obtain ⟨h1, h2⟩ := takeWhile_append_stop (p := ordinary) (c :: s') (render rest)
        (fun x hx => by have := hs x hx; simp [ordinary, this.1, this.2]) hst
      simp only [Seg.text, List.cons_append] at h1 h2 ⊢
      simp only [parse, hc.2, hc.1, if_false, h1, h2, ihr, Option.map_some]
    | pct =>
      simp [Seg.text, parse, ihr]
    | spec b d =>
      obtain ⟨hd, hd0, hb, hb0⟩ := spec_wf hseg
      have hdp : d ≠ '%' := fun h => hpct (h ▸ hd)
      have hhead : (b ++ d :: render rest).head? ≠ some '%' := by
        cases b with
        | nil => simpa using hdp
        | cons x b => simpa using hb0
      obtain ⟨h1, h2⟩ := takeWhile_append_stop (p := fun x => !strchrHit conv x) b (d :: render rest)
        (fun x hx => by have := hb x hx; simp [strchrHit, this.1, this.2])
        (fun e he => by simp at he; subst he; simp [strchrHit, hd])
      simp only [Seg.text, List.cons_append, List.append_assoc, List.nil_append]
      simp only [parse, if_true, hhead, if_false, h1, h2, hd0, ihr, Option.map_some]

end Cello.Fmt
