/-
  C14 helper lemmas: `print_to(out, pos, "%$", a)` is `show_to(a, out, pos)`; a literal format is one call; the show of a
  container is its elements' own show, each once, in order, between the opening, the separator and the closing text.
-/
import CelloProofs.Lemmas.FmtRefine
import CelloProofs.Lemmas.FmtParse
import CelloProofs.Lemmas.FmtCalls

namespace Cello.Fmt

variable (cfg : Cfg) (prim : Prim) (shw : Obj → Out → Out × Outcome)

/-- a non-empty run of ordinary characters -/
def isLitFmt (s : Str) : Bool := !s.isEmpty && s.all ordinary

theorem isLitFmt_wf {conv : Str} {s : Str} (h : isLitFmt s = true) : wfSegs conv [.lit s] = true := by
  simp only [isLitFmt, Bool.and_eq_true, Bool.not_eq_true', List.all_eq_true] at h
  simp only [wfSegs, Seg.wf, Bool.and_eq_true, Bool.not_eq_true', List.all_eq_true]
  exact ⟨h.1, fun x hx => by have := h.2 x hx; simpa [ordinary] using this⟩

/-- `print_to(out, pos, "literal")` is one `format_to` call with the literal -/
theorem print_lit (hpct : '%' ∉ cfg.conv) (s : Str) (hs : isLitFmt s = true) (args : List Obj) (o : Out) :
    (printToWith cfg prim shw s args o).pair = o.call prim s .none := by
  have := printToWith_pair cfg prim shw args hpct [.lit s] (isLitFmt_wf hs) o
  simp only [render, Seg.text, List.map_cons, List.map_nil, List.flatten_cons, List.flatten_nil, List.append_nil, refRun] at this
  rw [this]
  rcases o.call prim s .none with ⟨o', oc⟩
  cases oc <;> rfl

/-- `print_to(out, pos, "%$", a)` is `show_to(a, out, pos)` -/
theorem print_show (hpct : '%' ∉ cfg.conv) (hd : '$' ∈ cfg.conv) (hf : firing cfg '$' = [.show]) (a : Obj) (o : Out) :
    (printToWith cfg prim shw ['%', '$'] [a] o).pair = shw a o := by
  have hwf : wfSegs cfg.conv [.spec [] '$'] = true := by
    have : ('$' : Char) ≠ NUL := by decide
    simp [wfSegs, Seg.wf, hd, this]
  have := printToWith_pair cfg prim shw [a] hpct [.spec [] '$'] hwf o
  simp only [render, Seg.text, List.map_cons, List.map_nil, List.flatten_cons, List.flatten_nil, List.nil_append,
    List.append_nil] at this
  rw [this]
  simp only [refRun, List.getElem?_cons_zero]
  rw [dispatch_eq_runKinds]
  change (match runKinds prim shw (firing cfg '$') _ a o with
    | (o', Outcome.ok) => refRun cfg prim shw [a] [] 1 o'
    | bad => bad) = _
  rw [hf]
  simp only [runKinds, action]
  rcases shw a o with ⟨o', oc⟩
  cases oc <;> simp [refRun]

/-- what a container's show does with its items: each item's own show, in order, the separator between two items -/
def showItemsSpec (sep : Str) : List Obj → Out → Out × Outcome
  | [], o => (o, .ok)
  | [a], o => shw a o
  | a :: b :: r, o => andThen (shw a) (andThen (fun o => o.call prim sep .none) (showItemsSpec sep (b :: r))) o

theorem showItems_eq (hpct : '%' ∉ cfg.conv) (hd : '$' ∈ cfg.conv) (hf : firing cfg '$' = [.show])
    (sep : Str) (hsep : isLitFmt sep = true) :
    ∀ (items : List Obj) (o : Out), showItems cfg prim shw sep items o = showItemsSpec prim shw sep items o := by
  intro items
  induction items with
  | nil => intro o; rfl
  | cons a r ih =>
    intro o
    cases r with
    | nil => simp [showItems, showItemsSpec, print_show cfg prim shw hpct hd hf]
    | cons b r =>
      simp only [showItems, showItemsSpec, andThen, print_show cfg prim shw hpct hd hf, print_lit cfg prim shw hpct sep hsep]
      rcases shw a o with ⟨o', oc⟩
      cases oc <;> simp [ih]

variable (sc : ShowCfg)

/-- **Tuple_Show**: `tuple(` items `)` -/
theorem showD_tuple (hpct : '%' ∉ cfg.conv) (hd : '$' ∈ cfg.conv) (hf : firing cfg '$' = [.show])
    (h1 : isLitFmt sc.tupOpen = true) (h2 : isLitFmt sc.tupSep = true) (h3 : isLitFmt sc.tupClose = true)
    (d : Nat) (items : List Obj) (o : Out) :
    showD cfg prim sc (d + 1) (.tuple items) o =
      andThen (fun o => o.call prim sc.tupOpen .none)
        (andThen (showItemsSpec prim (fun x o => showD cfg prim sc d x o) sc.tupSep items)
          (fun o => o.call prim sc.tupClose .none)) o := by
  simp only [showD, andThen, print_lit cfg prim _ hpct _ h1, print_lit cfg prim _ hpct _ h3,
    showItems_eq cfg prim _ hpct hd hf _ h2]

/-- a format `pre %p post` with one argument: three calls -/
theorem print_ptr (hpct : '%' ∉ cfg.conv) (hf : firing cfg 'p' = [.obj]) (f pre post : Str)
    (hp : parseFmt cfg.conv f = some [.lit pre, .spec [] 'p', .lit post]) (a : Obj) (o : Out) :
    (printToWith cfg prim shw f [a] o).pair =
      andThen (fun o => o.call prim pre .none)
        (andThen (fun o => o.call prim ['%', 'p'] .ptr) (fun o => o.call prim post .none)) o := by
  obtain ⟨hr, hwf, _⟩ := parse_sound cfg.conv _ _ _ hp
  rw [← hr, printToWith_pair cfg prim shw [a] hpct _ hwf o]
  have hd : ∀ o, dispatch prim shw cfg.disp 'p' ['%', 'p'] a o = o.call prim ['%', 'p'] .ptr := by
    intro o
    rw [dispatch_eq_runKinds]
    change runKinds prim shw (firing cfg 'p') _ a o = _
    rw [hf, runKinds_single]
    rfl
  simp only [refRun, List.getElem?_cons_zero, List.nil_append, hd, andThen]
  rcases o.call prim pre .none with ⟨o1, oc1⟩
  cases oc1 <;> simp only []
  rcases o1.call prim ['%', 'p'] .ptr with ⟨o2, oc2⟩
  cases oc2 <;> simp only []
  rcases o2.call prim post .none with ⟨o3, oc3⟩
  cases oc3 <;> rfl

/-- **Array_Show / List_Show**: `<'Array' At 0x` pointer ` [` items `]>` -/
theorem showD_array (hpct : '%' ∉ cfg.conv) (hd : '$' ∈ cfg.conv) (hf : firing cfg '$' = [.show]) (hfp : firing cfg 'p' = [.obj])
    (pre post : Str) (h1 : parseFmt cfg.conv sc.arrOpen = some [.lit pre, .spec [] 'p', .lit post])
    (h2 : isLitFmt sc.arrSep = true) (h3 : isLitFmt sc.arrClose = true)
    (d : Nat) (items : List Obj) (o : Out) :
    showD cfg prim sc (d + 1) (.array items) o =
      andThen (andThen (fun o => o.call prim pre .none)
          (andThen (fun o => o.call prim ['%', 'p'] .ptr) (fun o => o.call prim post .none)))
        (andThen (showItemsSpec prim (fun x o => showD cfg prim sc d x o) sc.arrSep items)
          (fun o => o.call prim sc.arrClose .none)) o := by
  simp only [showD, andThen, print_ptr cfg prim _ hpct hfp _ pre post h1, print_lit cfg prim _ hpct _ h3,
    showItems_eq cfg prim _ hpct hd hf _ h2]

theorem showD_list (hpct : '%' ∉ cfg.conv) (hd : '$' ∈ cfg.conv) (hf : firing cfg '$' = [.show]) (hfp : firing cfg 'p' = [.obj])
    (pre post : Str) (h1 : parseFmt cfg.conv sc.lstOpen = some [.lit pre, .spec [] 'p', .lit post])
    (h2 : isLitFmt sc.lstSep = true) (h3 : isLitFmt sc.lstClose = true)
    (d : Nat) (items : List Obj) (o : Out) :
    showD cfg prim sc (d + 1) (.list items) o =
      andThen (andThen (fun o => o.call prim pre .none)
          (andThen (fun o => o.call prim ['%', 'p'] .ptr) (fun o => o.call prim post .none)))
        (andThen (showItemsSpec prim (fun x o => showD cfg prim sc d x o) sc.lstSep items)
          (fun o => o.call prim sc.lstClose .none)) o := by
  simp only [showD, andThen, print_ptr cfg prim _ hpct hfp _ pre post h1, print_lit cfg prim _ hpct _ h3,
    showItems_eq cfg prim _ hpct hd hf _ h2]

/-! ### Table, Tree, Range, Slice, Box, NULL, objects without a Show instance -/

/-- one dispatch `if` fires for `c`: the dispatch is that action -/
theorem dispatch_single (c : Char) (k : Kind) (hf : firing cfg c = [k]) (buf : Str) (a : Obj) (o : Out) :
    dispatch prim shw cfg.disp c buf a o = action prim shw k buf a o := by
  rw [dispatch_eq_runKinds]
  change runKinds prim shw (firing cfg c) buf a o = _
  rw [hf, runKinds_single]

/-- a format `%$ mid %$` with (key, value): the key's show, the literal, the value's show -/
theorem print_pair (hpct : '%' ∉ cfg.conv) (hf : firing cfg '$' = [.show]) (f mid : Str)
    (hp : parseFmt cfg.conv f = some [.spec [] '$', .lit mid, .spec [] '$']) (k v : Obj) (o : Out) :
    (printToWith cfg prim shw f [k, v] o).pair =
      andThen (shw k) (andThen (fun o => o.call prim mid .none) (shw v)) o := by
  obtain ⟨hr, hwf, _⟩ := parse_sound cfg.conv _ _ _ hp
  rw [← hr, printToWith_pair cfg prim shw [k, v] hpct _ hwf o]
  simp only [refRun, List.getElem?_cons_zero, List.getElem?_cons_succ, List.nil_append, dispatch_single cfg prim shw '$' .show hf,
    action, andThen]
  rcases shw k o with ⟨o1, oc1⟩
  cases oc1 <;> simp only []
  rcases o1.call prim mid .none with ⟨o2, oc2⟩
  cases oc2 <;> simp only []
  rcases shw v o2 with ⟨o3, oc3⟩
  cases oc3 <;> rfl

/-- a format that is one integer specification, with an Int: one call with its value -/
theorem print_int (hpct : '%' ∉ cfg.conv) (b : Str) (c : Char) (hf : firing cfg c = [.cint]) (f : Str)
    (hp : parseFmt cfg.conv f = some [.spec b c]) (n : Int) (o : Out) :
    (printToWith cfg prim shw f [.int n] o).pair = o.call prim f (.i64 n) := by
  obtain ⟨hr, hwf, _⟩ := parse_sound cfg.conv _ _ _ hp
  have hr' : render [Seg.spec b c] = '%' :: (b ++ [c]) := by simp [render, Seg.text]
  rw [← hr, printToWith_pair cfg prim shw [.int n] hpct _ hwf o]
  simp only [refRun, List.getElem?_cons_zero, dispatch_single cfg prim shw c .cint hf, action, cInt]
  rw [hr']
  rcases o.call prim ('%' :: (b ++ [c])) (.i64 n) with ⟨o1, oc1⟩
  cases oc1 <;> rfl

/-- `<'Box' at 0x%p (%$)>` with (self, Box_Deref(self)) -/
theorem print_box (hpct : '%' ∉ cfg.conv) (hf : firing cfg '$' = [.show]) (hfp : firing cfg 'p' = [.obj]) (f l1 l2 l3 : Str)
    (hp : parseFmt cfg.conv f = some [.lit l1, .spec [] 'p', .lit l2, .spec [] '$', .lit l3]) (a x : Obj) (o : Out) :
    (printToWith cfg prim shw f [a, x] o).pair =
      andThen (fun o => o.call prim l1 .none) (andThen (fun o => o.call prim ['%', 'p'] .ptr)
        (andThen (fun o => o.call prim l2 .none) (andThen (shw x) (fun o => o.call prim l3 .none)))) o := by
  obtain ⟨hr, hwf, _⟩ := parse_sound cfg.conv _ _ _ hp
  rw [← hr, printToWith_pair cfg prim shw [a, x] hpct _ hwf o]
  simp only [refRun, List.getElem?_cons_zero, List.getElem?_cons_succ, List.nil_append, dispatch_single cfg prim shw '$' .show hf,
    dispatch_single cfg prim shw 'p' .obj hfp, action, andThen]
  rcases o.call prim l1 .none with ⟨o1, oc1⟩
  cases oc1 <;> simp only []
  rcases o1.call prim ['%', 'p'] .ptr with ⟨o2, oc2⟩
  cases oc2 <;> simp only []
  rcases o2.call prim l2 .none with ⟨o3, oc3⟩
  cases oc3 <;> simp only []
  rcases shw x o3 with ⟨o4, oc4⟩
  cases oc4 <;> simp only []
  rcases o4.call prim l3 .none with ⟨o5, oc5⟩
  cases oc5 <;> rfl

/-- `<'%s' At 0x%p>` with (type_of(self), self): the type's name through `c_str`, the pointer -/
theorem print_default (hpct : '%' ∉ cfg.conv) (hfs : firing cfg 's' = [.cstr]) (hfp : firing cfg 'p' = [.obj]) (f l1 l2 l3 : Str)
    (hp : parseFmt cfg.conv f = some [.lit l1, .spec [] 's', .lit l2, .spec [] 'p', .lit l3]) (t : Str) (a : Obj) (o : Out) :
    (printToWith cfg prim shw f [.type t, a] o).pair =
      andThen (fun o => o.call prim l1 .none) (andThen (fun o => o.call prim ['%', 's'] (.cstr t))
        (andThen (fun o => o.call prim l2 .none) (andThen (fun o => o.call prim ['%', 'p'] .ptr)
          (fun o => o.call prim l3 .none)))) o := by
  obtain ⟨hr, hwf, _⟩ := parse_sound cfg.conv _ _ _ hp
  rw [← hr, printToWith_pair cfg prim shw [.type t, a] hpct _ hwf o]
  simp only [refRun, List.getElem?_cons_zero, List.getElem?_cons_succ, List.nil_append, dispatch_single cfg prim shw 's' .cstr hfs,
    dispatch_single cfg prim shw 'p' .obj hfp, action, cStr, andThen]
  rcases o.call prim l1 .none with ⟨o1, oc1⟩
  cases oc1 <;> simp only []
  rcases o1.call prim ['%', 's'] (.cstr t) with ⟨o2, oc2⟩
  cases oc2 <;> simp only []
  rcases o2.call prim l2 .none with ⟨o3, oc3⟩
  cases oc3 <;> simp only []
  rcases o3.call prim ['%', 'p'] .ptr with ⟨o4, oc4⟩
  cases oc4 <;> simp only []
  rcases o4.call prim l3 .none with ⟨o5, oc5⟩
  cases oc5 <;> rfl

/-- a format that is the one specification `%s`, with a Type object: one call with the type's name (`c_str` of a Type) -/
theorem print_type (hpct : '%' ∉ cfg.conv) (hfs : firing cfg 's' = [.cstr]) (f : Str)
    (hp : parseFmt cfg.conv f = some [.spec [] 's']) (t : Str) (o : Out) :
    (printToWith cfg prim shw f [.type t] o).pair = o.call prim ['%', 's'] (.cstr t) := by
  obtain ⟨hr, hwf, _⟩ := parse_sound cfg.conv _ _ _ hp
  rw [← hr, printToWith_pair cfg prim shw [.type t] hpct _ hwf o]
  simp only [refRun, List.getElem?_cons_zero, List.nil_append, dispatch_single cfg prim shw 's' .cstr hfs, action, cStr]
  rcases o.call prim ['%', 's'] (.cstr t) with ⟨o1, oc1⟩
  cases oc1 <;> rfl

/-- what Table_Show / Tree_Show do with the pairs: key show, `mid`, value show; the separator between two pairs -/
def showPairsSpec (mid sep : Str) : List (Obj × Obj) → Out → Out × Outcome
  | [], o => (o, .ok)
  | [(k, v)], o => andThen (shw k) (andThen (fun o => o.call prim mid .none) (shw v)) o
  | (k, v) :: q :: r, o =>
    andThen (andThen (shw k) (andThen (fun o => o.call prim mid .none) (shw v)))
      (andThen (fun o => o.call prim sep .none) (showPairsSpec mid sep (q :: r))) o

theorem showPairs_eq (hpct : '%' ∉ cfg.conv) (hf : firing cfg '$' = [.show]) (pair mid sep : Str)
    (hp : parseFmt cfg.conv pair = some [.spec [] '$', .lit mid, .spec [] '$']) (hsep : isLitFmt sep = true) :
    ∀ (ps : List (Obj × Obj)) (o : Out),
      showPairs cfg prim shw pair sep ps o = showPairsSpec prim shw mid sep ps o := by
  intro ps
  induction ps with
  | nil => intro o; rfl
  | cons p r ih =>
    intro o
    obtain ⟨k, v⟩ := p
    cases r with
    | nil => simp [showPairs, showPairsSpec, print_pair cfg prim shw hpct hf pair mid hp]
    | cons q r =>
      obtain ⟨k', v'⟩ := q
      simp only [showPairs, showPairsSpec]
      have h1 : (fun o => (printToWith cfg prim shw pair [k, v] o).pair) =
          andThen (shw k) (andThen (fun o => o.call prim mid .none) (shw v)) := by
        funext o; exact print_pair cfg prim shw hpct hf pair mid hp k v o
      have h2 : (fun o => (printToWith cfg prim shw sep [] o).pair) = fun o => o.call prim sep .none := by
        funext o; exact print_lit cfg prim shw hpct sep hsep [] o
      have h3 : showPairs cfg prim shw pair sep ((k', v') :: r) = showPairsSpec prim shw mid sep ((k', v') :: r) := by
        funext o; exact ih o
      rw [h1, h2, h3]

/-- what Range_Show does with the values: one call `frag` per value, the separator between two -/
def showIntsSpec (frag sep : Str) : List Int → Out → Out × Outcome
  | [], o => (o, .ok)
  | [n], o => o.call prim frag (.i64 n)
  | n :: m :: r, o =>
    andThen (fun o => o.call prim frag (.i64 n)) (andThen (fun o => o.call prim sep .none) (showIntsSpec frag sep (m :: r))) o

theorem showInts_eq (hpct : '%' ∉ cfg.conv) (b : Str) (c : Char) (hf : firing cfg c = [.cint]) (item sep : Str)
    (hp : parseFmt cfg.conv item = some [.spec b c]) (hsep : isLitFmt sep = true) :
    ∀ (ns : List Int) (o : Out), showInts cfg prim shw item sep ns o = showIntsSpec prim item sep ns o := by
  intro ns
  induction ns with
  | nil => intro o; rfl
  | cons n r ih =>
    intro o
    cases r with
    | nil => simp [showInts, showIntsSpec, print_int cfg prim shw hpct b c hf item hp]
    | cons m r =>
      simp only [showInts, showIntsSpec]
      have h1 : (fun o => (printToWith cfg prim shw item [.int n] o).pair) = fun o => o.call prim item (.i64 n) := by
        funext o; exact print_int cfg prim shw hpct b c hf item hp n o
      have h2 : (fun o => (printToWith cfg prim shw sep [] o).pair) = fun o => o.call prim sep .none := by
        funext o; exact print_lit cfg prim shw hpct sep hsep [] o
      have h3 : showInts cfg prim shw item sep (m :: r) = showIntsSpec prim item sep (m :: r) := by
        funext o; exact ih o
      rw [h1, h2, h3]

/-- the opening `pre %p post` of a container's show, as calls -/
def addrCalls (pre post : Str) : Out → Out × Outcome :=
  andThen (fun o => o.call prim pre .none) (andThen (fun o => o.call prim ['%', 'p'] .ptr) (fun o => o.call prim post .none))

theorem print_ptr' (hpct : '%' ∉ cfg.conv) (hf : firing cfg 'p' = [.obj]) (f pre post : Str)
    (hp : parseFmt cfg.conv f = some [.lit pre, .spec [] 'p', .lit post]) (a : Obj) :
    (fun o => (printToWith cfg prim shw f [a] o).pair) = addrCalls prim pre post := by
  funext o; exact print_ptr cfg prim shw hpct hf f pre post hp a o

/-- **Table_Show / Tree_Show**: `<'Table' At 0x` pointer ` {` pairs `}>` -/
theorem showD_table (hpct : '%' ∉ cfg.conv) (hf : firing cfg '$' = [.show]) (hfp : firing cfg 'p' = [.obj])
    (pre post mid : Str) (h1 : parseFmt cfg.conv sc.tblOpen = some [.lit pre, .spec [] 'p', .lit post])
    (h2 : parseFmt cfg.conv sc.tblPair = some [.spec [] '$', .lit mid, .spec [] '$'])
    (h3 : isLitFmt sc.tblSep = true) (h4 : isLitFmt sc.tblClose = true) (d : Nat) (ps : List (Obj × Obj)) (o : Out) :
    showD cfg prim sc (d + 1) (.table ps) o =
      andThen (addrCalls prim pre post)
        (andThen (showPairsSpec prim (fun x o => showD cfg prim sc d x o) mid sc.tblSep ps)
          (fun o => o.call prim sc.tblClose .none)) o := by
  have e1 := print_ptr' cfg prim (fun x o => showD cfg prim sc d x o) hpct hfp _ pre post h1 (.table ps)
  have e2 : showPairs cfg prim (fun x o => showD cfg prim sc d x o) sc.tblPair sc.tblSep ps = _ :=
    funext (showPairs_eq cfg prim _ hpct hf _ mid _ h2 h3 ps)
  have e3 : (fun o => (printToWith cfg prim (fun x o => showD cfg prim sc d x o) sc.tblClose [] o).pair) = _ :=
    funext (print_lit cfg prim _ hpct _ h4 [])
  simp only [showD]
  rw [e1, e2, e3]

theorem showD_tree (hpct : '%' ∉ cfg.conv) (hf : firing cfg '$' = [.show]) (hfp : firing cfg 'p' = [.obj])
    (pre post mid : Str) (h1 : parseFmt cfg.conv sc.treOpen = some [.lit pre, .spec [] 'p', .lit post])
    (h2 : parseFmt cfg.conv sc.trePair = some [.spec [] '$', .lit mid, .spec [] '$'])
    (h3 : isLitFmt sc.treSep = true) (h4 : isLitFmt sc.treClose = true) (d : Nat) (ps : List (Obj × Obj)) (o : Out) :
    showD cfg prim sc (d + 1) (.tree ps) o =
      andThen (addrCalls prim pre post)
        (andThen (showPairsSpec prim (fun x o => showD cfg prim sc d x o) mid sc.treSep ps)
          (fun o => o.call prim sc.treClose .none)) o := by
  have e1 := print_ptr' cfg prim (fun x o => showD cfg prim sc d x o) hpct hfp _ pre post h1 (.tree ps)
  have e2 : showPairs cfg prim (fun x o => showD cfg prim sc d x o) sc.trePair sc.treSep ps = _ :=
    funext (showPairs_eq cfg prim _ hpct hf _ mid _ h2 h3 ps)
  have e3 : (fun o => (printToWith cfg prim (fun x o => showD cfg prim sc d x o) sc.treClose [] o).pair) = _ :=
    funext (print_lit cfg prim _ hpct _ h4 [])
  simp only [showD]
  rw [e1, e2, e3]

/-- **Range_Show**: `<'Range' At 0x` pointer ` [` values `]>`, each value one call with the item format read from the source (`%li` since fix 78c2117) -/
theorem showD_range (hpct : '%' ∉ cfg.conv) (hfp : firing cfg 'p' = [.obj]) (b : Str) (c : Char) (hfc : firing cfg c = [.cint])
    (pre post : Str) (h1 : parseFmt cfg.conv sc.rngOpen = some [.lit pre, .spec [] 'p', .lit post])
    (h2 : parseFmt cfg.conv sc.rngItem = some [.spec b c])
    (h3 : isLitFmt sc.rngSep = true) (h4 : isLitFmt sc.rngClose = true) (d : Nat) (ns : List Int) (o : Out) :
    showD cfg prim sc (d + 1) (.range ns) o =
      andThen (addrCalls prim pre post)
        (andThen (showIntsSpec prim sc.rngItem sc.rngSep ns) (fun o => o.call prim sc.rngClose .none)) o := by
  have e1 := print_ptr' cfg prim (fun x o => showD cfg prim sc d x o) hpct hfp _ pre post h1 (.range ns)
  have e2 : showInts cfg prim (fun x o => showD cfg prim sc d x o) sc.rngItem sc.rngSep ns = _ :=
    funext (showInts_eq cfg prim _ hpct b c hfc _ _ h2 h3 ns)
  have e3 : (fun o => (printToWith cfg prim (fun x o => showD cfg prim sc d x o) sc.rngClose [] o).pair) = _ :=
    funext (print_lit cfg prim _ hpct _ h4 [])
  simp only [showD]
  rw [e1, e2, e3]

/-- **Slice_Show**: `<'Slice' At 0x` pointer ` [` items `]>` -/
theorem showD_slice (hpct : '%' ∉ cfg.conv) (hd : '$' ∈ cfg.conv) (hf : firing cfg '$' = [.show]) (hfp : firing cfg 'p' = [.obj])
    (pre post : Str) (h1 : parseFmt cfg.conv sc.slcOpen = some [.lit pre, .spec [] 'p', .lit post])
    (h2 : isLitFmt sc.slcSep = true) (h3 : isLitFmt sc.slcClose = true)
    (d : Nat) (items : List Obj) (o : Out) :
    showD cfg prim sc (d + 1) (.slice items) o =
      andThen (addrCalls prim pre post)
        (andThen (showItemsSpec prim (fun x o => showD cfg prim sc d x o) sc.slcSep items)
          (fun o => o.call prim sc.slcClose .none)) o := by
  have e1 := print_ptr' cfg prim (fun x o => showD cfg prim sc d x o) hpct hfp _ pre post h1 (.slice items)
  have e2 : showItems cfg prim (fun x o => showD cfg prim sc d x o) sc.slcSep items = _ :=
    funext (showItems_eq cfg prim _ hpct hd hf _ h2 items)
  have e3 : (fun o => (printToWith cfg prim (fun x o => showD cfg prim sc d x o) sc.slcClose [] o).pair) = _ :=
    funext (print_lit cfg prim _ hpct _ h3 [])
  simp only [showD]
  rw [e1, e2, e3]

/-- one `frag` call per value is "each value shown by its own show", when the show of an Int IS that call -/
theorem showIntsSpec_eq_items (frag sep : Str) (elem : Obj → Out → Out × Outcome)
    (he : ∀ n o, elem (.int n) o = o.call prim frag (.i64 n)) :
    ∀ (ns : List Int) (o : Out), showIntsSpec prim frag sep ns o = showItemsSpec prim elem sep (ns.map Obj.int) o := by
  intro ns
  induction ns with
  | nil => intro o; rfl
  | cons n r ih =>
    intro o
    cases r with
    | nil => simp [showIntsSpec, showItemsSpec, he]
    | cons m r =>
      have h3 : showIntsSpec prim frag sep (m :: r) = showItemsSpec prim elem sep ((m :: r).map Obj.int) := by
        funext o; exact ih o
      have h1 : (fun o => o.call prim frag (.i64 n)) = elem (.int n) := by
        funext o; exact (he n o).symm
      simp only [showIntsSpec, List.map_cons, showItemsSpec]
      rw [h1, h3]
      rfl

/-- **Int_Show**: one call with the Int's value and the format of `Int_Show` -/
theorem showD_int (hpct : '%' ∉ cfg.conv) (b : Str) (c : Char) (hfc : firing cfg c = [.cint])
    (h : parseFmt cfg.conv sc.intFmt = some [.spec b c]) (d : Nat) (n : Int) (o : Out) :
    showD cfg prim sc (d + 1) (.int n) o = o.call prim sc.intFmt (.i64 n) := by
  simp only [showD]
  exact print_int cfg prim _ hpct b c hfc _ h n o

end Cello.Fmt
