/-
  C14 helper lemmas: `print_to(out, pos, "%$", a)` is `show_to(a, out, pos)`; a literal format is one call; the show of a
  container is its elements' own show, each once, in order, between the opening, the separator and the closing text.
-/
import CelloProofs.Lemmas.FmtRefine
import CelloProofs.Lemmas.FmtParse
import CelloProofs.Lemmas.FmtCalls

namespace Cello.Fmt

variable (cfg : Cfg) (prim : Prim) (shw : Obj → Out → Out × Outcome)

/-- a non-empty run of ordinary characters -/
def isLitFmt (s : Str) : Bool := !s.isEmpty && s.all ordinary

theorem isLitFmt_wf {conv : Str} {s : Str} (h : isLitFmt s = true) : wfSegs conv [.lit s] = true := by
  simp only [isLitFmt, Bool.and_eq_true, Bool.not_eq_true', List.all_eq_true] at h
  simp only [wfSegs, Seg.wf, Bool.and_eq_true, Bool.not_eq_true', List.all_eq_true]
  exact ⟨h.1, fun x hx => by have := h.2 x hx; simpa [ordinary] using this⟩

/-- `print_to(out, pos, "literal")` is one `format_to` call with the literal -/
theorem print_lit (hpct : '%' ∉ cfg.conv) (s : Str) (hs : isLitFmt s = true) (args : List Obj) (o : Out) :
    (printToWith cfg prim shw s args o).pair = o.call prim s .none := by
  have := printToWith_pair cfg prim shw args hpct [.lit s] (isLitFmt_wf hs) o
  simp only [render, Seg.text, List.map_cons, List.map_nil, List.flatten_cons, List.flatten_nil, List.append_nil, refRun] at this
  rw [this]
  rcases o.call prim s .none with ⟨o', oc⟩
  cases oc <;> rfl

/-- `print_to(out, pos, "%$", a)` is `show_to(a, out, pos)` -/
theorem print_show (hpct : '%' ∉ cfg.conv) (hd : '$' ∈ cfg.conv) (hf : firing cfg '$' = [.show]) (a : Obj) (o : Out) :
    (printToWith cfg prim shw ['%', '$'] [a] o).pair = shw a o := by
  have hwf : wfSegs cfg.conv [.spec [] '$'] = true := by
    have : ('$' : Char) ≠ NUL := by decide
    simp [wfSegs, Seg.wf, hd, this]
  have := printToWith_pair cfg prim shw [a] hpct [.spec [] '$'] hwf o
  simp only [render, Seg.text, List.map_cons, List.map_nil, List.flatten_cons, List.flatten_nil, List.nil_append,
    List.append_nil] at this
  rw [this]
  simp only [refRun, List.getElem?_cons_zero]
  rw [dispatch_eq_runKinds]
  change (match runKinds prim shw (firing cfg '$') _ a o with
    | (o', Outcome.ok) => refRun cfg prim shw [a] [] 1 o'
    | bad => bad) = _
  rw [hf]
  simp only [runKinds, action]
  rcases shw a o with ⟨o', oc⟩
  cases oc <;> simp [refRun]

/-- what a container's show does with its items: each item's own show, in order, the separator between two items -/
def showItemsSpec (sep : Str) : List Obj → Out → Out × Outcome
  | [], o => (o, .ok)
  | [a], o => shw a o
  | a :: b :: r, o => andThen (shw a) (andThen (fun o => o.call prim sep .none) (showItemsSpec sep (b :: r))) o

theorem showItems_eq (hpct : '%' ∉ cfg.conv) (hd : '$' ∈ cfg.conv) (hf : firing cfg '$' = [.show])
    (sep : Str) (hsep : isLitFmt sep = true) :
    ∀ (items : List Obj) (o : Out), showItems cfg prim shw sep items o = showItemsSpec prim shw sep items o := by
  intro items
  induction items with
  | nil => intro o; rfl
  | cons a r ih =>
    intro o
    cases r with
    | nil => simp [showItems, showItemsSpec, print_show cfg prim shw hpct hd hf]
    | cons b r =>
      simp only [showItems, showItemsSpec, andThen, print_show cfg prim shw hpct hd hf, print_lit cfg prim shw hpct sep hsep]
      rcases shw a o with ⟨o', oc⟩
      cases oc <;> simp [ih]

variable (sc : ShowCfg)

/-- **Tuple_Show**: `tuple(` items `)` -/
theorem showD_tuple (hpct : '%' ∉ cfg.conv) (hd : '$' ∈ cfg.conv) (hf : firing cfg '$' = [.show])
    (h1 : isLitFmt sc.tupOpen = true) (h2 : isLitFmt sc.tupSep = true) (h3 : isLitFmt sc.tupClose = true)
    (d : Nat) (items : List Obj) (o : Out) :
    showD cfg prim sc (d + 1) (.tuple items) o =
      andThen (fun o => o.call prim sc.tupOpen .none)
        (andThen (showItemsSpec prim (fun x o => showD cfg prim sc d x o) sc.tupSep items)
          (fun o => o.call prim sc.tupClose .none)) o := by
  simp only [showD, andThen, print_lit cfg prim _ hpct _ h1, print_lit cfg prim _ hpct _ h3,
    showItems_eq cfg prim _ hpct hd hf _ h2]

/-- a format `pre %p post` with one argument: three calls -/
theorem print_ptr (hpct : '%' ∉ cfg.conv) (hf : firing cfg 'p' = [.obj]) (f pre post : Str)
    (hp : parseFmt cfg.conv f = some [.lit pre, .spec [] 'p', .lit post]) (a : Obj) (o : Out) :
    (printToWith cfg prim shw f [a] o).pair =
      andThen (fun o => o.call prim pre .none)
        (andThen (fun o => o.call prim ['%', 'p'] .ptr) (fun o => o.call prim post .none)) o := by
  obtain ⟨hr, hwf, _⟩ := parse_sound cfg.conv _ _ _ hp
  rw [← hr, printToWith_pair cfg prim shw [a] hpct _ hwf o]
  have hd : ∀ o, dispatch prim shw cfg.disp 'p' ['%', 'p'] a o = o.call prim ['%', 'p'] .ptr := by
    intro o
    rw [dispatch_eq_runKinds]
    change runKinds prim shw (firing cfg 'p') _ a o = _
    rw [hf, runKinds_single]
    rfl
  simp only [refRun, List.getElem?_cons_zero, List.nil_append, hd, andThen]
  rcases o.call prim pre .none with ⟨o1, oc1⟩
  cases oc1 <;> simp only []
  rcases o1.call prim ['%', 'p'] .ptr with ⟨o2, oc2⟩
  cases oc2 <;> simp only []
  rcases o2.call prim post .none with ⟨o3, oc3⟩
  cases oc3 <;> rfl

/-- **Array_Show / List_Show**: `<'Array' At 0x` pointer ` [` items `]>` -/
theorem showD_array (hpct : '%' ∉ cfg.conv) (hd : '$' ∈ cfg.conv) (hf : firing cfg '$' = [.show]) (hfp : firing cfg 'p' = [.obj])
    (pre post : Str) (h1 : parseFmt cfg.conv sc.arrOpen = some [.lit pre, .spec [] 'p', .lit post])
    (h2 : isLitFmt sc.arrSep = true) (h3 : isLitFmt sc.arrClose = true)
    (d : Nat) (items : List Obj) (o : Out) :
    showD cfg prim sc (d + 1) (.array items) o =
      andThen (andThen (fun o => o.call prim pre .none)
          (andThen (fun o => o.call prim ['%', 'p'] .ptr) (fun o => o.call prim post .none)))
        (andThen (showItemsSpec prim (fun x o => showD cfg prim sc d x o) sc.arrSep items)
          (fun o => o.call prim sc.arrClose .none)) o := by
  simp only [showD, andThen, print_ptr cfg prim _ hpct hfp _ pre post h1, print_lit cfg prim _ hpct _ h3,
    showItems_eq cfg prim _ hpct hd hf _ h2]

theorem showD_list (hpct : '%' ∉ cfg.conv) (hd : '$' ∈ cfg.conv) (hf : firing cfg '$' = [.show]) (hfp : firing cfg 'p' = [.obj])
    (pre post : Str) (h1 : parseFmt cfg.conv sc.lstOpen = some [.lit pre, .spec [] 'p', .lit post])
    (h2 : isLitFmt sc.lstSep = true) (h3 : isLitFmt sc.lstClose = true)
    (d : Nat) (items : List Obj) (o : Out) :
    showD cfg prim sc (d + 1) (.list items) o =
      andThen (andThen (fun o => o.call prim pre .none)
          (andThen (fun o => o.call prim ['%', 'p'] .ptr) (fun o => o.call prim post .none)))
        (andThen (showItemsSpec prim (fun x o => showD cfg prim sc d x o) sc.lstSep items)
          (fun o => o.call prim sc.lstClose .none)) o := by
  simp only [showD, andThen, print_ptr cfg prim _ hpct hfp _ pre post h1, print_lit cfg prim _ hpct _ h3,
    showItems_eq cfg prim _ hpct hd hf _ h2]

end Cello.Fmt
