/-
  CelloProofs/Lemmas/RHAbsIns.lean — the insert abstraction of `Table_Set_Move`.
  * new key (either tie rule): the loop ends at an empty slot, never takes the equal-key branch, keeps `Inv0`, the result
    holds exactly the old entries plus the new one, one more occupied slot;
  * existing key, strict rule `j > p` (`update_hits_existing`, this is the fix of F02 as a theorem): the probe reaches the
    equal key before any displacement and before an empty slot, and replaces it in place.
-/
import CelloProofs.Lemmas.TableBasic
set_option linter.unusedSectionVars false
set_option linter.unusedVariables false
namespace Cello.Table
open RH
variable {κ ν : Type} [DecidableEq κ] {n : Nat}

/-- new key: `setLoop` behaves like the pure displacement loop -/
theorem setLoop_fresh (hash : κ → Nat) (ge : Bool) :
    ∀ (fuel : Nat) (s : Slots κ ν n) (c : Entry κ ν) (i j z : Nat) (hi : i < n),
      Pending hash s c i j z → dist n z i < fuel →
      ∃ s', setLoop ge fuel s c i j hi = some (s', true) ∧ Inv0 hash s' ∧
        (∀ e, Mem s' e ↔ Mem s e ∨ e = c) ∧ count s' = count s + 1 := by
  intro fuel
  induction fuel with
  | zero => intro s c i j z hi _ h; omega
  | succ fuel ih =>
    intro s c i j z hi P hf
    unfold setLoop
    split
    · rename_i hnone
      refine ⟨_, rfl, place_empty hash s c i j z hi P hnone, ?_, count_set_none_some s i hi c hnone⟩
      intro e
      rw [mem_set_iff, mem_iff_at s i hi e, hnone]
      constructor
      · rintro (h | h)
        · cases h; exact Or.inr rfl
        · exact Or.inl (Or.inr h)
      · rintro ((h | h) | h)
        · cases h
        · exact Or.inr h
        · subst h; exact Or.inl rfl
    · rename_i r hr
      have hne : ¬ r.key = c.key := P.fresh i hi r hr
      rw [if_neg hne]
      simp only []
      by_cases hcond : (if ge then j ≥ dist n i r.home else j > dist n i r.home)
      · rw [if_pos hcond]
        have hle : dist n i r.home ≤ j := by
          cases ge <;> simp at hcond <;> omega
        obtain ⟨P', hm⟩ := swap_step hash s c i j z hi P r hr hle
        obtain ⟨s', hs', hinv, hmem, hcnt⟩ := ih _ _ _ _ z (next_lt hi) P' (by omega)
        refine ⟨s', hs', hinv, ?_, ?_⟩
        · intro e
          rw [hmem e, mem_set_iff, mem_iff_at s i hi e, hr]
          constructor
          · rintro ((h | h) | h)
            · cases h; exact Or.inr rfl
            · exact Or.inl (Or.inr h)
            · subst h; exact Or.inl (Or.inl rfl)
          · rintro ((h | h) | h)
            · cases h; exact Or.inr rfl
            · exact Or.inl (Or.inr h)
            · subst h; exact Or.inl (Or.inl rfl)
        · rw [hcnt, count_set_some_some s i hi c r hr]
      · rw [if_neg hcond]
        have hle : j ≤ dist n i r.home := by
          cases ge <;> simp at hcond <;> omega
        obtain ⟨P', hm⟩ := pass_step hash s c i j z hi P r hr hle
        exact ih _ _ _ _ z (next_lt hi) P' (by omega)

/-- the start of `Table_Set_Move` for a key that is not in the table is a `Pending` state -/
theorem pending_start (hash : κ → Nat) (s : Slots κ ν n) (inv : Inv0 hash s) (k : κ) (v : ν) (hn : 0 < n)
    (hfresh : ¬ HasKey s k) (z : Nat) (hz : z < n) (hze : s[z] = none) :
    Pending hash s ⟨k, hash k % n, v⟩ (hash k % n) 0 z := by
  refine ⟨inv, rfl, ?_, hz, hze, ?_, ?_, ?_⟩
  · intro q hq e he hk
    exact hfresh ⟨e, ⟨q, hq, he⟩, hk⟩
  · simp [dist_self]
  · simp
  · intro h; omega

/-- walking from slot `i` (offset `j` from the key's home) to the slot `p` that holds the key, under the strict rule:
    no displacement, no empty slot, no other equal key on the way; the entry at `p` is replaced in place. -/
theorem setLoop_hits (hash : κ → Nat) (s : Slots κ ν n) (inv : Inv0 hash s) (c : Entry κ ν)
    (p : Nat) (hp : p < n) (e : Entry κ ν) (hpe : s[p] = some e) (hk : e.key = c.key) :
    ∀ (m : Nat) (i j : Nat) (hi : i < n) (fuel : Nat),
      dist n p i = m → j + m = dist n p e.home → m < fuel →
      setLoop false fuel s c i j hi = some (s.set p (some c) hp, false) := by
  intro m
  induction m with
  | zero =>
    intro i j hi fuel hm hj hf
    have hip : i = p := by unfold dist at hm; split at hm <;> omega
    subst hip
    match fuel, hf with
    | fuel+1, _ =>
      unfold setLoop
      simp only [hpe, hk, if_true]
  | succ m ih =>
    intro i j hi fuel hm hj hf
    match fuel, hf with
    | fuel+1, hf =>
      obtain ⟨e', he', hD⟩ := chain0 hash s inv p hp e hpe (m+1) i hi hm (by omega)
      have hip : i ≠ p := by
        intro h; subst h; simp [dist_self] at hm
      have hkk : ¬ e'.key = c.key := by
        intro h
        exact hip (inv.distinct i p hi hp e' e he' hpe (h.trans hk.symm))
      unfold setLoop
      simp only [he', hkk, if_false]
      have : ¬ j > dist n i e'.home := by omega
      simp only [this, if_false, Bool.false_eq_true]
      exact ih (next n i) (j+1) (next_lt hi) fuel (dist_next hp hi hm) (by omega) (by omega)

/-- **F02's fix as a theorem.** Under the invariant, `Table_Set_Move` with the strict test `j > p`, given a key that is
    already stored at slot `p`, replaces the record at `p` and nothing else (and reports "no new item"). -/
theorem update_hits_existing (hash : κ → Nat) (s : Slots κ ν n) (inv : Inv0 hash s) (hn : 0 < n) (k : κ) (v : ν)
    (p : Nat) (hp : p < n) (e : Entry κ ν) (hpe : s[p] = some e) (hk : e.key = k) :
    setLoop false n s ⟨k, hash k % n, v⟩ (hash k % n) 0 (Nat.mod_lt _ hn)
      = some (s.set p (some ⟨k, hash k % n, v⟩) hp, false) := by
  have hh : e.home = hash k % n := by rw [← hk]; exact inv.home_ok p hp e hpe
  have hhome : hash k % n < n := Nat.mod_lt _ hn
  apply setLoop_hits hash s inv ⟨k, hash k % n, v⟩ p hp e hpe hk (dist n p (hash k % n)) _ 0 hhome n rfl
  · rw [hh]; omega
  · exact dist_lt hp hhome

/-- replacing an entry by one with the same key and home keeps `Inv0` -/
theorem inv0_set_same (hash : κ → Nat) (s : Slots κ ν n) (inv : Inv0 hash s) (p : Nat) (hp : p < n)
    (e c : Entry κ ν) (hpe : s[p] = some e) (hk : c.key = e.key) (hh : c.home = e.home) :
    Inv0 hash (s.set p (some c) hp) := by
  refine ⟨?_, ?_, ?_⟩
  · intro q hq x hx
    rw [Vector.getElem_set] at hx
    split at hx
    · cases hx; rw [hh, hk]; exact inv.home_ok p hp e hpe
    · exact inv.home_ok q hq x hx
  · intro a b ha hb x y hxa hyb hxy
    rw [Vector.getElem_set] at hxa hyb
    split at hxa <;> split at hyb
    · omega
    · rename_i h1 h2; cases hxa; subst h1
      exact inv.distinct p b hp hb e y hpe hyb (hk.symm.trans hxy)
    · rename_i h1 h2; cases hyb; subst h2
      exact inv.distinct a p ha hp x e hxa hpe (hxy.trans hk)
    · exact inv.distinct a b ha hb x y hxa hyb hxy
  · intro q hq x hx hpos
    rw [Vector.getElem_set] at hx
    have key : ∀ y, s[q] = some y → y.home = x.home → ∃ e', (s.set p (some c) hp)[prev n q]'(prev_lt hq) = some e' ∧
        dist n q x.home ≤ dist n (prev n q) e'.home + 1 := by
      intro y hy hyx
      obtain ⟨e', he', hle⟩ := inv.loc q hq y hy (by rw [hyx]; exact hpos)
      rw [hyx] at hle
      by_cases hpq : p = prev n q
      · subst hpq
        rw [hpe] at he'; cases he'
        exact ⟨c, by rw [Vector.getElem_set_self], by rw [hh]; exact hle⟩
      · exact ⟨e', by rw [Vector.getElem_set_ne hp (prev_lt hq) hpq]; exact he', hle⟩
    split at hx
    · rename_i h1; subst h1; cases hx
      exact key e hpe hh.symm
    · exact key x hx rfl

end Cello.Table
