/-
  CelloProofs/Lemmas/RegistryIns.lean — GC_Set_Ptr on a table that does not hold the pointer: the loop with the early
  return on an equal pointer coincides with the shared robin-hood insertion loop, which preserves the invariant
  (Lemmas/RHIns.lean); the stored entries afterwards are the old ones plus the new one; one more slot is occupied.
-/
import Cello.Registry
import CelloProofs.Lemmas.RH
import CelloProofs.Lemmas.RHIns
import CelloProofs.Lemmas.RHErase
set_option linter.unusedSectionVars false
set_option linter.unusedVariables false
namespace RH
variable {κ ε : Type} [DecidableEq κ] {n : Nat}

theorem mem_set_empty (s : Slots κ ε n) (i : Nat) (hi : i < n) (hnone : s[i] = none) (c e : Entry κ ε) :
    Mem (s.set i (some c) hi) e ↔ Mem s e ∨ e = c := by
  constructor
  · rintro ⟨q, hq, h⟩
    rw [Vector.getElem_set] at h; split at h
    · cases h; exact Or.inr rfl
    · exact Or.inl ⟨q, hq, h⟩
  · rintro (⟨q, hq, h⟩ | h)
    · refine ⟨q, hq, ?_⟩
      rw [Vector.getElem_set]; split
      · rename_i hiq; subst hiq; rw [hnone] at h; cases h
      · exact h
    · subst h; exact ⟨i, hi, by rw [Vector.getElem_set_self]⟩

theorem mem_set_occupied (s : Slots κ ε n) (i : Nat) (hi : i < n) (r : Entry κ ε) (hr : s[i] = some r) (c e : Entry κ ε) :
    Mem (s.set i (some c) hi) e ∨ e = r ↔ Mem s e ∨ e = c := by
  constructor
  · rintro (⟨q, hq, h⟩ | h)
    · rw [Vector.getElem_set] at h; split at h
      · cases h; exact Or.inr rfl
      · exact Or.inl ⟨q, hq, h⟩
    · subst h; exact Or.inl ⟨i, hi, hr⟩
  · rintro (⟨q, hq, h⟩ | h)
    · by_cases hiq : i = q
      · subst hiq; rw [hr] at h; cases h; exact Or.inr rfl
      · left; refine ⟨q, hq, ?_⟩
        rw [Vector.getElem_set, if_neg hiq]; exact h
    · subst h; exact Or.inl ⟨i, hi, by rw [Vector.getElem_set_self]⟩

/-- the insertion loop only moves entries: afterwards the table stores the old entries and the carried one -/
theorem insertLoop_mem (ge : Bool) :
    ∀ (fuel : Nat) (s : Slots κ ε n) (c : Entry κ ε) (i j : Nat) (hi : i < n) (s' : Slots κ ε n),
      insertLoop ge fuel s c i j hi = some s' → ∀ e, Mem s' e ↔ Mem s e ∨ e = c := by
  intro fuel
  induction fuel with
  | zero => intro s c i j hi s' h; simp [insertLoop] at h
  | succ fuel ih =>
    intro s c i j hi s' h e
    unfold insertLoop at h
    split at h
    · rename_i hnone
      cases h
      exact mem_set_empty s i hi hnone c e
    · rename_i r hr
      simp only [] at h
      by_cases hcond : (if ge then j ≥ dist n i r.home else j > dist n i r.home)
      · rw [if_pos hcond] at h
        rw [ih _ _ _ _ _ s' h e]
        exact mem_set_occupied s i hi r hr c e
      · rw [if_neg hcond] at h
        exact ih _ _ _ _ _ s' h e

theorem occ_set_empty (s : Slots κ ε n) (i : Nat) (hi : i < n) (hnone : s[i] = none) (c : Entry κ ε) :
    occ (s.set i (some c) hi) = occ s + 1 := by
  unfold occ; rw [Vector.countP_set, hnone]; simp

theorem occ_pos_of_some (s : Slots κ ε n) (i : Nat) (hi : i < n) (r : Entry κ ε) (hr : s[i] = some r) : 0 < occ s := by
  have := Vector.boole_getElem_le_countP (p := Option.isSome) (xs := s) hi
  rw [hr] at this; unfold occ; simpa using this

theorem occ_set_occupied (s : Slots κ ε n) (i : Nat) (hi : i < n) (r : Entry κ ε) (hr : s[i] = some r) (c : Entry κ ε) :
    occ (s.set i (some c) hi) = occ s := by
  have hp := occ_pos_of_some s i hi r hr
  unfold occ at *; rw [Vector.countP_set, hr]; simp; omega

theorem insertLoop_occ (ge : Bool) :
    ∀ (fuel : Nat) (s : Slots κ ε n) (c : Entry κ ε) (i j : Nat) (hi : i < n) (s' : Slots κ ε n),
      insertLoop ge fuel s c i j hi = some s' → occ s' = occ s + 1 := by
  intro fuel
  induction fuel with
  | zero => intro s c i j hi s' h; simp [insertLoop] at h
  | succ fuel ih =>
    intro s c i j hi s' h
    unfold insertLoop at h
    split at h
    · rename_i hnone
      cases h
      exact occ_set_empty s i hi hnone c
    · rename_i r hr
      simp only [] at h
      by_cases hcond : (if ge then j ≥ dist n i r.home else j > dist n i r.home)
      · rw [if_pos hcond] at h
        rw [ih _ _ _ _ _ s' h]
        rw [occ_set_occupied s i hi r hr c]
      · rw [if_neg hcond] at h
        exact ih _ _ _ _ _ s' h

/-- fewer occupied slots than slots: some slot is empty -/
theorem exists_empty_of_occ_lt (s : Slots κ ε n) (h : occ s < n) : ∃ z, ∃ hz : z < n, s[z] = none := by
  apply Classical.byContradiction
  intro hno
  have hall : ∀ a ∈ s, Option.isSome a = true := by
    intro a ha
    obtain ⟨i, hi, rfl⟩ := Vector.mem_iff_getElem.1 ha
    cases hsi : s[i] with
    | none => exact absurd ⟨i, hi, hsi⟩ hno
    | some _ => rfl
  have := (Vector.countP_eq_size (p := Option.isSome) (xs := s)).2 hall
  unfold occ at h; omega

theorem occ_replicate_none : occ (Vector.replicate n (none : Option (Entry κ ε))) = 0 := by
  unfold occ; rw [Vector.countP_replicate]; simp

end RH

namespace Cello.Registry
open RH

/-- under the `Pending` invariant the carried pointer never equals a stored one, so GC_Set_Ptr's loop is the shared loop -/
theorem setPtrLoop_eq_insertLoop {n : Nat} (hash : Nat → Nat) (ge : Bool) :
    ∀ (fuel : Nat) (s : Slots Nat Payload n) (c : Ent) (i j z : Nat) (hi : i < n),
      Pending hash s c i j z → dist n z i < fuel →
      setPtrLoop ge fuel s c i j hi = insertLoop ge fuel s c i j hi := by
  intro fuel
  induction fuel with
  | zero => intro s c i j z hi _ h; omega
  | succ fuel ih =>
    intro s c i j z hi P hf
    unfold setPtrLoop insertLoop
    cases hr : s[i] with
    | none => rfl
    | some r =>
      have hne : ¬ r.key = c.key := P.fresh i hi r hr
      simp only [hne, if_false]
      by_cases hcond : (if ge then j ≥ dist n i r.home else j > dist n i r.home)
      · rw [if_pos hcond, if_pos hcond]
        have hle : dist n i r.home ≤ j := by
          cases ge <;> simp at hcond <;> omega
        obtain ⟨P', hm⟩ := swap_step hash s c i j z hi P r hr hle
        exact ih _ _ _ _ z (next_lt hi) P' (by omega)
      · rw [if_neg hcond, if_neg hcond]
        have hle : j ≤ dist n i r.home := by
          cases ge <;> simp at hcond <;> omega
        obtain ⟨P', hm⟩ := pass_step hash s c i j z hi P r hr hle
        exact ih _ _ _ _ z (next_lt hi) P' (by omega)

theorem dist_self {n i : Nat} : dist n i i = 0 := by unfold dist; split <;> omega

/-- **GC_Set_Ptr.**  On a table that satisfies the invariant, does not hold `p` and will still have an empty slot
    afterwards: the loop terminates, the invariant holds, the entries are the old ones plus `(p, home, root, unmarked)`. -/
theorem setPtr_spec {n : Nat} (c : Cfg) (s : Slots Nat Payload n) (inv : Inv0 (hashOf c) s) (p : Nat) (root : Bool)
    (hfresh : ∀ q (hq : q < n) e, s[q] = some e → e.key ≠ p) (hroom : occ s + 1 < n) :
    ∃ s', setPtr c s p root = some s' ∧ Inv0 (hashOf c) s' ∧
      (∀ e, Mem s' e ↔ Mem s e ∨ e = ⟨p, hashOf c p % n, ⟨root, false⟩⟩) ∧ occ s' = occ s + 1 := by
  have hn : 0 < n := by omega
  obtain ⟨z, hz, hze⟩ := exists_empty_of_occ_lt s (by omega)
  have hhome : hashOf c p % n < n := Nat.mod_lt _ hn
  let e0 : Ent := ⟨p, hashOf c p % n, ⟨root, false⟩⟩
  have P : Pending (hashOf c) s e0 (hashOf c p % n) 0 z :=
    ⟨inv, rfl, hfresh, hz, hze, dist_self.symm, by show 0 + _ = _; rw [Nat.zero_add], by intro h; omega⟩
  have hf : dist n z (hashOf c p % n) < n := dist_lt hz hhome
  obtain ⟨s', hs', hinv⟩ := insertLoop_inv (hashOf c) c.tieGe n s e0 _ 0 z hhome P hf
  refine ⟨s', ?_, hinv, insertLoop_mem _ _ _ _ _ _ _ s' hs', insertLoop_occ _ _ _ _ _ _ _ s' hs'⟩
  unfold setPtr
  rw [dif_pos hn, setPtrLoop_eq_insertLoop (hashOf c) c.tieGe n s e0 _ 0 z hhome P hf]
  exact hs'

end Cello.Registry
