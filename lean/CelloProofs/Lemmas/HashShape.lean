/-
  Lemmas for C10: the Tree as a search tree of entries (`Sh`) refines its iteration sequence — for every shape, and for every
  header / key / value width: `Tree_Set` is `treeSet` and `Tree_Rem` (with the relocation of the in-order neighbour at the width
  of the source) is `treeRem` on the in-order sequence. Hence every shape reached by any history, with any relinking in
  between, iterates in strictly descending key order.
-/
import Cello.Hash
import CelloProofs.Lemmas.HashVal
import CelloProofs.Lemmas.HashObj
import CelloProofs.Lemmas.HashOrder
import CelloProofs.Lemmas.HashTreeInv
import CelloProofs.Lemmas.HashMove
set_option linter.unusedSimpArgs false
set_option linter.unusedVariables false

namespace Cello.Hash

/-! ### order facts -/

/-- `x > e` and `e` compares 0 with the non-NaN `k`: then `x > k` -/
theorem scalarCmp_congr_right (addr : Nat → Bytes) (x e k : Scalar) (p : Int) (hk : k.isNaN = false)
    (h1 : scalarCmp addr x e = some p) (hp : 0 < p) (h0 : scalarCmp addr e k = some 0) :
    ∃ z, scalarCmp addr x k = some z ∧ 0 < z := by
  cases e <;> cases k <;> simp only [scalarCmp, reduceCtorEq] at h0 <;> cases x <;> simp only [scalarCmp, reduceCtorEq] at h1 ⊢
  · simp only [Option.some.injEq] at h0 h1
    rw [← intCmp_eq_zero _ _ h0]; exact ⟨_, rfl, h1 ▸ hp⟩
  · simp only [Option.some.injEq] at h0 h1; subst h1
    obtain ⟨nx, ne, k1⟩ := floatCmp_pos.mp hp
    have hk' : floatIsNaN _ = false := hk
    refine ⟨_, rfl, floatCmp_pos.mpr ⟨nx, hk', ?_⟩⟩
    unfold floatCmp at h0
    simp only [ne, hk', Bool.or_self, Bool.false_eq_true, if_false] at h0
    split at h0
    · simp at h0
    · split at h0
      · simp at h0
      · omega
  · simp only [Option.some.injEq] at h0 h1
    rw [← bytesCmp_eq_zero _ _ h0]; exact ⟨_, rfl, h1 ▸ hp⟩
  · simp only [Option.some.injEq] at h0 h1
    rw [← bytesCmp_eq_zero _ _ h0]; exact ⟨_, rfl, h1 ▸ hp⟩
  · split at h0
    · split at h1
      · rename_i e1 e2
        subst e1 e2
        simp only [Option.some.injEq] at h0 h1
        simp only [if_true]
        rw [← bytesCmp_eq_zero _ _ h0]; exact ⟨_, rfl, h1 ▸ hp⟩
      · simp at h1
    · simp at h0
  · split at h0
    · split at h1
      · rename_i e1 e2
        subst e1 e2
        simp only [Option.some.injEq] at h0 h1
        simp only [if_true]
        rw [← bytesCmp_eq_zero _ _ h0]; exact ⟨_, rfl, h1 ▸ hp⟩
      · simp at h1
    · simp at h0

/-- values of one type can be compared -/
theorem scalarCmp_isSome_of_ty (addr : Nat → Bytes) (a b : Scalar) (h : a.ty = b.ty) : ∃ c, scalarCmp addr a b = some c := by
  rcases a with _ | _ | _ | _ | ⟨_ | _, _⟩ | _ <;> rcases b with _ | _ | _ | _ | ⟨_ | _, _⟩ | _ <;>
    simp only [Scalar.ty, reduceCtorEq, Ty.raw.injEq] at h <;> simp [scalarCmp, h]

theorem keyEq_false_of_pos {addr : Nat → Bytes} {a b : Scalar} {z : Int} (h : scalarCmp addr a b = some z) (hz : 0 < z) :
    keyEq addr a b = false := by
  simp [keyEq, h]; omega

theorem keyEq_false_of_neg {addr : Nat → Bytes} {a b : Scalar} {z : Int} (h : scalarCmp addr a b = some z) (hz : z < 0) :
    keyEq addr a b = false := by
  simp [keyEq, h]; omega

/-- `b > a` seen from `a` -/
theorem scalarCmp_neg_of_swap {addr : Nat → Bytes} {a b : Scalar} {z : Int} (h : scalarCmp addr b a = some z) :
    scalarCmp addr a b = some (-z) := by
  rw [scalarCmp_swap, h]; rfl

/-- the linear check the driver evaluates on Tree states implies the Tree invariant -/
theorem treeSeqAdjB_sound (addr : Nat → Bytes) : ∀ (es : List (Scalar × Scalar)), treeSeqAdjB addr es = true → TreeSeq addr es := by
  intro es
  induction es with
  | nil => intro _; simp [TreeSeq]
  | cons e rest ih =>
    intro h
    cases rest with
    | nil => simp [TreeSeq]
    | cons f rest =>
      simp only [treeSeqAdjB, Bool.and_eq_true] at h
      obtain ⟨hef, hrest⟩ := h
      have hdef : Desc addr e f := by
        cases hc : scalarCmp addr e.1 f.1 with
        | none => simp [hc] at hef
        | some c => simp only [hc, decide_eq_true_eq] at hef; exact ⟨c, hc, hef⟩
      have hseq : TreeSeq addr (f :: rest) := ih hrest
      refine List.pairwise_cons.mpr ⟨fun g hg => ?_, hseq⟩
      rcases List.mem_cons.mp hg with rfl | hg
      · exact hdef
      · obtain ⟨c, hc, hpos⟩ := hdef
        obtain ⟨d, hd, hdpos⟩ := (List.pairwise_cons.mp hseq).1 g hg
        exact scalarCmp_trans addr e.1 f.1 g.1 c d hc hpos hd hdpos

/-! ### `treeSet` / `treeRem` on a concatenation -/

theorem treeSet_append_lt (addr : Nat → Bytes) (xs ys : List (Scalar × Scalar)) (e : Scalar × Scalar) (k v : Scalar) (c : Int)
    (hc : scalarCmp addr e.1 k = some c) (hneg : c < 0) :
    treeSet addr (xs ++ e :: ys) k v = treeSet addr xs k v ++ e :: ys := by
  induction xs with
  | nil =>
    have hne : ¬ c = 0 := by omega
    simp [treeSet, hc, hne, hneg]
  | cons x xs ih =>
    simp only [List.cons_append, treeSet]
    cases hx : scalarCmp addr x.1 k with
    | none => simp
    | some d =>
      simp only []
      by_cases h0 : d = 0
      · simp [h0]
      · by_cases hl : d < 0
        · simp [h0, hl]
        · simp [h0, hl, ih]

theorem treeSet_append_gt (addr : Nat → Bytes) (xs ys : List (Scalar × Scalar)) (k v : Scalar)
    (h : ∀ x ∈ xs, ∃ c, scalarCmp addr x.1 k = some c ∧ 0 < c) :
    treeSet addr (xs ++ ys) k v = xs ++ treeSet addr ys k v := by
  induction xs with
  | nil => rfl
  | cons x xs ih =>
    obtain ⟨c, hc, hpos⟩ := h x (by simp)
    have hne : ¬ c = 0 := by omega
    have hnl : ¬ c < 0 := by omega
    simp only [List.cons_append, treeSet, hc, hne, hnl, if_false]
    rw [ih (fun y hy => h y (by simp [hy]))]

theorem treeRem_append (addr : Nat → Bytes) (xs ys : List (Scalar × Scalar)) (k : Scalar) :
    treeRem addr (xs ++ ys) k =
      match treeRem addr xs k with
      | some r => some (r ++ ys)
      | none => (treeRem addr ys k).map (xs ++ ·) := by
  induction xs with
  | nil => simp [treeRem]
  | cons x xs ih =>
    simp only [List.cons_append, treeRem]
    by_cases hx : keyEq addr x.1 k = true
    · simp [hx]
    · simp only [hx, Bool.false_eq_true, if_false, ih]
      cases treeRem addr xs k with
      | some r => simp
      | none => cases treeRem addr ys k <;> simp

theorem treeRem_none_of_ne (addr : Nat → Bytes) (ys : List (Scalar × Scalar)) (k : Scalar)
    (h : ∀ y ∈ ys, keyEq addr y.1 k = false) : treeRem addr ys k = none := by
  induction ys with
  | nil => rfl
  | cons y ys ih =>
    simp only [treeRem, h y (by simp), Bool.false_eq_true, if_false, ih (fun z hz => h z (by simp [hz]))]
    rfl

/-! ### the shape -/

theorem shMax_toList : ∀ (t : Sh) (p : Scalar × Scalar) (t' : Sh), shMax t = some (p, t') → t.toList = t'.toList ++ [p] := by
  intro t
  induction t with
  | nil => intro p t' h; simp [shMax] at h
  | node l e r _ ihr =>
    intro p t' h
    simp only [shMax] at h
    cases hr : shMax r with
    | none =>
      simp only [hr, Option.some.injEq, Prod.mk.injEq] at h
      obtain ⟨rfl, rfl⟩ := h
      cases r with
      | nil => simp [Sh.toList]
      | node rl re rr => simp only [shMax] at hr; cases h2 : shMax rr <;> simp [h2] at hr
    | some q =>
      obtain ⟨m, r'⟩ := q
      simp only [hr, Option.some.injEq, Prod.mk.injEq] at h
      obtain ⟨rfl, rfl⟩ := h
      simp [Sh.toList, ihr m r' hr]

theorem shMax_isSome_of_node (l : Sh) (e : Scalar × Scalar) (r : Sh) : ∃ q, shMax (.node l e r) = some q := by
  simp only [shMax]; cases shMax r with
  | none => exact ⟨_, rfl⟩
  | some q => exact ⟨_, rfl⟩

/-- the entries of a Tree all have keys of type `kt` and fill `L.kw` / `L.vw` words -/
def EntriesOf (kt : Ty) (L : Layout) (es : List (Scalar × Scalar)) : Prop := ∀ e ∈ es, e.1.ty = kt ∧ EntrySized L e

theorem toList_shRemHere (L : Layout) (l : Sh) (e : Scalar × Scalar) (r : Sh)
    (hs : ∀ x ∈ l.toList ++ e :: r.toList, EntrySized L x) :
    (shRemHere L l e r).toList = l.toList ++ r.toList := by
  cases l with
  | nil => cases r <;> simp [shRemHere, Sh.toList]
  | node ll le lr =>
    cases r with
    | nil => simp [shRemHere, Sh.toList]
    | node rl re rr =>
      obtain ⟨⟨p, l'⟩, hq⟩ := shMax_isSome_of_node ll le lr
      have hl := shMax_toList _ p l' hq
      simp only [shRemHere, hq]
      have hp : EntrySized L p := hs p (by rw [hl]; simp)
      have he : EntrySized L e := hs e (by simp)
      simp only [Sh.toList, treeRelocate_full L p e hp he]
      rw [show (Sh.node ll le lr).toList = ll.toList ++ le :: lr.toList from rfl] at hl
      rw [hl]; simp

/-- **`Tree_Set` on any search-tree shape is `treeSet` on its in-order sequence** -/
theorem toList_shSet (addr : Nat → Bytes) (k v : Scalar) (hk : k.isNaN = false) :
    ∀ (t : Sh), TreeSeq addr t.toList → (∀ e ∈ t.toList, e.1.ty = k.ty) →
      (shSet addr t k v).toList = treeSet addr t.toList k v := by
  intro t
  induction t with
  | nil => intro _ _; rfl
  | node l e r ihl ihr =>
    intro hseq hty
    simp only [Sh.toList] at hseq hty
    obtain ⟨hl, her, hlr⟩ := List.pairwise_append.mp hseq
    obtain ⟨he, hr⟩ := List.pairwise_cons.mp her
    obtain ⟨c, hc⟩ := scalarCmp_isSome_of_ty addr e.1 k (hty e (by simp))
    simp only [shSet, hc]
    by_cases h0 : c = 0
    · subst h0
      simp only [if_true, Sh.toList]
      rw [treeSet_append_gt addr l.toList (e :: r.toList) k v (fun x hx => by
        obtain ⟨p, hp, hpos⟩ := hlr x hx e (by simp)
        exact scalarCmp_congr_right addr x.1 e.1 k p hk hp hpos hc)]
      simp [treeSet, hc]
    · by_cases hneg : c < 0
      · simp only [h0, hneg, if_false, if_true, Sh.toList]
        rw [ihl hl (fun x hx => hty x (by simp [hx])), treeSet_append_lt addr _ _ e k v c hc hneg]
      · simp only [h0, hneg, if_false, Sh.toList]
        have hpos : 0 < c := by omega
        rw [treeSet_append_gt addr l.toList (e :: r.toList) k v (fun x hx => by
          obtain ⟨p, hp, hppos⟩ := hlr x hx e (by simp)
          exact scalarCmp_trans addr x.1 e.1 k p c hp hppos hc hpos)]
        simp only [treeSet, hc, h0, hneg, if_false]
        rw [ihr hr (fun x hx => hty x (by simp [hx]))]

/-- **`Tree_Rem` on any search-tree shape — relocating the in-order neighbour with the width the source gives the memcpy — is
    `treeRem` on the in-order sequence**, whatever the header, key and value widths are -/
theorem toList_shRem (addr : Nat → Bytes) (L : Layout) (k : Scalar) (hk : k.isNaN = false) :
    ∀ (t : Sh), TreeSeq addr t.toList → (∀ e ∈ t.toList, e.1.ty = k.ty ∧ EntrySized L e) →
      (shRem addr L t k).map Sh.toList = treeRem addr t.toList k := by
  intro t
  induction t with
  | nil => intro _ _; rfl
  | node l e r ihl ihr =>
    intro hseq hty
    simp only [Sh.toList] at hseq hty
    obtain ⟨hl, her, hlr⟩ := List.pairwise_append.mp hseq
    obtain ⟨he, hr⟩ := List.pairwise_cons.mp her
    obtain ⟨c, hc⟩ := scalarCmp_isSome_of_ty addr e.1 k (hty e (by simp)).1
    simp only [shRem, hc, Sh.toList]
    rw [treeRem_append]
    by_cases h0 : c = 0
    · subst h0
      have hnone : treeRem addr l.toList k = none := treeRem_none_of_ne addr _ k (fun x hx => by
        obtain ⟨p, hp, hpos⟩ := hlr x hx e (by simp)
        obtain ⟨z, hz, hzpos⟩ := scalarCmp_congr_right addr x.1 e.1 k p hk hp hpos hc
        exact keyEq_false_of_pos hz hzpos)
      have hke : keyEq addr e.1 k = true := by simp [keyEq, hc]
      simp only [if_true, hnone, Option.map_some, treeRem, hke]
      rw [toList_shRemHere L l e r (fun x hx => (hty x hx).2)]
    · have hke : keyEq addr e.1 k = false := by simp [keyEq, hc, h0]
      by_cases hneg : c < 0
      · simp only [h0, hneg, if_false, if_true]
        have ih := ihl hl (fun x hx => hty x (by simp [hx]))
        cases hrl : shRem addr L l k with
        | some l' =>
          rw [hrl] at ih
          simp only [Option.map_some] at ih
          simp [← ih, Sh.toList]
        | none =>
          rw [hrl] at ih
          simp only [Option.map_none] at ih
          have hkpos : scalarCmp addr k e.1 = some (-c) := scalarCmp_neg_of_swap hc
          have hnr : treeRem addr r.toList k = none := treeRem_none_of_ne addr _ k (fun y hy => by
            obtain ⟨p, hp, hpos⟩ := he y hy
            obtain ⟨z, hz, hzpos⟩ := scalarCmp_trans addr k e.1 y.1 (-c) p hkpos (by omega) hp hpos
            exact keyEq_false_of_neg (scalarCmp_neg_of_swap hz) (by omega))
          simp [← ih, treeRem, hke, hnr]
      · simp only [h0, hneg, if_false]
        have hpos : 0 < c := by omega
        have hnone : treeRem addr l.toList k = none := treeRem_none_of_ne addr _ k (fun x hx => by
          obtain ⟨p, hp, hppos⟩ := hlr x hx e (by simp)
          obtain ⟨z, hz, hzpos⟩ := scalarCmp_trans addr x.1 e.1 k p c hp hppos hc hpos
          exact keyEq_false_of_pos hz hzpos)
        have ih := ihr hr (fun x hx => hty x (by simp [hx]))
        simp only [hnone, treeRem, hke, Bool.false_eq_true, if_false]
        cases hrr : shRem addr L r k with
        | some r' =>
          rw [hrr] at ih
          simp only [Option.map_some] at ih
          simp [← ih, Sh.toList]
        | none =>
          rw [hrr] at ih
          simp only [Option.map_none] at ih
          simp [← ih]

/-! ### every reachable shape is a search tree of well-sized entries -/

/-- the invariant: in-order keys strictly descend, all keys have type `kt`, all entries fill the widths of `L` -/
def ShInv (addr : Nat → Bytes) (kt : Ty) (L : Layout) (t : Sh) : Prop :=
  TreeSeq addr t.toList ∧ ∀ e ∈ t.toList, (e.1.ty = kt ∧ e.1.isNaN = false) ∧ EntrySized L e

/-- the shapes a Tree with key type `kt` and layout `L` can reach: `Tree_Set`, `Tree_Rem`, and — standing for the rotations of
    `Tree_Set_Fix` / `Tree_Rem_Fix` — any relinking that keeps the in-order sequence -/
inductive ShReach (addr : Nat → Bytes) (kt : Ty) (L : Layout) : Sh → Prop
  | nil : ShReach addr kt L .nil
  | set {t : Sh} {k v : Scalar} : ShReach addr kt L t → k.ty = kt → k.isNaN = false → EntrySized L (k, v) →
      ShReach addr kt L (shSet addr t k v)
  | rem {t t' : Sh} {k : Scalar} : ShReach addr kt L t → k.ty = kt → k.isNaN = false → shRem addr L t k = some t' →
      ShReach addr kt L t'
  | relink {t t' : Sh} : ShReach addr kt L t → t'.toList = t.toList → ShReach addr kt L t'

theorem ShInv.set {addr : Nat → Bytes} {kt : Ty} {L : Layout} {t : Sh} {k v : Scalar} (h : ShInv addr kt L t) (hty : k.ty = kt)
    (hk : k.isNaN = false) (hs : EntrySized L (k, v)) : ShInv addr kt L (shSet addr t k v) := by
  obtain ⟨hseq, hes⟩ := h
  have e := toList_shSet addr k v hk t hseq (fun x hx => by rw [hty]; exact (hes x hx).1.1)
  refine ⟨by rw [e]; exact treeSet_treeSeq addr _ k v hk hseq, fun x hx => ?_⟩
  rw [e] at hx
  rcases mem_treeSet addr _ k v x hx with rfl | hx
  · exact ⟨⟨hty, hk⟩, hs⟩
  · exact hes x hx

theorem ShInv.rem {addr : Nat → Bytes} {kt : Ty} {L : Layout} {t t' : Sh} {k : Scalar} (h : ShInv addr kt L t) (hty : k.ty = kt)
    (hk : k.isNaN = false) (hr : shRem addr L t k = some t') : ShInv addr kt L t' := by
  obtain ⟨hseq, hes⟩ := h
  have e := toList_shRem addr L k hk t hseq (fun x hx => by rw [hty]; exact ⟨(hes x hx).1.1, (hes x hx).2⟩)
  rw [hr] at e
  simp only [Option.map_some] at e
  exact ⟨treeRem_treeSeq addr _ k _ e.symm hseq, fun x hx => hes x ((treeRem_sublist addr _ k _ e.symm).subset hx)⟩

theorem ShReach.inv {addr : Nat → Bytes} {kt : Ty} {L : Layout} {t : Sh} (h : ShReach addr kt L t) : ShInv addr kt L t := by
  induction h with
  | nil => exact ⟨by simp [Sh.toList, TreeSeq], by simp [Sh.toList]⟩
  | set _ hty hk hs ih => exact ih.set hty hk hs
  | rem _ hty hk hr ih => exact ih.rem hty hk hr
  | relink _ he ih => exact ⟨by rw [he]; exact ih.1, by rw [he]; exact ih.2⟩

/-- re-inserting the iteration sequence of a Tree into an empty Tree (what `Tree_Assign` does) gives a shape with the same
    in-order sequence -/
theorem foldl_shSet_toList (addr : Nat → Bytes) (kt : Ty) : ∀ (es : List (Scalar × Scalar)) (acc : Sh),
    TreeSeq addr (acc.toList ++ es) → (∀ e ∈ acc.toList ++ es, e.1.ty = kt ∧ e.1.isNaN = false) →
    (es.foldl (fun acc e => shSet addr acc e.1 e.2) acc).toList = acc.toList ++ es := by
  intro es
  induction es with
  | nil => intro acc _ _; simp
  | cons e es ih =>
    intro acc hseq hty
    simp only [List.foldl_cons]
    have hacc : TreeSeq addr acc.toList := (List.pairwise_append.mp hseq).1
    have h1 : ∀ x ∈ acc.toList, Desc addr x (e.1, e.2) := fun x hx => (List.pairwise_append.mp hseq).2.2 x hx e (by simp)
    have hs : (shSet addr acc e.1 e.2).toList = acc.toList ++ [e] := by
      rw [toList_shSet addr e.1 e.2 (hty e (by simp)).2 acc hacc
        (fun x hx => by rw [(hty x (by simp [hx])).1, (hty e (by simp)).1]), treeSet_append addr _ e.1 e.2 h1]
    rw [ih _ (by rw [hs]; simpa [TreeSeq] using hseq) (by rw [hs]; simpa using hty), hs]
    simp

/-- `Tree_Assign` / `Tree_New` from any entry sequence with non-NaN keys of one type: the shape built by `Tree_Set` iterates
    as the sequence built by `treeSet` -/
theorem foldl_shSet_eq (addr : Nat → Bytes) (kt : Ty) : ∀ (es : List (Scalar × Scalar)) (acc : Sh),
    TreeSeq addr acc.toList → (∀ e ∈ acc.toList, e.1.ty = kt) → (∀ e ∈ es, e.1.ty = kt ∧ e.1.isNaN = false) →
    (es.foldl (fun acc e => shSet addr acc e.1 e.2) acc).toList = es.foldl (fun acc e => treeSet addr acc e.1 e.2) acc.toList := by
  intro es
  induction es with
  | nil => intro acc _ _ _; rfl
  | cons e es ih =>
    intro acc hseq hacc hes
    obtain ⟨hty, hnan⟩ := hes e (by simp)
    have hs := toList_shSet addr e.1 e.2 hnan acc hseq (fun x hx => by rw [hacc x hx, hty])
    simp only [List.foldl_cons]
    rw [ih _ (by rw [hs]; exact treeSet_treeSeq addr _ e.1 e.2 hnan hseq)
      (fun x hx => by
        rw [hs] at hx
        rcases mem_treeSet addr _ e.1 e.2 x hx with rfl | hx
        · exact hty
        · exact hacc x hx)
      (fun x hx => hes x (by simp [hx])), hs]

theorem shOfEntries_eq (addr : Nat → Bytes) (kt : Ty) (es : List (Scalar × Scalar))
    (hes : ∀ e ∈ es, e.1.ty = kt ∧ e.1.isNaN = false) : (shOfEntries addr es).toList = treeOfEntries addr es := by
  unfold shOfEntries treeOfEntries
  simpa [Sh.toList] using foldl_shSet_eq addr kt es .nil (by simp [Sh.toList, TreeSeq]) (by simp [Sh.toList]) hes

theorem shOfEntries_toList (addr : Nat → Bytes) (kt : Ty) (es : List (Scalar × Scalar)) (hseq : TreeSeq addr es)
    (hty : ∀ e ∈ es, e.1.ty = kt ∧ e.1.isNaN = false) : (shOfEntries addr es).toList = es := by
  unfold shOfEntries
  simpa [Sh.toList] using foldl_shSet_toList addr kt es .nil (by simpa [Sh.toList] using hseq) (by simpa [Sh.toList] using hty)

end Cello.Hash
