/-
  CelloProofs/Lemmas/RegistryInvB.lean — the executable invariant `invB` that the driver evaluates on every dumped state
  implies the propositional invariant the theorems are stated over.
-/
import Cello.Registry
import CelloProofs.Lemmas.RegistryLookup
import CelloProofs.Lemmas.RegistryOps
set_option linter.unusedSectionVars false
set_option linter.unusedVariables false
namespace Cello.Registry
open RH

theorem slotOk_sound (c : Cfg) (r : Reg) (i : Nat) (hi : i < r.n) (h : slotOk c r i hi = true) (e : Ent)
    (he : r.slots[i] = some e) :
    e.home = hashOf c e.key % r.n ∧
    (0 < dist r.n i e.home → ∃ e', r.slots[prev r.n i]'(prev_lt hi) = some e' ∧ dist r.n i e.home ≤ dist r.n (prev r.n i) e'.home + 1) ∧
    r.minptr ≤ e.key ∧ e.key ≤ r.maxptr ∧
    findLoop r.slots e.key r.n (hashOf c e.key % r.n) 0 (Nat.mod_lt _ (Nat.lt_of_le_of_lt (Nat.zero_le _) hi)) = some (some ⟨i, hi⟩) := by
  unfold slotOk at h
  rw [he] at h
  simp only [Bool.and_eq_true, beq_iff_eq, decide_eq_true_eq, Bool.or_eq_true] at h
  obtain ⟨⟨⟨⟨h1, h2⟩, h3⟩, h4⟩, h5⟩ := h
  refine ⟨h1, ?_, h3, h4, h5⟩
  intro hpos
  rcases h2 with h2 | h2
  · omega
  · cases hp : r.slots[prev r.n i]'(prev_lt hi) with
    | none => rw [hp] at h2; simp at h2
    | some e' => rw [hp] at h2; exact ⟨e', rfl, by simpa using h2⟩

/-- **the executable invariant is sound** -/
theorem invB_sound (c : Cfg) (r : Reg) (h : invB c r = true) :
    Inv0 (hashOf c) r.slots ∧ r.nitems = occ r.slots ∧ Room r ∧
      (∀ i (hi : i < r.n) e, r.slots[i] = some e → r.minptr ≤ e.key ∧ e.key ≤ r.maxptr) := by
  unfold invB at h
  simp only [Bool.and_eq_true, List.all_eq_true, List.mem_range, beq_iff_eq, Bool.or_eq_true, decide_eq_true_eq] at h
  obtain ⟨⟨hall, hcount⟩, hroom⟩ := h
  have hslot : ∀ i (hi : i < r.n), slotOk c r i hi = true := by
    intro i hi
    have := hall i hi
    rw [dif_pos hi] at this; exact this
  refine ⟨⟨?_, ?_, ?_⟩, hcount, ?_, ?_⟩
  · intro i hi e he; exact (slotOk_sound c r i hi (hslot i hi) e he).1
  · intro i j hi hj e e' he he' hk
    have h1 := (slotOk_sound c r i hi (hslot i hi) e he).2.2.2.2
    have h2 := (slotOk_sound c r j hj (hslot j hj) e' he').2.2.2.2
    have : (some (some (⟨i, hi⟩ : Fin r.n)) : Option (Option (Fin r.n))) = some (some ⟨j, hj⟩) := by
      rw [← h1, ← h2]
      simp only [hk]
    simpa using this
  · intro i hi e he hpos; exact (slotOk_sound c r i hi (hslot i hi) e he).2.1 hpos
  · rcases hroom with h0 | h0
    · exact Or.inr ⟨h0, by
        rw [hcount]
        have : occ r.slots ≤ r.n := Vector.countP_le_size
        omega⟩
    · exact Or.inl h0
  · intro i hi e he
    have := slotOk_sound c r i hi (hslot i hi) e he
    exact ⟨this.2.2.1, this.2.2.2.1⟩

end Cello.Registry
