/-
  C14 helper lemmas: the primitive calls of a well-typed, well-formed format in closed form.
-/
import CelloProofs.Lemmas.FmtPure
import CelloProofs.Lemmas.FmtNow
import CelloProofs.Lemmas.FmtGrammar

namespace Cello.Fmt

variable (prim : Prim) (shw : Obj → Out → Out × Outcome)

/-- the dispatch `if`s that fire, run in order -/
def runKinds : List Kind → Str → Obj → Out → Out × Outcome
  | [], _, _, o => (o, .ok)
  | k :: r, buf, a, o =>
    match action prim shw k buf a o with
    | (o', .ok) => runKinds r buf a o'
    | bad => bad

theorem runKinds_single (k : Kind) (buf : Str) (a : Obj) (o : Out) :
    runKinds prim shw [k] buf a o = action prim shw k buf a o := by
  simp only [runKinds]
  rcases action prim shw k buf a o with ⟨o', oc⟩
  cases oc <;> rfl

theorem dispatch_eq_runKinds (c : Char) (buf : Str) (a : Obj) : ∀ (d : List (Matcher × Kind)) (o : Out),
    dispatch prim shw d c buf a o = runKinds prim shw ((d.filter fun mk => mk.1.hit c).map (·.2)) buf a o := by
  intro d
  induction d with
  | nil => intro o; rfl
  | cons mk r ih =>
    intro o
    obtain ⟨m, k⟩ := mk
    by_cases hm : m.hit c = true
    · simp only [dispatch, hm, if_true, List.filter_cons_of_pos, List.map_cons, runKinds]
      rcases action prim shw k buf a o with ⟨o', oc⟩
      cases oc <;> simp [ih]
    · have hf : ((m, k) :: r).filter (fun mk => mk.1.hit c) = r.filter (fun mk => mk.1.hit c) := by
        simp [hm]
      rw [hf]
      simpa [dispatch, hm] using ih o

/-- the C value a conversion of the grammar takes from an argument of the matching class -/
def specVal (c : Char) (a : Obj) : Option PVal :=
  if c ∈ intConvs ∨ c = 'c' then (match a with | .int v => some (.i64 v) | _ => none)
  else if c ∈ fltConvs then (match a with | .flt x => some (.dbl x) | _ => none)
  else if c = 's' then (match a with | .str s => some (.cstr s) | _ => none)
  else if c = 'p' then some .ptr
  else none

/-- the calls a format makes when every specification finds an argument of its class: the literal run verbatim, `%%`,
    the fragment `%` body conv with the k-th argument's C value, and for `%$` the calls of the k-th argument's `show` -/
def expectCalls (showCalls : Obj → List Call) (args : List Obj) : List Seg → Nat → Option (List Call)
  | [], _ => some []
  | .lit s :: r, k => (expectCalls showCalls args r k).map (⟨s, .none⟩ :: ·)
  | .pct :: r, k => (expectCalls showCalls args r k).map (⟨['%', '%'], .none⟩ :: ·)
  | .spec b c :: r, k =>
    match args[k]? with
    | none => none
    | some a =>
      if c = '$' then (expectCalls showCalls args r (k + 1)).map (showCalls a ++ ·)
      else match specVal c a with
        | none => none
        | some v => (expectCalls showCalls args r (k + 1)).map (⟨'%' :: (b ++ [c]), v⟩ :: ·)

/-- dispatch of the code as it is now, on a conversion of the grammar and an argument of its class -/
theorem dispatch_now_typed (ht : (∀ c ∈ intConvs, firing cfgNow c = [.cint]) ∧ (∀ c ∈ fltConvs, firing cfgNow c = [.cfloat]) ∧
      firing cfgNow 'c' = [.cint] ∧ firing cfgNow 's' = [.cstr] ∧ firing cfgNow 'p' = [.obj] ∧ firing cfgNow '$' = [.show])
    (c : Char) (buf : Str) (a : Obj) (v : PVal) (hv : specVal c a = some v) (o : Out) :
    dispatch prim shw cfgNow.disp c buf a o = o.call prim buf v := by
  rw [dispatch_eq_runKinds]
  change runKinds prim shw (firing cfgNow c) buf a o = _
  unfold specVal at hv
  split at hv
  · rename_i hc
    have hf : firing cfgNow c = [.cint] := by
      rcases hc with hc | hc
      · exact ht.1 c hc
      · subst hc; exact ht.2.2.1
    cases a <;> simp_all [runKinds_single, action, cInt]
  · split at hv
    · rename_i hc
      have hf := ht.2.1 c hc
      cases a <;> simp_all [runKinds_single, action, cFloat]
    · split at hv
      · rename_i hc; subst hc
        have hf := ht.2.2.2.1
        cases a <;> simp_all [runKinds_single, action, cStr]
      · split at hv
        · rename_i hc; subst hc
          have hf := ht.2.2.2.2.1
          simp_all [runKinds_single, action]
        · simp at hv

theorem dispatch_now_show (hf : firing cfgNow '$' = [.show]) (buf : Str) (a : Obj) (o : Out) (cs : List Call)
    (hs : shw a o = (emitAll prim o cs, .ok)) :
    dispatch prim shw cfgNow.disp '$' buf a o = (emitAll prim o cs, .ok) := by
  rw [dispatch_eq_runKinds]
  change runKinds prim shw (firing cfgNow '$') buf a o = _
  rw [hf]; simp [runKinds, action, hs]

/-- the reference semantics on a well-typed format: exactly the expected calls, outcome ok -/
theorem refRun_typed (ht : (∀ c ∈ intConvs, firing cfgNow c = [.cint]) ∧ (∀ c ∈ fltConvs, firing cfgNow c = [.cfloat]) ∧
      firing cfgNow 'c' = [.cint] ∧ firing cfgNow 's' = [.cstr] ∧ firing cfgNow 'p' = [.obj] ∧ firing cfgNow '$' = [.show])
    (showCalls : Obj → List Call) (args : List Obj) (hs : ∀ a ∈ args, ∀ o, shw a o = (emitAll prim o (showCalls a), .ok)) :
    ∀ (segs : List Seg) (k : Nat) (cs : List Call) (o : Out), expectCalls showCalls args segs k = some cs →
      AllAcc prim cs → refRun cfgNow prim shw args segs k o = (emitAll prim o cs, .ok) := by
  intro segs
  induction segs with
  | nil => intro k cs o h _; simp [expectCalls] at h; subst h; rfl
  | cons s r ih =>
    intro k cs o h hacc
    cases s with
    | lit s =>
      simp only [expectCalls, Option.map_eq_some_iff] at h
      obtain ⟨cs', h1, rfl⟩ := h
      have h0 : prim.rej s .none = false := hacc ⟨s, .none⟩ (by simp)
      simpa [refRun, emitAll_cons, call_acc prim o h0] using ih k cs' _ h1 (fun c hc => hacc c (by simp [hc]))
    | pct =>
      simp only [expectCalls, Option.map_eq_some_iff] at h
      obtain ⟨cs', h1, rfl⟩ := h
      have h0 : prim.rej ['%', '%'] .none = false := hacc ⟨['%', '%'], .none⟩ (by simp)
      simpa [refRun, emitAll_cons, call_acc prim o h0] using ih k cs' _ h1 (fun c hc => hacc c (by simp [hc]))
    | spec b c =>
      simp only [expectCalls] at h
      simp only [refRun]
      cases hk : args[k]? with
      | none => simp [hk] at h
      | some a =>
        simp only [hk] at h ⊢
        by_cases hc : c = '$'
        · subst hc
          simp only [if_true, Option.map_eq_some_iff] at h
          obtain ⟨cs', h1, rfl⟩ := h
          rw [dispatch_now_show prim shw ht.2.2.2.2.2 _ a o (showCalls a) (hs a (List.mem_of_getElem? hk) o)]
          simpa [emitAll_append] using ih (k + 1) cs' _ h1 (fun c hc => hacc c (by simp [hc]))
        · simp only [hc, if_false] at h
          cases hv : specVal c a with
          | none => simp [hv] at h
          | some v =>
            simp only [hv, Option.map_eq_some_iff] at h
            obtain ⟨cs', h1, rfl⟩ := h
            have h0 : prim.rej ('%' :: (b ++ [c])) v = false := hacc ⟨'%' :: (b ++ [c]), v⟩ (by simp)
            rw [dispatch_now_typed prim shw ht c _ a v hv o, call_acc prim o h0]
            simpa [emitAll_cons] using ih (k + 1) cs' _ h1 (fun c hc => hacc c (by simp [hc]))

/-- every specification that has an argument has one of its class (anything for `%$` and `%p`) -/
def Typed (args : List Obj) : List Seg → Nat → Prop
  | [], _ => True
  | .spec _ c :: r, k => (∀ a, args[k]? = some a → c = '$' ∨ (specVal c a).isSome = true) ∧ Typed args r (k + 1)
  | _ :: r, k => Typed args r k

theorem allOk_of_typed (ht : (∀ c ∈ intConvs, firing cfgNow c = [.cint]) ∧ (∀ c ∈ fltConvs, firing cfgNow c = [.cfloat]) ∧
      firing cfgNow 'c' = [.cint] ∧ firing cfgNow 's' = [.cstr] ∧ firing cfgNow 'p' = [.obj] ∧ firing cfgNow '$' = [.show])
    (hs : ∀ a o, (shw a o).2 = .ok) (hacc : ∀ frag v, prim.rej frag v = false) (args : List Obj) :
    ∀ (segs : List Seg) (k : Nat), Typed args segs k → AllOk cfgNow prim shw args segs k := by
  intro segs
  induction segs with
  | nil => intro k _; trivial
  | cons s r ih =>
    intro k h
    cases s with
    | lit s => exact ⟨hacc _ _, ih k h⟩
    | pct => exact ⟨hacc _ _, ih k h⟩
    | spec b c =>
      refine ⟨fun a ha o => ?_, ih (k + 1) h.2⟩
      rcases h.1 a ha with hc | hv
      · subst hc
        rw [dispatch_eq_runKinds]
        change (runKinds prim shw (firing cfgNow '$') _ a o).2 = _
        rw [ht.2.2.2.2.2]
        have := hs a o
        simp only [runKinds, action]
        rcases hsh : shw a o with ⟨o', oc⟩
        rw [hsh] at this
        simp only at this
        subst this
        rfl
      · obtain ⟨v, hv⟩ := Option.isSome_iff_exists.1 hv
        rw [dispatch_now_typed prim shw ht c _ a v hv o, call_acc prim o (hacc _ _)]

end Cello.Fmt
