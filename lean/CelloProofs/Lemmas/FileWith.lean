/-
  Helper lemmas for C20, the `with` construct (Cello/File.lean, section "The `with` construct"): every clause of the
  for loop is a composition of `Multi.step`s (so the per-object call logs stay well bracketed), what events each clause
  produces, the protocol automaton `wtrack`, and the reference-stdio facts about a block that writes.
-/
import CelloProofs.Lemmas.FileTrack

namespace Cello.File

variable {σ : Type} (io : Stdio σ)

/-! ### `Tracks s s'`: from `s` to `s'` every object's own calls continue a well-bracketed log -/

def Tracks (s s' : Multi σ) : Prop :=
  ∀ o, ∃ suf, s'.log = s.log ++ suf ∧ track (s.held o) (proj o suf) = some (s'.held o)

theorem Tracks.refl (s : Multi σ) : Tracks s s := fun _ => ⟨[], by simp, by simp [proj]⟩

theorem Tracks.trans {a b c : Multi σ} (h1 : Tracks a b) (h2 : Tracks b c) : Tracks a c := by
  intro o
  obtain ⟨s1, l1, t1⟩ := h1 o
  obtain ⟨s2, l2, t2⟩ := h2 o
  exact ⟨s1 ++ s2, by rw [l2, l1, List.append_assoc], by rw [proj_append]; exact track_append_of t1 t2⟩

theorem Tracks.step (s : Multi σ) (o : Nat) (m : MOp) (hc : s.copiesOpen o m = false) :
    Tracks s (s.step io Cfg.fixed o m) :=
  fun o' => Multi.step_track io s o m hc o'

/-- what the proofs about programs need of a relation between system states: it is reflexive, transitive and holds
    across every single step that does not copy / assign an open File.  (`Tracks`: each object's log; `GTracks` in
    Lemmas/FileGlobal.lean: the log of the process over handles.) -/
structure StepRel (R : Multi σ → Multi σ → Prop) : Prop where
  refl : ∀ s, R s s
  trans : ∀ {a b c}, R a b → R b c → R a c
  step : ∀ s o m, s.copiesOpen o m = false → R s (s.step io Cfg.fixed o m)

theorem tracksRel : StepRel io (Tracks (σ := σ)) :=
  ⟨Tracks.refl, fun h1 h2 => h1.trans h2, Tracks.step io⟩

theorem stepO_fst (cfg : Cfg) (s : Multi σ) (o : Nat) (m : MOp) :
    (Multi.stepO io cfg s o m).1 = s.step io cfg o m := by
  simp only [Multi.stepO, Multi.step]
  cases s.stepR io cfg o m with
  | none => rfl
  | some p => rfl

/-! ### assoc lists: a fresh name is free -/

theorem lookup_none_of_gt {α : Type} (l : List (Nat × α)) (k : Nat) (h : maxKey l < k) : lookup k l = none := by
  induction l with
  | nil => rfl
  | cons p rest ih =>
    obtain ⟨a, v⟩ := p
    simp only [maxKey] at h
    have h1 : a ≠ k := by omega
    have h2 : maxKey rest < k := by omega
    simp [lookup, h1, ih h2]

theorem freshName_free {α : Type} (l : List (Nat × α)) (want : Nat) : lookup (freshName l want) l = none := by
  simp only [freshName]
  cases h : lookup want l with
  | none => simpa using h
  | some v => exact lookup_none_of_gt l _ (Nat.lt_succ_self _)

theorem freshName_of_free {α : Type} (l : List (Nat × α)) (want : Nat) (h : lookup want l = none) :
    freshName l want = want := by
  simp [freshName, h]

/-! ### the clauses: state, value and events -/

/-- the state after evaluating a source expression: unchanged for a variable, one `new` for a constructor -/
theorem evalSrc_m (cfg : Cfg) (s : Multi σ) (src : Src) :
    (evalSrc io cfg s src).m = match src with
      | .var _ => s
      | .newFile name args => s.step io cfg (freshName s.objs name) (.new args) := by
  cases src with
  | var o => simp only [evalSrc]; cases lookup o s.objs <;> rfl
  | newFile name args =>
    simp only [evalSrc]
    rw [← stepO_fst]
    rcases Multi.stepO io cfg s (freshName s.objs name) (.new args) with ⟨s', _ | r⟩ <;> rfl

theorem evalSrc_evs (cfg : Cfg) (s : Multi σ) (src : Src) :
    (evalSrc io cfg s src).evs = [.eval src (evalSrc io cfg s src).x] := by
  cases src with
  | var o => simp only [evalSrc]; cases lookup o s.objs <;> rfl
  | newFile name args =>
    simp only [evalSrc]
    rcases Multi.stepO io cfg s (freshName s.objs name) (.new args) with ⟨s', _ | r⟩ <;> rfl

theorem evalSrc_rel {R : Multi σ → Multi σ → Prop} (hR : StepRel io R) (s : Multi σ) (src : Src) :
    R s (evalSrc io Cfg.fixed s src).m := by
  rw [evalSrc_m]
  cases src with
  | var o => exact hR.refl s
  | newFile name args => exact hR.step s _ _ rfl

theorem initClause_x (cfg : Cfg) (s : Multi σ) (src : Src) :
    (initClause io cfg s src).x = (evalSrc io cfg s src).x := by
  simp only [initClause]
  cases h : (evalSrc io cfg s src).x <;> simp [h]

theorem initClause_m (cfg : Cfg) (s : Multi σ) (src : Src) :
    (initClause io cfg s src).m = match (evalSrc io cfg s src).x with
      | none => (evalSrc io cfg s src).m
      | some x => (evalSrc io cfg s src).m.step io cfg x (.op .withEnter) := by
  simp only [initClause]
  cases h : (evalSrc io cfg s src).x <;> simp

theorem initClause_evs (cfg : Cfg) (s : Multi σ) (src : Src) :
    (initClause io cfg s src).evs = match (evalSrc io cfg s src).x with
      | none => [.eval src none]
      | some x => [.eval src (some x), .start x] := by
  simp only [initClause]
  cases h : (evalSrc io cfg s src).x <;> simp [evalSrc_evs, h]

theorem initClause_rel {R : Multi σ → Multi σ → Prop} (hR : StepRel io R) (s : Multi σ) (src : Src) :
    R s (initClause io Cfg.fixed s src).m := by
  rw [initClause_m]
  cases (evalSrc io Cfg.fixed s src).x with
  | none => exact evalSrc_rel io hR s src
  | some x => exact hR.trans (evalSrc_rel io hR s src) (hR.step _ _ _ rfl)

theorem stopIn_m (cfg : Cfg) (s : Multi σ) (y : Nat) (c0 : List Call) (e0 : List WEv) :
    (stopIn io cfg s y c0 e0).m = s.step io cfg y (.op .withExit) := by
  simp only [stopIn]
  rw [← stepO_fst]
  rcases Multi.stepO io cfg s y (.op .withExit) with ⟨s', _ | r⟩ <;> rfl

theorem stopIn_evs (cfg : Cfg) (s : Multi σ) (y : Nat) (c0 : List Call) (e0 : List WEv) :
    (stopIn io cfg s y c0 e0).evs = e0 ++ [.stop y] := by
  simp only [stopIn]
  rcases Multi.stepO io cfg s y (.op .withExit) with ⟨s', _ | r⟩ <;> rfl

/-- the step clause of the macro as it is: one File_Close on the loop variable's object, one event -/
theorem stepClause_fixed (cfg : Cfg) (s : Multi σ) (src : Src) (x : Nat) :
    (stepClause io cfg WithCfg.fixed s src x).m = s.step io cfg x (.op .withExit) ∧
      (stepClause io cfg WithCfg.fixed s src x).evs = [.stop x] := by
  simp only [stepClause, WithCfg.fixed]
  exact ⟨stopIn_m io cfg s x [] [], by rw [stopIn_evs]; rfl⟩

theorem stepClause_rel {R : Multi σ → Multi σ → Prop} (hR : StepRel io R) (w : WithCfg) (s : Multi σ) (src : Src) (x : Nat) :
    R s (stepClause io Cfg.fixed w s src x).m := by
  simp only [stepClause]
  cases w.stepArg with
  | bound => simp only []; rw [stopIn_m]; exact hR.step s _ _ rfl
  | source =>
    simp only []
    cases h : (evalSrc io Cfg.fixed s src).x with
    | none => simp only []; exact evalSrc_rel io hR s src
    | some y => simp only []; rw [stopIn_m]; exact hR.trans (evalSrc_rel io hR s src) (hR.step _ _ _ rfl)

/-! ### whole programs -/

mutual
/-- a program that never copies / assigns an open File: the relation holds from its start to its end -/
theorem execStmt_rel {R : Multi σ → Multi σ → Prop} (hR : StepRel io R) (w : WithCfg) :
    ∀ (st : Stmt) (s : WSys σ), cleanStmt io Cfg.fixed w st s = true → R s.m (execStmt io Cfg.fixed w st s).m
  | .op o m, s, hc => by
    simp only [cleanStmt, Bool.not_eq_true'] at hc
    simp only [execStmt]; exact hR.step s.m o m hc
  | .withIn src body leave, s, hc => by
    simp only [execStmt]
    simp only [cleanStmt] at hc
    cases hx : (initClause io Cfg.fixed s.m src).x with
    | none => simp only []; exact initClause_rel io hR s.m src
    | some x =>
      simp only [hx] at hc
      simp only []
      have hb := execList_rel hR w body ⟨(initClause io Cfg.fixed s.m src).m, s.ev ++ (initClause io Cfg.fixed s.m src).evs⟩ hc
      have hi := initClause_rel io hR s.m src
      cases leave <;> simp only [Leave.runsStep, if_true, if_false, Bool.false_eq_true]
      · exact hR.trans (hR.trans hi hb) (stepClause_rel io hR w _ src x)
      · exact hR.trans (hR.trans hi hb) (stepClause_rel io hR w _ src x)
      · exact hR.trans hi hb
      · exact hR.trans hi hb
      · exact hR.trans hi hb
theorem execList_rel {R : Multi σ → Multi σ → Prop} (hR : StepRel io R) (w : WithCfg) :
    ∀ (p : List Stmt) (s : WSys σ), cleanList io Cfg.fixed w p s = true → R s.m (execList io Cfg.fixed w p s).m
  | [], s, _ => by simp only [execList]; exact hR.refl s.m
  | st :: rest, s, hc => by
    simp only [cleanList, Bool.and_eq_true] at hc
    simp only [execList]
    exact hR.trans (execStmt_rel hR w st s hc.1) (execList_rel hR w rest _ hc.2)
end

theorem execStmt_tracks (w : WithCfg) (st : Stmt) (s : WSys σ) (hc : cleanStmt io Cfg.fixed w st s = true) :
    Tracks s.m (execStmt io Cfg.fixed w st s).m := execStmt_rel io (tracksRel io) w st s hc

theorem execList_tracks (w : WithCfg) (p : List Stmt) (s : WSys σ) (hc : cleanList io Cfg.fixed w p s = true) :
    Tracks s.m (execList io Cfg.fixed w p s).m := execList_rel io (tracksRel io) w p s hc

/-! ### the protocol automaton -/

theorem wtrack_append (c : List Nat × Option Nat) (a b : List WEv) :
    wtrack c (a ++ b) = match wtrack c a with
      | some c' => wtrack c' b
      | none => none := by
  induction a generalizing c with
  | nil => rfl
  | cons e a ih =>
    simp only [List.cons_append, wtrack]
    cases wtrackEv c e with
    | none => rfl
    | some c' => exact ih c'

theorem wtrack_append_of {c c' c'' : List Nat × Option Nat} {a b : List WEv}
    (h1 : wtrack c a = some c') (h2 : wtrack c' b = some c'') : wtrack c (a ++ b) = some c'' := by
  rw [wtrack_append, h1]; exact h2

/-- what acceptance by the automaton means in numbers: every evaluation either failed or was followed by the start of a
    block, and every block that was started has been left exactly once (step clause, break or exception) — counting the
    blocks that were already open at the beginning and those still open at the end -/
theorem wtrack_count (c c' : List Nat × Option Nat) (evs : List WEv) (h : wtrack c evs = some c') :
    (evs.filter isEval).length + (if c.2.isSome then 1 else 0)
        = (evs.filter isStart).length + (evs.filter isEvalFail).length + (if c'.2.isSome then 1 else 0) ∧
      c.1.length + (evs.filter isStart).length
        = c'.1.length + (evs.filter isExit).length := by
  induction evs generalizing c with
  | nil => simp only [wtrack, Option.some.injEq] at h; subst h; simp
  | cons e es ih =>
    simp only [wtrack] at h
    cases hs : wtrackEv c e with
    | none => simp [hs] at h
    | some c1 =>
      rw [hs] at h
      have := ih c1 h
      obtain ⟨st, pend⟩ := c
      cases e with
      | eval src res =>
        cases pend with
        | some x => simp [wtrackEv] at hs
        | none =>
          cases res with
          | none => simp only [wtrackEv, Option.some.injEq] at hs; subst hs; simp_all [isEval, isStart, isEvalFail, isExit, List.filter] <;> omega
          | some x => simp only [wtrackEv, Option.some.injEq] at hs; subst hs; simp_all [isEval, isStart, isEvalFail, isExit, List.filter] <;> omega
      | start y =>
        cases pend with
        | none => simp [wtrackEv] at hs
        | some x =>
          by_cases hy : y = x
          · simp only [wtrackEv, hy, if_true, Option.some.injEq] at hs; subst hs
            simp_all [isEval, isStart, isEvalFail, isExit, List.filter] <;> omega
          · simp [wtrackEv, hy] at hs
      | stop y =>
        cases pend with
        | some x => simp [wtrackEv] at hs
        | none =>
          cases st with
          | nil => simp [wtrackEv] at hs
          | cons x st =>
            by_cases hy : y = x
            · simp only [wtrackEv, hy, if_true, Option.some.injEq] at hs; subst hs
              simp_all [isEval, isStart, isEvalFail, isExit, List.filter] <;> omega
            · simp [wtrackEv, hy] at hs
      | left how =>
        cases pend with
        | some x => simp [wtrackEv] at hs
        | none =>
          cases st with
          | nil => simp [wtrackEv] at hs
          | cons x st =>
            simp only [wtrackEv, Option.some.injEq] at hs; subst hs
            simp_all [isEval, isStart, isEvalFail, isExit, List.filter] <;> omega

mutual
/-- under the macro as it is, the events of any statement are accepted by the automaton from any stack of enclosing
    blocks, and leave that stack as it was -/
theorem execStmt_protocol (cfg : Cfg) : ∀ (st : Stmt) (s : WSys σ) (stack : List Nat),
    ∃ evs, (execStmt io cfg WithCfg.fixed st s).ev = s.ev ++ evs ∧ wtrack (stack, none) evs = some (stack, none)
  | .op o m, s, stack => ⟨[], by simp [execStmt], rfl⟩
  | .withIn src body leave, s, stack => by
    simp only [execStmt]
    have hix := initClause_x io cfg s.m src
    have hie := initClause_evs io cfg s.m src
    cases hx : (initClause io cfg s.m src).x with
    | none =>
      rw [hx] at hix
      rw [← hix] at hie
      simp only [] at hie ⊢
      exact ⟨_, rfl, by rw [hie]; rfl⟩
    | some x =>
      rw [hx] at hix
      rw [← hix] at hie
      simp only [] at hie ⊢
      obtain ⟨bevs, hb1, hb2⟩ := execList_protocol cfg body
        ⟨(initClause io cfg s.m src).m, s.ev ++ (initClause io cfg s.m src).evs⟩ (x :: stack)
      have hinit : wtrack (stack, none) (initClause io cfg s.m src).evs = some (x :: stack, none) := by
        rw [hie]; simp [wtrack, wtrackEv]
      cases leave <;> simp only [Leave.runsStep, if_true, if_false, Bool.false_eq_true]
      · refine ⟨(initClause io cfg s.m src).evs ++ bevs ++ [.stop x], ?_, ?_⟩
        · rw [hb1, (stepClause_fixed io cfg _ src x).2]; simp [List.append_assoc]
        · exact wtrack_append_of (wtrack_append_of hinit hb2) (by simp [wtrack, wtrackEv])
      · refine ⟨(initClause io cfg s.m src).evs ++ bevs ++ [.stop x], ?_, ?_⟩
        · rw [hb1, (stepClause_fixed io cfg _ src x).2]; simp [List.append_assoc]
        · exact wtrack_append_of (wtrack_append_of hinit hb2) (by simp [wtrack, wtrackEv])
      · refine ⟨(initClause io cfg s.m src).evs ++ bevs ++ [.left .brk], ?_, ?_⟩
        · rw [hb1]; simp [List.append_assoc]
        · exact wtrack_append_of (wtrack_append_of hinit hb2) (by simp [wtrack, wtrackEv])
      · refine ⟨(initClause io cfg s.m src).evs ++ bevs ++ [.left .throw], ?_, ?_⟩
        · rw [hb1]; simp [List.append_assoc]
        · exact wtrack_append_of (wtrack_append_of hinit hb2) (by simp [wtrack, wtrackEv])
      · refine ⟨(initClause io cfg s.m src).evs ++ bevs ++ [.left .ret], ?_, ?_⟩
        · rw [hb1]; simp [List.append_assoc]
        · exact wtrack_append_of (wtrack_append_of hinit hb2) (by simp [wtrack, wtrackEv])
theorem execList_protocol (cfg : Cfg) : ∀ (p : List Stmt) (s : WSys σ) (stack : List Nat),
    ∃ evs, (execList io cfg WithCfg.fixed p s).ev = s.ev ++ evs ∧ wtrack (stack, none) evs = some (stack, none)
  | [], s, stack => ⟨[], by simp [execList], rfl⟩
  | st :: rest, s, stack => by
    simp only [execList]
    obtain ⟨e1, h1, t1⟩ := execStmt_protocol cfg st s stack
    obtain ⟨e2, h2, t2⟩ := execList_protocol cfg rest (execStmt io cfg WithCfg.fixed st s) stack
    exact ⟨e1 ++ e2, by rw [h2, h1, List.append_assoc], wtrack_append_of t1 t2⟩
end

/-! ### one block under the macro as it is -/

/-- a block whose init clause yields `x` and whose body reaches the step clause: init clause, body, one File_Close
    on `x` -/
theorem execStmt_withIn_fixed (cfg : Cfg) (src : Src) (body : List Stmt) (leave : Leave) (s : WSys σ) (x : Nat)
    (hx : (initClause io cfg s.m src).x = some x) (hl : leave.runsStep = true) :
    execStmt io cfg WithCfg.fixed (.withIn src body leave) s =
      let b := execList io cfg WithCfg.fixed body ⟨(initClause io cfg s.m src).m, s.ev ++ (initClause io cfg s.m src).evs⟩
      ⟨b.m.step io cfg x (.op .withExit), b.ev ++ [.stop x]⟩ := by
  simp only [execStmt, hx, hl, if_true]
  rw [(stepClause_fixed io cfg _ src x).1, (stepClause_fixed io cfg _ src x).2]

/-- … left by break or an exception: init clause and body only -/
theorem execStmt_withIn_left (cfg : Cfg) (w : WithCfg) (src : Src) (body : List Stmt) (leave : Leave) (s : WSys σ) (x : Nat)
    (hx : (initClause io cfg s.m src).x = some x) (hl : leave.runsStep = false) :
    execStmt io cfg w (.withIn src body leave) s =
      let b := execList io cfg w body ⟨(initClause io cfg s.m src).m, s.ev ++ (initClause io cfg s.m src).evs⟩
      ⟨b.m, b.ev ++ [.left leave]⟩ := by
  simp only [execStmt, hx, hl]
  simp

/-- … whose init clause threw: nothing but the evaluation -/
theorem execStmt_withIn_none (cfg : Cfg) (w : WithCfg) (src : Src) (body : List Stmt) (leave : Leave) (s : WSys σ)
    (hx : (initClause io cfg s.m src).x = none) :
    execStmt io cfg w (.withIn src body leave) s =
      ⟨(initClause io cfg s.m src).m, s.ev ++ (initClause io cfg s.m src).evs⟩ := by
  simp only [execStmt, hx]

/-- File_Close through the step clause leaves the object holding nothing (also when fclose fails, also when the body
    closed or deleted it) -/
theorem held_step_withExit (s : Multi σ) (x : Nat) : (s.step io Cfg.fixed x (.op .withExit)).held x = none := by
  simp only [Multi.step, Multi.stepR]
  cases hl : lookup x s.objs with
  | none => simp [Multi.held, hl]
  | some f =>
    simp only []
    rw [held_apply_self]
    simpa using step_closes io s.lib f .withExit rfl

/-- an object that does not exist holds nothing -/
theorem held_of_lookup_none (s : Multi σ) (o : Nat) (h : lookup o s.objs = none) : s.held o = none := by
  simp [Multi.held, h]

/-- a constructor expression that yields nothing leaves no object under the fresh name -/
theorem evalSrc_newFile_held (s : Multi σ) (name : Nat) (args : Option (Nat × Mode))
    (hx : (evalSrc io Cfg.fixed s (.newFile name args)).x = none) :
    (evalSrc io Cfg.fixed s (.newFile name args)).m.held (freshName s.objs name) = none := by
  have hfree := freshName_free s.objs name
  simp only [evalSrc, Multi.stepO, Multi.stepR, hfree] at hx ⊢
  cases hout : ((fileNew io Cfg.fixed s.lib args).val (fun _ => Val.unit)).out with
  | ok v => simp [hout] at hx
  | raised e => simp [Multi.apply, Multi.held]
  | ub => simp [Multi.apply, Multi.held]

/-- the value of a constructor expression is the fresh name -/
theorem evalSrc_newFile_x (cfg : Cfg) (s : Multi σ) (name : Nat) (args : Option (Nat × Mode)) (x : Nat)
    (hx : (evalSrc io cfg s (.newFile name args)).x = some x) : x = freshName s.objs name := by
  have hfree := freshName_free s.objs name
  simp only [evalSrc, Multi.stepO, Multi.stepR, hfree] at hx
  cases hout : ((fileNew io cfg s.lib args).val (fun _ => Val.unit)).out with
  | ok v => simp [hout] at hx; exact hx.symm
  | raised e => simp [hout] at hx
  | ub => simp [hout] at hx

/-! ### a body of writes -/

/-- the statements `swrite(f, chunk)` for each chunk -/
def writeStmts (o : Nat) (cs : List (List Byte)) : List Stmt := cs.map (fun c => Stmt.op o (.op (.write c)))

theorem execList_writes (cfg : Cfg) (w : WithCfg) (o : Nat) (h : Handle) (cs : List (List Byte)) (s : WSys σ)
    (ho : lookup o s.m.objs = some (some h)) :
    let e := execList io cfg w (writeStmts o cs) s
    e.m.lib = (writeAll io s.m.lib (some h) cs).1 ∧ lookup o e.m.objs = some (some h) ∧ e.ev = s.ev ∧
      e.m.log = s.m.log ++ (cs.map (fun _ => (o, Call.on .fwrite h))) := by
  induction cs generalizing s with
  | nil => simp [writeStmts, execList, writeAll, ho]
  | cons c cs ih =>
    have hstep : s.m.step io cfg o (.op (.write c)) =
        ⟨(fileWrite io s.m.lib (some h) c).lib, insert o (some h) s.m.objs, s.m.log ++ [(o, Call.on .fwrite h)]⟩ := by
      simp only [Multi.step, Multi.stepR, ho, step, Multi.apply, R.val, if_true]
      have := (fileWrite_track io s.m.lib (some h) c).2
      rcases hw : io.fwrite s.m.lib h c with ⟨l1, num⟩
      simp [fileWrite, hw]
    have ih' := ih ⟨s.m.step io cfg o (.op (.write c)), s.ev⟩ (by rw [hstep]; simp)
    simp only [writeStmts, List.map_cons, execList, execStmt] at ih' ⊢
    obtain ⟨a1, a2, a3, a4⟩ := ih'
    refine ⟨?_, a2, a3, ?_⟩
    · rw [a1, hstep]; simp only [writeAll]
    · rw [a4, hstep]; simp [List.append_assoc]

/-- **the documented idiom under the reference stdio**: `with (f in new(File, $S(k), $S("w"))) { swrite … }` under a
    name that is free: one fopen, the writes, one fclose of that handle; the file holds the chunks; the File is closed
    and its handle gone -/
theorem with_inline_write (l : Ref) (objs : List (Nat × Option Handle)) (log : List (Nat × Call)) (ev : List WEv)
    (k : Nat) (hk : Regular k) (name : Nat) (hfree : lookup name objs = none) (mw : Mode) (hmw : mw = .w ∨ mw = .wp)
    (cs : List (List Byte)) (leave : Leave) (hl : leave.runsStep = true) :
    let src := Src.newFile name (some (k, mw))
    let e := execStmt refIO Cfg.fixed WithCfg.fixed (.withIn src (writeStmts name cs) leave) ⟨⟨l, objs, log⟩, ev⟩
    e.m.lib.content k = cs.flatten ∧ e.m.held name = none ∧ lookup l.next e.m.lib.streams = none ∧
      e.m.log = log ++ ((Call.fopen k mw (some l.next) :: (cs.map (fun _ => Call.on .fwrite l.next) ++ [Call.on .fclose l.next])).map
        (fun c => (name, c))) ∧
      e.ev = ev ++ [.eval src (some name), .start name, .stop name] := by
  intro src e
  have hw : mw.canWrite = true := by rcases hmw with rfl | rfl <;> rfl
  obtain ⟨f1, f2, _⟩ := fopen_w l k hk mw hmw
  rcases hop : Ref.fopen l k mw with ⟨l2, r⟩
  rw [hop] at f1 f2
  simp only at f1 f2
  subst f1
  have hopen := fileOpen_none_eq refIO Cfg.fixed l k mw l2 l.next hop
  -- the init clause
  have hev : evalSrc refIO Cfg.fixed ⟨l, objs, log⟩ src =
      ⟨⟨l2, insert name (some l.next) objs, log ++ [(name, Call.fopen k mw (some l.next))]⟩, some name, .ok .unit,
        [Call.fopen k mw (some l.next)], [.eval src (some name)]⟩ := by
    simp [src, evalSrc, freshName, hfree, Multi.stepO, Multi.stepR, fileNew, hopen, R.val, Out.map, Multi.apply]
  have hinit : initClause refIO Cfg.fixed ⟨l, objs, log⟩ src =
      ⟨⟨l2, insert name (some l.next) (insert name (some l.next) objs), log ++ [(name, Call.fopen k mw (some l.next))]⟩,
        some name, .ok .unit, [Call.fopen k mw (some l.next)], [.eval src (some name), .start name]⟩ := by
    simp [initClause, hev, Multi.step, Multi.stepR, step, Multi.apply]
  have hx : (initClause refIO Cfg.fixed (WSys.mk (⟨l, objs, log⟩ : Multi Ref) ev).m src).x = some name := by
    show (initClause refIO Cfg.fixed ⟨l, objs, log⟩ src).x = some name
    rw [hinit]
  have hexec := execStmt_withIn_fixed refIO Cfg.fixed src (writeStmts name cs) leave ⟨⟨l, objs, log⟩, ev⟩ name hx hl
  -- the body
  obtain ⟨b1, b2, b3, b4⟩ := execList_writes refIO Cfg.fixed WithCfg.fixed name l.next cs
    ⟨(initClause refIO Cfg.fixed ⟨l, objs, log⟩ src).m, ev ++ (initClause refIO Cfg.fixed ⟨l, objs, log⟩ src).evs⟩
    (by rw [hinit]; simp)
  obtain ⟨_, w2⟩ := writeAll_at_end f2 hk hw rfl cs
  simp only [List.length_nil, Nat.zero_add, List.nil_append] at w2
  -- the step clause
  generalize hb : execList refIO Cfg.fixed WithCfg.fixed (writeStmts name cs)
    ⟨(initClause refIO Cfg.fixed ⟨l, objs, log⟩ src).m, ev ++ (initClause refIO Cfg.fixed ⟨l, objs, log⟩ src).evs⟩ = b at *
  have hlib : b.m.lib = (writeAll refIO l2 (some l.next) cs).1 := by rw [b1, hinit]
  have hat : At b.m.lib l.next k mw cs.flatten.length false cs.flatten := by rw [hlib]; exact w2
  obtain ⟨c1, c2, _, c4⟩ := fclose_at hat hk
  rcases hcl : Ref.fclose b.m.lib l.next with ⟨l3, ok⟩
  rw [hcl] at c1 c2 c4
  simp only at c1 c2 c4
  subst c1
  have hstep : b.m.step refIO Cfg.fixed name (.op .withExit) =
      ⟨l3, insert name none b.m.objs, b.m.log ++ [(name, Call.on .fclose l.next)]⟩ := by
    simp [Multi.step, Multi.stepR, b2, step, fileClose, refIO, hcl, Multi.apply, R.val]
  have he : e = ⟨b.m.step refIO Cfg.fixed name (.op .withExit), b.ev ++ [.stop name]⟩ := hexec
  rw [he, hstep]
  refine ⟨?_, ?_, c4, ?_, ?_⟩
  · show (Ref.content l3 k) = _
    simp only [Ref.content, c2]
    have := hat.content
    simpa [Ref.content] using this
  · simp [Multi.held]
  · simp only [b4, hinit]; simp [List.append_assoc]
  · simp only [b3, hinit]; simp [List.append_assoc]

end Cello.File
