/-
  C04 helper lemmas: one step of the Tuple model against the abstract step; iteration and `mem` by pointer identity
  (they agree with the abstract sequence exactly when the stored pointers are distinct — known finding F13 otherwise).
-/
import CelloProofs.Lemmas.SeqBasic

namespace Cello.Seq
variable {α : Type}

namespace Tup

theorem step_refines [BEq α] (t : Tup α) (op : Op α) (l' : List α)
    (h : Spec.tupStep t.items op = some l') : (t.step op).2 = .ok () ∧ (t.step op).1.items = l' := by
  have hlen : t.len = t.items.length := rfl
  cases op with
  | push x => simp [Spec.tupStep] at h; subst h; simp [step, push]
  | append x => simp [Spec.tupStep] at h; subst h; simp [step, push]
  | pop =>
    simp only [Spec.tupStep] at h
    by_cases he : t.items.isEmpty = true
    · rw [if_pos he] at h; cases h
    · rw [if_neg he] at h; cases h
      have hne : t.len ≠ 0 := by
        rw [hlen]; intro h0; exact he (by simp [List.eq_nil_of_length_eq_zero h0])
      simp only [step, pop]
      rw [if_neg hne]; simp
  | pushAt x i =>
    simp only [Spec.tupStep, Option.map_eq_some_iff] at h
    obtain ⟨k, hk, rfl⟩ := h
    obtain ⟨h1, h2, h3⟩ := idx_some _ _ _ hk
    have h1' : ¬ (normIdx t.len i < 0 ∨ normIdx t.len i ≥ (t.len : Int)) := h1
    have h2' : (normIdx t.len i).toNat = k := h2
    simp only [step, pushAt]
    rw [if_neg h1']
    simp [h2', take_cons_drop_eq_insertIdx _ _ _ (Nat.le_of_lt h3)]
  | popAt i =>
    simp only [Spec.tupStep, Option.map_eq_some_iff] at h
    obtain ⟨k, hk, rfl⟩ := h
    obtain ⟨h1, h2, _⟩ := idx_some _ _ _ hk
    have h1' : ¬ (normIdx t.len i < 0 ∨ normIdx t.len i ≥ (t.len : Int)) := h1
    have h2' : (normIdx t.len i).toNat = k := h2
    simp only [step, popAt]
    rw [if_neg h1']
    simp [h2', take_drop_succ_eq_eraseIdx]
  | set i x =>
    simp only [Spec.tupStep, Option.map_eq_some_iff] at h
    obtain ⟨k, hk, rfl⟩ := h
    obtain ⟨h1, h2, _⟩ := idx_some _ _ _ hk
    have h1' : ¬ (normIdx t.len i < 0 ∨ normIdx t.len i ≥ (t.len : Int)) := h1
    have h2' : (normIdx t.len i).toNat = k := h2
    simp only [step, set]
    rw [if_neg h1']
    simp [h2']
  | rem x =>
    simp only [Spec.tupStep] at h
    by_cases hm : t.items.any (fun y => x == y) = true
    · rw [if_pos hm] at h
      cases h
      simp only [step, rem]
      cases hf : t.items.findIdx? (fun y => x == y) with
      | none => rw [(findIdx?_none_any _ _).1 hf] at hm; cases hm
      | some i =>
        obtain ⟨hi, he⟩ := findIdx?_eraseP _ _ _ hf
        have hn : normIdx t.len (i : Int) = (i : Int) := by
          unfold normIdx; rw [if_neg (by omega)]
        simp only [popAt, hn]
        rw [if_neg (by omega)]
        simp [take_drop_succ_eq_eraseIdx, he]
    · rw [if_neg hm] at h; cases h
  | concat ys => simp [Spec.tupStep] at h; subst h; simp [step, concat]
  | resize n =>
    simp only [Spec.tupStep] at h
    by_cases hn : n < t.items.length
    · rw [if_pos hn] at h; cases h
      have hn' : n < t.len := hn
      simp only [step, resize]
      rw [if_pos hn']; simp
    · rw [if_neg hn] at h; cases h
  | sort f => simp [Spec.tupStep] at h; subst h; simp [step, sortBy]
  | assign ys b =>
    simp only [Spec.tupStep] at h
    cases b
    · by_cases he : t.items.isEmpty = true
      · simp [he] at h; subst h
        have : t.items = [] := by simpa [List.isEmpty_iff] using he
        simp [step, assign, this]
      · simp [he] at h
    · simp at h; subst h; simp [step, assign]

theorem step_out_of_range [BEq α] (t : Tup α) (op : Op α) (hop : op.iterAssign = false)
    (h : Spec.tupStep t.items op = none) :
    (t.step op).1 = t ∧ ∃ e, (t.step op).2 = .raised e := by
  have hlen : t.len = t.items.length := rfl
  cases op with
  | push x => simp [Spec.tupStep] at h
  | append x => simp [Spec.tupStep] at h
  | pop =>
    simp only [Spec.tupStep] at h
    by_cases he : t.items.isEmpty = true
    · have h0 : t.len = 0 := by rw [hlen]; simpa [List.isEmpty_iff] using he
      simp [step, pop, h0]
    · rw [if_neg he] at h; cases h
  | pushAt x i =>
    simp only [Spec.tupStep, Option.map_eq_none_iff] at h
    have hc : normIdx t.len i < 0 ∨ normIdx t.len i ≥ (t.len : Int) := idx_none _ _ h
    simp only [step, pushAt]
    rw [if_pos hc]; simp
  | popAt i =>
    simp only [Spec.tupStep, Option.map_eq_none_iff] at h
    have hc : normIdx t.len i < 0 ∨ normIdx t.len i ≥ (t.len : Int) := idx_none _ _ h
    simp only [step, popAt]
    rw [if_pos hc]; simp
  | set i x =>
    simp only [Spec.tupStep, Option.map_eq_none_iff] at h
    have hc : normIdx t.len i < 0 ∨ normIdx t.len i ≥ (t.len : Int) := idx_none _ _ h
    simp only [step, set]
    rw [if_pos hc]; simp
  | rem x =>
    simp only [Spec.tupStep] at h
    by_cases hm : t.items.any (fun y => x == y) = true
    · rw [if_pos hm] at h; cases h
    · have hm' : t.items.any (fun y => x == y) = false := by simpa using hm
      simp [step, rem, (findIdx?_none_any _ _).2 hm']
  | concat ys => simp [Spec.tupStep] at h
  | resize n =>
    simp only [Spec.tupStep] at h
    by_cases hn : n < t.items.length
    · rw [if_pos hn] at h; cases h
    · have hn' : ¬ n < t.len := hn
      simp only [step, resize]
      rw [if_neg hn']; simp
  | sort f => simp [Spec.tupStep] at h
  | assign ys b =>
    cases b
    · simp [Op.iterAssign] at hop
    · simp [Spec.tupStep] at h

theorem get_eq (t : Tup α) (i : Int) :
    t.get i = match Spec.get t.items i with
      | some x => .ok x
      | none => .raised .indexOutOfBounds := by
  unfold get Spec.get
  cases hk : Spec.idx t.items.length i with
  | none =>
    have hc : normIdx t.len i < 0 ∨ normIdx t.len i ≥ (t.len : Int) := idx_none _ _ hk
    simp only [Option.bind_none]
    rw [if_pos hc]
  | some k =>
    obtain ⟨h1, h2, h3⟩ := idx_some _ _ _ hk
    have h1' : ¬ (normIdx t.len i < 0 ∨ normIdx t.len i ≥ (t.len : Int)) := h1
    have h2' : (normIdx t.len i).toNat = k := h2
    simp only [Option.bind_some]
    rw [if_neg h1', h2']
    simp [List.getElem?_eq_getElem h3]

/-! ### iteration by identity -/

/-- the stored pointers are pairwise distinct -/
def Distinct (ident : α → Nat) (t : Tup α) : Prop := (t.items.map ident).Nodup

/-- with distinct pointers the scan of `Tuple_Iter_Next` / `_Prev` finds the current position -/
theorem findIdx_ident (ident : α → Nat) (l : List α) (hnd : (l.map ident).Nodup) (k : Nat) (hk : k < l.length) :
    l.findIdx? (fun y => ident y == ident l[k]) = some k := by
  induction l generalizing k with
  | nil => simp at hk
  | cons y ys ih =>
    simp only [List.map_cons, List.nodup_cons] at hnd
    cases k with
    | zero => simp [List.findIdx?_cons]
    | succ k =>
      simp only [List.length_cons, Nat.add_lt_add_iff_right] at hk
      have hne : (ident y == ident ys[k]) = false := by
        simp only [beq_eq_false_iff_ne, ne_eq]
        intro he
        exact hnd.1 (List.mem_map.2 ⟨ys[k], List.getElem_mem hk, he.symm⟩)
      simp only [List.findIdx?_cons, List.getElem_cons_succ, hne]
      simp [ih hnd.2 k hk]

theorem ident_head_ne (ident : α → Nat) (l : List α) (hnd : (l.map ident).Nodup) (k : Nat) (hk : k < l.length)
    (h0 : k ≠ 0) (hpos : 0 < l.length) : (ident l[0] == ident l[k]) = false := by
  cases l with
  | nil => simp at hk
  | cons y ys =>
    simp only [List.map_cons, List.nodup_cons] at hnd
    cases k with
    | zero => exact absurd rfl h0
    | succ k =>
      simp only [List.length_cons, Nat.add_lt_add_iff_right] at hk
      simp only [List.getElem_cons_zero, List.getElem_cons_succ, beq_eq_false_iff_ne, ne_eq]
      intro he
      exact hnd.1 (List.mem_map.2 ⟨ys[k], List.getElem_mem hk, he.symm⟩)

theorem iterNext_at (ident : α → Nat) (t : Tup α) (hd : t.Distinct ident) (k : Nat) (hk : k < t.items.length) :
    t.iterNext ident t.items[k] = t.items[k + 1]? := by
  unfold iterNext
  rw [findIdx_ident ident t.items hd k hk]

theorem iterPrev_at (ident : α → Nat) (t : Tup α) (hd : t.Distinct ident) (k : Nat) (hk : k < t.items.length) :
    t.iterPrev ident t.items[k] = if k = 0 then none else t.items[k - 1]? := by
  unfold iterPrev
  have hpos : 0 < t.items.length := by omega
  rw [List.head?_eq_getElem?, List.getElem?_eq_getElem hpos]
  simp only
  by_cases h0 : k = 0
  · subst h0; simp
  · have hne := ident_head_ne ident t.items hd k hk h0 hpos
    rw [hne, findIdx_ident ident t.items hd k hk]
    simp [h0]

theorem collect_fwd_el (l : List α) (next : α → Option α)
    (hnext : ∀ k (hk : k < l.length), next l[k] = l[k + 1]?) :
    ∀ (fuel k : Nat) (hk : k < l.length), l.length - k ≤ fuel →
      collect next some fuel (some l[k]) = some (l.drop k) := by
  intro fuel
  induction fuel with
  | zero => intro k hk hf; omega
  | succ fuel ih =>
    intro k hk hf
    simp only [collect, hnext k hk]
    by_cases hlast : k + 1 < l.length
    · rw [List.getElem?_eq_getElem hlast, ih (k + 1) hlast (by omega)]
      simp only [Option.map_some]
      rw [← List.getElem_cons_drop hk]
    · rw [List.getElem?_eq_none (by omega)]
      simp only [collect_none, Option.map_some]
      rw [List.drop_eq_getElem_cons hk, List.drop_eq_nil_of_le (by omega)]

theorem collect_bwd_el (l : List α) (prev : α → Option α)
    (hprev : ∀ k (hk : k < l.length), prev l[k] = if k = 0 then none else l[k - 1]?) :
    ∀ (fuel k : Nat) (hk : k < l.length), k + 1 ≤ fuel →
      collect prev some fuel (some l[k]) = some ((l.take (k + 1)).reverse) := by
  intro fuel
  induction fuel with
  | zero => intro k hk hf; omega
  | succ fuel ih =>
    intro k hk hf
    simp only [collect, hprev k hk]
    cases k with
    | zero =>
      simp only [if_true, collect_none, Option.map_some]
      rw [List.take_succ_eq_append_getElem hk]
      rfl
    | succ k =>
      have hk' : k < l.length := by omega
      simp only [Nat.add_one_ne_zero, if_false, Nat.add_sub_cancel]
      rw [List.getElem?_eq_getElem hk', ih k hk' (by omega)]
      simp only [Option.map_some]
      have h2 := List.take_succ_eq_append_getElem hk
      rw [h2, List.reverse_append]
      rfl

theorem iterFwd_eq (ident : α → Nat) (t : Tup α) (hd : t.Distinct ident) (fuel : Nat) (hf : t.items.length + 1 ≤ fuel) :
    t.iterFwd ident fuel = some t.items := by
  unfold iterFwd iterInit
  cases hl : t.items with
  | nil => simp [collect_none]
  | cons y ys =>
    have hpos : 0 < t.items.length := by simp [hl]
    have := collect_fwd_el t.items (t.iterNext ident) (iterNext_at ident t hd) fuel 0 hpos (by omega)
    simp only [hl, List.getElem_cons_zero, List.drop_zero, List.head?_cons] at this ⊢
    exact this

theorem iterBwd_eq (ident : α → Nat) (t : Tup α) (hd : t.Distinct ident) (fuel : Nat) (hf : t.items.length + 1 ≤ fuel) :
    t.iterBwd ident fuel = some t.items.reverse := by
  unfold iterBwd iterLast
  by_cases h0 : t.items.length = 0
  · simp [List.eq_nil_of_length_eq_zero h0, collect_none]
  · have hk : t.items.length - 1 < t.items.length := by omega
    have := collect_bwd_el t.items (t.iterPrev ident) (iterPrev_at ident t hd) fuel (t.items.length - 1) hk (by omega)
    rw [List.getLast?_eq_getElem?, List.getElem?_eq_getElem hk, this]
    have : t.items.length - 1 + 1 = t.items.length := by omega
    simp [this]

theorem memLoop_eq [BEq α] (ident : α → Nat) (t : Tup α) (hd : t.Distinct ident) (x : α) :
    ∀ (fuel k : Nat) (hk : k < t.items.length), t.items.length - k ≤ fuel →
      memLoop ident t x fuel (some t.items[k]) = some ((t.items.drop k).any (· == x)) := by
  intro fuel
  induction fuel with
  | zero => intro k hk hf; omega
  | succ fuel ih =>
    intro k hk hf
    simp only [memLoop]
    rw [List.drop_eq_getElem_cons hk, List.any_cons]
    by_cases hx : (t.items[k] == x) = true
    · simp [hx]
    · simp only [hx, Bool.false_eq_true, if_false, Bool.false_or]
      rw [iterNext_at ident t hd k hk]
      by_cases hlast : k + 1 < t.items.length
      · rw [List.getElem?_eq_getElem hlast, ih (k + 1) hlast (by omega)]
      · rw [List.getElem?_eq_none (by omega), List.drop_eq_nil_of_le (by omega)]
        cases fuel <;> simp [memLoop]

theorem mem_eq [BEq α] (ident : α → Nat) (t : Tup α) (hd : t.Distinct ident) (x : α) (fuel : Nat)
    (hf : t.items.length + 1 ≤ fuel) : t.mem ident x fuel = some (Spec.mem t.items x) := by
  unfold mem iterInit Spec.mem
  cases hl : t.items with
  | nil => cases fuel <;> simp [memLoop]
  | cons y ys =>
    have hpos : 0 < t.items.length := by simp [hl]
    have := memLoop_eq ident t hd x fuel 0 hpos (by omega)
    simp only [hl, List.getElem_cons_zero, List.drop_zero, List.head?_cons] at this ⊢
    exact this

/-- the scan of `Tuple_Iter_Next` finds a position inside a duplicate-free prefix even when pointers repeat behind it -/
theorem findIdx_ident_prefix (ident : α → Nat) (l : List α) (p : Nat) (hnd : ((l.take (p + 1)).map ident).Nodup)
    (k : Nat) (hk : k ≤ p) (hp : p < l.length) :
    l.findIdx? (fun y => ident y == ident (l[k]'(by omega))) = some k := by
  have hkl : k < (l.take (p + 1)).length := by simp; omega
  have e : (l.take (p + 1))[k] = l[k]'(by omega) := by simp
  have h1 := findIdx_ident ident (l.take (p + 1)) hnd k hkl
  rw [e] at h1
  generalize l[k]'(by omega) = c at h1 ⊢
  have := List.findIdx?_append (xs := l.take (p + 1)) (ys := l.drop (p + 1)) (p := fun y => ident y == ident c)
  rw [List.take_append_drop, h1] at this
  rw [this]; rfl

/-- **`mem` before the cycle.**  Even in a Tuple that holds a pointer twice (F13), `mem` answers `true` when an element
    equal to the argument is met while the pointers seen so far are still distinct: if `items[p] == x` and the first
    `p+1` pointers are pairwise distinct, `Tuple_Mem` returns `true` within `p+1` steps. -/
theorem mem_dup_true_prefix [BEq α] (ident : α → Nat) (t : Tup α) (x : α) (p : Nat) (hp : p < t.items.length)
    (hx : (t.items[p] == x) = true) (hnd : ((t.items.take (p + 1)).map ident).Nodup) (fuel : Nat) (hf : p + 1 ≤ fuel) :
    t.mem ident x fuel = some true := by
  have hloop : ∀ (fuel k : Nat) (hk : k ≤ p), p - k < fuel →
      memLoop ident t x fuel (some (t.items[k]'(by omega))) = some true := by
    intro fuel
    induction fuel with
    | zero => intro k _ hf; omega
    | succ fuel ih =>
      intro k hk hf
      simp only [memLoop]
      by_cases hxk : (t.items[k]'(by omega) == x) = true
      · rw [if_pos hxk]
      · rw [if_neg hxk]
        have hkp : k < p := by
          rcases Nat.lt_or_ge k p with h | h
          · exact h
          · have : k = p := by omega
            subst this; exact absurd hx hxk
        have hnext : t.iterNext ident (t.items[k]'(by omega)) = some (t.items[k + 1]'(by omega)) := by
          unfold iterNext
          rw [findIdx_ident_prefix ident t.items p hnd k hk hp]
          simp only
          exact List.getElem?_eq_getElem (by omega)
        rw [hnext]
        exact ih (k + 1) (by omega) (by omega)
  unfold mem iterInit
  have h0 : t.items.head? = some (t.items[0]'(by omega)) := by
    rw [List.head?_eq_getElem?]; exact List.getElem?_eq_getElem (by omega)
  rw [h0]
  exact hloop fuel 0 (by omega) (by omega)

/-- F13: a Tuple holding the same pointer twice — `foreach` never reaches `Terminal` -/
theorem iterFwd_dup_diverges (ident : α → Nat) (x : α) : ∀ fuel, (⟨[x, x]⟩ : Tup α).iterFwd ident fuel = none := by
  intro fuel
  unfold iterFwd iterInit
  simp only [List.head?_cons]
  induction fuel with
  | zero => rfl
  | succ fuel ih =>
    simp only [collect]
    have : (⟨[x, x]⟩ : Tup α).iterNext ident x = some x := by simp [iterNext, List.findIdx?_cons]
    rw [this, ih]; rfl

end Tup
end Cello.Seq
