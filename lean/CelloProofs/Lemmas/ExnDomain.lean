/-
  Lemmas about the object domain of C07 (Cello/Exn.lean: `inDomain`, `normalizeMsg`) and about `catchPhase`
  (for any filter walk `dec`: the current walk by index and the OLD foreach walk).
-/
import Cello.Exn
import CelloProofs.Lemmas.ExnWalk

namespace Cello.Exn

/-- inside the object domain the reference never raises NULL -/
theorem eval_exc_ne_zero (p : Prog) : ∀ (x e : Nat), x ≠ 0 → inDomain p = true → (eval p x).2 = some e → e ≠ 0 := by
  induction p with
  | stmt t => intro x e _ _ h; simp [eval] at h
  | throw e0 => intro x e _ hd h; simp [eval] at h; subst h; simpa [inDomain] using hd
  | throwBad e0 => intro x e _ hd; simp [inDomain] at hd
  | rethrow => intro x e hx _ h; simp [eval] at h; subst h; exact hx
  | call p ih => intro x e hx hd h; exact ih x e hx (by simpa [inDomain] using hd) (by simpa [eval] using h)
  | seq p q ihp ihq =>
    intro x e hx hd h
    simp only [inDomain, Bool.and_eq_true] at hd
    simp only [eval] at h
    rcases hev : eval p x with ⟨t1, _ | e1⟩
    · rw [hev] at h
      exact ihq x e hx hd.2 (by simpa using h)
    · rw [hev] at h; simp only at h
      exact ihp x e hx hd.1 (by rw [hev]; exact h)
  | tryCatch b f h ihb ihh =>
    intro x e hx hd he
    simp only [inDomain, Bool.and_eq_true] at hd
    simp only [eval] at he
    rcases hev : eval b x with ⟨t1, _ | e1⟩
    · rw [hev] at he; simp at he
    · rw [hev] at he; simp only at he
      have h1 : e1 ≠ 0 := ihb x e1 hx hd.1.1 (by rw [hev])
      by_cases hm : fmatch f e1
      · simp only [hm, if_true] at he
        exact ihh e1 e h1 hd.2 (by simpa using he)
      · simp only [hm] at he
        simp at he; subst he; exact h1

/-- `exception_try_end(); exception_catch(…)` after a body that completed: nothing is pending, nothing happens -/
theorem catchPhase_inactive (dec : List Nat → Nat → Walk) (c : Bool) (runH : Nat → St → St × List Ev × Sig)
    (f : List Nat) (s3 : St) (t : List Ev)
    (d : Nat) (hd : s3.depth = d + 1) (ha : s3.active = false) :
    catchPhase dec c runH f s3 t = ({ s3 with depth := d }, t, .normal) := by
  simp [catchPhase, hd, ha]

/-- … after the else-branch (`exception_try_fail`), real object, the filter walk finds it: the handler runs with the
    object bound, one level further out, and nothing is pending any more -/
theorem catchPhase_match (dec : List Nat → Nat → Walk) (runH : Nat → St → St × List Ev × Sig) (f : List Nat) (s3 : St)
    (t : List Ev) (d : Nat) (hd : s3.depth = d + 1) (ha : s3.active = true) (ho : s3.obj ≠ 0)
    (hm : dec f s3.obj = .matched) :
    catchPhase dec true runH f s3 t =
      ((runH s3.obj { s3 with depth := d, active := false }).1,
       t ++ [.handler s3.obj] ++ (runH s3.obj { s3 with depth := d, active := false }).2.1,
       (runH s3.obj { s3 with depth := d, active := false }).2.2) := by
  simp [catchPhase, hd, ha, hm, ho]

/-- … the walk ends without a match: the exception continues to the enclosing block's buffer, or ends the program -/
theorem catchPhase_nomatch (dec : List Nat → Nat → Walk) (c : Bool) (runH : Nat → St → St × List Ev × Sig)
    (f : List Nat) (s3 : St) (t : List Ev)
    (d : Nat) (hd : s3.depth = d + 1) (ha : s3.active = true) (hm : dec f s3.obj = .exhausted) :
    catchPhase dec c runH f s3 t =
      ({ s3 with depth := d }, t, if d ≥ 1 then .jump (d - 1) else .fatal) := by
  simp only [catchPhase, hd, ha, hm]
  by_cases h : d ≥ 1 <;> simp [h]

/-- … the walk does not end (OLD foreach walk on a repeated object): `exception_catch` does not return -/
theorem catchPhase_hangs (dec : List Nat → Nat → Walk) (c : Bool) (runH : Nat → St → St × List Ev × Sig)
    (f : List Nat) (s3 : St) (t : List Ev)
    (d : Nat) (hd : s3.depth = d + 1) (ha : s3.active = true) (hm : dec f s3.obj = .hang) :
    catchPhase dec c runH f s3 t = ({ s3 with depth := d }, t, .hang) := by
  simp [catchPhase, hd, ha, hm]

/-- a `throw` with a malformed message is, for the machine, a `throw` of FormatError -/
theorem run_normalizeMsg (dec : List Nat → Nat → Walk) (c : Bool) (m : Nat) (p : Prog) :
    ∀ (x : Nat) (s : St), (runWith dec c m (normalizeMsg p) x s).2 = (runWith dec c m p x s).2 ∧
      (runWith dec c m (normalizeMsg p) x s).1 = (runWith dec c m p x s).1 := by
  induction p with
  | stmt t => intro x s; simp [normalizeMsg]
  | throw e => intro x s; simp [normalizeMsg]
  | throwBad e => intro x s; simp [normalizeMsg, runWith, throwObj]
  | rethrow => intro x s; simp [normalizeMsg]
  | call p ih => intro x s; simpa [normalizeMsg, runWith] using ih x s
  | seq p q ihp ihq =>
    intro x s
    have hp : runWith dec c m (normalizeMsg p) x s = runWith dec c m p x s := Prod.ext (ihp x s).2 (ihp x s).1
    have hq : ∀ s, runWith dec c m (normalizeMsg q) x s = runWith dec c m q x s := fun s => Prod.ext (ihq x s).2 (ihq x s).1
    simp [normalizeMsg, runWith, hp, hq]
  | tryCatch b f h ihb ihh =>
    intro x s
    have hb : ∀ s, runWith dec c m (normalizeMsg b) x s = runWith dec c m b x s := fun s => Prod.ext (ihb x s).2 (ihb x s).1
    have hh : runWith dec c m (normalizeMsg h) = runWith dec c m h := by
      funext y s; exact Prod.ext (ihh y s).2 (ihh y s).1
    simp [normalizeMsg, runWith, hb, hh]

theorem runWith_normalizeMsg_eq (dec : List Nat → Nat → Walk) (c : Bool) (m : Nat) (p : Prog) (x : Nat) (s : St) :
    runWith dec c m (normalizeMsg p) x s = runWith dec c m p x s :=
  Prod.ext (run_normalizeMsg dec c m p x s).2 (run_normalizeMsg dec c m p x s).1

theorem run_normalizeMsg_eq (c : Bool) (m : Nat) (p : Prog) (x : Nat) (s : St) :
    run c m (normalizeMsg p) x s = run c m p x s :=
  runWith_normalizeMsg_eq catchDecision c m p x s

theorem nest_normalizeMsg (p : Prog) : nest (normalizeMsg p) = nest p := by
  induction p <;> simp_all [normalizeMsg, nest]

theorem nodupFilters_normalizeMsg (p : Prog) : nodupFilters (normalizeMsg p) = nodupFilters p := by
  induction p <;> simp_all [normalizeMsg, nodupFilters]

end Cello.Exn
