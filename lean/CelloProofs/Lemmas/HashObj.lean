/-
  Lemmas for C10: Tree re-insertion of a descending sequence, store updates.
-/
import Cello.Hash
set_option linter.unusedSimpArgs false

namespace Cello.Hash

/-- `a` is iterated before `b` in a Tree: its key is strictly greater -/
def Desc (addr : Nat → Bytes) (a b : Scalar × Scalar) : Prop := ∃ c, scalarCmp addr a.1 b.1 = some c ∧ 0 < c

/-- the iteration sequence of a Tree: keys strictly descending (every earlier key compares greater than every later key) -/
def TreeSeq (addr : Nat → Bytes) (es : List (Scalar × Scalar)) : Prop := es.Pairwise (Desc addr)

theorem treeSet_append (addr : Nat → Bytes) (acc : List (Scalar × Scalar)) (k v : Scalar)
    (h : ∀ e ∈ acc, Desc addr e (k, v)) : treeSet addr acc k v = acc ++ [(k, v)] := by
  induction acc with
  | nil => rfl
  | cons e es ih =>
    obtain ⟨c, hc, hpos⟩ := h e (by simp)
    simp only [] at hc
    have hne : ¬ c = 0 := by omega
    have hnl : ¬ c < 0 := by omega
    simp only [treeSet, hc, hne, hnl, if_false, List.cons_append]
    rw [ih (fun e' he' => h e' (by simp [he']))]

theorem foldl_treeSet (addr : Nat → Bytes) (es acc : List (Scalar × Scalar)) (h : TreeSeq addr (acc ++ es)) :
    es.foldl (fun acc e => treeSet addr acc e.1 e.2) acc = acc ++ es := by
  induction es generalizing acc with
  | nil => simp
  | cons e es ih =>
    simp only [List.foldl_cons]
    have h1 : ∀ x ∈ acc, Desc addr x (e.1, e.2) := by
      intro x hx
      have := (List.pairwise_append.mp h).2.2 x hx e (by simp)
      exact this
    rw [treeSet_append addr acc e.1 e.2 h1]
    have h2 : TreeSeq addr ((acc ++ [(e.1, e.2)]) ++ es) := by
      simpa [TreeSeq] using h
    rw [ih _ h2]; simp

/-- re-inserting the iteration sequence of a Tree into an empty Tree reproduces it (what `Tree_Assign` does) -/
theorem treeOfEntries_of_treeSeq (addr : Nat → Bytes) (es : List (Scalar × Scalar)) (h : TreeSeq addr es) :
    treeOfEntries addr es = es := by
  unfold treeOfEntries
  simpa using foldl_treeSet addr es [] (by simpa using h)

/-- the check the driver evaluates on every Tree state is the hypothesis of the Tree theorems -/
theorem treeSeqB_iff (addr : Nat → Bytes) (es : List (Scalar × Scalar)) : treeSeqB addr es = true ↔ TreeSeq addr es := by
  induction es with
  | nil => simp [treeSeqB, TreeSeq]
  | cons e es ih =>
    simp only [treeSeqB, Bool.and_eq_true, List.all_eq_true, TreeSeq, List.pairwise_cons]
    rw [show treeSeqB addr es = true ↔ List.Pairwise (Desc addr) es from ih]
    constructor
    · rintro ⟨h1, h2⟩
      refine ⟨fun f hf => ?_, h2⟩
      have := h1 f hf
      unfold Desc
      cases hc : scalarCmp addr e.1 f.1 with
      | none => simp [hc] at this
      | some c => simp only [hc, decide_eq_true_eq] at this; exact ⟨c, rfl, this⟩
    · rintro ⟨h1, h2⟩
      refine ⟨fun f hf => ?_, h2⟩
      obtain ⟨c, hc, hpos⟩ := h1 f hf
      simp [hc, hpos]

/-! ### store -/

theorem Store.get_lt {st : Store} {a : Nat} {o : Obj} (h : st.get a = some o) : a < st.size := by
  unfold Store.get at h
  by_cases hlt : a < st.size
  · exact hlt
  · simp [Array.getD, hlt] at h

theorem Store.get_set_same (st : Store) (a : Nat) (o : Obj) (h : a < st.size) :
    Store.get (st.setIfInBounds a (some o)) a = some o := by
  simp [Store.get, Array.getD, h]

theorem Store.get_set_other (st : Store) (a c : Nat) (o : Obj) (h : c ≠ a) :
    Store.get (st.setIfInBounds a (some o)) c = Store.get st c := by
  simp [Store.get, Array.getD_eq_getD_getElem?, Array.getElem?_setIfInBounds, Ne.symm h]

end Cello.Hash
