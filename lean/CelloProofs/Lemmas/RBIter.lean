/-
  Lemmas/RBIter.lean — the parent-link walks of Tree_Iter_Init/Next/Last/Prev (zipper successor / predecessor)
  enumerate the in-order sequence, forwards and backwards.
-/
import CelloProofs.Lemmas.RBRefine

namespace Cello.RB
variable {α β : Type}

/-- what is still to come, the cursor's own binding first -/
def afterC : Cursor α β → List (α × β)
  | none => []
  | some x => (x.k, x.v) :: (toList x.r ++ ctxR x.path)

/-- what lies behind, nearest first, the cursor's own binding first -/
def beforeC : Cursor α β → List (α × β)
  | none => []
  | some x => (x.k, x.v) :: (ctxL x.path ++ toList x.l).reverse

theorem size_eq_length (t : T α β) : size t = (toList t).length := by
  induction t with
  | nil => rfl
  | node c l k v r ihl ihr => simp [size, ihl, ihr]; omega

theorem toList_eq_nil_iff (t : T α β) : toList t = [] ↔ t = .nil := by
  cases t <;> simp

/-- `while (left != NULL) node = left` reaches the first binding of the subtree -/
theorem minLoc_spec (t : T α β) (p : Path α β) (x : Loc α β) (h : minLoc t p = some x) :
    x.l = .nil ∧ ctxL x.path = ctxL p ∧ (x.k, x.v) :: (toList x.r ++ ctxR x.path) = toList t ++ ctxR p := by
  induction t generalizing p with
  | nil => simp [minLoc] at h
  | node c l k v r ihl ihr =>
    unfold minLoc at h
    split at h
    · simp at h; subst h; simp
    · obtain ⟨h1, h2, h3⟩ := ihl _ h
      refine ⟨h1, ?_, ?_⟩
      · rw [h2]; simp [ctxL]
      · rw [h3]; simp [ctxR]

theorem minLoc_isSome (t : T α β) (p : Path α β) (h : t ≠ .nil) : ∃ x, minLoc t p = some x := by
  induction t generalizing p with
  | nil => exact absurd rfl h
  | node c l k v r ihl ihr =>
    unfold minLoc
    split
    · exact ⟨_, rfl⟩
    · exact ihl _ (by simp)

theorem maxLoc_isSome (t : T α β) (p : Path α β) (h : t ≠ .nil) : ∃ x, maxLoc t p = some x := by
  induction t generalizing p with
  | nil => exact absurd rfl h
  | node c l k v r ihl ihr =>
    unfold maxLoc
    split
    · exact ⟨_, rfl⟩
    · exact ihr _ (by simp)

/-- climbing while we are a right child -/
theorem climbNext_spec (t : T α β) (p : Path α β) : afterC (climbNext t p) = ctxR p := by
  induction p generalizing t with
  | nil => rfl
  | cons f p ih =>
    unfold climbNext
    split
    · rename_i hd; simp [afterC, ctxR, hd]
    · rename_i hd; rw [ih]; simp [ctxR, hd]

theorem climbPrev_spec (t : T α β) (p : Path α β) : beforeC (climbPrev t p) = (ctxL p).reverse := by
  induction p generalizing t with
  | nil => rfl
  | cons f p ih =>
    unfold climbPrev
    split
    · rename_i hd; simp [beforeC, ctxL, hd]
    · rename_i hd; rw [ih]; simp [ctxL, hd]

/-- `Tree_Iter_Next` moves to the next binding of the in-order sequence -/
theorem iterNext_spec (x : Loc α β) : afterC (iterNext x) = toList x.r ++ ctxR x.path := by
  unfold iterNext
  split
  · rename_i c l k v r hr
    obtain ⟨y, hy⟩ := minLoc_isSome x.r ({ dir := .Rt, c := x.c, k := x.k, v := x.v, sib := x.l } :: x.path)
      (by rw [hr]; simp)
    rw [hy]
    obtain ⟨_, _, h3⟩ := minLoc_spec _ _ _ hy
    simp only [afterC]; rw [h3]; simp [ctxR]
  · rename_i hr
    rw [climbNext_spec, hr]; simp

theorem iterPrev_spec (x : Loc α β) : beforeC (iterPrev x) = (ctxL x.path ++ toList x.l).reverse := by
  unfold iterPrev
  split
  · rename_i c l k v r hl
    obtain ⟨y, hy⟩ := maxLoc_isSome x.l ({ dir := .L, c := x.c, k := x.k, v := x.v, sib := x.r } :: x.path)
      (by rw [hl]; simp)
    rw [hy]
    obtain ⟨_, h2, _⟩ := maxLoc_spec _ _ _ hy
    simp only [beforeC]
    have : ctxL y.path ++ toList y.l ++ [(y.k, y.v)] = ctxL x.path ++ toList x.l := by
      rw [h2]; simp [ctxL]
    rw [← this]; simp
  · rename_i hl
    rw [climbPrev_spec, hl]; simp

/-- a `foreach` with enough fuel visits exactly what is still to come and reaches Terminal -/
theorem walk_next (n : Nat) (c : Cursor α β) (h : (afterC c).length ≤ n) : walk iterNext n c = (afterC c, true) := by
  induction n generalizing c with
  | zero =>
    cases c with
    | none => rfl
    | some x => simp [afterC] at h
  | succ n ih =>
    cases c with
    | none => rfl
    | some x =>
      simp only [walk]
      have hn := iterNext_spec x
      rw [ih (iterNext x) (by rw [hn]; simp [afterC] at h ⊢; omega)]
      rw [hn]; simp [afterC]

theorem walk_prev (n : Nat) (c : Cursor α β) (h : (beforeC c).length ≤ n) : walk iterPrev n c = (beforeC c, true) := by
  induction n generalizing c with
  | zero =>
    cases c with
    | none => rfl
    | some x => simp [beforeC] at h
  | succ n ih =>
    cases c with
    | none => rfl
    | some x =>
      simp only [walk]
      have hn := iterPrev_spec x
      rw [ih (iterPrev x) (by rw [hn]; simp [beforeC] at h ⊢; omega)]
      rw [hn]; simp [beforeC]

/-- forward iteration of a tree whose `nitems` is its number of nodes: the in-order sequence, Terminal reached -/
theorem iterFwd_eq (m : Tree α β) (hn : size m.root = m.nitems) : m.iterFwd = some (toList m.root, true) := by
  unfold Tree.iterFwd Tree.iterInit
  split
  · rename_i h0
    have : m.root = .nil := by
      rw [← toList_eq_nil_iff]; apply List.eq_nil_of_length_eq_zero; rw [← size_eq_length]; omega
    simp [this, walk]
  · rename_i h0
    have hne : m.root ≠ .nil := by
      intro h; rw [h] at hn; simp [size] at hn; omega
    obtain ⟨x, hx⟩ := minLoc_isSome m.root [] hne
    obtain ⟨_, _, h3⟩ := minLoc_spec _ _ _ hx
    rw [hx]
    simp only [Option.map_some]
    rw [walk_next]
    · simp [afterC, h3]
    · simp [afterC, h3, size_eq_length]

theorem iterBwd_eq (m : Tree α β) (hn : size m.root = m.nitems) : m.iterBwd = some ((toList m.root).reverse, true) := by
  unfold Tree.iterBwd Tree.iterLast
  split
  · rename_i h0
    have : m.root = .nil := by
      rw [← toList_eq_nil_iff]; apply List.eq_nil_of_length_eq_zero; rw [← size_eq_length]; omega
    simp [this, walk]
  · rename_i h0
    have hne : m.root ≠ .nil := by
      intro h; rw [h] at hn; simp [size] at hn; omega
    obtain ⟨x, hx⟩ := maxLoc_isSome m.root [] hne
    obtain ⟨h1, h2, _⟩ := maxLoc_spec _ _ _ hx
    rw [hx]
    simp only [Option.map_some]
    have hb : beforeC (some x) = (toList m.root).reverse := by
      simp only [beforeC]
      simp only [ctxL_nil, List.nil_append] at h2
      rw [← h2]; simp
    rw [walk_prev]
    · rw [hb]
    · rw [hb]; simp [size_eq_length]

end Cello.RB
