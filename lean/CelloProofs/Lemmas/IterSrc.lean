/- helper lemmas for C11: the terms extracted from src/Iter.c / src/Table.c (CelloGen/Iter.lean, interpreted by Cello/IterSrc.lean)
   agree with the hand model of Cello/Iter.lean -/
import Cello.IterSrc
import CelloProofs.Lemmas.IterContainers
import CelloProofs.Lemmas.IterViews

namespace Cello.Iter
open CelloGen.Iter (Opd Rel Tern Proto FilterFn Bound SStmt Start Scan)

variable {α : Type}

/-! ### Slice_Arg -/

theorem toU64_id (x : Int) (h : 0 ≤ x) (h2 : x < 18446744073709551616) : toU64 x = x := by unfold toU64; omega
theorem toI64_id (x : Int) (h : -9223372036854775808 ≤ x) (h2 : x < 9223372036854775808) : toI64 x = x := by
  unfold toI64; simp only []; split <;> omega
theorem toI64_toU64 (x : Int) : toI64 (toU64 x) = toI64 x := by
  unfold toI64 toU64; simp only [Int.emod_emod]

/-- `a = a < 0 ? n+a : a;` (the sum is a `size_t`; assigned back to the `int64_t` it is the signed sum) -/
theorem tern_neg (n : Nat) (a : Int) (hn : (n : Int) < 9223372036854775808)
    (ha : -9223372036854775808 ≤ a ∧ a < 9223372036854775808) :
    ternRun n a ⟨.a, .lt, .lit 0, .nPlusA, .a⟩ = if a < 0 then (n : Int) + a else a := by
  have hn0 : (0 : Int) ≤ n := Int.natCast_nonneg n
  simp only [ternRun, opdEval, relHolds, Bool.or_self, Bool.false_eq_true, if_false, Int.natCast_zero]
  by_cases h : a < 0
  · have e : toI64 (toU64 ((n : Int) + a)) = (n : Int) + a := by rw [toI64_toU64]; exact toI64_id _ (by omega) (by omega)
    simp [h, e]
  · have e := toI64_id a ha.1 ha.2
    simp [h, e]

/-- `a = a > (int64_t)n ? (int64_t)n : a;` (signed comparison) -/
theorem tern_hi (n : Nat) (a : Int) (hn : (n : Int) < 9223372036854775808)
    (ha : -9223372036854775808 ≤ a ∧ a < 9223372036854775808) :
    ternRun n a ⟨.a, .gt, .nCast, .nCast, .a⟩ = if a > (n : Int) then (n : Int) else a := by
  have hn0 : (0 : Int) ≤ n := Int.natCast_nonneg n
  have e : toI64 (n : Int) = n := toI64_id _ (by omega) hn
  simp only [ternRun, opdEval, relHolds, Bool.or_self, Bool.false_eq_true, if_false, e]
  by_cases h : a > (n : Int)
  · simp [h, e]
  · have e2 := toI64_id a ha.1 ha.2
    simp [h, e2]

/-- `a = a < 0 ? 0 : a;` -/
theorem tern_lo (n : Nat) (a : Int) (ha : -9223372036854775808 ≤ a ∧ a < 9223372036854775808) :
    ternRun n a ⟨.a, .lt, .lit 0, .lit 0, .a⟩ = if a < 0 then 0 else a := by
  simp only [ternRun, opdEval, relHolds, Bool.or_self, Bool.false_eq_true, if_false, Int.natCast_zero]
  by_cases h : a < 0
  · have e := toI64_id 0 (by omega) (by omega)
    simp [h, e]
  · have e := toI64_id a ha.1 ha.2
    simp [h, e]

theorem sliceArgSrc_eq (n : Nat) (a : Int) (hn : (n : Int) < 9223372036854775808)
    (ha : -9223372036854775808 ≤ a ∧ a < 9223372036854775808) : sliceArgSrc n a = sliceArg n a := by
  have hn0 : (0 : Int) ≤ n := Int.natCast_nonneg n
  show ternRun n (ternRun n (ternRun n a ⟨.a, .lt, .lit 0, .nPlusA, .a⟩) ⟨.a, .gt, .nCast, .nCast, .a⟩) ⟨.a, .lt, .lit 0, .lit 0, .a⟩ = _
  rw [tern_neg n a hn ha]
  have h1 : -9223372036854775808 ≤ (if a < 0 then (n : Int) + a else a) ∧ (if a < 0 then (n : Int) + a else a) < 9223372036854775808 := by
    split <;> omega
  rw [tern_hi n _ hn h1]
  have h2 : -9223372036854775808 ≤ (if (if a < 0 then (n : Int) + a else a) > (n : Int) then (n : Int) else (if a < 0 then (n : Int) + a else a)) ∧
      (if (if a < 0 then (n : Int) + a else a) > (n : Int) then (n : Int) else (if a < 0 then (n : Int) + a else a)) < 9223372036854775808 := by
    split <;> omega
  rw [tern_lo n _ h2]
  rfl

theorem sliceArgBlankSrc_eq (n : Nat) (hn : (n : Int) < 9223372036854775808) :
    sliceArgBlankSrc n 0 = some 0 ∧ sliceArgBlankSrc n 1 = some (n : Int) ∧ sliceArgBlankSrc n 2 = some 1 := by
  have hn0 : (0 : Int) ≤ n := Int.natCast_nonneg n
  have e5 : (n : Int) % 18446744073709551616 = n := by omega
  refine ⟨?_, ?_, ?_⟩ <;> simp [sliceArgBlankSrc, CelloGen.Iter.sliceArgBlank, List.find?, opdEval, toU64, e5]

/-- slice_stack through the extracted Slice_Arg = the hand-written `sliceStack`, for every argument list -/
theorem sliceStackSrc_eq (n : Nat) (hn : (n : Int) < 9223372036854775808) (args : List (Option Int))
    (ha : ∀ x ∈ args, ∀ a, x = some a → -9223372036854775808 ≤ a ∧ a < 9223372036854775808) :
    sliceStackSrc n args = sliceStack n args := by
  obtain ⟨b0, b1, b2⟩ := sliceArgBlankSrc_eq n hn
  have full01 : ∀ (p : Nat) (x : Option Int), (p = 0 ∨ p = 1) → (∀ a, x = some a → -9223372036854775808 ≤ a ∧ a < 9223372036854775808) →
      sliceArgFull p n x = some ((x.map (sliceArg n)).getD (if p = 0 then 0 else n)) := by
    intro p x hp hx
    cases x with
    | none => rcases hp with rfl | rfl <;> simp [sliceArgFull, b0, b1]
    | some a =>
      have := sliceArgSrc_eq n a hn (hx a rfl)
      rcases hp with rfl | rfl <;> simp [sliceArgFull, CelloGen.Iter.sliceArgSkipsPart, this]
  have full2 : ∀ (x : Option Int), sliceArgFull 2 n x = some (x.getD 1) := by
    intro x; cases x <;> simp [sliceArgFull, b2, CelloGen.Iter.sliceArgSkipsPart]
  match args, ha with
  | [], _ => rfl
  | [b], ha =>
    simp [sliceStackSrc, sliceStack, full01 1 b (Or.inr rfl) (ha b (by simp))]
  | [a, b], ha =>
    simp [sliceStackSrc, sliceStack, full01 0 a (Or.inl rfl) (ha a (by simp)), full01 1 b (Or.inr rfl) (ha b (by simp))]
  | [a, b, c], ha =>
    simp [sliceStackSrc, sliceStack, full01 0 a (Or.inl rfl) (ha a (by simp)), full01 1 b (Or.inr rfl) (ha b (by simp)), full2 c]
  | _ :: _ :: _ :: _ :: _, _ => rfl

/-! ### Filter -/

theorem filterSrcI_eq (I : Iterable α) (p : α → Bool) (fuel : Nat) : filterSrcI I p fuel = filterI I p fuel := rfl

/-! ### Table_Iter_Last / Table_Iter_Prev -/

theorem runBody_ret (slots : List (Option α)) (uns : Bool) (r : List SStmt) (j : Nat) (hj : j < slots.length) :
    runBody slots uns (.retIfUsed :: r) (j : Int) = match slots[j] with
      | some a => .inl (some j, .item a)
      | none => runBody slots uns r (j : Int) := by
  have hb : ¬ ((j : Int) < 0 ∨ (j : Int) ≥ (slots.length : Int)) := by omega
  simp only [runBody, hb, if_false, Int.toNat_natCast, List.getElem?_eq_getElem hj]
  cases slots[j] <;> rfl

theorem scanDown_succ (slots : List (Option α)) (j : Nat) (hj : j < slots.length) :
    scanDown slots (j + 1) = match slots[j] with
      | some a => some (j, a)
      | none => scanDown slots j := by
  simp only [scanDown, List.getElem?_eq_getElem hj]
  cases slots[j] <;> rfl

/-- the loop of Table_Iter_Last from slot `j` (inside the array): tests `j, j-1, …, 0` — INCLUDING slot 0 — and nothing else -/
theorem lastLoop_eq (slots : List (Option α)) (hl : (slots.length : Int) < 18446744073709551616) :
    ∀ (j : Nat), j < slots.length → ∀ fuel, j + 1 ≤ fuel →
    runLoop slots true [.retIfUsed, .termIf .eq (.lit 0), .stepBy (-1)] fuel (j : Int) = scanRes (scanDown slots (j + 1)) := by
  intro j
  induction j with
  | zero =>
    intro h0 fuel hf
    obtain ⟨f, rfl⟩ : ∃ f, fuel = f + 1 := ⟨fuel - 1, by omega⟩
    have := runBody_ret slots true [.termIf .eq (.lit 0), .stepBy (-1)] 0 h0
    rw [runLoop, this, scanDown_succ slots 0 h0]
    cases slots[0] with
    | some a => rfl
    | none => simp [runBody, relHolds, boundVal, scanDown, scanRes]
  | succ j ih =>
    intro hj fuel hf
    obtain ⟨f, rfl⟩ : ∃ f, fuel = f + 1 := ⟨fuel - 1, by omega⟩
    have hne : ¬ (((j + 1 : Nat) : Int) = 0) := by omega
    have hw : toU64 (((j + 1 : Nat) : Int) + -1) = (j : Int) := by simp only [toU64]; omega
    have ih' := ih (by omega) f (by omega)
    have := runBody_ret slots true [.termIf .eq (.lit 0), .stepBy (-1)] (j + 1) hj
    rw [runLoop, this, scanDown_succ slots (j + 1) hj]
    cases slots[j + 1] with
    | some a => rfl
    | none =>
      simp only [runBody, relHolds, boundVal, Int.natCast_zero, hne, decide_false, Bool.false_eq_true, if_false, wrapPos, if_true, hw]
      exact ih'

/-- the loop of Table_Iter_Prev entered at position `j - 1` (one slot below the cursor): tests `j-1, …, 0` -/
theorem prevLoop_eq (slots : List (Option α)) :
    ∀ (j : Nat), j ≤ slots.length → ∀ fuel, j + 1 ≤ fuel →
    runLoop slots false [.termIf .lt (.lit 0), .retIfUsed, .stepBy (-1)] fuel ((j : Int) - 1) = scanRes (scanDown slots j) := by
  intro j
  induction j with
  | zero =>
    intro _ fuel hf
    obtain ⟨f, rfl⟩ : ∃ f, fuel = f + 1 := ⟨fuel - 1, by omega⟩
    simp [runLoop, runBody, relHolds, boundVal, scanDown, scanRes]
  | succ j ih =>
    intro hj fuel hf
    obtain ⟨f, rfl⟩ : ∃ f, fuel = f + 1 := ⟨fuel - 1, by omega⟩
    have e : ((j + 1 : Nat) : Int) - 1 = (j : Int) := by omega
    have hnl : ¬ ((j : Int) < 0) := by omega
    have hj' : j < slots.length := by omega
    have ih' := ih (by omega) f (by omega)
    have := runBody_ret slots false [.stepBy (-1)] j hj'
    rw [e, runLoop]
    simp only [runBody, relHolds, boundVal, Int.natCast_zero, hnl, decide_false, Bool.false_eq_true, if_false] at this ⊢
    rw [this, scanDown_succ slots j hj']
    cases slots[j] with
    | some a => rfl
    | none =>
      simp only [wrapPos, Bool.false_eq_true, if_false]
      have e2 : (j : Int) + -1 = (j : Int) - 1 := by omega
      rw [e2]; exact ih'

/-- Table_Iter_Last as extracted = the hand model, for every slot array -/
theorem tableSrc_last_eq (slots : List (Option α)) (hl : (slots.length : Int) < 18446744073709551616) (s : Option Nat) :
    (tableSrcI slots).last s = (tableI slots).last s := by
  show runScan slots CelloGen.Iter.tableIterLast 0 (slots.length + 1) = _
  by_cases h0 : (occupied slots).length = 0
  · simp [runScan, CelloGen.Iter.tableIterLast, tableI, h0]
  · have hpos : 0 < slots.length := by
      rcases Nat.eq_zero_or_pos slots.length with h | h
      · have : slots = [] := List.length_eq_zero_iff.mp h
        subst this; simp [occupied] at h0
      · exact h
    have hw : toU64 ((slots.length : Int) - 1) = ((slots.length - 1 : Nat) : Int) := by simp only [toU64]; omega
    have := lastLoop_eq slots hl (slots.length - 1) (by omega) (slots.length + 1) (by omega)
    have e : slots.length - 1 + 1 = slots.length := by omega
    rw [e] at this
    simp only [runScan, CelloGen.Iter.tableIterLast, h0, and_false, if_false, boundVal, wrapPos, if_true, hw, tableI]
    exact this

/-- Table_Iter_Prev as extracted = the hand model, for every cursor inside the slot array -/
theorem tableSrc_prev_eq (slots : List (Option α)) (i : Nat) (hi : i < slots.length) :
    (tableSrcI slots).prev (some i) = (tableI slots).prev (some i) := by
  show runScan slots CelloGen.Iter.tableIterPrev i (slots.length + 1) = scanRes (scanDown slots i)
  have := prevLoop_eq slots i (by omega) (slots.length + 1) (by omega)
  simp only [runScan, CelloGen.Iter.tableIterPrev, Bool.false_eq_true, false_and, if_false, wrapPos]
  have e2 : (i : Int) + -1 = (i : Int) - 1 := by omega
  rw [e2]
  exact this

theorem tableSrc_bwd_scan (slots : List (Option α)) : ∀ (i : Nat),
    Run (tableSrcI slots).prev (scanRes (scanDown slots i)) ((slots.take i).filterMap id).reverse := by
  intro i
  induction i with
  | zero => exact Run.term _
  | succ i ih =>
    rw [List.take_add_one]
    cases hx : slots[i]? with
    | none => simpa [scanDown, hx] using ih
    | some x =>
      cases x with
      | none => simpa [scanDown, hx] using ih
      | some a =>
        have hi : i < slots.length := by
          rcases Nat.lt_or_ge i slots.length with h | h
          · exact h
          · rw [List.getElem?_eq_none_iff.mpr h] at hx; cases hx
        simp only [scanDown, hx, scanRes, Option.toList_some, List.filterMap_append, List.reverse_append]
        refine Run.item _ _ _ ?_
        rw [tableSrc_prev_eq slots i hi]
        simpa [tableI] using ih

/-- the iterable whose Last / Prev are the programs extracted from src/Table.c iterates exactly over the used slots -/
theorem tableSrc_lawfulAs (slots : List (Option α)) (hl : (slots.length : Int) < 18446744073709551616) :
    LawfulAs (tableSrcI slots) (occupied slots) := by
  refine ⟨?_, ?_, ?_, ?_⟩
  · exact (table_lawfulAs slots).fwd
  · intro s
    rw [tableSrc_last_eq slots hl s]
    dsimp only [tableI]
    split
    · next h0 =>
      have : occupied slots = [] := List.length_eq_zero_iff.mp h0
      rw [this]; exact Run.term _
    · have := tableSrc_bwd_scan slots slots.length
      rw [List.take_length] at this; exact this
  · intro n hn; simp [tableSrcI] at hn; omega
  · intro g hg; simp [tableSrcI] at hg

end Cello.Iter
