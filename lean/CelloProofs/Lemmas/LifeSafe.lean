/-
  Lemmas for C06, part 4: *safety* of the collector for every history — destructors that allocate included.

  A destructor that allocates re-enters `GC_Set` and may run a nested collection that replaces the pending list of the
  sweep in progress (known finding KF-C06-dtor-alloc): objects are lost.  The exact-effect relation `Eff` of parts 1–3
  does not survive that.  What does survive is safety: no object is ever finalised or released twice, none is released
  before it is finalised.  The argument: an object is finalised only at the moment it leaves the collector's tables (or,
  raw, when the program releases it), nothing that has left them ever comes back, and what enters them (the objects that
  destructors allocate) has fresh identities.

  Everything here is proved for every configuration `c` with the two halves of fix 5c00ad8 present — whether or not the
  repair proposed for KF-C06-dtor-alloc (`c.setGuardsSweep`, `c.teardownRepeats`) is.
-/
import CelloProofs.Lemmas.LifeInv

namespace Cello.Life

/-! ### the ledger: what a piece of work may append -/

/-- appending `E` to a ledger `L` keeps "every object: no event, or exactly one `fin` then one `free`" -/
def GoodExt (L E : List Ev) : Prop := ∀ x, Clean x E ∨ (Clean x L ∧ Once x E)

theorem GoodExt.nil (L : List Ev) : GoodExt L [] := fun x => Or.inl (Clean.nil x)

theorem Once.not_clean {a : Addr} {l : List Ev} (h : Once a l) : ¬ Clean a l := by
  obtain ⟨pre, mid, post, rfl, _⟩ := h
  intro hc
  exact hc.1 (by simp)

theorem GoodExt.append {L E1 E2 : List Ev} (h1 : GoodExt L E1) (h2 : GoodExt (L ++ E1) E2) : GoodExt L (E1 ++ E2) := by
  intro x
  rcases h1 x with c1 | ⟨cl, o1⟩
  · rcases h2 x with c2 | ⟨cl2, o2⟩
    · exact Or.inl (clean_append.2 ⟨c1, c2⟩)
    · exact Or.inr ⟨(clean_append.1 cl2).1, Once.append_left c1 o2⟩
  · rcases h2 x with c2 | ⟨cl2, _⟩
    · exact Or.inr ⟨cl, o1.append_right c2⟩
    · exact absurd (clean_append.1 cl2).2 o1.not_clean

/-- a destructor's bracket: `fin a`, the work `E` done inside the destructor, `free a` -/
theorem GoodExt.bracket {L E : List Ev} {a : Addr} (h : GoodExt (L ++ [Ev.fin a]) E) (ha : Clean a L) :
    GoodExt L (Ev.fin a :: (E ++ [Ev.free a])) := by
  intro x
  by_cases hx : x = a
  · subst hx
    rcases h x with c | ⟨cl, _⟩
    · exact Or.inr ⟨ha, once_bracket c⟩
    · exact absurd (clean_append.1 cl).2 (by intro hc; exact hc.1 (by simp))
  · rcases h x with c | ⟨cl, o⟩
    · exact Or.inl (clean_bracket hx c)
    · exact Or.inr ⟨(clean_append.1 cl).1, o.bracket hx⟩

/-- the whole ledger stays good -/
theorem GoodExt.total {L E : List Ev} (hL : ∀ x, Clean x L ∨ Once x L) (h : GoodExt L E) :
    ∀ x, Clean x (L ++ E) ∨ Once x (L ++ E) := by
  intro x
  rcases h x with c | ⟨cl, o⟩
  · rcases hL x with c0 | o0
    · exact Or.inl (clean_append.2 ⟨c0, c⟩)
    · exact Or.inr (o0.append_right c)
  · exact Or.inr (Once.append_left cl o)

/-! ### potential objects -/

def kidsOf (p : Addr × List DAlloc) : List Addr := p.2.map (·.addr)

/-- `x` will be allocated by a destructor that has not run yet -/
def Kids (s : St) (x : Addr) : Prop := ∃ p ∈ s.dalloc, Clean p.1 s.log ∧ x ∈ kidsOf p

/-- the objects the collector may still finalise: those in its tables and those destructors will allocate -/
def Pot (s : St) (x : Addr) : Prop := Tracked s x ∨ Kids s x

structure Safe (s : St) : Prop where
  /-- nothing the collector may still finalise has a ledger event yet -/
  inert : ∀ x, Pot s x → Clean x s.log
  disj : Disj s
  nodup : s.regAddrs.Nodup
  kids_untracked : ∀ x, Kids s x → ¬ Tracked s x
  kids_nodup : ∀ p ∈ s.dalloc, (kidsOf p).Nodup
  kids_disj : ∀ p ∈ s.dalloc, ∀ p' ∈ s.dalloc, p.1 ≠ p'.1 → ∀ x, x ∈ kidsOf p → x ∉ kidsOf p'

/-- a piece of collector work from `s` to `s'` that appended `E`; `A` = objects besides the potential ones of `s` that it
    may have finalised or taken into its tables -/
structure Work (A : Addr → Prop) (s s' : St) (E : List Ev) : Prop where
  log : s'.log = s.log ++ E
  running : s'.running = s.running
  owns : s'.owns = s.owns
  dalloc : s'.dalloc = s.dalloc
  pot : ∀ x, Pot s' x → Pot s x ∨ A x
  ev : ∀ x, ¬ Clean x E → Pot s x ∨ A x
  good : GoodExt s.log E
  safe : Safe s'

theorem Kids.mono {s s' : St} {E : List Ev} (hd : s'.dalloc = s.dalloc) (hl : s'.log = s.log ++ E) {x : Addr}
    (h : Kids s' x) : Kids s x := by
  obtain ⟨p, hp, hc, hx⟩ := h
  rw [hd] at hp
  rw [hl] at hc
  exact ⟨p, hp, (clean_append.1 hc).1, hx⟩

theorem Work.refl {A : Addr → Prop} {s : St} (h : Safe s) : Work A s s [] :=
  ⟨by simp, rfl, rfl, rfl, fun x hx => Or.inl hx, fun x hx => absurd (Clean.nil x) hx, GoodExt.nil _, h⟩

theorem Work.weaken {A B : Addr → Prop} {s s' : St} {E : List Ev} (h : Work A s s' E) (hab : ∀ x, A x → Pot s x ∨ B x) :
    Work B s s' E :=
  ⟨h.log, h.running, h.owns, h.dalloc,
   fun x hx => (h.pot x hx).elim Or.inl (hab x), fun x hx => (h.ev x hx).elim Or.inl (hab x), h.good, h.safe⟩

theorem Work.trans {A : Addr → Prop} {s s1 s2 : St} {E1 E2 : List Ev} (h1 : Work A s s1 E1) (h2 : Work A s1 s2 E2) :
    Work A s s2 (E1 ++ E2) := by
  refine ⟨by rw [h2.log, h1.log, List.append_assoc], by rw [h2.running, h1.running], by rw [h2.owns, h1.owns],
    by rw [h2.dalloc, h1.dalloc], ?_, ?_, ?_, h2.safe⟩
  · intro x hx
    rcases h2.pot x hx with h | h
    · exact h1.pot x h
    · exact Or.inr h
  · intro x hx
    by_cases hx1 : Clean x E1
    · have hx2 : ¬ Clean x E2 := fun c => hx (clean_append.2 ⟨hx1, c⟩)
      rcases h2.ev x hx2 with h | h
      · exact h1.pot x h
      · exact Or.inr h
    · exact h1.ev x hx1
  · exact h1.good.append (by rw [← h1.log]; exact h2.good)

/-! ### states that differ in what does not matter -/

theorem Tracked.congr {s s' : St} (hr : s'.reg = s.reg) (hp : s'.pending = s.pending) {x : Addr} :
    Tracked s' x ↔ Tracked s x := by
  unfold Tracked St.regAddrs; rw [hr, hp]

theorem Kids.congr {s s' : St} (hl : s'.log = s.log) (hd : s'.dalloc = s.dalloc) {x : Addr} : Kids s' x ↔ Kids s x := by
  unfold Kids; rw [hl, hd]

/-- a state with the same ledger and destructor table whose tables hold no more than those of a safe state -/
theorem Safe.of_sub {s s1 : St} (h : Safe s) (hl : s1.log = s.log) (hd : s1.dalloc = s.dalloc)
    (ht : ∀ x, Tracked s1 x → Tracked s x) (hdj : Disj s1) (hn : s1.regAddrs.Nodup) : Safe s1 := by
  have hk : ∀ x, Kids s1 x ↔ Kids s x := fun x => Kids.congr hl hd
  refine ⟨?_, hdj, hn, ?_, by rw [hd]; exact h.kids_nodup, by rw [hd]; exact h.kids_disj⟩
  · intro x hx
    rw [hl]
    rcases hx with hx | hx
    · exact h.inert x (Or.inl (ht x hx))
    · exact h.inert x (Or.inr ((hk x).1 hx))
  · intro x hx htx
    exact h.kids_untracked x ((hk x).1 hx) (ht x htx)

theorem Pot.of_sub {s s1 : St} (hl : s1.log = s.log) (hd : s1.dalloc = s.dalloc)
    (ht : ∀ x, Tracked s1 x → Tracked s x) {x : Addr} (hx : Pot s1 x) : Pot s x := by
  rcases hx with hx | hx
  · exact Or.inl (ht x hx)
  · exact Or.inr ((Kids.congr hl hd).1 hx)

/-- a step that only shrinks the tables -/
theorem Work.of_sub {A : Addr → Prop} {s s1 : St} (h : Safe s) (hl : s1.log = s.log) (hd : s1.dalloc = s.dalloc)
    (hru : s1.running = s.running) (ho : s1.owns = s.owns)
    (ht : ∀ x, Tracked s1 x → Tracked s x) (hdj : Disj s1) (hn : s1.regAddrs.Nodup) : Work A s s1 [] :=
  ⟨by simp [hl], hru, ho, hd, fun x hx => Or.inl (Pot.of_sub hl hd ht hx), fun x hx => absurd (Clean.nil x) hx,
   GoodExt.nil _, h.of_sub hl hd ht hdj hn⟩

theorem Work.set_mitems {A : Addr → Prop} {s s' : St} {E : List Ev} (h : Work A s s' E) (m : Nat) :
    Work A s { s' with mitems := m } E :=
  ⟨h.log, h.running, h.owns, h.dalloc, fun x hx => h.pot x (Pot.of_sub rfl rfl (fun _ h => h) hx), h.ev, h.good,
   h.safe.of_sub rfl rfl (fun _ h => h) h.safe.disj h.safe.nodup⟩

/-! ### the pieces of the collector -/

/-- what a finaliser (`dealloc(destruct(·))`) must guarantee: called on an object that is in no table, that no destructor
    will allocate and that has no ledger event, it does safe work and touches nothing else but potential objects -/
def FinOK (fin : St → Addr → St) : Prop :=
  ∀ s a, Safe s → ¬ Pot s a → Clean a s.log → ∃ E, Work (· = a) s (fin s a) E

def SweepOK (sw : St → List Addr → List Addr → St) : Prop :=
  ∀ s marks order, Safe s → ∃ E, Work (fun _ => False) s (sw s marks order) E

theorem mem_strike {x a : Addr} {p : List (Option Addr)} : some x ∈ strike a p ↔ some x ∈ p ∧ x ≠ a := by
  rw [strike_eq, mem_strikeAll]; simp

theorem mem_eraseReg {x a : Addr} {r : List Entry} : x ∈ (eraseReg a r).map (·.addr) ↔ x ∈ r.map (·.addr) ∧ x ≠ a := by
  rw [eraseReg_eq, mem_regWithout_addrs]; simp

/-- an object has just been taken off the tables (`s1`) and is handed to the finaliser -/
theorem work_remove {fin : St → Addr → St} (hfin : FinOK fin) {s s1 : St} {a : Addr} (h : Safe s) (ha : Tracked s a)
    (hl : s1.log = s.log) (hd : s1.dalloc = s.dalloc) (hru : s1.running = s.running) (ho : s1.owns = s.owns)
    (ht : ∀ x, Tracked s1 x → Tracked s x ∧ x ≠ a) (hdj : Disj s1) (hn : s1.regAddrs.Nodup) :
    ∃ E, Work (fun _ => False) s (fin s1 a) E := by
  have w1 : Work (· = a) s s1 [] := Work.of_sub h hl hd hru ho (fun x hx => (ht x hx).1) hdj hn
  have hnp : ¬ Pot s1 a := by
    rintro (hx | hx)
    · exact (ht a hx).2 rfl
    · exact h.kids_untracked a ((Kids.congr hl hd).1 hx) ha
  have hcl : Clean a s1.log := by rw [hl]; exact h.inert a (Or.inl ha)
  obtain ⟨E, w2⟩ := hfin s1 a w1.safe hnp hcl
  refine ⟨[] ++ E, (w1.trans w2).weaken ?_⟩
  intro x hx; subst hx; exact Or.inl (Or.inl ha)

theorem gcRem_safe {fin : St → Addr → St} (hfin : FinOK fin) {c : Cfg} (hc : c.remFinalisesPending = true)
    (s : St) (x : Addr) (h : Safe s) : ∃ E, Work (fun _ => False) s (gcRem fin c s x) E := by
  unfold gcRem
  by_cases hr : s.running = true
  · simp only [hr, Bool.not_true, Bool.false_eq_true, if_false]
    suffices hs : ∃ E, Work (fun _ => False) s (gcRemPtr fin c s x) E by
      obtain ⟨E, w⟩ := hs; exact ⟨E, w.set_mitems _⟩
    unfold gcRemPtr
    by_cases hp : s.pending.contains (some x) = true
    · simp only [hp, if_true, hc]
      have hmem := mem_pending_of_contains hp
      refine work_remove (s1 := { s with pending := strike x s.pending }) hfin h (Or.inl hmem) rfl rfl rfl rfl ?_ ?_ ?_
      · intro y hy
        rcases hy with hy | hy
        · have := mem_strike.1 hy; exact ⟨Or.inl this.1, this.2⟩
        · refine ⟨Or.inr hy, ?_⟩
          intro e; subst e; exact h.disj y hmem hy
      · intro y hy; exact h.disj y (mem_strike.1 hy).1
      · exact h.nodup
    · simp only [hp, Bool.false_eq_true, if_false]
      by_cases hg : s.isReg x = true
      · simp only [hg, if_true]
        have hmem := mem_regAddrs_of_isReg hg
        refine work_remove (s1 := { s with reg := eraseReg x s.reg }) hfin h (Or.inr hmem) rfl rfl rfl rfl ?_ ?_ ?_
        · intro y hy
          rcases hy with hy | hy
          · refine ⟨Or.inl hy, ?_⟩
            intro e; subst e; exact h.disj y hy hmem
          · have := mem_eraseReg.1 hy; exact ⟨Or.inr this.1, this.2⟩
        · intro y hy hy'; exact h.disj y hy (mem_eraseReg.1 hy').1
        · show ((eraseReg x s.reg).map (·.addr)).Nodup
          rw [eraseReg_eq]; exact nodup_regWithout h.nodup
      · simp only [hg, Bool.false_eq_true, if_false]
        exact ⟨[], Work.refl h⟩
  · simp only [hr, Bool.not_false, if_true]
    · exact ⟨[], Work.refl h⟩

/-- a fold of safe steps -/
theorem fold_safe {α : Type} {f : St → α → St} (hf : ∀ s x, Safe s → ∃ E, Work (fun _ => False) s (f s x) E)
    (l : List α) : ∀ s, Safe s → ∃ E, Work (fun _ => False) s (l.foldl f s) E := by
  induction l with
  | nil => intro s h; exact ⟨[], Work.refl h⟩
  | cons x l ih =>
    intro s h
    obtain ⟨E1, w1⟩ := hf s x h
    obtain ⟨E2, w2⟩ := ih _ w1.safe
    exact ⟨E1 ++ E2, w1.trans w2⟩

/-- phase 2 of a sweep -/
theorem sweepLoopWith_safe {fin : St → Addr → St} (hfin : FinOK fin) {c : Cfg} (hc : c.sweepNullsSlot = true)
    (todo : List Addr) : ∀ s, Safe s → ∃ E, Work (fun _ => False) s (sweepLoopWith fin c todo s) E := by
  induction todo with
  | nil => intro s h; exact ⟨[], Work.refl h⟩
  | cons a rest ih =>
    intro s h
    have hstep : ∃ E, Work (fun _ => False) s
        (if s.pending.contains (some a) then
          fin (if c.sweepNullsSlot then { s with pending := strike a s.pending } else s) a else s) E := by
      by_cases hp : s.pending.contains (some a) = true
      · simp only [hp, if_true, hc]
        have hmem := mem_pending_of_contains hp
        refine work_remove (s1 := { s with pending := strike a s.pending }) hfin h (Or.inl hmem) rfl rfl rfl rfl ?_ ?_ ?_
        · intro y hy
          rcases hy with hy | hy
          · have := mem_strike.1 hy; exact ⟨Or.inl this.1, this.2⟩
          · refine ⟨Or.inr hy, ?_⟩
            intro e; subst e; exact h.disj y hmem hy
        · intro y hy; exact h.disj y (mem_strike.1 hy).1
        · exact h.nodup
      · simp only [hp, Bool.false_eq_true, if_false]
        exact ⟨[], Work.refl h⟩
    obtain ⟨E1, w1⟩ := hstep
    obtain ⟨E2, w2⟩ := ih _ w1.safe
    exact ⟨E1 ++ E2, by simpa [sweepLoopWith] using w1.trans w2⟩

/-- **a sweep is safe from any state** — also from the middle of another sweep, whose pending list it replaces: the objects
    that were waiting on it are simply in no table any more -/
theorem sweepWith_safe {fin : St → Addr → St} (hfin : FinOK fin) {c : Cfg} (hc : c.sweepNullsSlot = true) :
    SweepOK (sweepWith fin c) := by
  intro s marks order h
  have hpend : ∀ a, a ∈ pendingOf s marks order → ∃ e ∈ s.reg, swept marks e = true ∧ e.addr = a := by
    intro a ha
    unfold pendingOf at ha
    rw [mem_arrange, List.mem_map] at ha
    obtain ⟨e, he, rfl⟩ := ha
    rw [List.mem_filter] at he
    exact ⟨e, he.1, he.2, rfl⟩
  generalize hs1 : ({ s with reg := s.reg.filter (fun e => !swept marks e),
                             pending := (pendingOf s marks order).map some,
                             mitems := threshold (s.reg.filter (fun e => !swept marks e)).length,
                             marked := [] } : St) = s1
  have hreg1 : s1.reg = s.reg.filter (fun e => !swept marks e) := by rw [← hs1]
  have hpen1 : s1.pending = (pendingOf s marks order).map some := by rw [← hs1]
  have hsub : ∀ x, Tracked s1 x → Tracked s x := by
    intro x hx
    rcases hx with hx | hx
    · rw [hpen1] at hx
      have : x ∈ pendingOf s marks order := by simpa using hx
      obtain ⟨e, he, _, rfl⟩ := hpend x this
      exact Or.inr (List.mem_map.2 ⟨e, he, rfl⟩)
    · unfold St.regAddrs at hx
      rw [hreg1] at hx
      obtain ⟨e, he, rfl⟩ := List.mem_map.1 hx
      exact Or.inr (List.mem_map.2 ⟨e, (List.mem_filter.1 he).1, rfl⟩)
  have hdj : Disj s1 := by
    intro a ha hmem
    rw [hpen1] at ha
    have ha' : a ∈ pendingOf s marks order := by simpa using ha
    obtain ⟨e, he, hsw, rfl⟩ := hpend _ ha'
    unfold St.regAddrs at hmem
    rw [hreg1] at hmem
    obtain ⟨e', he', hadd⟩ := List.mem_map.1 hmem
    rw [List.mem_filter] at he'
    have : e' = e := eq_of_addr_eq_of_nodup h.nodup he'.1 he hadd
    subst this
    simp [hsw] at he'
  have hn : s1.regAddrs.Nodup := by
    unfold St.regAddrs; rw [hreg1]
    exact List.Nodup.sublist (List.Sublist.map _ List.filter_sublist) h.nodup
  have w1 : Work (fun _ => False) s s1 [] :=
    Work.of_sub h (by rw [← hs1]) (by rw [← hs1]) (by rw [← hs1]) (by rw [← hs1]) hsub hdj hn
  obtain ⟨E, w2⟩ := sweepLoopWith_safe hfin hc (pendingOf s marks order) s1 w1.safe
  have w3 : Work (fun _ => False) (sweepLoopWith fin c (pendingOf s marks order) s1)
      { sweepLoopWith fin c (pendingOf s marks order) s1 with pending := [] } [] := by
    refine Work.of_sub (s1 := { sweepLoopWith fin c (pendingOf s marks order) s1 with pending := [] })
      w2.safe rfl rfl rfl rfl ?_ ?_ ?_
    · intro x hx
      rcases hx with hx | hx
      · simp at hx
      · exact Or.inr hx
    · intro a ha; simp at ha
    · exact w2.safe.nodup
  refine ⟨[] ++ E ++ [], ?_⟩
  have hfinal := (w1.trans w2).trans w3
  have heq : sweepWith fin c s marks order =
      { sweepLoopWith fin c (pendingOf s marks order) s1 with pending := [] } := by
    rw [← hs1]; rfl
  rw [heq]
  exact hfinal

/-- `GC_Set` of an identity that is new to the collector -/
theorem gcSet_safe {sw : St → List Addr → List Addr → St} (hsw : SweepOK sw) (c : Cfg)
    (s : St) (a : Addr) (root : Bool) (marks order : List Addr) (h : Safe s) (ha : ¬ Pot s a) (hcl : Clean a s.log) :
    ∃ E, Work (· = a) s (gcSet sw c s a root marks order) E := by
  by_cases hr : s.running = true
  · have hnt : ¬ Tracked s a := fun t => ha (Or.inl t)
    have heq : gcSet sw c s a root marks order =
        if (decide (({ s with reg := s.reg ++ [⟨a, root⟩] } : St).reg.length > s.mitems) &&
            !(c.setGuardsSweep && !s.pending.isEmpty)) = true
        then sw { s with reg := s.reg ++ [⟨a, root⟩] } (markBits c { s with reg := s.reg ++ [⟨a, root⟩] } marks) order
        else { s with reg := s.reg ++ [⟨a, root⟩] } := by
      unfold gcSet
      have hnr : (!s.running) = false := by rw [hr]; rfl
      rw [hnr]; rfl
    rw [heq]
    generalize hs1 : ({ s with reg := s.reg ++ [⟨a, root⟩] } : St) = s1
    have hra : s1.regAddrs = s.regAddrs ++ [a] := by rw [← hs1]; simp [St.regAddrs]
    have htr : ∀ x, Tracked s1 x ↔ Tracked s x ∨ x = a := by
      intro x
      unfold Tracked
      rw [hra, ← hs1, List.mem_append, List.mem_singleton, or_assoc]
    have hk : ∀ x, Kids s1 x ↔ Kids s x := fun x => Kids.congr (by rw [← hs1]) (by rw [← hs1])
    have hsafe1 : Safe s1 := by
      refine ⟨?_, ?_, ?_, ?_, by rw [← hs1]; exact h.kids_nodup, by rw [← hs1]; exact h.kids_disj⟩
      · intro x hx
        have hl : s1.log = s.log := by rw [← hs1]
        rw [hl]
        rcases hx with hx | hx
        · rcases (htr x).1 hx with hx | rfl
          · exact h.inert x (Or.inl hx)
          · exact hcl
        · exact h.inert x (Or.inr ((hk x).1 hx))
      · intro x hx
        have hx' : some x ∈ s.pending := by rw [← hs1] at hx; exact hx
        rw [hra, List.mem_append, List.mem_singleton, not_or]
        refine ⟨h.disj x hx', ?_⟩
        intro e; subst e; exact hnt (Or.inl hx')
      · rw [hra, List.nodup_append]
        refine ⟨h.nodup, by simp, ?_⟩
        intro x hx y hy hxy
        rw [List.mem_singleton] at hy; subst hy; subst hxy
        exact hnt (Or.inr hx)
      · intro x hx htx
        rcases (htr x).1 htx with htx | rfl
        · exact h.kids_untracked x ((hk x).1 hx) htx
        · exact ha (Or.inr ((hk x).1 hx))
    have w1 : Work (· = a) s s1 [] := by
      refine ⟨by rw [← hs1]; simp, by rw [← hs1], by rw [← hs1], by rw [← hs1], ?_, fun x hx => absurd (Clean.nil x) hx,
        GoodExt.nil _, hsafe1⟩
      intro x hx
      rcases hx with hx | hx
      · rcases (htr x).1 hx with hx | rfl
        · exact Or.inl (Or.inl hx)
        · exact Or.inr rfl
      · exact Or.inl (Or.inr ((hk x).1 hx))
    split
    · obtain ⟨E, w2⟩ := hsw s1 (markBits c s1 marks) order hsafe1
      exact ⟨[] ++ E, w1.trans (w2.weaken (fun x hx => absurd hx id))⟩
    · exact ⟨[], w1⟩
  · have heq : gcSet sw c s a root marks order = s := by
      unfold gcSet
      have hnr : (!s.running) = true := by simpa using hr
      rw [hnr]; rfl
    rw [heq]
    exact ⟨[], Work.refl h⟩

/-- logging events of objects that are not potential keeps a state safe -/
theorem Safe.log_append {t : St} (h : Safe t) (E : List Ev) (hE : ∀ y, Pot t y → Clean y E) :
    Safe { t with log := t.log ++ E } ∧ ∀ y, Pot { t with log := t.log ++ E } y → Pot t y := by
  have hp : ∀ y, Pot { t with log := t.log ++ E } y → Pot t y := by
    intro y hy
    rcases hy with hy | hy
    · exact Or.inl hy
    · exact Or.inr (Kids.mono (s := t) (s' := { t with log := t.log ++ E }) rfl rfl hy)
  refine ⟨⟨?_, h.disj, h.nodup, ?_, h.kids_nodup, h.kids_disj⟩, hp⟩
  · intro y hy
    exact clean_append.2 ⟨h.inert y (hp y hy), hE y (hp y hy)⟩
  · intro y hy hty
    rcases hp y (Or.inr hy) with h' | h'
    · exact h.kids_untracked y (Kids.mono (s := t) (s' := { t with log := t.log ++ E }) rfl rfl hy) hty
    · exact h.kids_untracked y h' hty

/-- the allocations of one destructor -/
theorem kidsFold_safe {sw : St → List Addr → List Addr → St} (hsw : SweepOK sw) (c : Cfg) (l : List DAlloc) :
    ∀ t : St, Safe t → (l.map (·.addr)).Nodup → (∀ d ∈ l, ¬ Pot t d.addr ∧ Clean d.addr t.log) →
      ∃ E, Work (fun x => x ∈ l.map (·.addr)) t
        (l.foldl (fun st d => gcSet sw c st d.addr false d.marks d.order) t) E := by
  induction l with
  | nil => intro t h _ _; exact ⟨[], Work.refl h⟩
  | cons d l ih =>
    intro t h hnd hv
    rw [List.map_cons, List.nodup_cons] at hnd
    obtain ⟨hd1, hd2⟩ := hv d List.mem_cons_self
    obtain ⟨E1, w1⟩ := gcSet_safe hsw c t d.addr false d.marks d.order h hd1 hd2
    have hv' : ∀ d' ∈ l, ¬ Pot (gcSet sw c t d.addr false d.marks d.order) d'.addr ∧
        Clean d'.addr (gcSet sw c t d.addr false d.marks d.order).log := by
      intro d' hd'
      have hne : d'.addr ≠ d.addr := fun e => hnd.1 (e ▸ List.mem_map.2 ⟨d', hd', rfl⟩)
      obtain ⟨hp, hc⟩ := hv d' (List.mem_cons_of_mem _ hd')
      refine ⟨?_, ?_⟩
      · intro hpot
        rcases w1.pot _ hpot with h' | h'
        · exact hp h'
        · exact hne h'
      · rw [w1.log]
        refine clean_append.2 ⟨hc, ?_⟩
        apply Classical.byContradiction
        intro hnc
        rcases w1.ev _ hnc with h' | h'
        · exact hp h'
        · exact hne h'
    obtain ⟨E2, w2⟩ := ih _ w1.safe hnd.2 hv'
    refine ⟨E1 ++ E2, ?_⟩
    have w1' := w1.weaken (B := fun x => x ∈ (d :: l).map (·.addr)) (fun x hx => Or.inr (by subst hx; simp))
    have w2' := w2.weaken (B := fun x => x ∈ (d :: l).map (·.addr))
      (fun x hx => Or.inr (by rw [List.map_cons]; exact List.mem_cons_of_mem _ hx))
    simpa [List.foldl_cons] using w1'.trans w2'

theorem dallocOf_mem {s : St} {a : Addr} (hne : s.dallocOf a ≠ []) : ∃ p ∈ s.dalloc, p.1 = a ∧ p.2 = s.dallocOf a := by
  unfold St.dallocOf at hne ⊢
  cases hf : s.dalloc.find? (fun p => p.1 == a) with
  | none => rw [hf] at hne; exact absurd rfl hne
  | some p =>
    refine ⟨p, List.mem_of_find?_eq_some hf, ?_, rfl⟩
    have := List.find?_some hf
    simpa using this

/-- **the destructor cascade is safe**, whatever the destructors allocate and whatever the nested collections do -/
theorem finalise_safe {c : Cfg} (hc1 : c.remFinalisesPending = true) (hc2 : c.sweepNullsSlot = true) :
    ∀ f : Nat, FinOK (finalise f c) := by
  intro f
  induction f with
  | zero => intro s a h _ _; exact ⟨[], Work.refl h⟩
  | succ f ih =>
    intro s a h hnp hcl
    -- the objects the destructor of `a` allocates
    have hkids : ∀ d ∈ s.dallocOf a, Kids s d.addr := by
      intro d hd
      have hne : s.dallocOf a ≠ [] := fun e => by rw [e] at hd; simp at hd
      obtain ⟨p, hp, hpa, hp2⟩ := dallocOf_mem hne
      exact ⟨p, hp, by rw [hpa]; exact hcl, by unfold kidsOf; rw [hp2]; exact List.mem_map.2 ⟨d, hd, rfl⟩⟩
    have hknd : ((s.dallocOf a).map (·.addr)).Nodup := by
      by_cases hne : s.dallocOf a = []
      · rw [hne]; simp
      · obtain ⟨p, hp, _, hp2⟩ := dallocOf_mem hne
        have := h.kids_nodup p hp
        unfold kidsOf at this; rw [hp2] at this; exact this
    have hkne : ∀ d ∈ s.dallocOf a, d.addr ≠ a := fun d hd e => hnp (Or.inr (e ▸ hkids d hd))
    -- `fin a` is logged
    have hE1 : ∀ y, Pot s y → Clean y [Ev.fin a] := by
      intro y hy
      rw [clean_cons_fin]
      exact ⟨fun e => hnp (e ▸ hy), Clean.nil y⟩
    obtain ⟨hsafe1, hpot1⟩ := h.log_append [Ev.fin a] hE1
    generalize hs1 : ({ s with log := s.log ++ [Ev.fin a] } : St) = s1 at hsafe1 hpot1
    have hlog1 : s1.log = s.log ++ [Ev.fin a] := by rw [← hs1]
    have hv : ∀ d ∈ s.dallocOf a, ¬ Pot s1 d.addr ∧ Clean d.addr s1.log := by
      intro d hd
      have hk := hkids d hd
      refine ⟨?_, ?_⟩
      · rintro (ht | ⟨p', hp', hc', hx'⟩)
        · have ht' : Tracked s d.addr := by rw [← hs1] at ht; exact ht
          exact h.kids_untracked _ hk ht'
        · have hne : s.dallocOf a ≠ [] := fun e => by rw [e] at hd; simp at hd
          obtain ⟨p, hp, hpa, hp2⟩ := dallocOf_mem hne
          have hp'd : p' ∈ s.dalloc := by rw [← hs1] at hp'; exact hp'
          have hne' : p.1 ≠ p'.1 := by
            intro e
            rw [hlog1, ← e, hpa] at hc'
            exact (clean_append.1 hc').2.1 (by simp)
          refine h.kids_disj p hp p' hp'd hne' d.addr ?_ hx'
          unfold kidsOf; rw [hp2]; exact List.mem_map.2 ⟨d, hd, rfl⟩
      · rw [hlog1]
        exact clean_append.2 ⟨h.inert _ (Or.inr hk), by rw [clean_cons_fin]; exact ⟨hkne d hd, Clean.nil _⟩⟩
    have hsw : SweepOK (sweepWith (finalise f c) c) := sweepWith_safe ih hc2
    obtain ⟨E1, w1⟩ := kidsFold_safe hsw c (s.dallocOf a) s1 hsafe1 hknd hv
    obtain ⟨E2, w2⟩ := fold_safe (f := fun st x => gcRem (finalise f c) c st x)
      (fun st x hst => gcRem_safe ih hc1 st x hst) (s.ownsOf a) _ w1.safe
    have w := w1.trans (w2.weaken (B := fun x => x ∈ (s.dallocOf a).map (·.addr)) (fun x hx => absurd hx id))
    generalize ht3' : (s.ownsOf a).foldl (fun st x => gcRem (finalise f c) c st x)
      ((s.dallocOf a).foldl (fun st d => gcSet (sweepWith (finalise f c) c) c st d.addr false d.marks d.order) s1) = t3' at w
    -- the destructor's `del(NULL)`, if it issues one: touches `mitems` (and `ub`) only
    have wn : Work (fun x => x ∈ (s.dallocOf a).map (·.addr)) t3' (if s.nulldel.contains a then gcRemNull c t3' else t3') [] := by
      by_cases hn : s.nulldel.contains a = true
      · rw [if_pos hn]
        obtain ⟨h1, h2, h3, h4, h5, h6, _⟩ := gcRemNull_fields c t3'
        have hra : (gcRemNull c t3').regAddrs = t3'.regAddrs := by unfold St.regAddrs; rw [h1]
        exact Work.of_sub w.safe h5 h6 h3 h4 (fun x hx => (Tracked.congr h1 h2).1 hx)
          (by intro x hx; rw [h2] at hx; rw [hra]; exact w.safe.disj x hx) (by rw [hra]; exact w.safe.nodup)
      · rw [if_neg hn]; exact Work.refl w.safe
    have w' := w.trans wn
    rw [List.append_nil] at w'
    generalize ht3 : (if s.nulldel.contains a then gcRemNull c t3' else t3') = t3 at w'
    have w := w'
    -- nothing potential at the end is `a`
    have hkidpot : ∀ x, x ∈ (s.dallocOf a).map (·.addr) → Pot s x ∧ x ≠ a := by
      intro x hx
      obtain ⟨d, hd, rfl⟩ := List.mem_map.1 hx
      exact ⟨Or.inr (hkids d hd), hkne d hd⟩
    have hpot3 : ∀ y, Pot t3 y → Pot s y := by
      intro y hy
      rcases w.pot y hy with h' | h'
      · exact hpot1 y h'
      · exact (hkidpot y h').1
    have hE3 : ∀ y, Pot t3 y → Clean y [Ev.free a] := by
      intro y hy
      rw [clean_cons_free]
      exact ⟨fun e => hnp (e ▸ hpot3 y hy), Clean.nil y⟩
    obtain ⟨hsafe4, hpot4⟩ := w.safe.log_append [Ev.free a] hE3
    have hres : finalise (f + 1) c s a = { t3 with log := t3.log ++ [Ev.free a] } := by
      rw [← ht3, ← ht3', ← hs1]; rfl
    rw [hres]
    refine ⟨Ev.fin a :: ((E1 ++ E2) ++ [Ev.free a]), ?_, ?_, ?_, ?_, ?_, ?_, ?_, hsafe4⟩
    · show t3.log ++ [Ev.free a] = _
      rw [w.log, hlog1]; simp
    · show t3.running = s.running
      rw [w.running, ← hs1]
    · show t3.owns = s.owns
      rw [w.owns, ← hs1]
    · show t3.dalloc = s.dalloc
      rw [w.dalloc, ← hs1]
    · intro y hy
      exact Or.inl (hpot3 y (hpot4 y hy))
    · intro y hy
      by_cases hya : y = a
      · exact Or.inr hya
      · have : ¬ Clean y (E1 ++ E2) := by
          intro hc
          exact hy (clean_bracket hya hc)
        rcases w.ev y this with h' | h'
        · exact Or.inl (hpot1 y h')
        · exact Or.inl (hkidpot y h').1
    · have hg := w.good
      rw [hlog1] at hg
      exact hg.bracket hcl

theorem sweep_safe {c : Cfg} (hc1 : c.remFinalisesPending = true) (hc2 : c.sweepNullsSlot = true) : SweepOK (sweep c) :=
  fun s marks order h => sweepWith_safe (finalise_safe hc1 hc2 _) hc2 s marks order h

theorem sweepAll_safe {c : Cfg} (hc1 : c.remFinalisesPending = true) (hc2 : c.sweepNullsSlot = true) (order : List Addr) :
    ∀ (n : Nat) (s : St), Safe s → ∃ E, Work (fun _ => False) s (sweepAll c n s order) E := by
  intro n
  induction n with
  | zero => intro s h; exact ⟨[], Work.refl h⟩
  | succ n ih =>
    intro s h
    obtain ⟨E1, w1⟩ := sweep_safe hc1 hc2 s [] order h
    show ∃ E, Work _ s (if ((sweep c s [] order).reg.any fun e => !e.root) = true
      then sweepAll c n (sweep c s [] order) order else sweep c s [] order) E
    split
    · obtain ⟨E2, w2⟩ := ih _ w1.safe
      exact ⟨E1 ++ E2, w1.trans w2⟩
    · exact ⟨E1, w1⟩

theorem allocBy_safe {c : Cfg} (hc1 : c.remFinalisesPending = true) (hc2 : c.sweepNullsSlot = true)
    (s : St) (a : Addr) (k : Kind) (marks order : List Addr) (h : Safe s) (ha : ¬ Pot s a) (hcl : Clean a s.log) :
    ∃ E, Work (· = a) s (allocBy c s a k marks order) E := by
  cases k with
  | raw => exact ⟨[], Work.refl h⟩
  | std => exact gcSet_safe (sweep_safe hc1 hc2) c s a _ marks order h ha hcl
  | root => exact gcSet_safe (sweep_safe hc1 hc2) c s a _ marks order h ha hcl

/-- every operation of the model is safe work -/
theorem step_safe {c : Cfg} (hc1 : c.remFinalisesPending = true) (hc2 : c.sweepNullsSlot = true) (s : St) (h : Safe s) :
    (∀ marks order, ∃ E, Work (fun _ => False) s (step c s (.collect marks order)) E) ∧
    (∀ order, ∃ E, Work (fun _ => False) s (step c s (.teardown order)) E) ∧
    (∀ a k, k ≠ Kind.raw → ∃ E, Work (fun _ => False) s (step c s (.del a k)) E) := by
  refine ⟨fun marks order => sweep_safe hc1 hc2 s (markBits c s marks) order h, ?_, ?_⟩
  · intro order
    show ∃ E, Work _ s (if c.teardownRepeats then sweepAll c (fuelFor s) s order else sweep c s (teardownBits c s) order) E
    split
    · exact sweepAll_safe hc1 hc2 order _ s h
    · exact sweep_safe hc1 hc2 s (teardownBits c s) order h
  · intro a k hk
    cases k with
    | raw => exact absurd rfl hk
    | std => exact gcRem_safe (finalise_safe hc1 hc2 _) hc1 s a h
    | root => exact gcRem_safe (finalise_safe hc1 hc2 _) hc1 s a h

/-! ### histories -/

/-- the invariant of every well-formed history, allocating destructors included -/
structure SInv (g : Ghost) (s : St) : Prop where
  safe : Safe s
  total : ∀ x, Clean x s.log ∨ Once x s.log
  tracked_alloc : ∀ x, Tracked s x → x ∈ g.allocd
  kids_alloc : ∀ p ∈ s.dalloc, ∀ x ∈ kidsOf p, x ∈ g.allocd
  fresh : ∀ x, x ∉ g.allocd → Clean x s.log
  raw : ∀ x ∈ g.rawLive, x ∈ g.allocd ∧ ¬ Pot s x ∧ Clean x s.log

theorem SInv.init : SInv Ghost.init St.init := by
  refine ⟨⟨?_, ?_, List.nodup_nil, ?_, ?_, ?_⟩, fun x => Or.inl (Clean.nil x), ?_, ?_, fun x _ => Clean.nil x, ?_⟩
  · intro x _; exact Clean.nil x
  · intro a ha; simp [St.init] at ha
  · rintro x ⟨p, hp, _⟩; simp [St.init] at hp
  · intro p hp; simp [St.init] at hp
  · intro p hp; simp [St.init] at hp
  · rintro x (hx | hx)
    · simp [St.init] at hx
    · simp [St.init, St.regAddrs] at hx
  · intro p hp; simp [St.init] at hp
  · intro x hx; simp [Ghost.init] at hx

theorem SInv.pot_alloc {g : Ghost} {s : St} (h : SInv g s) {x : Addr} (hx : Pot s x) : x ∈ g.allocd := by
  rcases hx with hx | ⟨p, hp, _, hx⟩
  · exact h.tracked_alloc x hx
  · exact h.kids_alloc p hp x hx

/-- a state that differs only in `running`, `mitems`, `owns` -/
theorem SInv.congr {g : Ghost} {s s' : St} (h : SInv g s) (hr : s'.reg = s.reg) (hp : s'.pending = s.pending)
    (hl : s'.log = s.log) (hd : s'.dalloc = s.dalloc) : SInv g s' := by
  have ht : ∀ x, Tracked s' x ↔ Tracked s x := fun x => Tracked.congr hr hp
  have hra : s'.regAddrs = s.regAddrs := by unfold St.regAddrs; rw [hr]
  have hsafe : Safe s' := h.safe.of_sub hl hd (fun x hx => (ht x).1 hx)
    (by intro a ha; rw [hp] at ha; rw [hra]; exact h.safe.disj a ha) (by rw [hra]; exact h.safe.nodup)
  refine ⟨hsafe, by rw [hl]; exact h.total, fun x hx => h.tracked_alloc x ((ht x).1 hx), by rw [hd]; exact h.kids_alloc,
    by rw [hl]; exact h.fresh, ?_⟩
  intro x hx
  obtain ⟨r1, r2, r3⟩ := h.raw x hx
  exact ⟨r1, fun hp' => r2 (Pot.of_sub hl hd (fun y hy => (ht y).1 hy) hp'), by rw [hl]; exact r3⟩

/-- collector work keeps the invariant; `A` = what the work may touch besides the potential objects: identities that are
    allocated afterwards and are not (any more) raw objects of the program -/
theorem SInv.work {A : Addr → Prop} {g g' : Ghost} {s s' : St} {E : List Ev} (h : SInv g s) (w : Work A s s' E)
    (hal : ∀ x, x ∈ g.allocd → x ∈ g'.allocd) (hA : ∀ x, A x → x ∈ g'.allocd)
    (hfr : ∀ x, x ∉ g'.allocd → x ∉ g.allocd)
    (hraw : ∀ x ∈ g'.rawLive, x ∈ g.rawLive ∧ ¬ A x) : SInv g' s' := by
  have hpot : ∀ x, Pot s' x → x ∈ g'.allocd := by
    intro x hx
    rcases w.pot x hx with h' | h'
    · exact hal x (h.pot_alloc h')
    · exact hA x h'
  have hev : ∀ x, ¬ (Pot s x ∨ A x) → Clean x E := by
    intro x hx
    apply Classical.byContradiction
    intro hc
    exact hx (w.ev x hc)
  refine ⟨w.safe, by rw [w.log]; exact w.good.total h.total, fun x hx => hpot x (Or.inl hx), ?_, ?_, ?_⟩
  · intro p hp x hx
    rw [w.dalloc] at hp
    exact hal x (h.kids_alloc p hp x hx)
  · intro x hx
    rw [w.log]
    refine clean_append.2 ⟨h.fresh x (hfr x hx), hev x ?_⟩
    rintro (h' | h')
    · exact hfr x hx (h.pot_alloc h')
    · exact hx (hA x h')
  · intro x hx
    obtain ⟨hx1, hx2⟩ := hraw x hx
    obtain ⟨r1, r2, r3⟩ := h.raw x hx1
    refine ⟨hal x r1, ?_, ?_⟩
    · intro hp
      rcases w.pot x hp with h' | h'
      · exact r2 h'
      · exact hx2 h'
    · rw [w.log]
      refine clean_append.2 ⟨r3, hev x ?_⟩
      rintro (h' | h')
      · exact r2 h'
      · exact hx2 h'

theorem galloc_allocd (g : Ghost) (s : St) (a : Addr) (k : Kind) : (galloc g s a k).allocd = a :: g.allocd := by
  cases k with
  | raw => rfl
  | std => simp only [galloc]; split <;> rfl
  | root => simp only [galloc]; split <;> rfl

theorem galloc_rawLive (g : Ghost) (s : St) (a : Addr) (k : Kind) :
    (galloc g s a k).rawLive = if k = .raw then a :: g.rawLive else g.rawLive := by
  cases k with
  | raw => rfl
  | std => simp only [galloc]; split <;> simp
  | root => simp only [galloc]; split <;> simp

/-- `alloc_by` of a fresh identity -/
theorem SInv.allocBy {g : Ghost} {s : St} (h : SInv g s) (a : Addr) (k : Kind) (marks order : List Addr)
    (hok : a ∉ g.allocd) : SInv (galloc g s a k) (allocBy Cfg.current s a k marks order) ∧
      ∃ E, (allocBy Cfg.current s a k marks order).log = s.log ++ E := by
  have hnp : ¬ Pot s a := fun hp => hok (h.pot_alloc hp)
  have hcl : Clean a s.log := h.fresh a hok
  by_cases hk : k = .raw
  · subst hk
    -- a raw object: the collector does not hear of it
    refine ⟨?_, [], by rw [List.append_nil]; rfl⟩
    refine ⟨h.safe, h.total, fun x hx => List.mem_cons_of_mem _ (h.tracked_alloc x hx),
      fun p hp x hx => List.mem_cons_of_mem _ (h.kids_alloc p hp x hx), ?_, ?_⟩
    · intro x hx
      exact h.fresh x (fun hh => hx (List.mem_cons_of_mem _ hh))
    · intro x hx
      rcases List.mem_cons.1 hx with rfl | hx
      · exact ⟨List.mem_cons_self, hnp, hcl⟩
      · obtain ⟨r1, r2, r3⟩ := h.raw x hx
        exact ⟨List.mem_cons_of_mem _ r1, r2, r3⟩
  · obtain ⟨E, w⟩ := allocBy_safe (c := Cfg.current) rfl rfl s a k marks order h.safe hnp hcl
    refine ⟨h.work w ?_ ?_ ?_ ?_, E, w.log⟩
    · intro x hx; rw [galloc_allocd]; exact List.mem_cons_of_mem _ hx
    · intro x hx; rw [galloc_allocd, hx]; exact List.mem_cons_self
    · intro x hx hh; rw [galloc_allocd] at hx; exact hx (List.mem_cons_of_mem _ hh)
    · intro x hx
      rw [galloc_rawLive, if_neg hk] at hx
      exact ⟨hx, fun e => hok (e ▸ (h.raw x hx).1)⟩

/-- `dealloc(destruct(a))` of a raw object the program has not released yet -/
theorem SInv.finalise_raw {g : Ghost} {s : St} (h : SInv g s) (a : Addr) (hraw : a ∈ g.rawLive) :
    SInv { g with rawLive := g.rawLive.filter (fun x => x != a) } (finalise (fuelFor s) Cfg.current s a) ∧
      ∃ E, (finalise (fuelFor s) Cfg.current s a).log = s.log ++ E := by
  obtain ⟨r1, r2, r3⟩ := h.raw a hraw
  obtain ⟨E, w⟩ := finalise_safe (c := Cfg.current) rfl rfl (fuelFor s) s a h.safe r2 r3
  refine ⟨h.work w (fun x hx => hx) (fun x hx => hx ▸ r1) (fun x hx => hx) ?_, E, w.log⟩
  intro x hx
  have := List.mem_filter.1 hx
  exact ⟨this.1, by simpa using this.2⟩

/-- every operation of a well-formed history keeps the invariant and only appends to the ledger -/
theorem sinv_step {g : Ghost} {s : St} (h : SInv g s) (op : Op) (hok : OpOk g op) :
    SInv (gstep g s op) (step Cfg.current s op) ∧ ∃ E, (step Cfg.current s op).log = s.log ++ E := by
  have hsame : ∀ {s' : St} {E : List Ev}, Work (fun _ => False) s s' E → SInv g s' ∧ ∃ E, s'.log = s.log ++ E :=
    fun {s' E} w => ⟨h.work w (fun x hx => hx) (fun x hx => absurd hx id) (fun x hx => hx) (fun x hx => ⟨hx, id⟩), E, w.log⟩
  have hnil : ∀ {s' : St}, s'.log = s.log → ∃ E, s'.log = s.log ++ E := fun hl => ⟨[], by simp [hl]⟩
  obtain ⟨hcol, htear, hdel⟩ := step_safe (c := Cfg.current) rfl rfl s h.safe
  cases op with
  | stop => exact ⟨h.congr rfl rfl rfl rfl, hnil rfl⟩
  | start => exact ⟨h.congr rfl rfl rfl rfl, hnil rfl⟩
  | own a owned => exact ⟨h.congr rfl rfl rfl rfl, hnil rfl⟩
  | markAbort marks => exact ⟨h.congr rfl rfl rfl rfl, hnil rfl⟩
  | nulldel a => exact ⟨h.congr rfl rfl rfl rfl, hnil rfl⟩
  | typed b t => exact ⟨h.congr rfl rfl rfl rfl, hnil rfl⟩
  | raises a => exact ⟨h.congr rfl rfl rfl rfl, hnil rfl⟩
  | delNull =>
    obtain ⟨h1, h2, _, _, h5, h6, _⟩ := gcRemNull_fields Cfg.current s
    exact ⟨h.congr h1 h2 h5 h6, hnil h5⟩
  | collect marks order => obtain ⟨E, w⟩ := hcol marks order; exact hsame w
  | teardown order => obtain ⟨E, w⟩ := htear order; exact hsame w
  | dealloc a k => exact h.finalise_raw a hok
  | del a k =>
    cases k with
    | raw => exact h.finalise_raw a hok
    | std => obtain ⟨E, w⟩ := hdel a .std (by simp); exact hsame w
    | root => obtain ⟨E, w⟩ := hdel a .root (by simp); exact hsame w
  | alloc a k marks order => exact h.allocBy a k marks order hok
  | new a k owned marks order =>
    obtain ⟨h1, h2⟩ := h.allocBy a k marks order hok
    exact ⟨h1.congr rfl rfl rfl rfl, h2⟩
  | dtor q l =>
    -- a destructor table entry with fresh identities
    have hok' : (∀ d ∈ l, d.addr ∉ g.allocd) ∧ (l.map (fun d : DAlloc => d.addr)).Nodup := hok
    obtain ⟨hfresh, hnd⟩ := hok'
    have hnew : ∀ x, x ∈ kidsOf (q, l) → x ∉ g.allocd := by
      intro x hx
      obtain ⟨d, hd, rfl⟩ := List.mem_map.1 hx
      exact hfresh d hd
    have hkids : ∀ x, Kids (step Cfg.current s (.dtor q l)) x → Kids s x ∨ x ∈ kidsOf (q, l) := by
      rintro x ⟨p, hp, hc, hx⟩
      rcases List.mem_cons.1 hp with rfl | hp
      · exact Or.inr hx
      · exact Or.inl ⟨p, hp, hc, hx⟩
    have htr : ∀ x, Tracked (step Cfg.current s (.dtor q l)) x ↔ Tracked s x := fun x => Iff.rfl
    refine ⟨⟨⟨?_, h.safe.disj, h.safe.nodup, ?_, ?_, ?_⟩, h.total, ?_, ?_, ?_, ?_⟩, hnil rfl⟩
    · intro x hx
      show Clean x s.log
      rcases hx with hx | hx
      · exact h.safe.inert x (Or.inl hx)
      · rcases hkids x hx with h' | h'
        · exact h.safe.inert x (Or.inr h')
        · exact h.fresh x (hnew x h')
    · intro x hx htx
      rcases hkids x hx with h' | h'
      · exact h.safe.kids_untracked x h' htx
      · exact hnew x h' (h.tracked_alloc x htx)
    · intro p hp
      rcases List.mem_cons.1 hp with rfl | hp
      · exact hnd
      · exact h.safe.kids_nodup p hp
    · intro p hp p' hp' hne x hx hx'
      rcases List.mem_cons.1 hp with rfl | hp
      · rcases List.mem_cons.1 hp' with rfl | hp'
        · exact hne rfl
        · exact hnew x hx (h.kids_alloc p' hp' x hx')
      · rcases List.mem_cons.1 hp' with rfl | hp'
        · exact hnew x hx' (h.kids_alloc p hp x hx)
        · exact h.safe.kids_disj p hp p' hp' hne x hx hx'
    · intro x hx
      exact List.mem_append_right _ (h.tracked_alloc x hx)
    · intro p hp x hx
      rcases List.mem_cons.1 hp with rfl | hp
      · exact List.mem_append_left _ hx
      · exact List.mem_append_right _ (h.kids_alloc p hp x hx)
    · intro x hx
      exact h.fresh x (fun hh => hx (List.mem_append_right _ hh))
    · intro x hx
      obtain ⟨r1, r2, r3⟩ := h.raw x hx
      refine ⟨List.mem_append_right _ r1, ?_, r3⟩
      rintro (hp | hp)
      · exact r2 (Or.inl hp)
      · rcases hkids x hp with h' | h'
        · exact r2 (Or.inr h')
        · exact hnew x h' r1

/-- the invariant holds after every well-formed history -/
theorem sinv_run : ∀ (ops : List Op) (g : Ghost) (s : St), SInv g s → WF g s ops →
    SInv (grun g s ops) (run Cfg.current s ops) := by
  intro ops
  induction ops with
  | nil => intro g s h _; exact h
  | cons op ops ih =>
    intro g s h hw
    exact ih _ _ (sinv_step h op hw.1).1 hw.2

theorem sinv_final (ops : List Op) (h : WellFormed ops) : SInv (ghost ops) (final ops) :=
  sinv_run ops _ _ SInv.init h

end Cello.Life
