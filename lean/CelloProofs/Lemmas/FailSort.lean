import Cello.Fail
/-
  C12, `sort` (Tuple_Sort_* / Array_Sort_*): the quicksort of the model (`sortItems`) completes — no exception, no fuel exhaustion —
  on every list whose elements are pairwise comparable (all `Int`, all `String` with a buffer, all `Plain`), and keeps the length and
  the element property.  The territory of finding KF-C12-sort-partial (`sortKf`) is the complement: at least two items, not of one type.
-/
namespace Cello.Fail

def Val.isInt : Val → Bool | .int _ => true | _ => false
def Val.isStr : Val → Bool | .str _ => true | _ => false
def Val.isPlain : Val → Bool | .plain _ => true | _ => false

/-- all items of one of the three comparable kinds -/
def homogeneous (xs : List Val) : Bool := xs.all Val.isInt || xs.all Val.isStr || xs.all Val.isPlain

/-- territory of finding KF-C12-sort-partial: a comparison can raise after elements were exchanged — at least two items that are
    not all of one type (fewer than two items: no comparison is made) -/
def sortKf (xs : List Val) : Bool := decide (2 ≤ xs.length) && !homogeneous xs

/-- a class of values on which `lt` always answers -/
def Comparable (P : Val → Prop) : Prop := ∀ a b, P a → P b → ∃ r, ltv a b = .ok r

theorem comparable_int : Comparable (fun v => v.isInt = true) := by
  intro a b ha hb; cases a <;> cases b <;> simp_all [Val.isInt, ltv]
theorem comparable_str : Comparable (fun v => v.isStr = true) := by
  intro a b ha hb; cases a <;> cases b <;> simp_all [Val.isStr, ltv]
theorem comparable_plain : Comparable (fun v => v.isPlain = true) := by
  intro a b ha hb; cases a <;> cases b <;> simp_all [Val.isPlain, ltv]

theorem swapAt_length (xs : List Val) (i j : Nat) : (swapAt xs i j).length = xs.length := by
  unfold swapAt; split <;> simp

theorem swapAt_mem (xs : List Val) (i j : Nat) (x : Val) (h : x ∈ swapAt xs i j) : x ∈ xs := by
  unfold swapAt at h
  split at h
  · rename_i a b ha hb
    rcases List.mem_or_eq_of_mem_set h with h1 | h1
    · rcases List.mem_or_eq_of_mem_set h1 with h2 | h2
      · exact h2
      · subst h2; exact List.mem_of_getElem? hb
    · subst h1; exact List.mem_of_getElem? ha
  · exact h

theorem getD_mem (xs : List Val) (i : Nat) (h : i < xs.length) : xs.getD i .null ∈ xs := by
  simp only [List.getD_eq_getElem?_getD, List.getElem?_eq_getElem h, Option.getD_some]; exact List.getElem_mem h

theorem partLoop_ok (P : Val → Prop) (hP : Comparable P) (r : Nat) :
    ∀ (fuel i s : Nat) (xs : List Val), (∀ x ∈ xs, P x) → r < xs.length → s ≤ i → i ≤ r →
      ∃ xs' s', partLoop r fuel i s xs = (xs', .ok s') ∧ (∀ x ∈ xs', P x) ∧ xs'.length = xs.length ∧ s ≤ s' ∧ s' ≤ r := by
  intro fuel
  induction fuel with
  | zero => intro i s xs hx _ hsi hir; exact ⟨xs, s, rfl, hx, rfl, Nat.le_refl _, Nat.le_trans hsi hir⟩
  | succ fuel ih =>
    intro i s xs hx hr hsi hir
    unfold partLoop
    by_cases hlt : i < r
    · simp only [hlt, if_true]
      obtain ⟨b, hb⟩ := hP _ _ (hx _ (getD_mem xs i (by omega))) (hx _ (getD_mem xs r hr))
      rw [hb]
      cases b with
      | true =>
        simp only
        have hx' : ∀ x ∈ swapAt xs i s, P x := fun x h => hx x (swapAt_mem xs i s x h)
        obtain ⟨xs', s', h1, h2, h3, h4, h5⟩ := ih (i + 1) (s + 1) (swapAt xs i s) hx' (by rw [swapAt_length]; exact hr) (by omega) (by omega)
        exact ⟨xs', s', h1, h2, by rw [h3, swapAt_length], by omega, h5⟩
      | false =>
        simp only
        obtain ⟨xs', s', h1, h2, h3, h4, h5⟩ := ih (i + 1) s xs hx hr (by omega) (by omega)
        exact ⟨xs', s', h1, h2, h3, h4, h5⟩
    · simp only [hlt, if_false]
      exact ⟨xs, s, rfl, hx, rfl, Nat.le_refl _, by omega⟩

theorem sortPartition_ok (P : Val → Prop) (hP : Comparable P) (xs : List Val) (l r : Nat)
    (hx : ∀ x ∈ xs, P x) (hr : r < xs.length) (hlr : l ≤ r) :
    ∃ xs' s, sortPartition xs l r = (xs', .ok s) ∧ (∀ x ∈ xs', P x) ∧ xs'.length = xs.length ∧ l ≤ s ∧ s ≤ r := by
  unfold sortPartition
  have hx1 : ∀ x ∈ swapAt xs (l + (r - l) / 2) r, P x := fun x h => hx x (swapAt_mem _ _ _ x h)
  obtain ⟨xs2, s, h1, h2, h3, h4, h5⟩ :=
    partLoop_ok P hP r (r - l) l l _ hx1 (by rw [swapAt_length]; exact hr) (Nat.le_refl _) hlr
  simp only [h1]
  exact ⟨swapAt xs2 s r, s, rfl, fun x h => h2 x (swapAt_mem _ _ _ x h), by rw [swapAt_length, h3, swapAt_length], h4, h5⟩

theorem sortPart_ok (P : Val → Prop) (hP : Comparable P) :
    ∀ (fuel : Nat) (xs : List Val) (l r : Int), (∀ x ∈ xs, P x) → 0 ≤ l → r < xs.length → 1 ≤ fuel → r - l + 1 ≤ fuel →
      ∃ xs', sortPart fuel xs l r = (xs', .ok ()) ∧ (∀ x ∈ xs', P x) ∧ xs'.length = xs.length := by
  intro fuel
  induction fuel with
  | zero => intro xs l r _ _ _ h1 _; omega
  | succ fuel ih =>
    intro xs l r hx hl hr _ hf
    unfold sortPart
    by_cases hlr : l < r
    · simp only [hlr, if_true]
      obtain ⟨xs1, s, h1, h2, h3, h4, h5⟩ := sortPartition_ok P hP xs l.toNat r.toNat hx (by omega) (by omega)
      simp only [h1]
      obtain ⟨xs2, g1, g2, g3⟩ := ih xs1 l ((s : Int) - 1) h2 hl (by omega) (by omega) (by omega)
      simp only [g1]
      obtain ⟨xs3, k1, k2, k3⟩ := ih xs2 ((s : Int) + 1) r g2 (by omega) (by omega) (by omega) (by omega)
      exact ⟨xs3, k1, k2, by omega⟩
    · simp only [hlr, if_false]
      exact ⟨xs, rfl, hx, rfl⟩

/-- on pairwise comparable items the sort completes and keeps length and kind -/
theorem sortItems_ok (P : Val → Prop) (hP : Comparable P) (xs : List Val) (hx : ∀ x ∈ xs, P x) :
    ∃ xs', sortItems xs = (xs', .ok ()) ∧ (∀ x ∈ xs', P x) ∧ xs'.length = xs.length := by
  unfold sortItems
  exact sortPart_ok P hP (xs.length + 1) xs 0 ((xs.length : Int) - 1) hx (by omega) (by omega) (by omega) (by omega)

/-- fewer than two items: nothing is compared, nothing is moved -/
theorem sortItems_short (xs : List Val) (h : xs.length < 2) : sortItems xs = (xs, .ok ()) := by
  unfold sortItems sortPart
  have : ¬ ((0 : Int) < (xs.length : Int) - 1) := by omega
  rw [if_neg this]

theorem sortItems_outside_kf (xs : List Val) (hk : sortKf xs = false) :
    ∃ xs', sortItems xs = (xs', .ok ()) ∧ xs'.length = xs.length := by
  unfold sortKf at hk
  by_cases h2 : 2 ≤ xs.length
  · simp only [h2, decide_true, Bool.true_and, Bool.not_eq_eq_eq_not, Bool.not_false] at hk
    unfold homogeneous at hk
    simp only [Bool.or_eq_true, List.all_eq_true] at hk
    rcases hk with (h | h) | h
    · obtain ⟨xs', a, _, c⟩ := sortItems_ok _ comparable_int xs h; exact ⟨xs', a, c⟩
    · obtain ⟨xs', a, _, c⟩ := sortItems_ok _ comparable_str xs h; exact ⟨xs', a, c⟩
    · obtain ⟨xs', a, _, c⟩ := sortItems_ok _ comparable_plain xs h; exact ⟨xs', a, c⟩
  · exact ⟨xs, sortItems_short xs (by omega), rfl⟩

end Cello.Fail
