/-
  CelloProofs/Lemmas/TableArgs.lean — operations whose argument objects live in the table they are applied to
  (`Cello.Table.stepA`): what the model reads out of its own records is what the map says those objects hold, and every
  step refines the step of the association-list specification.
-/
import CelloProofs.Lemmas.TableRefine
set_option linter.unusedSectionVars false
set_option linter.unusedVariables false
namespace Cello.Table
open RH
variable {κ ν : Type} [DecidableEq κ]

/-- the key a key argument holds: read out of the table's own record = what the map says -/
theorem readKey_rep (hash : κ → Nat) (asKey : ν → Option κ) (t : Tab κ ν) (m : Spec κ ν) (r : Rep hash t m) (kr : Ref κ κ) :
    kr.readKey hash asKey t = .ok (kr.specKey asKey m) := by
  cases kr with
  | obj k => rfl
  | keyOf k =>
    rcases find_rep hash t m r k with ⟨h1, h2⟩ | ⟨v, p, hp, e, h1, h2, h3, h4, h5⟩
    · simp only [Ref.readKey, Ref.locate, h2, Ref.specKey, h1]
    · simp only [Ref.readKey, Ref.locate, h2, Ref.specKey, h1, KeyArg.denote, dif_pos hp, h3, h4]
  | valOf k =>
    rcases find_rep hash t m r k with ⟨h1, h2⟩ | ⟨v, p, hp, e, h1, h2, h3, h4, h5⟩
    · simp only [Ref.readKey, Ref.locate, h2, Ref.specKey, h1]
    · simp only [Ref.readKey, Ref.locate, h2, Ref.specKey, h1, KeyArg.denote, dif_pos hp, h3, h5]

/-- the value a value argument holds -/
theorem readVal_rep (hash : κ → Nat) (asVal : κ → Option ν) (t : Tab κ ν) (m : Spec κ ν) (r : Rep hash t m) (vr : Ref κ ν) :
    vr.readVal hash asVal t = .ok (vr.specVal asVal m) := by
  cases vr with
  | obj v => rfl
  | keyOf k =>
    rcases find_rep hash t m r k with ⟨h1, h2⟩ | ⟨v, p, hp, e, h1, h2, h3, h4, h5⟩
    · simp only [Ref.readVal, Ref.locate, h2, Ref.specVal, h1]
    · simp only [Ref.readVal, Ref.locate, h2, Ref.specVal, h1, KeyArg.denoteVal, dif_pos hp, h3, h4]
  | valOf k =>
    rcases find_rep hash t m r k with ⟨h1, h2⟩ | ⟨v, p, hp, e, h1, h2, h3, h4, h5⟩
    · simp only [Ref.readVal, Ref.locate, h2, Ref.specVal, h1]
    · simp only [Ref.readVal, Ref.locate, h2, Ref.specVal, h1, KeyArg.denoteVal, dif_pos hp, h3, h5]

/-- `Table_Get` (whole function, address test as it is since fix bc940bb) on a located argument object -/
theorem getA_rep (cfg : Cfg) (hc : cfg.getChecksKey = true) (hash : κ → Nat) (asKey : ν → Option κ) (t : Tab κ ν) (m : Spec κ ν)
    (r : Rep hash t m) (kr : Ref κ κ) :
    (match kr.locate hash t with
      | .error f => (.error f : Except Fail (Obs κ ν))
      | .ok none => .ok .badOp
      | .ok (some a) => getArg cfg hash asKey t a)
    = .ok (match keyArg1 (ν := ν) (kr.specKey asKey m) with
      | .error o => o
      | .ok k => match Spec.get m k with | none => .raised .KeyError | some v => .val v) := by
  have hk := readKey_rep hash asKey t m r kr
  unfold Ref.readKey at hk
  cases hl : kr.locate hash t with
  | error f => rw [hl] at hk; cases hk
  | ok oa =>
    rw [hl] at hk
    cases oa with
    | none =>
      simp only [Except.ok.injEq] at hk
      simp only [← hk, keyArg1]
    | some a =>
      simp only [Except.ok.injEq] at hk
      simp only [getArg_rep_checked cfg hc hash asKey t m r a, hk]
      cases kr.specKey asKey m with
      | none => rfl
      | some x => cases x <;> rfl

/-- **one step with argument objects of the table's own** -/
theorem stepA_refines (cfg : Cfg) (g : GoodCfg cfg) (hc : cfg.getChecksKey = true) (hash : κ → Nat) (asKey : ν → Option κ)
    (asVal : κ → Option ν) (ts : List (Tab κ ν)) (ms : List (Spec κ ν)) (R : StRel hash ts ms) (op : AOp κ ν) :
    ∃ ts' o, stepA cfg hash asKey asVal ts op = .ok (ts', o) ∧ StRel hash ts' (specStepA asKey asVal ms op).1 ∧
      ObsRel o (specStepA asKey asVal ms op).2 := by
  cases op with
  | plain op => exact step_refines cfg g hash ts ms R op
  | setA t kr vr =>
    simp only [stepA, specStepA]
    cases h : ts[t]? with
    | none => simp only [R.none h]; exact ⟨_, _, rfl, R, rfl⟩
    | some tb =>
      obtain ⟨m, hm, r⟩ := R.get h
      simp only [hm, readKey_rep hash asKey tb m r kr, readVal_rep hash asVal tb m r vr]
      cases hs : setArgs (kr.specKey asKey m) (vr.specVal asVal m) with
      | error o =>
        refine ⟨_, _, rfl, R, ?_⟩
        have : ∀ l, o ≠ .items l := by
          intro l hl; subst hl
          unfold setArgs at hs
          split at hs <;> cases hs
        exact ObsRel.rfl' o this
      | ok kv => exact step_refines cfg g hash ts ms R (.set t kv.1 kv.2)
  | remA t kr =>
    simp only [stepA, specStepA]
    cases h : ts[t]? with
    | none => simp only [R.none h]; exact ⟨_, _, rfl, R, rfl⟩
    | some tb =>
      obtain ⟨m, hm, r⟩ := R.get h
      simp only [hm, readKey_rep hash asKey tb m r kr]
      cases hs : keyArg1 (ν := ν) (kr.specKey asKey m) with
      | error o =>
        refine ⟨_, _, rfl, R, ?_⟩
        have : ∀ l, o ≠ .items l := by
          intro l hl; subst hl
          unfold keyArg1 at hs
          split at hs <;> cases hs
        exact ObsRel.rfl' o this
      | ok k => exact step_refines cfg g hash ts ms R (.rem t k)
  | memA t kr =>
    simp only [stepA, specStepA]
    cases h : ts[t]? with
    | none => simp only [R.none h]; exact ⟨_, _, rfl, R, rfl⟩
    | some tb =>
      obtain ⟨m, hm, r⟩ := R.get h
      simp only [hm, readKey_rep hash asKey tb m r kr]
      cases hs : keyArg1 (ν := ν) (kr.specKey asKey m) with
      | error o =>
        refine ⟨_, _, rfl, R, ?_⟩
        have : ∀ l, o ≠ .items l := by
          intro l hl; subst hl
          unfold keyArg1 at hs
          split at hs <;> cases hs
        exact ObsRel.rfl' o this
      | ok k => exact step_refines cfg g hash ts ms R (.mem t k)
  | getA t kr =>
    simp only [stepA, specStepA]
    cases h : ts[t]? with
    | none => simp only [R.none h]; exact ⟨_, _, rfl, R, rfl⟩
    | some tb =>
      obtain ⟨m, hm, r⟩ := R.get h
      have hg := getA_rep cfg hc hash asKey tb m r kr
      simp only [hm]
      cases hl : kr.locate hash tb with
      | error f => rw [hl] at hg; cases hg
      | ok oa =>
        rw [hl] at hg
        cases oa with
        | none =>
          simp only [Except.ok.injEq] at hg
          cases hs : keyArg1 (ν := ν) (kr.specKey asKey m) with
          | error o =>
            rw [hs] at hg; simp only at hg
            refine ⟨_, _, rfl, R, ?_⟩
            rw [← hg]; rfl
          | ok k =>
            rw [hs] at hg; simp only at hg
            simp only [specStep, hm]
            cases hgk : Spec.get m k <;> rw [hgk] at hg <;> cases hg
        | some a =>
          simp only [hg]
          cases hs : keyArg1 (ν := ν) (kr.specKey asKey m) with
          | error o =>
            refine ⟨_, _, rfl, R, ?_⟩
            have : ∀ l, o ≠ .items l := by
              intro l hl; subst hl
              unfold keyArg1 at hs
              split at hs <;> cases hs
            exact ObsRel.rfl' o this
          | ok k =>
            simp only [specStep, hm]
            cases hgk : Spec.get m k <;> exact ⟨_, _, rfl, R, rfl⟩

/-- **histories** -/
theorem runA_refines (cfg : Cfg) (g : GoodCfg cfg) (hc : cfg.getChecksKey = true) (hash : κ → Nat) (asKey : ν → Option κ)
    (asVal : κ → Option ν) :
    ∀ (ops : List (AOp κ ν)) (ts : List (Tab κ ν)) (ms : List (Spec κ ν)), StRel hash ts ms →
      ∃ ts' os, runA cfg hash asKey asVal ts ops = .ok (ts', os) ∧ StRel hash ts' (specRunA asKey asVal ms ops).1 ∧
        List.Forall₂ ObsRel os (specRunA asKey asVal ms ops).2 := by
  intro ops
  induction ops with
  | nil => intro ts ms R; exact ⟨ts, [], rfl, R, List.Forall₂.nil⟩
  | cons op ops ih =>
    intro ts ms R
    obtain ⟨ts1, o, e1, R1, ho⟩ := stepA_refines cfg g hc hash asKey asVal ts ms R op
    obtain ⟨ts2, os, e2, R2, hos⟩ := ih ts1 (specStepA asKey asVal ms op).1 R1
    refine ⟨ts2, o :: os, ?_, ?_, ?_⟩
    · simp only [runA, e1, e2]
    · simpa [specRunA] using R2
    · simpa [specRunA] using List.Forall₂.cons ho hos

/-- a history of plain operations is the same history with argument objects outside every table -/
theorem runA_plain (cfg : Cfg) (hash : κ → Nat) (asKey : ν → Option κ) (asVal : κ → Option ν) :
    ∀ (ops : List (Op κ ν)) (ts : List (Tab κ ν)), runA cfg hash asKey asVal ts (ops.map .plain) = run cfg hash ts ops := by
  intro ops
  induction ops with
  | nil => intro ts; rfl
  | cons op ops ih =>
    intro ts
    simp only [List.map_cons, runA, run, stepA]
    cases step cfg hash ts op with
    | error f => rfl
    | ok p => simp only [ih]

end Cello.Table
