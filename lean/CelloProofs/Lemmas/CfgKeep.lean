/-
  Helper lemmas for the keep programs of C18 (Cello/Config.lean, namespace Keep): containers as the sole path to
  collector-managed objects.

    A  heap lookups under writes and key filters
    B  reachability, the simulation relation `Sim`, what an operation sees depends only on what it can reach
    C  an operation that forges no pointer preserves `Sim`
    D  a collection keeps everything reachable (through Cello/Heap.lean's marker, C01) and therefore preserves `Sim`
    E  one step / whole programs under any two configurations
-/
import Cello.Config
import CelloGen.Cfg
import CelloProofs.Lemmas.Mark
import CelloProofs.Lemmas.Cfg

namespace Cello.Config.Keep
open Cello.Config

/-! ### A. lookups -/

theorem lookup_filter_key {β : Type} (q : Nat → Bool) (i : Nat) :
    ∀ (hp : List (Nat × β)), (hp.filter (fun p => q p.1)).lookup i = if q i then hp.lookup i else none
  | [] => by simp [List.lookup]
  | (j, c) :: hp => by
    have ih := lookup_filter_key q i hp
    by_cases hj : i = j
    · subst hj
      cases hq : q i
      · simp [hq, ih]
      · simp [hq, List.lookup]
    · have hb : (i == j) = false := by simpa using hj
      cases hq : q j
      · simp only [List.filter_cons, hq, Bool.false_eq_true, if_false, ih, List.lookup, hb]
      · simp only [List.filter_cons, hq, if_true, List.lookup, hb, ih]

theorem lookup_putCell (hp : KHeap) (i : Nat) (c : Option Cell) (j : Nat) :
    (putCell hp i c).lookup j = if j = i then c else hp.lookup j := by
  have hf := lookup_filter_key (fun k => !(k == i)) j hp
  cases c with
  | none =>
    simp only [putCell]
    rw [hf]
    by_cases h : j = i
    · simp [h]
    · have : (j == i) = false := by simpa using h
      simp [h, this]
  | some c =>
    simp only [putCell]
    by_cases h : j = i
    · subst h; simp [List.lookup]
    · have hb : (j == i) = false := by simpa using h
      simp only [List.lookup, hb, h, if_false]
      rw [hf]; simp [hb]

/-- the last write to block `j`, if any -/
def lastWrite : List (Nat × Option Cell) → Nat → Option (Option Cell)
  | [], _ => none
  | w :: ws, j =>
    match lastWrite ws j with
    | some v => some v
    | none => if j = w.1 then some w.2 else none

theorem lookup_applyWrites : ∀ (ws : List (Nat × Option Cell)) (hp : KHeap) (j : Nat),
    (applyWrites hp ws).lookup j = match lastWrite ws j with
      | some v => v
      | none => hp.lookup j
  | [], hp, j => by simp [applyWrites, lastWrite]
  | w :: ws, hp, j => by
    have ih := lookup_applyWrites ws (putCell hp w.1 w.2) j
    simp only [applyWrites, List.foldl_cons] at ih ⊢
    rw [ih]
    simp only [lastWrite]
    cases hl : lastWrite ws j with
    | some v => rfl
    | none =>
      simp only [lookup_putCell]
      by_cases h : j = w.1 <;> simp [h]

theorem lastWrite_mem : ∀ (ws : List (Nat × Option Cell)) (j : Nat) (v : Option Cell),
    lastWrite ws j = some v → (j, v) ∈ ws
  | [], _, _, h => by simp [lastWrite] at h
  | w :: ws, j, v, h => by
    simp only [lastWrite] at h
    cases hl : lastWrite ws j with
    | some v' =>
      rw [hl] at h
      have : v' = v := Option.some.inj h
      subst this
      exact List.mem_cons_of_mem _ (lastWrite_mem ws j v' hl)
    | none =>
      rw [hl] at h
      by_cases hj : j = w.1
      · simp only [hj, if_true] at h
        have : w.2 = v := Option.some.inj h
        rw [hj, ← this]
        exact List.mem_cons_self ..
      · simp [hj] at h

theorem flatMap_congr' {α β : Type} (f g : α → List β) : ∀ (l : List α), (∀ x ∈ l, f x = g x) → l.flatMap f = l.flatMap g
  | [], _ => rfl
  | x :: l, h => by
    simp only [List.flatMap_cons]
    rw [h x (List.mem_cons_self ..), flatMap_congr' f g l (fun y hy => h y (List.mem_cons_of_mem _ hy))]

/-! ### B. reachability and the simulation relation -/

/-- a pointer the program can come across: held by a variable / thread-local entry, or stored in a reachable block -/
def Cand (hp : KHeap) (roots : List Nat) (i : Nat) : Prop :=
  i ∈ roots ∨ ∃ p c, KReach hp roots p ∧ hp.lookup p = some c ∧ i ∈ c.refs

theorem Cand.reach {hp : KHeap} {roots : List Nat} {i : Nat} (h : Cand hp roots i) (hs : (hp.lookup i).isSome = true) :
    KReach hp roots i := by
  rcases h with h | ⟨p, c, hp', hl, hm⟩
  · exact .root h hs
  · exact .step hp' hl hm hs

/-- ids in the heap are below the allocation counter -/
def Fresh (s : KSt) : Prop := ∀ i c, s.heap.lookup i = some c → i < s.next

/-- **The two states show the program the same thing**: same variables, thread-local entries and serial numbers, and the
    same contents in every block that is reachable in either of them.  Unreachable blocks (garbage one build has already
    swept and the other has not), the registry threshold and the counters of the collector may differ. -/
structure Sim (s t : KSt) : Prop where
  next : s.next = t.next
  slots : s.slots = t.slots
  tls : s.tls = t.tls
  used : s.used = t.used
  fwd : ∀ i, KReach s.heap s.roots i → t.heap.lookup i = s.heap.lookup i
  bwd : ∀ i, KReach t.heap t.roots i → s.heap.lookup i = t.heap.lookup i

theorem Sim.refl (s : KSt) : Sim s s := ⟨rfl, rfl, rfl, rfl, fun _ _ => rfl, fun _ _ => rfl⟩

theorem Sim.symm {s t : KSt} (h : Sim s t) : Sim t s :=
  ⟨h.next.symm, h.slots.symm, h.tls.symm, h.used.symm, h.bwd, h.fwd⟩

theorem Sim.roots {s t : KSt} (h : Sim s t) : s.roots = t.roots := by
  simp only [KSt.roots, h.slots, h.tls]

theorem Sim.reach {s t : KSt} (h : Sim s t) {i : Nat} (hr : KReach s.heap s.roots i) : KReach t.heap t.roots i := by
  induction hr with
  | @root i hroot hs =>
    refine .root (h.roots ▸ hroot) ?_
    rw [h.fwd i (.root hroot hs)]; exact hs
  | @step i j c hri hl hm hs ih =>
    have hj : KReach s.heap s.roots j := .step hri hl hm hs
    refine .step ih (by rw [h.fwd i hri]; exact hl) hm ?_
    rw [h.fwd j hj]; exact hs

theorem Sim.cand_to {s t : KSt} (h : Sim s t) {i : Nat} (hc : Cand s.heap s.roots i) : Cand t.heap t.roots i := by
  rcases hc with hc | ⟨p, c, hp, hl, hm⟩
  · exact .inl (h.roots ▸ hc)
  · exact .inr ⟨p, c, h.reach hp, by rw [h.fwd p hp]; exact hl, hm⟩

/-- the two heaps agree on every pointer the program can come across — also on the dangling ones -/
theorem Sim.cand {s t : KSt} (h : Sim s t) {i : Nat} (hc : Cand s.heap s.roots i) : t.heap.lookup i = s.heap.lookup i := by
  cases hs : s.heap.lookup i with
  | some c =>
    have := h.fwd i (hc.reach (by simp [hs]))
    rw [this, hs]
  | none =>
    cases ht : t.heap.lookup i with
    | none => rfl
    | some c =>
      have hr : KReach t.heap t.roots i := (h.cand_to hc).reach (by simp [ht])
      have := h.bwd i hr
      rw [hs, ht] at this; cases this

theorem subOne_eq {s t : KSt} (h : Sim s t) : ∀ (d i : Nat), Cand s.heap s.roots i → subOne d s.heap i = subOne d t.heap i
  | 0, _, _ => rfl
  | d+1, i, hc => by
    simp only [subOne]
    rw [h.cand hc]
    cases hs : s.heap.lookup i with
    | none => rfl
    | some c =>
      simp only
      congr 1
      apply flatMap_congr'
      intro j hj
      exact subOne_eq h d j (.inr ⟨i, c, hc.reach (by simp [hs]), hs, hj⟩)

/-- every block an operation has seen alive is reachable -/
theorem subOne_reach {hp : KHeap} {roots : List Nat} : ∀ (d i : Nat), Cand hp roots i →
    ∀ j c, (j, some c) ∈ subOne d hp i → KReach hp roots j
  | 0, _, _, _, _, hm => by simp [subOne] at hm
  | d+1, i, hc, j, c, hm => by
    simp only [subOne] at hm
    cases hs : hp.lookup i with
    | none => rw [hs] at hm; simp at hm
    | some ci =>
      rw [hs] at hm
      have hri : KReach hp roots i := hc.reach (by simp [hs])
      rcases List.mem_cons.mp hm with hm | hm
      · have : j = i := (Prod.mk.inj hm).1
        subst this; exact hri
      · obtain ⟨k, hk, hjk⟩ := List.mem_flatMap.mp hm
        exact subOne_reach d k (.inr ⟨i, ci, hri, hs, hk⟩) j c hjk

theorem mem_rootsOf {slots : List Slot} {tls : List ((Nat × Int) × Nat)} {h i : Nat} (hm : i ∈ rootsOf slots tls h) :
    i ∈ slots.filterMap (·.root) ++ tls.map (·.2) := by
  simp only [rootsOf, List.mem_append, List.mem_filterMap, List.mem_map, List.mem_filter] at hm ⊢
  rcases hm with ⟨a, ⟨ha, _⟩, hr⟩ | ⟨a, ⟨ha, _⟩, hr⟩
  · exact .inl ⟨a, ha, hr⟩
  · exact .inr ⟨a, ha, hr⟩

/-- **What an operation sees is the same in both states.** -/
theorem view_eq {s t : KSt} (h : Sim s t) (op : KOp) : view op s = view op t := by
  simp only [view, h.next, h.slots, h.tls, h.used]
  congr 1
  cases opHolder op with
  | none => rfl
  | some hh =>
    simp only
    apply flatMap_congr'
    intro i hi
    refine subOne_eq h depthCap i (.inl ?_)
    rw [h.roots]
    exact mem_rootsOf hi

theorem view_ids_reach (s : KSt) (op : KOp) {j : Nat} (hj : j ∈ (view op s).ids) : KReach s.heap s.roots j := by
  simp only [View.ids, List.mem_filterMap] at hj
  obtain ⟨⟨j', oc⟩, hm, hv⟩ := hj
  cases oc with
  | none => simp at hv
  | some c =>
    simp only [Option.map_some, Option.some.injEq] at hv
    subst hv
    simp only [view] at hm
    cases ho : opHolder op with
    | none => rw [ho] at hm; simp at hm
    | some hh =>
      rw [ho] at hm
      obtain ⟨i, hi, hji⟩ := List.mem_flatMap.mp hm
      exact subOne_reach depthCap i (.inl (mem_rootsOf hi)) j' c hji

/-! ### C. an operation that forges no pointer preserves `Sim` -/

/-- the blocks an operation may write or store a pointer to: those it has seen alive, and those it allocates -/
def Allowed (v : View) (fresh : Nat) (i : Nat) : Prop := i ∈ v.ids ∨ (v.next ≤ i ∧ i < v.next + fresh)

theorem allowed_of_contains {v : View} {fresh i : Nat}
    (h : (v.ids ++ (List.range fresh).map (fun j => v.next + j)).contains i = true) : Allowed v fresh i := by
  simp only [List.contains_eq_mem, List.mem_append, List.mem_map, List.mem_range, decide_eq_true_eq] at h
  rcases h with h | ⟨j, hj, rfl⟩
  · exact .inl h
  · exact .inr ⟨by omega, by omega⟩

/-- what the executable check `Upd.ok` establishes -/
theorem ok_spec {u : Upd} {v : View} (h : u.ok v = true) :
    (∀ w ∈ u.writes, Allowed v u.fresh w.1 ∧ ∀ c, w.2 = some c → ∀ j ∈ c.refs, Allowed v u.fresh j) ∧
    (∀ i ∈ u.slots.filterMap (·.root) ++ u.tls.map (·.2),
        Allowed v u.fresh i ∨ i ∈ v.slots.filterMap (·.root) ++ v.tls.map (·.2)) := by
  simp only [Upd.ok, Bool.and_eq_true, List.all_eq_true, Bool.or_eq_true] at h
  refine ⟨?_, ?_⟩
  · intro w hw
    have := h.1 w hw
    refine ⟨allowed_of_contains this.1, ?_⟩
    intro c hc j hj
    have h2 := this.2
    rw [hc] at h2
    simp only [List.all_eq_true] at h2
    exact allowed_of_contains (h2 j hj)
  · intro i hi
    rcases h.2 i hi with h3 | h3
    · exact .inl (allowed_of_contains h3)
    · exact .inr (by simpa using h3)

theorem allowed_reach {s : KSt} {op : KOp} {fresh j : Nat} (h : Allowed (view op s) fresh j) :
    KReach s.heap s.roots j ∨ (s.next ≤ j ∧ j < s.next + fresh) := by
  rcases h with h | h
  · exact .inl (view_ids_reach s op h)
  · exact .inr h

theorem fresh_absent {s : KSt} (hf : Fresh s) {i : Nat} (hi : s.next ≤ i) : s.heap.lookup i = none := by
  cases hl : s.heap.lookup i with
  | none => rfl
  | some c => have := hf i c hl; omega

/-- after the operation, everything reachable was reachable before or has just been allocated -/
theorem reach_after {s : KSt} {op : KOp} {u : Upd} (hf : Fresh s) (hok : u.ok (view op s) = true) {i : Nat}
    (hr : KReach (applyRaw u s).heap (applyRaw u s).roots i) :
    KReach s.heap s.roots i ∨ (s.next ≤ i ∧ i < s.next + u.fresh) := by
  obtain ⟨hw, hroots⟩ := ok_spec hok
  have written : ∀ k v, lastWrite u.writes k = some v → KReach s.heap s.roots k ∨ (s.next ≤ k ∧ k < s.next + u.fresh) :=
    fun k v hv => allowed_reach (hw (k, v) (lastWrite_mem _ _ _ hv)).1
  induction hr with
  | @root i hroot hs =>
    rcases hroots i hroot with ha | hold
    · exact allowed_reach ha
    · simp only [applyRaw, lookup_applyWrites] at hs
      cases hl : lastWrite u.writes i with
      | some v => exact written i v hl
      | none =>
        rw [hl] at hs
        exact .inl (.root hold hs)
  | @step i j c hri hl hm hs ih =>
    simp only [applyRaw, lookup_applyWrites] at hl hs
    cases hli : lastWrite u.writes i with
    | some v =>
      rw [hli] at hl
      simp only at hl
      subst hl
      exact allowed_reach ((hw (i, some c) (lastWrite_mem _ _ _ hli)).2 c rfl j hm)
    | none =>
      rw [hli] at hl
      simp only at hl
      have hri' : KReach s.heap s.roots i := by
        rcases ih with h | h
        · exact h
        · rw [fresh_absent hf h.1] at hl; cases hl
      cases hlj : lastWrite u.writes j with
      | some v => exact written j v hlj
      | none =>
        rw [hlj] at hs
        exact .inl (.step hri' hl hm hs)

theorem applyRaw_fresh {s : KSt} {op : KOp} {u : Upd} (hf : Fresh s) (hok : u.ok (view op s) = true) :
    Fresh (applyRaw u s) := by
  obtain ⟨hw, _⟩ := ok_spec hok
  intro i c hl
  simp only [applyRaw, lookup_applyWrites] at hl ⊢
  cases hli : lastWrite u.writes i with
  | some v =>
    rcases allowed_reach (hw (i, v) (lastWrite_mem _ _ _ hli)).1 with h | h
    · have hs : (s.heap.lookup i).isSome = true := by
        cases h with
        | root _ hs => exact hs
        | step _ _ _ hs => exact hs
      rcases hx : s.heap.lookup i with _ | c'
      · rw [hx] at hs; cases hs
      · have := hf i c' hx; omega
    · exact h.2
  | none =>
    rw [hli] at hl
    have := hf i c hl; omega

/-- **An operation that forges no pointer preserves the relation**: the same update applied to two states that show the
    program the same thing leaves two states that show the program the same thing. -/
theorem applyRaw_sim {s t : KSt} {op : KOp} {u : Upd} (h : Sim s t) (hfs : Fresh s) (hft : Fresh t)
    (hok : u.ok (view op s) = true) : Sim (applyRaw u s) (applyRaw u t) := by
  have hok' : u.ok (view op t) = true := by rw [← view_eq h op]; exact hok
  have key : ∀ {a b : KSt}, Sim a b → Fresh a → Fresh b → u.ok (view op a) = true →
      ∀ i, KReach (applyRaw u a).heap (applyRaw u a).roots i → (applyRaw u b).heap.lookup i = (applyRaw u a).heap.lookup i := by
    intro a b hab hfa hfb hoka i hr
    simp only [applyRaw, lookup_applyWrites]
    cases hl : lastWrite u.writes i with
    | some v => rfl
    | none =>
      simp only
      rcases reach_after hfa hoka hr with h1 | h1
      · exact hab.fwd i h1
      · rw [fresh_absent hfa h1.1, fresh_absent hfb (by rw [← hab.next]; exact h1.1)]
  exact ⟨by simp only [applyRaw, h.next], rfl, rfl, rfl, key h hfs hft hok, key h.symm hft hfs hok'⟩

/-! ### D. a collection keeps everything reachable -/

/-- the collector of the source as it is now (leaf types, types with a Mark instance, scan bound, TLS phase: CelloGen/GcMark.lean) -/
abbrev HC : Cello.Heap.Cfg := Cello.Heap.Cfg.current

/-- the facts about the generated tables the translation `toObj` relies on: the container types declare Mark, the
    pointer-carrying plain types (Ref, Box, the workload's Tracked and KCell) neither are leaf types nor declare Mark, the
    conservative scan includes the last word, thread-local storage is traced through the callback, and `Thread_Mark` presents
    the table of every Thread object the marker reaches — not only the marking thread's own (the guard of the withdrawn
    repair 80c795e makes this conjunct false) -/
theorem current_tables :
    (∀ ty ∈ ["Array", "List", "Table", "Tree", "Tuple", "Thread"], HC.hasMark ty = true ∧ HC.isLeaf ty = false) ∧
    (∀ ty ∈ ["Ref", "Box", "Tracked", "KCell"], HC.hasMark ty = false ∧ HC.isLeaf ty = false) ∧
    HC.tlsCallback = true ∧ HC.scanInclusive = true ∧ HC.foreignTls = true := by
  decide

theorem fields_plain (ty : String) (ws : List Nat) (h : ty ∈ ["Ref", "Box", "Tracked", "KCell"]) :
    Cello.Heap.fields HC (.raw ty ws) = ws := by
  have := current_tables.2.1 ty h
  simp [Cello.Heap.fields, Cello.Heap.scanWords, this.1, this.2, current_tables.2.2.2.1]

theorem fields_cont (ty : String) (es : List Cello.Heap.Obj) (h : ty ∈ ["Array", "List", "Table", "Tree", "Tuple", "Thread"]) :
    Cello.Heap.fields HC (.cont ty es) = Cello.Heap.fieldsL HC es := by
  have := current_tables.1 ty h
  simp [Cello.Heap.fields, this.1, this.2]

theorem fields_tuple (ws : List Nat) : Cello.Heap.fields HC (.tup "Tuple" ws) = ws := by
  have := current_tables.1 "Tuple" (by simp)
  simp [Cello.Heap.fields, this.1, this.2]

theorem fieldsL_mem (es : List Cello.Heap.Obj) (e : Cello.Heap.Obj) (he : e ∈ es) (w : Nat)
    (hw : w ∈ Cello.Heap.fields HC e) : w ∈ Cello.Heap.fieldsL HC es := by
  induction es with
  | nil => cases he
  | cons x xs ih =>
    simp only [Cello.Heap.fieldsL, List.mem_append]
    rcases List.mem_cons.mp he with h | h
    · subst h; exact .inl hw
    · exact .inr (ih h)

/-- **Table_Mark covers the whole slot array** — with the loop bound that is in src/Table.c now -/
theorem tableMark_all (t : Cello.Table.Tab Int Nat) : tableMarkSlots t = t.slots.toList := by
  have hb : CelloGen.Cfg.tableMarkBound = "nslots" := by decide
  simp only [tableMarkSlots, hb, if_true]
  exact List.take_of_length_le (by simp)

theorem entry_fields (side : Side) (k : Int) (i : Nat) :
    ∃ o ∈ entryObjs side k i, addr i ∈ Cello.Heap.fields HC o := by
  cases side with
  | val => exact ⟨.raw "Ref" [addr i], by simp [entryObjs], by rw [fields_plain _ _ (by simp)]; simp⟩
  | key => exact ⟨.raw "KCell" [wordOfInt k, addr i], by simp [entryObjs], by rw [fields_plain _ _ (by simp)]; simp⟩

/-- **Every Mark instance covers everything its container holds**: whatever a block refers to (`Cell.refs`) is among
    the words the collector reads when it traces the block. -/
theorem refs_fields (c : Cell) (j : Nat) (hj : j ∈ c.refs) : addr j ∈ Cello.Heap.fields HC (toObj c) := by
  cases c with
  | tracked ident pay link =>
    simp only [Cell.refs, Option.mem_toList] at hj
    subst hj
    rw [toObj, fields_plain _ _ (by simp)]
    simp [optAddr]
  | ref box v =>
    simp only [Cell.refs, Option.mem_toList] at hj
    subst hj
    cases box
    · rw [toObj]; simp only [Bool.false_eq_true, if_false]; rw [fields_plain _ _ (by simp)]; simp [optAddr]
    · rw [toObj]; simp only [if_true]; rw [fields_plain _ _ (by simp)]; simp [optAddr]
  | tuple xs =>
    rw [toObj, fields_tuple]
    exact List.mem_map.mpr ⟨j, hj, rfl⟩
  | array xs =>
    rw [toObj, fields_cont _ _ (by simp)]
    exact fieldsL_mem _ (.raw "Ref" [addr j]) (List.mem_map.mpr ⟨j, hj, rfl⟩) _ (by rw [fields_plain _ _ (by simp)]; simp)
  | list xs =>
    rw [toObj, fields_cont _ _ (by simp)]
    exact fieldsL_mem _ (.raw "Ref" [addr j]) (List.mem_map.mpr ⟨j, hj, rfl⟩) _ (by rw [fields_plain _ _ (by simp)]; simp)
  | table side t =>
    simp only [Cell.refs, tabEntries, List.mem_map, List.mem_filterMap] at hj
    obtain ⟨⟨k, j'⟩, ⟨oe, hoe, hmap⟩, hj2⟩ := hj
    simp only at hj2
    subst hj2
    cases oe with
    | none => simp at hmap
    | some e =>
      simp only [Option.map_some, Option.some.injEq, Prod.mk.injEq] at hmap
      obtain ⟨o, ho, hw⟩ := entry_fields side e.key e.val
      rw [toObj, fields_cont _ _ (by simp), tableMark_all]
      refine fieldsL_mem _ o ?_ _ (by rw [← hmap.2]; exact hw)
      exact List.mem_flatMap.mpr ⟨some e, hoe, ho⟩
  | tree side kvs =>
    simp only [Cell.refs, List.mem_map] at hj
    obtain ⟨⟨k, j'⟩, hm, hj2⟩ := hj
    simp only at hj2
    subst hj2
    obtain ⟨o, ho, hw⟩ := entry_fields side k j'
    rw [toObj, fields_cont _ _ (by simp)]
    exact fieldsL_mem _ o (List.mem_flatMap.mpr ⟨(k, j'), hm, ho⟩) _ hw
  | thread kvs =>
    -- Thread_Mark presents the table of ANY Thread object: `mark(t->tls, gc, f)` → Table_Mark → the embedded Ref of every entry
    simp only [Cell.refs, List.mem_map] at hj
    obtain ⟨e, hm, hj2⟩ := hj
    have ht := current_tables
    have h1 := ht.1 "Thread" (by simp)
    have h2 := ht.1 "Table" (by simp)
    simp only [toObj, Cello.Heap.fields, Cello.Heap.viaMark, h1.1, h1.2, h2.1, ht.2.2.2.2, if_true, Bool.false_eq_true, if_false]
    refine fieldsL_mem _ (.raw "Ref" [addr j]) ?_ (addr j) (by rw [fields_plain _ _ (by simp)]; simp)
    exact List.mem_flatMap.mpr ⟨e, hm, by simp [hj2]⟩

theorem toHeap_lookup (s : KSt) (i : Nat) :
    (toHeap s).lookup (addr i) = (s.heap.lookup i).map (fun c => ⟨toObj c, storedRoot (isRooted s.slots i)⟩) := by
  have := addr_inv i
  simp [toHeap, toHeapW, this.1, this.2.1, this.2.2]

theorem addr_bound (a n : Nat) (h1 : a % 8 = 0) (h2 : 8 ≤ a) (h3 : a / 8 - 1 < n) : a ≤ addr n := by
  unfold addr; omega

theorem toHeap_wf (s : KSt) (hf : Fresh s) : (toHeap s).WF := by
  constructor
  · intro a e he
    simp only [toHeap, toHeapW] at he
    split at he
    · rename_i hc; exact hc.1
    · cases he
  · intro a e he
    simp only [toHeap, toHeapW] at he ⊢
    split at he
    · rename_i hc
      rcases hl : s.heap.lookup (a / 8 - 1) with _ | c
      · rw [hl] at he; cases he
      · exact ⟨Nat.zero_le _, addr_bound a s.next hc.1 hc.2 (hf _ c hl)⟩
    · cases he

/-- the registry entry of a rooted container is among the entries the root loop of `GC_Mark` starts from — because the root
    argument of `GC_Set_Ptr` arrives in the member that loop tests (`RootWired`) -/
theorem rooted_in_rootAddrs (s : KSt) (hw : RootWired) {i : Nat} (hs : (s.heap.lookup i).isSome = true)
    (hroot : isRooted s.slots i = true) : addr i ∈ Cello.Heap.rootAddrs (toHeap s) := by
  rcases hl : s.heap.lookup i with _ | c
  · rw [hl] at hs; cases hs
  · have hm := lookup_mem_fst _ _ _ hl
    refine List.mem_filter.mpr ⟨List.mem_map.mpr ⟨(i, c), hm, rfl⟩, ?_⟩
    rw [toHeap_lookup, hl]
    simp only [Option.map_some, hroot]
    exact hw

/-- what the program can reach, the collector's marker reaches (model of src/GC.c: Cello/Heap.lean) -/
theorem reach_to_heap (s : KSt) (hw : RootWired) {i : Nat} (hr : KReach s.heap s.roots i) :
    Cello.Heap.Reachable HC (toHeap s) (Cello.Heap.rootWords HC (toHeap s) (threadObj s) (stackWords s)) (addr i) := by
  have reg : ∀ k, (s.heap.lookup k).isSome = true → ((toHeap s).lookup (addr k)).isSome = true := by
    intro k hk; rw [toHeap_lookup]; cases hx : s.heap.lookup k <;> simp [hx] at hk ⊢
  induction hr with
  | @root i hroot hs =>
    refine .root ?_ (reg i hs)
    simp only [KSt.roots, List.mem_append] at hroot
    simp only [Cello.Heap.rootWords, List.mem_append]
    rcases hroot with h | h
    · -- a holder variable: on the stack — or in static storage, then the container is a root entry of the registry
      obtain ⟨sl, hsl, hri⟩ := List.mem_filterMap.mp h
      cases hrt : sl.rooted
      · exact .inr (.inr (List.mem_map.mpr ⟨i, List.mem_filterMap.mpr ⟨sl, List.mem_filter.mpr ⟨hsl, by simp [hrt]⟩, hri⟩, rfl⟩))
      · refine .inr (.inl (rooted_in_rootAddrs s hw hs ?_))
        simp only [isRooted, List.any_eq_true]
        exact ⟨sl, hsl, by simp [hrt, hri]⟩
    · left
      obtain ⟨e, he, hei⟩ := List.mem_map.mp h
      have ht := current_tables
      have h1 := ht.1 "Thread" (by simp)
      have h2 := ht.1 "Table" (by simp)
      simp only [Cello.Heap.tlsWords, ht.2.2.1, if_true, threadObj, Cello.Heap.viaMark, h1.1, h2.1]
      refine fieldsL_mem _ (.raw "Ref" [addr i]) ?_ _ (by rw [fields_plain _ _ (by simp)]; simp)
      exact List.mem_flatMap.mpr ⟨e, he, by simp [hei]⟩
  | @step i j c _ hl hm hs ih =>
    refine .step ih ⟨⟨toObj c, storedRoot (isRooted s.slots i)⟩, by rw [toHeap_lookup, hl]; rfl, refs_fields c j hm⟩ (reg j hs)

/-- **The collector does not free what the program can reach** (and leaves its contents alone). -/
theorem kcollect_keeps (hw : RootWired) {s : KSt} (hf : Fresh s) {i : Nat} (hr : KReach s.heap s.roots i) :
    (kcollect s).heap.lookup i = s.heap.lookup i := by
  have wf := toHeap_wf s hf
  have hreach := (Cello.Heap.reachable_iff_reach wf _ _).mp (reach_to_heap s hw hr)
  have hmark := (Cello.Heap.gcMark_iff_reach Cello.Heap.listSet HC (toHeap s) (threadObj s) (stackWords s) (addr i)).mpr hreach
  have hnp : addr i ∉ (Cello.Heap.collect Cello.Heap.listSet HC (toHeap s) (threadObj s) (stackWords s)).2 := by
    intro hp
    simp only [Cello.Heap.collect] at hp
    have h2 := ((Cello.Heap.mem_pending _ _ _ _).mp hp).2
    obtain ⟨e, _, _, hm⟩ := (Cello.Heap.sweeps_iff _ _ _ _).mp h2
    rw [hmark] at hm; cases hm
  simp only [kcollect, kcollectW]
  rw [show toHeapW storedRoot s = toHeap s from rfl]
  rw [lookup_filter_key (fun k => !((Cello.Heap.collect Cello.Heap.listSet HC (toHeap s) (threadObj s) (stackWords s)).2.contains (addr k)))]
  have : ((Cello.Heap.collect Cello.Heap.listSet HC (toHeap s) (threadObj s) (stackWords s)).2.contains (addr i)) = false := by
    simpa using hnp
  simp only [this, Bool.not_false, if_true]

/-- a collection only removes blocks -/
theorem kcollect_sub (s : KSt) {i : Nat} {c : Cell} (h : (kcollect s).heap.lookup i = some c) : s.heap.lookup i = some c := by
  simp only [kcollect, kcollectW] at h
  rw [show toHeapW storedRoot s = toHeap s from rfl] at h
  rw [lookup_filter_key (fun k => !((Cello.Heap.collect Cello.Heap.listSet HC (toHeap s) (threadObj s) (stackWords s)).2.contains (addr k)))] at h
  split at h
  · exact h
  · cases h

theorem kcollect_roots (s : KSt) : (kcollect s).roots = s.roots := rfl

theorem kcollect_reach_iff (hw : RootWired) {s : KSt} (hf : Fresh s) (i : Nat) :
    KReach (kcollect s).heap (kcollect s).roots i ↔ KReach s.heap s.roots i := by
  have some_of : ∀ k, ((kcollect s).heap.lookup k).isSome = true → (s.heap.lookup k).isSome = true := by
    intro k hk
    rcases hx : (kcollect s).heap.lookup k with _ | c
    · rw [hx] at hk; cases hk
    · rw [kcollect_sub s hx]; rfl
  constructor
  · intro hr
    induction hr with
    | root hroot hs => exact .root hroot (some_of _ hs)
    | step _ hl hm hs ih => exact .step ih (kcollect_sub s hl) hm (some_of _ hs)
  · intro hr
    induction hr with
    | @root i hroot hs => exact .root hroot (by rw [kcollect_keeps hw hf (.root hroot hs)]; exact hs)
    | @step i j c hri hl hm hs ih =>
      exact .step ih (by rw [kcollect_keeps hw hf hri]; exact hl) hm (by rw [kcollect_keeps hw hf (.step hri hl hm hs)]; exact hs)

theorem kcollect_fresh {s : KSt} (hf : Fresh s) : Fresh (kcollect s) :=
  fun i c hl => hf i c (kcollect_sub s hl)

/-- **A collection is invisible to the program.** -/
theorem kcollect_sim_left (hw : RootWired) {s t : KSt} (h : Sim s t) (hf : Fresh s) : Sim (kcollect s) t := by
  refine ⟨h.next, h.slots, h.tls, h.used, ?_, ?_⟩
  · intro i hr
    have hr' := (kcollect_reach_iff hw hf i).mp hr
    rw [h.fwd i hr', kcollect_keeps hw hf hr']
  · intro i hr
    have hr' : KReach s.heap s.roots i := h.symm.reach hr
    rw [kcollect_keeps hw hf hr', h.bwd i hr]

theorem gcTail_sim_left (hw : RootWired) (cfg : Cfg) (u : Upd) {a b : KSt} (h : Sim a b) (hf : Fresh a) :
    Sim (gcTail cfg u a) b ∧ Fresh (gcTail cfg u a) := by
  unfold gcTail
  cases cfg.gc
  · exact ⟨h, hf⟩
  · simp only [if_true]
    have h2 : ∀ m, Sim { a with mitems := m } b ∧ Fresh { a with mitems := m } :=
      fun _ => ⟨⟨h.next, h.slots, h.tls, h.used, h.fwd, h.bwd⟩, hf⟩
    split
    · split
      · exact ⟨kcollect_sim_left hw (h2 _).1 (h2 _).2, kcollect_fresh (h2 _).2⟩
      · exact h2 _
    · split
      · exact ⟨kcollect_sim_left hw h hf, kcollect_fresh hf⟩
      · exact ⟨h, hf⟩

/-! ### E. steps and programs -/

/-- **One operation, any two configurations.** From states that show the program the same thing, the operation has the
    same outcome (the same value read, or the same refusal) under both configurations and leaves states that again show
    the program the same thing — whenever and however often either collector ran. -/
theorem kstep_sim (hw : RootWired) (c₁ c₂ : Cfg) (op : KOp) {s t : KSt} (h : Sim s t) (hfs : Fresh s) (hft : Fresh t) :
    (kstep c₁ op s).2 = (kstep c₂ op t).2 ∧ Sim (kstep c₁ op s).1 (kstep c₂ op t).1 ∧
      Fresh (kstep c₁ op s).1 ∧ Fresh (kstep c₂ op t).1 := by
  unfold kstep
  simp only
  rw [← view_eq h op]
  rcases hp : plan op (view op s) with _ | ⟨u, out⟩
  · exact ⟨rfl, h, hfs, hft⟩
  · simp only
    cases hok : u.ok (view op s)
    · exact ⟨rfl, h, hfs, hft⟩
    · simp only [if_true]
      have hok' : u.ok (view op t) = true := by rw [← view_eq h op]; exact hok
      have h1 := applyRaw_sim h hfs hft hok
      have f1 := applyRaw_fresh hfs hok
      have f2 := applyRaw_fresh hft hok'
      obtain ⟨h2, f1'⟩ := gcTail_sim_left hw c₁ u h1 f1
      obtain ⟨h3, f2'⟩ := gcTail_sim_left hw c₂ u h2.symm f2
      exact ⟨by first | rfl | trivial, h3.symm, f1', f2'⟩

theorem krun_sim (hw : RootWired) (c₁ c₂ : Cfg) : ∀ (prog : List KOp) {s t : KSt}, Sim s t → Fresh s → Fresh t →
    (krun c₁ prog s).2 = (krun c₂ prog t).2 ∧ Sim (krun c₁ prog s).1 (krun c₂ prog t).1
  | [], _, _, h, _, _ => ⟨rfl, h⟩
  | op :: rest, s, t, h, hfs, hft => by
    obtain ⟨h1, h2, h3, h4⟩ := kstep_sim hw c₁ c₂ op h hfs hft
    obtain ⟨h5, h6⟩ := krun_sim hw c₁ c₂ rest h2 h3 h4
    simp only [krun]
    exact ⟨by rw [h1, h5], h6⟩

theorem fresh_init : Fresh KSt.init := fun i c h => by simp [KSt.init] at h

/-! ### F. process exit (`kexit`): the destructor ledger at the end of the process -/

/-- a keep step consults the configuration only for the collector -/
theorem kstep_gc_only {c c' : Cfg} (h : c.gc = c'.gc) (op : KOp) (s : KSt) : kstep c op s = kstep c' op s := by
  unfold kstep applyUpd gcTail
  rw [h]

theorem krun_gc_only {c c' : Cfg} (h : c.gc = c'.gc) : ∀ (prog : List KOp) (s : KSt), krun c prog s = krun c' prog s
  | [], _ => rfl
  | op :: rest, s => by
    simp only [krun]
    rw [kstep_gc_only h op s, krun_gc_only h rest]

/-- the serial numbers given out do not depend on the configuration -/
theorem used_config_independent (hw : RootWired) (c₁ c₂ : Cfg) (prog : List KOp) :
    (krun c₁ prog KSt.init).1.used = (krun c₂ prog KSt.init).1.used :=
  (krun_sim hw c₁ c₂ prog (Sim.refl _) fresh_init fresh_init).2.used

theorem filter_not_contains_nil (xs : List Int) : xs.filter (fun i => !(([] : List Int).contains i)) = xs := by
  induction xs with
  | nil => rfl
  | cons x xs ih => simp

/-- with the collector, every object ever made has been finalised when the process has ended (`GC_Del` sweeps the rest) -/
theorem endLedger_gc {c : Cfg} (h : c.gc = true) (prog : List KOp) :
    endLedger c prog = (krun c prog KSt.init).1.used := by
  unfold endLedger kexit ledger
  rw [if_pos h]
  exact filter_not_contains_nil _

/-- without it, only what the program deleted itself -/
theorem endLedger_ngc {c : Cfg} (h : c.gc = false) (prog : List KOp) :
    endLedger c prog = ledger (krun ngcCfg prog KSt.init).1 := by
  unfold endLedger kexit
  rw [if_neg (by simp [h])]
  rw [krun_gc_only (c := c) (c' := ngcCfg) (by rw [h]; rfl)]

theorem endLedger_of_releasesAll (hw : RootWired) (c : Cfg) (prog : List KOp) (h : ReleasesAll prog) :
    endLedger c prog = (krun ngcCfg prog KSt.init).1.used := by
  cases hg : c.gc
  · rw [endLedger_ngc hg]
    unfold ledger
    rw [h]
    exact filter_not_contains_nil _
  · rw [endLedger_gc hg, used_config_independent hw c ngcCfg]


/-! ### G. the wiring of the root flag matters: the seeded shape (`{ ptr, ihash, root, 0 }` against `bool marked; bool root;`) -/

theorem reach_nil {a : Nat} {h : Cello.Heap.Heap} : ¬ Cello.Heap.Reach HC h [] a := by
  intro hr
  induction hr with
  | root hroot _ => cases hroot
  | step _ _ _ ih => exact ih

/-- the smallest program with a root: `static var reg; reg = new_root(Array, Ref);` — one block, its variable outside the
    collector's view -/
def rootOnly : KSt :=
  { KSt.init with next := 1, heap := [(0, .array [])], slots := [⟨0, .array, some 0, true⟩] }

theorem fresh_rootOnly : Fresh rootOnly := by
  intro i c h
  cases i with
  | zero => decide
  | succ n => simp [rootOnly, List.lookup] at h

/-- **If the entry does not carry the flag in the member the collector tests, the first collection frees the root.**  With the
    wiring `fun _ => false` (what the initialiser `{ ptr, ihash, root, 0 }` yields once the two flag members of `struct GCEntry`
    have changed places: the root argument lands in `marked`, which `GC_Unmark` wipes, and `root` is 0) nothing presents the
    container to the marker — no stack word, no thread-local entry, no root entry — and `GC_Sweep` puts it on the free list. -/
theorem kcollectW_unwired_loses_root : (kcollectW (fun _ => false) rootOnly).heap.lookup 0 = none := by
  have hroots : Cello.Heap.rootWords HC (toHeapW (fun _ => false) rootOnly) (threadObj rootOnly) (stackWords rootOnly) = [] := by
    decide +kernel
  have hun : Cello.Heap.listSet.mem (addr 0)
      (Cello.Heap.gcMark Cello.Heap.listSet HC (toHeapW (fun _ => false) rootOnly) (threadObj rootOnly) (stackWords rootOnly)) = false := by
    cases hm : Cello.Heap.listSet.mem (addr 0)
      (Cello.Heap.gcMark Cello.Heap.listSet HC (toHeapW (fun _ => false) rootOnly) (threadObj rootOnly) (stackWords rootOnly)) with
    | false => rfl
    | true =>
      have := (Cello.Heap.gcMark_iff_reach Cello.Heap.listSet HC _ (threadObj rootOnly) (stackWords rootOnly) (addr 0)).mp hm
      rw [hroots] at this
      exact absurd this reach_nil
  have hl : (toHeapW (fun _ => false) rootOnly).lookup (addr 0) = some ⟨toObj (.array []), false⟩ := by
    have := addr_inv 0
    simp [toHeapW, this.1, this.2.1, this.2.2, rootOnly, List.lookup]
  have hp : addr 0 ∈ (Cello.Heap.collect Cello.Heap.listSet HC (toHeapW (fun _ => false) rootOnly) (threadObj rootOnly) (stackWords rootOnly)).2 := by
    simp only [Cello.Heap.collect]
    refine (Cello.Heap.mem_pending _ _ _ _).mpr ⟨by decide +kernel, ?_⟩
    exact (Cello.Heap.sweeps_iff _ _ _ _).mpr ⟨_, hl, rfl, hun⟩
  simp only [kcollectW]
  rw [lookup_filter_key (fun k => !((Cello.Heap.collect Cello.Heap.listSet HC (toHeapW (fun _ => false) rootOnly) (threadObj rootOnly) (stackWords rootOnly)).2.contains (addr k)))]
  have : ((Cello.Heap.collect Cello.Heap.listSet HC (toHeapW (fun _ => false) rootOnly) (threadObj rootOnly) (stackWords rootOnly)).2.contains (addr 0)) = true := by
    simpa using hp
  rw [this]
  rfl


end Cello.Config.Keep

namespace Cello.Config

theorem keepAfter_sim (hw : Keep.RootWired) (c₁ c₂ : Cfg) (op : Op) {k₁ k₂ : Keep.KSt} (h : Keep.Sim k₁ k₂) (h1 : Keep.Fresh k₁) (h2 : Keep.Fresh k₂) :
    Keep.Sim (keepAfter c₁ op k₁) (keepAfter c₂ op k₂) ∧ Keep.Fresh (keepAfter c₁ op k₁) ∧ Keep.Fresh (keepAfter c₂ op k₂) := by
  unfold keepAfter
  split
  · exact (Keep.kstep_sim hw c₁ c₂ .gc h h1 h2).2
  · exact ⟨h, h1, h2⟩

/-- the two halves of the workload do not interact: the simulations of Lemmas/Cfg.lean and of this file compose -/
theorem wrun_sim (hw : Keep.RootWired) (cfg : Cfg) : ∀ (prog : List WOp) (s₁ s₂ : St) (k₁ k₂ : Keep.KSt),
    Equiv s₁ s₂ → WF Cfg.default s₁ → WF cfg s₂ → Keep.Sim k₁ k₂ → Keep.Fresh k₁ → Keep.Fresh k₂ →
    WInContract (wrun Cfg.default prog (s₁, k₁)).2 →
    (wrun cfg prog (s₂, k₂)).2 = (wrun Cfg.default prog (s₁, k₁)).2
  | [], _, _, _, _, _, _, _, _, _, _, _ => rfl
  | .main op :: rest, s₁, s₂, k₁, k₂, he, hw₁, hw₂, hk, hf₁, hf₂, hok => by
    simp only [wrun, wstep] at hok ⊢
    obtain ⟨out, hout⟩ := hok _ (List.mem_cons_self ..) _ rfl
    obtain ⟨h1, h2, h3⟩ := step_sim cfg op he hw₁ hw₂ hout
    have hw₁' := (step_sim Cfg.default op (Equiv.refl s₁) hw₁ hw₁ hout).2.2
    obtain ⟨hk', hf₁', hf₂'⟩ := keepAfter_sim hw Cfg.default cfg op hk hf₁ hf₂
    have ih := wrun_sim hw cfg rest _ _ _ _ h2 hw₁' h3 hk' hf₁' hf₂' (fun r hr => hok r (List.mem_cons_of_mem _ hr))
    rw [ih, h1, hout]
  | .keep ko :: rest, s₁, s₂, k₁, k₂, he, hw₁, hw₂, hk, hf₁, hf₂, hok => by
    simp only [wrun, wstep] at hok ⊢
    obtain ⟨h1, h2, h3, h4⟩ := Keep.kstep_sim hw Cfg.default cfg ko hk hf₁ hf₂
    have ih := wrun_sim hw cfg rest _ _ _ _ he hw₁ hw₂ h2 h3 h4 (fun r hr => hok r (List.mem_cons_of_mem _ hr))
    rw [ih, h1]

end Cello.Config

