/-
  Lemmas for C19 (engine `hdr`): the source-level facts packed in `Config.Sound`, the association-list helpers, and the
  well-formedness invariant `WF` of the model with its preservation by every state transformer of Cello/Hdr.lean.
-/
import Cello.Hdr

namespace Cello.Hdr

/-! ## what `Config.Sound` says, field by field -/

structure Facts (cfg : Config) : Prop where
  ne_static_heap : cfg.cStatic ≠ cfg.cHeap
  ne_stack_heap : cfg.cStack ≠ cfg.cHeap
  ne_heap_data : cfg.cHeap ≠ cfg.cData
  ne_static_stack : cfg.cStatic ≠ cfg.cStack
  ne_static_data : cfg.cStatic ≠ cfg.cData
  ne_stack_data : cfg.cStack ≠ cfg.cData
  bAllocBy : cfg.bAllocBy = cfg.cHeap
  bTypeAlloc : cfg.bTypeAlloc = cfg.cHeap
  bStack : cfg.bStack = cfg.cStack
  bStaticObj : cfg.bStaticObj = cfg.cStatic
  bArray : cfg.bArray = cfg.cData
  bList : cfg.bList = cfg.cData
  bTableK : cfg.bTableK = cfg.cData
  bTableV : cfg.bTableV = cfg.cData
  bTreeK : cfg.bTreeK = cfg.cData
  bTreeV : cfg.bTreeV = cfg.cData
  writesType : cfg.writesType = true
  writesAlloc : cfg.writesAlloc = true
  writesMagic : cfg.writesMagic = true
  refStatic : assoc cfg.cStatic cfg.deallocRefused = some "ResourceError"
  refStack : assoc cfg.cStack cfg.deallocRefused = some "ResourceError"
  refData : assoc cfg.cData cfg.deallocRefused = some "ResourceError"
  refHeap : assoc cfg.cHeap cfg.deallocRefused = none
  sDel : cfg.sDel.Protects cfg = true
  sAssign : cfg.sAssign.Protects cfg = true
  sConcat : cfg.sConcat.Protects cfg = true
  sResize : cfg.sResize.Protects cfg = true
  tDel : cfg.tDel.Protects cfg = true
  tAssign : cfg.tAssign.Protects cfg = true
  tPush : cfg.tPush.Protects cfg = true
  tPop : cfg.tPop.Protects cfg = true
  tPushAt : cfg.tPushAt.Protects cfg = true
  tPopAt : cfg.tPopAt.Protects cfg = true
  tConcat : cfg.tConcat.Protects cfg = true
  tResize : cfg.tResize.Protects cfg = true
  regStandard : cfg.regStandard = some false
  regRaw : cfg.regRaw = none
  regRoot : cfg.regRoot = some true
  delViaCollector : cfg.delViaCollector = true
  gcSetOnlyAllocBy : cfg.gcSetOnlyAllocBy = true
  swClear : cfg.swClear = .before
  swFinalises : cfg.swFinalises = true
  swUnlistsFirst : cfg.swUnlistsFirst = true
  remPendClear : cfg.remPendClear = .before
  remPendFinalises : cfg.remPendFinalises = true
  remRegErase : cfg.remRegErase = .before
  boxDelDeletes : cfg.boxDelDeletes = true

theorem facts_of_sound {cfg : Config} (h : cfg.Sound = true) : Facts cfg := by
  simp only [Config.Sound, Bool.and_eq_true, bne_iff_ne, ne_eq, beq_iff_eq, Option.isNone_iff_eq_none] at h
  constructor <;> simp_all

/-- what a protecting guard says -/
theorem Guard.protects_iff {cfg : Config} {g : Guard} :
    g.Protects cfg = true ↔ g.first = true ∧ g.classes.contains cfg.cStack = true ∧ g.classes.contains cfg.cStatic = true ∧
      g.classes.contains cfg.cHeap = false ∧ g.classes.contains cfg.cData = false ∧ g.exc = "ValueError" := by
  simp only [Guard.Protects, Bool.and_eq_true, Bool.not_eq_true', beq_iff_eq]
  constructor
  · rintro ⟨⟨⟨⟨⟨a, b⟩, c⟩, d⟩, e⟩, f⟩; exact ⟨a, b, c, d, e, f⟩
  · rintro ⟨a, b, c, d, e, f⟩; exact ⟨⟨⟨⟨⟨a, b⟩, c⟩, d⟩, e⟩, f⟩

/-- `header_init` writes all three words -/
theorem headerInit_eq {cfg : Config} (F : Facts cfg) (ty : Ty) (c : Nat) :
    headerInit cfg ty c = { ty := some ty, alloc := c, magic := cfg.magic } := by
  simp [headerInit, F.writesType, F.writesAlloc, F.writesMagic]

/-! ## association lists -/

theorem assoc_mem {β : Type} {k : Nat} {l : List (Nat × β)} {v : β} (h : assoc k l = some v) : (k, v) ∈ l := by
  induction l with
  | nil => simp [assoc] at h
  | cons p r ih =>
    simp only [assoc] at h
    split at h
    · rename_i hk; cases h; cases p; simp_all
    · exact List.mem_cons_of_mem _ (ih h)

theorem assoc_append {β : Type} (k : Nat) (l r : List (Nat × β)) :
    assoc k (l ++ r) = match assoc k l with | some v => some v | none => assoc k r := by
  induction l with
  | nil => simp [assoc]
  | cons p t ih =>
    simp only [List.cons_append, assoc]
    split <;> simp_all

theorem assoc_map_upd {β : Type} (k id : Nat) (g : β → β) (l : List (Nat × β)) :
    assoc k (l.map (fun p => if p.1 = id then (p.1, g p.2) else p)) =
      (assoc k l).map (fun v => if k = id then g v else v) := by
  induction l with
  | nil => simp [assoc]
  | cons p t ih =>
    simp only [List.map_cons, assoc]
    by_cases hp : p.1 = id
    · simp only [hp, if_true]
      by_cases hk : id = k
      · simp [hk]
      · simp only [hk, if_false, ih]
    · simp only [hp, if_false]
      by_cases hk : p.1 = k
      · subst hk; simp [hp]
      · simp only [hk, if_false, ih]

/-! ## the invariant -/

/-- the header every embedded object must carry -/
def dataHdr (cfg : Config) (ty : Ty) : Header := { ty := some ty, alloc := cfg.cData, magic := cfg.magic }

/-- every element / key / value of a container body carries the declared type, class `data` and the magic number -/
def BodyOK (cfg : Config) : Body → Prop
  | .seq _ ety es => ∀ e ∈ es, e.hdr = dataHdr cfg ety
  | .map _ kty vty ents => ∀ p ∈ ents, p.1.hdr = dataHdr cfg kty ∧ p.2.hdr = dataHdr cfg vty
  | _ => True

structure WF (cfg : Config) (s : St) : Prop where
  bodies : ∀ p ∈ s.objs, BodyOK cfg p.2.body
  reg : ∀ p ∈ s.reg, ∃ o, s.get p.1 = some o ∧ o.hdr.alloc = cfg.cHeap ∧ o.live = true
  freed : ∀ id ∈ s.freed, ∃ o, s.get id = some o ∧ o.hdr.alloc = cfg.cHeap ∧ o.live = false
  once : s.freed.Nodup
  keys : (s.objs.map (·.1)).Nodup

theorem assoc_none_not_mem {β : Type} {k : Nat} {l : List (Nat × β)} (h : assoc k l = none) : k ∉ l.map (·.1) := by
  induction l with
  | nil => simp
  | cons p r ih =>
    simp only [assoc] at h
    split at h
    · cases h
    · rename_i hk
      simp only [List.map_cons, List.mem_cons, not_or]
      exact ⟨fun e => hk e.symm, ih h⟩

theorem assoc_of_mem_nodup {β : Type} {k : Nat} {v : β} {l : List (Nat × β)} (hn : (l.map (·.1)).Nodup) (hm : (k, v) ∈ l) :
    assoc k l = some v := by
  induction l with
  | nil => cases hm
  | cons p r ih =>
    simp only [List.map_cons, List.nodup_cons] at hn
    simp only [List.mem_cons] at hm
    simp only [assoc]
    rcases hm with hm | hm
    · subst hm; simp
    · have hne : p.1 ≠ k := by
        intro e; apply hn.1; rw [e]; exact List.mem_map.mpr ⟨(k, v), hm, rfl⟩
      simp [hne, ih hn.2 hm]

theorem map_fst_upd {β : Type} (id : Nat) (g : β → β) (l : List (Nat × β)) :
    (l.map (fun p => if p.1 = id then (p.1, g p.2) else p)).map (·.1) = l.map (·.1) := by
  induction l with
  | nil => rfl
  | cons p r ih => simp only [List.map_cons, ih]; split <;> rfl

theorem wf_init (cfg : Config) : WF cfg St.init := by
  constructor <;> simp [St.init, St.get, assoc]

theorem get_updBody (s : St) (id k : Nat) (f : Body → Body) :
    (s.updBody id f).get k = (s.get k).map (fun o => if k = id then { o with body := f o.body } else o) := by
  simp only [St.get, St.updBody]
  exact assoc_map_upd k id (fun o => { o with body := f o.body }) s.objs

theorem get_release (s : St) (id k : Nat) :
    (s.release id).get k = (s.get k).map (fun o => if k = id then { o with live := false } else o) := by
  simp only [St.get, St.release]
  exact assoc_map_upd k id (fun o => { o with live := false }) s.objs

theorem get_birth (cfg : Config) (s : St) (id k : Nat) (r : Route) (ty : Ty) (b : Body) (hfresh : s.get id = none) :
    (s.birth cfg id r ty b).get k =
      if k = id then some { hdr := (birthHeader cfg s r ty).1, cap := (birthHeader cfg s r ty).2, body := b, live := true }
      else s.get k := by
  simp only [St.get, St.birth] at *
  rw [assoc_append]
  by_cases hk : k = id
  · subst hk; simp [hfresh, assoc]
  · cases h : assoc k s.objs with
    | some v => simp [hk]
    | none => simp [assoc, hk, Ne.symm hk]

theorem wf_updBody {cfg : Config} {s : St} (h : WF cfg s) (id : Nat) (f : Body → Body)
    (hf : ∀ p ∈ s.objs, p.1 = id → BodyOK cfg (f p.2.body)) : WF cfg (s.updBody id f) := by
  constructor
  · intro p hp
    simp only [St.updBody, List.mem_map] at hp
    obtain ⟨q, hq, rfl⟩ := hp
    by_cases hk : q.1 = id
    · simp only [hk, if_true]; exact hf q hq hk
    · simp only [hk, if_false]; exact h.bodies q hq
  · intro p hp
    obtain ⟨o, ho, ha, hl⟩ := h.reg p hp
    rw [get_updBody, ho]
    by_cases hk : p.1 = id <;> simp [hk, ha, hl]
  · intro k hk
    obtain ⟨o, ho, ha, hl⟩ := h.freed k hk
    rw [get_updBody, ho]
    by_cases hk' : k = id <;> simp [hk', ha, hl]
  · exact h.once
  · simp only [St.updBody]
    rw [map_fst_upd id (fun o => { o with body := f o.body }) s.objs]; exact h.keys

theorem wf_unreg {cfg : Config} {s : St} (h : WF cfg s) (id : Nat) : WF cfg (s.unreg id) := by
  constructor
  · exact h.bodies
  · intro p hp
    simp only [St.unreg, List.mem_filter] at hp
    exact h.reg p hp.1
  · exact h.freed
  · exact h.once
  · exact h.keys

theorem not_reg_unreg (s : St) (id : Nat) : ∀ p ∈ (s.unreg id).reg, p.1 ≠ id := by
  intro p hp
  simp only [St.unreg, List.mem_filter, bne_iff_ne] at hp
  exact hp.2

theorem isReg_false {s : St} {id : Nat} (h : s.isReg id = false) : ∀ p ∈ s.reg, p.1 ≠ id := by
  intro p hp heq
  have : s.isReg id = true := by
    simp only [St.isReg, List.any_eq_true]
    exact ⟨p, hp, by simp [heq]⟩
  simp [h] at this

theorem isReg_true {s : St} {id : Nat} (h : s.isReg id = true) : ∃ p ∈ s.reg, p.1 = id := by
  simp only [St.isReg, List.any_eq_true, beq_iff_eq] at h
  exact h

theorem wf_release {cfg : Config} {s : St} (h : WF cfg s) (id : Nat) (o : Obj)
    (hreg : ∀ p ∈ s.reg, p.1 ≠ id) (hget : s.get id = some o) (hheap : o.hdr.alloc = cfg.cHeap) (hlive : o.live = true) :
    WF cfg (s.release id) := by
  have hnot : id ∉ s.freed := by
    intro hin
    obtain ⟨o', ho', _, hl'⟩ := h.freed id hin
    rw [hget] at ho'; cases ho'; simp [hlive] at hl'
  constructor
  · intro p hp
    simp only [St.release, List.mem_map] at hp
    obtain ⟨q, hq, rfl⟩ := hp
    by_cases hk : q.1 = id
    · simp only [hk, if_true]; exact h.bodies q hq
    · simp only [hk, if_false]; exact h.bodies q hq
  · intro p hp
    have hp' : p ∈ s.reg := hp
    obtain ⟨o', ho', ha, hl⟩ := h.reg p hp'
    rw [get_release, ho']
    have := hreg p hp'
    simp [this, ha, hl]
  · intro k hk
    simp only [St.release, List.mem_append, List.mem_singleton] at hk
    rw [get_release]
    rcases hk with hk | hk
    · obtain ⟨o', ho', ha, hl⟩ := h.freed k hk
      rw [ho']
      by_cases hk' : k = id <;> simp [hk', ha, hl]
    · subst hk; rw [hget]; simp [hheap]
  · simp only [St.release]
    rw [List.nodup_append]
    refine ⟨h.once, by simp, ?_⟩
    intro a ha b hb
    simp only [List.mem_singleton] at hb
    subst hb
    intro heq; subst heq; exact hnot ha
  · simp only [St.release]
    rw [map_fst_upd id (fun o => { o with live := false }) s.objs]; exact h.keys

theorem wf_birth {cfg : Config} {s : St} (h : WF cfg s) (id : Nat) (r : Route) (ty : Ty) (b : Body)
    (hfresh : s.get id = none) (hb : BodyOK cfg b)
    (hheap : ∀ root, r.registers cfg = some root → (birthHeader cfg s r ty).1.alloc = cfg.cHeap) :
    WF cfg (s.birth cfg id r ty b) := by
  have hother : ∀ k o, s.get k = some o → (s.birth cfg id r ty b).get k = some o := by
    intro k o hk
    rw [get_birth cfg s id k r ty b hfresh]
    by_cases hki : k = id
    · subst hki; rw [hfresh] at hk; cases hk
    · simp [hki, hk]
  constructor
  · intro p hp
    simp only [St.birth, List.mem_append, List.mem_singleton] at hp
    rcases hp with hp | hp
    · exact h.bodies p hp
    · subst hp; exact hb
  · intro p hp
    simp only [St.birth] at hp
    cases hr : r.registers cfg with
    | none =>
      rw [hr] at hp
      obtain ⟨o, ho, ha, hl⟩ := h.reg p hp
      exact ⟨o, hother _ _ ho, ha, hl⟩
    | some root =>
      rw [hr] at hp
      simp only [List.mem_append, List.mem_singleton] at hp
      rcases hp with hp | hp
      · obtain ⟨o, ho, ha, hl⟩ := h.reg p hp
        exact ⟨o, hother _ _ ho, ha, hl⟩
      · subst hp
        refine ⟨{ hdr := (birthHeader cfg s r ty).1, cap := (birthHeader cfg s r ty).2, body := b, live := true }, ?_, hheap root hr, rfl⟩
        rw [get_birth cfg s id id r ty b hfresh]; simp
  · intro k hk
    have hk' : k ∈ s.freed := hk
    obtain ⟨o, ho, ha, hl⟩ := h.freed k hk'
    exact ⟨o, hother _ _ ho, ha, hl⟩
  · exact h.once
  · simp only [St.birth, List.map_append, List.map_cons, List.map_nil]
    rw [List.nodup_append]
    refine ⟨h.keys, by simp, ?_⟩
    intro a ha b' hb'
    simp only [List.mem_singleton] at hb'
    subst hb'
    intro heq; subst heq
    exact assoc_none_not_mem hfresh ha

/-- with distinct handles, the entry found by `get` is the only one with that handle -/
theorem get_of_mem {cfg : Config} {s : St} (h : WF cfg s) {p : Nat × Obj} (hp : p ∈ s.objs) : s.get p.1 = some p.2 :=
  assoc_of_mem_nodup h.keys (by cases p; exact hp)

end Cello.Hdr
