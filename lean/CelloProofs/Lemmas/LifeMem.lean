/-
  Lemmas/LifeMem.lean — the collector's own tables (Cello/LifecycleMem.lean): the invariant `MSt.good` is kept by every
  event of the collector's working life when the statement lists are the ones read from the source; `GC_Del` takes a good
  state to a released one.  Both facts are finite case distinctions over the pointer states, checked by `decide` on the
  *generated* programs — a source whose `GC_Rehash`/`GC_Sweep`/`GC_Del` handle the tables differently fails here.
-/
import Cello.LifecycleMem
namespace Cello.Life.Mem
open CelloGen.Life

instance PS.decForall (p : PS → Prop) [DecidablePred p] : Decidable (∀ x, p x) :=
  if h1 : p .null then
    if h2 : p .live then
      if h3 : p .dangling then isTrue (fun x => by cases x <;> assumption)
      else isFalse (fun h => h3 (h _))
    else isFalse (fun h => h2 (h _))
  else isFalse (fun h => h1 (h _))

def allEvs : List Ev := [.set true, .set false, .rem true, .rem false, .sweepBegin true, .sweepBegin false, .sweepEnd,
  .delBegin true, .delBegin false, .delEnd]

theorem mem_allEvs (e : Ev) : e ∈ allEvs := by
  cases e <;> (try rename_i b; cases b) <;> decide

theorem step_good_all : ∀ (e f o : PS) (a l b t : Bool), ∀ ev ∈ allEvs, ev ≠ .delEnd →
    (MSt.mk e f o a l b t).good = true → (step Progs.source (MSt.mk e f o a l b t) ev).good = true := by
  decide

theorem delEnd_released_all : ∀ (e f o : PS) (a l b t : Bool),
    (MSt.mk e f o a l b t).good = true → (step Progs.source (MSt.mk e f o a l b t) .delEnd).released = true := by
  decide

/-- the TLS slot is only touched by `GC_Del` -/
theorem step_tls_all : ∀ (e f o : PS) (a l b t : Bool), ∀ ev ∈ allEvs, ev.working = true →
    (step Progs.source (MSt.mk e f o a l b t) ev).tls = t := by
  decide

theorem step_good (s : MSt) (ev : Ev) (hev : ev ≠ .delEnd) (h : s.good = true) : (step Progs.source s ev).good = true := by
  obtain ⟨e, f, o, a, l, b, t⟩ := s
  exact step_good_all e f o a l b t ev (mem_allEvs ev) hev h

theorem delEnd_released (s : MSt) (h : s.good = true) : (step Progs.source s .delEnd).released = true := by
  obtain ⟨e, f, o, a, l, b, t⟩ := s
  exact delEnd_released_all e f o a l b t h

theorem run_good (evs : List Ev) (s : MSt) (hev : ∀ e ∈ evs, e ≠ .delEnd) (h : s.good = true) :
    (run Progs.source s evs).good = true := by
  induction evs generalizing s with
  | nil => exact h
  | cons e es ih =>
    simp only [run, List.foldl_cons]
    exact ih _ (fun x hx => hev x (List.mem_cons_of_mem _ hx)) (step_good s e (hev e (List.mem_cons_self ..)) h)

theorem run_append (P : Progs) (s : MSt) (a b : List Ev) : run P s (a ++ b) = run P (run P s a) b := by
  simp [run, List.foldl_append]

theorem working_ne_delEnd {e : Ev} (h : e.working = true) : e ≠ .delEnd := by
  intro he; subst he; simp [Ev.working] at h

end Cello.Life.Mem
