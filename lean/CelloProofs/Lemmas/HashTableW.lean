/-
  Lemmas for C10: the Table code with its slot copies spelt out (`setMoveLoopW`, `rehashW`, `backShiftW`, … — every memcpy at
  the width the source gives it) computes the same slot arrays as the Table model over whole entries (`setMoveLoop`, `rehash`,
  `backShift`, …) on every Table whose keys and values fill the widths of the layout — for every header, key and value width.
-/
import Cello.Hash
import CelloProofs.Lemmas.HashMove
set_option linter.unusedSimpArgs false
set_option linter.unusedVariables false

namespace Cello.Hash

/-- every occupied slot holds a key and a value of the widths of `L` (and a non-zero home word) -/
def TableSized (L : Layout) (t : Table) : Prop := ∀ i s, t.slots.getD i none = some s → SlotSized L s

theorem getD_setIfInBounds (a : Array (Option Slot)) (i j : Nat) (x : Option Slot) :
    (a.setIfInBounds i x).getD j none = if i = j ∧ i < a.size then x else a.getD j none := by
  simp only [Array.getD_eq_getD_getElem?, Array.getElem?_setIfInBounds]
  by_cases h : i = j
  · subst h
    by_cases hi : i < a.size
    · simp [hi]
    · simp [hi, Array.getElem?_eq_none (Nat.le_of_not_lt hi)]
  · simp [h]

theorem TableSized.set {L : Layout} {t : Table} (h : TableSized L t) (i : Nat) (c : Slot) (hc : SlotSized L c) (n : Nat) :
    TableSized L { t with slots := t.slots.setIfInBounds i (some c), nitems := n } := by
  intro j s hs
  simp only [getD_setIfInBounds] at hs
  split at hs
  · cases hs; exact hc
  · exact h j s hs

theorem TableSized.setNone {L : Layout} {t : Table} (h : TableSized L t) (i : Nat) (n : Nat) :
    TableSized L { t with slots := t.slots.setIfInBounds i none, nitems := n } := by
  intro j s hs
  simp only [getD_setIfInBounds] at hs
  split at hs
  · cases hs
  · exact h j s hs

theorem TableSized.fresh (L : Layout) (n m : Nat) : TableSized L ⟨n, Array.replicate n none, m⟩ := by
  intro i s hs
  simp only [Array.getD_eq_getD_getElem?, Array.getElem?_replicate] at hs
  split at hs <;> simp at hs

theorem TableSized.empty (L : Layout) : TableSized L Table.empty := by
  intro i s hs
  simp [Table.empty] at hs

theorem TableSized.nitems {L : Layout} {t : Table} (h : TableSized L t) (n : Nat) : TableSized L { t with nitems := n } := h

theorem TableSized.of_mem {L : Layout} {t : Table} (h : TableSized L t) {s : Slot} (hs : s ∈ t.entriesInSlotOrder) :
    SlotSized L s := by
  simp only [Table.entriesInSlotOrder, List.mem_filterMap, id] at hs
  obtain ⟨o, ho, rfl⟩ := hs
  obtain ⟨i, hi, hget⟩ := List.getElem_of_mem ho
  apply h i s
  simp only [Array.getD_eq_getD_getElem?]
  have : t.slots[i]? = some (some s) := by
    rw [Array.getElem?_eq_getElem (by simpa using hi)]
    simpa using hget
  simp [this]

/-! ### Table_Set_Move -/

theorem setMoveLoop_sized (addr : Nat → Bytes) (L : Layout) : ∀ (fuel : Nat) (t : Table) (cur : Slot) (i j : Nat),
    TableSized L t → SlotSized L cur → TableSized L (setMoveLoop addr fuel t cur i j) := by
  intro fuel
  induction fuel with
  | zero => intro t cur i j ht _; exact ht
  | succ fuel ih =>
    intro t cur i j ht hc
    simp only [setMoveLoop]
    cases hs : t.slots.getD i none with
    | none => exact ht.set i cur hc _
    | some s =>
      simp only []
      split
      · exact ht.set i cur hc _
      · split
        · exact ih _ s _ _ (ht.set i cur hc _) (ht i s hs)
        · exact ih _ cur _ _ ht hc

theorem setMoveLoopW_eq (addr : Nat → Bytes) (L : Layout) : ∀ (fuel : Nat) (t : Table) (cur : Slot) (sp1 : Option Slot) (i j : Nat),
    TableSized L t → SlotSized L cur → (∀ s, sp1 = some s → SlotSized L s) →
    setMoveLoopW addr L fuel t cur sp1 i j = setMoveLoop addr fuel t cur i j := by
  intro fuel
  induction fuel with
  | zero => intro t cur sp1 i j _ _ _; rfl
  | succ fuel ih =>
    intro t cur sp1 i j ht hc hsp
    simp only [setMoveLoopW, setMoveLoop]
    cases hs : t.slots.getD i none with
    | none => simp only [copySlot_full L cur none hc (fun s e => by cases e)]
    | some s =>
      have hss : SlotSized L s := ht i s hs
      simp only []
      rw [copySlot_full L cur (some s) hc (fun s' e => by cases e; exact hss),
        copySlot_full L s sp1 hss hsp]
      simp only [copySlot_full L s (some cur) hss (fun s' e => by cases e; exact hc)]
      split
      · rfl
      · split
        · exact ih _ s (some s) _ _ (ht.set i cur hc _) hss (fun s' e => by cases e; exact hss)
        · exact ih _ cur sp1 _ _ ht hc hsp

theorem setMoveW_eq (addr : Nat → Bytes) (L : Layout) (t : Table) (k v : Scalar) (ht : TableSized L t)
    (hk : Sized L.kw k) (hv : Sized L.vw v) : setMoveW addr L t k v = setMove addr t k v := by
  unfold setMoveW setMove
  exact setMoveLoopW_eq addr L _ t _ none _ _ ht ⟨Nat.succ_ne_zero _, hk, hv⟩ (fun s e => by cases e)

theorem setMove_sized (addr : Nat → Bytes) (L : Layout) (t : Table) (k v : Scalar) (ht : TableSized L t)
    (hk : Sized L.kw k) (hv : Sized L.vw v) : TableSized L (setMove addr t k v) := by
  unfold setMove
  exact setMoveLoop_sized addr L _ t _ _ _ ht ⟨Nat.succ_ne_zero _, hk, hv⟩

theorem setMoveFromW_eq (addr : Nat → Bytes) (L : Layout) (t : Table) (old : Slot) (ht : TableSized L t)
    (ho : SlotSized L old) : setMoveFromW addr L t old = setMove addr t old.k old.v := by
  unfold setMoveFromW setMove
  simp only [loadSlot_full L _ old (Nat.succ_ne_zero _) ho]
  exact setMoveLoopW_eq addr L _ t _ none _ _ ht ⟨Nat.succ_ne_zero _, ho.2.1, ho.2.2⟩ (fun s e => by cases e)

/-! ### Table_Rehash, Table_Set -/

theorem foldl_setMoveFromW (addr : Nat → Bytes) (L : Layout) : ∀ (ss : List Slot) (acc : Table),
    TableSized L acc → (∀ s ∈ ss, SlotSized L s) →
    ss.foldl (fun acc s => setMoveFromW addr L acc s) acc = ss.foldl (fun acc s => setMove addr acc s.k s.v) acc ∧
    TableSized L (ss.foldl (fun acc s => setMove addr acc s.k s.v) acc) := by
  intro ss
  induction ss with
  | nil => intro acc h _; exact ⟨rfl, h⟩
  | cons s ss ih =>
    intro acc h hs
    have h1 := hs s (by simp)
    simp only [List.foldl_cons, setMoveFromW_eq addr L acc s h h1]
    exact ih _ (setMove_sized addr L acc s.k s.v h h1.2.1 h1.2.2) (fun x hx => hs x (by simp [hx]))

theorem rehashW_eq (addr : Nat → Bytes) (L : Layout) (t : Table) (n : Nat) (ht : TableSized L t) :
    rehashW addr L t n = rehash addr t n ∧ TableSized L (rehash addr t n) := by
  unfold rehashW rehash
  exact foldl_setMoveFromW addr L _ _ (TableSized.fresh L n 0) (fun s hs => ht.of_mem hs)

theorem tableSetW_eq (addr : Nat → Bytes) (L : Layout) (t : Table) (k v : Scalar) (ht : TableSized L t)
    (hk : Sized L.kw k) (hv : Sized L.vw v) :
    tableSetW addr L t k v = tableSet addr t k v ∧ TableSized L (tableSet addr t k v) := by
  unfold tableSetW tableSet
  have h1 : (if t.nslots = 0 then rehashW addr L t (idealSize 0) else t) = (if t.nslots = 0 then rehash addr t (idealSize 0) else t) := by
    split
    · exact (rehashW_eq addr L t _ ht).1
    · rfl
  have hs1 : TableSized L (if t.nslots = 0 then rehash addr t (idealSize 0) else t) := by
    split
    · exact (rehashW_eq addr L t _ ht).2
    · exact ht
  simp only [h1]
  generalize (if t.nslots = 0 then rehash addr t (idealSize 0) else t) = t1 at hs1 ⊢
  rw [setMoveW_eq addr L t1 k v hs1 hk hv]
  have hs2 := setMove_sized addr L t1 k v hs1 hk hv
  generalize setMove addr t1 k v = t2 at hs2 ⊢
  by_cases hgt : idealSize t2.nitems > t2.nslots
  · simp only [hgt, if_true]; exact rehashW_eq addr L t2 _ hs2
  · simp only [hgt, if_false]; exact ⟨trivial, hs2⟩

/-! ### Table_Rem -/

theorem backShiftW_eq (L : Layout) : ∀ (fuel : Nat) (t : Table) (i : Nat), TableSized L t →
    backShiftW L fuel t i = backShift fuel t i ∧ TableSized L (backShift fuel t i) := by
  intro fuel
  induction fuel with
  | zero => intro t i ht; exact ⟨rfl, ht⟩
  | succ fuel ih =>
    intro t i ht
    simp only [backShiftW, backShift]
    cases hs : t.slots.getD ((i + 1) % t.nslots) none with
    | none => exact ⟨rfl, ht⟩
    | some s =>
      have hss : SlotSized L s := ht _ s hs
      simp only [copySlot_full L s none hss (fun s' e => by cases e)]
      split
      · apply ih
        intro j s' hj
        simp only [getD_setIfInBounds] at hj
        split at hj
        · cases hj
        · split at hj
          · cases hj; exact hss
          · exact ht j s' hj
      · exact ⟨rfl, ht⟩

theorem remLoopW_eq (addr : Nat → Bytes) (L : Layout) (key : Scalar) : ∀ (fuel : Nat) (t : Table) (i j : Nat), TableSized L t →
    remLoopW addr L key fuel t i j = remLoop addr key fuel t i j ∧
    ∀ t', remLoop addr key fuel t i j = some t' → TableSized L t' := by
  intro fuel
  induction fuel with
  | zero => intro t i j _; exact ⟨rfl, fun t' h => by simp [remLoop] at h⟩
  | succ fuel ih =>
    intro t i j ht
    simp only [remLoopW, remLoop]
    cases hs : t.slots.getD i none with
    | none => exact ⟨rfl, fun t' h => by simp at h⟩
    | some s =>
      simp only []
      split
      · exact ⟨rfl, fun t' h => by simp at h⟩
      · split
        · have hb := backShiftW_eq L t.nslots { t with slots := t.slots.setIfInBounds i none } i (ht.setNone i t.nitems)
          simp only [hb.1]
          have hs2 : TableSized L { backShift t.nslots { t with slots := t.slots.setIfInBounds i none } i with
              nitems := (backShift t.nslots { t with slots := t.slots.setIfInBounds i none } i).nitems - 1 } := hb.2
          split
          · have hr := rehashW_eq addr L _ (idealSize ((backShift t.nslots { t with slots := t.slots.setIfInBounds i none } i).nitems - 1)) hs2
            exact ⟨by rw [hr.1], fun t' h => by cases h; exact hr.2⟩
          · exact ⟨rfl, fun t' h => by cases h; exact hs2⟩
        · exact ih _ _ _ ht

theorem tableRemW_eq (addr : Nat → Bytes) (L : Layout) (t : Table) (key : Scalar) (ht : TableSized L t) :
    tableRemW addr L t key = tableRem addr t key ∧ ∀ t', tableRem addr t key = some t' → TableSized L t' := by
  unfold tableRemW tableRem
  split
  · exact ⟨rfl, fun t' h => by simp at h⟩
  · exact remLoopW_eq addr L key _ t _ _ ht

/-! ### Table_New with pairs / Table_Assign -/

theorem foldl_setMoveW (addr : Nat → Bytes) (L : Layout) : ∀ (es : List (Scalar × Scalar)) (acc : Table),
    TableSized L acc → (∀ e ∈ es, EntrySized L e) →
    es.foldl (fun acc e => setMoveW addr L acc e.1 e.2) acc = es.foldl (fun acc e => setMove addr acc e.1 e.2) acc ∧
    TableSized L (es.foldl (fun acc e => setMove addr acc e.1 e.2) acc) := by
  intro es
  induction es with
  | nil => intro acc h _; exact ⟨rfl, h⟩
  | cons e es ih =>
    intro acc h hs
    have h1 := hs e (by simp)
    simp only [List.foldl_cons, setMoveW_eq addr L acc e.1 e.2 h h1.1 h1.2]
    exact ih _ (setMove_sized addr L acc e.1 e.2 h h1.1 h1.2) (fun x hx => hs x (by simp [hx]))

/-- **`Table_New` / `Table_Assign` with the slot copies at the widths of the source build the same Table as the entry-level
    model**, for entries of any widths -/
theorem tableOfEntriesW_eq (addr : Nat → Bytes) (L : Layout) (es : List (Scalar × Scalar)) (hs : ∀ e ∈ es, EntrySized L e) :
    tableOfEntriesW addr L es = tableOfEntries addr es ∧ TableSized L (tableOfEntries addr es) := by
  unfold tableOfEntriesW tableOfEntries
  simp only []
  split
  · exact ⟨rfl, TableSized.empty L⟩
  · exact foldl_setMoveW addr L es _ (TableSized.fresh L _ 0) hs

/-- the entries of a sized Table are sized -/
theorem TableSized.entries {L : Layout} {t : Table} (h : TableSized L t) : ∀ e ∈ t.entries, EntrySized L e := by
  intro e he
  simp only [Table.entries, List.mem_map] at he
  obtain ⟨s, hs, rfl⟩ := he
  exact ⟨(h.of_mem hs).2.1, (h.of_mem hs).2.2⟩

end Cello.Hash
