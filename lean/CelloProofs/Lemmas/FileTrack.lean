/-
  Helper lemmas for C20: every wrapper of the File model keeps the call log well bracketed (`track`), for every stdio.
-/
import CelloProofs.Lemmas.File

namespace Cello.File

variable {σ : Type} (io : Stdio σ)

theorem fileClose_track (l : σ) (f : Option Handle) :
    track f (fileClose io Cfg.fixed l f).calls = some (fileClose io Cfg.fixed l f).f ∧
      (fileClose io Cfg.fixed l f).f = none := by
  cases f with
  | none => simp [fileClose, Cfg.fixed, refused]
  | some h =>
    rcases hc : io.fclose l h with ⟨l1, ok⟩
    cases ok <;> simp [fileClose, Cfg.fixed, hc, track, trackCall]

theorem fileOpen_track (l : σ) (f : Option Handle) (k : Nat) (m : Mode) :
    track f (fileOpen io Cfg.fixed l f k m).calls = some (fileOpen io Cfg.fixed l f k m).f := by
  cases f with
  | none =>
    rcases ho : io.fopen l k m with ⟨l2, r⟩
    cases r <;> simp [fileOpen, ho, track, trackCall]
  | some h =>
    rcases hc : io.fclose l h with ⟨l1, ok⟩
    cases ok
    · simp [fileOpen, fileClose, Cfg.fixed, hc, track, trackCall]
    · rcases ho : io.fopen l1 k m with ⟨l2, r⟩
      cases r <;> simp [fileOpen, fileClose, hc, ho, track, trackCall]

theorem fileDel_track (l : σ) (f : Option Handle) :
    track f (fileDel io Cfg.fixed l f).calls = some (fileDel io Cfg.fixed l f).f ∧ (fileDel io Cfg.fixed l f).f = none := by
  cases f with
  | none => simp [fileDel]
  | some h => simpa [fileDel] using fileClose_track io l (some h)

theorem fileNew_track (l : σ) (args : Option (Nat × Mode)) :
    track none (fileNew io Cfg.fixed l args).calls = some (fileNew io Cfg.fixed l args).f := by
  cases args with
  | none => simp [fileNew]
  | some a => obtain ⟨k, m⟩ := a; simpa [fileNew] using fileOpen_track io l none k m

/-- Process_New (always opens; too few arguments: IndexOutOfBoundsError, nothing called, nothing held) -/
theorem procNew_track (l : σ) (args : Option (Nat × Mode)) :
    track none (procNew io Cfg.fixed l args).calls = some (procNew io Cfg.fixed l args).f := by
  cases args with
  | none => simp [procNew]
  | some a => obtain ⟨k, m⟩ := a; simpa [procNew] using fileOpen_track io l none k m

theorem fileSeek_track (l : σ) (f : Option Handle) (off : Int) (wh : Whence) :
    track f (fileSeek io l f off wh).calls = some (fileSeek io l f off wh).f ∧ (fileSeek io l f off wh).f = f := by
  cases f with
  | none => simp [fileSeek, refused]
  | some h => rcases hc : io.fseek l h off wh with ⟨l1, ok⟩; simp [fileSeek, hc, track, trackCall]

theorem fileTell_track (l : σ) (f : Option Handle) :
    track f (fileTell io l f).calls = some (fileTell io l f).f ∧ (fileTell io l f).f = f := by
  cases f with
  | none => simp [fileTell, refused]
  | some h => rcases hc : io.ftell l h with ⟨l1, r⟩; simp [fileTell, hc, track, trackCall]

theorem fileFlush_track (l : σ) (f : Option Handle) :
    track f (fileFlush io l f).calls = some (fileFlush io l f).f ∧ (fileFlush io l f).f = f := by
  cases f with
  | none => simp [fileFlush, refused]
  | some h => rcases hc : io.fflush l h with ⟨l1, ok⟩; simp [fileFlush, hc, track, trackCall]

theorem fileEof_track (l : σ) (f : Option Handle) :
    track f (fileEof io l f).calls = some (fileEof io l f).f ∧ (fileEof io l f).f = f := by
  cases f with
  | none => simp [fileEof, refused]
  | some h => rcases hc : io.feof l h with ⟨l1, e⟩; simp [fileEof, hc, track, trackCall]

theorem fileRead_track (l : σ) (f : Option Handle) (n : Nat) :
    track f (fileRead io l f n).calls = some (fileRead io l f n).f ∧ (fileRead io l f n).f = f := by
  cases f with
  | none => simp [fileRead, refused]
  | some h =>
    rcases hc : io.fread l h n with ⟨l1, num, data⟩
    by_cases hcond : num ≠ 1 ∧ n ≠ 0
    · rcases he : io.feof l1 h with ⟨l2, e⟩
      simp [fileRead, hc, hcond, he, track, trackCall]
    · simp [fileRead, hc, hcond, track, trackCall]

theorem fileWrite_track (l : σ) (f : Option Handle) (d : List Byte) :
    track f (fileWrite io l f d).calls = some (fileWrite io l f d).f ∧ (fileWrite io l f d).f = f := by
  cases f with
  | none => simp [fileWrite, refused]
  | some h => rcases hc : io.fwrite l h d with ⟨l1, num⟩; simp [fileWrite, hc, track, trackCall]

theorem filePrintFrom_track (l : σ) (h : Handle) (pos : Int) (calls : List Call) (frags : List (List Byte))
    (hc : track (some h) calls = some (some h)) :
    track (some h) (filePrintFrom io l h pos calls frags).calls = some (some h) ∧
      (filePrintFrom io l h pos calls frags).f = some h := by
  induction frags generalizing l pos calls with
  | nil => simp [filePrintFrom, hc]
  | cons t ts ih =>
    rcases hv : io.vfprintf l h t with ⟨l1, n⟩
    have hstep : track (some h) (calls ++ [.on .vfprintf h]) = some (some h) :=
      track_append_of hc (track_on_self h .vfprintf (by decide))
    by_cases hn : n < 0
    · simp [filePrintFrom, hv, hn, hstep]
    · simp only [filePrintFrom, hv, hn, if_false]
      exact ih l1 (pos + n) _ hstep

theorem filePrint_track (l : σ) (f : Option Handle) (frags : List (List Byte)) :
    track f (filePrint io l f frags).calls = some (filePrint io l f frags).f ∧ (filePrint io l f frags).f = f := by
  cases frags with
  | nil => simp [filePrint]
  | cons t ts =>
    cases f with
    | none => simp [filePrint, refused]
    | some h =>
      have := filePrintFrom_track io l h 0 [] (t :: ts) (by simp)
      simp only [filePrint]
      exact ⟨by rw [this.2]; exact this.1, this.2⟩

theorem fileScanInt_track (l : σ) (f : Option Handle) :
    track f (fileScanInt io l f).calls = some (fileScanInt io l f).f ∧ (fileScanInt io l f).f = f := by
  cases f with
  | none => simp [fileScanInt, refused]
  | some h =>
    rcases hc : io.vfscanfInt l h with ⟨l1, r⟩
    cases r <;> simp [fileScanInt, hc, track, trackCall]

/-- one operation, any stdio: the calls it makes continue a well-bracketed log -/
theorem step_track (l : σ) (f : Option Handle) (op : Op) :
    track f (step io Cfg.fixed l f op).calls = some (step io Cfg.fixed l f op).f := by
  cases op with
  | «open» k m => simpa [step, R.val] using fileOpen_track io l f k m
  | close => simpa [step, R.val] using (fileClose_track io l f).1
  | stop => simpa [step, R.val] using (fileClose_track io l f).1
  | withEnter => simp [step]
  | withExit => simpa [step, R.val] using (fileClose_track io l f).1
  | destruct => simpa [step, R.val] using (fileDel_track io l f).1
  | seek off wh => simpa [step, R.val] using (fileSeek_track io l f off wh).1
  | tell => simpa [step, R.val] using (fileTell_track io l f).1
  | flush => simpa [step, R.val] using (fileFlush_track io l f).1
  | eof => simpa [step, R.val] using (fileEof_track io l f).1
  | read n => simpa [step, R.val] using (fileRead_track io l f n).1
  | write d => simpa [step, R.val] using (fileWrite_track io l f d).1
  | print frags => simpa [step, R.val] using (filePrint_track io l f frags).1
  | scanInt => simpa [step, R.val] using (fileScanInt_track io l f).1

/-- which operations leave the File closed whatever happens -/
def Op.closes : Op → Bool
  | .close | .stop | .withExit | .destruct => true
  | _ => false

theorem step_closes (l : σ) (f : Option Handle) (op : Op) (h : op.closes = true) :
    (step io Cfg.fixed l f op).f = none := by
  cases op <;> simp [Op.closes] at h
  · simpa [step, R.val] using (fileClose_track io l f).2
  · simpa [step, R.val] using (fileClose_track io l f).2
  · simpa [step, R.val] using (fileClose_track io l f).2
  · simpa [step, R.val] using (fileDel_track io l f).2

theorem runOps_log (cfg : Cfg) (s : Hist σ) (ops : List Op) :
    ∃ suf, (runOps io cfg s ops).log = s.log ++ suf := by
  induction ops generalizing s with
  | nil => exact ⟨[], by simp [runOps]⟩
  | cons op ops ih =>
    obtain ⟨suf, hs⟩ := ih ⟨(step io cfg s.lib s.f op).lib, (step io cfg s.lib s.f op).f, s.log ++ (step io cfg s.lib s.f op).calls⟩
    exact ⟨(step io cfg s.lib s.f op).calls ++ suf, by simp [runOps, hs, List.append_assoc]⟩

theorem runOps_track (s : Hist σ) (ops : List Op) :
    ∃ suf, (runOps io Cfg.fixed s ops).log = s.log ++ suf ∧ track s.f suf = some (runOps io Cfg.fixed s ops).f := by
  induction ops generalizing s with
  | nil => exact ⟨[], by simp [runOps]⟩
  | cons op ops ih =>
    obtain ⟨suf, hs, ht⟩ := ih ⟨(step io Cfg.fixed s.lib s.f op).lib, (step io Cfg.fixed s.lib s.f op).f,
      s.log ++ (step io Cfg.fixed s.lib s.f op).calls⟩
    refine ⟨(step io Cfg.fixed s.lib s.f op).calls ++ suf, by simp [runOps, hs, List.append_assoc], ?_⟩
    simp only [runOps]
    exact track_append_of (step_track io s.lib s.f op) ht

theorem runOps_append (cfg : Cfg) (s : Hist σ) (a b : List Op) :
    runOps io cfg s (a ++ b) = runOps io cfg (runOps io cfg s a) b := by
  induction a generalizing s with
  | nil => rfl
  | cons op a ih => simp [runOps, ih]

/-! ### several objects: each object's own calls stay well bracketed -/

theorem proj_append (o : Nat) (a b : List (Nat × Call)) : proj o (a ++ b) = proj o a ++ proj o b := by
  simp [proj, List.filter_append]

theorem proj_tag_self (o : Nat) (cs : List Call) : proj o (cs.map (fun c => (o, c))) = cs := by
  induction cs with
  | nil => rfl
  | cons c cs ih => simp only [proj, List.map_cons, List.filter] at ih ⊢; simpa using ih

theorem proj_tag_ne (o o' : Nat) (h : o' ≠ o) (cs : List Call) : proj o (cs.map (fun c => (o', c))) = [] := by
  induction cs with
  | nil => rfl
  | cons c cs ih => simp only [proj, List.map_cons, List.filter] at ih ⊢; simp [h]

theorem held_apply_self (s : Multi σ) (o : Nat) (r : R σ Val) (keep : Bool) :
    (s.apply o r keep).held o = if keep then r.f else none := by
  cases keep <;> simp [Multi.apply, Multi.held]

theorem held_apply_ne (s : Multi σ) (o o' : Nat) (h : o ≠ o') (r : R σ Val) (keep : Bool) :
    (s.apply o' r keep).held o = s.held o := by
  cases keep <;> simp [Multi.apply, Multi.held, lookup_insert_ne _ _ _ _ h, lookup_erase_ne _ _ _ h]

theorem fileNew_fail_none (l : σ) (args : Option (Nat × Mode)) :
    (match (fileNew io Cfg.fixed l args).out with | .ok _ => True | _ => (fileNew io Cfg.fixed l args).f = none) := by
  cases args with
  | none => simp [fileNew]
  | some a =>
    obtain ⟨k, m⟩ := a
    rcases ho : io.fopen l k m with ⟨l2, r⟩
    cases r <;> simp [fileNew, fileOpen, ho]

theorem procNew_fail_none (l : σ) (args : Option (Nat × Mode)) :
    (match (procNew io Cfg.fixed l args).out with | .ok _ => True | _ => (procNew io Cfg.fixed l args).f = none) := by
  cases args with
  | none => simp [procNew]
  | some a =>
    obtain ⟨k, m⟩ := a
    rcases ho : io.fopen l k m with ⟨l2, r⟩
    cases r <;> simp [procNew, fileOpen, ho]

/-- what `stepR` produces continues object `o`'s own well-bracketed log and ends holding what the object holds -/
theorem stepR_track (s : Multi σ) (o : Nat) (m : MOp) (r : R σ Val) (keep : Bool)
    (h : s.stepR io Cfg.fixed o m = some (r, keep)) (hc : s.copiesOpen o m = false) :
    track (s.held o) r.calls = some (if keep then r.f else none) := by
  cases m with
  | new1 k =>
    simp only [Multi.stepR] at h
    cases hl : lookup o s.objs with
    | some f => simp [hl] at h
    | none =>
      simp only [hl, Option.some.injEq, Prod.mk.injEq] at h
      obtain ⟨hr, hk⟩ := h
      subst hr hk
      simp [Multi.held, hl, track]
  | copy src =>
    simp only [Multi.stepR] at h
    cases hl : lookup o s.objs with
    | some f => simp [hl] at h
    | none =>
      cases hs : lookup src s.objs with
      | none => simp [hl, hs] at h
      | some f =>
        simp only [hl, hs, Option.some.injEq, Prod.mk.injEq] at h
        obtain ⟨hr, hk⟩ := h
        subst hr hk
        simp only [Multi.copiesOpen, Multi.held, hs] at hc
        cases f with
        | some x => simp at hc
        | none => simp [Multi.held, hl, track]
  | assign src =>
    simp only [Multi.stepR] at h
    cases hl : lookup o s.objs with
    | none => simp [hl] at h
    | some g =>
      cases hs : lookup src s.objs with
      | none => simp [hl, hs] at h
      | some f =>
        simp only [hl, hs, Option.some.injEq, Prod.mk.injEq] at h
        obtain ⟨hr, hk⟩ := h
        subst hr hk
        simp only [Multi.copiesOpen, Multi.held, hs, hl, Bool.or_eq_false_iff] at hc
        cases f with
        | some x => simp at hc
        | none =>
          cases g with
          | some y => simp at hc
          | none => simp [Multi.held, hl, track]
  | new args =>
    simp only [Multi.stepR] at h
    cases hl : lookup o s.objs with
    | some f => simp [hl] at h
    | none =>
      simp only [hl, Option.some.injEq, Prod.mk.injEq] at h
      obtain ⟨hr, hk⟩ := h
      have ht := fileNew_track io s.lib args
      have hf := fileNew_fail_none io s.lib args
      subst hr
      simp only [Multi.held, hl, R.val] at *
      rw [ht]
      cases hout : (fileNew io Cfg.fixed s.lib args).out with
      | ok v => simp [hout, Out.map] at hk; subst hk; simp
      | raised e => simp [hout, Out.map] at hk hf; subst hk; simp [hf]
      | ub => simp [hout, Out.map] at hk hf; subst hk; simp [hf]
  | pnew args =>
    simp only [Multi.stepR] at h
    cases hl : lookup o s.objs with
    | some f => simp [hl] at h
    | none =>
      simp only [hl, Option.some.injEq, Prod.mk.injEq] at h
      obtain ⟨hr, hk⟩ := h
      have ht := procNew_track io s.lib args
      have hf := procNew_fail_none io s.lib args
      subst hr
      simp only [Multi.held, hl, R.val] at *
      rw [ht]
      cases hout : (procNew io Cfg.fixed s.lib args).out with
      | ok v => simp [hout, Out.map] at hk; subst hk; simp
      | raised e => simp [hout, Out.map] at hk hf; subst hk; simp [hf]
      | ub => simp [hout, Out.map] at hk hf; subst hk; simp [hf]
  | del =>
    simp only [Multi.stepR] at h
    cases hl : lookup o s.objs with
    | none => simp [hl] at h
    | some f =>
      simp only [hl, Option.some.injEq, Prod.mk.injEq] at h
      obtain ⟨hr, hk⟩ := h
      subst hr hk
      simp only [Multi.held, hl]
      rw [step_track]
      simp [step_closes io s.lib f .destruct rfl]
  | op op =>
    simp only [Multi.stepR] at h
    cases hl : lookup o s.objs with
    | none => simp [hl] at h
    | some f =>
      simp only [hl, Option.some.injEq, Prod.mk.injEq] at h
      obtain ⟨hr, hk⟩ := h
      subst hr hk
      simp only [Multi.held, hl]
      rw [step_track]; simp

theorem Multi.step_track (s : Multi σ) (o' : Nat) (m : MOp) (hc : s.copiesOpen o' m = false) (o : Nat) :
    ∃ suf, (s.step io Cfg.fixed o' m).log = s.log ++ suf ∧
      track (s.held o) (proj o suf) = some ((s.step io Cfg.fixed o' m).held o) := by
  simp only [Multi.step]
  cases hs : s.stepR io Cfg.fixed o' m with
  | none => exact ⟨[], by simp, by simp [proj]⟩
  | some p =>
    obtain ⟨r, keep⟩ := p
    refine ⟨r.calls.map (fun c => (o', c)), by simp [Multi.apply], ?_⟩
    by_cases ho : o' = o
    · subst ho
      rw [proj_tag_self, held_apply_self]
      exact stepR_track io s o' m r keep hs hc
    · rw [proj_tag_ne o o' ho, held_apply_ne s o o' (Ne.symm ho)]; rfl

theorem Multi.run_track (s : Multi σ) (steps : List (Nat × MOp)) (hc : s.cleanRun io Cfg.fixed steps = true) (o : Nat) :
    ∃ suf, (s.run io Cfg.fixed steps).log = s.log ++ suf ∧
      track (s.held o) (proj o suf) = some ((s.run io Cfg.fixed steps).held o) := by
  induction steps generalizing s with
  | nil => exact ⟨[], by simp [Multi.run], by simp [Multi.run, proj]⟩
  | cons st rest ih =>
    obtain ⟨o', m⟩ := st
    simp only [Multi.cleanRun, Bool.and_eq_true, Bool.not_eq_true'] at hc
    obtain ⟨suf1, hl1, ht1⟩ := Multi.step_track io s o' m hc.1 o
    obtain ⟨suf2, hl2, ht2⟩ := ih (s.step io Cfg.fixed o' m) hc.2
    refine ⟨suf1 ++ suf2, by simp [Multi.run, hl2, hl1, List.append_assoc], ?_⟩
    rw [proj_append]
    simp only [Multi.run]
    exact track_append_of ht1 ht2

end Cello.File
