/-
  Lemmas/SeqSrc.lean — engine `seq` (C04), extension round: the operations of Cello/SeqSrc.lean (store-level operations run with the
  arithmetic EXTRACTED from src/Array.c, src/List.c, src/Tuple.c) are the hand-written operations of Cello/SeqStore.lean; the byte
  expressions of the source are the cell expressions times the stride; layout facts for every element size.
-/
import Cello.SeqSrc
import Mathlib.Tactic.SplitIfs
import Mathlib.Tactic.Ring
set_option linter.unusedSimpArgs false
set_option linter.unusedTactic false
set_option linter.unreachableTactic false
set_option linter.unnecessarySeqFocus false
set_option linter.unusedVariables false

namespace Cello.Seq.Src
open CelloGen.SeqSrc
variable {α : Type}

/-- the rule of every indexed function but `Array_Push_At`: normalise against the length, refuse `< 0` and `≥ n` -/
def stdPick (n : Nat) (i : Int) : Option Nat := if normIdx n i < 0 ∨ normIdx n i ≥ (n : Int) then none else some (normIdx n i).toNat
/-- `Array_Push_At`: normalise against the length + 1, refuse `< 0` and `> n` -/
def insPick (n : Nat) (i : Int) : Option Nat := if pushIdx n i < 0 ∨ pushIdx n i > (n : Int) then none else some (pushIdx n i).toNat

macro "rule_norm" r:ident : tactic =>
  `(tactic| (unfold applyRule $r stdPick normIdx; simp only [evalE, holds, cellEnv, Env.get, anyHolds, List.any, Bool.or_false, Bool.or_eq_true, decide_eq_true_eq, Nat.cast_zero, ge_iff_le]; try (split_ifs <;> first | rfl | omega | (exfalso; omega))))

theorem arrayGet_norm (n : Nat) (i : Int) : applyRule arrayGet n i = stdPick n i := by rule_norm arrayGet
theorem arraySet_norm (n : Nat) (i : Int) : applyRule arraySet n i = stdPick n i := by rule_norm arraySet
theorem arrayPopAt_norm (n : Nat) (i : Int) : applyRule arrayPopAt n i = stdPick n i := by rule_norm arrayPopAt
theorem listAt_norm (n : Nat) (i : Int) : applyRule listAt n i = stdPick n i := by rule_norm listAt
theorem tupleGet_norm (n : Nat) (i : Int) : applyRule tupleGet n i = stdPick n i := by rule_norm tupleGet
theorem tupleSet_norm (n : Nat) (i : Int) : applyRule tupleSet n i = stdPick n i := by rule_norm tupleSet
theorem tuplePushAt_norm (n : Nat) (i : Int) : applyRule tuplePushAt n i = stdPick n i := by rule_norm tuplePushAt
theorem tuplePopAt_norm (n : Nat) (i : Int) : applyRule tuplePopAt n i = stdPick n i := by rule_norm tuplePopAt

theorem arrayPushAt_norm (n : Nat) (i : Int) : applyRule arrayPushAt n i = insPick n i := by
  unfold applyRule arrayPushAt insPick pushIdx
  simp only [evalE, holds, cellEnv, Env.get, anyHolds, List.any, Bool.or_false, Bool.or_eq_true, decide_eq_true_eq, Nat.cast_zero, Nat.cast_one, ge_iff_le, gt_iff_lt]
  try (split_ifs <;> first | rfl | omega | (exfalso; omega))

theorem stdPick_spec (n : Nat) (i : Int) : stdPick n i = Spec.idx n i := by
  unfold stdPick Spec.idx normIdx
  split_ifs <;> first | rfl | omega | (congr 1; omega) | (exfalso; omega)

theorem insPick_spec (n : Nat) (i : Int) : insPick n i = Spec.arrInsIdx n i := by
  unfold insPick Spec.arrInsIdx pushIdx
  split_ifs <;> first | rfl | omega | (congr 1; omega) | (exfalso; omega)

/-! ### capacity policy -/

theorem policy_more (n s : Nat) : reserveSrc CelloGen.SeqSrc.reserveMore n s = Cello.Seq.reserveMore n s := by
  unfold reserveSrc policyFires policyCells policySlots Cello.Seq.reserveMore CelloGen.SeqSrc.reserveMore
  simp [evalE, holds, cellEnv, Env.get]
  split_ifs <;> omega

theorem policy_less (n s : Nat) : reserveSrc CelloGen.SeqSrc.reserveLess n s = Cello.Seq.reserveLess n s := by
  unfold reserveSrc policyFires policyCells policySlots Cello.Seq.reserveLess CelloGen.SeqSrc.reserveLess
  simp [evalE, holds, cellEnv, Env.get]
  split_ifs <;> omega

theorem reserveMoreSrc_eq (s : ArrS α) : s.reserveMoreSrc = s.reserveMore := by
  unfold ArrS.reserveMoreSrc ArrS.reserveMore policyFires policyCells policySlots CelloGen.SeqSrc.reserveMore
  simp [evalE, holds, cellEnv, Env.get]
  split_ifs
  · congr 1; omega
  · rfl

theorem reserveLessSrc_eq (s : ArrS α) : s.reserveLessSrc = s.reserveLess := by
  unfold ArrS.reserveLessSrc ArrS.reserveLess policyFires policyCells policySlots CelloGen.SeqSrc.reserveLess
  simp [evalE, holds, cellEnv, Env.get]
  split_ifs <;> first | rfl | (congr 1; omega) | (exfalso; omega)

theorem reserveMore_nitems (s : ArrS α) : s.reserveMore.nitems = s.nitems := by
  unfold ArrS.reserveMore ArrS.realloc; split_ifs <;> rfl

/-! ### Array operations -/

theorem getSrc_eq (s : ArrS α) (i : Int) : s.getSrc i = s.get i := by
  unfold ArrS.getSrc ArrS.get
  rw [arrayGet_norm]; unfold stdPick
  by_cases hc : (normIdx s.nitems i < 0 ∨ normIdx s.nitems i ≥ (s.nitems : Int)) <;> simp [hc] <;> try rfl

theorem setSrc_eq (s : ArrS α) (i : Int) (x : α) : s.setSrc i x = s.set i x := by
  unfold ArrS.setSrc ArrS.set
  rw [arraySet_norm]; unfold stdPick
  by_cases hc : (normIdx s.nitems i < 0 ∨ normIdx s.nitems i ≥ (s.nitems : Int)) <;> simp [hc] <;> try rfl

theorem pushSrc_eq (s : ArrS α) (x : α) : s.pushSrc x = s.push x := by
  unfold ArrS.pushSrc ArrS.push
  have hs : ∀ n : Nat, slotOf arrayPushSlot n = n - 1 := by
    intro n; unfold slotOf arrayPushSlot; simp [evalE, cellEnv, Env.get] <;> omega
  simp only [reserveMoreSrc_eq, hs]
  rfl

theorem popSrc_eq (s : ArrS α) : s.popSrc = s.pop := by
  unfold ArrS.popSrc ArrS.pop
  have hs : ∀ n : Nat, slotOf arrayPopSlot n = n - 1 := by
    intro n; unfold slotOf arrayPopSlot; simp [evalE, cellEnv, Env.get] <;> omega
  have he : anyHolds (cellEnv s.nitems s.cells.size 0) arrayPopEmpty = decide (s.nitems = 0) := by
    unfold anyHolds arrayPopEmpty; simp [evalE, holds, cellEnv, Env.get]
  simp only [reserveLessSrc_eq, hs, he, decide_eq_true_eq]
  rfl

theorem pushAtSrc_eq (s : ArrS α) (x : α) (i : Int) : s.pushAtSrc x i = s.pushAt x i := by
  unfold ArrS.pushAtSrc ArrS.pushAt
  rw [arrayPushAt_norm]; unfold insPick
  by_cases hc : (pushIdx s.nitems i < 0 ∨ pushIdx s.nitems i > (s.nitems : Int))
  · simp [hc]
  · have hm : moveArgs arrayPushAtMove (s.nitems + 1) (pushIdx s.nitems i).toNat
        = ((pushIdx s.nitems i).toNat + 1, (pushIdx s.nitems i).toNat, (s.nitems + 1 - 1) - (pushIdx s.nitems i).toNat) := by
      unfold moveArgs arrayPushAtMove
      simp [evalE, cellEnv, Env.get]
      omega
    have hn : (({ s with nitems := s.nitems + 1 } : ArrS α).reserveMore).nitems = s.nitems + 1 := reserveMore_nitems _
    simp only [hc, if_false, reserveMoreSrc_eq, hn, hm]
    rfl

theorem popAtSrc_eq (s : ArrS α) (i : Int) : s.popAtSrc i = s.popAt i := by
  unfold ArrS.popAtSrc ArrS.popAt
  rw [arrayPopAt_norm]; unfold stdPick
  by_cases hc : (normIdx s.nitems i < 0 ∨ normIdx s.nitems i ≥ (s.nitems : Int))
  · simp [hc]
  · have hm : moveArgs arrayPopAtMove s.nitems (normIdx s.nitems i).toNat
        = ((normIdx s.nitems i).toNat, (normIdx s.nitems i).toNat + 1, (s.nitems - 1) - (normIdx s.nitems i).toNat) := by
      unfold moveArgs arrayPopAtMove
      simp [evalE, cellEnv, Env.get]
      omega
    have hf : @ArrS.reserveLessSrc α = @ArrS.reserveLess α := funext reserveLessSrc_eq
    simp only [hc, if_false, hm]
    rw [hf]
    rfl

/-! ### List_At -/

theorem nodeAtSrc_eq (s : LstS α) (i : Int) : s.nodeAtSrc i = s.nodeAt i := by
  unfold LstS.nodeAtSrc LstS.nodeAt
  rw [listAt_norm]; unfold stdPick
  by_cases hc : (normIdx s.nitems i < 0 ∨ normIdx s.nitems i ≥ (s.nitems : Int))
  · simp [hc]
  · have hh : anyHolds (cellEnv s.nitems s.nitems (normIdx s.nitems i).toNat) listAtFromHead = decide ((normIdx s.nitems i).toNat ≤ s.nitems / 2) := by
      unfold anyHolds listAtFromHead; simp [evalE, holds, cellEnv, Env.get]; omega
    have hb : (evalE (cellEnv s.nitems s.nitems (normIdx s.nitems i).toNat) listAtBackSteps).toNat = s.nitems - (normIdx s.nitems i).toNat - 1 := by
      unfold listAtBackSteps; simp [evalE, cellEnv, Env.get]; omega
    simp only [hc, if_false, hh, hb, decide_eq_true_eq]
    rfl

/-! ### Tuple operations -/

theorem wrFrom_two (x : TupS α) (n : Nat) (c d : TCell α) :
    x.wrFrom n [c, d] = (x.wr n c).bind (fun s1 => s1.wr (n + 1) d) := by
  simp only [TupS.wrFrom]
  cases x.wr n c with
  | none => rfl
  | some s1 => simp only [Option.bind]; cases s1.wr (n + 1) d <;> rfl

theorem pushCellSrc_eq (s : TupS α) (c : TCell α) : s.pushCellSrc c = s.pushCell c := by
  unfold TupS.pushCellSrc TupS.pushCell
  have h1 : ∀ n : Nat, slotOf tuplePushCells n = n + 2 := by
    intro n; unfold slotOf tuplePushCells; simp [evalE, cellEnv, Env.get] <;> omega
  have h2 : ∀ n : Nat, slotOf tuplePushObjCell n = n := by
    intro n; unfold slotOf tuplePushObjCell; simp [evalE, cellEnv, Env.get]
  have h3 : ∀ n : Nat, slotOf tuplePushTermCell n = n + 1 := by
    intro n; unfold slotOf tuplePushTermCell; simp [evalE, cellEnv, Env.get] <;> omega
  simp only [h1, h2, h3, wrFrom_two]
  rfl

theorem pushAtCellSrc_eq (s : TupS α) (c : TCell α) (i : Int) : s.pushAtCellSrc c i = s.pushAtCell c i := by
  unfold TupS.pushAtCellSrc TupS.pushAtCell
  cases hl : s.len with
  | none => rfl
  | some n =>
    dsimp only
    rw [tuplePushAt_norm]; unfold stdPick
    by_cases hc : (normIdx n i < 0 ∨ normIdx n i ≥ (n : Int))
    · simp [hc]
    · have hm : moveArgs tuplePushAtMove n (normIdx n i).toNat
          = ((normIdx n i).toNat + 1, (normIdx n i).toNat, n - (normIdx n i).toNat + 1) := by
        unfold moveArgs tuplePushAtMove
        simp [evalE, cellEnv, Env.get]
        omega
      have h1 : slotOf tuplePushAtCells n = n + 2 := by
        unfold slotOf tuplePushAtCells; simp [evalE, cellEnv, Env.get] <;> omega
      simp only [hc, if_false, hm, h1]
      rfl

theorem tupPopAtSrc_eq (s : TupS α) (i : Int) : s.popAtSrc i = s.popAt i := by
  unfold TupS.popAtSrc TupS.popAt
  cases hl : s.len with
  | none => rfl
  | some n =>
    dsimp only
    rw [tuplePopAt_norm]; unfold stdPick
    by_cases hc : (normIdx n i < 0 ∨ normIdx n i ≥ (n : Int))
    · simp [hc]
    · have hm : moveArgs tuplePopAtMove n (normIdx n i).toNat
          = ((normIdx n i).toNat, (normIdx n i).toNat + 1, n - (normIdx n i).toNat) := by
        unfold moveArgs tuplePopAtMove
        simp [evalE, cellEnv, Env.get]
        omega
      have h1 : slotOf tuplePopAtCells n = n := by
        unfold slotOf tuplePopAtCells; simp [evalE, cellEnv, Env.get]
      simp only [hc, if_false, hm, h1]
      rfl

theorem getCellSrc_eq (s : TupS α) (i : Int) : s.getCellSrc i = s.getCell i := by
  unfold TupS.getCellSrc TupS.getCell
  cases hl : s.len with
  | none => rfl
  | some n =>
    dsimp only
    rw [tupleGet_norm]; unfold stdPick
    by_cases hc : (normIdx n i < 0 ∨ normIdx n i ≥ (n : Int)) <;> simp [hc] <;> try rfl

theorem setCellSrc_eq (s : TupS α) (i : Int) (c : TCell α) : s.setCellSrc i c = s.setCell i c := by
  unfold TupS.setCellSrc TupS.setCell
  cases hl : s.len with
  | none => rfl
  | some n =>
    dsimp only
    rw [tupleSet_norm]; unfold stdPick
    by_cases hc : (normIdx n i < 0 ∨ normIdx n i ≥ (n : Int)) <;> simp [hc] <;> try rfl

/-! ### byte level: layout of records and nodes, byte arguments of the memmoves -/

theorem roundSize_spec (raw ptr : Nat) (hp : 0 < ptr) :
    (raw : Int) ≤ roundSize raw ptr ∧ roundSize raw ptr < raw + ptr ∧ roundSize raw ptr % ptr = 0 := by
  unfold roundSize arraySizeRound
  simp only [evalE, Env.get, Nat.cast_one]
  have hp' : (0 : Int) < ptr := by omega
  have h1 := Int.ediv_mul_le ((raw : Int) + ptr - 1) (Int.ne_of_gt hp')
  have h2 := Int.lt_ediv_add_one_mul_self ((raw : Int) + ptr - 1) hp'
  have h3 : (((raw : Int) + ptr - 1) / ptr + 1) * ptr = ((raw : Int) + ptr - 1) / ptr * ptr + ptr := by ring
  refine ⟨by omega, by omega, Int.mul_emod_left _ _⟩

theorem arrLayout_spec (raw hdr ptr n slots : Nat) :
    let L := arrLayout raw hdr ptr n slots
    L.tsize = roundSize raw ptr ∧ L.step = L.tsize + hdr ∧ L.recFrom = L.step * n ∧ L.recLen = L.step ∧ L.head = L.recFrom ∧
    L.item = L.recFrom + hdr ∧ L.item + L.tsize = L.recFrom + L.recLen ∧ L.bytes = slots * L.step := by
  simp only [arrLayout, byteEnv, arrayStep, arrayItem, arrayAllocDst, arrayAllocLen, arrayAllocHead, arrayNewBytes, evalE, Env.get]
  refine ⟨?_, ?_, ?_, ?_, ?_, ?_, ?_, ?_⟩ <;> first | trivial | rfl | ring | (push_cast; ring)

theorem pushAtMove_bytes (st : Int) (n k : Nat) (h : k + 1 ≤ n) :
    let ρ : Env := { nitems := n, i := k, step := st }
    evalE ρ arrayPushAtMove.dst = st * (moveArgs arrayPushAtMove n k).1 ∧
    evalE ρ arrayPushAtMove.src = st * (moveArgs arrayPushAtMove n k).2.1 ∧
    evalE ρ arrayPushAtMove.cnt = st * (moveArgs arrayPushAtMove n k).2.2 := by
  simp only [arrayPushAtMove, moveArgs, cellEnv, evalE, Env.get]
  refine ⟨?_, ?_, ?_⟩ <;> congr 1 <;> omega

theorem popAtMove_bytes (st : Int) (n k : Nat) (h : k + 1 ≤ n) :
    let ρ : Env := { nitems := n, i := k, step := st }
    evalE ρ arrayPopAtMove.dst = st * (moveArgs arrayPopAtMove n k).1 ∧
    evalE ρ arrayPopAtMove.src = st * (moveArgs arrayPopAtMove n k).2.1 ∧
    evalE ρ arrayPopAtMove.cnt = st * (moveArgs arrayPopAtMove n k).2.2 := by
  simp only [arrayPopAtMove, moveArgs, cellEnv, evalE, Env.get]
  refine ⟨?_, ?_, ?_⟩ <;> congr 1 <;> omega

theorem nodeLayout_spec (tsize hdr ptr : Nat) :
    let N := nodeLayout tsize hdr ptr
    N.prev = 0 ∧ N.next = ptr ∧ N.header = 2 * ptr ∧ N.elem = N.header + hdr ∧ N.bytes = N.elem + tsize ∧ N.freed = 0 := by
  simp only [nodeLayout, listNodeBytes, listHeaderAt, listNextBack, listPrevBack, listFreeBack, evalE, Env.get]
  refine ⟨?_, ?_, ?_, ?_, ?_, ?_⟩ <;> first | trivial | rfl | ring | (push_cast; ring)

end Cello.Seq.Src
