/-
  CelloProofs/Lemmas/ExnSignal.lean — helper lemmas for the signal layer of Cello/ExnSignal.lean: a history of constructs
  that raise pairwise different, unblocked signals runs exactly as the history of the corresponding `throw` constructs on
  the machine of Cello/Exn.lean (`runS_eq_runSeq`); with a handler that re-opens the mask (`unblocks = true`) the same
  holds for every history (`runS_unblocking_eq_runSeq`).
-/
import Cello.ExnSignal

namespace Cello.Exn

theorem runS_eq_runSeq (M : Prog → Nat → St → St × List Ev × Sig) (x : Nat) :
    ∀ (ops : List SOp) (s : SigSt), (ops.map (fun o => sigIdx o.sig)).Nodup →
      (∀ o ∈ ops, sigIdx o.sig ∉ s.blocked) →
      ((runS false M ops x s).1.st, (runS false M ops x s).2) = runSeq M (ops.map SOp.delivered) x s.st := by
  intro ops
  induction ops with
  | nil => intro s _ _; simp [runS, runSeq]
  | cons o os ih =>
    intro s hnd hbl
    have ho : sigIdx o.sig ∉ s.blocked := hbl o (by simp)
    simp only [List.map_cons, List.nodup_cons] at hnd
    obtain ⟨hnot, hnd'⟩ := hnd
    simp only [runS, stepS, if_neg ho, List.map_cons, runSeq]
    rcases hM : M o.delivered x s.st with ⟨s1, t1, g1⟩
    cases g1 with
    | normal =>
      have hbl' : ∀ o' ∈ os, sigIdx o'.sig ∉ (sigIdx o.sig :: s.blocked) := by
        intro o' ho' hmem
        rcases List.mem_cons.mp hmem with h | h
        · exact hnot (List.mem_map.mpr ⟨o', ho', h⟩)
        · exact hbl o' (by simp [ho']) h
      have := ih ⟨s1, sigIdx o.sig :: s.blocked⟩ hnd' hbl'
      simp only at this
      rcases hR : runS false M os x ⟨s1, sigIdx o.sig :: s.blocked⟩ with ⟨s2, t2, g2⟩
      rw [hR] at this; simp only at this
      simp [← this, hR]
    | _ => simp

theorem runS_unblocking_eq_runSeq (M : Prog → Nat → St → St × List Ev × Sig) (x : Nat) :
    ∀ (ops : List SOp) (s : SigSt), s.blocked = [] →
      ((runS true M ops x s).1.st, (runS true M ops x s).2) = runSeq M (ops.map SOp.delivered) x s.st ∧
      (runS true M ops x s).1.blocked = [] := by
  intro ops
  induction ops with
  | nil => intro s hb; simp [runS, runSeq, hb]
  | cons o os ih =>
    intro s hb
    have ho : sigIdx o.sig ∉ s.blocked := by simp [hb]
    simp only [runS, stepS, if_neg ho, List.map_cons, runSeq, if_true]
    rcases hM : M o.delivered x s.st with ⟨s1, t1, g1⟩
    cases g1 with
    | normal =>
      have := ih ⟨s1, s.blocked⟩ hb
      simp only at this
      rcases hR : runS true M os x ⟨s1, s.blocked⟩ with ⟨s2, t2, g2⟩
      rw [hR] at this; simp only at this
      obtain ⟨h1, h2⟩ := this
      simp [← h1, hR, h2]
    | _ => simp [hb]

/-- a blocked signal is not delivered: the construct runs as the one without the `raise` -/
theorem stepS_blocked (u : Bool) (M : Prog → Nat → St → St × List Ev × Sig) (x : Nat) (s : SigSt) (o : SOp)
    (h : sigIdx o.sig ∈ s.blocked) :
    ((stepS u M x s o).1.st, (stepS u M x s o).2) = M o.skipped x s.st ∧ (stepS u M x s o).1.blocked = s.blocked := by
  simp only [stepS, if_pos h]
  rcases M o.skipped x s.st with ⟨s1, t1, g1⟩
  simp

end Cello.Exn
