/-
  Helper lemmas for C08, liveness: a thread that is scheduled often enough completes its whole program of lookups,
  whatever the other threads do in between.
-/
import CelloProofs.Lemmas.DispConc

namespace Cello.Dispatch

/-- own steps a thread still needs at most (record with `n` triples) -/
def thMeasure (n : Nat) (th : Thread) : Nat :=
  (match th.pc with
   | none => 0
   | some pc => pcMeasure n pc + 1) + th.todo.length * (2 * n + 10)

theorem finished_of_measure_zero {n : Nat} {th : Thread} (h : thMeasure n th = 0) : th.finished = true := by
  unfold thMeasure at h
  cases hpc : th.pc with
  | some pc => simp [hpc] at h
  | none =>
    cases htd : th.todo with
    | nil => simp [Thread.finished, hpc, htd]
    | cons p rest =>
      simp only [hpc, htd, List.length_cons] at h
      have : (rest.length + 1) * (2 * n + 10) ≥ 1 * (2 * n + 10) := Nat.mul_le_mul_right _ (by omega)
      omega

theorem skel_length {es es' : List Entry} (h : es'.map Entry.skel = es.map Entry.skel) : es'.length = es.length := by
  have := congrArg List.length h
  simpa using this

/-- one step of a thread that is in order: a finished thread stays as it is, any other thread gets strictly closer to the end -/
theorem threadStep_progress {D : String → Option Inst} {slots : List (Nat × Cls)} {t : TypeRec} (th : Thread)
    (ht : ThreadOK D slots t.entries th) :
    (th.finished = true → (threadStep slots t th).2 = th ∧ (threadStep slots t th).1 = t) ∧
    (th.finished = false →
      thMeasure t.entries.length (threadStep slots t th).2 < thMeasure t.entries.length th) := by
  obtain ⟨pc0, todo, log⟩ := th
  cases pc0 with
  | none =>
    cases todo with
    | nil => simp [Thread.finished, threadStep]
    | cons p rest =>
      obtain ⟨uc, cls⟩ := p
      refine ⟨by simp [Thread.finished], ?_⟩
      intro _
      simp only [threadStep, thMeasure, pcMeasure, List.length_cons]
      have : (rest.length + 1) * (2 * t.entries.length + 10) = rest.length * (2 * t.entries.length + 10) + (2 * t.entries.length + 10) := by
        rw [Nat.add_mul]; simp
      omega
  | some pc =>
    refine ⟨by simp [Thread.finished], ?_⟩
    intro _
    have hp : PCOK D slots t.entries pc := ht.1 pc rfl
    have key : ∀ (hnd : ∀ c v, pc ≠ .done c v),
        thMeasure t.entries.length { pc := some (step slots t pc).2, todo := todo, log := log } <
        thMeasure t.entries.length { pc := some pc, todo := todo, log := log } := by
      intro hnd
      have hns : pc ≠ .stuck := by intro e; subst e; exact hp
      have sm := step_measure slots t pc hnd hns
      simp only [thMeasure]
      omega
    cases pc with
    | done cls v => simp [threadStep, thMeasure]
    | start uc cls => exact key (by intro c v; simp)
    | hdrRead cls ret => exact key (by intro c v; simp)
    | hdrWrite cls ret => exact key (by intro c v; simp)
    | scanP cls pos ret => exact key (by intro c v; simp)
    | scanN cls pos ret => exact key (by intro c v; simp)
    | memoWrite cls pos ret => exact key (by intro c v; simp)
    | cacheWrite cls i v => exact key (by intro c v'; simp)
    | stuck => exact absurd hp (by simp [PCOK])

/-- **a thread scheduled at least `thMeasure` times is finished at the end of the schedule** -/
theorem sched_progress {D : String → Option Inst} {slots : List (Nat × Cls)} {n m : Nat} (hs : SlotsOK slots n) :
    ∀ (sched : List Nat) (s : Sys), SysOK D slots n s → s.shared.entries.length = m →
      ∀ (tid : Nat) (th : Thread), s.threads[tid]? = some th → thMeasure m th ≤ sched.count tid →
        ∃ th', (runSched slots s sched).threads[tid]? = some th' ∧ th'.finished = true
  | [], s, _, _, tid, th, hth, hm => by
    simp only [List.count_nil, Nat.le_zero] at hm
    exact ⟨th, hth, finished_of_measure_zero hm⟩
  | x :: sched, s, h, hlen, tid, th, hth, hm => by
    have sp := sysStep_spec hs h x
    have hlen' : (sysStep slots s x).shared.entries.length = m := by rw [skel_length sp.2.1]; exact hlen
    simp only [runSched]
    by_cases hx : x = tid
    · subst hx
      have hmem : th ∈ s.threads := List.mem_of_getElem? hth
      have pr := threadStep_progress (slots := slots) (t := s.shared) th (h.2 th hmem)
      have hlt : x < s.threads.length := by
        rcases Nat.lt_or_ge x s.threads.length with h' | h'
        · exact h'
        · simp [List.getElem?_eq_none h'] at hth
      have hth' : (sysStep slots s x).threads[x]? = some (threadStep slots s.shared th).2 := by
        unfold sysStep
        rw [hth]
        simp [hlt]
      have hcount : (x :: sched).count x = sched.count x + 1 := by simp
      by_cases hf : th.finished = true
      · have hsame := (pr.1 hf).1
        rw [hsame] at hth'
        have hz : thMeasure m th = 0 := by
          obtain ⟨pc0, todo, log⟩ := th
          simp only [Thread.finished, Bool.and_eq_true, Option.isNone_iff_eq_none, List.isEmpty_iff] at hf
          obtain ⟨h1, h2⟩ := hf
          subst h1 h2
          simp [thMeasure]
        exact sched_progress hs sched _ sp.1 hlen' x th hth' (by omega)
      · have hlt2 := pr.2 (by simpa using hf)
        rw [hlen] at hlt2
        exact sched_progress hs sched _ sp.1 hlen' x _ hth' (by omega)
    · have hth' : (sysStep slots s x).threads[tid]? = some th := by
        unfold sysStep
        cases hxx : s.threads[x]? with
        | none => simpa using hth
        | some thx =>
          simp only
          rw [List.getElem?_set_ne hx]; exact hth
      have hcount : (x :: sched).count tid = sched.count tid := by
        simp [hx]
      exact sched_progress hs sched _ sp.1 hlen' tid th hth' (by omega)

end Cello.Dispatch
