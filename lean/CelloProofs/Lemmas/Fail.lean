import Cello.Fail
/-
  Helper lemmas for C12 (engine `fail`): the int64_t / size_t index arithmetic, the element search, the declarative
  specification of "invalid argument" (`…Exc` functions) that the property theorems compare the model with.
-/
namespace Cello.Fail

/-! ### well-formedness -/

/-- an `Int` payload fits `int64_t` -/
def Val.inRange : Val → Prop
  | .int i => -(2 ^ 63 : Int) ≤ i ∧ i < (2 ^ 63 : Int)
  | _ => True

/-- an element stored in a typed container: of the container's type, and not the NULL-buffer String that only known
    finding F15 produces -/
def Val.elemOf (ty : Ty) (v : Val) : Prop := v.ty? = some ty ∧ v ≠ .nullstr

def Ty.isElemTy : Ty → Prop
  | .ref => False
  | _ => True

/-! ### index arithmetic on `BitVec 64` -/

theorem z64 : (0 : BitVec 64).toInt = 0 := by decide

theorem bmod64 (x : Int) : x.bmod (2 ^ 64) =
    if x % 18446744073709551616 < 9223372036854775808 then x % 18446744073709551616
    else x % 18446744073709551616 - 18446744073709551616 := by
  have h : ((2 ^ 64 : Nat) : Int) = 18446744073709551616 := by decide
  unfold Int.bmod
  rw [h]
  rfl

theorem toInt_ofNat_small (n : Nat) (h : n < 2 ^ 63) : (BitVec.ofNat 64 n).toInt = n := by
  rw [BitVec.toInt_ofNat', bmod64]
  omega

theorem toInt_ofInt_small (i : Int) (h1 : -(2 ^ 63 : Int) ≤ i) (h2 : i < (2 ^ 63 : Int)) : (BitVec.ofInt 64 i).toInt = i := by
  rw [BitVec.toInt_ofInt, bmod64]
  omega

theorem toInt_bounds (k : BitVec 64) : -(2 ^ 63 : Int) ≤ k.toInt ∧ k.toInt < (2 ^ 63 : Int) := by
  have h1 := BitVec.toInt_lt (x := k)
  have h2 := BitVec.le_toInt (x := k)
  omega

/-- `(nitems + i)` computed modulo 2^64 and read back as `int64_t` -/
theorem toInt_add_ofNat (n : Nat) (hn : n < 2 ^ 63) (k : BitVec 64) (hk : k.toInt < 0) :
    (BitVec.ofNat 64 n + k).toInt = (n : Int) + k.toInt := by
  have hb := toInt_bounds k
  rw [BitVec.toInt_add, toInt_ofNat_small n hn, bmod64]
  omega

/-- `i = i < 0 ? nitems + i : i; if (i < 0 or i >= (int64_t)nitems)` accepts exactly `-nitems ≤ i < nitems` — for **every**
    64-bit `i`, including `INT64_MIN` and `INT64_MAX`, as long as `nitems < 2^63`. -/
theorem inBounds_normIdx (n : Nat) (hn : n < 2 ^ 63) (k : BitVec 64) :
    inBounds n (normIdx n k) = true ↔ (-(n : Int) ≤ k.toInt ∧ k.toInt < n) := by
  have hb := toInt_bounds k
  simp only [inBounds, normIdx, BitVec.slt_eq_decide, z64]
  by_cases h : k.toInt < 0
  · simp only [h, decide_true, if_true, toInt_add_ofNat n hn k h, toInt_ofNat_small n hn]
    simp only [Bool.and_eq_true, Bool.not_eq_true', decide_eq_false_iff_not, decide_eq_true_eq]
    omega
  · simp only [h, decide_false, toInt_ofNat_small n hn]
    simp only [Bool.and_eq_true, Bool.not_eq_true', decide_eq_false_iff_not, decide_eq_true_eq, Bool.false_eq_true, if_false]
    omega

/-- the slot an accepted index addresses -/
def idxOf (n : Nat) (i : Int) : Nat := (if i < 0 then (n : Int) + i else i).toNat

theorem toNat_of_toInt_nonneg (x : BitVec 64) (h : 0 ≤ x.toInt) : (x.toNat : Int) = x.toInt := by
  have hlt := x.isLt
  rw [BitVec.toInt_eq_toNat_cond] at h ⊢
  have h64 : ((2 ^ 64 : Nat) : Int) = 18446744073709551616 := by decide
  split at h <;> split <;> omega

theorem normIdx_toNat (n : Nat) (hn : n < 2 ^ 63) (k : BitVec 64)
    (h : -(n : Int) ≤ k.toInt ∧ k.toInt < n) : (normIdx n k).toNat = idxOf n k.toInt := by
  unfold normIdx idxOf
  simp only [BitVec.slt_eq_decide, z64]
  by_cases h0 : k.toInt < 0
  · simp only [h0, decide_true, if_true]
    have h1 := toInt_add_ofNat n hn k h0
    have h2 := toNat_of_toInt_nonneg (BitVec.ofNat 64 n + k) (by omega)
    omega
  · simp only [h0, decide_false, Bool.false_eq_true, if_false]
    have h2 := toNat_of_toInt_nonneg k (by omega)
    omega

theorem idxOf_lt (n : Nat) (i : Int) (h : -(n : Int) ≤ i ∧ i < n) : idxOf n i < n := by
  unfold idxOf; split <;> omega

/-- `resolveB` in closed form -/
theorem resolveB_eq (n : Nat) (hn : n < 2 ^ 63) (k : BitVec 64) :
    resolveB n k = if -(n : Int) ≤ k.toInt ∧ k.toInt < n then .ok (idxOf n k.toInt) else .raised .IndexOutOfBoundsError := by
  unfold resolveB
  by_cases h : -(n : Int) ≤ k.toInt ∧ k.toInt < n
  · have hb := (inBounds_normIdx n hn k).mpr h
    simp only [hb, if_true, h, and_self, normIdx_toNat n hn k h]
  · have hb : inBounds n (normIdx n k) = false := by
      cases hx : inBounds n (normIdx n k) with
      | false => rfl
      | true => exact absurd ((inBounds_normIdx n hn k).mp hx) h
    simp only [hb, h, if_false, Bool.false_eq_true]

/-- `Array_Push_At`: `i = i < 0 ? (nitems+1)+i : i; if (i < 0 or i > (int64_t)nitems)` accepts exactly `-(nitems+1) ≤ i ≤ nitems` -/
theorem inBoundsIncl_normIdxPush (n : Nat) (hn : n + 1 < 2 ^ 63) (k : BitVec 64) :
    inBoundsIncl n (normIdxPush n k) = true ↔ (-((n : Int) + 1) ≤ k.toInt ∧ k.toInt ≤ n) := by
  have hb := toInt_bounds k
  have h1 : (BitVec.ofNat 64 n + 1 : BitVec 64) = BitVec.ofNat 64 (n + 1) := by
    apply BitVec.eq_of_toNat_eq; simp [BitVec.toNat_add, BitVec.toNat_ofNat]
  simp only [inBoundsIncl, normIdxPush, BitVec.slt_eq_decide, z64, h1]
  by_cases h : k.toInt < 0
  · simp only [h, decide_true, if_true, toInt_add_ofNat (n + 1) hn k h, toInt_ofNat_small n (by omega)]
    simp only [Bool.and_eq_true, Bool.not_eq_true', decide_eq_false_iff_not]
    omega
  · simp only [h, decide_false, toInt_ofNat_small n (by omega)]
    simp only [Bool.and_eq_true, Bool.not_eq_true', decide_eq_false_iff_not, Bool.false_eq_true, if_false]
    omega

theorem normIdxPush_toNat (n : Nat) (hn : n + 1 < 2 ^ 63) (k : BitVec 64)
    (h : -((n : Int) + 1) ≤ k.toInt ∧ k.toInt ≤ n) : (normIdxPush n k).toNat = idxOf (n + 1) k.toInt := by
  have h1 : (BitVec.ofNat 64 n + 1 : BitVec 64) = BitVec.ofNat 64 (n + 1) := by
    apply BitVec.eq_of_toNat_eq; simp [BitVec.toNat_add, BitVec.toNat_ofNat]
  unfold normIdxPush idxOf
  simp only [BitVec.slt_eq_decide, z64, h1]
  by_cases h0 : k.toInt < 0
  · simp only [h0, decide_true, if_true]
    have h1 := toInt_add_ofNat (n + 1) hn k h0
    have h2 := toNat_of_toInt_nonneg (BitVec.ofNat 64 (n + 1) + k) (by omega)
    omega
  · simp only [h0, decide_false, Bool.false_eq_true, if_false]
    have h2 := toNat_of_toInt_nonneg k (by omega)
    omega

/-! ### specification of invalid arguments -/

/-- an index argument: NULL → ValueError, not an `Int` → ClassError, outside `[-n, n)` → IndexOutOfBoundsError -/
def idxExc (n : Nat) (k : Val) : Option Exc :=
  match k with
  | .int i => if -(n : Int) ≤ i ∧ i < n then none else some .IndexOutOfBoundsError
  | .null => some .ValueError
  | _ => some .ClassError

/-- an insertion position of `Array_Push_At`: `[-(n+1), n]` -/
def pushIdxExc (n : Nat) (k : Val) : Option Exc :=
  match k with
  | .int i => if -((n : Int) + 1) ≤ i ∧ i ≤ n then none else some .IndexOutOfBoundsError
  | .null => some .ValueError
  | _ => some .ClassError

/-- an element / key / value offered to a slot of type `ty`: NULL → ValueError; another type → ClassError
    (TypeError when `ty` has no instances at all) -/
def elemExc (ty : Ty) (v : Val) : Option Exc :=
  match v with
  | .null => some .ValueError
  | _ => if v.ty? = some ty then none else some (if ty = .plain then .TypeError else .ClassError)

theorem resolve_exc (n : Nat) (hn : n < 2 ^ 63) (k : Val) (hk : k.inRange) :
    (resolve n k).exc? = idxExc n k ∧ resolve n k ≠ .ub := by
  cases k with
  | int i =>
    obtain ⟨h1, h2⟩ := hk
    simp only [resolve, cInt, resolveB_eq n hn, toInt_ofInt_small i h1 h2, idxExc]
    split <;> simp [R.exc?]
  | str s => simp [resolve, cInt, idxExc, R.exc?]
  | plain p => simp [resolve, cInt, idxExc, R.exc?]
  | null => simp [resolve, cInt, idxExc, R.exc?]
  | nullstr => simp [resolve, cInt, idxExc, R.exc?]

theorem resolve_ok_lt (n : Nat) (hn : n < 2 ^ 63) (k : Val) (hk : k.inRange) (i : Nat) (h : resolve n k = .ok i) : i < n := by
  cases k with
  | int j =>
    obtain ⟨h1, h2⟩ := hk
    simp only [resolve, cInt, resolveB_eq n hn, toInt_ofInt_small j h1 h2] at h
    split at h
    · rename_i hb; injection h with h; subst h; exact idxOf_lt n j hb
    · cases h
  | str s => simp [resolve, cInt] at h
  | plain p => simp [resolve, cInt] at h
  | null => simp [resolve, cInt] at h
  | nullstr => simp [resolve, cInt] at h

theorem assignTo_exc (ty : Ty) (hty : ty.isElemTy) (v : Val) (hv : v ≠ .nullstr) :
    (assignTo ty v).exc? = elemExc ty v ∧ assignTo ty v ≠ .ub := by
  cases ty <;> cases v <;> simp_all [assignTo, elemExc, R.exc?, Val.ty?, Ty.isElemTy]

theorem assignTo_ok (ty : Ty) (v w : Val) (h : assignTo ty v = .ok w) : w = v ∧ v.ty? = some ty ∧ v ≠ .nullstr := by
  cases ty <;> cases v <;> simp [assignTo] at h <;> subst h <;> simp [Val.ty?]

theorem eqv_elem (ty : Ty) (hty : ty.isElemTy) (x v : Val) (hx : x.elemOf ty) (hv : v ≠ .nullstr) :
    (match elemExc ty v with
     | some e => eqv x v = .raised e
     | none => eqv x v = .ok (decide (x = v))) := by
  obtain ⟨hx1, hx2⟩ := hx
  cases ty <;> cases x <;> cases v <;> simp_all [eqv, elemExc, Val.ty?, Ty.isElemTy]

/-- the search of `rem` / `mem` in a well-typed container: a wrong-typed argument raises at the first element;
    a well-typed one is found iff it is a member -/
theorem findEq_elem (ty : Ty) (hty : ty.isElemTy) (v : Val) (hv : v ≠ .nullstr) :
    ∀ (items : List Val) (i : Nat), (∀ x ∈ items, x.elemOf ty) →
      (match elemExc ty v with
       | some e => findEq true v items i = if items = [] then .ok none else .raised e
       | none => (∃ r, findEq true v items i = .ok r ∧ (r.isSome ↔ v ∈ items) ∧
                   (∀ j, r = some j → i ≤ j ∧ j < i + items.length))) := by
  intro items
  induction items with
  | nil => intro i _; cases h : elemExc ty v <;> simp [findEq]
  | cons x xs ih =>
    intro i hall
    have hx : x.elemOf ty := hall x (List.mem_cons_self)
    have hxs : ∀ y ∈ xs, y.elemOf ty := fun y hy => hall y (List.mem_cons_of_mem _ hy)
    have he := eqv_elem ty hty x v hx hv
    have ih' := ih (i + 1) hxs
    cases h : elemExc ty v with
    | some e =>
      rw [h] at he
      simp [findEq, he]
    | none =>
      rw [h] at he ih'
      simp only at he ih' ⊢
      by_cases hxv : x = v
      · subst hxv
        refine ⟨some i, ?_, ?_, ?_⟩
        · simp [findEq, he]
        · simp
        · intro j hj; cases hj; simp
      · obtain ⟨r, hr1, hr2, hr3⟩ := ih'
        refine ⟨r, ?_, ?_, ?_⟩
        · simp [findEq, he, hxv, hr1]
        · rw [hr2]; simp [List.mem_cons, Ne.symm hxv]
        · intro j hj; have := hr3 j hj; simp only [List.length_cons]; omega

theorem pushIdx_exc (n : Nat) (hn : n + 1 < 2 ^ 63) (k : Val) (hk : k.inRange) :
    (match cInt k with
     | .ok kb => if inBoundsIncl n (normIdxPush n kb) then none else some Exc.IndexOutOfBoundsError
     | .raised e => some e
     | .ub => none) = pushIdxExc n k := by
  cases k with
  | int i =>
    obtain ⟨h1, h2⟩ := hk
    simp only [cInt, pushIdxExc]
    by_cases hb : -((n : Int) + 1) ≤ i ∧ i ≤ n
    · have := (inBoundsIncl_normIdxPush n hn (BitVec.ofInt 64 i)).mpr (by rw [toInt_ofInt_small i h1 h2]; exact hb)
      simp [this, hb]
    · have : inBoundsIncl n (normIdxPush n (BitVec.ofInt 64 i)) = false := by
        cases hx : inBoundsIncl n (normIdxPush n (BitVec.ofInt 64 i)) with
        | false => rfl
        | true =>
          have := (inBoundsIncl_normIdxPush n hn (BitVec.ofInt 64 i)).mp hx
          rw [toInt_ofInt_small i h1 h2] at this; exact absurd this hb
      simp [this, hb]
  | str s => simp [cInt, pushIdxExc]
  | plain p => simp [cInt, pushIdxExc]
  | null => simp [cInt, pushIdxExc]
  | nullstr => simp [cInt, pushIdxExc]

theorem concatLoop_exc (ty : Ty) (hty : ty.isElemTy) : ∀ (vs : List Val), (∀ v ∈ vs, v ≠ Val.nullstr) →
    (match (Arr.concatLoop ty vs).2 with
     | none => vs.findSome? (elemExc ty) = none
     | some (.raised e) => vs.findSome? (elemExc ty) = some e
     | some _ => False) := by
  intro vs
  induction vs with
  | nil => intro _; simp [Arr.concatLoop]
  | cons v vs ih =>
    intro h
    have hv : v ≠ .nullstr := h v List.mem_cons_self
    have ih' := ih (fun w hw => h w (List.mem_cons_of_mem _ hw))
    have ha := assignTo_exc ty hty v hv
    cases hx : assignTo ty v with
    | ok w =>
      rw [hx] at ha
      have : elemExc ty v = none := by simpa [R.exc?] using ha.1.symm
      simp only [Arr.concatLoop, hx, List.findSome?_cons, this]
      exact ih'
    | raised e =>
      rw [hx] at ha
      have : elemExc ty v = some e := by simpa [R.exc?] using ha.1.symm
      simp [Arr.concatLoop, hx, List.findSome?_cons, this]
    | ub => rw [hx] at ha; exact absurd rfl ha.2


theorem ofInt_eq_zero_iff (i : Int) (h1 : -(2 ^ 63 : Int) ≤ i) (h2 : i < (2 ^ 63 : Int)) : BitVec.ofInt 64 i = 0 ↔ i = 0 := by
  constructor
  · intro h
    have := toInt_ofInt_small i h1 h2
    rw [h, z64] at this; omega
  · intro h; subst h; rfl

/-- position argument of `List_Push_At`: 0, or an existing position -/
def lstPushIdxExc (n : Nat) (k : Val) : Option Exc :=
  match k with
  | .int i => if i = 0 ∨ (-(n : Int) ≤ i ∧ i < n) then none else some .IndexOutOfBoundsError
  | .null => some .ValueError
  | _ => some .ClassError

theorem lstPushIdx_exc (n : Nat) (hn : n < 2 ^ 63) (k : Val) (hk : k.inRange) :
    (match cInt k with
     | .ok kb => if kb = 0 then none else (resolveB n kb).exc?
     | .raised e => some e
     | .ub => none) = lstPushIdxExc n k := by
  cases k with
  | int i =>
    obtain ⟨h1, h2⟩ := hk
    simp only [cInt, lstPushIdxExc, ofInt_eq_zero_iff i h1 h2, resolveB_eq n hn, toInt_ofInt_small i h1 h2]
    by_cases h0 : i = 0
    · simp [h0]
    · by_cases hb : -(n : Int) ≤ i ∧ i < n <;> simp [h0, hb, R.exc?]
  | str s => simp [cInt, lstPushIdxExc]
  | plain p => simp [cInt, lstPushIdxExc]
  | null => simp [cInt, lstPushIdxExc]
  | nullstr => simp [cInt, lstPushIdxExc]

/-- a key / value handed to a typed map goes through `cast`: NULL or another type → ValueError -/
def castExc (ty : Ty) (v : Val) : Option Exc :=
  match v with
  | .null => some .ValueError
  | _ => if v.ty? = some ty then none else some .ValueError

theorem castTo_exc (ty : Ty) (v : Val) :
    (castTo ty v).exc? = castExc ty v ∧ castTo ty v ≠ .ub ∧ (∀ w, castTo ty v = .ok w → w = v ∧ v.ty? = some ty) := by
  cases v with
  | null => simp [castTo, castExc, R.exc?]
  | int i => by_cases h : (Val.int i).ty? = some ty <;> simp [castTo, castExc, R.exc?, h]
  | str x => by_cases h : (Val.str x).ty? = some ty <;> simp [castTo, castExc, R.exc?, h]
  | plain n => by_cases h : (Val.plain n).ty? = some ty <;> simp [castTo, castExc, R.exc?, h]
  | nullstr => by_cases h : Val.nullstr.ty? = some ty <;> simp [castTo, castExc, R.exc?, h]

theorem removeFirst_none_iff (pat : List Char) : ∀ s : List Char, removeFirst pat s = none ↔ isInfix pat s = false := by
  intro s
  induction s with
  | nil => simp only [removeFirst, isInfix]; split <;> simp_all
  | cons c cs ih =>
    simp only [removeFirst, isInfix]
    by_cases hp : pat.isPrefixOf (c :: cs) = true
    · simp [hp]
    · simp only [hp, Bool.false_eq_true, if_false, Option.map_eq_none_iff, ih, Bool.false_or]

end Cello.Fail
