/-
  Lemmas for C15 (engine `text`): the *position* part of the Float round trip — the floating conversions of scanf (into a `double`
  or into a `float`) consume exactly the text printf's `%f` `%e` `%g` produced (the value: Lemmas/TextRound.lean).
-/
import CelloProofs.Lemmas.Text

namespace Cello.Text

theorem spanDigits_run (ds r : List Nat) (hds : ∀ b ∈ ds, isDigit b = true) (hr : headIs isDigit r = false) :
    spanDigits (ds ++ r) = (ds, r) := by
  induction ds with
  | nil =>
    cases r with
    | nil => simp [spanDigits]
    | cons b t => simp only [headIs] at hr; simp [spanDigits, hr]
  | cons d ds ih =>
    have hd := hds d List.mem_cons_self
    simp only [List.cons_append, spanDigits, hd, if_true]
    rw [ih (fun b hb => hds b (List.mem_cons_of_mem _ hb))]

theorem natDigits_digits (n : Nat) : ∀ b ∈ natDigits n, 48 ≤ b ∧ b ≤ 57 := by
  induction n using Nat.strongRecOn with
  | _ n ih =>
    rw [natDigits]; split
    · intro b hb; simp at hb; omega
    · intro b hb
      simp only [List.mem_append, List.mem_singleton] at hb
      rcases hb with hb | hb
      · exact ih (n / 10) (by omega) b hb
      · omega

theorem natDigits_isDigit (n : Nat) : ∀ b ∈ natDigits n, isDigit b = true := by
  intro b hb
  have := natDigits_digits n b hb
  simp [isDigit, this.1, this.2]

theorem natDigits_ne_nil (n : Nat) : natDigits n ≠ [] := by
  rw [natDigits]; split <;> simp

/-- the text after the integer digits: optionally `.` and fraction digits, optionally an exponent part (letter, sign, digits) -/
def dotText : Option (List Nat) → List Nat
  | none => []
  | some fp => 46 :: fp

def exText : Option (Nat × Nat × List Nat) → List Nat
  | none => []
  | some (l, s, ed) => l :: s :: ed

def exVal : Option (Nat × Nat × List Nat) → Int
  | none => 0
  | some (_, s, ed) => if s = 45 then -(digitsVal ed : Int) else (digitsVal ed : Int)

/-- what may follow such a text without continuing it: never a digit or an exponent letter; without a point and an exponent
    also no point and no `x`/`X` (a lone `0` would become a hexadecimal prefix) -/
def tailSafe (noDot : Bool) (f : List Nat) : Bool := fltSafe f && (!noDot || gSafe f)

theorem lower_digit (e : Nat) (he : 48 ≤ e ∧ e ≤ 57) : lower e = e := by
  simp only [lower]; split <;> omega

/-- **a decimal floating text** `[-]ip[.fp][e±ed]` followed by text that does not continue it: scanf consumes exactly the text and
    converts mantissa and exponent -/
theorem scanFloating_shape (narrow neg : Bool) (ip : List Nat) (dot : Option (List Nat)) (ex : Option (Nat × Nat × List Nat))
    (f : List Nat) (hip : ∀ b ∈ ip, isDigit b = true) (hne : ip ≠ [])
    (hfp : ∀ fp, dot = some fp → ∀ b ∈ fp, isDigit b = true)
    (hex : ∀ l s ed, ex = some (l, s, ed) → (l = 101 ∨ l = 69) ∧ (s = 43 ∨ s = 45) ∧ (∀ b ∈ ed, isDigit b = true))
    (hf : tailSafe (dot.isNone && ex.isNone) f = true) :
    scanFloating narrow ((if neg then [45] else []) ++ ip ++ (dotText dot ++ (exText ex ++ f)))
      = .ok (decToBitsW narrow neg (digitsVal (ip ++ dot.getD [])) (exVal ex - (dot.getD []).length), f) := by
  obtain ⟨d, ip', rfl⟩ := List.exists_cons_of_ne_nil hne
  have hd : isDigit d = true := hip d List.mem_cons_self
  have hd' : 48 ≤ d ∧ d ≤ 57 := by simpa [isDigit] using hd
  have hsp : isSpace d = false := by simp [isSpace]; omega
  simp only [tailSafe, fltSafe, gSafe, Bool.and_eq_true, Bool.not_eq_true', Bool.or_eq_true] at hf
  obtain ⟨hf0, hfg⟩ := hf
  have hf1 : headIs isDigit f = false := by
    cases f with
    | nil => rfl
    | cons b t => simp only [headIs, Bool.or_eq_false_iff] at hf0 ⊢; exact hf0.1.1
  have hfe : ∀ b t, f = b :: t → b ≠ 101 ∧ b ≠ 69 := by
    intro b t hb; subst hb
    simp only [headIs, Bool.or_eq_false_iff, beq_eq_false_iff_ne] at hf0
    exact ⟨hf0.1.2, hf0.2⟩
  -- the exponent part
  have hexp : spanExponent (exText ex ++ f) = (exVal ex, f) := by
    cases ex with
    | none =>
      simp only [exText, exVal, List.nil_append]
      cases f with
      | nil => rfl
      | cons e t =>
        have := hfe e t rfl
        have : ¬(e = 101 ∨ e = 69) := by omega
        simp [spanExponent, this]
    | some les =>
      obtain ⟨l, s, ed⟩ := les
      obtain ⟨hl, hs, hed⟩ := hex l s ed rfl
      have hsd : spanDigits (ed ++ f) = (ed, f) := spanDigits_run ed f hed hf1
      simp only [exText, exVal, List.cons_append, spanExponent, hl, if_true]
      rcases hs with hs | hs <;> subst hs <;> simp [hsd]
  have hexhead : headIs isDigit (exText ex ++ f) = false := by
    cases ex with
    | none => simpa [exText] using hf1
    | some les =>
      obtain ⟨l, s, ed⟩ := les
      obtain ⟨hl, _, _⟩ := hex l s ed rfl
      rcases hl with hl | hl <;> subst hl <;> simp [exText, headIs, isDigit]
  -- the mantissa
  have hman : spanMantissa (d :: ip' ++ (dotText dot ++ (exText ex ++ f))) = (d :: ip', dot.getD [], exText ex ++ f) := by
    cases dot with
    | some fp =>
      have h46 : headIs isDigit (46 :: (fp ++ (exText ex ++ f))) = false := by simp [headIs, isDigit]
      have hspan1 : spanDigits (d :: ip' ++ (46 :: (fp ++ (exText ex ++ f)))) = (d :: ip', 46 :: (fp ++ (exText ex ++ f))) :=
        spanDigits_run _ _ hip h46
      have hspan2 : spanDigits (fp ++ (exText ex ++ f)) = (fp, exText ex ++ f) := spanDigits_run _ _ (hfp fp rfl) hexhead
      simp only [dotText, List.cons_append, Option.getD_some] at hspan1 ⊢
      simp only [spanMantissa, hspan1, hspan2]
    | none =>
      have hspan1 : spanDigits (d :: ip' ++ (exText ex ++ f)) = (d :: ip', exText ex ++ f) := spanDigits_run _ _ hip hexhead
      have hno46 : ∀ b t, exText ex ++ f = b :: t → b ≠ 46 := by
        intro b t hbt
        cases ex with
        | some les =>
          obtain ⟨l, s, ed⟩ := les
          obtain ⟨hl, _, _⟩ := hex l s ed rfl
          simp only [exText, List.cons_append, List.cons.injEq] at hbt
          omega
        | none =>
          simp only [exText, List.nil_append] at hbt
          have := hfg.resolve_left (by simp)
          rw [hbt] at this
          simp only [headIs, Bool.or_eq_false_iff, beq_eq_false_iff_ne] at this
          exact this.1.2
      simp only [dotText, List.nil_append, Option.getD_none] at hspan1 ⊢
      simp only [spanMantissa, hspan1]
      cases hR : exText ex ++ f with
      | nil => rfl
      | cons b t =>
        have := hno46 b t hR
        split
        · rename_i heq; simp only [List.cons.injEq] at heq; omega
        · rfl
  have hspec : floatSpecial (d :: ip' ++ (dotText dot ++ (exText ex ++ f))) = none := by
    simp only [List.cons_append, floatSpecial, lower_digit d hd']
    have h1 : ¬ d = 110 := by omega
    have h2 : ¬ d = 105 := by omega
    simp only [h1, h2, if_false]
    split
    · cases ip' with
      | cons e t =>
        have he : isDigit e = true := hip e (by simp)
        have he' : 48 ≤ e ∧ e ≤ 57 := by simpa [isDigit] using he
        have : ¬ e = 120 := by omega
        simp [lower_digit e he', this]
      | nil =>
        simp only [List.nil_append]
        cases dot with
        | some fp => simp [dotText, lower]
        | none =>
          cases ex with
          | some les =>
            obtain ⟨l, s, ed⟩ := les
            obtain ⟨hl, _, _⟩ := hex l s ed rfl
            rcases hl with hl | hl <;> subst hl <;> simp [dotText, exText, lower]
          | none =>
            simp only [dotText, exText, List.nil_append]
            cases f with
            | nil => rfl
            | cons b t =>
              have := hfg.resolve_left (by simp)
              simp only [headIs, isXx, Bool.or_eq_false_iff, beq_eq_false_iff_ne] at this
              have hb : lower b ≠ 120 := by
                simp only [lower]; split <;> omega
              simp [hb]
    · rfl
  cases neg with
  | true =>
    simp only [if_true, List.cons_append, List.nil_append, scanFloating]
    rw [skipSpace_nonspace 45 _ (by decide)]
    simp only [List.cons_append] at hman hspec
    simp [hman, hspec, hexp]
  | false =>
    simp only [Bool.false_eq_true, if_false, List.cons_append, List.nil_append, scanFloating]
    rw [skipSpace_nonspace d _ hsp]
    have e2 : ¬ d = 45 := by omega
    have e3 : ¬ d = 43 := by omega
    simp only [List.cons_append] at hman hspec
    simp [e2, e3, hman, hspec, hexp]

/-- a text is *a decimal floating text*: it has the shape above, so scanf (any floating conversion, either destination) consumes
    exactly it when what follows is `tailSafe`, and converts a mantissa and exponent that do not depend on what follows -/
def FloatText (t : List Nat) (noDot : Bool) : Prop :=
  ∃ (neg : Bool) (mant : Nat) (k : Int), ∀ (narrow : Bool) (f : List Nat), tailSafe noDot f = true →
    scanFloating narrow (t ++ f) = .ok (decToBitsW narrow neg mant k, f)

theorem floatText_of_shape (neg : Bool) (ip : List Nat) (dot : Option (List Nat)) (ex : Option (Nat × Nat × List Nat))
    (hip : ∀ b ∈ ip, isDigit b = true) (hne : ip ≠ [])
    (hfp : ∀ fp, dot = some fp → ∀ b ∈ fp, isDigit b = true)
    (hex : ∀ l s ed, ex = some (l, s, ed) → (l = 101 ∨ l = 69) ∧ (s = 43 ∨ s = 45) ∧ (∀ b ∈ ed, isDigit b = true)) :
    FloatText ((if neg then [45] else []) ++ ip ++ dotText dot ++ exText ex) (dot.isNone && ex.isNone) := by
  refine ⟨neg, digitsVal (ip ++ dot.getD []), exVal ex - (dot.getD []).length, ?_⟩
  intro narrow f hf
  have := scanFloating_shape narrow neg ip dot ex f hip hne hfp hex hf
  simpa [List.append_assoc] using this

theorem floatText_weaken (t : List Nat) (b : Bool) (h : FloatText t b) : FloatText t true := by
  obtain ⟨neg, mant, k, h⟩ := h
  exact ⟨neg, mant, k, fun narrow f hf => h narrow f (by
    simp only [tailSafe, Bool.and_eq_true] at hf ⊢; exact ⟨hf.1, by cases b <;> simp_all⟩)⟩

/-! ### the texts printf writes are decimal floating texts -/

theorem sixDigits_isDigit (q : Nat) : ∀ b ∈ (natDigits (10 ^ 6 + q % 10 ^ 6)).drop 1, isDigit b = true :=
  fun b hb => natDigits_isDigit _ b (List.mem_of_mem_drop hb)

theorem printF_floatText (bits : Nat) : FloatText (printF bits) false := by
  simp only [printF]
  generalize fDecode bits = d
  obtain ⟨sg, m, e⟩ := d
  simp only
  generalize fScaled m e = q
  have := floatText_of_shape sg (natDigits (q / 10 ^ 6)) (some ((natDigits (10 ^ 6 + q % 10 ^ 6)).drop 1)) none
    (natDigits_isDigit _) (natDigits_ne_nil _) (by intro fp h; cases h; exact sixDigits_isDigit q) (by intro l s ed h; cases h)
  simpa [dotText, exText, List.append_assoc] using this

theorem expText_shape (upper : Bool) (x : Int) : ∃ l s ed, expText upper x = l :: s :: ed ∧ (l = 101 ∨ l = 69) ∧ (s = 43 ∨ s = 45) ∧
    (∀ b ∈ ed, isDigit b = true) := by
  refine ⟨if upper then 69 else 101, if x < 0 then 45 else 43, (if x.natAbs < 10 then [48] else []) ++ natDigits x.natAbs, ?_, ?_, ?_, ?_⟩
  · simp [expText]
  · cases upper <;> simp
  · split <;> simp
  · intro b hb
    simp only [List.mem_append] at hb
    rcases hb with hb | hb
    · split at hb <;> simp at hb; subst hb; rfl
    · exact natDigits_isDigit _ b hb

theorem printE_floatText (upper : Bool) (bits : Nat) : FloatText (printE upper bits) false := by
  simp only [printE]
  generalize fDecode bits = d
  obtain ⟨sg, m, e⟩ := d
  simp only
  generalize (if m = 0 then ((0, 0) : Nat × Int) else sciDigits 6 (fFrac m e).1 (fFrac m e).2) = dx
  obtain ⟨l, s, ed, hE, hl, hs, hed⟩ := expText_shape upper dx.2
  have := floatText_of_shape sg (natDigits (dx.1 / 10 ^ 6)) (some ((natDigits (10 ^ 6 + dx.1 % 10 ^ 6)).drop 1)) (some (l, s, ed))
    (natDigits_isDigit _) (natDigits_ne_nil _)
    (by intro fp h; cases h; exact sixDigits_isDigit dx.1) (by intro l' s' ed' h; cases h; exact ⟨hl, hs, hed⟩)
  rw [hE]
  simpa [dotText, exText, List.append_assoc] using this

theorem mem_stripZeros (l : List Nat) : ∀ b ∈ stripZeros l, b ∈ l := by
  intro b hb
  simp only [stripZeros, List.mem_reverse] at hb
  exact List.mem_reverse.1 ((List.dropWhile_suffix _).subset hb)

/-- the optional point and fraction of `%g` as a `dotText` -/
theorem pt_dotText (frac : List Nat) :
    (if frac.isEmpty then [] else 46 :: frac) = dotText (if frac.isEmpty then none else some frac) := by
  split <;> rfl

theorem printG_floatText (upper : Bool) (bits : Nat) : FloatText (printG upper bits) true := by
  simp only [printG]
  generalize fDecode bits = d
  obtain ⟨sg, m, e⟩ := d
  simp only
  split
  · -- zero: "0" / "-0"
    have := floatText_of_shape sg [48] none none (by intro b hb; simp at hb; subst hb; rfl) (by simp)
      (by intro fp h; cases h) (by intro l s ed h; cases h)
    simpa [dotText, exText] using this
  · generalize sciDigits 5 (fFrac m e).1 (fFrac m e).2 = dx
    have hds := natDigits_isDigit dx.1
    have hdsne := natDigits_ne_nil dx.1
    have hfrac : ∀ (l : List Nat), (∀ b ∈ l, isDigit b = true) → ∀ fp, (if (stripZeros l).isEmpty then none else some (stripZeros l)) = some fp →
        ∀ b ∈ fp, isDigit b = true := by
      intro l hl fp hfp b hb
      split at hfp
      · cases hfp
      · cases hfp; exact hl b (mem_stripZeros l b hb)
    split
    · -- style e
      obtain ⟨l, s, ed, hE, hl, hs, hed⟩ := expText_shape upper dx.2
      have hip : ∀ b ∈ (natDigits dx.1).take 1, isDigit b = true := fun b hb => hds b (List.mem_of_mem_take hb)
      have hne : (natDigits dx.1).take 1 ≠ [] := by
        obtain ⟨a, t, h⟩ := List.exists_cons_of_ne_nil hdsne; rw [h]; simp
      have := floatText_of_shape sg ((natDigits dx.1).take 1)
        (if (stripZeros ((natDigits dx.1).drop 1)).isEmpty then none else some (stripZeros ((natDigits dx.1).drop 1))) (some (l, s, ed))
        hip hne (hfrac _ (fun b hb => hds b (List.mem_of_mem_drop hb))) (by intro l' s' ed' h; cases h; exact ⟨hl, hs, hed⟩)
      rw [hE, pt_dotText]
      have h2 : FloatText ((if sg = true then [45] else []) ++ (natDigits dx.1).take 1 ++
          dotText (if (stripZeros ((natDigits dx.1).drop 1)).isEmpty then none else some (stripZeros ((natDigits dx.1).drop 1))) ++ l :: s :: ed) true := by
        exact floatText_weaken _ _ this
      simpa [List.append_assoc] using h2
    · split
      · -- style f, exponent ≥ 0
        have hip : ∀ b ∈ (natDigits dx.1).take (dx.2.toNat + 1), isDigit b = true := fun b hb => hds b (List.mem_of_mem_take hb)
        have hne : (natDigits dx.1).take (dx.2.toNat + 1) ≠ [] := by
          obtain ⟨a, t, h⟩ := List.exists_cons_of_ne_nil hdsne; rw [h]; simp
        have := floatText_of_shape sg ((natDigits dx.1).take (dx.2.toNat + 1))
          (if (stripZeros ((natDigits dx.1).drop (dx.2.toNat + 1))).isEmpty then none else some (stripZeros ((natDigits dx.1).drop (dx.2.toNat + 1)))) none
          hip hne (hfrac _ (fun b hb => hds b (List.mem_of_mem_drop hb))) (by intro l' s' ed' h; cases h)
        rw [pt_dotText]
        have := floatText_weaken _ _ this
        simpa [exText, List.append_assoc] using this
      · -- style f, exponent < 0: "0." zeros digits
        have hz : ∀ b ∈ List.replicate ((-dx.2).toNat - 1) 48 ++ natDigits dx.1, isDigit b = true := by
          intro b hb
          simp only [List.mem_append, List.mem_replicate] at hb
          rcases hb with hb | hb
          · rw [hb.2]; rfl
          · exact hds b hb
        have := floatText_of_shape sg [48]
          (if (stripZeros (List.replicate ((-dx.2).toNat - 1) 48 ++ natDigits dx.1)).isEmpty then none
            else some (stripZeros (List.replicate ((-dx.2).toNat - 1) 48 ++ natDigits dx.1))) none
          (by intro b hb; simp at hb; subst hb; rfl) (by simp) (hfrac _ hz) (by intro l' s' ed' h; cases h)
        rw [pt_dotText]
        have := floatText_weaken _ _ this
        simpa [exText, List.append_assoc] using this

/-- what printf writes under every floating specification of the model is a decimal floating text -/
def FConv.isG : FConv → Bool
  | .g | .G => true
  | _ => false

theorem printFloatSpec_floatText (cv : FConv) (bits : Nat) : FloatText (printFloatSpec cv bits) cv.isG := by
  cases cv <;> simp only [printFloatSpec]
  · exact printF_floatText bits
  · exact printF_floatText bits
  · exact printE_floatText false bits
  · exact printE_floatText true bits
  · exact printG_floatText false bits
  · exact printG_floatText true bits

theorem tailSafe_of_fspecSafe (cv : FConv) (f : List Nat) (h : fspecSafe cv f = true) :
    tailSafe cv.isG f = true := by
  have hg : gSafe f = true → fltSafe f = true := by
    intro hg
    cases f with
    | nil => rfl
    | cons b t =>
      simp only [gSafe, fltSafe, headIs, Bool.not_eq_true', Bool.or_eq_false_iff] at hg ⊢
      exact ⟨⟨hg.1.1.1.1, hg.1.1.1.2⟩, hg.1.1.2⟩
  cases cv <;> simp only [fspecSafe] at h <;> simp [tailSafe, FConv.isG, h, hg]

/-- **the floating conversions of scanf consume exactly what printf wrote**, whatever follows that does not continue the number,
    into a `double` or into a `float` alike, and the value stored does not depend on what follows -/
theorem scanFloating_print (narrow : Bool) (cv : FConv) (bits : Nat) (f : List Nat) (hf : fspecSafe cv f = true) :
    scanFloating narrow (printFloatSpec cv bits ++ f) = .ok (reparseSpec narrow cv bits, f) := by
  obtain ⟨neg, mant, k, h⟩ := printFloatSpec_floatText cv bits
  have h1 := h narrow f (tailSafe_of_fspecSafe cv f hf)
  have h2 := h narrow [] (by cases cv <;> rfl)
  simp only [List.append_nil] at h2
  rw [h1]
  simp [reparseSpec, h2]

/-- `%lf` on what `%f` wrote (the pair `Float_Show` / `Float_Look` uses) -/
theorem scanDouble_printF (bits : Nat) (f : List Nat) (hf : fltSafe f = true) :
    scanDouble (printF bits ++ f) = .ok (reparse bits, f) :=
  scanFloating_print false .f bits f hf

end Cello.Text
