/-
  Lemmas for C15 (engine `text`): the *position* part of the Float round trip — scanf's `%lf` consumes exactly the text
  printf's `%f` produced (the value is libc's: see Props/C15.lean).
-/
import CelloProofs.Lemmas.Text

namespace Cello.Text

theorem spanDigits_run (ds r : List Nat) (hds : ∀ b ∈ ds, isDigit b = true) (hr : headIs isDigit r = false) :
    spanDigits (ds ++ r) = (ds, r) := by
  induction ds with
  | nil =>
    cases r with
    | nil => simp [spanDigits]
    | cons b t => simp only [headIs] at hr; simp [spanDigits, hr]
  | cons d ds ih =>
    have hd := hds d List.mem_cons_self
    simp only [List.cons_append, spanDigits, hd, if_true]
    rw [ih (fun b hb => hds b (List.mem_cons_of_mem _ hb))]

theorem natDigits_isDigit (n : Nat) : ∀ b ∈ natDigits n, isDigit b = true := by
  intro b hb
  have := natDigits_digits n b hb
  simp [isDigit, this.1, this.2]

theorem natDigits_ne_nil (n : Nat) : natDigits n ≠ [] := by
  rw [natDigits]; split <;> simp

/-- a decimal text `[-]ip.fp` followed by text that starts neither with a digit nor with an exponent letter -/
theorem scanDouble_dec (neg : Bool) (ip fp f : List Nat) (hip : ∀ b ∈ ip, isDigit b = true) (hne : ip ≠ [])
    (hfp : ∀ b ∈ fp, isDigit b = true) (hf : fltSafe f = true) :
    scanDouble ((if neg then [45] else []) ++ ip ++ 46 :: fp ++ f)
      = .ok (decToBits neg (digitsVal (ip ++ fp)) (0 - fp.length), f) := by
  obtain ⟨d, ip', rfl⟩ := List.exists_cons_of_ne_nil hne
  have hd : isDigit d = true := hip d List.mem_cons_self
  have hd' : 48 ≤ d ∧ d ≤ 57 := by simpa [isDigit] using hd
  have hsp : isSpace d = false := by simp [isSpace]; omega
  simp only [fltSafe, Bool.not_eq_true'] at hf
  have hf1 : headIs isDigit f = false := by
    cases f with
    | nil => rfl
    | cons b t => simp only [headIs, Bool.or_eq_false_iff] at hf ⊢; exact hf.1.1
  have hexp : spanExponent f = (0, f) := by
    cases f with
    | nil => rfl
    | cons e t =>
      simp only [headIs, Bool.or_eq_false_iff, beq_eq_false_iff_ne] at hf
      have : ¬(e = 101 ∨ e = 69) := by omega
      simp [spanExponent, this]
  have h46 : headIs isDigit (46 :: fp ++ f) = false := by simp [headIs, isDigit]
  have hspan1 : spanDigits (d :: ip' ++ (46 :: fp ++ f)) = (d :: ip', 46 :: fp ++ f) := spanDigits_run _ _ hip h46
  have hspan2 : spanDigits (fp ++ f) = (fp, f) := spanDigits_run _ _ hfp hf1
  have hman : spanMantissa (d :: ip' ++ (46 :: fp ++ f)) = (d :: ip', fp, f) := by
    simp only [spanMantissa, hspan1]
    simp only [List.cons_append] at hspan2 ⊢
    rw [hspan2]
  have hlow : ∀ e, 48 ≤ e ∧ e ≤ 57 → lower e = e := by
    intro e he; simp only [lower]; split <;> omega
  have hspec : floatSpecial (d :: ip' ++ (46 :: fp ++ f)) = none := by
    simp only [List.cons_append, floatSpecial, hlow d hd']
    have h1 : ¬ d = 110 := by omega
    have h2 : ¬ d = 105 := by omega
    simp only [h1, h2, if_false]
    split
    · cases ip' with
      | nil => simp [lower]
      | cons e t =>
        have he : isDigit e = true := hip e (by simp)
        have he' : 48 ≤ e ∧ e ≤ 57 := by simpa [isDigit] using he
        have : ¬ e = 120 := by omega
        simp [hlow e he', this]
    · rfl
  cases neg with
  | true =>
    simp only [if_true, List.cons_append, List.nil_append, List.append_assoc, scanDouble]
    rw [skipSpace_nonspace 45 _ (by decide)]
    simp only [List.cons_append, List.append_assoc] at hman hspec
    simp [hman, hspec, hexp]
  | false =>
    simp only [Bool.false_eq_true, if_false, List.cons_append, List.nil_append, List.append_assoc, scanDouble]
    rw [skipSpace_nonspace d _ hsp]
    have e1 : ¬ (d = 45 ∨ d = 43) := by omega
    have e2 : ¬ d = 45 := by omega
    have e3 : ¬ d = 43 := by omega
    simp only [List.cons_append, List.append_assoc] at hman hspec
    simp [e2, e3, hman, hspec, hexp]

/-- digits of `10^6 + r` without the leading one: the six decimals -/
theorem printF_shape (bits : Nat) : ∃ (neg : Bool) (ip fp : List Nat),
    printF bits = (if neg then [45] else []) ++ ip ++ 46 :: fp ∧ (∀ b ∈ ip, isDigit b = true) ∧ ip ≠ [] ∧
      (∀ b ∈ fp, isDigit b = true) := by
  simp only [printF]
  generalize fDecode bits = d
  obtain ⟨sg, m, e⟩ := d
  simp only
  generalize (if e ≥ 0 then m * 2 ^ e.toNat * 10 ^ 6 else roundHalfEven (m * 10 ^ 6) (2 ^ (-e).toNat)) = q
  refine ⟨sg, natDigits (q / 10 ^ 6), (natDigits (10 ^ 6 + q % 10 ^ 6)).drop 1, ?_, natDigits_isDigit _, natDigits_ne_nil _, ?_⟩
  · cases sg <;> simp
  · intro b hb
    exact natDigits_isDigit _ b (List.mem_of_mem_drop hb)

/-- **`%lf` consumes exactly what `%f` wrote**, whatever follows that does not continue the number, and the value it stores
    does not depend on what follows -/
theorem scanDouble_printF (bits : Nat) (f : List Nat) (hf : fltSafe f = true) :
    scanDouble (printF bits ++ f) = .ok (reparse bits, f) := by
  obtain ⟨neg, ip, fp, hp, hip, hne, hfp⟩ := printF_shape bits
  have h1 := scanDouble_dec neg ip fp f hip hne hfp hf
  have h2 := scanDouble_dec neg ip fp [] hip hne hfp (by decide)
  simp only [List.append_nil] at h2
  have hr : reparse bits = decToBits neg (digitsVal (ip ++ fp)) (0 - fp.length) := by
    simp only [reparse, hp, h2]
  rw [hr, hp]
  simpa [List.append_assoc] using h1

end Cello.Text
