/-
  Lemmas for the intermediate container states of Cello/HeapMid.lean (C01): where the cells a statement leaves behind come from, loop
  invariants for `Mach.eachLoop` / `Mach.whileLoop`, and the heap-level step: a mark phase on the heap in which a container is in an
  intermediate state reaches everything that is reachable through the container's final state, as soon as the intermediate state presents
  every word of the final state that the operand does not supply.

  Nothing here depends on the statement ORDER of the source (CelloGen/GcMid.lean lists): the theorems that do are in
  CelloProofs/Props/C01.lean, so that a source change that breaks one is reported by the name of that theorem.
-/
import Cello.Heap
import Cello.HeapMid
import CelloProofs.Lemmas.Mark
import CelloProofs.Lemmas.MarkRetype

namespace Cello.Heap.Mid
open CelloGen.GcMid

variable {α : Type}

/-! ### where cells come from -/

theorem mem_takePad {n : Nat} {l : List (Cell α)} {c : Cell α} (h : c ∈ takePad n l) : c ∈ l.take n ∨ c = none := by
  simp only [takePad, List.mem_append, List.mem_replicate] at h
  rcases h with h | ⟨_, h⟩
  · exact Or.inl h
  · exact Or.inr h

theorem takePad_of_le {n : Nat} {l : List (Cell α)} (h : n ≤ l.length) : takePad n l = l.take n := by
  simp [takePad, Nat.sub_eq_zero_of_le h]

theorem takePad_length_self (l : List (Cell α)) : takePad l.length l = l := by simp [takePad]

theorem takePad_map_some (elems : List α) (spare : List (Cell α)) :
    takePad elems.length (elems.map some ++ spare) = elems.map some := by
  simp [takePad]

theorem mem_moveDown {l : List α} {i cnt : Nat} {c : α} (h : c ∈ moveDown l i cnt) : c ∈ l := by
  simp only [moveDown, List.mem_append] at h
  rcases h with (h | h) | h
  · exact List.mem_of_mem_take h
  · exact List.mem_of_mem_drop (List.mem_of_mem_take h)
  · exact List.mem_of_mem_drop h

theorem mem_moveUp {l : List α} {i cnt : Nat} {c : α} (h : c ∈ moveUp l i cnt) : c ∈ l := by
  simp only [moveUp, List.mem_append] at h
  rcases h with (h | h) | h
  · exact List.mem_of_mem_take h
  · exact List.mem_of_mem_drop (List.mem_of_mem_take h)
  · exact List.mem_of_mem_drop h

theorem mem_filterMap_id {l : List (Cell α)} {x : α} : x ∈ l.filterMap id ↔ some x ∈ l := by
  simp [List.mem_filterMap]

theorem some_mem_map_some {l : List α} {x : α} : some x ∈ l.map some ↔ x ∈ l := by simp

theorem all_some_map (l : List α) : ∀ c ∈ l.map some, c ≠ none := by
  intro c hc
  obtain ⟨x, _, rfl⟩ := List.mem_map.mp hc
  simp

/-- the first `a` slots of the first `b` slots: elements of the first `a` slots, or no element -/
theorem mem_takePad_takePad {a b : Nat} {l : List (Cell α)} {c : Cell α} (h : c ∈ takePad a (takePad b l)) :
    c ∈ l.take a ∨ c = none := by
  rcases mem_takePad h with h | h
  · have h2 : c ∈ takePad b l := List.mem_of_mem_take h
    -- position-wise: a cell among the first `a` of `take b l ++ none…`
    simp only [takePad, List.take_append, List.mem_append] at h
    rcases h with h | h
    · rw [List.take_take] at h
      exact Or.inl (List.take_subset_take_left l (Nat.min_le_left a b) h)
    · have := List.mem_of_mem_take h
      simp only [List.mem_replicate] at this
      exact Or.inr this.2
  · exact Or.inr h

theorem moveCount_neg_one {n i : Nat} (h : i < n) : moveCount n i (-1) = n - i - 1 := by
  unfold moveCount; omega

/-- after `memmove(data + i, data + i + 1, cnt)` the first `i + cnt` slots are the first `i + 1 + cnt` without slot `i` -/
theorem take_moveDown (l : List α) (i cnt : Nat) (hl : i + 1 + cnt ≤ l.length) :
    (moveDown l i cnt).take (i + cnt) = l.take i ++ (l.drop (i + 1)).take cnt := by
  unfold moveDown
  apply List.take_left'
  simp [List.length_take, List.length_drop]
  omega

theorem mem_take_moveDown {l : List α} {i cnt : Nat} {c : α} (hl : i + 1 + cnt ≤ l.length)
    (h : c ∈ (moveDown l i cnt).take (i + cnt)) : c ∈ l.take (i + 1 + cnt) := by
  rw [take_moveDown l i cnt hl, List.mem_append] at h
  rcases h with h | h
  · exact List.take_subset_take_left l (by omega) h
  · have : (l.drop (i + 1)).take cnt = (l.take (i + 1 + cnt)).drop (i + 1) := by
      rw [List.drop_take]; congr 1; omega
    rw [this] at h
    exact List.mem_of_mem_drop h

/-! ### loops -/

theorem eachLoop_inv (env : Env α) (body : List Ev) (I : Mach α → Prop)
    (hstep : ∀ j st, I st → I (st.run { env with j := j } body)) : ∀ (js : List Nat) (st : Mach α), I st → I (Mach.eachLoop env body js st)
  | [], _, h => h
  | j :: js, st, h => eachLoop_inv env body I hstep js _ (hstep j st h)

theorem whileLoop_inv (env : Env α) (body : List Ev) (I : Mach α → Prop)
    (hstep : ∀ st, I st → env.m < st.n → I (st.run env body)) : ∀ (fuel : Nat) (st : Mach α), I st → I (Mach.whileLoop env body fuel st)
  | 0, _, h => h
  | fuel + 1, st, h => by
    unfold Mach.whileLoop
    split
    · exact whileLoop_inv env body I hstep fuel _ (hstep st h ‹_›)
    · exact h

/-- like `eachLoop_inv`, for an invariant that also knows which rounds are still to come -/
theorem eachLoop_inv_idx (env : Env α) (body : List Ev) (I : List Nat → Mach α → Prop)
    (hstep : ∀ j js st, I (j :: js) st → I js (st.run { env with j := j } body)) :
    ∀ (js : List Nat) (st : Mach α), I js st → I [] (Mach.eachLoop env body js st)
  | [], _, h => h
  | j :: js, st, h => eachLoop_inv_idx env body I hstep js _ (hstep j js st h)

/-! ### every cell comes from the container as it was, from the operand, or is a zeroed element — whatever the statement order -/

/-- a cell holds no element, an element the container held before the operation, an element of the operand, or a zeroed element -/
def From (env : Env α) (elems : List α) (c : Cell α) : Prop :=
  c = none ∨ ∃ x, c = some x ∧ (x ∈ elems ∨ x ∈ env.src ∨ x = env.zero)

def Mach.From (env : Env α) (elems : List α) (st : Mach α) : Prop :=
  (∀ c ∈ st.cells, Mid.From env elems c) ∧ (∀ c, st.out = some c → Mid.From env elems c) ∧ (∀ c, st.pend = some c → Mid.From env elems c)

theorem from_val (env : Env α) (elems : List α) : Mid.From env elems (some env.val) := by
  refine Or.inr ⟨env.val, rfl, ?_⟩
  unfold Env.val
  by_cases h : env.j < env.src.length
  · exact Or.inr (Or.inl (by simp [List.getD, List.getElem?_eq_getElem h]))
  · exact Or.inr (Or.inr (by simp [List.getD, List.getElem?_eq_none (Nat.le_of_not_lt h)]))

theorem from_zero (env : Env α) (elems : List α) : Mid.From env elems (some env.zero) := Or.inr ⟨_, rfl, Or.inr (Or.inr rfl)⟩
theorem from_none (env : Env α) (elems : List α) : Mid.From env elems none := Or.inl rfl

theorem from_j (env : Env α) (j : Nat) (elems : List α) (c : Cell α) : Mid.From { env with j := j } elems c ↔ Mid.From env elems c := Iff.rfl

theorem Mach.from_j (env : Env α) (j : Nat) (elems : List α) (st : Mach α) : st.From { env with j := j } elems ↔ st.From env elems := Iff.rfl

theorem linkPos_le (env : Env α) (st : Mach α) (s : Sel) : st.linkPos env s ≤ st.cells.length := by
  unfold Mach.linkPos
  split
  · exact Nat.le_refl _
  · exact Nat.min_le_right _ _

theorem step_from (env : Env α) (elems : List α) (st : Mach α) (h : st.From env elems) (e : Ev) : (st.step env e).From env elems := by
  obtain ⟨hc, ho, hp⟩ := h
  have hset : ∀ (p : Nat) (v : Cell α), Mid.From env elems v → ∀ c ∈ st.cells.set p v, Mid.From env elems c := by
    intro p v hv c hcm
    rcases List.mem_or_eq_of_mem_set hcm with h | h
    · exact hc c h
    · subst h; exact hv
  unfold Mach.From
  cases e <;> simp only [Mach.step, Mach.view]
  case destructKey => exact ⟨hc, ho, hp⟩
  case destruct => exact ⟨hc, ho, hp⟩
  case assignKey => exact ⟨hc, ho, hp⟩
  case assign s =>
    split
    · exact ⟨hset _ _ (from_val env elems), ho, hp⟩
    · exact ⟨hc, ho, hp⟩
  case alloc s =>
    split
    · exact ⟨hset _ _ (from_zero env elems), ho, hp⟩
    · exact ⟨hc, ho, hp⟩
  case inc => exact ⟨hc, ho, hp⟩
  case dec => exact ⟨hc, ho, hp⟩
  case addLen => exact ⟨hc, ho, hp⟩
  case len0 => exact ⟨hc, ho, hp⟩
  case lenSrc => exact ⟨hc, ho, hp⟩
  case reserveMore =>
    split
    · refine ⟨?_, ho, hp⟩
      intro c hcm
      rcases List.mem_append.mp hcm with h | h
      · exact hc c h
      · rw [List.mem_replicate] at h; rw [h.2]; exact from_none env elems
    · exact ⟨hc, ho, hp⟩
  case reserveFor k =>
    split
    · refine ⟨?_, ho, hp⟩
      intro c hcm
      rcases List.mem_append.mp hcm with h | h
      · exact hc c h
      · rw [List.mem_replicate] at h; rw [h.2]; exact from_none env elems
    · exact ⟨hc, ho, hp⟩
  case reserveLess =>
    split
    · exact ⟨fun c hcm => hc c (List.mem_of_mem_take hcm), ho, hp⟩
    · exact ⟨hc, ho, hp⟩
  case capLen => exact ⟨hc, ho, hp⟩
  case capZero => exact ⟨fun c hcm => by simp at hcm, ho, hp⟩
  case capN => exact ⟨hc, ho, hp⟩
  case mallocCap =>
    refine ⟨?_, ho, hp⟩
    intro c hcm
    simp only [List.mem_replicate] at hcm
    rw [hcm.2]; exact from_none env elems
  case reallocCap =>
    refine ⟨?_, ho, hp⟩
    intro c hcm
    rcases mem_takePad hcm with h | h
    · exact hc c (List.mem_of_mem_take h)
    · rw [h]; exact from_none env elems
  case freeData =>
    refine ⟨?_, ho, hp⟩
    intro c hcm
    simp only [List.mem_map] at hcm
    obtain ⟨_, _, rfl⟩ := hcm
    exact from_none env elems
  case dataNull => exact ⟨fun c hcm => by simp at hcm, ho, hp⟩
  case moveDown k => exact ⟨fun c hcm => hc c (mem_moveDown hcm), ho, hp⟩
  case moveUp k => exact ⟨fun c hcm => hc c (mem_moveUp hcm), ho, hp⟩
  case unlink s =>
    refine ⟨fun c hcm => hc c (List.mem_of_mem_eraseIdx hcm), ?_, hp⟩
    intro c hcm
    exact hc c (List.mem_of_getElem? hcm)
  case destructOut => exact ⟨hc, ho, hp⟩
  case freeOut => exact ⟨hc, fun c hcm => by simp at hcm, hp⟩
  case free s => exact ⟨hset _ _ (from_none env elems), ho, hp⟩
  case allocPend =>
    refine ⟨hc, ho, ?_⟩
    intro c hcm
    simp only [Option.some.injEq] at hcm
    rw [← hcm]; exact from_zero env elems
  case assignPendKey => exact ⟨hc, ho, hp⟩
  case assignPend =>
    refine ⟨hc, ho, ?_⟩
    intro c hcm
    simp only [Option.some.injEq] at hcm
    rw [← hcm]; exact from_val env elems
  case linkPend s =>
    split
    · rename_i c0 hp0
      refine ⟨?_, ho, fun c hcm => by simp at hcm⟩
      intro c hcm
      rcases (List.mem_insertIdx (linkPos_le env st s)).mp hcm with h | h
      · rw [h]; exact hp c0 hp0
      · exact hc c h
    · exact ⟨hc, ho, hp⟩
  case storePend s =>
    split
    · rename_i c0 hp0
      refine ⟨?_, ho, fun c hcm => by simp at hcm⟩
      intro c hcm
      split at hcm
      · exact hset _ _ (hp c0 hp0) c hcm
      · rcases List.mem_append.mp hcm with h | h
        · exact hc c h
        · rw [List.mem_singleton] at h; rw [h]; exact hp c0 hp0
    · exact ⟨hc, ho, hp⟩
  case dropAll => exact ⟨fun c hcm => by simp at hcm, ho, hp⟩
  case clear => exact ⟨hc, ho, hp⟩

theorem run_from (env : Env α) (elems : List α) : ∀ (evs : List Ev) (st : Mach α), st.From env elems → (st.run env evs).From env elems
  | [], _, h => h
  | e :: es, st, h => run_from env elems es _ (step_from env elems st h e)

theorem instr_from (env : Env α) (elems : List α) (st : Mach α) (h : st.From env elems) (ins : Instr) : (st.instr env ins).From env elems := by
  cases ins with
  | seq evs => exact run_from env elems evs st h
  | each body =>
    exact eachLoop_inv env body (fun st => st.From env elems) (fun j st hst => run_from { env with j := j } elems body st hst) _ st h
  | whileLen body =>
    exact whileLoop_inv env body (fun st => st.From env elems) (fun st hst _ => run_from env elems body st hst) _ st h
  | fill body =>
    exact eachLoop_inv env body (fun st => st.From env elems) (fun j st hst => run_from { env with j := j } elems body st hst) _ st h

theorem exec_from (env : Env α) (elems : List α) : ∀ (prog : List Instr) (st : Mach α), st.From env elems → (st.exec env prog).From env elems
  | [], _, h => h
  | i :: is, st, h => exec_from env elems is _ (instr_from env elems st h i)

theorem initCap_from (env : Env α) (elems : List α) (spare : List (Cell α)) (hsp : ∀ c ∈ spare, Mid.From env elems c) :
    (Mach.initCap elems spare).From env elems := by
  refine ⟨?_, fun c h => by simp [Mach.initCap] at h, fun c h => by simp [Mach.initCap] at h⟩
  intro c hc
  rcases List.mem_append.mp hc with h | h
  · obtain ⟨x, hx, rfl⟩ := List.mem_map.mp h
    exact Or.inr ⟨x, rfl, Or.inl hx⟩
  · exact hsp c h

theorem mem_presented {sh : Shape} {cells : List (Cell α)} {n : Nat} {c : Cell α} (h : c ∈ presented sh cells n) : c ∈ cells ∨ c = none := by
  unfold presented at h
  split at h
  · cases h
  · split at h
    · rcases mem_takePad h with h | h
      · exact Or.inl (List.mem_of_mem_take h)
      · exact Or.inr h
    · exact Or.inl h

/-- **whatever the order of the statements**: an element the container holds when the operation completes was in it before, or is an element of
    the operand, or is a zeroed element -/
theorem final_from {env : Env α} {elems : List α} {st : Mach α} (h : st.From env elems) {x : α} (hx : x ∈ st.final env) :
    x ∈ elems ∨ x ∈ env.src ∨ x = env.zero := by
  rw [Mach.final, mem_filterMap_id] at hx
  rcases mem_presented hx with hc | hc
  · rcases h.1 _ hc with h0 | ⟨y, hy, hfrom⟩
    · cases h0
    · cases hy; exact hfrom
  · cases hc

/-! ### the safety notion -/

/-- **a view is mark-safe for the elements `keep`**: the Mark instance reads only constructed elements, and presents every element of `keep` -/
def View.Safe (keep : List α) (v : View α) : Prop := (∀ c ∈ v.cells, c ≠ none) ∧ ∀ x ∈ keep, some x ∈ v.cells

/-- **mark-safe intermediate states**: inside every element call of the operation (destructor or Assign instance: a collection can run there)
    the container's Mark instance reads only constructed elements and presents every element the container holds when the operation
    completes, except those the operand of the operation supplies (the caller holds the operand) and zeroed elements (`Array_Alloc`: every
    word 0) -/
def MarkSafe (env : Env α) (r : Mach α) : Prop :=
  ∀ v ∈ r.views, (∀ c ∈ v.cells, c ≠ none) ∧ ∀ x ∈ r.final env, x ∈ env.src ∨ x = env.zero ∨ some x ∈ v.cells

/-- when every view is the container as it was before the operation, the operation is mark-safe — whatever else its statements do -/
theorem markSafe_of_views_pre {env : Env α} {elems : List α} {st : Mach α} (hfrom : st.From env elems)
    (hv : ∀ v ∈ st.views, v.cells = elems.map some) : MarkSafe env st := by
  intro v hvm
  rw [hv v hvm]
  refine ⟨all_some_map elems, fun x hx => ?_⟩
  rcases final_from hfrom hx with h | h | h
  · exact Or.inr (Or.inr (some_mem_map_some.mpr h))
  · exact Or.inl h
  · exact Or.inr (Or.inl h)

theorem markSafe_reverse {env : Env α} {r : Mach α} (h : MarkSafe env r) : MarkSafe env { r with views := r.views.reverse } := by
  intro v hv
  exact h v (List.mem_reverse.mp hv)


/-! ### helpers for the per-operation theorems -/

theorem spare_from (env : Env α) (elems : List α) (k : Nat) : ∀ c ∈ List.replicate k (none : Cell α), Mid.From env elems c := by
  intro c hc; rw [List.mem_replicate] at hc; rw [hc.2]; exact from_none env elems

theorem init_from (env : Env α) (elems : List α) : (Mach.init elems).From env elems :=
  initCap_from env elems [] (fun _ h => by cases h)

/-- when every view is the container as it is when the operation completes (and that holds only constructed elements) -/
theorem markSafe_of_views_post {env : Env α} {st : Mach α}
    (hv : ∀ v ∈ st.views, v.cells = st.presented env) (hall : ∀ c ∈ st.presented env, c ≠ none) : MarkSafe env st := by
  intro v hvm
  rw [hv v hvm]
  exact ⟨hall, fun x hx => Or.inr (Or.inr (mem_filterMap_id.mp hx))⟩

/-- a view that reads only constructed elements and presents every element the container held before the operation -/
theorem markSafe_of_views_cover {env : Env α} {elems : List α} {st : Mach α} (hfrom : st.From env elems)
    (hv : ∀ v ∈ st.views, (∀ c ∈ v.cells, c ≠ none) ∧ ∀ x ∈ elems, some x ∈ v.cells) : MarkSafe env st := by
  intro v hvm
  refine ⟨(hv v hvm).1, fun x hx => ?_⟩
  rcases final_from hfrom hx with h | h | h
  · exact Or.inr (Or.inr ((hv v hvm).2 x h))
  · exact Or.inl h
  · exact Or.inr (Or.inl h)

theorem presented_list (cells : List (Cell α)) (n : Nat) : presented Shape.list cells n = cells := by
  simp [presented, Shape.list]

theorem presented_table (cells : List (Cell α)) (n : Nat) : presented Shape.table cells n = cells := by
  simp [presented, Shape.table]

/-- `Tree_Mark` on a tree whose `nitems` is its number of nodes: every node (`Tree_Iter_Init` answers Terminal at once only when there is none) -/
theorem presented_tree_init (elems : List α) : presented Shape.tree (elems.map some) elems.length = elems.map some := by
  unfold presented
  split
  · rename_i h
    simp only [Bool.and_eq_true, beq_iff_eq] at h
    have : elems = [] := List.eq_nil_of_length_eq_zero h.2
    simp [this]
  · simp [Shape.tree]

/-- statements that record views without touching the container: the views of a loop over them are all the container as it was -/
theorem eachLoop_views_pre (env : Env α) (body : List Ev) (P : List (Cell α))
    (hbody : ∀ j (st : Mach α), st.presented env = P → (∀ v ∈ st.views, v.cells = P) →
      (st.run { env with j := j } body).presented env = P ∧ ∀ v ∈ (st.run { env with j := j } body).views, v.cells = P)
    (js : List Nat) (st : Mach α) (h0 : st.presented env = P) (hv0 : ∀ v ∈ st.views, v.cells = P) :
    (Mach.eachLoop env body js st).presented env = P ∧ ∀ v ∈ (Mach.eachLoop env body js st).views, v.cells = P :=
  eachLoop_inv env body (fun st => st.presented env = P ∧ ∀ v ∈ st.views, v.cells = P) (fun j st h => hbody j st h.1 h.2) js st ⟨h0, hv0⟩

/-- only constructed elements, among them everything the container held before -/
def Good (elems : List α) (cells : List (Cell α)) : Prop := (∀ c ∈ cells, c ≠ none) ∧ ∀ x ∈ elems, some x ∈ cells

/-- a view that reads only constructed elements presents exactly its elements -/
theorem cells_eq_map_some : ∀ (cells : List (Cell α)), (∀ c ∈ cells, c ≠ none) → cells = (cells.filterMap id).map some
  | [], _ => rfl
  | none :: _, h => absurd rfl (h none List.mem_cons_self)
  | some x :: cs, h => by
    simp only [List.filterMap_cons, id, List.map_cons]
    rw [← cells_eq_map_some cs (fun c hc => h c (List.mem_cons_of_mem _ hc))]

theorem view_elems_of_ok {v : View α} (h : ∀ c ∈ v.cells, c ≠ none) : v.cells = v.elems.map some :=
  cells_eq_map_some v.cells h

/-- what `Array_Push` leaves after `nitems++; Array_Reserve_More; Array_Alloc(last); assign(last, x)` in a block whose slots behind the
    elements hold no element: the elements, the new element, and slots that hold no element -/
theorem array_push_state (elems : List α) (rest : List (Cell α)) (env : Env α) (hs : env.shape = Shape.array) :
    (Mach.run env [.alloc .last, .assign .last] { cells := elems.map some ++ none :: rest, n := elems.length + 1 }).views =
      [⟨Tag.asg, elems.map some ++ [some env.val]⟩] := by
  have hget : ((elems.map some) ++ some env.zero :: rest)[elems.length]? = some (some env.zero) := by
    rw [List.getElem?_append_right (by simp)]; simp
  have hset1 : (elems.map some ++ none :: rest).set elems.length (some env.zero) = elems.map some ++ some env.zero :: rest := by
    rw [List.set_append_right _ _ (by simp)]; simp
  have hset2 : (elems.map some ++ some env.zero :: rest).set elems.length (some env.val) = elems.map some ++ some env.val :: rest := by
    rw [List.set_append_right _ _ (by simp)]; simp
  have htake : takePad (elems.length + 1) (elems.map some ++ some env.val :: rest) = elems.map some ++ [some env.val] := by
    rw [takePad_of_le (by simp)]
    simp [List.take_append, List.take_of_length_le]
  simp only [Mach.run, List.foldl, Mach.step, Mach.pos, hs, Shape.array, if_true, Nat.add_sub_cancel, List.length_append, List.length_map,
    List.length_cons, Nat.lt_add_right_iff_pos, Nat.zero_lt_succ, hset1, hget, hset2, Mach.view, Mach.presented, presented, Bool.false_and,
    Bool.false_eq_true, if_false, htake]

/-- `List_Unlink(l, item); destruct(item); List_Free(l, item); l->nitems--;` (List_Pop_At, List_Pop, List_Rem, in the order of the source as
    it was when this was written): the destructor sees the list without the cell -/
theorem list_unlink_safe (elems : List α) (env : Env α) (hs : env.shape = Shape.list) (s : Sel) :
    MarkSafe env ((Mach.init elems).exec env [.seq [.unlink s, .destructOut, .freeOut, .dec]]) := by
  apply markSafe_of_views_post
  · intro v hv
    simp only [Mach.exec, Mach.instr, Mach.run, Mach.step, Mach.view, Mach.init, Mach.initCap, Mach.presented, hs, presented_list,
      List.foldl, List.append_nil, List.mem_singleton] at hv ⊢
    rw [hv]
  · intro c hc
    simp only [Mach.exec, Mach.instr, Mach.run, Mach.step, Mach.view, Mach.init, Mach.initCap, Mach.presented, hs, presented_list,
      List.foldl, List.append_nil] at hc
    exact all_some_map elems c (List.mem_of_mem_eraseIdx hc)


/-- what `Array_Push_At` leaves after `memmove(i+1 ← i, nitems-1-i); Array_Alloc(i); assign(i, x)` when slot `nitems-1` exists: the `i` elements
    in front, the new element, the elements from `i` on -/
theorem array_push_at_state (A B : List (Cell α)) (rest : List (Cell α)) (env : Env α) (hs : env.shape = Shape.array) (hi : env.i = A.length) :
    (Mach.run env [.moveUp (-1), .alloc .idx, .assign .idx] { cells := A ++ B ++ none :: rest, n := A.length + B.length + 1 }).views =
      [⟨Tag.asg, A ++ some env.val :: B⟩] := by
  have hcnt : moveCount (A.length + B.length + 1) A.length (-1) = B.length := by unfold moveCount; omega
  -- the block after the memmove: the slot at `i` is duplicated
  have hmove : ∃ x0, moveUp (A ++ B ++ none :: rest) A.length B.length = A ++ x0 :: B ++ rest := by
    cases B with
    | nil => exact ⟨none, by simp [moveUp, List.take_append, List.drop_append, List.take_of_length_le, List.drop_of_length_le]⟩
    | cons b B' =>
      refine ⟨b, ?_⟩
      simp only [moveUp, List.append_assoc, List.cons_append]
      have h1 : List.take (A.length + 1) (A ++ (b :: (B' ++ none :: rest))) = A ++ [b] := by
        rw [List.take_append]; simp [List.take_of_length_le]
      have h2 : List.drop A.length (A ++ (b :: (B' ++ none :: rest))) = b :: (B' ++ none :: rest) := by simp
      have h3 : List.take (b :: B').length (b :: (B' ++ none :: rest)) = b :: B' := by
        rw [show b :: (B' ++ none :: rest) = (b :: B') ++ none :: rest by simp, List.take_left' rfl]
      have h4 : List.drop (A.length + 1 + (b :: B').length) (A ++ (b :: (B' ++ none :: rest))) = rest := by
        rw [show A ++ (b :: (B' ++ none :: rest)) = (A ++ b :: B') ++ none :: rest by simp]
        rw [List.drop_append]
        have h5 : A.length + 1 + (b :: B').length - (A ++ b :: B').length = 1 := by simp; omega
        rw [List.drop_of_length_le (by simp), h5]
        rfl
      rw [h1, h2, h3, h4]; simp
  obtain ⟨x0, hmove⟩ := hmove
  have hlt : A.length < (A ++ x0 :: B ++ rest).length := by simp
  have hset1 : (A ++ x0 :: B ++ rest).set A.length (some env.zero) = A ++ some env.zero :: B ++ rest := by
    rw [List.append_assoc, List.set_append_right _ _ (Nat.le_refl _)]; simp
  have hget : (A ++ some env.zero :: B ++ rest)[A.length]? = some (some env.zero) := by
    rw [List.append_assoc, List.getElem?_append_right (Nat.le_refl _)]; simp
  have hset2 : (A ++ some env.zero :: B ++ rest).set A.length (some env.val) = A ++ some env.val :: B ++ rest := by
    rw [List.append_assoc, List.set_append_right _ _ (Nat.le_refl _)]; simp
  have htake : takePad (A.length + B.length + 1) (A ++ some env.val :: B ++ rest) = A ++ some env.val :: B := by
    rw [takePad_of_le (by simp; omega)]
    apply List.take_left'
    simp; omega
  simp only [Mach.run, List.foldl, Mach.step, Mach.pos, hi, hcnt, hmove, hlt, if_true, hset1, hget, hset2, Mach.view, Mach.presented, presented,
    hs, Shape.array, Bool.false_and, Bool.false_eq_true, if_false, htake]


end Cello.Heap.Mid

namespace Cello.Heap
open Cello.Heap.Mid

/-! ### the heap-level step -/

/-- **Reachability is monotone in what the objects present.**  `h'` and `h` have the same registered addresses; every word an object of `h'`
    presents is presented by the same object in `h`, or is among `extra`.  Then everything reachable in `h'` from `roots` is reachable in `h`
    from `roots ++ extra`. -/
theorem reachable_of_fields_covered (c : Cfg) (h h' : Heap) (roots extra : List Word)
    (hreg : ∀ a, (h'.lookup a).isSome = (h.lookup a).isSome)
    (hcov : ∀ a e', h'.lookup a = some e' → ∃ e, h.lookup a = some e ∧ ∀ w ∈ fields c e'.obj, w ∈ fields c e.obj ∨ w ∈ extra)
    {x : Addr} (hr : Reachable c h' roots x) : Reachable c h (roots ++ extra) x := by
  induction hr with
  | root hmem hs => exact Reachable.root (List.mem_append_left _ hmem) (by rw [← hreg]; exact hs)
  | step _ hp hs ih =>
    obtain ⟨e', hl', hb⟩ := hp
    obtain ⟨e, hl, hcv⟩ := hcov _ e' hl'
    rcases hcv _ hb with hw | hw
    · exact Reachable.step ih ⟨e, hl, hw⟩ (by rw [← hreg]; exact hs)
    · exact Reachable.root (List.mem_append_right _ hw) (by rw [← hreg]; exact hs)


theorem mem_fieldsL {c : Cfg} {es : List Obj} {w : Word} : w ∈ fieldsL c es ↔ ∃ e ∈ es, w ∈ fields c e := by
  induction es with
  | nil => simp [fieldsL]
  | cons x xs ih =>
    simp only [fieldsL, List.mem_append, ih, List.mem_cons]
    constructor
    · rintro (h | ⟨e, he, hw⟩)
      · exact ⟨x, Or.inl rfl, h⟩
      · exact ⟨e, Or.inr he, hw⟩
    · rintro ⟨e, he | he, hw⟩
      · subst he; exact Or.inl hw
      · exact Or.inr ⟨e, he, hw⟩

theorem rootAddrs_write (h : Heap) (a : Addr) (o : Obj) : rootAddrs (h.write a o) = rootAddrs h := by
  unfold rootAddrs
  apply List.filter_congr
  intro x _
  by_cases hx : x = a
  · subst hx
    simp only [Heap.write, if_true]
    cases h.lookup x <;> rfl
  · simp only [Heap.write, hx, if_false]

/-- **The heap-level step.**  `h` is the heap while the container at `a` is in an intermediate state; `h.write a post` is the heap when the
    operation has completed.  If the intermediate state presents every word the completed container presents, except words the operand
    supplies (`extra`, which the caller's frame holds), then everything that is reachable from thread-local storage, the root-registered
    entries and the stack WHEN THE OPERATION COMPLETES survives a collection that runs NOW with the operand on the stack: it stays registered,
    unchanged, off the pending list. -/
theorem mid_collection_safe {σ : Type} (S : MarkSet σ) (c : Cfg) (h : Heap) (wf : h.WF) (thread : Obj) (stack extra : List Word)
    (a : Addr) (e : Entry) (hl : h.lookup a = some e) (post : Obj)
    (hcov : ∀ w ∈ fields c post, w ∈ fields c e.obj ∨ w ∈ extra)
    (x : Addr) (hr : Reachable c (h.write a post) (rootWords c (h.write a post) thread stack) x) :
    (collect S c h thread (stack ++ extra)).1.lookup x = h.lookup x ∧ (h.lookup x).isSome = true ∧
      x ∉ (collect S c h thread (stack ++ extra)).2 := by
  have hr2 : Reachable c h (rootWords c h thread stack ++ extra) x := by
    have := reachable_of_fields_covered c h (h.write a post) (rootWords c (h.write a post) thread stack) extra
      (fun y => write_isSome a y post)
      (by
        intro y e' hy
        by_cases hya : y = a
        · subst hya
          rw [write_lookup_self hl] at hy
          cases hy
          exact ⟨e, hl, hcov⟩
        · rw [write_lookup_ne hya] at hy
          exact ⟨e', hy, fun w hw => Or.inl hw⟩)
      hr
    simpa [rootWords, rootAddrs_write] using this
  have hr3 : Reachable c h (rootWords c h thread (stack ++ extra)) x := by
    have hEq : rootWords c h thread stack ++ extra = rootWords c h thread (stack ++ extra) := by simp [rootWords, List.append_assoc]
    rw [← hEq]; exact hr2
  have hm : S.mem x (gcMark S c h thread (stack ++ extra)) = true := by
    rw [gcMark_eq]
    exact dfs_complete S c h _ x ((reachable_iff_reach wf _ x).mp hr3)
  have hreg : (h.lookup x).isSome = true := by
    cases hr3 with
    | root _ hreg => exact hreg
    | step _ _ hreg => exact hreg
  have hns : sweeps S h (gcMark S c h thread (stack ++ extra)) x = false := by
    cases hs : sweeps S h (gcMark S c h thread (stack ++ extra)) x with
    | false => rfl
    | true =>
      rw [sweeps_iff] at hs
      obtain ⟨_, _, _, hnm⟩ := hs
      rw [hm] at hnm; cases hnm
  refine ⟨?_, hreg, ?_⟩
  · simp only [collect, sweep_lookup, hns, Bool.false_eq_true, if_false]
  · simp only [collect, mem_pending, hns, Bool.false_eq_true, and_false, not_false_eq_true]

/-- from the machine to words: a mark-safe view of a container of embedded elements presents every word of the completed container, except
    words of the operand's elements and of a zeroed element -/
theorem fields_covered_of_markSafe (c : Cfg) (ty : String) {env : Env Obj} {r : Mach Obj} (hs : MarkSafe env r) {v : View Obj}
    (hv : v ∈ r.views) :
    ∀ w ∈ fields c (.cont ty (r.final env)), w ∈ fields c (.cont ty v.elems) ∨ w ∈ fieldsL c env.src ++ fields c env.zero := by
  intro w hw
  obtain ⟨hok, hkeep⟩ := hs v hv
  simp only [fields] at hw ⊢
  split at hw
  · cases hw
  · split at hw
    · obtain ⟨e, he, hwe⟩ := mem_fieldsL.mp hw
      rcases hkeep e he with h | h | h
      · exact Or.inr (List.mem_append_left _ (mem_fieldsL.mpr ⟨e, h, hwe⟩))
      · subst h; exact Or.inr (List.mem_append_right _ hwe)
      · left
        rename_i hleaf hmark
        simp only [hleaf, hmark, if_true, if_false, Bool.false_eq_true]
        refine mem_fieldsL.mpr ⟨e, ?_, hwe⟩
        rw [view_elems_of_ok hok] at h
        exact some_mem_map_some.mp h
    · cases hw

end Cello.Heap
