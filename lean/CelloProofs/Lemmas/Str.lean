/-
  CelloProofs/Lemmas/Str.lean — helper lemmas for C16 (String behaves as a C-string value).
  Part 1: libc-over-a-buffer facts (realloc / writeAt / the NUL-terminated view / strstr / strcmp).
-/
import Cello.Str
namespace Cello.Str

/-! ### realloc, writeAt -/
theorem junk_length (J : Nat → Byte) (s n : Nat) : (junk J s n).length = n := by simp [junk]

theorem realloc_length (J : Nat → Byte) (buf : List Byte) (n : Nat) : (realloc J buf n).length = n := by
  simp [realloc, junk_length]; omega

theorem realloc_prefix (J : Nat → Byte) (pre rest : List Byte) (n : Nat) (h : pre.length ≤ n) :
    ∃ r', realloc J (pre ++ rest) n = pre ++ r' ∧ r'.length = n - pre.length := by
  refine ⟨(realloc J (pre ++ rest) n).drop pre.length, ?_, ?_⟩
  · have : (realloc J (pre ++ rest) n).take pre.length = pre := by
      unfold realloc
      rw [List.take_take, Nat.min_eq_left h, List.append_assoc, List.take_left']
      rfl
    conv => lhs; rw [← List.take_append_drop pre.length (realloc J (pre ++ rest) n)]
    rw [this]
  · simp [realloc_length]
theorem writeAt_mid (a m p bs : List Byte) (h : bs.length = m.length) :
    writeAt (a ++ m ++ p) a.length bs = a ++ bs ++ p := by
  simp [writeAt, h, List.drop_append]

theorem writeAt_length (buf : List Byte) (off : Nat) (bs : List Byte) : (writeAt buf off bs).length = buf.length := by
  unfold writeAt
  split
  · simp; omega
  · rfl

/-! ### the NUL-terminated view, strstr -/
theorem takeWhile_nul (c r : List Byte) (hc : (0 : Byte) ∉ c) :
    (c ++ 0 :: r).takeWhile (· != 0) = c := by
  induction c with
  | nil => simp
  | cons a t ih =>
    have h1 : a ≠ 0 := by intro h; apply hc; simp [h]
    have h2 : (0 : Byte) ∉ t := by intro h; apply hc; simp [h]
    simp [h1, ih h2]

theorem decomp (buf : List Byte) (h : (0 : Byte) ∈ buf) :
    ∃ c r, buf = c ++ 0 :: r ∧ (0 : Byte) ∉ c := by
  induction buf with
  | nil => simp at h
  | cons a t ih =>
    by_cases ha : a = 0
    · exact ⟨[], t, by simp [ha], by simp⟩
    · have : (0 : Byte) ∈ t := by
        rcases List.mem_cons.mp h with h | h
        · exact absurd h.symm ha
        · exact h
      obtain ⟨c, r, e, hc⟩ := ih this
      refine ⟨a :: c, r, by simp [e], ?_⟩
      intro hm; rcases List.mem_cons.mp hm with hm | hm
      · exact ha hm.symm
      · exact hc hm

theorem mem_takeWhile_pos {p : Byte → Bool} {a : Byte} : ∀ {l : List Byte}, a ∈ l.takeWhile p → p a = true
  | [], h => by simp at h
  | b :: t, h => by
    simp only [List.takeWhile_cons] at h
    split at h
    · next hb =>
      rcases List.mem_cons.mp h with h | h
      · rw [h]; exact hb
      · exact mem_takeWhile_pos h
    · simp at h

theorem not_mem_drop {c : List Byte} (hc : (0 : Byte) ∉ c) (p : Nat) : (0 : Byte) ∉ c.drop p :=
  fun h => hc (List.mem_of_mem_drop h)

theorem not_mem_take {c : List Byte} (hc : (0 : Byte) ∉ c) (p : Nat) : (0 : Byte) ∉ c.take p :=
  fun h => hc (List.mem_of_mem_take h)

theorem cstrAt_view (c r : List Byte) (hc : (0 : Byte) ∉ c) (p : Nat) (hp : p ≤ c.length) :
    cstrAt (c ++ 0 :: r) p = c.drop p := by
  unfold cstrAt
  rw [List.drop_append_of_le_length hp]
  exact takeWhile_nul _ _ (not_mem_drop hc p)

theorem strlen_view (c r : List Byte) (hc : (0 : Byte) ∉ c) (p : Nat) (hp : p ≤ c.length) :
    strlen (c ++ 0 :: r) p = c.length - p := by
  simp [strlen, cstrAt_view c r hc p hp]

theorem findSub_some {x : List Byte} : ∀ {l : List Byte} {p : Nat}, findSub x l = some p →
    ∃ a b, l = a ++ x ++ b ∧ a.length = p
  | [], p, h => by
    simp only [findSub] at h
    split at h
    · next hx => subst hx; cases h; exact ⟨[], [], rfl, rfl⟩
    · cases h
  | a :: t, p, h => by
    simp only [findSub] at h
    split at h
    · next hp =>
      cases h
      obtain ⟨b, hb⟩ := List.isPrefixOf_iff_prefix.mp hp
      exact ⟨[], b, by simp [hb], rfl⟩
    · rcases hq : findSub x t with _ | q
      · simp [hq] at h
      · simp [hq] at h
        obtain ⟨a', b, e, hl⟩ := findSub_some hq
        exact ⟨a :: a', b, by simp [e], by simp [hl, h]⟩

theorem findSub_min {x : List Byte} : ∀ {l : List Byte} {p : Nat}, findSub x l = some p →
    ∀ a b, l = a ++ x ++ b → p ≤ a.length
  | [], p, h, a, b, e => by
    simp only [findSub] at h
    split at h
    · cases h; omega
    · cases h
  | c :: t, p, h, a, b, e => by
    simp only [findSub] at h
    split at h
    · cases h; omega
    · next hnp =>
      rcases hq : findSub x t with _ | q
      · simp [hq] at h
      · simp [hq] at h
        cases a with
        | nil =>
          exfalso; apply hnp
          exact List.isPrefixOf_iff_prefix.mpr ⟨b, by simpa using e.symm⟩
        | cons a0 a' =>
          simp at e
          have := findSub_min hq a' b (by simp [e.2])
          simp; omega

theorem findSub_none {x : List Byte} : ∀ {l : List Byte}, findSub x l = none → ¬ x <:+: l
  | [], h, hi => by
    simp only [findSub] at h
    split at h
    · cases h
    · next hx => exact hx (List.eq_nil_of_infix_nil hi)
  | c :: t, h, hi => by
    simp only [findSub] at h
    split at h
    · cases h
    · next hnp =>
      rcases hq : findSub x t with _ | q
      · rcases List.infix_cons_iff.mp hi with hp | hi'
        · exact hnp (List.isPrefixOf_iff_prefix.mpr hp)
        · exact findSub_none hq hi'
      · simp [hq] at h

theorem findSub_isSome_iff (x l : List Byte) : (findSub x l).isSome ↔ x <:+: l := by
  constructor
  · intro h
    rcases hq : findSub x l with _ | p
    · simp [hq] at h
    · obtain ⟨a, b, e, _⟩ := findSub_some hq
      exact ⟨a, b, e.symm⟩
  · intro h
    rcases hq : findSub x l with _ | p
    · exact absurd h (findSub_none hq)
    · simp

theorem removeFirst_eq (x : List Byte) : ∀ l : List Byte,
    removeFirst x l = (findSub x l).map (fun p => l.take p ++ l.drop (p + x.length))
  | [] => by
    simp only [removeFirst, findSub]
    split <;> simp
  | a :: t => by
    simp only [removeFirst, findSub]
    split
    · simp
    · rw [removeFirst_eq x t]
      rcases findSub x t with _ | q
      · simp
      · simp [Nat.add_right_comm]

/-! ### strcmp -/
theorem byte_pos_of_ne_zero {b : Byte} (h : b ≠ 0) : (0 : Byte) < b := by
  rw [UInt8.lt_iff_toNat_lt]
  have : b.toNat ≠ 0 := fun e => h (UInt8.toNat_inj.mp (by simpa using e))
  simp; omega

theorem byte_eq_of_not_lt {a b : Byte} (h1 : ¬ a < b) (h2 : ¬ b < a) : a = b := by
  rw [UInt8.lt_iff_toNat_lt] at h1 h2
  exact UInt8.toNat_inj.mp (by omega)

theorem strcmpZ_view : ∀ (c x r : List Byte), (0 : Byte) ∉ c → (0 : Byte) ∉ x →
    strcmpZ (c ++ 0 :: r) (x ++ [0]) = lexCmp c x
  | [], [], r, _, _ => by simp [strcmpZ, lexCmp]
  | [], b :: bs, r, _, hx => by
    have hb : b ≠ 0 := by intro h; apply hx; simp [h]
    simp [strcmpZ, lexCmp, byte_pos_of_ne_zero hb]
  | a :: as, [], r, hc, _ => by
    have ha : a ≠ 0 := by intro h; apply hc; simp [h]
    have : ¬ a < 0 := by rw [UInt8.lt_iff_toNat_lt]; simp
    simp [strcmpZ, lexCmp, byte_pos_of_ne_zero ha, this]
  | a :: as, b :: bs, r, hc, hx => by
    have ha : a ≠ 0 := by intro h; apply hc; simp [h]
    have hc' : (0 : Byte) ∉ as := by intro h; apply hc; simp [h]
    have hx' : (0 : Byte) ∉ bs := by intro h; apply hx; simp [h]
    simp only [List.cons_append, strcmpZ, lexCmp]
    split
    · rfl
    · split
      · rfl
      · simp [ha, strcmpZ_view as bs r hc' hx']

theorem lexCmp_eq_zero : ∀ (a b : List Byte), lexCmp a b = 0 ↔ a = b
  | [], [] => by simp [lexCmp]
  | [], _ :: _ => by simp [lexCmp]
  | _ :: _, [] => by simp [lexCmp]
  | a :: as, b :: bs => by
    simp only [lexCmp]
    split
    · next h => 
      have : a ≠ b := by intro e; subst e; rw [UInt8.lt_iff_toNat_lt] at h; omega
      simp [this]
    · split
      · next h =>
        have : a ≠ b := by intro e; subst e; rw [UInt8.lt_iff_toNat_lt] at h; omega
        simp [this]
      · next h1 h2 =>
        have := byte_eq_of_not_lt h1 h2
        simp [this, lexCmp_eq_zero as bs]

end Cello.Str
