/-
  CelloProofs/Lemmas/StrOps.lean — helper lemmas for C16, part 2: the exact buffer each operation of
  Cello/Str.lean leaves behind, given the buffer `c ++ 0 :: r` (text `c` without NUL, terminator, rest of the
  allocation `r`) it started from, and that all its accesses stay inside the allocation.
-/
import CelloProofs.Lemmas.Str
namespace Cello.Str

theorem assign_buf {P : Params} (hP : P.Lawful) (J : Nat → Byte) (s : Str) (x : List Byte) :
    (assign P J s x).st.buf = x ++ [0] ∧ (assign P J s x).safe = true := by
  have hl : (realloc J s.buf (P.assignSize x.length)).length = x.length + 1 := by rw [realloc_length, hP.assign]
  constructor
  · simp only [assign]
    have := writeAt_mid [] (realloc J s.buf (P.assignSize x.length)) [] (x ++ [0]) (by simp [hl])
    simpa using this
  · simp [assign, Res.safe, Acc.inBounds, Acc.wr, hl]

theorem clear_buf {P : Params} (hP : P.Lawful) (J : Nat → Byte) (s : Str) :
    (clear P J s).st.buf = [0] ∧ (clear P J s).safe = true := by
  have hl : (realloc J s.buf P.clearSize).length = 1 := by rw [realloc_length, hP.clear]
  constructor
  · simp only [clear]
    have := writeAt_mid [] (realloc J s.buf P.clearSize) [] [0] (by simp [hl])
    simpa using this
  · simp [clear, Res.safe, Acc.inBounds, Acc.wr, hl]

theorem strlen_view0 (c r : List Byte) (hc : (0 : Byte) ∉ c) : strlen (c ++ 0 :: r) 0 = c.length := by
  rw [strlen_view c r hc 0 (by omega)]; rfl

theorem concat_buf {P : Params} (hP : P.Lawful) (J : Nat → Byte) (x c r : List Byte) (hc : (0 : Byte) ∉ c) :
    (concat P J ⟨c ++ 0 :: r⟩ x).st.buf = c ++ x ++ [0] ∧ (concat P J ⟨c ++ 0 :: r⟩ x).safe = true := by
  obtain ⟨r', hr, hrl⟩ := realloc_prefix J (c ++ [0]) r (c.length + x.length + 1) (by simp)
  have hb1 : realloc J (c ++ 0 :: r) (P.concatSize c.length x.length) = c ++ 0 :: r' := by
    rw [hP.concat]; simpa using hr
  have hrl' : r'.length = x.length := by simp at hrl; omega
  simp only [concat, strlen_view0 c r hc, hb1, strlen_view0 c r' hc]
  constructor
  · have := writeAt_mid c (0 :: r') [] (x ++ [0]) (by simp [hrl'])
    simpa using this
  · simp [Res.safe, Acc.inBounds, Acc.wr, Acc.rd, hrl']

theorem resize_grow_buf {P : Params} (hP : P.Lawful) (J : Nat → Byte) (n : Nat) (c r : List Byte) (hc : (0 : Byte) ∉ c)
    (hn : n > c.length) :
    (∃ r', (resize P J ⟨c ++ 0 :: r⟩ n).st.buf = c ++ 0 :: r') ∧ (resize P J ⟨c ++ 0 :: r⟩ n).st.buf.length = n + 1 ∧
    (resize P J ⟨c ++ 0 :: r⟩ n).safe = true := by
  obtain ⟨r', hr, hrl⟩ := realloc_prefix J (c ++ [0]) r (n + 1) (by simp <;> omega)
  have hb1 : realloc J (c ++ 0 :: r) (P.resizeSize n) = c ++ 0 :: r' := by
    rw [hP.resize]; simpa using hr
  have hrl' : r'.length = n - c.length := by simp at hrl; omega
  simp only [resize, strlen_view0 c r hc, hb1, hn, if_true]
  have hw := writeAt_mid c ((0 :: r').take (n - c.length)) ((0 :: r').drop (n - c.length))
      (List.replicate (n - c.length) 0) (by simp [hrl'])
  rw [List.append_assoc, List.take_append_drop] at hw
  obtain ⟨k, hk⟩ : ∃ k, n - c.length = k + 1 := ⟨n - c.length - 1, by omega⟩
  rw [hk] at hw ⊢
  refine ⟨⟨List.replicate k 0 ++ r'.drop k, ?_⟩, ?_, ?_⟩
  · rw [hw, List.replicate_succ]
    simp
  · rw [writeAt_length]; simp [hrl']; omega
  · simp [Res.safe, Acc.inBounds, Acc.wr, Acc.rd, hrl']; omega

theorem resize_shrink_buf {P : Params} (hP : P.Lawful) (J : Nat → Byte) (n : Nat) (c r : List Byte) (hc : (0 : Byte) ∉ c)
    (hn : n ≤ c.length) :
    (resize P J ⟨c ++ 0 :: r⟩ n).st.buf = c.take n ++ [0] ∧ (resize P J ⟨c ++ 0 :: r⟩ n).safe = true := by
  obtain ⟨r', hr, hrl⟩ := realloc_prefix J (c.take n) (c.drop n ++ 0 :: r) (n + 1) (by simp; omega)
  have hb1 : realloc J (c ++ 0 :: r) (P.resizeSize n) = c.take n ++ r' := by
    rw [hP.resize]; rw [← List.append_assoc, List.take_append_drop] at hr; exact hr
  have hrl' : r'.length = 1 := by simp at hrl; omega
  have hn' : ¬ n > c.length := by omega
  simp only [resize, strlen_view0 c r hc, hb1, hn', if_false]
  constructor
  · have := writeAt_mid (c.take n) r' [] [0] (by simp [hrl'])
    simp [List.length_take, Nat.min_eq_left hn] at this
    simpa using this
  · simp [Res.safe, Acc.inBounds, Acc.wr, Acc.rd, hrl', Nat.min_eq_left hn]

theorem rem_found_buf {P : Params} (hP : P.Lawful) (a x b r : List Byte) (hc : (0 : Byte) ∉ a ++ x ++ b)
    (hf : findSub x (a ++ x ++ b) = some a.length) :
    (∃ r', (rem P ⟨a ++ x ++ b ++ 0 :: r⟩ x).st.buf = a ++ b ++ 0 :: r') ∧
    (rem P ⟨a ++ x ++ b ++ 0 :: r⟩ x).st.buf.length = (a ++ x ++ b ++ 0 :: r).length ∧
    (rem P ⟨a ++ x ++ b ++ 0 :: r⟩ x).out = .ok 0 ∧
    (rem P ⟨a ++ x ++ b ++ 0 :: r⟩ x).safe = true := by
  have hv : cstrAt (a ++ x ++ b ++ 0 :: r) 0 = a ++ x ++ b := by
    rw [cstrAt_view _ r hc 0 (by omega)]; rfl
  have hlp : strlen (a ++ x ++ b ++ 0 :: r) a.length = x.length + b.length := by
    rw [strlen_view _ r hc a.length (by simp)]; simp <;> omega
  have hcount : P.remCount (a ++ x ++ b).length (x.length + b.length) x.length = b.length + 1 := by
    rw [hP.rem _ _ _ (by omega)]; omega
  have hread : readAt (a ++ x ++ b ++ 0 :: r) (a.length + x.length) (b.length + 1) = b ++ [0] := by
    unfold readAt
    have : a ++ x ++ b ++ 0 :: r = (a ++ x) ++ (b ++ 0 :: r) := by simp
    rw [this, List.drop_left' (by simp)]
    have : b ++ 0 :: r = (b ++ [0]) ++ r := by simp
    rw [this, List.take_left' (by simp)]
  simp only [rem, hv, hf, hlp, hcount, hread]
  have hw := writeAt_mid a ((x ++ b ++ 0 :: r).take (b.length + 1)) ((x ++ b ++ 0 :: r).drop (b.length + 1))
      (b ++ [0]) (by simp <;> omega)
  rw [List.append_assoc, List.take_append_drop] at hw
  have e : a ++ x ++ b ++ 0 :: r = a ++ (x ++ b ++ 0 :: r) := by simp
  refine ⟨⟨(x ++ b ++ 0 :: r).drop (b.length + 1), ?_⟩, ?_, trivial, ?_⟩
  · rw [e, hw]; simp
  · rw [writeAt_length]
  · simp [Res.safe, Acc.inBounds, Acc.wr, Acc.rd]; omega

theorem rem_absent_buf (P : Params) (c r x : List Byte) (hc : (0 : Byte) ∉ c) (hf : findSub x c = none) :
    rem P ⟨c ++ 0 :: r⟩ x = { st := ⟨c ++ 0 :: r⟩, out := .raised .ValueError, log := [.rd 0 (c.length + 1) (c ++ 0 :: r).length] } := by
  have hv : cstrAt (c ++ 0 :: r) 0 = c := by rw [cstrAt_view _ r hc 0 (by omega)]; rfl
  simp only [rem, hv, hf]

theorem format_in_buf {P : Params} (hP : P.Lawful) (J : Nat → Byte) (pos : Nat) (f c r : List Byte)
    (hpos : pos ≤ c.length) :
    (formatTo P J ⟨c ++ 0 :: r⟩ pos f).st.buf = c.take pos ++ f ++ [0] ∧ (formatTo P J ⟨c ++ 0 :: r⟩ pos f).safe = true := by
  obtain ⟨r', hr, hrl⟩ := realloc_prefix J (c.take pos) (c.drop pos ++ 0 :: r) (pos + f.length + 1) (by simp; omega)
  have hb1 : realloc J (c ++ 0 :: r) (P.formatSize pos f.length) = c.take pos ++ r' := by
    rw [hP.format]; rw [← List.append_assoc, List.take_append_drop] at hr; exact hr
  have hrl' : r'.length = f.length + 1 := by simp at hrl; omega
  simp only [formatTo, hb1]
  constructor
  · have := writeAt_mid (c.take pos) r' [] (f ++ [0]) (by simp [hrl'])
    simp [List.length_take, Nat.min_eq_left hpos] at this
    simpa using this
  · simp [Res.safe, Acc.inBounds, Acc.wr, hrl', Nat.min_eq_left hpos]

theorem format_out_buf {P : Params} (hP : P.Lawful) (J : Nat → Byte) (pos : Nat) (f c r : List Byte)
    (hpos : pos > c.length) :
    (∃ r', (formatTo P J ⟨c ++ 0 :: r⟩ pos f).st.buf = c ++ 0 :: r') ∧ (formatTo P J ⟨c ++ 0 :: r⟩ pos f).safe = true := by
  obtain ⟨r', hr, hrl⟩ := realloc_prefix J (c ++ [0]) r (pos + f.length + 1) (by simp; omega)
  have hb1 : realloc J (c ++ 0 :: r) (P.formatSize pos f.length) = c ++ 0 :: r' := by
    rw [hP.format]; simpa using hr
  have hrl' : r'.length = pos + f.length - c.length := by simp at hrl; omega
  simp only [formatTo, hb1]
  constructor
  · unfold writeAt
    split
    · refine ⟨(r'.take (pos - c.length - 1)) ++ (f ++ [0]) ++ (c ++ 0 :: r').drop (pos + (f ++ [0]).length), ?_⟩
      have e : c ++ 0 :: r' = (c ++ [0]) ++ r' := by simp
      have : pos = (c ++ [0]).length + (pos - c.length - 1) := by simp; omega
      conv => lhs; rw [e]; arg 1; arg 1; rw [this, List.take_length_add_append]
      simp
    · exact ⟨r', rfl⟩
  · simp [Res.safe, Acc.inBounds, Acc.wr, hrl']; omega

/-! ### one step, in terms of the abstract string -/

theorem abs_view (c r : List Byte) (hc : (0 : Byte) ∉ c) : (Str.mk (c ++ 0 :: r)).abs = c := by
  simp only [Str.abs]; rw [cstrAt_view c r hc 0 (by omega)]; rfl

theorem wf_view (c r : List Byte) : (Str.mk (c ++ 0 :: r)).WF := by simp [Str.WF]

theorem Str.WF.view {s : Str} (h : s.WF) : ∃ c r, s = ⟨c ++ 0 :: r⟩ ∧ (0 : Byte) ∉ c ∧ s.abs = c := by
  obtain ⟨c, r, e, hc⟩ := decomp s.buf h
  refine ⟨c, r, ?_, hc, ?_⟩
  · cases s; simp_all
  · cases s; simp only at e; subst e; exact abs_view c r hc

theorem abs_nulFree (s : Str) : NulFree s.abs := by
  intro h
  have := mem_takeWhile_pos (l := s.buf.drop 0) h
  simp at this

/-- everything the property says about one mutating operation -/
structure StepOK (s : Str) (op : Op) (r : Res) : Prop where
  wf : r.st.WF
  abs : r.st.abs = Spec.step s.abs op
  safe : r.safe = true
  raises : r.out = .raised .ValueError ↔ Spec.raises s.abs op = true
  unchanged : Spec.raises s.abs op = true → r.st = s

theorem step_ok {P : Params} (hP : P.Lawful) (J : Nat → Byte) (s : Str) (op : Op) (hs : s.WF) (hop : op.NulFree) :
    StepOK s op (step P J s op) := by
  obtain ⟨c, r, rfl, hc, habs⟩ := hs.view
  cases op with
  | assign x =>
    obtain ⟨hb, hsafe⟩ := assign_buf hP J ⟨c ++ 0 :: r⟩ x
    have e : (step P J ⟨c ++ 0 :: r⟩ (.assign x)).st = ⟨x ++ 0 :: []⟩ := by
      show (assign P J _ x).st = _
      cases h : (assign P J ⟨c ++ 0 :: r⟩ x).st; rw [h] at hb; simp_all
    refine ⟨by rw [e]; exact wf_view _ _, by rw [e, abs_view x [] hop]; rfl, hsafe, by simp [step, assign, Spec.raises], by simp [Spec.raises]⟩
  | concat x =>
    obtain ⟨hb, hsafe⟩ := concat_buf hP J x c r hc
    have hcx : (0 : Byte) ∉ c ++ x := by simp only [List.mem_append, not_or]; exact ⟨hc, hop⟩
    have e : (step P J ⟨c ++ 0 :: r⟩ (.concat x)).st = ⟨(c ++ x) ++ 0 :: []⟩ := by
      show (concat P J _ x).st = _
      cases h : (concat P J ⟨c ++ 0 :: r⟩ x).st; rw [h] at hb; simp_all
    refine ⟨by rw [e]; exact wf_view _ _, by rw [e, abs_view _ [] hcx, habs]; rfl, hsafe, by simp [step, concat, Spec.raises], by simp [Spec.raises]⟩
  | append x =>
    obtain ⟨hb, hsafe⟩ := concat_buf hP J x c r hc
    have hcx : (0 : Byte) ∉ c ++ x := by simp only [List.mem_append, not_or]; exact ⟨hc, hop⟩
    have e : (step P J ⟨c ++ 0 :: r⟩ (.append x)).st = ⟨(c ++ x) ++ 0 :: []⟩ := by
      show (concat P J _ x).st = _
      cases h : (concat P J ⟨c ++ 0 :: r⟩ x).st; rw [h] at hb; simp_all
    refine ⟨by rw [e]; exact wf_view _ _, by rw [e, abs_view _ [] hcx, habs]; rfl, hsafe, by simp [step, concat, Spec.raises], by simp [Spec.raises]⟩
  | resize n =>
    by_cases hn : n > c.length
    · obtain ⟨⟨r', hb⟩, _, hsafe⟩ := resize_grow_buf hP J n c r hc hn
      have e : (step P J ⟨c ++ 0 :: r⟩ (.resize n)).st = ⟨c ++ 0 :: r'⟩ := by
        show (resize P J _ n).st = _
        cases h : (resize P J ⟨c ++ 0 :: r⟩ n).st; rw [h] at hb; simp_all
      refine ⟨by rw [e]; exact wf_view _ _, ?_, hsafe, ?_, by simp [Spec.raises]⟩
      · rw [e, abs_view _ _ hc, habs]; simp only [Spec.step]; rw [List.take_of_length_le (by omega)]
      · simp only [step, resize]; split <;> simp [Spec.raises]
    · obtain ⟨hb, hsafe⟩ := resize_shrink_buf hP J n c r hc (by omega)
      have e : (step P J ⟨c ++ 0 :: r⟩ (.resize n)).st = ⟨c.take n ++ 0 :: []⟩ := by
        show (resize P J _ n).st = _
        cases h : (resize P J ⟨c ++ 0 :: r⟩ n).st; rw [h] at hb; simp_all
      refine ⟨by rw [e]; exact wf_view _ _, ?_, hsafe, ?_, by simp [Spec.raises]⟩
      · rw [e, abs_view _ _ (not_mem_take hc n), habs]; rfl
      · simp only [step, resize]; split <;> simp [Spec.raises]
  | clear =>
    obtain ⟨hb, hsafe⟩ := clear_buf hP J ⟨c ++ 0 :: r⟩
    have e : (step P J ⟨c ++ 0 :: r⟩ .clear).st = ⟨[] ++ 0 :: []⟩ := by
      show (clear P J _).st = _
      cases h : (clear P J ⟨c ++ 0 :: r⟩).st; rw [h] at hb; simp_all
    refine ⟨by rw [e]; exact wf_view _ _, by rw [e, abs_view [] [] (by simp)]; rfl, hsafe, by simp [step, clear, Spec.raises], by simp [Spec.raises]⟩
  | rem x =>
    rcases hf : findSub x c with _ | p
    · have hr := rem_absent_buf P c r x hc hf
      have hrf : removeFirst x c = none := by rw [removeFirst_eq, hf]; rfl
      refine ⟨by show (rem P _ x).st.WF; rw [hr]; exact wf_view _ _, ?_, ?_, ?_, ?_⟩
      · show (rem P _ x).st.abs = _; rw [hr, habs]; simp [Spec.step, hrf]
      · show (rem P _ x).safe = true; rw [hr]; simp [Res.safe, Acc.inBounds, Acc.rd]
      · show (rem P _ x).out = _ ↔ _; rw [hr, habs]; simp [Spec.raises, hrf]
      · intro _; show (rem P _ x).st = _; rw [hr]
    · obtain ⟨a, b, e, hl⟩ := findSub_some hf
      subst e; subst hl
      obtain ⟨⟨r', hb⟩, _, hout, hsafe⟩ := rem_found_buf hP a x b r hc hf
      have hrf : removeFirst x (a ++ x ++ b) = some (a ++ b) := by
        rw [removeFirst_eq, hf]; simp
      have hab : (0 : Byte) ∉ a ++ b := by
        simp only [List.mem_append, not_or] at hc ⊢; exact ⟨hc.1.1, hc.2⟩
      have e : (step P J ⟨a ++ x ++ b ++ 0 :: r⟩ (.rem x)).st = ⟨(a ++ b) ++ 0 :: r'⟩ := by
        show (rem P _ x).st = _
        cases h : (rem P ⟨a ++ x ++ b ++ 0 :: r⟩ x).st; rw [h] at hb; simp_all
      refine ⟨by rw [e]; exact wf_view _ _, ?_, hsafe, ?_, ?_⟩
      · rw [e, abs_view _ _ hab, habs]; simp only [Spec.step]; rw [hrf]; rfl
      · show (rem P _ x).out = _ ↔ _; rw [hout, habs]; simp only [Spec.raises]; rw [hrf]; simp
      · rw [habs]; simp only [Spec.raises]; rw [hrf]; simp
  | format pos f =>
    by_cases hpos : pos ≤ c.length
    · obtain ⟨hb, hsafe⟩ := format_in_buf hP J pos f c r hpos
      have hcf : (0 : Byte) ∉ c.take pos ++ f := by
        simp only [List.mem_append, not_or]; exact ⟨not_mem_take hc pos, hop⟩
      have e : (step P J ⟨c ++ 0 :: r⟩ (.format pos f)).st = ⟨(c.take pos ++ f) ++ 0 :: []⟩ := by
        show (formatTo P J _ pos f).st = _
        cases h : (formatTo P J ⟨c ++ 0 :: r⟩ pos f).st; rw [h] at hb; simp_all
      refine ⟨by rw [e]; exact wf_view _ _, ?_, hsafe, by simp [step, formatTo, Spec.raises], by simp [Spec.raises]⟩
      rw [e, abs_view _ _ hcf, habs]; simp [Spec.step, hpos]
    · obtain ⟨⟨r', hb⟩, hsafe⟩ := format_out_buf hP J pos f c r (by omega)
      have e : (step P J ⟨c ++ 0 :: r⟩ (.format pos f)).st = ⟨c ++ 0 :: r'⟩ := by
        show (formatTo P J _ pos f).st = _
        cases h : (formatTo P J ⟨c ++ 0 :: r⟩ pos f).st; rw [h] at hb; simp_all
      refine ⟨by rw [e]; exact wf_view _ _, ?_, hsafe, by simp [step, formatTo, Spec.raises], by simp [Spec.raises]⟩
      rw [e, abs_view _ _ hc, habs]; simp [Spec.step, hpos]

end Cello.Str
