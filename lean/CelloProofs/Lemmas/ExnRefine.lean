/-
  The refinement argument of C07 for the machine `runWith dec` of Cello/Exn.lean, for ANY filter walk `dec` that
  decides by membership on the filters of the program (and, for safety, never hangs). Instantiated in
  CelloProofs/Props/C07.lean with
    * the current walk by index (`catchDecision`, every filter: `catchDecision_membership`)  → `run`,
    * the OLD foreach walk (`catchDecisionOld`, duplicate-free filters only: `catchDecisionOld_nodup`) → `runOld`.
-/
import Cello.Exn
import CelloGen.Exn
import CelloProofs.Lemmas.ExnWalk
import CelloProofs.Lemmas.ExnDomain

namespace Cello.Exn

/-- What the machine must do from state `s`, given the reference outcome `ref` of the same program. -/
def Agrees (s : St) (r : St × List Ev × Sig) (ref : List Ev × Option Nat) : Prop :=
  match ref with
  | (t0, none) => r.2.1 = t0 ∧ r.2.2 = .normal ∧ r.1.depth = s.depth ∧ r.1.active = false
  | (t0, some e) => r.2.1 = t0 ∧ r.1.obj = e ∧ r.1.depth = s.depth ∧
      r.2.2 = (if s.depth ≥ 1 then .jump (s.depth - 1) else .fatal)

/-- the machine for the code as it is in /repo now: every source-derived switch is the one the translator read -/
def runNow : Prog → Nat → St → St × List Ev × Sig :=
  runCfg CelloGen.Exn.catchWalksFilterWithForeachEq CelloGen.Exn.catchConsumes CelloGen.Exn.maxDepth

/-- the catch filters that occur in a program -/
def filtersOf : Prog → List (List Nat)
  | .seq p q => filtersOf p ++ filtersOf q
  | .call p => filtersOf p
  | .tryCatch b f h => filtersOf b ++ f :: filtersOf h
  | _ => []

/-- `dec` decides filter `f` by membership (empty = catch all) for every real object -/
def ByMembership (dec : List Nat → Nat → Walk) (f : List Nat) : Prop :=
  ∀ obj, obj ≠ 0 → dec f obj = if fmatch f obj then .matched else .exhausted

theorem nodupFilters_filtersOf (p : Prog) : nodupFilters p = true → ∀ f ∈ filtersOf p, f.Nodup := by
  induction p with
  | seq p q ihp ihq =>
    intro h f hf
    simp only [nodupFilters, Bool.and_eq_true] at h
    simp only [filtersOf, List.mem_append] at hf
    rcases hf with hf | hf
    · exact ihp h.1 f hf
    · exact ihq h.2 f hf
  | call p ih => intro h f hf; exact ih (by simpa [nodupFilters] using h) f (by simpa [filtersOf] using hf)
  | tryCatch b g h ihb ihh =>
    intro hn f hf
    simp only [nodupFilters, Bool.and_eq_true, decide_eq_true_eq] at hn
    simp only [filtersOf, List.mem_append, List.mem_cons] at hf
    rcases hf with hf | hf | hf
    · exact ihb hn.1.1 f hf
    · subst hf; exact hn.1.2
    · exact ihh hn.2 f hf
  | stmt _ => intro _ f hf; simp [filtersOf] at hf
  | throw _ => intro _ f hf; simp [filtersOf] at hf
  | throwBad _ => intro _ f hf; simp [filtersOf] at hf
  | rethrow => intro _ f hf; simp [filtersOf] at hf

/-- inside the object domain no filter lists NULL -/
theorem inDomain_filtersOf (p : Prog) : inDomain p = true → ∀ f ∈ filtersOf p, 0 ∉ f := by
  induction p with
  | seq p q ihp ihq =>
    intro h f hf
    simp only [inDomain, Bool.and_eq_true] at h
    simp only [filtersOf, List.mem_append] at hf
    rcases hf with hf | hf
    · exact ihp h.1 f hf
    · exact ihq h.2 f hf
  | call p ih => intro h f hf; exact ih (by simpa [inDomain] using h) f (by simpa [filtersOf] using hf)
  | tryCatch b g h ihb ihh =>
    intro hn f hf
    simp only [inDomain, Bool.and_eq_true] at hn
    simp only [filtersOf, List.mem_append, List.mem_cons] at hf
    rcases hf with hf | hf | hf
    · exact ihb hn.1.1 f hf
    · subst hf; simpa using hn.1.2
    · exact ihh hn.2 f hf
  | stmt _ => intro _ f hf; simp [filtersOf] at hf
  | throw _ => intro _ f hf; simp [filtersOf] at hf
  | throwBad _ => intro _ f hf; simp [filtersOf] at hf
  | rethrow => intro _ f hf; simp [filtersOf] at hf

/-- **Refinement, for any filter walk that decides the program's filters by membership.** -/
theorem runWith_refines (dec : List Nat → Nat → Walk) (maxDepth : Nat) (p : Prog) :
    ∀ (x : Nat) (s : St), s.active = false → s.depth + nest p ≤ maxDepth →
      x ≠ 0 → inDomain p = true → (∀ f ∈ filtersOf p, ByMembership dec f) →
      Agrees s (runWith dec true maxDepth p x s) (eval p x) := by
  induction p with
  | stmt t => intro x s h _ _ _ _; simp [runWith, eval, Agrees, h]
  | throw e => intro x s h _ _ _ _; simp only [runWith, throwObj, eval, Agrees]; split <;> simp_all
  | throwBad e => intro x s _ _ _ hd _; simp [inDomain] at hd
  | rethrow => intro x s h _ _ _ _; simp only [runWith, throwObj, eval, Agrees]; split <;> simp_all
  | call p ih =>
    intro x s h hn hx hd hf
    simpa [runWith, eval] using ih x s h (by simpa [nest] using hn) hx (by simpa [inDomain] using hd)
      (by simpa [filtersOf] using hf)
  | seq p q ihp ihq =>
    intro x s h hn hx hd hf
    simp only [inDomain, Bool.and_eq_true] at hd
    have hfp : ∀ f ∈ filtersOf p, ByMembership dec f := fun f hm => hf f (by simp [filtersOf, hm])
    have hfq : ∀ f ∈ filtersOf q, ByMembership dec f := fun f hm => hf f (by simp [filtersOf, hm])
    have hnp : s.depth + nest p ≤ maxDepth := by simp only [nest] at hn; omega
    have hnq : s.depth + nest q ≤ maxDepth := by simp only [nest] at hn; omega
    have hp := ihp x s h hnp hx hd.1 hfp
    simp only [runWith, eval]
    rcases hev : eval p x with ⟨t1, _ | e⟩
    · rw [hev] at hp; simp only [Agrees] at hp
      obtain ⟨h1, h2, h3, h4⟩ := hp
      rcases hr : runWith dec true maxDepth p x s with ⟨s1, t1', g1⟩
      rw [hr] at h1 h2 h3 h4; simp only at h1 h2 h3 h4
      subst h2 h1
      have hq := ihq x s1 h4 (by omega) hx hd.2 hfq
      rcases hev2 : eval q x with ⟨t2, _ | e2⟩ <;> rw [hev2] at hq <;> simp only [Agrees] at hq ⊢ <;>
        rcases hr2 : runWith dec true maxDepth q x s1 with ⟨s2, t2', g2⟩ <;> rw [hr2] at hq <;> simp_all
    · rw [hev] at hp; simp only [Agrees] at hp
      obtain ⟨h1, h2, h3, h4⟩ := hp
      rcases hr : runWith dec true maxDepth p x s with ⟨s1, t1', g1⟩
      rw [hr] at h1 h2 h3 h4; simp only at h1 h2 h3 h4
      simp only [Agrees]
      by_cases hd : s.depth ≥ 1 <;> simp_all
  | tryCatch b f h ihb ihh =>
    intro x s hs hn hx hd hf
    simp only [inDomain, Bool.and_eq_true] at hd
    have hfb : ∀ g ∈ filtersOf b, ByMembership dec g := fun g hm => hf g (by simp [filtersOf, hm])
    have hfh : ∀ g ∈ filtersOf h, ByMembership dec g := fun g hm => hf g (by simp [filtersOf, hm])
    have hff : ByMembership dec f := hf f (by simp [filtersOf])
    have hnb : s.depth + 1 + nest b ≤ maxDepth := by simp only [nest] at hn; omega
    have hnh : s.depth + nest h ≤ maxDepth := by simp only [nest] at hn; omega
    have hlt : s.depth ≠ maxDepth := by omega
    simp only [runWith, eval, hlt, if_false]
    have hb := ihb x { s with depth := s.depth + 1, active := false } rfl (by simpa using hnb) hx hd.1.1 hfb
    rcases hev : eval b x with ⟨t, _ | e⟩
    · -- body completes
      rw [hev] at hb; simp only [Agrees] at hb
      rcases hr : runWith dec true maxDepth b x { s with depth := s.depth + 1, active := false } with ⟨s2, t', g⟩
      rw [hr] at hb; simp only at hb
      obtain ⟨h1, h2, h3, h4⟩ := hb
      subst h1 h2
      simp only
      rw [catchPhase_inactive dec true _ f s2 t' s.depth h3 h4]
      simp [Agrees, h4]
    · -- body raises e: the jump targets exactly this block's buffer
      have he0 : e ≠ 0 := eval_exc_ne_zero b x e hx hd.1.1 (by rw [hev])
      rw [hev] at hb; simp only [Agrees] at hb
      rcases hr : runWith dec true maxDepth b x { s with depth := s.depth + 1, active := false } with ⟨s2, t', g⟩
      rw [hr] at hb; simp only at hb
      obtain ⟨h1, h2, h3, h4⟩ := hb
      simp only [Nat.le_add_left, ge_iff_le, if_true, Nat.add_sub_cancel] at h4
      subst h1 h4 h2
      simp only [if_true]
      have ho : ({ s2 with active := true } : St).obj ≠ 0 := he0
      have hdec := hff s2.obj he0
      by_cases hm : fmatch f s2.obj = true
      · rw [catchPhase_match dec _ f { s2 with active := true } t' s.depth h3 rfl ho (by simpa [hm] using hdec)]
        simp only [hm, if_true]
        have hh := ihh s2.obj { s2 with active := false, depth := s.depth } rfl (by simpa using hnh) he0 hd.2 hfh
        rcases hev2 : eval h s2.obj with ⟨th, _ | e2⟩ <;> rw [hev2] at hh <;> simp only [Agrees] at hh ⊢ <;>
          rcases hr2 : runWith dec true maxDepth h s2.obj { s2 with active := false, depth := s.depth } with ⟨s6, th', g'⟩ <;>
          rw [hr2] at hh <;> simp_all
      · have hm' : fmatch f s2.obj = false := by simpa using hm
        rw [catchPhase_nomatch dec true _ f { s2 with active := true } t' s.depth h3 rfl (by simpa [hm'] using hdec)]
        simp [Agrees, hm']

/-- How a construct may end from `s` when nothing is assumed about the program: `normal` (depth restored, nothing
    pending), a jump to exactly the innermost enclosing live buffer (depth restored), `fatal` only at depth 0, `abort`
    (buffer overflow) — never a `longjmp` into a block that has been left, never a buffer underflow, and never a
    filter walk that does not end. -/
def Safe (s : St) (r : St × List Ev × Sig) : Prop :=
  match r.2.2 with
  | .normal => r.1.depth = s.depth ∧ r.1.active = false
  | .jump t => 1 ≤ s.depth ∧ t = s.depth - 1 ∧ r.1.depth = s.depth
  | .fatal => s.depth = 0
  | .abort => True
  | .hang => False
  | .ub => False

/-- **Safety with no hypothesis on the program**, for any filter walk that always ends. -/
theorem runWith_safe (dec : List Nat → Nat → Walk) (hdec : ∀ f obj, dec f obj ≠ .hang) (maxDepth : Nat) (p : Prog) :
    ∀ (x : Nat) (s : St), s.active = false → Safe s (runWith dec true maxDepth p x s) := by
  induction p with
  | stmt t => intro x s h; simp [runWith, Safe, h]
  | throw e => intro x s h; simp only [runWith, throwObj]; split <;> simp_all [Safe] <;> omega
  | throwBad e => intro x s h; simp only [runWith, throwObj]; split <;> simp_all [Safe] <;> omega
  | rethrow => intro x s h; simp only [runWith, throwObj]; split <;> simp_all [Safe] <;> omega
  | call p ih => intro x s h; simpa [runWith] using ih x s h
  | seq p q ihp ihq =>
    intro x s h
    have hp := ihp x s h
    simp only [runWith]
    rcases hr : runWith dec true maxDepth p x s with ⟨s1, t1, g1⟩
    rw [hr] at hp
    cases g1 with
    | normal =>
      simp only [Safe] at hp
      have hq := ihq x s1 hp.2
      rcases hr2 : runWith dec true maxDepth q x s1 with ⟨s2, t2, g2⟩
      rw [hr2] at hq
      cases g2 <;> simp_all [Safe]
    | _ => simp_all [Safe]
  | tryCatch b f h ihb ihh =>
    intro x s hs
    simp only [runWith]
    by_cases hlt : s.depth = maxDepth
    · simp [hlt, Safe]
    · simp only [hlt, if_false]
      have hb := ihb x { s with depth := s.depth + 1, active := false } rfl
      rcases hr : runWith dec true maxDepth b x { s with depth := s.depth + 1, active := false } with ⟨s2, t, g⟩
      rw [hr] at hb
      -- what catchPhase does from a state one level in, pending or not
      have key : ∀ s3 : St, s3.depth = s.depth + 1 →
          Safe s (catchPhase dec true (runWith dec true maxDepth h) f s3 t) := by
        intro s3 hd3
        simp only [catchPhase, hd3, Nat.add_one_ne_zero, if_false, Nat.add_sub_cancel]
        cases hact : s3.active with
        | false => simp [Safe]
        | true =>
          simp only [Bool.not_true, Bool.false_eq_true, if_false]
          cases hdc : dec f s3.obj with
          | matched =>
            simp only [if_true]
            by_cases ho : s3.obj = 0
            · simp [ho, Safe]
            · simp only [ho, if_false]
              have hh := ihh s3.obj { depth := s.depth, active := false, obj := s3.obj } rfl
              rcases hr3 : runWith dec true maxDepth h s3.obj { depth := s.depth, active := false, obj := s3.obj } with ⟨s6, th, g6⟩
              rw [hr3] at hh
              cases g6 <;> simp_all [Safe]
          | exhausted =>
            by_cases hd : s.depth ≥ 1 <;> simp [hd, Safe] <;> omega
          | hang => exact absurd hdc (hdec f s3.obj)
          | nullCmp =>
            by_cases hd : s.depth ≥ 1 <;> simp [hd, Safe] <;> omega
          | cmpRaises exc =>
            by_cases hd : s.depth ≥ 1 <;> simp [hd, Safe] <;> omega
      cases g with
      | normal => simp only [Safe] at hb; exact key s2 hb.1
      | jump tgt =>
        simp only [Safe] at hb
        obtain ⟨_, ht, hd2⟩ := hb
        have : tgt = s.depth := by simpa using ht
        subst this
        simp only [if_true]
        exact key { s2 with active := true } hd2
      | fatal => simp [Safe] at hb
      | abort => simp [Safe]
      | hang => simp [Safe] at hb
      | ub => simp [Safe] at hb

end Cello.Exn
