/-
  CelloProofs/Lemmas/OwnCompose.lean — C05: the ownership steps of Cello/Own.lean (`tableSet`, `treeSet`, `mapRem`,
  `mapResize`, `mapSetMany`, `mapAssign`) are what the *concrete* container models do to the tokens they store.

  Composition of three things that exist independently:
    * Cello/OwnConc.lean — the Table / Tree operations with their ownership events, running on C02's slot-array model
      (`Cello.Table.Tab Nat KV`) and C03's red-black tree model (`Cello.RB.Tree Tok Tok`);
    * the representation theorems of those models (read-only imports): `Table.set_rep / rem_rep / resize_rep /
      setMove_rep0 / get_rep / foreach_perm` under `Rep` (Lemmas/Table*.lean, RH*.lean), `RB.set_valid / rem_valid /
      toList_insAt / toList_remAt / toList_setFix / ctx_remFix` under `Valid` (Lemmas/RB*.lean);
    * the abstract steps of Cello/Own.lean and their conservation lemmas (Lemmas/OwnMap.lean).

  Result: for a slot array / tree that represents the association list `kvs` (`AbsT` / `AbsR`), every operation of the
  concrete model succeeds (no `ub`, no `diverge`, no NULL dereference), issues / retires / updates exactly the tokens the
  abstract step says, and the new slot array / tree represents the abstract step's result; hence
  `stored tokens after ++ retired ~ stored tokens before ++ issued` over rehash, displacement through the swap spaces,
  backward shift, rotations, recolouring and the predecessor copy.  A concrete model that dropped or duplicated a record
  in any of those moves would make `Rep` / `Valid` unprovable upstream, or these lemmas here.
-/
import CelloProofs.Lemmas.OwnMap
import CelloProofs.Lemmas.TableErase
import CelloProofs.Lemmas.RBValid
import Cello.OwnConc
set_option linter.unusedVariables false
set_option linter.unusedSectionVars false
set_option linter.unusedSimpArgs false

namespace Cello.Own.Conc
open List Cello.Own

/-! ## generic: removing the one pair with key `k` -/

/-- the table model's binding for one abstract pair: the payload the key hashes / compares by ↦ the record's two tokens -/
def kvKey (kv : KV) : Nat × KV := (kv.1.pay, kv)

theorem map_snd_kvKey (kvs : List KV) : (kvs.map kvKey).map Prod.snd = kvs := by
  induction kvs with
  | nil => rfl
  | cons x xs ih => simp [kvKey, ih]

theorem map_fst_kvKey (kvs : List KV) : (kvs.map kvKey).map Prod.fst = keys kvs := by
  simp [keys, kvKey, List.map_map, Function.comp_def]

/-- what `r` and the abstract result `a` must agree on: related values, the same constructions in the same order, the
    same finalisations (as a multiset: `clear` walks the slots / nodes, the abstract step the sorted list), the same
    in-place assignments, the same outcome -/
def ResRel {γ : Type} (R : γ → List KV → Prop) (r : Res γ) (a : Res (List KV)) : Prop :=
  R r.val a.val ∧ r.issued = a.issued ∧ r.retired ~ a.retired ∧ r.updated = a.updated ∧ r.out = a.out

theorem mapSetMany_out (mk : MapKind) (n : Nat) (kvs : List KV) (ps : List (Nat × Nat)) :
    (mapSetMany mk n kvs ps).out = .ok := by cases ps <;> rfl

theorem rest_keys_ne {kvs rest : List KV} {old : KV} {k : Nat} (hp : kvs ~ old :: rest) (hk : old.1.pay = k)
    (hnd : (keys kvs).Nodup) : ∀ x ∈ rest, x.1.pay ≠ k := by
  intro x hx hxk
  have := (keys_perm hp).nodup_iff.mp hnd
  simp only [keys, List.map_cons, List.nodup_cons, hk] at this
  exact this.1 (List.mem_map.mpr ⟨x, hx, hxk⟩)


theorem ResRel.mono {γ : Type} {R R' : γ → List KV → Prop} {r : Res γ} {a : Res (List KV)}
    (h : ResRel R r a) (hR : R r.val a.val → R' r.val a.val) : ResRel R' r a :=
  ⟨hR h.1, h.2⟩

/-- the concrete operation conserves the tokens the concrete container stores, because the abstract step conserves and
    the two containers hold the same tokens before and after -/
theorem conserves_lift {γ : Type} {R : γ → List KV → Prop} {toks : γ → List Tok}
    (hR : ∀ x kvs, R x kvs → toks x ~ kvToks kvs) {x : γ} {kvs : List KV} (hx : R x kvs)
    {r : Res γ} {a : Res (List KV)} (h : ResRel R r a)
    (hc : Conserves (kvToks kvs) (kvToks a.val) a.issued a.retired) :
    Conserves (toks x) (toks r.val) r.issued r.retired := by
  obtain ⟨h1, h2, h3, _, _⟩ := h
  unfold Conserves at hc ⊢
  rw [h2]
  exact (ids_perm ((hR _ _ h1).append h3)).trans (hc.trans (ids_perm ((hR _ _ hx).symm.append_right _)))

/-! ## Table -/
section table
open Cello.Table RH

variable {hash : Nat → Nat} {cfg : Cfg}

/-- the slot array `t` holds exactly the pairs `kvs` (each once, keyed by its key's payload), satisfies the robin-hood
    invariant, `nitems` counts them and there is an empty slot -/
def AbsT (hash : Nat → Nat) (t : CTab) (kvs : List KV) : Prop := Rep hash t (kvs.map kvKey)

theorem rep0_perm {t : CTab} {m m' : Spec Nat KV} (r : Rep0 hash t m) (h : m ~ m') : Rep0 hash t m' :=
  ⟨r.toWF, (h.map _).nodup_iff.mp r.nodup, by rw [← h.length_eq]; exact r.len, fun k v => by rw [r.has, h.mem_iff]⟩

theorem rep_perm {t : CTab} {m m' : Spec Nat KV} (r : Rep hash t m) (h : m ~ m') : Rep hash t m' :=
  ⟨rep0_perm r.toRep0 h, r.room⟩

theorem slotKVs_eq {t : CTab} (w : WF hash t) : slotKVs t = (foreach t).map Prod.snd := by
  rw [foreach_eq hash t w, entriesList, List.map_filterMap]
  unfold slotKVs
  congr 1
  funext o
  cases o <;> rfl

/-- the slot array holds the abstract pairs, as a multiset -/
theorem slotKVs_perm0 {t : CTab} {kvs : List KV} (R : Rep0 hash t (kvs.map kvKey)) : slotKVs t ~ kvs := by
  rw [slotKVs_eq R.toWF]
  have := (foreach_perm hash t _ R).map Prod.snd
  rwa [map_snd_kvKey] at this

theorem slotKVs_perm {t : CTab} {kvs : List KV} (R : AbsT hash t kvs) : slotKVs t ~ kvs := slotKVs_perm0 R.toRep0

theorem tabToks_perm {t : CTab} {kvs : List KV} (R : AbsT hash t kvs) : tabToks t ~ kvToks kvs :=
  kvToks_perm (slotKVs_perm R)

theorem AbsT.keys_nodup {t : CTab} {kvs : List KV} (R : AbsT hash t kvs) : (keys kvs).Nodup := by
  have := R.nodup; rwa [map_fst_kvKey] at this

theorem spec_get_kvKey (kvs : List KV) (k : Nat) :
    Spec.get (kvs.map kvKey) k = (takeFirst (keyIs k) kvs).map Prod.fst := by
  induction kvs with
  | nil => rfl
  | cons x xs ih =>
    simp only [Spec.get, List.map_cons, List.find?_cons, takeFirst, keyIs, kvKey] at ih ⊢
    by_cases h : x.1.pay = k
    · simp [h]
    · simp only [h, decide_false, beq_iff_eq, if_false]
      rw [ih]
      cases hq : takeFirst (keyIs k) xs with
      | none => simp [hq]
      | some q => simp [hq]

/-- the probing loop finds the pair the abstract step takes out -/
theorem resident_abs {t : CTab} {kvs : List KV} (R : AbsT hash t kvs) (k : Nat) :
    resident hash t k = .ok ((takeFirst (keyIs k) kvs).map Prod.fst) := by
  unfold resident
  rw [get_rep hash t _ R k, spec_get_kvKey]
  cases takeFirst (keyIs k) kvs <;> rfl

theorem spec_rem_some {kvs rest : List KV} {old : KV} {k : Nat} (hq : takeFirst (keyIs k) kvs = some (old, rest))
    (hnd : (keys kvs).Nodup) : Spec.rem (kvs.map kvKey) k ~ rest.map kvKey := by
  obtain ⟨hp, hk⟩ := takeKey_some hq
  have h1 : Spec.rem (kvs.map kvKey) k ~ Spec.rem ((old :: rest).map kvKey) k := (hp.map kvKey).filter _
  refine h1.trans ?_
  have hne := rest_keys_ne hp hk hnd
  simp only [Spec.rem, List.map_cons, List.filter_cons, kvKey, hk, decide_true, Bool.not_true, Bool.false_eq_true, if_false]
  rw [List.filter_eq_self.mpr]
  intro p hp'
  obtain ⟨x, hx, rfl⟩ := List.mem_map.mp hp'
  simp [kvKey, hne x hx]

theorem spec_rem_none {kvs : List KV} {k : Nat} (hq : takeFirst (keyIs k) kvs = none) :
    Spec.rem (kvs.map kvKey) k = kvs.map kvKey := by
  apply spec_rem_absent
  intro v hv
  obtain ⟨x, hx, he⟩ := List.mem_map.mp hv
  simp only [kvKey, Prod.mk.injEq] at he
  exact takeKey_none hq (List.mem_map.mpr ⟨x, hx, he.1⟩)

/-- **`Table_Set` on the slot array = `tableSet` on the association list.**  Under the source's parameters (`GoodCfg`:
    strict displacement test, an empty table grows first, `Table_Ideal_Size n > n`) and for every hash function: the
    model of `Table_Set` (possible first growth, probing with displacement through the swap spaces or replacement of the
    resident with an equal key, possible rehash into the next prime) succeeds, constructs the two tokens `tableSet`
    says, destructs exactly the pair `tableSet` says, and the resulting slot array holds exactly `tableSet`'s pairs. -/
theorem tableSetC_refines (g : GoodCfg cfg) {t : CTab} {kvs : List KV} (R : AbsT hash t kvs) (next k v : Nat) :
    ∃ r, tableSetC cfg hash next t k v = .ok r ∧ ResRel (AbsT hash) r (tableSet next kvs k v) := by
  obtain ⟨t', e, r'⟩ := set_rep cfg g hash t _ R k ((⟨next, k⟩ : Tok), (⟨next + 1, v⟩ : Tok))
  have he : tableSetC cfg hash next t k v =
      .ok (Res.mk t' [⟨next, k⟩, ⟨next + 1, v⟩] (retiredOf ((takeFirst (keyIs k) kvs).map Prod.fst)) [] .ok) := by
    simp only [tableSetC, resident_abs R k, e]
  refine ⟨_, he, ?_⟩
  simp only [tableSet]
  cases hq : takeFirst (keyIs k) kvs with
  | none =>
    refine ⟨?_, rfl, by simp [retiredOf], rfl, rfl⟩
    show Rep hash t' _
    refine rep_perm r' ?_
    simp only [Spec.set, spec_rem_none hq]
    have := ((mapInsert_perm ((⟨next, k⟩ : Tok), (⟨next + 1, v⟩ : Tok)) kvs).map kvKey).symm
    simpa [kvKey] using this
  | some q =>
    obtain ⟨old, rest⟩ := q
    refine ⟨?_, rfl, by simp [retiredOf], rfl, rfl⟩
    show Rep hash t' _
    refine rep_perm r' ?_
    simp only [Spec.set]
    have := ((mapInsert_perm ((⟨next, k⟩ : Tok), (⟨next + 1, v⟩ : Tok)) rest).map kvKey).symm
    exact ((spec_rem_some hq R.keys_nodup).cons _).trans (by simpa [kvKey] using this)

/-- **`Table_Rem` on the slot array = `mapRem` on the association list**: KeyError and nothing changed for an absent key;
    otherwise exactly the found pair is destructed and, after the backward shift and a possible rehash into a smaller
    array, the slot array holds exactly the remaining pairs. -/
theorem tableRemC_refines (g : GoodCfg cfg) {t : CTab} {kvs : List KV} (R : AbsT hash t kvs) (k : Nat) :
    ∃ r, tableRemC cfg hash t k = .ok r ∧ ResRel (AbsT hash) r (mapRem kvs k) := by
  obtain ⟨t', e, r'⟩ := rem_rep cfg g hash t _ R k
  rw [spec_get_kvKey] at e r'
  simp only [mapRem]
  cases hq : takeFirst (keyIs k) kvs with
  | none =>
    rw [hq] at e r'
    have he : tableRemC cfg hash t k = .ok { val := t', out := .raised .keyError } := by
      simp only [tableRemC, resident_abs R k, e, hq, Option.map]
    refine ⟨_, he, ?_⟩
    exact ⟨r', rfl, Perm.refl _, rfl, rfl⟩
  | some q =>
    obtain ⟨old, rest⟩ := q
    rw [hq] at e r'
    have he : tableRemC cfg hash t k = .ok { val := t', retired := retiredOf (some old) } := by
      simp only [tableRemC, resident_abs R k, e, hq, Option.map]
    refine ⟨_, he, ?_⟩
    exact ⟨rep_perm r' (spec_rem_some hq R.keys_nodup), rfl, by simp [retiredOf], rfl, rfl⟩

/-- **`Table_Resize` on the slot array = `mapResize .table`**: 0 destructs every stored pair; a size below the number of
    items is refused with nothing changed; any other size rehashes every record into a fresh array of
    `Table_Ideal_Size(n)` slots — and the fresh array holds exactly the same pairs. -/
theorem tableResizeC_refines (g : GoodCfg cfg) {t : CTab} {kvs : List KV} (R : AbsT hash t kvs) (n : Nat) :
    ∃ r, tableResizeC cfg hash t n = .ok r ∧ ResRel (AbsT hash) r (mapResize .table kvs n) := by
  by_cases h0 : n = 0
  · subst h0
    have he : tableResizeC cfg hash t 0 = .ok { val := Table.clear t, retired := tabToks t } := by
      simp only [tableResizeC, if_true]
    refine ⟨_, he, ?_⟩
    simp only [mapResize, if_true, mapClear]
    exact ⟨rep_empty_zero hash, rfl, tabToks_perm R, rfl, rfl⟩
  · obtain ⟨t', e, r'⟩ := resize_rep cfg g hash t _ R n
    simp only [h0, if_false, List.length_map] at e r'
    simp only [mapResize, h0, if_false]
    by_cases hlt : n < kvs.length
    · simp only [hlt, if_true] at e ⊢
      have he : tableResizeC cfg hash t n = .ok { val := t', out := .raised .formatError } := by
        simp only [tableResizeC, h0, if_false, e]
      exact ⟨_, he, r', rfl, Perm.refl _, rfl, rfl⟩
    · simp only [hlt, if_false] at e ⊢
      have he : tableResizeC cfg hash t n = .ok { val := t' } := by
        simp only [tableResizeC, h0, if_false, e]
      exact ⟨_, he, r', rfl, Perm.refl _, rfl, rfl⟩


/-! ### pure moves -/

theorem slotKVs_perm_spec {t : CTab} {m : Spec Nat KV} (R : Rep0 hash t m) : slotKVs t ~ m.map Prod.snd := by
  rw [slotKVs_eq R.toWF]
  exact (foreach_perm hash t _ R).map Prod.snd

/-- **`Table_Rehash` only moves**: every record of the old array is re-inserted (with displacement) into the fresh one;
    the fresh array holds exactly the same pairs of tokens — none dropped, none doubled -/
theorem rehash_moves {t : CTab} {m : Spec Nat KV} (R : Rep0 hash t m) (newSize : Nat) (hbig : t.nitems < newSize) :
    ∃ t', rehash cfg hash t newSize = .ok t' ∧ t'.n = newSize ∧ slotKVs t' ~ slotKVs t := by
  obtain ⟨t', e, hn, r'⟩ := rehash_rep cfg hash t m R newSize hbig
  exact ⟨t', e, hn, (slotKVs_perm_spec r'.toRep0).trans (slotKVs_perm_spec R).symm⟩

/-- **displacement only moves**: `Table_Set_Move` of a record whose key is not stored, carried through the swap spaces
    past the residents it displaces: afterwards the array holds the old records and the new one -/
theorem setMove_moves (hge : cfg.ge = false) {t : CTab} {m : Spec Nat KV} (R : Rep0 hash t m) (hroom : t.nitems < t.n)
    (k : Nat) (kv : KV) (hfresh : ∀ v, (k, v) ∉ m) :
    ∃ t', setMove cfg hash t k kv = .ok t' ∧ slotKVs t' ~ kv :: slotKVs t := by
  obtain ⟨t', e, _, r'⟩ := setMove_rep0 cfg hge hash t m R hroom k kv
  refine ⟨t', e, (slotKVs_perm_spec r').trans ?_⟩
  simp only [Spec.set, spec_rem_absent m k hfresh, List.map_cons]
  exact (slotKVs_perm_spec R).symm.cons _

/-! ### constructor with initial pairs, assignment from another map -/

theorem spec_set_tableSet {kvs : List KV} (hnd : (keys kvs).Nodup) (next k v : Nat) :
    Spec.set (kvs.map kvKey) k ((⟨next, k⟩ : Tok), (⟨next + 1, v⟩ : Tok)) ~ (tableSet next kvs k v).val.map kvKey ∧
    retiredOf ((takeFirst (keyIs k) kvs).map Prod.fst) = (tableSet next kvs k v).retired ∧
    (tableSet next kvs k v).issued = [⟨next, k⟩, ⟨next + 1, v⟩] ∧ (tableSet next kvs k v).updated = [] ∧
    (tableSet next kvs k v).out = .ok ∧ (tableSet next kvs k v).val.length ≤ kvs.length + 1 := by
  simp only [tableSet]
  cases hq : takeFirst (keyIs k) kvs with
  | none =>
    refine ⟨?_, rfl, rfl, rfl, rfl, by rw [(mapInsert_perm _ _).length_eq]; simp⟩
    simp only [Spec.set, spec_rem_none hq]
    have := ((mapInsert_perm ((⟨next, k⟩ : Tok), (⟨next + 1, v⟩ : Tok)) kvs).map kvKey).symm
    simpa [kvKey] using this
  | some q =>
    obtain ⟨old, rest⟩ := q
    have hlen : rest.length + 1 = kvs.length := by simpa using (takeKey_some hq).1.length_eq.symm
    refine ⟨?_, rfl, rfl, rfl, rfl, by rw [(mapInsert_perm _ _).length_eq]; simp; omega⟩
    simp only [Spec.set]
    have := ((mapInsert_perm ((⟨next, k⟩ : Tok), (⟨next + 1, v⟩ : Tok)) rest).map kvKey).symm
    exact ((spec_rem_some hq hnd).cons _).trans (by simpa [kvKey] using this)

/-- what the insertion loop maintains: the representation without the spare slot, the array size, a bound on `nitems` -/
def FillRel (hash : Nat → Nat) (n bound : Nat) (t : CTab) (kvs : List KV) : Prop :=
  Rep0 hash t (kvs.map kvKey) ∧ t.n = n ∧ t.nitems ≤ bound

/-- **the insertion loop of `Table_New` / `Table_Assign` = `mapSetMany .table`**: as long as the array has room for all
    pairs, every `Table_Set_Move` succeeds; a repeated key destructs the pair stored for it -/
theorem tableFillC_refines (hge : cfg.ge = false) :
    ∀ (ps : List (Nat × Nat)) (next : Nat) (t : CTab) (kvs : List KV), Rep0 hash t (kvs.map kvKey) →
      t.nitems + ps.length < t.n →
      ∃ r, tableFillC cfg hash next t ps = .ok r ∧
        ResRel (FillRel hash t.n (t.nitems + ps.length)) r (mapSetMany .table next kvs ps) := by
  intro ps
  induction ps with
  | nil =>
    intro next t kvs R _
    exact ⟨_, rfl, ⟨R, rfl, by simp⟩, rfl, Perm.refl _, rfl, rfl⟩
  | cons p ps ih =>
    intro next t kvs R hroom
    obtain ⟨k, v⟩ := p
    simp only [List.length_cons] at hroom
    have hnd : (keys kvs).Nodup := by have := R.nodup; rwa [map_fst_kvKey] at this
    have RR : AbsT hash t kvs := ⟨R, Or.inl (by omega)⟩
    obtain ⟨t1, e1, n1, r1⟩ := setMove_rep0 cfg hge hash t _ R (by omega) k ((⟨next, k⟩ : Tok), (⟨next + 1, v⟩ : Tok))
    obtain ⟨s1, s2, s3, s4, s5, s6⟩ := spec_set_tableSet hnd next k v
    have r1' := rep0_perm r1 s1
    have hni : t1.nitems ≤ t.nitems + 1 := by
      have h1 := r1'.len; have h2 := R.len
      simp only [List.length_map] at h1 h2
      omega
    obtain ⟨r, e, ⟨hrep, hn, hb⟩, hi, hr, hu, ho⟩ := ih (next + 2) t1 _ r1' (by rw [n1]; omega)
    have he : tableFillC cfg hash next t ((k, v) :: ps) =
        .ok (Res.mk r.val (⟨next, k⟩ :: ⟨next + 1, v⟩ :: r.issued)
          (retiredOf ((takeFirst (keyIs k) kvs).map Prod.fst) ++ r.retired) r.updated .ok) := by
      simp only [tableFillC, resident_abs RR k, e1, e]
    refine ⟨_, he, ?_⟩
    have hms : mapSetMany .table next kvs ((k, v) :: ps) =
        { val := (mapSetMany .table (next + 2) (tableSet next kvs k v).val ps).val,
          issued := (tableSet next kvs k v).issued ++ (mapSetMany .table (next + 2) (tableSet next kvs k v).val ps).issued,
          retired := (tableSet next kvs k v).retired ++ (mapSetMany .table (next + 2) (tableSet next kvs k v).val ps).retired,
          updated := (tableSet next kvs k v).updated ++ (mapSetMany .table (next + 2) (tableSet next kvs k v).val ps).updated } := by
      simp only [mapSetMany, mapSet, s3, List.length_cons, List.length_nil]
    rw [hms]
    refine ⟨⟨hrep, by rw [hn, n1], by simp only [List.length_cons]; omega⟩, ?_, ?_, ?_, ?_⟩
    · simp only [s3, hi]; rfl
    · simp only [s2]; exact hr.append_left _
    · simp only [s4, hu]; rfl
    · rfl

/-- `Table_New` with initial pairs = `mapSetMany .table` from the empty map, and the new table has its spare slot -/
theorem tableNewC_refines (g : GoodCfg cfg) (next : Nat) (ps : List (Nat × Nat)) :
    ∃ r, tableNewC cfg hash next ps = .ok r ∧ ResRel (AbsT hash) r (mapSetMany .table next [] ps) := by
  have hid := g.ideal_gt ps.length
  obtain ⟨r, e, h⟩ := tableFillC_refines (hash := hash) g.strict ps next (Tab.empty (cfg.ideal ps.length)) []
    (rep_empty hash _ (by omega)).toRep0 (by simp only [Tab.empty]; omega)
  refine ⟨r, by simp only [tableNewC, if_neg (show ¬ cfg.ideal ps.length = 0 by omega), e], h.mono ?_⟩
  rintro ⟨h1, h2, h3⟩
  exact ⟨h1, Or.inl (by simp only [Tab.empty] at h2 h3; omega)⟩

/-- **`Table_Assign` from another map = `mapAssign .table`**: every pair the table held is destructed, one fresh pair is
    constructed per source pair, and the new slot array holds exactly those -/
theorem tableAssignC_refines (g : GoodCfg cfg) {t : CTab} {kvs : List KV} (R : AbsT hash t kvs) (next : Nat) (src : List KV) :
    ∃ r, tableAssignC cfg hash next t (src.map (fun kv => (kv.1.pay, kv.2.pay))) = .ok r ∧
      ResRel (AbsT hash) r (mapAssign .table next kvs src) := by
  obtain ⟨r, e, h1, h2, h3, h4, h5⟩ := tableNewC_refines (hash := hash) g next (src.map (fun kv => (kv.1.pay, kv.2.pay)))
  refine ⟨{ r with retired := tabToks t ++ r.retired }, by simp only [tableAssignC, e], ?_⟩
  simp only [mapAssign]
  exact ⟨h1, h2, (tabToks_perm R).append h3, h4, h5.trans (mapSetMany_out _ _ _ _)⟩


/-! ### histories -/

theorem tableStepC_refines (g : GoodCfg cfg) {t : CTab} {kvs : List KV} (R : AbsT hash t kvs) (next : Nat) (op : MOp) :
    ∃ r, tableStepC cfg hash next t op = .ok r ∧ ResRel (AbsT hash) r (absStep .table next kvs op) := by
  cases op with
  | set k v => exact tableSetC_refines g R next k v
  | rem k => exact tableRemC_refines g R k
  | resize n => exact tableResizeC_refines g R n
  | assign src => exact tableAssignC_refines g R next src

/-- **every history of `set / rem / resize / assign` on one Table**: the slot-array model never fails, and step by step
    it produces the events of, and represents the contents of, the association-list model of Cello/Own.lean -/
theorem tableRunC_refines (g : GoodCfg cfg) : ∀ (ops : List MOp) (next : Nat) (t : CTab) (kvs : List KV), AbsT hash t kvs →
    ∃ rs, tableRunC cfg hash next t ops = .ok rs ∧ List.Forall₂ (ResRel (AbsT hash)) rs (absRun .table next kvs ops) := by
  intro ops
  induction ops with
  | nil => intro next t kvs _; exact ⟨[], rfl, List.Forall₂.nil⟩
  | cons op ops ih =>
    intro next t kvs R
    obtain ⟨r, e, h⟩ := tableStepC_refines g R next op
    obtain ⟨rs, e2, h2⟩ := ih (next + r.issued.length) r.val _ h.1
    refine ⟨r :: rs, by simp only [tableRunC, e, e2], ?_⟩
    simp only [absRun]
    rw [← h.2.1]
    exact List.Forall₂.cons h h2

end table

/-! ## Tree -/
section tree
open Cello.RB Std

instance : OrientedCmp tokCmp :=
  ⟨fun {a b} => by unfold tokCmp; exact OrientedCmp.eq_swap (cmp := (compare : Nat → Nat → Ordering))⟩
instance : TransCmp tokCmp :=
  ⟨fun {a b c} h1 h2 => by
    unfold tokCmp at *; exact TransCmp.isLE_trans (cmp := (compare : Nat → Nat → Ordering)) h1 h2⟩
/-- reading back the two words of a probe element gives the element: the predecessor `memcpy` carries the identity -/
instance : LawfulPacked Tok := ⟨fun x => by cases x; simp [Packed.words, Packed.ofWords]⟩

theorem tokCmp_eq {a b : Tok} : tokCmp a b = .eq ↔ a.pay = b.pay := by unfold tokCmp; exact _root_.compare_eq_iff_eq
theorem tokCmp_lt {a b : Tok} : tokCmp a b = .lt ↔ a.pay < b.pay := by unfold tokCmp; exact _root_.compare_lt_iff_lt
theorem tokCmp_gt {a b : Tok} : tokCmp a b = .gt ↔ a.pay > b.pay := by unfold tokCmp; exact _root_.compare_gt_iff_gt

theorem fits_probe (a b : Tok) : Fits (probeSize, probeSize) (a, b) := ⟨rfl, rfl⟩

/-- the tree `m` is a valid red-black tree (black root, no red-red, equal black heights, strictly descending keys,
    `nitems` = number of nodes, node payloads of the Tree's sizes) over probe elements and holds exactly the pairs `kvs` -/
def AbsR (m : CTree) (kvs : List KV) : Prop :=
  Valid tokCmp m ∧ m.sizes = (probeSize, probeSize) ∧ treeKVs m ~ kvs

theorem absR_empty : AbsR treeEmpty [] := ⟨valid_mk0 _ _, rfl, Perm.refl _⟩

theorem treeToks_perm {m : CTree} {kvs : List KV} (R : AbsR m kvs) : treeToks m ~ kvToks kvs := kvToks_perm R.2.2

theorem desc_keys_nodup {l : List KV} (h : Desc tokCmp l) : (keys l).Nodup := by
  unfold keys
  rw [List.Nodup, List.pairwise_map]
  exact h.imp (fun {a b} hab => by have := tokCmp_gt.mp hab; omega)

theorem AbsR.keys_nodup {m : CTree} {kvs : List KV} (R : AbsR m kvs) : (keys kvs).Nodup :=
  (keys_perm R.2.2).nodup_iff.mp (desc_keys_nodup R.1.ordered)

theorem key_unique {l : List KV} (h : (keys l).Nodup) {a b : KV} (ha : a ∈ l) (hb : b ∈ l) (he : a.1.pay = b.1.pay) :
    a = b := List.inj_on_of_nodup_map h ha hb he

/-! ### the descent -/

theorem findKV_mem (t : T Tok Tok) (k : Nat) (kv : KV) (h : findKV t k = some kv) : kv ∈ toList t ∧ kv.1.pay = k := by
  induction t with
  | nil => simp [findKV] at h
  | node c l nk nv r ihl ihr =>
    simp only [findKV] at h
    cases hc : compare nk.pay k with
    | eq =>
      rw [hc] at h; simp only [Option.some.injEq] at h; subst h
      exact ⟨by simp [toList], _root_.compare_eq_iff_eq.mp hc⟩
    | lt => rw [hc] at h; have := ihl h; exact ⟨by simp [toList, this.1], this.2⟩
    | gt => rw [hc] at h; have := ihr h; exact ⟨by simp [toList, this.1], this.2⟩

theorem findKV_none (t : T Tok Tok) (k : Nat) (hd : Desc tokCmp (toList t)) (h : findKV t k = none) :
    ∀ x ∈ toList t, x.1.pay ≠ k := by
  induction t with
  | nil => simp [toList]
  | node c l nk nv r ihl ihr =>
    simp only [toList] at hd ⊢
    obtain ⟨hl, hr, hlx, hxr, hlr⟩ := desc_mid hd
    simp only [findKV] at h
    intro x hx
    cases hc : compare nk.pay k with
    | eq => rw [hc] at h; simp at h
    | lt =>
      rw [hc] at h
      have hnk := _root_.compare_lt_iff_lt.mp hc
      rcases List.mem_append.mp hx with hx | hx
      · exact ihl hl h x hx
      · rcases List.mem_cons.mp hx with rfl | hx
        · simp only; omega
        · have := tokCmp_gt.mp (hxr x hx); simp only at this; omega
    | gt =>
      rw [hc] at h
      have hnk := _root_.compare_gt_iff_gt.mp hc
      rcases List.mem_append.mp hx with hx | hx
      · have := tokCmp_gt.mp (hlx x hx); simp only at this; omega
      · rcases List.mem_cons.mp hx with rfl | hx
        · simp only; omega
        · exact ihr hr h x hx

/-- the descent finds the pair the abstract step takes out -/
theorem findKV_abs {m : CTree} {kvs : List KV} (R : AbsR m kvs) (k : Nat) :
    findKV m.root k = (takeFirst (keyIs k) kvs).map Prod.fst := by
  have hnd := R.keys_nodup
  cases hq : takeFirst (keyIs k) kvs with
  | none =>
    have hk := takeKey_none hq
    cases hf : findKV m.root k with
    | none => rfl
    | some kv =>
      exfalso
      obtain ⟨h1, h2⟩ := findKV_mem _ _ _ hf
      exact hk (List.mem_map.mpr ⟨kv, R.2.2.mem_iff.mp h1, h2⟩)
  | some q =>
    obtain ⟨old, rest⟩ := q
    obtain ⟨hp, hk⟩ := takeKey_some hq
    have hold : old ∈ kvs := hp.mem_iff.mpr (by simp)
    cases hf : findKV m.root k with
    | none =>
      exfalso
      exact findKV_none _ _ R.1.ordered hf old (R.2.2.mem_iff.mpr hold) hk
    | some kv =>
      obtain ⟨h1, h2⟩ := findKV_mem _ _ _ hf
      simp only [Option.map_some, Option.some.injEq]
      exact key_unique hnd (R.2.2.mem_iff.mp h1) hold (by rw [h2, hk])

/-! ### the specification list: inserting / removing the one pair with a given key payload -/

theorem spec_absent (l : List KV) (q v : Tok) (hk : ∀ x ∈ l, x.1.pay ≠ q.pay) :
    Spec.get tokCmp q l = none ∧ Spec.set tokCmp q v l ~ (q, v) :: l ∧ Spec.rem tokCmp q l = l := by
  induction l with
  | nil => exact ⟨rfl, Perm.refl _, rfl⟩
  | cons x l ih =>
    obtain ⟨xk, xv⟩ := x
    have hx : xk.pay ≠ q.pay := hk (xk, xv) (by simp)
    obtain ⟨i1, i2, i3⟩ := ih (fun y hy => hk y (by simp [hy]))
    have hne : tokCmp xk q ≠ .eq := fun h => hx (tokCmp_eq.mp h)
    refine ⟨by simp only [Spec.get, hne, if_false]; exact i1, ?_, by simp only [Spec.rem, hne, if_false, i3]⟩
    simp only [Spec.set]
    cases hc : tokCmp xk q with
    | eq => exact absurd hc hne
    | lt => exact Perm.refl _
    | gt => exact (i2.cons _).trans (Perm.swap _ _ _)

theorem spec_present (l : List KV) (hd : Desc tokCmp l) (old : KV) (q v : Tok) (hq : q.pay = old.1.pay) :
    ∀ rest, l ~ old :: rest →
      Spec.get tokCmp q l = some old.2 ∧ Spec.set tokCmp q v l ~ (q, v) :: rest ∧ Spec.rem tokCmp q l ~ rest := by
  induction l with
  | nil => intro rest hp; exact absurd hp.length_eq (by simp)
  | cons x l ih =>
    intro rest hp
    obtain ⟨xk, xv⟩ := x
    have hnd := desc_keys_nodup hd
    obtain ⟨hxl, hdl⟩ := desc_cons.mp hd
    have hold : old ∈ (xk, xv) :: l := hp.mem_iff.mpr (by simp)
    by_cases he : tokCmp xk q = .eq
    · have hx : (xk, xv) = old :=
        key_unique hnd (by simp) hold (by simp only; rw [tokCmp_eq.mp he, hq])
      subst hx
      have hr : l ~ rest := hp.cons_inv
      exact ⟨by simp [Spec.get, he], by simp only [Spec.set, he]; exact hr.cons _, by simp only [Spec.rem, he, if_true]; exact hr⟩
    · have hne : (xk, xv) ≠ old := by
        rintro rfl; exact he (tokCmp_eq.mpr hq.symm)
      have holdl : old ∈ l := by
        rcases List.mem_cons.mp hold with h | h
        · exact absurd h.symm hne
        · exact h
      have hl : l ~ old :: l.erase old := List.perm_cons_erase holdl
      have hrest : rest ~ (xk, xv) :: l.erase old := by
        have h1 : old :: rest ~ old :: (xk, xv) :: l.erase old :=
          hp.symm.trans ((hl.cons _).trans (Perm.swap _ _ _))
        exact h1.cons_inv
      obtain ⟨i1, i2, i3⟩ := ih hdl _ hl
      have hgt : tokCmp xk q = .gt := by
        cases hc : tokCmp xk q with
        | eq => exact absurd hc he
        | gt => rfl
        | lt =>
          exfalso
          have h1 := tokCmp_lt.mp hc
          have h2 := tokCmp_gt.mp (hxl old holdl)
          simp only at h2; omega
      refine ⟨by simp only [Spec.get, he, if_false]; exact i1, ?_, ?_⟩
      · simp only [Spec.set, hgt]
        exact ((i2.cons _).trans (Perm.swap _ _ _)).trans (hrest.symm.cons _)
      · simp only [Spec.rem, he, if_false]
        exact (i3.cons _).trans hrest.symm

/-! ### the operations -/

/-- **`Tree_Set` on the red-black tree = `treeSet` on the association list.**  From a valid tree the model of `Tree_Set`
    (descent, in-place assignment onto the node with an equal key, or a fresh node followed by `Tree_Set_Fix`: recolouring
    and rotations up the parent chain) never dereferences NULL, constructs / assigns in place exactly the tokens
    `treeSet` says, and the resulting tree is valid and holds exactly `treeSet`'s pairs. -/
theorem treeSetC_refines (hsrc : SourceOk) {m : CTree} {kvs : List KV} (R : AbsR m kvs) (next k v : Nat) :
    ∃ r, treeSetC next m k v = some r ∧ ResRel AbsR r (treeSet next kvs k v) := by
  obtain ⟨hv, hs, hp⟩ := R
  have hf := findKV_abs ⟨hv, hs, hp⟩ k
  simp only [treeSet]
  cases hq : takeFirst (keyIs k) kvs with
  | none =>
    rw [hq] at hf
    obtain ⟨m', e, hv', ha, hs'⟩ := set_valid (cmp := tokCmp) hsrc m ⟨next, k⟩ ⟨next + 1, v⟩ hv (by rw [hs]; exact fits_probe _ _)
    have he : treeSetC next m k v = some (Res.mk m' [⟨next, k⟩, ⟨next + 1, v⟩] [] [] .ok) := by
      simp only [treeSetC, hf, Option.map, e]
    refine ⟨_, he, ⟨hv', by rw [hs', hs], ?_⟩, rfl, Perm.refl _, rfl, rfl⟩
    show toList m'.root ~ _
    have habs : ∀ x ∈ toList m.root, x.1.pay ≠ k := fun x hx hxk =>
      takeKey_none hq (List.mem_map.mpr ⟨x, hp.mem_iff.mp hx, hxk⟩)
    have := (spec_absent (toList m.root) ⟨next, k⟩ ⟨next + 1, v⟩ habs).2.1
    rw [show toList m'.root = Spec.set tokCmp ⟨next, k⟩ ⟨next + 1, v⟩ (toList m.root) from ha]
    exact this.trans ((hp.cons _).trans (mapInsert_perm _ kvs).symm)
  | some q =>
    obtain ⟨old, rest⟩ := q
    rw [hq] at hf
    obtain ⟨hpk, hk⟩ := takeKey_some hq
    obtain ⟨m', e, hv', ha, hs'⟩ := set_valid (cmp := tokCmp) hsrc m (assignProbe next old.1 k).val
      (assignProbe (next + (assignProbe next old.1 k).issued.length) old.2 v).val hv (by rw [hs]; exact fits_probe _ _)
    have he : treeSetC next m k v = some (Res.mk m'
        ((assignProbe next old.1 k).issued ++ (assignProbe (next + (assignProbe next old.1 k).issued.length) old.2 v).issued) []
        ((assignProbe next old.1 k).updated ++ (assignProbe (next + (assignProbe next old.1 k).issued.length) old.2 v).updated)
        .ok) := by
      simp only [treeSetC, hf, Option.map, e]
    refine ⟨_, he, ⟨hv', by rw [hs', hs], ?_⟩, rfl, Perm.refl _, rfl, rfl⟩
    show toList m'.root ~ _
    rw [show toList m'.root = Spec.set tokCmp _ _ (toList m.root) from ha]
    have := (spec_present (toList m.root) hv.ordered old (assignProbe next old.1 k).val
      (assignProbe (next + (assignProbe next old.1 k).issued.length) old.2 v).val
      (by rw [assignProbe_pay, hk]) rest (hp.trans hpk)).2.1
    exact this.trans (mapInsert_perm _ rest).symm

/-- **`Tree_Rem` on the red-black tree = `mapRem` on the association list**: KeyError and the tree unchanged for an absent
    key; otherwise exactly the found pair is destructed and — after the predecessor's block has been copied into a node
    with two children, the spliced-out node unlinked and `Tree_Rem_Fix` run — the tree is valid and holds exactly the
    remaining pairs: the copy moved the predecessor's two tokens whole, none was dropped or doubled. -/
theorem treeRemC_refines (hsrc : SourceOk) {m : CTree} {kvs : List KV} (R : AbsR m kvs) (k : Nat) :
    ∃ r, treeRemC m k = some r ∧ ResRel AbsR r (mapRem kvs k) := by
  obtain ⟨hv, hs, hp⟩ := R
  have hf := findKV_abs ⟨hv, hs, hp⟩ k
  obtain ⟨m', o, e, hv', hs', hcase⟩ := rem_valid (cmp := tokCmp) hsrc m (argTok k) hv
  cases hq : takeFirst (keyIs k) kvs with
  | none =>
    simp only [mapRem, hq]
    have habs : ∀ x ∈ toList m.root, x.1.pay ≠ (argTok k).pay := fun x hx hxk =>
      takeKey_none hq (List.mem_map.mpr ⟨x, hp.mem_iff.mp hx, hxk⟩)
    have hg := (spec_absent (toList m.root) (argTok k) (argTok k) habs).1
    rcases hcase with ⟨_, hm, ho⟩ | ⟨h1, _, _⟩
    · rw [hm, ho] at e
      have he : treeRemC m k = some (Res.mk m [] [] [] (.raised .keyError)) := by simp only [treeRemC, e]
      exact ⟨_, he, ⟨hv, hs, hp⟩, rfl, Perm.refl _, rfl, rfl⟩
    · rw [show m.abs = toList m.root from rfl, hg] at h1; simp at h1
  | some q =>
    obtain ⟨old, rest⟩ := q
    simp only [mapRem, hq]
    rw [hq] at hf
    obtain ⟨hpk, hk⟩ := takeKey_some hq
    have hpres := spec_present (toList m.root) hv.ordered old (argTok k) (argTok k) (by simp [argTok, hk]) rest (hp.trans hpk)
    rcases hcase with ⟨h1, _, _⟩ | ⟨_, ho, ha⟩
    · rw [show m.abs = toList m.root from rfl, hpres.1] at h1; simp at h1
    · rw [ho] at e
      have he : treeRemC m k = some (Res.mk m' [] (retiredOf (some old)) [] .ok) := by
        simp only [treeRemC, e, hf, Option.map]
      refine ⟨_, he, ⟨hv', by rw [hs', hs], ?_⟩, rfl, by simp [retiredOf], rfl, rfl⟩
      show toList m'.root ~ _
      rw [show toList m'.root = Spec.rem tokCmp (argTok k) (toList m.root) from ha]
      exact hpres.2.2

/-- **`Tree_Resize` = `mapResize .tree`**: 0 destructs every stored pair, anything else is refused with nothing changed -/
theorem treeResizeC_refines {m : CTree} {kvs : List KV} (R : AbsR m kvs) (n : Nat) :
    ResRel AbsR (treeResizeC m n) (mapResize .tree kvs n) := by
  unfold treeResizeC mapResize
  by_cases h0 : n = 0
  · simp only [h0, if_true, mapClear]
    obtain ⟨h1, h2, h3⟩ := clear_valid (cmp := tokCmp) m
    exact ⟨⟨h1, by rw [h3, R.2.1], by show toList m.clear.root ~ _; rw [show toList m.clear.root = m.clear.abs from rfl, h2]⟩,
      rfl, treeToks_perm R, rfl, rfl⟩
  · simp only [h0, if_false]
    exact ⟨R, rfl, Perm.refl _, rfl, rfl⟩


/-! ### pure moves -/

/-- **rotations and recolourings of `Tree_Set_Fix` only move**: the in-order sequence of stored pairs is the one the
    freshly linked node had in its context -/
theorem setFix_moves (t : T Tok Tok) (p : Path Tok Tok) (t' : T Tok Tok) (h : setFix t p = some t') :
    toList t' = toList (plug t p) := by rw [toList_setFix _ _ _ h, toList_plug]

/-- **`Tree_Rem_Fix` only moves**: whatever is plugged into the repaired parent chain is surrounded by the same pairs -/
theorem remFix_moves (p p' : Path Tok Tok) (h : remFix p = some p') (t : T Tok Tok) :
    toList (plug t p') = toList (plug t p) := by
  rw [toList_plug, toList_plug, (ctx_remFix p p' h).1, (ctx_remFix p p' h).2]

/-- **the predecessor copy of `Tree_Rem` carries both elements whole**: the block `header | key | header | value` that the
    `memcpy` moves from the predecessor into the node decodes, at the node's `Tree_Key` / `Tree_Val` offsets, to exactly
    the predecessor's key token and value token (payload *and* identity) — for every header width -/
theorem relocate_moves (hl : LayoutOk) (hdr : Nat) (dst src : KV) : relocate (⟨hdr, 2, 2⟩ : Lay) dst src = some src :=
  relocate_fits hl _ _ _ ⟨rfl, rfl⟩

/-! ### constructor with initial pairs, assignment from another map -/

/-- **a run of `Tree_Set`s = `mapSetMany .tree`** -/
theorem treeFillC_refines (hsrc : SourceOk) : ∀ (ps : List (Nat × Nat)) (next : Nat) (m : CTree) (kvs : List KV), AbsR m kvs →
    ∃ r, treeFillC next m ps = some r ∧ ResRel AbsR r (mapSetMany .tree next kvs ps) := by
  intro ps
  induction ps with
  | nil => intro next m kvs R; exact ⟨_, rfl, R, rfl, Perm.refl _, rfl, rfl⟩
  | cons p ps ih =>
    intro next m kvs R
    obtain ⟨k, v⟩ := p
    obtain ⟨r1, e1, g1, g2, g3, g4, g5⟩ := treeSetC_refines hsrc R next k v
    obtain ⟨r2, e2, f1, f2, f3, f4, f5⟩ := ih (next + r1.issued.length) r1.val _ g1
    refine ⟨Res.mk r2.val (r1.issued ++ r2.issued) (r1.retired ++ r2.retired) (r1.updated ++ r2.updated) .ok,
      by simp only [treeFillC, e1, e2], ?_⟩
    simp only [mapSetMany, mapSet]
    rw [← g2]
    exact ⟨f1, by rw [f2], g3.append f3, by rw [g4, f4], rfl⟩

/-- **`Tree_Assign` from another map = `mapAssign .tree`** -/
theorem treeAssignC_refines (hsrc : SourceOk) {m : CTree} {kvs : List KV} (R : AbsR m kvs) (next : Nat) (src : List KV) :
    ∃ r, treeAssignC next m (src.map (fun kv => (kv.1.pay, kv.2.pay))) = some r ∧
      ResRel AbsR r (mapAssign .tree next kvs src) := by
  obtain ⟨r, e, h1, h2, h3, h4, h5⟩ := treeFillC_refines hsrc (src.map (fun kv => (kv.1.pay, kv.2.pay))) next treeEmpty [] absR_empty
  refine ⟨{ r with retired := treeToks m ++ r.retired }, by simp only [treeAssignC, e, Option.map], ?_⟩
  simp only [mapAssign]
  exact ⟨h1, h2, (treeToks_perm R).append h3, h4, h5.trans (mapSetMany_out _ _ _ _)⟩


/-! ### histories -/

theorem treeStepC_refines (hsrc : SourceOk) {m : CTree} {kvs : List KV} (R : AbsR m kvs) (next : Nat) (op : MOp) :
    ∃ r, treeStepC next m op = some r ∧ ResRel AbsR r (absStep .tree next kvs op) := by
  cases op with
  | set k v => exact treeSetC_refines hsrc R next k v
  | rem k => exact treeRemC_refines hsrc R k
  | resize n => exact ⟨_, rfl, treeResizeC_refines R n⟩
  | assign src => exact treeAssignC_refines hsrc R next src

/-- **every history of `set / rem / resize / assign` on one Tree**: the red-black model never dereferences NULL, and step
    by step it produces the events of, and holds the contents of, the association-list model of Cello/Own.lean -/
theorem treeRunC_refines (hsrc : SourceOk) : ∀ (ops : List MOp) (next : Nat) (m : CTree) (kvs : List KV), AbsR m kvs →
    ∃ rs, treeRunC next m ops = some rs ∧ List.Forall₂ (ResRel AbsR) rs (absRun .tree next kvs ops) := by
  intro ops
  induction ops with
  | nil => intro next m kvs _; exact ⟨[], rfl, List.Forall₂.nil⟩
  | cons op ops ih =>
    intro next m kvs R
    obtain ⟨r, e, h⟩ := treeStepC_refines hsrc R next op
    obtain ⟨rs, e2, h2⟩ := ih (next + r.issued.length) r.val _ h.1
    refine ⟨r :: rs, by simp only [treeRunC, e, e2], ?_⟩
    simp only [absRun]
    rw [← h.2.1]
    exact List.Forall₂.cons h h2

end tree

end Cello.Own.Conc
