/-
  Lemmas for C10 at the object level: NaN-freeness, the hash and the comparison of a value in terms of its element / entry
  sequence, scalar assignment.
-/
import Cello.Hash
import CelloProofs.Lemmas.HashVal
import CelloProofs.Lemmas.HashCont
set_option linter.unusedSimpArgs false
set_option linter.unusedVariables false

namespace Cello.Hash

/-- no NaN anywhere in the value (Tuple items looked up in the store) -/
def Val.nanFree (st : Store) : Val → Prop
  | .sc s => s.isNaN = false
  | .seq _ _ items => ∀ s ∈ items, s.isNaN = false
  | .tuple ids => ∀ s ∈ (ids.mapM st.scalar).getD [], s.isNaN = false
  | .table _ _ t => ∀ e ∈ t.entries, e.1.isNaN = false ∧ e.2.isNaN = false
  | .tree _ _ t => ∀ e ∈ t.toList, e.1.isNaN = false ∧ e.2.isNaN = false

theorem seqItems_nanFree {st : Store} {v : Val} {xs : List Scalar} (hv : v.nanFree st) (hx : seqItems st v = some xs) :
    ∀ s ∈ xs, s.isNaN = false := by
  cases v <;> simp only [seqItems, Option.some.injEq, reduceCtorEq] at hx
  · subst hx; exact hv
  · simp only [Val.nanFree, hx, Option.getD_some] at hv; exact hv

theorem mapEntries_nanFree {st : Store} {v : Val} {es : List (Scalar × Scalar)} (hv : v.nanFree st)
    (hx : mapEntries v = some es) : ∀ e ∈ es, e.1.isNaN = false ∧ e.2.isNaN = false := by
  cases v <;> simp only [mapEntries, Option.some.injEq, reduceCtorEq] at hx
  · subst hx; exact hv
  · subst hx; exact hv

theorem valHash_of_seqItems {addr : Nat → Bytes} {st : Store} {v : Val} {xs : List Scalar} (hx : seqItems st v = some xs) :
    ∃ c ∈ [CelloGen.Hash.arrayComb, CelloGen.Hash.listComb, CelloGen.Hash.tupleComb],
      valHash addr st v = seqHash c (scalarHash addr) xs := by
  cases v with
  | sc s => simp [seqItems] at hx
  | seq k ety items =>
    simp only [seqItems, Option.some.injEq] at hx; subst hx
    cases k
    · exact ⟨_, by simp, rfl⟩
    · exact ⟨_, by simp, rfl⟩
  | tuple ids =>
    simp only [seqItems] at hx
    exact ⟨CelloGen.Hash.tupleComb, by simp, by simp [valHash, hx]⟩
  | table _ _ _ => simp [seqItems] at hx
  | tree _ _ _ => simp [seqItems] at hx

theorem valHash_of_mapEntries {addr : Nat → Bytes} {st : Store} {v : Val} {es : List (Scalar × Scalar)}
    (hx : mapEntries v = some es) :
    ∃ c ∈ [CelloGen.Hash.tableComb, CelloGen.Hash.treeComb],
      valHash addr st v = mapHash c (scalarHash addr) (scalarHash addr) es := by
  cases v with
  | sc s => simp [mapEntries] at hx
  | seq _ _ _ => simp [mapEntries] at hx
  | tuple _ => simp [mapEntries] at hx
  | table _ _ t => simp only [mapEntries, Option.some.injEq] at hx; subst hx; exact ⟨_, by simp, rfl⟩
  | tree _ _ es' => simp only [mapEntries, Option.some.injEq] at hx; subst hx; exact ⟨_, by simp, rfl⟩

theorem valCmp_seq {addr : Nat → Bytes} {st : Store} {a b : Val} {xs ys : List Scalar}
    (ha : seqItems st a = some xs) (hb : seqItems st b = some ys) :
    valCmp addr st a b = seqCmp (scalarCmp addr) xs ys := by
  cases a <;> cases b <;> simp_all [valCmp, seqItems]

theorem valCmp_map {addr : Nat → Bytes} {st : Store} {a b : Val} {xs ys : List (Scalar × Scalar)}
    (ha : mapEntries a = some xs) (hb : mapEntries b = some ys) :
    valCmp addr st a b = mapCmp (scalarCmp addr) (scalarCmp addr) xs ys := by
  cases a <;> cases b <;> simp_all [valCmp, mapEntries, seqItems]

/-- self-comparison is 0 for every scalar: the value `assign` stores compares equal to its source -/
theorem valCmp_self_seq (addr : Nat → Bytes) (st : Store) (a b : Val) (xs : List Scalar)
    (ha : seqItems st a = some xs) (hb : seqItems st b = some xs) : valCmp addr st a b = some 0 := by
  rw [valCmp_seq ha hb]; exact seqCmp_self (scalarCmp_self addr) xs

/-- a scalar assignment that is carried out stores exactly the source value -/
theorem assign_scalar_stores (addr : Nat → Bytes) (st : Store) (cls : Cls) (a b : Scalar) (v : Val)
    (hty : a.ty = b.ty) (hnt : a.ty ≠ .typ) (h : assignVal addr st cls (.sc a) (.sc b) = .ok v) : v = .sc b := by
  rcases a with _ | _ | _ | _ | ⟨_ | _, _⟩ | _ <;> rcases b with _ | _ | _ | _ | ⟨_ | _, _⟩ | _ <;>
    simp only [Scalar.ty, reduceCtorEq, ne_eq, not_true_eq_false, Ty.raw.injEq] at hty hnt <;>
    simp only [assignVal] at h
  · cases h; rfl
  · cases h; rfl
  · split at h
    · cases h
    · cases h; rfl
  · cases h; rfl
  · cases h; rfl
  · subst hty; simp only [if_true] at h; cases h; rfl

end Cello.Hash
