import Cello.Fail
import CelloProofs.Lemmas.Fail
/-
  C12: the declarative specification the model is compared with — for every type, which arguments of which
  operation are invalid and which exception is documented for them (`…spec : State → Op → Option Exc`, `none` = the
  operation must succeed) — and the territories of the known findings (`….kf`).
  Written without reference to the control flow of the model: plain integer comparisons, membership, type equality.
-/
namespace Cello.Fail

/-- argument values: `Int` payloads fit `int64_t`; never the NULL-buffer String of finding F15 -/
def Val.argOk (v : Val) : Prop := v.inRange ∧ v ≠ .nullstr

def Src.argOk : Src → Prop
  | .seq vs => ∀ v ∈ vs, v.argOk
  | .scalar v => v.argOk

def Op.argsOk : Op → Prop
  | .get k => k.argOk
  | .set k v => k.argOk ∧ v.argOk
  | .mem v => v.argOk
  | .rem v => v.argOk
  | .push v => v.argOk
  | .pushAt v k => v.argOk ∧ k.argOk
  | .popAt k => k.argOk
  | .concat s => s.argOk
  | .append v => v.argOk
  | .assign v => v.argOk
  | .print _ _ args => ∀ v ∈ args, v.argOk
  | _ => True

/-! ### undefined behaviour is not "no exception documented"

  `R.exc?` maps `ub` to `none`, and `none` in a specification table means "must succeed".  The places where the model answers `ub`
  for a well-formed state and well-formed arguments are named here (`X.ubTerritory`: the territory of finding
  KF-C12-foreach-noniter — `foreach` over an object without `Iter` calls through a NULL instance pointer; the documented answer
  is the dispatcher's ClassError, and that is what the `spec` tables say) and excluded from `C12_raises_exactly_*` by an explicit
  hypothesis; `C12_foreach_noniter_refuted` states that the model is `ub` on all of it, `C12_no_ub_*` that it is `ub` nowhere else. -/

/-- a directive as the first segment of `print_to` into a sink that is not a String: not modelled (both sides of the
    correspondence answer bad-op) -/
def Op.directiveFirst : Op → Bool
  | .print _ [] _ => false
  | .print _ (.lit _ :: _) _ => false
  | .print _ _ _ => true
  | _ => false

/-- Array: `concat` from a String (`len` succeeds, then `foreach`); `assign` from any object (no `Iter`) -/
def Arr.ubTerritory : Op → Bool
  | .concat (.scalar (.str _)) => true
  | .assign .null => false
  | .assign _ => true
  | _ => false

/-- List: `concat` from any object that is not NULL -/
def Lst.ubTerritory : Op → Bool
  | .concat (.scalar .null) => false
  | .concat (.scalar _) => true
  | _ => false

/-- Tuple: `concat` from a String into a heap Tuple; `assign` from any object -/
def Tup.ubTerritory (t : Tup) : Op → Bool
  | .concat (.scalar (.str _)) => !t.alloc.nonHeap
  | .assign .null => false
  | .assign _ => true
  | _ => false

/-- Table: `assign` from a String (`len` succeeds, then `foreach`) -/
def Tab.ubTerritory : Op → Bool
  | .assign (.str _) => true
  | _ => false

/-- Tree: `assign` from any object -/
def Tre.ubTerritory : Op → Bool
  | .assign .null => false
  | .assign _ => true
  | _ => false

/-! ### Array -/

def Arr.wf (a : Arr) : Prop :=
  a.ty.isElemTy ∧ (∀ x ∈ a.items, x.elemOf a.ty) ∧ a.items.length + 1 < 2 ^ 63

/-- territory of known finding F15 (the array grows before the element is assigned) and of the assign / foreach findings -/
def Arr.kf (a : Arr) : Op → Bool
  | .push v => !(assignTo a.ty v).isOk
  | .append v => !(assignTo a.ty v).isOk
  | .pushAt v _ => !(assignTo a.ty v).isOk
  | .concat (.seq vs) => vs.any (fun v => !(assignTo a.ty v).isOk)     -- F15: a source element that `assign` refuses
  | .concat (.scalar (.str _)) => true                                -- `len` succeeds, then `foreach` over a String
  | .concat (.scalar _) => false                                      -- NULL / no `Len`: refused before anything is touched
  | .assign _ => true
  | _ => false

/-- searching a typed container for `v`: nothing to compare in an empty one; otherwise a wrong-typed `v` fails the first comparison -/
def searchExc (ty : Ty) (items : List Val) (v : Val) : Option Exc :=
  if items = [] then none else elemExc ty v

def Arr.spec (a : Arr) : Op → Option Exc
  | .get k => idxExc a.items.length k
  | .set k v => (idxExc a.items.length k).or (elemExc a.ty v)
  | .mem v => searchExc a.ty a.items v
  | .rem v => (searchExc a.ty a.items v).or (if v ∈ a.items then none else some .ValueError)
  | .push v => elemExc a.ty v
  | .append v => elemExc a.ty v
  | .pushAt v k => (pushIdxExc a.items.length k).or (elemExc a.ty v)
  | .pop => if a.items.length = 0 then some .IndexOutOfBoundsError else none
  | .popAt k => idxExc a.items.length k
  | .resize _ => none
  | .len => none
  | .concat (.seq vs) => vs.findSome? (elemExc a.ty)
  | .concat (.scalar .null) => some .ValueError
  | .concat (.scalar _) => some .ClassError            -- not iterable (a String: the model is `ub` there, `Arr.ubTerritory`)
  | .assign .null => some .ValueError
  | .assign _ => some .ClassError                      -- not iterable (model: `ub`, `Arr.ubTerritory`)
  | .print _ [] _ => none
  | .print _ (.lit _ :: _) _ => some .ClassError
  | .print _ _ _ => none                               -- not modelled (`Op.directiveFirst`)

/-! ### List -/

def Lst.wf (l : Lst) : Prop :=
  l.ty.isElemTy ∧ (∀ x ∈ l.items, x.elemOf l.ty) ∧ l.items.length + 1 < 2 ^ 63

/-- territory of the List findings: concat stops midway; assign clears first -/
def Lst.kf (l : Lst) : Op → Bool
  | .concat (.seq vs) => vs.any (fun v => !(assignTo l.ty v).isOk)
  | .assign _ => true
  | _ => false

def Lst.spec (l : Lst) : Op → Option Exc
  | .get k => idxExc l.items.length k
  | .set k v => (idxExc l.items.length k).or (elemExc l.ty v)
  | .mem v => searchExc l.ty l.items v
  | .rem v => (searchExc l.ty l.items v).or (if v ∈ l.items then none else some .ValueError)
  | .push v => elemExc l.ty v
  | .append v => elemExc l.ty v
  | .pushAt v k => (lstPushIdxExc l.items.length k).or (elemExc l.ty v)     -- the position is validated first (fix 4077d96)
  | .pop => if l.items.length = 0 then some .IndexOutOfBoundsError else none
  | .popAt k => idxExc l.items.length k
  | .resize _ => none
  | .len => none
  | .concat (.seq vs) => vs.findSome? (elemExc l.ty)
  | .concat (.scalar .null) => some .ValueError
  | .concat (.scalar _) => some .ClassError            -- not iterable (model: `ub`, `Lst.ubTerritory`)
  | .assign .null => some .ValueError
  | .assign (.str s) => if s.length = 0 then none else some .ClassError
  | .assign _ => some .ClassError
  | .print _ [] _ => none
  | .print _ (.lit _ :: _) _ => some .ClassError
  | .print _ _ _ => none

/-! ### Tuple -/

def Tup.wf (t : Tup) : Prop := t.items.length + 1 < 2 ^ 63

/-- a Tuple that is not on the heap cannot be reallocated -/
def heapExc (a : AllocK) : Option Exc := if a.nonHeap then some .ValueError else none

def Tup.spec (t : Tup) : Op → Option Exc
  | .get k => idxExc t.items.length k
  | .set k _ => idxExc t.items.length k
  | .push _ => heapExc t.alloc
  | .append _ => heapExc t.alloc
  | .pushAt _ k => (idxExc t.items.length k).or (heapExc t.alloc)
  | .pop => if t.items.length = 0 then some .IndexOutOfBoundsError else heapExc t.alloc
  | .popAt k => (idxExc t.items.length k).or (heapExc t.alloc)
  | .resize n => (heapExc t.alloc).or (if n < t.items.length then none else some .FormatError)
  | .len => none
  | .concat (.seq _) => heapExc t.alloc
  | .concat (.scalar .null) => some .ValueError
  | .concat (.scalar (.str _)) => (heapExc t.alloc).or (some .ClassError)   -- heap: model `ub` (`Tup.ubTerritory`)
  | .concat (.scalar _) => some .ClassError
  | .assign .null => some .ValueError
  | .assign _ => some .ClassError                      -- not iterable (model: `ub`, `Tup.ubTerritory`)
  | .print _ [] _ => none
  | .print _ (.lit _ :: _) _ => some .ClassError
  | .print _ _ _ => none
  | .mem _ => none      -- heterogeneous search: specified separately (`Tup.searchSpec`)
  | .rem _ => none

/-! ### Table and Tree -/

def Tab.wf (t : Tab) : Prop :=
  (t.nslots = 0 → t.items = []) ∧ (∀ p ∈ t.items, p.1.ty? = some t.kty)

def Tab.kf (_ : Tab) : Op → Bool
  | .assign _ => true
  | _ => false

def keyExc (kty : Ty) (items : List (Val × Val)) (k : Val) : Option Exc :=
  (castExc kty k).or (if (items.lookup k).isSome then none else some .KeyError)

def Tab.spec (t : Tab) : Op → Option Exc
  | .get k => keyExc t.kty t.items k
  | .set k v => (castExc t.kty k).or (castExc t.vty v)
  | .mem k => castExc t.kty k
  | .rem k => keyExc t.kty t.items k
  | .resize n => if n ≠ 0 ∧ n < t.items.length then some .FormatError else none
  | .len => none
  | .assign .null => some .ValueError
  | .assign _ => some .ClassError                      -- a String: model `ub` (`Tab.ubTerritory`)
  | .print _ [] _ => none
  | .print _ (.lit _ :: _) _ => some .ClassError
  | .print _ _ _ => none
  | _ => some .ClassError        -- no Push, no Concat

def Tre.kf (_ : Tre) : Op → Bool
  | .assign _ => true
  | _ => false

def Tre.spec (t : Tre) : Op → Option Exc
  | .get k => keyExc t.kty t.items k
  | .set k v => (castExc t.kty k).or (castExc t.vty v)
  | .mem k => castExc t.kty k
  | .rem k => keyExc t.kty t.items k
  | .resize n => if n ≠ 0 then some .FormatError else none
  | .len => none
  | .assign .null => some .ValueError
  | .assign _ => some .ClassError                      -- not iterable (model: `ub`, `Tre.ubTerritory`)
  | .print _ [] _ => none
  | .print _ (.lit _ :: _) _ => some .ClassError
  | .print _ _ _ => none
  | _ => some .ClassError

/-! ### String -/

/-- an argument that must be a String -/
def strArgExc (v : Val) : Option Exc :=
  match v with
  | .str _ => none
  | .null => some .ValueError
  | _ => some .ClassError

/-- territory of finding F29: a `print_to` whose first segment can be written -/
def Str.kf (s : Str) : Op → Bool
  | .print pos (.lit _ :: _) _ => !s.alloc.nonHeap && pos ≤ s.s.length
  | .print pos (.d :: _) (a :: _) => !s.alloc.nonHeap && pos ≤ s.s.length && (cInt a).isOk
  | .print pos (.s :: _) (a :: _) => !s.alloc.nonHeap && pos ≤ s.s.length && (cStr a).isOk
  | .print pos (.q :: _) (a :: _) => !s.alloc.nonHeap && pos ≤ s.s.length && (showText a).isOk
  | _ => false

def Str.spec (s : Str) : Op → Option Exc
  | .get _ => some .ClassError
  | .set _ _ => some .ClassError
  | .mem .null => some .ValueError
  | .mem _ => none
  | .rem (.str t) => if isInfix t s.s then none else some .ValueError
  | .rem v => strArgExc v                              -- not a String: ClassError (NULL: ValueError), fix e60e6ec
  | .resize _ => heapExc s.alloc
  | .len => none
  | .concat (.scalar v) => (heapExc s.alloc).or (strArgExc v)
  | .concat (.seq _) => (heapExc s.alloc).or (some .ClassError)
  | .append v => (heapExc s.alloc).or (strArgExc v)
  | .assign v => (strArgExc v).or (heapExc s.alloc)
  | .push _ => some .ClassError
  | .pushAt _ _ => some .ClassError
  | .pop => some .ClassError
  | .popAt _ => some .ClassError
  | .print _ _ _ => none     -- specified separately (`printSpec`)

/-! ### containers of containers -/

def NSrc.isVal : NSrc → Bool
  | .val _ => true
  | .cont _ => false

/-- the sources the histories offer besides containers: an Int, a Plain, NULL -/
def NSrc.argOk : NSrc → Prop
  | .val (.int i) => -(2 ^ 63 : Int) ≤ i ∧ i < 2 ^ 63
  | .val (.plain _) => True
  | .val .null => True
  | .val _ => False
  | .cont _ => True

def NOp.argsOk : NOp → Prop
  | .get k => k.argOk
  | .set k src => k.argOk ∧ src.argOk
  | .push src => src.argOk
  | .pushAt src k => src.argOk ∧ k.argOk
  | .popAt k => k.argOk
  | _ => True

/-- every element is of the declared element type; fewer than 2^63 of them -/
def Nest.wf (n : Nest) : Prop := (∀ e ∈ n.items, e.kind = n.ek) ∧ n.items.length + 1 < 2 ^ 63

def Nest.pushIdxOk (n : Nest) (k : Val) : Bool :=
  match cInt k with
  | .ok kb => inBoundsIncl n.items.length (normIdxPush n.items.length kb)
  | _ => false

/-- territory of the assign-clears / foreach / F15 findings on nested containers: an element `assign`ed from something that is not
    a container — `set` on a valid index; `push` / `push_at` (valid position) on an outer Array.  (A List links the new node only
    after the `assign` succeeded: its `push` is atomic.) -/
def Nest.kf (n : Nest) : NOp → Bool
  | .set k src => src.isVal && (resolve n.items.length k).isOk
  | .push src => src.isVal && n.outer = .arr
  | .pushAt src k => src.isVal && n.outer = .arr && n.pushIdxOk k
  | _ => false

/-- a source that is not a container: NULL → ValueError; otherwise the element's `assign` fails the way `Array_Assign` /
    `List_Assign` / `Table_Assign` fail on an object without `Len`: ClassError — except that `Array_Assign` reaches `foreach` first
    and ends in undefined behaviour (no exception) -/
def srcExc (ek : IK) : NSrc → Option Exc
  | .cont _ => none
  | .val .null => some .ValueError
  | .val _ => if ek = .arr then none else some .ClassError

def Nest.spec (n : Nest) : NOp → Option Exc
  | .get k => idxExc n.items.length k
  | .set k src => (idxExc n.items.length k).or (srcExc n.ek src)
  | .push src => srcExc n.ek src
  | .pushAt src k =>
    ((match n.outer with | .arr => pushIdxExc n.items.length k | .lst => lstPushIdxExc n.items.length k)).or (srcExc n.ek src)
  | .pop => if n.items.length = 0 then some .IndexOutOfBoundsError else none
  | .popAt k => idxExc n.items.length k
  | .resize _ => none
  | .len => none

end Cello.Fail
