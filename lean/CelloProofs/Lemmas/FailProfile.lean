import CelloGen.Fail
import Cello.Fail
/-
  C12, link (A): the check / mutation order of the C functions the model Cello/Fail.lean mirrors.

  `CelloGen.Fail.profile` is regenerated from /repo on every check run (translate/g_fail.py): per function, the guards, throw
  sites, validating calls, element assignments and mutations of the object, as a flat token list with block markers.
  This file holds
    * `modelledProfile` — the token lists the hand model was written against (a literal copy, maintained by hand: when a function
      of /repo changes, `C12_source_profile` stops checking until the model *and* this copy are updated),
    * `Profile.ordered` — an abstract interpretation of a token list: is there a path on which a raising event (a `throw`, a
      validating call, an element `assign`) is reached after the object has been mutated?  Calls of other profiled functions are
      interpreted in place; a validating call repeated with the same arguments cannot raise the second time,
    * the two function lists the property theorems evaluate `ordered` on, and the map from model operations to C functions.
-/
namespace Cello.Fail

open CelloGen.Fail (K)

namespace Profile

abbrev Tok := K × String
abbrev Prof := List (String × List Tok)

/-- abstract state at a program point: reachable with the object untouched / reachable after a mutation; the validating calls
    that have succeeded on every path to this point -/
structure A where
  clean : Bool
  dirty : Bool
  seen : List String
deriving DecidableEq, Repr, Inhabited

/-- join of two path sets (`none` = unreachable) -/
def join : Option A → Option A → Option A
  | none, b => b
  | a, none => a
  | some a, some b => some ⟨a.clean || b.clean, a.dirty || b.dirty, a.seen.filter (fun x => b.seen.contains x)⟩

structure Acc where
  exit : Option A        -- join of the states at the `return`s met so far
  viol : Bool            -- a raising event was reachable after a mutation
deriving Repr, Inhabited

structure Out where
  st : Option A          -- state where the block ends
  acc : Acc
  els : Bool             -- the block was closed by `else` (not by the end of an `if` / loop / the function)
  rest : List Tok

def mutated (a : A) : A := ⟨false, a.clean || a.dirty, a.seen⟩

/-- interpret the tokens of one block (up to its `els` / `fin`, or the end of the function).  `fuel` bounds the number of tokens
    processed along a chain of continuations, `depth` the nesting of interpreted calls; running out of either counts as a violation.
    `if`: both branches from the entry state, joined (no `else`: joined with the entry state).  Loops: the body zero or more
    times (two passes, so that a mutation of one iteration meets the checks of the next).  `throw` and `return` end a path. -/
def block (prof : Prof) : Nat → Nat → List Tok → Option A → Acc → Out
  | 0, _, ts, s, acc => ⟨s, { acc with viol := true }, false, ts⟩
  | _ + 1, _, [], s, acc => ⟨s, acc, false, []⟩
  | fuel + 1, depth, (k, x) :: ts, s, acc =>
    match k with
    | .fin => ⟨s, acc, false, ts⟩
    | .els => ⟨s, acc, true, ts⟩
    | .ite =>
      let r1 := block prof fuel depth ts s acc
      if r1.els then
        let r2 := block prof fuel depth r1.rest s r1.acc
        block prof fuel depth r2.rest (join r1.st r2.st) r2.acc
      else block prof fuel depth r1.rest (join r1.st s) r1.acc
    | .loop =>
      let r1 := block prof fuel depth ts s acc
      let r2 := block prof fuel depth ts (join s r1.st) r1.acc
      block prof fuel depth r2.rest (join s r2.st) r2.acc
    | _ =>
      match s with
      | none => block prof fuel depth ts none acc
      | some a =>
        match k with
        | .ret => block prof fuel depth ts none { acc with exit := join acc.exit (some a) }
        | .thr => block prof fuel depth ts none { acc with viol := acc.viol || a.dirty }
        | .chk =>
          if a.seen.contains x then block prof fuel depth ts (some a) acc
          else block prof fuel depth ts (some { a with seen := x :: a.seen }) { acc with viol := acc.viol || a.dirty }
        | .asg => block prof fuel depth ts (some (mutated a)) { acc with viol := acc.viol || a.dirty }
        | .mut => block prof fuel depth ts (some (mutated a)) acc
        | .call =>
          match depth, prof.lookup x with
          | d + 1, some body =>
            let r := block prof fuel d body (some a) { exit := none, viol := acc.viol }
            block prof fuel depth ts (join r.acc.exit r.st) { acc with viol := r.acc.viol }
          | _, _ => block prof fuel depth ts (some a) { acc with viol := true }
        | _ => block prof fuel depth ts (some a) acc

/-- **checks precede mutations** in function `f` of profile `prof`: on no path through the function (called on an untouched
    object) is a `throw`, a validating call or an element `assign` reached after a mutation of the object.  `false` also when
    the function is missing from the profile. -/
def ordered (prof : Prof) (f : String) : Bool :=
  match prof.lookup f with
  | some body => !(block prof 4000 6 body (some ⟨true, false, []⟩) ⟨none, false⟩).acc.viol
  | none => false

end Profile

/-- the profile the model Cello/Fail.lean was written against -/
def modelledProfile : Profile.Prof := [
  ("Array_Get", [(.chk, "c_int(key)"), (.ite, "i < 0 or i >= (int64_t)a->nitems"), (.thr, "IndexOutOfBoundsError"), (.ret, ""), (.fin, ""), (.ret, "")]),
  ("Array_Set", [(.chk, "c_int(key)"), (.ite, "i < 0 or i >= (int64_t)a->nitems"), (.thr, "IndexOutOfBoundsError"), (.ret, ""), (.fin, ""), (.asg, "")]),
  ("Array_Mem", [(.loop, "i < a->nitems"), (.chk, "eq(Array_Item(a, i), obj)"), (.ite, "eq(Array_Item(a, i), obj)"), (.ret, ""), (.fin, ""), (.fin, ""), (.ret, "")]),
  ("Array_Rem", [(.loop, "i < a->nitems"), (.chk, "eq(Array_Item(a, i), obj)"), (.ite, "eq(Array_Item(a, i), obj)"), (.call, "Array_Pop_At"), (.ret, ""), (.fin, ""), (.fin, ""), (.thr, "ValueError")]),
  ("Array_Push", [(.mut, "nitems++"), (.mut, "Array_Reserve_More"), (.mut, "Array_Alloc"), (.asg, "")]),
  ("Array_Push_At", [(.chk, "c_int(key)"), (.ite, "i < 0 or i > (int64_t)a->nitems"), (.thr, "IndexOutOfBoundsError"), (.ret, ""), (.fin, ""), (.mut, "nitems++"), (.mut, "Array_Reserve_More"), (.mut, "memmove"), (.mut, "Array_Alloc"), (.asg, "")]),
  ("Array_Pop", [(.ite, "a->nitems is 0"), (.thr, "IndexOutOfBoundsError"), (.ret, ""), (.fin, ""), (.mut, "destruct"), (.mut, "nitems--"), (.mut, "Array_Reserve_Less")]),
  ("Array_Pop_At", [(.chk, "c_int(key)"), (.ite, "i < 0 or i >= (int64_t)a->nitems"), (.thr, "IndexOutOfBoundsError"), (.ret, ""), (.fin, ""), (.mut, "destruct"), (.mut, "memmove"), (.mut, "nitems--"), (.mut, "Array_Reserve_Less")]),
  ("Array_Resize", [(.ite, "n is 0"), (.call, "Array_Clear"), (.ret, ""), (.fin, ""), (.loop, "n < a->nitems"), (.mut, "destruct"), (.mut, "nitems--"), (.fin, ""), (.mut, "nslots="), (.mut, "realloc"), (.mut, "data=")]),
  ("Array_Concat", [(.chk, "len(obj)"), (.mut, "nitems+="), (.mut, "Array_Reserve_More"), (.chk, "foreach(obj)"), (.loop, "foreach item in obj"), (.mut, "Array_Alloc"), (.asg, ""), (.fin, "")]),
  ("Array_Assign", [(.ite, "self is obj"), (.ret, ""), (.fin, ""), (.call, "Array_Clear"), (.chk, "implements_method(obj, Iter, iter_type)"), (.chk, "iter_type(obj)"), (.mut, "type="), (.mut, "tsize="), (.mut, "nitems="), (.mut, "nslots="), (.chk, "implements_method(obj, Len, len)"), (.chk, "implements_method(obj, Get, get)"), (.ite, "implements_method(obj, Len, len) and implements_method(obj, Get, get)"), (.chk, "len(obj)"), (.mut, "nitems="), (.mut, "nslots="), (.ite, "a->nslots is 0"), (.mut, "data="), (.ret, ""), (.fin, ""), (.mut, "data="), (.loop, "i < a->nitems"), (.mut, "Array_Alloc"), (.chk, "get(obj, $I(i))"), (.asg, ""), (.fin, ""), (.els, ""), (.chk, "foreach(obj)"), (.loop, "foreach item in obj"), (.call, "Array_Push"), (.fin, ""), (.fin, "")]),
  ("Array_Clear", [(.loop, "i < a->nitems"), (.mut, "destruct"), (.fin, ""), (.mut, "free"), (.mut, "data="), (.mut, "nitems="), (.mut, "nslots=")]),
  ("Array_Sort_Partition", [(.mut, "swap"), (.loop, "i < r"), (.call, "Array_Get"), (.chk, "f(Array_Get(a, $I(i)), Array_Item(a, r))"), (.ite, "f(Array_Get(a, $I(i)), Array_Item(a, r))"), (.mut, "swap"), (.fin, ""), (.fin, ""), (.mut, "swap"), (.ret, "")]),
  ("Array_Sort_Part", [(.ite, "l < r"), (.call, "Array_Sort_Partition"), (.call, "Array_Sort_Part"), (.call, "Array_Sort_Part"), (.fin, "")]),
  ("Array_Sort_By", [(.call, "Array_Sort_Part")]),
  ("List_At", [(.ite, "i < 0 or i >= (int64_t)l->nitems"), (.thr, "IndexOutOfBoundsError"), (.ret, ""), (.fin, ""), (.ite, "i <= (int64_t)(l->nitems / 2)"), (.loop, "i"), (.fin, ""), (.els, ""), (.loop, "i"), (.fin, ""), (.fin, ""), (.ret, "")]),
  ("List_Get", [(.chk, "c_int(key)"), (.call, "List_At"), (.ret, "")]),
  ("List_Set", [(.chk, "c_int(key)"), (.call, "List_At"), (.asg, "")]),
  ("List_Mem", [(.loop, "item"), (.chk, "eq(item, obj)"), (.ite, "eq(item, obj)"), (.ret, ""), (.fin, ""), (.fin, ""), (.ret, "")]),
  ("List_Rem", [(.loop, "item"), (.chk, "eq(item, obj)"), (.ite, "eq(item, obj)"), (.mut, "List_Unlink"), (.mut, "destruct"), (.mut, "List_Free"), (.mut, "nitems--"), (.ret, ""), (.fin, ""), (.fin, ""), (.thr, "ValueError")]),
  ("List_Push", [(.asg, ""), (.mut, "List_Link"), (.mut, "nitems++")]),
  ("List_Push_At", [(.chk, "c_int(key)"), (.call, "List_At"), (.asg, ""), (.ite, "i is 0"), (.mut, "List_Link"), (.els, ""), (.mut, "List_Link"), (.fin, ""), (.mut, "nitems++")]),
  ("List_Pop", [(.ite, "l->nitems is 0"), (.thr, "IndexOutOfBoundsError"), (.ret, ""), (.fin, ""), (.mut, "List_Unlink"), (.mut, "destruct"), (.mut, "List_Free"), (.mut, "nitems--")]),
  ("List_Pop_At", [(.chk, "c_int(key)"), (.call, "List_At"), (.mut, "List_Unlink"), (.mut, "destruct"), (.mut, "List_Free"), (.mut, "nitems--")]),
  ("List_Resize", [(.ite, "n is 0"), (.call, "List_Clear"), (.ret, ""), (.fin, ""), (.loop, "n < l->nitems"), (.mut, "List_Unlink"), (.mut, "destruct"), (.mut, "List_Free"), (.mut, "nitems--"), (.fin, ""), (.loop, "n > l->nitems"), (.mut, "List_Link"), (.mut, "nitems++"), (.fin, "")]),
  ("List_Concat", [(.chk, "foreach(obj)"), (.loop, "foreach item in obj"), (.call, "List_Push"), (.fin, "")]),
  ("List_Assign", [(.ite, "self is obj"), (.ret, ""), (.fin, ""), (.call, "List_Clear"), (.chk, "implements_method(obj, Iter, iter_type)"), (.chk, "iter_type(obj)"), (.mut, "type="), (.mut, "tsize="), (.chk, "len(obj)"), (.loop, "i < nargs"), (.chk, "get(obj, $I(i))"), (.call, "List_Push"), (.fin, "")]),
  ("List_Clear", [(.loop, "item"), (.mut, "destruct"), (.mut, "List_Free"), (.fin, ""), (.mut, "tail="), (.mut, "head="), (.mut, "nitems=")]),
  ("Tuple_Get", [(.chk, "c_int(key)"), (.ite, "i < 0 or i >= (int64_t)nitems"), (.thr, "IndexOutOfBoundsError"), (.ret, ""), (.fin, ""), (.ret, "")]),
  ("Tuple_Set", [(.chk, "c_int(key)"), (.ite, "i < 0 or i >= (int64_t)nitems"), (.thr, "IndexOutOfBoundsError"), (.ret, ""), (.fin, ""), (.mut, "items=")]),
  ("Tuple_Mem", [(.chk, "foreach(self)"), (.loop, "foreach obj in self"), (.chk, "eq(obj, item)"), (.ite, "eq(obj, item)"), (.ret, ""), (.fin, ""), (.fin, ""), (.ret, "")]),
  ("Tuple_Rem", [(.loop, "t->items[i] isnt Terminal"), (.chk, "eq(item, t->items[i])"), (.ite, "eq(item, t->items[i])"), (.call, "Tuple_Pop_At"), (.ret, ""), (.fin, ""), (.fin, ""), (.thr, "ValueError")]),
  ("Tuple_Push", [(.ite, "header(self)->alloc is (var)AllocStack or header(self)->alloc is (var)AllocStatic"), (.thr, "ValueError"), (.fin, ""), (.mut, "realloc"), (.mut, "items="), (.mut, "items="), (.mut, "items=")]),
  ("Tuple_Push_At", [(.chk, "c_int(key)"), (.ite, "i < 0 or i >= (int64_t)nitems"), (.thr, "IndexOutOfBoundsError"), (.fin, ""), (.ite, "header(self)->alloc is (var)AllocStack or header(self)->alloc is (var)AllocStatic"), (.thr, "ValueError"), (.fin, ""), (.mut, "realloc"), (.mut, "items="), (.mut, "memmove"), (.mut, "items=")]),
  ("Tuple_Pop", [(.ite, "nitems is 0"), (.thr, "IndexOutOfBoundsError"), (.ret, ""), (.fin, ""), (.ite, "header(self)->alloc is (var)AllocStack or header(self)->alloc is (var)AllocStatic"), (.thr, "ValueError"), (.fin, ""), (.mut, "realloc"), (.mut, "items="), (.mut, "items=")]),
  ("Tuple_Pop_At", [(.chk, "c_int(key)"), (.ite, "i < 0 or i >= (int64_t)nitems"), (.thr, "IndexOutOfBoundsError"), (.fin, ""), (.ite, "header(self)->alloc is (var)AllocStack or header(self)->alloc is (var)AllocStatic"), (.thr, "ValueError"), (.fin, ""), (.mut, "memmove"), (.mut, "realloc"), (.mut, "items=")]),
  ("Tuple_Resize", [(.ite, "header(self)->alloc is (var)AllocStack or header(self)->alloc is (var)AllocStatic"), (.thr, "ValueError"), (.fin, ""), (.ite, "n < m"), (.mut, "realloc"), (.mut, "items="), (.mut, "items="), (.els, ""), (.thr, "FormatError"), (.fin, "")]),
  ("Tuple_Concat", [(.chk, "len(obj)"), (.ite, "header(self)->alloc is (var)AllocStack or header(self)->alloc is (var)AllocStatic"), (.thr, "ValueError"), (.fin, ""), (.mut, "realloc"), (.mut, "items="), (.chk, "foreach(obj)"), (.loop, "foreach item in obj"), (.mut, "items="), (.fin, ""), (.mut, "items=")]),
  ("Tuple_Assign", [(.chk, "implements_method(obj, Len, len)"), (.chk, "implements_method(obj, Get, get)"), (.ite, "implements_method(obj, Len, len) and implements_method(obj, Get, get)"), (.chk, "len(obj)"), (.ite, "header(self)->alloc is (var)AllocStack or header(self)->alloc is (var)AllocStatic"), (.thr, "ValueError"), (.fin, ""), (.mut, "realloc"), (.mut, "items="), (.loop, "i < nargs"), (.chk, "get(obj, $I(i))"), (.mut, "items="), (.fin, ""), (.mut, "items="), (.els, ""), (.chk, "foreach(obj)"), (.loop, "foreach item in obj"), (.call, "Tuple_Push"), (.fin, ""), (.fin, "")]),
  ("Tuple_Sort_Partition", [(.mut, "Tuple_Swap"), (.loop, "i < r"), (.chk, "f(t->items[i], t->items[r])"), (.ite, "f(t->items[i], t->items[r])"), (.mut, "Tuple_Swap"), (.fin, ""), (.fin, ""), (.mut, "Tuple_Swap"), (.ret, "")]),
  ("Tuple_Sort_Part", [(.ite, "l < r"), (.call, "Tuple_Sort_Partition"), (.call, "Tuple_Sort_Part"), (.call, "Tuple_Sort_Part"), (.fin, "")]),
  ("Tuple_Sort_By", [(.call, "Tuple_Sort_Part")]),
  ("Table_Get", [(.ite, "key >= t->data and ((char*)key) < ((char*)t->data) + t->nslots * Table_Step(self)"), (.ite, "key is Table_Key(t, i) and Table_Key_Hash(t, i) isnt 0"), (.ret, ""), (.fin, ""), (.fin, ""), (.call, "cast"), (.ite, "t->nslots is 0"), (.thr, "KeyError"), (.fin, ""), (.chk, "hash(key)"), (.loop, "true"), (.ite, "h is 0 or j > Table_Probe(t, i, h)"), (.thr, "KeyError"), (.fin, ""), (.chk, "eq(Table_Key(t, i), key)"), (.ite, "eq(Table_Key(t, i), key)"), (.ret, ""), (.fin, ""), (.fin, ""), (.ret, "")]),
  ("Table_Set", [(.ite, "t->nslots is 0"), (.mut, "Table_Rehash"), (.fin, ""), (.call, "Table_Set_Move"), (.mut, "Table_Resize_More")]),
  ("Table_Set_Move", [(.call, "cast"), (.call, "cast"), (.chk, "hash(key)"), (.mut, "memset"), (.mut, "memset"), (.ite, "move"), (.mut, "memcpy"), (.mut, "memcpy"), (.mut, "memcpy"), (.els, ""), (.mut, "memcpy"), (.asg, ""), (.asg, ""), (.fin, ""), (.loop, "true"), (.ite, "h is 0"), (.mut, "memcpy"), (.mut, "nitems++"), (.ret, ""), (.fin, ""), (.chk, "eq(Table_Key(t, i), Table_Swapspace_Key(t, t->sspace0))"), (.ite, "eq(Table_Key(t, i), Table_Swapspace_Key(t, t->sspace0))"), (.mut, "destruct"), (.mut, "destruct"), (.mut, "memcpy"), (.ret, ""), (.fin, ""), (.ite, "j > p"), (.mut, "memcpy"), (.mut, "memcpy"), (.mut, "memcpy"), (.fin, ""), (.fin, "")]),
  ("Table_Mem", [(.call, "cast"), (.ite, "t->nslots is 0"), (.ret, ""), (.fin, ""), (.chk, "hash(key)"), (.loop, "true"), (.ite, "h is 0 or j > Table_Probe(t, i, h)"), (.ret, ""), (.fin, ""), (.chk, "eq(Table_Key(t, i), key)"), (.ite, "eq(Table_Key(t, i), key)"), (.ret, ""), (.fin, ""), (.fin, ""), (.ret, "")]),
  ("Table_Rem", [(.call, "cast"), (.ite, "t->nslots is 0"), (.thr, "KeyError"), (.fin, ""), (.chk, "hash(key)"), (.loop, "true"), (.ite, "h is 0 or j > Table_Probe(t, i, h)"), (.thr, "KeyError"), (.fin, ""), (.chk, "eq(Table_Key(t, i), key)"), (.ite, "eq(Table_Key(t, i), key)"), (.mut, "destruct"), (.mut, "destruct"), (.mut, "memset"), (.loop, "true"), (.ite, "nh isnt 0 and Table_Probe(t, ni, nh) > 0"), (.mut, "memcpy"), (.mut, "memset"), (.els, ""), (.fin, ""), (.fin, ""), (.mut, "nitems--"), (.mut, "Table_Resize_Less"), (.ret, ""), (.fin, ""), (.fin, "")]),
  ("Table_Resize", [(.ite, "n is 0"), (.mut, "Table_Clear"), (.ret, ""), (.fin, ""), (.ite, "n < t->nitems"), (.thr, "FormatError"), (.fin, ""), (.mut, "Table_Rehash")]),
  ("Table_Assign", [(.ite, "self is obj"), (.ret, ""), (.fin, ""), (.mut, "Table_Clear"), (.chk, "implements_method(obj, Get, key_type)"), (.chk, "key_type(obj)"), (.mut, "ktype="), (.chk, "implements_method(obj, Get, val_type)"), (.chk, "val_type(obj)"), (.mut, "vtype="), (.mut, "ksize="), (.mut, "vsize="), (.mut, "nitems="), (.chk, "len(obj)"), (.mut, "nslots="), (.ite, "t->nslots is 0"), (.mut, "data="), (.ret, ""), (.fin, ""), (.mut, "data="), (.mut, "realloc"), (.mut, "sspace0="), (.mut, "realloc"), (.mut, "sspace1="), (.mut, "memset"), (.mut, "memset"), (.chk, "foreach(obj)"), (.loop, "foreach key in obj"), (.chk, "get(obj, key)"), (.call, "Table_Set_Move"), (.fin, "")]),
  ("Tree_Get", [(.call, "cast"), (.loop, "node isnt NULL"), (.chk, "cmp(Tree_Key(m, node), key)"), (.ite, "c is 0"), (.ret, ""), (.fin, ""), (.fin, ""), (.thr, "KeyError"), (.ret, "")]),
  ("Tree_Set", [(.call, "cast"), (.call, "cast"), (.ite, "node is NULL"), (.asg, ""), (.asg, ""), (.mut, "root="), (.mut, "nitems++"), (.mut, "Tree_Set_Fix"), (.ret, ""), (.fin, ""), (.loop, "true"), (.chk, "cmp(Tree_Key(m, node), key)"), (.ite, "c is 0"), (.asg, ""), (.asg, ""), (.ret, ""), (.fin, ""), (.ite, "c < 0"), (.ite, "*Tree_Left(m, node) is NULL"), (.asg, ""), (.asg, ""), (.mut, "*Tree_Left="), (.mut, "Tree_Set_Parent"), (.mut, "Tree_Set_Fix"), (.mut, "nitems++"), (.ret, ""), (.fin, ""), (.fin, ""), (.ite, "c > 0"), (.ite, "*Tree_Right(m, node) is NULL"), (.asg, ""), (.asg, ""), (.mut, "*Tree_Right="), (.mut, "Tree_Set_Parent"), (.mut, "Tree_Set_Fix"), (.mut, "nitems++"), (.ret, ""), (.fin, ""), (.fin, ""), (.fin, "")]),
  ("Tree_Mem", [(.call, "cast"), (.loop, "node isnt NULL"), (.chk, "cmp(Tree_Key(m, node), key)"), (.ite, "c is 0"), (.ret, ""), (.fin, ""), (.fin, ""), (.ret, "")]),
  ("Tree_Rem", [(.call, "cast"), (.loop, "node isnt NULL"), (.chk, "cmp(Tree_Key(m, node), key)"), (.ite, "c is 0"), (.fin, ""), (.fin, ""), (.ite, "not found"), (.thr, "KeyError"), (.ret, ""), (.fin, ""), (.mut, "destruct"), (.mut, "destruct"), (.ite, "(*Tree_Left(m, node) isnt NULL) and (*Tree_Right(m, node) isnt NULL)"), (.mut, "memcpy"), (.mut, "Tree_Set_Color"), (.fin, ""), (.ite, "Tree_Is_Black(m, node)"), (.mut, "Tree_Set_Color"), (.mut, "Tree_Rem_Fix"), (.fin, ""), (.mut, "Tree_Replace"), (.ite, "(Tree_Get_Parent(m, node) is NULL) and (chld isnt NULL)"), (.fin, ""), (.mut, "nitems--"), (.mut, "free")]),
  ("Tree_Resize", [(.ite, "n is 0"), (.mut, "Tree_Clear"), (.els, ""), (.thr, "FormatError"), (.fin, "")]),
  ("Tree_Assign", [(.ite, "self is obj"), (.ret, ""), (.fin, ""), (.mut, "Tree_Clear"), (.chk, "implements_method(obj, Get, key_type)"), (.chk, "key_type(obj)"), (.mut, "ktype="), (.chk, "implements_method(obj, Get, val_type)"), (.chk, "val_type(obj)"), (.mut, "vtype="), (.mut, "ksize="), (.mut, "vsize="), (.chk, "foreach(obj)"), (.loop, "foreach key in obj"), (.chk, "get(obj, key)"), (.call, "Tree_Set"), (.fin, "")]),
  ("String_Mem", [(.chk, "instance(obj, C_Str)"), (.ite, "c and c->c_str"), (.ret, ""), (.fin, ""), (.ret, "")]),
  ("String_Rem", [(.chk, "c_str(obj)"), (.ite, "pos is NULL"), (.thr, "ValueError"), (.ret, ""), (.fin, ""), (.mut, "memmove")]),
  ("String_Resize", [(.ite, "header(self)->alloc is (var)AllocStack or header(self)->alloc is (var)AllocStatic"), (.thr, "ValueError"), (.fin, ""), (.mut, "realloc"), (.mut, "val="), (.ite, "n > m"), (.mut, "memset"), (.els, ""), (.mut, "val="), (.fin, "")]),
  ("String_Concat", [(.ite, "header(self)->alloc is (var)AllocStack or header(self)->alloc is (var)AllocStatic"), (.thr, "ValueError"), (.fin, ""), (.chk, "c_str(obj)"), (.mut, "realloc"), (.mut, "val="), (.chk, "c_str(obj)"), (.mut, "strcat")]),
  ("String_Assign", [(.chk, "c_str(obj)"), (.ite, "val is s->val"), (.ret, ""), (.fin, ""), (.ite, "header(self)->alloc is (var)AllocStack or header(self)->alloc is (var)AllocStatic"), (.thr, "ValueError"), (.fin, ""), (.mut, "realloc"), (.mut, "val="), (.mut, "strcpy")]),
  ("String_Format_To", [(.ite, "size < 0"), (.ret, ""), (.fin, ""), (.ite, "header(self)->alloc is (var)AllocStack or header(self)->alloc is (var)AllocStatic"), (.thr, "ValueError"), (.fin, ""), (.mut, "realloc"), (.mut, "val="), (.ret, "")]),
  ("Range_Len", [(.ite, "r->step == 0"), (.ret, ""), (.fin, ""), (.ite, "r->stop <= r->start"), (.ret, ""), (.fin, ""), (.ite, "r->step > 0"), (.ret, ""), (.fin, ""), (.ite, "r->step < 0"), (.ret, ""), (.fin, ""), (.ret, "")]),
  ("Range_Get", [(.call, "Range_Len"), (.chk, "c_int(key)"), (.ite, "r->step > 0 and i >= 0 and i < n"), (.mut, "val="), (.ret, ""), (.fin, ""), (.ite, "r->step < 0 and i >= 0 and i < n"), (.mut, "val="), (.ret, ""), (.fin, ""), (.thr, "IndexOutOfBoundsError"), (.ret, "")]),
  ("Slice_Get", [(.call, "Range_Get"), (.chk, "get(s->iter, Range_Get(s->range, key))"), (.ret, "")]),
  ("Zip_Get", [(.chk, "len(iters)"), (.loop, "i < num"), (.chk, "get(iters->items[i], key)"), (.mut, "items="), (.fin, ""), (.ret, "")]),
  ("Type_Of", [(.ite, "self is NULL"), (.thr, "ValueError"), (.ret, ""), (.fin, ""), (.ite, "head->magic is (var)0xDeadCe110"), (.thr, "ValueError"), (.fin, ""), (.ite, "head->magic isnt ((var)CELLO_MAGIC_NUM)"), (.thr, "ValueError"), (.fin, ""), (.ite, "head->type is NULL"), (.mut, "type="), (.fin, ""), (.ret, "")]),
  ("cast", [(.chk, "instance(self, Cast)"), (.ite, "c and c->cast"), (.ret, ""), (.fin, ""), (.chk, "type_of(self)"), (.ite, "type_of(self) is type"), (.ret, ""), (.els, ""), (.chk, "type_of(self)"), (.thr, "ValueError"), (.ret, ""), (.fin, "")]),
  ("Type_Method_At_Offset", [(.chk, "Type_Instance(self, cls)"), (.ite, "inst is NULL"), (.thr, "ClassError"), (.ret, ""), (.fin, ""), (.ite, "meth is NULL"), (.thr, "ClassError"), (.ret, ""), (.fin, ""), (.ret, "")]),
  ("dealloc", [(.chk, "instance(self, Alloc)"), (.ite, "a and a->dealloc"), (.ret, ""), (.fin, ""), (.ite, "self is NULL"), (.thr, "ResourceError"), (.fin, ""), (.ite, "header(self)->alloc is (var)AllocStatic"), (.thr, "ResourceError"), (.fin, ""), (.ite, "header(self)->alloc is (var)AllocStack"), (.thr, "ResourceError"), (.fin, ""), (.ite, "header(self)->alloc is (var)AllocData"), (.thr, "ResourceError"), (.fin, ""), (.chk, "type_of(self)"), (.loop, "i < (sizeof(struct Header) + s) / sizeof(var)"), (.mut, "[]="), (.fin, ""), (.mut, "free")]),
  ("assign", [(.chk, "instance(self, Assign)"), (.ite, "a and a->assign"), (.ret, ""), (.fin, ""), (.chk, "type_of(self)"), (.chk, "type_of(self)"), (.chk, "type_of(obj)"), (.ite, "type_of(self) is type_of(obj) and s"), (.mut, "memcpy"), (.ret, ""), (.fin, ""), (.chk, "type_of(obj)"), (.chk, "type_of(self)"), (.thr, "TypeError"), (.ret, "")]),
  ("print_to_with", [(.loop, "true"), (.ite, "*fmt is '\\0'"), (.fin, ""), (.loop, "*fmt isnt '\\0' and *fmt isnt '%'"), (.fin, ""), (.ite, "start isnt fmt"), (.mut, "memcpy"), (.mut, "fmt_buf[]="), (.mut, "format_to"), (.ite, "off < 0"), (.thr, "FormatError"), (.fin, ""), (.fin, ""), (.ite, "*fmt is '%' && *(fmt+1) is '%'"), (.mut, "format_to"), (.ite, "off < 0"), (.thr, "FormatError"), (.fin, ""), (.fin, ""), (.loop, "not strchr(\"diuoxXfFeEgGaAxcsp$\", *fmt)"), (.fin, ""), (.ite, "start isnt fmt"), (.mut, "memcpy"), (.mut, "fmt_buf[]="), (.chk, "len(args)"), (.ite, "index >= len(args)"), (.thr, "FormatError"), (.fin, ""), (.chk, "get(args, $I(index))"), (.ite, "*fmt is '$'"), (.mut, "show_to"), (.fin, ""), (.ite, "*fmt is 's'"), (.chk, "c_str(a)"), (.mut, "format_to"), (.ite, "off < 0"), (.thr, "FormatError"), (.fin, ""), (.fin, ""), (.ite, "strchr(\"diouxX\", *fmt)"), (.chk, "c_int(a)"), (.mut, "format_to"), (.ite, "off < 0"), (.thr, "FormatError"), (.fin, ""), (.fin, ""), (.ite, "strchr(\"fFeEgGaA\", *fmt)"), (.chk, "c_float(a)"), (.mut, "format_to"), (.ite, "off < 0"), (.thr, "FormatError"), (.fin, ""), (.fin, ""), (.ite, "*fmt is 'c'"), (.chk, "c_int(a)"), (.mut, "format_to"), (.ite, "off < 0"), (.thr, "FormatError"), (.fin, ""), (.fin, ""), (.ite, "*fmt is 'p'"), (.mut, "format_to"), (.ite, "off < 0"), (.thr, "FormatError"), (.fin, ""), (.fin, ""), (.fin, ""), (.thr, "FormatError"), (.fin, ""), (.mut, "free"), (.ret, "")])]

/-- functions in which every check precedes every mutation — their raising paths leave the object untouched by construction -/
def orderedFns : List String :=
  ["Array_Get", "Array_Set", "Array_Mem", "Array_Rem", "Array_Pop", "Array_Pop_At", "Array_Resize", "Array_Clear",
   "List_At", "List_Get", "List_Set", "List_Mem", "List_Rem", "List_Push", "List_Push_At", "List_Pop", "List_Pop_At", "List_Resize",
   "List_Clear",
   "Tuple_Get", "Tuple_Set", "Tuple_Mem", "Tuple_Rem", "Tuple_Push", "Tuple_Push_At", "Tuple_Pop", "Tuple_Pop_At", "Tuple_Resize",
   "Table_Get", "Table_Mem", "Table_Rem", "Table_Resize",
   "Tree_Get", "Tree_Mem", "Tree_Rem", "Tree_Resize",
   "String_Mem", "String_Rem", "String_Resize", "String_Concat", "String_Assign", "String_Format_To",
   "Range_Len", "Range_Get", "Type_Of", "cast", "Type_Method_At_Offset", "dealloc", "assign"]

/-- functions in which a raising event can follow a mutation.  Known findings (the model has the same order and the `kf`
    territories of FailSpec.lean name them): Array_Push / Array_Push_At / Array_Concat (F15: `nitems++` before `assign`),
    List_Concat (item by item), Array_Assign / List_Assign / Table_Assign / Tree_Assign (clear first), Tuple_Concat / Tuple_Assign
    (`realloc` before the `foreach` / `get` over the source).  Benign (the model proves atomicity all the same): Table_Set_Move and
    Tree_Set assign the value after the key — both were `cast` first, and the first `assign` goes to the swap space / a node that
    is not linked yet; Table_Set rehashes a slot-less table before `Table_Set_Move` casts (`C12_failure_atomic_table` states
    exactly what can differ); Slice_Get / Zip_Get write their scratch Int / values Tuple before the `get` on the base
    (`Obj.exact`, `Obj.view`).  Finding KF-C12-sort-partial: `Tuple_Sort_Partition` / `Array_Sort_Partition` exchange elements (`Tuple_Swap`
    / `swap`) and then call the comparison `f` (the `*_Sort_Part` / `*_Sort_By` functions inherit it: `Tup.sort`, `Arr.sort`).
    Finding F29: `print_to_with` writes a segment (`format_to`) and then validates the next argument (`Str.printLoop`). -/
def unorderedFns : List String :=
  ["Array_Push", "Array_Push_At", "Array_Concat", "Array_Assign", "List_Concat", "List_Assign", "Tuple_Concat", "Tuple_Assign",
   "Table_Set", "Table_Set_Move", "Table_Assign", "Tree_Set", "Tree_Assign", "Slice_Get", "Zip_Get",
   "Array_Sort_Partition", "Array_Sort_Part", "Array_Sort_By", "Tuple_Sort_Partition", "Tuple_Sort_Part", "Tuple_Sort_By",
   "print_to_with"]

/-! ### two single guards the model depends on, read from the generated token lists -/

/-- `String_Assign` (fix 744a45f): the function begins `c_str(obj)`; `if (val is s->val) { return; }` — the self-assignment guard
    comes before the allocation check, before every `throw` and before every mutation (`Str.assignSelf` is a no-op that cannot
    raise exactly because of this) -/
def selfGuardFirst (prof : Profile.Prof) : Bool :=
  match prof.lookup "String_Assign" with
  | some ((.chk, "c_str(obj)") :: (.ite, "val is s->val") :: (.ret, _) :: (.fin, _) :: _) => true
  | _ => false

/-- in a token list with the CELLO_MEMORY_CHECK regions kept: directly after `s->val = realloc(…)` (`mut realloc`, `mut val=`) comes
    `if (s->val is NULL) throw(OutOfMemoryError, …)` — nothing is written through the new pointer before it has been tested -/
def nullTestFollowsRealloc : List Profile.Tok → Bool
  | (.mut, "realloc") :: (.mut, "val=") :: (.ite, "s->val is NULL") :: (.thr, "OutOfMemoryError") :: _ => true
  | _ :: ts => nullTestFollowsRealloc ts
  | [] => false

/-- `String_Resize` tests the result of `realloc` before it writes through it (fix 63509f2); `false` also when the function is
    missing from the memory profile -/
def resizeChecksFirst (mprof : Profile.Prof) : Bool :=
  match mprof.lookup "String_Resize" with
  | some body => nullTestFollowsRealloc body
  | none => false

/-- the memory profile of `String_Resize` before fix 63509f2: `memset` / the terminator store between the `realloc` and the test -/
def memoryProfileOld : Profile.Prof := [
  ("String_Resize", [(.ite, "header(self)->alloc is (var)AllocStack or header(self)->alloc is (var)AllocStatic"), (.thr, "ValueError"), (.fin, ""), (.mut, "realloc"), (.mut, "val="), (.ite, "n > m"), (.mut, "memset"), (.els, ""), (.mut, "val="), (.fin, ""), (.ite, "s->val is NULL"), (.thr, "OutOfMemoryError"), (.fin, "")])]

/-! ### `Table_Set`: the arguments are validated before the slot array is replaced

`Table_Set` is in `unorderedFns` for two benign reasons (the slot-less rehash, the swap-space writes of `Table_Set_Move`), so
`Profile.ordered` does not speak about it.  What the model's `Tab.set` / `Tab.moves` depend on is read here from the generated token
lists directly: on a table that has slots nothing is mutated in front of the call of `Table_Set_Move`, and `Table_Set_Move` casts the
key and the value before its first mutation — a refused `set` cannot have rehashed the table into a new block. -/

/-- the rest of a token list after the block that was just entered (`if` / loop) is closed: by its `fin`, or by its `els` (the
    `else` branch is then kept: it is what runs when the guard is false) -/
def skipBlock : Nat → List Profile.Tok → List Profile.Tok
  | _, [] => []
  | d, (k, _) :: ts =>
    match k, d with
    | .fin, 0 => ts
    | .els, 0 => ts
    | .fin, d + 1 => skipBlock d ts
    | .ite, d => skipBlock (d + 1) ts
    | .loop, d => skipBlock (d + 1) ts
    | _, d => skipBlock d ts

/-- the tokens in front of the first `call f`, the blocks `if (g) …` left out (`g` is known to be false); `none`: `f` is not
    called (or the fuel ran out) -/
def beforeCall (f g : String) : Nat → List Profile.Tok → Option (List Profile.Tok)
  | 0, _ => none
  | _ + 1, [] => none
  | fuel + 1, (k, x) :: ts =>
    if k = .call ∧ x = f then some []
    else if k = .ite ∧ x = g then beforeCall f g fuel (skipBlock 0 ts)
    else (beforeCall f g fuel ts).map ((k, x) :: ·)

/-- a token that writes to the object -/
def Profile.writes (t : Profile.Tok) : Bool := t.1 = .mut || t.1 = .asg

/-- **`Table_Set` validates before it grows.**  With `if (t->nslots is 0) { … }` left out, no token of `Table_Set` in front of the call
    of `Table_Set_Move` writes to the table; and the tokens of `Table_Set_Move` in front of its first write contain the `cast` of the
    key and the `cast` of the value.  `false` also when either function is missing or `Table_Set_Move` is not called. -/
def tableSetValidatesFirst (prof : Profile.Prof) : Bool :=
  match prof.lookup "Table_Set", prof.lookup "Table_Set_Move" with
  | some s, some m =>
    (match beforeCall "Table_Set_Move" "t->nslots is 0" (s.length + 1) s with
     | some pre => pre.all (fun t => !Profile.writes t)
     | none => false)
    && (m.takeWhile (fun t => !Profile.writes t)).count (.call, "cast") = 2
  | _, _ => false

/-- the profile with `Table_Set` rewritten to make room first (`new_size = Table_Ideal_Size(nitems + 1)`; rehash when it exceeds
    `nslots`; then `Table_Set_Move`) — the shape `tableSetValidatesFirst` exists to refuse -/
def profileGrowFirst (prof : Profile.Prof) : Profile.Prof :=
  prof.map (fun p => if p.1 = "Table_Set" then
    ("Table_Set", [(.ite, "new_size > t->nslots"), (.mut, "Table_Rehash"), (.fin, ""), (.call, "Table_Set_Move")]) else p)

/-- `assign(slot, obj)` for a slot that is itself a container is the container's own `Assign` member -/
def IK.assignFn : IK → String
  | .arr => "Array_Assign" | .lst => "List_Assign" | .tab => "Table_Assign"

/-- the C function an operation of the model mirrors (the class member the operation is dispatched to).  On a container whose
    elements are containers, `set` / `push` / `push_at` are as ordered as the element's `assign`, which is `Array_Assign` /
    `List_Assign` / `Table_Assign` there (for scalar element types `assign` validates and then overwrites: the `asg` token). -/
def Obj.opFn : Obj → Op → Option String
  | .arr _, .get _ => some "Array_Get"
  | .arr _, .set _ _ => some "Array_Set"
  | .arr _, .mem _ => some "Array_Mem"
  | .arr _, .rem _ => some "Array_Rem"
  | .arr _, .push _ => some "Array_Push"
  | .arr _, .pushAt _ _ => some "Array_Push_At"
  | .arr _, .pop => some "Array_Pop"
  | .arr _, .popAt _ => some "Array_Pop_At"
  | .arr _, .resize _ => some "Array_Resize"
  | .arr _, .concat _ => some "Array_Concat"
  | .arr _, .append _ => some "Array_Push"
  | .arr _, .assign _ => some "Array_Assign"
  | .lst _, .get _ => some "List_Get"
  | .lst _, .set _ _ => some "List_Set"
  | .lst _, .mem _ => some "List_Mem"
  | .lst _, .rem _ => some "List_Rem"
  | .lst _, .push _ => some "List_Push"
  | .lst _, .pushAt _ _ => some "List_Push_At"
  | .lst _, .pop => some "List_Pop"
  | .lst _, .popAt _ => some "List_Pop_At"
  | .lst _, .resize _ => some "List_Resize"
  | .lst _, .concat _ => some "List_Concat"
  | .lst _, .append _ => some "List_Push"
  | .lst _, .assign _ => some "List_Assign"
  | .tup _, .get _ => some "Tuple_Get"
  | .tup _, .set _ _ => some "Tuple_Set"
  | .tup _, .mem _ => some "Tuple_Mem"
  | .tup _, .rem _ => some "Tuple_Rem"
  | .tup _, .push _ => some "Tuple_Push"
  | .tup _, .pushAt _ _ => some "Tuple_Push_At"
  | .tup _, .pop => some "Tuple_Pop"
  | .tup _, .popAt _ => some "Tuple_Pop_At"
  | .tup _, .resize _ => some "Tuple_Resize"
  | .tup _, .concat _ => some "Tuple_Concat"
  | .tup _, .append _ => some "Tuple_Push"
  | .tup _, .assign _ => some "Tuple_Assign"
  | .tab _, .get _ => some "Table_Get"
  | .tab _, .set _ _ => some "Table_Set"
  | .tab _, .mem _ => some "Table_Mem"
  | .tab _, .rem _ => some "Table_Rem"
  | .tab _, .resize _ => some "Table_Resize"
  | .tab _, .assign _ => some "Table_Assign"
  | .tre _, .get _ => some "Tree_Get"
  | .tre _, .set _ _ => some "Tree_Set"
  | .tre _, .mem _ => some "Tree_Mem"
  | .tre _, .rem _ => some "Tree_Rem"
  | .tre _, .resize _ => some "Tree_Resize"
  | .tre _, .assign _ => some "Tree_Assign"
  | .str _, .mem _ => some "String_Mem"
  | .str _, .rem _ => some "String_Rem"
  | .str _, .resize _ => some "String_Resize"
  | .str _, .concat _ => some "String_Concat"
  | .str _, .append _ => some "String_Concat"
  | .str _, .assign _ => some "String_Assign"
  | .rng _, .get _ => some "Range_Get"
  | .rng _, .len => some "Range_Len"
  | .slc _, .get _ => some "Slice_Get"
  | .zip _, .get _ => some "Zip_Get"
  | .nest n, .set _ _ => some n.ek.assignFn
  | .nest n, .push _ => some n.ek.assignFn
  | .nest n, .append _ => some n.ek.assignFn
  | .nest n, .pushAt _ _ => some n.ek.assignFn
  | .nest n, .get _ => some (match n.outer with | .arr => "Array_Get" | .lst => "List_Get")
  | .nest n, .pop => some (match n.outer with | .arr => "Array_Pop" | .lst => "List_Pop")
  | .nest n, .popAt _ => some (match n.outer with | .arr => "Array_Pop_At" | .lst => "List_Pop_At")
  | .nest n, .resize _ => some (match n.outer with | .arr => "Array_Resize" | .lst => "List_Resize")
  | _, _ => none

end Cello.Fail
