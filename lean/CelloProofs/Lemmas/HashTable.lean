/-
  Lemmas for C10 (T2): robin-hood insertion keeps the multiset of entries. Hence `Table_Assign` / `copy` of a Table with
  pairwise different keys yields a Table holding a permutation of the same entries (same abstract map, same hash), whatever
  the slot layouts are.
-/
import Cello.Hash
import Mathlib.Data.List.Perm.Basic
set_option linter.unusedSimpArgs false
set_option linter.unusedVariables false

namespace Cello.Hash

/-! ### lists of optional slots -/

theorem perm_set_none {α : Type} : ∀ (l : List (Option α)) (i : Nat) (x : α), l[i]? = some none →
    ((l.set i (some x)).filterMap id).Perm (x :: l.filterMap id) := by
  intro l
  induction l with
  | nil => intro i x h; simp at h
  | cons a l ih =>
    intro i x h
    cases i with
    | zero =>
      simp only [List.getElem?_cons_zero, Option.some.injEq] at h
      subst h
      simp
    | succ i =>
      simp only [List.getElem?_cons_succ] at h
      simp only [List.set_cons_succ]
      cases a with
      | none => simpa using ih i x h
      | some y =>
        simp only [List.filterMap_cons, id]
        exact ((ih i x h).cons y).trans (List.Perm.swap x y _)

theorem perm_set_some {α : Type} : ∀ (l : List (Option α)) (i : Nat) (s x : α), l[i]? = some (some s) →
    (s :: (l.set i (some x)).filterMap id).Perm (x :: l.filterMap id) := by
  intro l
  induction l with
  | nil => intro i s x h; simp at h
  | cons a l ih =>
    intro i s x h
    cases i with
    | zero =>
      simp only [List.getElem?_cons_zero, Option.some.injEq] at h
      subst h
      simp only [List.set_cons_zero, List.filterMap_cons, id]
      exact List.Perm.swap x s _
    | succ i =>
      simp only [List.getElem?_cons_succ] at h
      simp only [List.set_cons_succ]
      cases a with
      | none => simpa using ih i s x h
      | some y =>
        simp only [List.filterMap_cons, id]
        exact (List.Perm.swap y s _).trans (((ih i s x h).cons y).trans (List.Perm.swap x y _))

/-- pigeonhole: fewer occupied slots than slots leaves an empty one -/
theorem exists_none_of_lt {α : Type} : ∀ (l : List (Option α)), (l.filterMap id).length < l.length →
    ∃ k, k < l.length ∧ l[k]? = some none := by
  intro l
  induction l with
  | nil => intro h; simp at h
  | cons a l ih =>
    intro h
    cases a with
    | none => exact ⟨0, by simp, by simp⟩
    | some y =>
      simp only [List.filterMap_cons, id, List.length_cons, Nat.add_lt_add_iff_right] at h
      obtain ⟨k, hk, hn⟩ := ih h
      exact ⟨k + 1, by simp [hk], by simpa using hn⟩

/-! ### the insertion loop -/

/-- occupied slots in slot order -/
abbrev occ (t : Table) : List Slot := t.slots.toList.filterMap id

/-- the keys are pairwise different under `eq` (both argument orders) -/
def SlotKeysDistinct (addr : Nat → Bytes) (l : List Slot) : Prop :=
  l.Pairwise fun a b => keyEq addr a.k b.k = false ∧ keyEq addr b.k a.k = false

theorem SlotKeysDistinct.perm {addr : Nat → Bytes} {l₁ l₂ : List Slot} (p : l₁.Perm l₂) (h : SlotKeysDistinct addr l₁) :
    SlotKeysDistinct addr l₂ :=
  (List.Perm.pairwise_iff (fun {x y} hxy => ⟨hxy.2, hxy.1⟩) p).mp h

theorem getD_eq_of_toList {t : Table} {i : Nat} {o : Option Slot} (h : t.slots.toList[i]? = some o) :
    t.slots.getD i none = o := by
  rw [Array.getD_eq_getD_getElem?, ← Array.getElem?_toList, h]; rfl

theorem toList_of_getD {t : Table} {i : Nat} (hi : i < t.slots.size) :
    t.slots.toList[i]? = some (t.slots.getD i none) := by
  rw [Array.getD_eq_getD_getElem?, Array.getElem?_toList]
  simp [hi]

theorem setMoveLoop_perm (addr : Nat → Bytes) : ∀ (fuel : Nat) (t : Table) (cur : Slot) (i j : Nat),
    t.slots.size = t.nslots → i < t.nslots →
    (∃ d, d < fuel ∧ t.slots.toList[(i + d) % t.nslots]? = some none) →
    SlotKeysDistinct addr (cur :: occ t) →
    (occ (setMoveLoop addr fuel t cur i j)).Perm (cur :: occ t) ∧
      (setMoveLoop addr fuel t cur i j).slots.size = (setMoveLoop addr fuel t cur i j).nslots ∧
      (setMoveLoop addr fuel t cur i j).nslots = t.nslots := by
  intro fuel
  induction fuel with
  | zero => intro t cur i j _ _ hd _; obtain ⟨d, hd, _⟩ := hd; omega
  | succ fuel ih =>
    intro t cur i j hsz hi hd hdist
    have hisz : i < t.slots.size := by omega
    have hti := toList_of_getD hisz
    obtain ⟨d, hdlt, hdn⟩ := hd
    unfold setMoveLoop
    cases hslot : t.slots.getD i none with
    | none =>
      simp only []
      rw [hslot] at hti
      refine ⟨?_, by simpa using hsz, by first | rfl | trivial⟩
      simp only [occ, Array.toList_setIfInBounds]
      exact perm_set_none _ i cur hti
    | some s =>
      simp only []
      rw [hslot] at hti
      -- the resident's key differs from the carried key
      have hs_mem : s ∈ occ t := by
        simp only [occ, List.mem_filterMap, id]
        exact ⟨some s, List.mem_of_getElem? hti, rfl⟩
      have hne : keyEq addr s.k cur.k = false := ((List.pairwise_cons.mp hdist).1 s hs_mem).2
      simp only [hne, Bool.false_eq_true, if_false]
      -- the empty slot is not this one
      have hd0 : d ≠ 0 := by
        intro h0; subst h0
        simp only [Nat.add_zero, Nat.mod_eq_of_lt hi] at hdn
        rw [hti] at hdn; simp at hdn
      have hidx : ((i + 1) % t.nslots + (d - 1)) % t.nslots = (i + d) % t.nslots := by
        rw [Nat.mod_add_mod]; congr 1; omega
      have hi' : (i + 1) % t.nslots < t.nslots := Nat.mod_lt _ (by omega)
      split
      · -- displace the resident
        have hkne : (i + d) % t.nslots ≠ i := by
          intro hk; rw [hk, hti] at hdn; simp at hdn
        have hperm : (s :: occ { t with slots := t.slots.setIfInBounds i (some cur) }).Perm (cur :: occ t) := by
          simp only [occ, Array.toList_setIfInBounds]
          exact perm_set_some _ i s cur hti
        have := ih { t with slots := t.slots.setIfInBounds i (some cur) } s ((i + 1) % t.nslots)
          (probe t.nslots i s.stored + 1) (by simpa using hsz) hi'
          ⟨d - 1, by omega, by
            simp only [Array.toList_setIfInBounds]
            rw [hidx, List.getElem?_set_ne (Ne.symm hkne)]; exact hdn⟩
          (SlotKeysDistinct.perm hperm.symm hdist)
        exact ⟨this.1.trans hperm, this.2.1, this.2.2⟩
      · exact ih t cur ((i + 1) % t.nslots) (j + 1) hsz hi' ⟨d - 1, by omega, by rw [hidx]; exact hdn⟩ hdist

/-- `Table_Set_Move` into a table with a free slot and no equal key adds exactly the new entry -/
theorem setMove_perm (addr : Nat → Bytes) (t : Table) (k v : Scalar)
    (hsz : t.slots.size = t.nslots) (hfree : (occ t).length < t.slots.toList.length)
    (hdist : ∀ home, SlotKeysDistinct addr (⟨home, k, v⟩ :: occ t)) :
    ∃ home, (occ (setMove addr t k v)).Perm (⟨home, k, v⟩ :: occ t) ∧
      (setMove addr t k v).slots.size = (setMove addr t k v).nslots ∧ (setMove addr t k v).nslots = t.nslots := by
  obtain ⟨e, helt, hen⟩ := exists_none_of_lt _ hfree
  have hn : 0 < t.nslots := by simp at helt; omega
  have helt' : e < t.nslots := by simp at helt; omega
  unfold setMove
  refine ⟨(scalarHash addr k).toNat % t.nslots + 1, ?_⟩
  have hi : (scalarHash addr k).toNat % t.nslots < t.nslots := Nat.mod_lt _ hn
  generalize (scalarHash addr k).toNat % t.nslots = i at hi ⊢
  apply setMoveLoop_perm addr _ t _ i 0 hsz hi _ (hdist _)
  by_cases hle : i ≤ e
  · exact ⟨e - i, by omega, by rw [show i + (e - i) = e by omega, Nat.mod_eq_of_lt helt']; exact hen⟩
  · exact ⟨e + t.nslots - i, by omega, by
      rw [show i + (e + t.nslots - i) = e + t.nslots by omega, Nat.add_mod_right, Nat.mod_eq_of_lt helt']; exact hen⟩

/-! ### `Table_Ideal_Size` leaves room -/

theorem lt_idealSize (n : Nat) : n < idealSize n := by
  unfold idealSize
  have hw : n + 1 ≤ (n + 1) * 10 / CelloGen.Hash.tableLoadNum := by
    show n + 1 ≤ (n + 1) * 10 / 9
    omega
  generalize (n + 1) * 10 / CelloGen.Hash.tableLoadNum = want at hw
  simp only []
  cases hf : CelloGen.Hash.tablePrimes.find? (· ≥ want) with
  | some p =>
    have := List.find?_some hf
    simp only [ge_iff_le, decide_eq_true_eq] at this
    simp only []
    omega
  | none =>
    simp only []
    have hl : CelloGen.Hash.tablePrimes.getLastD 1 = 8800019 := by decide
    rw [hl]
    simp only [show ¬ (8800019 : Nat) = 0 by omega, if_false]
    omega

/-! ### building a table from an entry list -/

def EntryKeysDistinct (addr : Nat → Bytes) (es : List (Scalar × Scalar)) : Prop :=
  es.Pairwise fun a b => keyEq addr a.1 b.1 = false ∧ keyEq addr b.1 a.1 = false

/-- the check the driver evaluates on Table states is the hypothesis of the Table theorems -/
theorem entryKeysDistinctB_iff (addr : Nat → Bytes) (es : List (Scalar × Scalar)) :
    entryKeysDistinctB addr es = true ↔ EntryKeysDistinct addr es := by
  induction es with
  | nil => simp [entryKeysDistinctB, EntryKeysDistinct]
  | cons e es ih =>
    simp only [entryKeysDistinctB, Bool.and_eq_true, List.all_eq_true, EntryKeysDistinct, List.pairwise_cons,
      Bool.not_eq_true']
    rw [show entryKeysDistinctB addr es = true ↔ List.Pairwise _ es from ih]

theorem slotKeysDistinct_of_entries {addr : Nat → Bytes} {l : List Slot} {es : List (Scalar × Scalar)}
    (p : (l.map fun s => (s.k, s.v)).Perm es) (h : EntryKeysDistinct addr es) : SlotKeysDistinct addr l := by
  have h1 : EntryKeysDistinct addr (l.map fun s => (s.k, s.v)) :=
    (List.Perm.pairwise_iff (fun {x y} hxy => ⟨hxy.2, hxy.1⟩) p.symm).mp h
  unfold EntryKeysDistinct at h1
  rw [List.pairwise_map] at h1
  exact h1

theorem foldl_setMove_perm (addr : Nat → Bytes) : ∀ (es done : List (Scalar × Scalar)) (acc : Table),
    acc.slots.size = acc.nslots → ((occ acc).map fun s => (s.k, s.v)).Perm done →
    done.length + es.length < acc.nslots → EntryKeysDistinct addr (done ++ es) →
    (((occ (es.foldl (fun acc e => setMove addr acc e.1 e.2) acc)).map fun s => (s.k, s.v)).Perm (done ++ es)) := by
  intro es
  induction es with
  | nil => intro done acc _ hp _ _; simpa using hp
  | cons e es ih =>
    intro done acc hsz hp hlen hdist
    simp only [List.foldl_cons]
    have hocclen : (occ acc).length = done.length := by
      have := hp.length_eq; simpa using this
    have hsym : ∀ {x y : Scalar × Scalar}, (keyEq addr x.1 y.1 = false ∧ keyEq addr y.1 x.1 = false) →
        (keyEq addr y.1 x.1 = false ∧ keyEq addr x.1 y.1 = false) := fun hxy => ⟨hxy.2, hxy.1⟩
    have hmid : EntryKeysDistinct addr (e :: (done ++ es)) :=
      (List.Perm.pairwise_iff hsym (List.perm_middle (a := e) (l₁ := done) (l₂ := es))).mp hdist
    have hed : EntryKeysDistinct addr (e :: done) :=
      List.Pairwise.sublist (List.Sublist.cons_cons e (List.sublist_append_left done es)) hmid
    have hd1 : ∀ home, SlotKeysDistinct addr (⟨home, e.1, e.2⟩ :: occ acc) := by
      intro home
      apply slotKeysDistinct_of_entries (es := e :: done) _ hed
      simpa using hp
    have hfree : (occ acc).length < acc.slots.toList.length := by
      simp only [Array.length_toList]; omega
    obtain ⟨home, hperm, hsz', hns⟩ := setMove_perm addr acc e.1 e.2 hsz hfree hd1
    have hp' : ((occ (setMove addr acc e.1 e.2)).map fun s => (s.k, s.v)).Perm (done ++ [e]) := by
      have h1 := hperm.map (fun s : Slot => (s.k, s.v))
      simp only [List.map_cons] at h1
      exact h1.trans (((hp.cons e)).trans (List.perm_append_singleton e done).symm)
    have := ih (done ++ [e]) (setMove addr acc e.1 e.2) hsz' hp'
      (by simp only [List.length_append, List.length_cons, List.length_nil] at hlen ⊢; omega)
      (by simpa using hdist)
    simpa using this

/-- **`Table_New` / `Table_Assign` keep every entry**: a Table built from entries with pairwise different keys holds a
    permutation of exactly these entries -/
theorem tableOfEntries_perm (addr : Nat → Bytes) (es : List (Scalar × Scalar)) (hd : EntryKeysDistinct addr es) :
    (tableOfEntries addr es).entries.Perm es := by
  unfold tableOfEntries
  have hlt := lt_idealSize es.length
  simp only [show ¬ idealSize es.length = 0 by omega, if_false]
  have := foldl_setMove_perm addr es [] ⟨idealSize es.length, Array.replicate (idealSize es.length) none, 0⟩
    (by simp) (by simp [occ, List.filterMap_replicate_of_none]) (by simpa using hlt) (by simpa using hd)
  simpa [Table.entries, Table.entriesInSlotOrder, occ] using this

end Cello.Hash

namespace Cello.Hash

/-! ### building a Tree from an entry list -/

/-- the two keys are comparable (same type) and different, in both argument orders -/
def KeysApart (addr : Nat → Bytes) (a b : Scalar × Scalar) : Prop :=
  (∃ c, scalarCmp addr a.1 b.1 = some c ∧ c ≠ 0) ∧ (∃ c, scalarCmp addr b.1 a.1 = some c ∧ c ≠ 0)

theorem treeSet_perm (addr : Nat → Bytes) (acc : List (Scalar × Scalar)) (k v : Scalar)
    (h : ∀ e ∈ acc, ∃ c, scalarCmp addr e.1 k = some c ∧ c ≠ 0) : (treeSet addr acc k v).Perm ((k, v) :: acc) := by
  induction acc with
  | nil => simp [treeSet]
  | cons e es ih =>
    obtain ⟨c, hc, hne⟩ := h e (by simp)
    simp only [treeSet, hc, hne, if_false]
    split
    · exact List.Perm.refl _
    · exact ((ih (fun e' he' => h e' (by simp [he']))).cons e).trans (List.Perm.swap _ _ _)

theorem foldl_treeSet_perm (addr : Nat → Bytes) : ∀ (es done acc : List (Scalar × Scalar)),
    acc.Perm done → (done ++ es).Pairwise (KeysApart addr) →
    (es.foldl (fun acc e => treeSet addr acc e.1 e.2) acc).Perm (done ++ es) := by
  intro es
  induction es with
  | nil => intro done acc hp _; simpa using hp
  | cons e es ih =>
    intro done acc hp hd
    simp only [List.foldl_cons]
    have hsym : ∀ {x y : Scalar × Scalar}, KeysApart addr x y → KeysApart addr y x := fun hxy => ⟨hxy.2, hxy.1⟩
    have hmid : (e :: (done ++ es)).Pairwise (KeysApart addr) :=
      (List.Perm.pairwise_iff hsym (List.perm_middle (a := e) (l₁ := done) (l₂ := es))).mp hd
    have he : ∀ x ∈ acc, ∃ c, scalarCmp addr x.1 e.1 = some c ∧ c ≠ 0 := by
      intro x hx
      have hx' : x ∈ done ++ es := by simp [hp.mem_iff.mp hx]
      exact ((List.pairwise_cons.mp hmid).1 x hx').2
    have h1 := treeSet_perm addr acc e.1 e.2 he
    have := ih (done ++ [e]) (treeSet addr acc e.1 e.2)
      (h1.trans ((hp.cons e).trans (List.perm_append_singleton e done).symm)) (by simpa using hd)
    simpa using this

/-- **`Tree_New` / `Tree_Assign` keep every entry**: a Tree built from entries with pairwise different, comparable keys holds
    a permutation of exactly these entries -/
theorem treeOfEntries_perm (addr : Nat → Bytes) (es : List (Scalar × Scalar)) (hd : es.Pairwise (KeysApart addr)) :
    (treeOfEntries addr es).Perm es := by
  simpa [treeOfEntries] using foldl_treeSet_perm addr es [] [] (List.Perm.refl _) (by simpa using hd)

/-- keys that are apart are in particular different under `eq` -/
theorem entryKeysDistinct_of_apart {addr : Nat → Bytes} {es : List (Scalar × Scalar)} (h : es.Pairwise (KeysApart addr)) :
    EntryKeysDistinct addr es := by
  refine List.Pairwise.imp ?_ h
  intro a b hab
  obtain ⟨⟨c, hc, hne⟩, ⟨d, hd, hnd⟩⟩ := hab
  simp [keyEq, hc, hd, hne, hnd]

end Cello.Hash
