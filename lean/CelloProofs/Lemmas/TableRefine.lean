/-
  CelloProofs/Lemmas/TableRefine.lean — histories over several tables: every step of the model refines the step of the
  association-list specification and keeps every table in the representation invariant.
-/
import CelloProofs.Lemmas.TableOps
import CelloProofs.Lemmas.TableErase
set_option linter.unusedSectionVars false
set_option linter.unusedVariables false
namespace Cello.Table
open RH
variable {κ ν : Type} [DecidableEq κ]

theorem set_self_of_getElem? {α : Type} {l : List α} {i : Nat} {a : α} (h : l[i]? = some a) : l.set i a = l := by
  obtain ⟨hi, rfl⟩ := List.getElem?_eq_some_iff.mp h
  exact List.set_getElem_self hi

/-- observations agree; iteration order is not part of the specification: the items must be a permutation -/
def ObsRel (a b : Obs κ ν) : Prop :=
  match a, b with
  | .items x, .items y => x.Perm y
  | _, _ => a = b

theorem ObsRel.rfl' (a : Obs κ ν) (h : ∀ l, a ≠ .items l) : ObsRel a a := by
  cases a <;> simp [ObsRel] at *

/-- every table variable represents the corresponding specification map -/
def StRel (hash : κ → Nat) (ts : List (Tab κ ν)) (ms : List (Spec κ ν)) : Prop :=
  ts.length = ms.length ∧ ∀ i (h1 : i < ts.length) (h2 : i < ms.length), Rep hash ts[i] ms[i]

theorem StRel.get {hash : κ → Nat} {ts : List (Tab κ ν)} {ms : List (Spec κ ν)} (R : StRel hash ts ms) {i : Nat}
    {tb : Tab κ ν} (h : ts[i]? = some tb) : ∃ m, ms[i]? = some m ∧ Rep hash tb m := by
  obtain ⟨hi, rfl⟩ := List.getElem?_eq_some_iff.mp h
  have hi2 : i < ms.length := R.1 ▸ hi
  exact ⟨ms[i], List.getElem?_eq_getElem hi2, R.2 i hi hi2⟩

theorem StRel.none {hash : κ → Nat} {ts : List (Tab κ ν)} {ms : List (Spec κ ν)} (R : StRel hash ts ms) {i : Nat}
    (h : ts[i]? = none) : ms[i]? = none := by
  rw [List.getElem?_eq_none_iff] at h ⊢
  rw [← R.1]; exact h

theorem StRel.set {hash : κ → Nat} {ts : List (Tab κ ν)} {ms : List (Spec κ ν)} (R : StRel hash ts ms) (i : Nat)
    {tb : Tab κ ν} {m : Spec κ ν} (r : Rep hash tb m) : StRel hash (ts.set i tb) (ms.set i m) := by
  refine ⟨by simp [R.1], ?_⟩
  intro j h1 h2
  rw [List.getElem_set, List.getElem_set]
  split
  · exact r
  · exact R.2 j (by simpa using h1) (by simpa using h2)

theorem strel_replicate (cfg : Cfg) (g : GoodCfg cfg) (hash : κ → Nat) (N : Nat) :
    StRel hash (List.replicate N (new cfg : Tab κ ν)) (List.replicate N []) := by
  refine ⟨by simp, ?_⟩
  intro i h1 h2
  simp only [List.getElem_replicate]
  exact new_rep cfg g hash

/-- **one step** -/
theorem step_refines (cfg : Cfg) (g : GoodCfg cfg) (hash : κ → Nat) (ts : List (Tab κ ν)) (ms : List (Spec κ ν))
    (R : StRel hash ts ms) (op : Op κ ν) :
    ∃ ts' o, step cfg hash ts op = .ok (ts', o) ∧ StRel hash ts' (specStep ms op).1 ∧ ObsRel o (specStep ms op).2 := by
  cases op with
  | new t =>
    simp only [step, specStep, R.1]
    split
    · exact ⟨_, _, rfl, R.set t (new_rep cfg g hash), rfl⟩
    · exact ⟨_, _, rfl, R, rfl⟩
  | set t k v =>
    simp only [step, specStep]
    cases h : ts[t]? with
    | none => simp only [R.none h]; exact ⟨_, _, rfl, R, rfl⟩
    | some tb =>
      obtain ⟨m, hm, r⟩ := R.get h
      obtain ⟨t', e1, r1⟩ := set_rep cfg g hash tb m r k v
      simp only [hm, e1]
      exact ⟨_, _, rfl, R.set t r1, rfl⟩
  | rem t k =>
    simp only [step, specStep]
    cases h : ts[t]? with
    | none => simp only [R.none h]; exact ⟨_, _, rfl, R, rfl⟩
    | some tb =>
      obtain ⟨m, hm, r⟩ := R.get h
      obtain ⟨t', e1, r1⟩ := rem_rep cfg g hash tb m r k
      simp only [hm, e1]
      cases hg : Spec.get m k with
      | none =>
        simp only [hg] at r1 ⊢
        refine ⟨_, _, rfl, ?_, rfl⟩
        have := R.set t r1
        rwa [set_self_of_getElem? hm] at this
      | some v =>
        simp only [hg] at r1 ⊢
        exact ⟨_, _, rfl, R.set t r1, rfl⟩
  | get t k =>
    simp only [step, specStep]
    cases h : ts[t]? with
    | none => simp only [R.none h]; exact ⟨_, _, rfl, R, rfl⟩
    | some tb =>
      obtain ⟨m, hm, r⟩ := R.get h
      simp only [hm, get_rep hash tb m r k]
      cases hg : Spec.get m k <;> exact ⟨_, _, rfl, R, rfl⟩
  | mem t k =>
    simp only [step, specStep]
    cases h : ts[t]? with
    | none => simp only [R.none h]; exact ⟨_, _, rfl, R, rfl⟩
    | some tb =>
      obtain ⟨m, hm, r⟩ := R.get h
      simp only [hm, mem_rep hash tb m r k]
      exact ⟨_, _, rfl, R, rfl⟩
  | len t =>
    simp only [step, specStep]
    cases h : ts[t]? with
    | none => simp only [R.none h]; exact ⟨_, _, rfl, R, rfl⟩
    | some tb =>
      obtain ⟨m, hm, r⟩ := R.get h
      simp only [hm, len_rep hash tb m r]
      exact ⟨_, _, rfl, R, rfl⟩
  | iter t =>
    simp only [step, specStep]
    cases h : ts[t]? with
    | none => simp only [R.none h]; exact ⟨_, _, rfl, R, rfl⟩
    | some tb =>
      obtain ⟨m, hm, r⟩ := R.get h
      simp only [hm]
      exact ⟨_, _, rfl, R, foreach_perm hash tb m r.toRep0⟩
  | riter t =>
    simp only [step, specStep]
    cases h : ts[t]? with
    | none => simp only [R.none h]; exact ⟨_, _, rfl, R, rfl⟩
    | some tb =>
      obtain ⟨m, hm, r⟩ := R.get h
      simp only [hm]
      exact ⟨_, _, rfl, R, foreachRev_perm hash tb m r.toRep0⟩
  | resize t sz =>
    simp only [step, specStep]
    cases h : ts[t]? with
    | none => simp only [R.none h]; exact ⟨_, _, rfl, R, rfl⟩
    | some tb =>
      obtain ⟨m, hm, r⟩ := R.get h
      obtain ⟨t', e1, r1⟩ := resize_rep cfg g hash tb m r sz
      simp only [hm, e1]
      by_cases h0 : sz = 0
      · simp only [h0, if_true] at r1 ⊢
        exact ⟨_, _, rfl, R.set t r1, rfl⟩
      · simp only [h0, if_false] at r1 ⊢
        have hset := R.set t r1
        rw [set_self_of_getElem? hm] at hset
        by_cases hlt : sz < m.length
        · simp only [hlt, if_true]; exact ⟨_, _, rfl, hset, rfl⟩
        · simp only [hlt, if_false]; exact ⟨_, _, rfl, hset, rfl⟩
  | assign d s =>
    simp only [step, specStep]
    cases hd : ts[d]? with
    | none => simp only [R.none hd]; exact ⟨_, _, rfl, R, rfl⟩
    | some db =>
      obtain ⟨md, hmd, _⟩ := R.get hd
      cases hs : ts[s]? with
      | none => simp only [hmd, R.none hs]; exact ⟨_, _, rfl, R, rfl⟩
      | some sb =>
        obtain ⟨m, hm, r⟩ := R.get hs
        by_cases hds : d = s
        · -- `assign(t, t)`: the guard returns at once, the table and the map stay as they are
          subst hds
          rw [hd] at hs; cases hs
          simp only [hmd, if_true, assignSelf, g.guards]
          refine ⟨_, _, rfl, ?_, rfl⟩
          rw [set_self_of_getElem? hd, set_self_of_getElem? hmd]; exact R
        · obtain ⟨t', e1, r1⟩ := assignFrom_rep cfg g hash sb m r
          simp only [hmd, hm, hds, if_false, e1]
          exact ⟨_, _, rfl, R.set d r1, rfl⟩
  | copy d s =>
    simp only [step, specStep]
    cases hd : ts[d]? with
    | none => simp only [R.none hd]; exact ⟨_, _, rfl, R, rfl⟩
    | some db =>
      obtain ⟨md, hmd, _⟩ := R.get hd
      cases hs : ts[s]? with
      | none => simp only [hmd, R.none hs]; exact ⟨_, _, rfl, R, rfl⟩
      | some sb =>
        obtain ⟨m, hm, r⟩ := R.get hs
        obtain ⟨t', e1, r1⟩ := assignFrom_rep cfg g hash sb m r
        simp only [hmd, hm, e1]
        exact ⟨_, _, rfl, R.set d r1, rfl⟩
  | newWith t kvs odd =>
    simp only [step, specStep, R.1]
    split
    · cases odd with
      | true => exact ⟨_, _, rfl, R, rfl⟩
      | false =>
        obtain ⟨t', e1, r1⟩ := fill_rep cfg g hash kvs
        simp only [e1, Bool.false_eq_true, if_false]
        exact ⟨_, _, rfl, R.set t r1, rfl⟩
    · exact ⟨_, _, rfl, R, rfl⟩
  | assignMap d kvs =>
    simp only [step, specStep, R.1]
    split
    · obtain ⟨t', e1, r1⟩ := fill_rep cfg g hash kvs
      simp only [e1]
      exact ⟨_, _, rfl, R.set d r1, rfl⟩
    · exact ⟨_, _, rfl, R, rfl⟩

/-- **histories** -/
theorem run_refines (cfg : Cfg) (g : GoodCfg cfg) (hash : κ → Nat) :
    ∀ (ops : List (Op κ ν)) (ts : List (Tab κ ν)) (ms : List (Spec κ ν)), StRel hash ts ms →
      ∃ ts' os, run cfg hash ts ops = .ok (ts', os) ∧ StRel hash ts' (specRun ms ops).1 ∧
        List.Forall₂ ObsRel os (specRun ms ops).2 := by
  intro ops
  induction ops with
  | nil => intro ts ms R; exact ⟨ts, [], rfl, R, List.Forall₂.nil⟩
  | cons op ops ih =>
    intro ts ms R
    obtain ⟨ts1, o, e1, R1, ho⟩ := step_refines cfg g hash ts ms R op
    obtain ⟨ts2, os, e2, R2, hos⟩ := ih ts1 (specStep ms op).1 R1
    refine ⟨ts2, o :: os, ?_, ?_, ?_⟩
    · simp only [run, e1, e2]
    · simpa [specRun] using R2
    · simpa [specRun] using List.Forall₂.cons ho hos

end Cello.Table
