/-
  Concrete heaps and histories for C01: a garbage Box on a shared target (the release loop frees a reachable object),
  stale mark bits left by a mark phase that an exception left (before fix d8f0c4f the next collection freed a reachable
  object), a Thread object other than `current(Thread)` as the sole path to an object stored in its table, an
  in-contract Box; and the link between the decidable hypothesis `boxExclusive` and its statement over reachability.
-/
import Cello.Heap
import Cello.HeapRec
import CelloProofs.Lemmas.Mark
import CelloProofs.Lemmas.MarkRec
import CelloProofs.Lemmas.MarkRetype
import CelloProofs.Lemmas.MarkBits
import CelloProofs.Lemmas.MarkRelease

namespace Cello.Heap

/-- **Box's ownership contract in terms of reachability implies the decidable hypothesis**: if whenever an object that an
    entry owns is reachable from the roots the owning entry is reachable too ("no reachable object is owned by an
    unreachable Box"), then no entry the sweep frees owns an entry that stays registered -/
theorem boxExclusive_of_contract {σ : Type} (S : MarkSet σ) (c : Cfg) (h : Heap) (wf : h.WF) (thread : Obj) (stack : List Word)
    (hc : ∀ b v, v ∈ h.ownsAt b → Reachable c h (rootWords c h thread stack) v → Reachable c h (rootWords c h thread stack) b) :
    boxExclusive S c h thread stack S.empty = true := by
  cases hx : ownsSurvivor S h (gcMarkFrom S c h thread stack S.empty) with
  | false => simp [boxExclusive, hx]
  | true =>
    exfalso
    unfold ownsSurvivor at hx
    rw [List.any_eq_true] at hx
    obtain ⟨b, _, hb⟩ := hx
    rw [Bool.and_eq_true, List.any_eq_true] at hb
    obtain ⟨hsw, v, hv, hs⟩ := hb
    rw [gcMarkFrom_empty] at hsw hs
    -- v stays registered: it is root-registered or marked, hence reachable
    have hvr : Reachable c h (rootWords c h thread stack) v := by
      rw [sweep_lookup] at hs
      cases hsv : sweeps S h (gcMark S c h thread stack) v with
      | true => rw [hsv] at hs; simp at hs
      | false =>
        rw [hsv] at hs
        simp only [Bool.false_eq_true, if_false] at hs
        cases hl : h.lookup v with
        | none => rw [hl] at hs; cases hs
        | some e =>
          cases hroot : e.root with
          | true =>
            exact .root (List.mem_append_right _ (List.mem_append_left _ (mem_rootAddrs hl hroot))) (by rw [hl]; rfl)
          | false =>
            cases hm : S.mem v (gcMark S c h thread stack) with
            | true => exact (reachable_iff_reach wf _ _).mpr ((gcMark_iff_reach S c h thread stack v).mp hm)
            | false =>
              have : sweeps S h (gcMark S c h thread stack) v = true := (sweeps_iff S h _ v).mpr ⟨e, hl, hroot, hm⟩
              rw [this] at hsv; cases hsv
    have hbr := hc b v hv hvr
    have hbm : S.mem b (gcMark S c h thread stack) = true :=
      (gcMark_iff_reach S c h thread stack b).mpr ((reachable_iff_reach wf _ _).mp hbr)
    rw [not_swept_of_marked S h hbm] at hsw
    cases hsw

/-- a registry in which no entry owns anything (no Box, no container with an embedded Box) meets the hypothesis trivially -/
theorem boxExclusive_of_no_owner {σ : Type} (S : MarkSet σ) (c : Cfg) (h : Heap) (thread : Obj) (stack : List Word) (m0 : σ)
    (hn : ∀ b ∈ h.regs, h.ownsAt b = []) : boxExclusive S c h thread stack m0 = true := by
  cases hx : ownsSurvivor S h (gcMarkFrom S c h thread stack m0) with
  | false => simp [boxExclusive, hx]
  | true =>
    exfalso
    unfold ownsSurvivor at hx
    rw [List.any_eq_true] at hx
    obtain ⟨b, hb, hb2⟩ := hx
    rw [hn b hb] at hb2
    simp at hb2

/-! ## witnesses -/

def emptyThread : Obj := .thr "Thread" (.cont "Table" [])

/-- 4096 ↦ a root-registered Ref to the Probe at 4160; 4224 ↦ a Box on the same Probe that nothing refers to -/
def boxHeap : Heap where
  lookup a :=
    if a = 4096 then some ⟨.raw "Ref" [4160], true⟩
    else if a = 4160 then some ⟨.raw "Probe" [7], false⟩
    else if a = 4224 then some ⟨.raw "Box" [4160], false⟩
    else none
  regs := [4096, 4160, 4224]
  minptr := 4096
  maxptr := 4224
  complete := by
    intro a e he
    by_cases h1 : a = 4096; · simp [h1]
    by_cases h2 : a = 4160; · simp [h2]
    by_cases h3 : a = 4224; · simp [h3]
    simp [h1, h2, h3] at he

theorem boxHeap_wf : boxHeap.WF := by
  constructor <;> intro a e he <;> simp only [boxHeap] at he ⊢ <;>
    (repeat' split at he) <;> first | (cases he) | (subst_vars; decide) | skip
  all_goals simp_all

theorem boxHeap_roots : rootWords Cfg.current boxHeap emptyThread [] = [4096] := by decide

theorem boxHeap_reach : Reachable Cfg.current boxHeap (rootWords Cfg.current boxHeap emptyThread []) 4160 :=
  .step (a := 4096) (.root (by rw [boxHeap_roots]; simp) (by decide))
    ⟨⟨.raw "Ref" [4160], true⟩, rfl, by decide⟩ (by decide)

theorem boxHeap_box_unreachable : ¬ Reachable Cfg.current boxHeap (rootWords Cfg.current boxHeap emptyThread []) 4224 := by
  intro hr
  have key : ∀ y, Reachable Cfg.current boxHeap (rootWords Cfg.current boxHeap emptyThread []) y → y = 4096 ∨ y = 4160 := by
    intro y hy
    induction hy with
    | root hmem _ => rw [boxHeap_roots] at hmem; left; simpa using hmem
    | step _ hp _ ih =>
      obtain ⟨e, hl, hb⟩ := hp
      rcases ih with h | h <;> subst h
      · have : e = ⟨.raw "Ref" [4160], true⟩ := by
          have h2 : boxHeap.lookup 4096 = some ⟨.raw "Ref" [4160], true⟩ := rfl
          rw [h2] at hl; exact (Option.some.inj hl).symm
        subst this
        have hf : fields Cfg.current (.raw "Ref" [4160]) = [4160] := by decide
        rw [hf] at hb; right; simpa using hb
      · have : e = ⟨.raw "Probe" [7], false⟩ := by
          have h2 : boxHeap.lookup 4160 = some ⟨.raw "Probe" [7], false⟩ := rfl
          rw [h2] at hl; exact (Option.some.inj hl).symm
        subst this
        have hf : fields Cfg.current (.raw "Probe" [7]) = [7] := by decide
        rw [hf] at hb
        rename_i b hreg _
        have hb7 : b = 7 := by simpa using hb
        subst hb7
        exact absurd hreg (by decide)
  rcases key 4224 hr with h | h <;> exact absurd h (by decide)

theorem boxHeap_collect :
    4160 ∈ (collectAll listSet Cfg.current boxHeap emptyThread [] []).finalised ∧
    4160 ∉ (collectAll listSet Cfg.current boxHeap emptyThread [] []).pending ∧
    boxExclusive listSet Cfg.current boxHeap emptyThread [] [] = false := by
  have hm : gcMarkFrom listSet Cfg.current boxHeap emptyThread [] [] = gcMark listSet Cfg.current boxHeap emptyThread [] := rfl
  have h4160 : listSet.mem 4160 (gcMark listSet Cfg.current boxHeap emptyThread []) = true :=
    (gcMark_iff_reach listSet Cfg.current boxHeap emptyThread [] 4160).mpr ((reachable_iff_reach boxHeap_wf _ _).mp boxHeap_reach)
  have h4224 : listSet.mem 4224 (gcMark listSet Cfg.current boxHeap emptyThread []) = false := by
    cases hx : listSet.mem 4224 (gcMark listSet Cfg.current boxHeap emptyThread []) with
    | false => rfl
    | true =>
      exact absurd ((reachable_iff_reach boxHeap_wf _ _).mpr ((gcMark_iff_reach listSet Cfg.current boxHeap emptyThread [] 4224).mp hx))
        boxHeap_box_unreachable
  have s4096 : sweeps listSet boxHeap (gcMark listSet Cfg.current boxHeap emptyThread []) 4096 = false := by
    simp [sweeps, boxHeap]
  have s4160 : sweeps listSet boxHeap (gcMark listSet Cfg.current boxHeap emptyThread []) 4160 = false :=
    not_swept_of_marked listSet boxHeap h4160
  have s4224 : sweeps listSet boxHeap (gcMark listSet Cfg.current boxHeap emptyThread []) 4224 = true :=
    (sweeps_iff listSet boxHeap _ 4224).mpr ⟨⟨.raw "Box" [4160], false⟩, rfl, rfl, h4224⟩
  have hP : (collectFrom listSet Cfg.current boxHeap emptyThread [] []).2 = [4224] := by
    show boxHeap.regs.filter (fun a => sweeps listSet boxHeap (gcMark listSet Cfg.current boxHeap emptyThread []) a) = [4224]
    have : boxHeap.regs = [4096, 4160, 4224] := rfl
    rw [this]
    simp [List.filter, s4096, s4160, s4224]
  have hl : ((collectFrom listSet Cfg.current boxHeap emptyThread [] []).1.lookup 4160).isSome = true := by
    show ((sweep listSet boxHeap (gcMark listSet Cfg.current boxHeap emptyThread [])).1.lookup 4160).isSome = true
    rw [sweep_lookup, s4160]; rfl
  have hown : boxHeap.ownsAt 4224 = [4160] := by decide
  refine ⟨?_, ?_, ?_⟩
  · show 4160 ∈ (release boxHeap (collectFrom listSet Cfg.current boxHeap emptyThread [] []).1
        (collectFrom listSet Cfg.current boxHeap emptyThread [] []).2).finalised
    rw [hP]
    generalize (collectFrom listSet Cfg.current boxHeap emptyThread [] []).1 = h1 at hl ⊢
    have hfuel : [4224].length + h1.regs.length + 1 = (h1.regs.length + 1) + 1 := by simp; omega
    unfold release
    rw [hfuel]
    simp only [releaseLoop, List.map_cons, List.map_nil, List.contains_cons, List.contains_nil, beq_self_eq_true, Bool.true_or, if_true]
    unfold finaliseAt
    rw [hown]
    simp only [List.foldl_cons, List.foldl_nil]
    apply remPtr_registered
    · decide
    · simp [strike]
    · exact hl
  · rw [collectAll_pending, hP]; simp
  · have : ownsSurvivor listSet boxHeap (gcMarkFrom listSet Cfg.current boxHeap emptyThread [] []) = true :=
      ownsSurvivor_true listSet boxHeap (b := 4224) (v := 4160) (by rw [hm]; show 4224 ∈ (collectFrom listSet Cfg.current boxHeap emptyThread [] []).2; rw [hP]; simp)
        (by rw [hown]; simp) (by rw [hm]; exact hl)
    simp [boxExclusive, this]

/-- 4096 ↦ a root-registered Ref (empty); 4160 ↦ a heap Tuple whose only item (4288) has been deleted by hand; 4224 ↦ a Probe -/
def staleHeap : Heap where
  lookup a :=
    if a = 4096 then some ⟨.raw "Ref" [0], true⟩
    else if a = 4160 then some ⟨.tup "Tuple" [4288], false⟩
    else if a = 4224 then some ⟨.raw "Probe" [7], false⟩
    else none
  regs := [4096, 4160, 4224]
  minptr := 4096
  maxptr := 4288
  complete := by
    intro a e he
    by_cases h1 : a = 4096; · simp [h1]
    by_cases h2 : a = 4160; · simp [h2]
    by_cases h3 : a = 4224; · simp [h3]
    simp [h1, h2, h3] at he

theorem staleHeap_wf : staleHeap.WF := by
  constructor <;> intro a e he <;> simp only [staleHeap] at he ⊢ <;>
    (repeat' split at he) <;> first | (cases he) | (subst_vars; decide) | skip
  all_goals simp_all

/-- the mutator holds the Tuple and the Probe on the stack; no mark bit is set -/
def staleStart : GState := { heap := staleHeap, thread := emptyThread, stack := [4160, 4224], stale := [] }

/-- the marking events of the first collection, had it completed: the root Ref, the Tuple, the Probe -/
theorem staleHeap_events : markEvents Cfg.current staleHeap emptyThread [4160, 4224] [] = [4096, 4160, 4224] := by
  have ht : tlsWords Cfg.current emptyThread = [] := by decide
  have hr : rootAddrs staleHeap = [4096] := by decide
  have f1 : staleHeap.fieldsAt Cfg.current 4096 = [0] := by decide
  have f2 : staleHeap.fieldsAt Cfg.current 4160 = [4288] := by decide
  have f3 : staleHeap.fieldsAt Cfg.current 4224 = [7] := by decide
  have e : gcMarkFrom listSet Cfg.current staleHeap emptyThread [4160, 4224] [] = [4224, 4160, 4096] := by
    simp only [gcMarkFrom, ht, hr, dfs_nil]
    rw [dfs_cons_pos listSet _ _ 4096 [] [] (by decide), f1]
    rw [show listSet.insert 4096 [] = [4096] from rfl]
    rw [List.append_nil, dfs_cons_neg listSet _ _ 0 [] [4096] (by decide), dfs_nil]
    rw [dfs_cons_pos listSet _ _ 4160 [4224] [4096] (by decide), f2]
    rw [show listSet.insert 4160 [4096] = [4160, 4096] from rfl]
    rw [List.cons_append, List.nil_append, dfs_cons_neg listSet _ _ 4288 [4224] [4160, 4096] (by decide)]
    rw [dfs_cons_pos listSet _ _ 4224 [] [4160, 4096] (by decide), f3]
    rw [show listSet.insert 4224 [4160, 4096] = [4224, 4160, 4096] from rfl]
    rw [List.append_nil, dfs_cons_neg listSet _ _ 7 [] [4224, 4160, 4096] (by decide), dfs_nil]
  simp only [markEvents, e]
  rfl

def staleOps : List GOp :=
  [.raise 2, .base (.write 4160 (.tup "Tuple" [])), .base (.write 4096 (.raw "Ref" [4224])), .base (.setStack [4160]), .base .collect]


def staleHeap2 : Heap := (staleHeap.write 4160 (.tup "Tuple" [])).write 4096 (.raw "Ref" [4224])

theorem staleRun_events (cf : Bool) :
    (GState.run listSet Cfg.current cf staleOps staleStart).2 =
      [⟨⟨staleHeap2, emptyThread, [4160], [4096, 4160]⟩, if cf then [] else [4096, 4160],
        (collectAll listSet Cfg.current staleHeap2 emptyThread [4160] (seed listSet (if cf then [] else [4096, 4160]))).pending,
        (collectAll listSet Cfg.current staleHeap2 emptyThread [4160] (seed listSet (if cf then [] else [4096, 4160]))).finalised,
        (collectAll listSet Cfg.current staleHeap2 emptyThread [4160] (seed listSet (if cf then [] else [4096, 4160]))).heap⟩] := by
  have h2 : (staleHeap.write 4160 (Obj.tup "Tuple" [])).write 4096 (Obj.raw "Ref" [4224]) = staleHeap2 := rfl
  have hflt : ∀ p : Addr → Bool, p 4096 = true → p 4160 = true → List.filter p [4096, 4160] = [4096, 4160] := by
    intro p h1 h2; simp [List.filter, h1, h2]
  cases cf
  · simp only [staleOps, GState.run, GState.step, staleStart, HState.step, GState.hstate]
    simp only [staleHeap_events, Bool.false_eq_true, if_false, List.append_nil, List.filter_filter, h2]
    simp
    refine ⟨by decide, ?_⟩
    rw [hflt _ (by decide) (by decide)]
    exact ⟨rfl, rfl, rfl⟩
  · simp only [staleOps, GState.run, GState.step, staleStart, HState.step, GState.hstate]
    simp only [staleHeap_events, if_true, List.append_nil, List.filter_filter, h2]
    simp
    decide

theorem staleHeap2_wf : staleHeap2.WF := write_wf (write_wf staleHeap_wf _ _) _ _

theorem staleHeap2_roots : rootWords Cfg.current staleHeap2 emptyThread [4160] = [4096, 4160] := by decide

theorem staleHeap2_reach : Reachable Cfg.current staleHeap2 (rootWords Cfg.current staleHeap2 emptyThread [4160]) 4224 :=
  .step (a := 4096) (.root (by rw [staleHeap2_roots]; simp) (by decide))
    ⟨⟨.raw "Ref" [4224], true⟩, rfl, by decide⟩ (by decide)

/-- with the bits of the root Ref and of the Tuple still set, the Probe the root Ref now points to is swept -/
theorem staleHeap2_swept :
    4224 ∈ (collectAll listSet Cfg.current staleHeap2 emptyThread [4160] (seed listSet [4096, 4160])).pending := by
  rw [collectAll_pending, collectFrom_pending_iff listSet Cfg.current staleHeap2 staleHeap2_wf]
  refine ⟨⟨.raw "Probe" [7], false⟩, rfl, rfl, by rw [mem_seed]; decide, ?_⟩
  intro hr
  have key : ∀ y, ReachableUnmarked Cfg.current staleHeap2 (fun x => listSet.mem x (seed listSet [4096, 4160]))
      (rootWords Cfg.current staleHeap2 emptyThread [4160]) y → False := by
    intro y hy
    induction hy with
    | root hmem _ hf =>
      rw [staleHeap2_roots] at hmem
      rw [mem_seed] at hf
      simp only [List.mem_cons, List.not_mem_nil, or_false] at hmem
      rcases hmem with h | h <;> subst h <;> exact absurd hf (by decide)
    | step _ _ _ _ ih => exact ih
  exact key 4224 hr

/-- … and with the bits cleared before the mark phase (the repair) it is not -/
theorem staleHeap2_kept :
    4224 ∉ (collectAll listSet Cfg.current staleHeap2 emptyThread [4160] (seed listSet [])).pending := by
  rw [collectAll_pending, collectFrom_pending_iff listSet Cfg.current staleHeap2 staleHeap2_wf]
  rintro ⟨_, _, _, _, hn⟩
  apply hn
  have : (fun x => listSet.mem x (seed listSet ([] : List Addr))) = fun _ => false := by
    funext x; rw [mem_seed]; rfl
  rw [this]
  exact (reachableUnmarked_none _ _).mpr staleHeap2_reach

theorem staleHeap2_no_owner : ∀ b ∈ staleHeap2.regs, staleHeap2.ownsAt b = [] := by decide

theorem staleOps_ok : ∀ op ∈ staleOps, op.ok := by
  intro op hop
  simp only [staleOps, List.mem_cons, List.not_mem_nil, or_false] at hop
  rcases hop with h | h | h | h | h <;> subst h <;> simp [GOp.ok, HOp.ok]

/-- 4096 ↦ a Thread object that is not `current(Thread)` (`new(Thread, f)`, not started) whose table holds, under one key, a Ref
    to the Probe at 4160 (`set(t, key, probe)`); nothing else refers to the Probe -/
def threadHeap : Heap where
  lookup a :=
    if a = 4096 then some ⟨.thr "Thread" (.cont "Table" [.raw "String" [0], .raw "Ref" [4160]]), false⟩
    else if a = 4160 then some ⟨.raw "Probe" [7], false⟩
    else none
  regs := [4096, 4160]
  minptr := 4096
  maxptr := 4160
  complete := by
    intro a e he
    by_cases h1 : a = 4096; · simp [h1]
    by_cases h2 : a = 4160; · simp [h2]
    simp [h1, h2] at he

theorem threadHeap_wf : threadHeap.WF := by
  constructor <;> intro a e he <;> simp only [threadHeap] at he ⊢ <;>
    (repeat' split at he) <;> first | (cases he) | (subst_vars; decide) | skip
  all_goals simp_all

/-- an in-contract Box: 4096 ↦ root-registered Ref → 4160 ↦ Box → 4224 ↦ Probe (owned by the Box only); 4288 ↦ garbage -/
def okBoxHeap : Heap where
  lookup a :=
    if a = 4096 then some ⟨.raw "Ref" [4160], true⟩
    else if a = 4160 then some ⟨.raw "Box" [4224], false⟩
    else if a = 4224 then some ⟨.raw "Probe" [7], false⟩
    else if a = 4288 then some ⟨.raw "Probe" [9], false⟩
    else none
  regs := [4096, 4160, 4224, 4288]
  minptr := 4096
  maxptr := 4288
  complete := by
    intro a e he
    by_cases h1 : a = 4096; · simp [h1]
    by_cases h2 : a = 4160; · simp [h2]
    by_cases h3 : a = 4224; · simp [h3]
    by_cases h4 : a = 4288; · simp [h4]
    simp [h1, h2, h3, h4] at he

theorem okBoxHeap_wf : okBoxHeap.WF := by
  constructor <;> intro a e he <;> simp only [okBoxHeap] at he ⊢ <;>
    (repeat' split at he) <;> first | (cases he) | (subst_vars; decide) | skip
  all_goals simp_all

theorem okBoxHeap_roots : rootWords Cfg.current okBoxHeap emptyThread [] = [4096] := by decide

theorem okBoxHeap_box_reach : Reachable Cfg.current okBoxHeap (rootWords Cfg.current okBoxHeap emptyThread []) 4160 :=
  .step (a := 4096) (.root (by rw [okBoxHeap_roots]; simp) (by decide)) ⟨⟨.raw "Ref" [4160], true⟩, rfl, by decide⟩ (by decide)

theorem okBoxHeap_target_reach : Reachable Cfg.current okBoxHeap (rootWords Cfg.current okBoxHeap emptyThread []) 4224 :=
  .step (a := 4160) okBoxHeap_box_reach ⟨⟨.raw "Box" [4224], false⟩, rfl, by decide⟩ (by decide)

theorem okBoxHeap_contract : ∀ b v, v ∈ okBoxHeap.ownsAt b →
    Reachable Cfg.current okBoxHeap (rootWords Cfg.current okBoxHeap emptyThread []) v →
    Reachable Cfg.current okBoxHeap (rootWords Cfg.current okBoxHeap emptyThread []) b := by
  intro b v hv _
  have hb : b = 4160 := by
    unfold Heap.ownsAt at hv
    by_cases h1 : b = 4096; · subst h1; simp [okBoxHeap, owns] at hv
    by_cases h2 : b = 4160; · exact h2
    by_cases h3 : b = 4224; · subst h3; simp [okBoxHeap, owns] at hv
    by_cases h4 : b = 4288; · subst h4; simp [okBoxHeap, owns] at hv
    simp [okBoxHeap, h1, h2, h3, h4] at hv
  subst hb
  exact okBoxHeap_box_reach

end Cello.Heap
