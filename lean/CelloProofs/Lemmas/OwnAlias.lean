/-
  CelloProofs/Lemmas/OwnAlias.lean — C05: aliased arguments (Cello/OwnAlias.lean).  Every executed aliased call equals the
  plain call with the payloads its references resolve to before the call; histories with aliased calls are histories of
  plain operations.
-/
import Cello.OwnAlias
import CelloProofs.Lemmas.OwnHist
set_option linter.unusedVariables false
set_option linter.unusedSimpArgs false

namespace Cello.Own
open List

/-! ### lookups in the key-sorted association list -/

theorem find?_mapInsert (k : Nat) (kv : KV) (l : List KV) :
    (mapInsert kv l).find? (keyIs k) = if keyIs k kv then some kv else l.find? (keyIs k) := by
  induction l with
  | nil => simp [mapInsert, List.find?]
  | cons x xs ih =>
    simp only [mapInsert]
    split
    · simp only [List.find?_cons]
      cases keyIs k kv <;> rfl
    · rename_i hle
      simp only [List.find?_cons]
      by_cases hx : keyIs k x = true
      · have hkv : keyIs k kv = false := by
          simp only [keyIs, beq_iff_eq] at hx
          cases h : keyIs k kv
          · rfl
          · simp only [keyIs, beq_iff_eq] at h; omega
        simp [hx, hkv]
      · simp only [Bool.not_eq_true] at hx
        simp [hx, ih]

theorem takeFirst_find? {α : Type} {p : α → Bool} {l : List α} {y : α} {r : List α} (h : takeFirst p l = some (y, r)) :
    l.find? p = some y ∧ ∀ q : α → Bool, q y = false → l.find? q = r.find? q := by
  induction l generalizing y r with
  | nil => simp [takeFirst] at h
  | cons x xs ih =>
    simp only [takeFirst] at h
    split at h
    · rename_i hp
      simp only [Option.some.injEq, Prod.mk.injEq] at h
      obtain ⟨rfl, rfl⟩ := h
      exact ⟨by simp [List.find?, hp], fun q hq => by simp [List.find?, hq]⟩
    · rename_i hp
      split at h
      · rename_i y' r' ht
        simp only [Option.some.injEq, Prod.mk.injEq] at h
        obtain ⟨rfl, rfl⟩ := h
        obtain ⟨h1, h2⟩ := ih ht
        refine ⟨by simp [List.find?, hp, h1], fun q hq => ?_⟩
        simp only [List.find?_cons]
        cases q x <;> simp [h2 q hq]
      · simp at h

theorem takeFirst_none_find? {α : Type} {p : α → Bool} {l : List α} (h : takeFirst p l = none) : l.find? p = none := by
  induction l with
  | nil => rfl
  | cons x xs ih =>
    simp only [takeFirst] at h
    split at h
    · simp at h
    · rename_i hp
      split at h
      · simp at h
      · rename_i ht
        simp [List.find?, hp, ih ht]

/-- the first assignment of `Tree_Set` on an existing key (`assign(Tree_Key(m, node), key)` with an equal key) changes
    no payload: a read of any stored object of the tree gives the same payload before and after it -/
theorem pick_after_key_assign {k : Nat} {kvs : List KV} {old : KV} {rest : List KV} (next : Nat)
    (h : takeFirst (keyIs k) kvs = some (old, rest)) (s : Sel) :
    ((Cont.map .tree (mapInsert ((assignProbe next old.1 k).val, old.2) rest)).pick s).map (·.pay) =
    ((Cont.map .tree kvs).pick s).map (·.pay) := by
  obtain ⟨hf, hq⟩ := takeFirst_find? h
  have hold : old.1.pay = k := (takeKey_some h).2
  have hp : (assignProbe next old.1 k).val.pay = k := assignProbe_pay next old.1 k
  cases s with
  | elem i => rfl
  | key k' =>
    simp only [Cont.pick, find?_mapInsert]
    by_cases hk : k = k'
    · subst hk
      simp [keyIs, hp, hf, hold]
    · have h1 : keyIs k' ((assignProbe next old.1 k).val, old.2) = false := by simp [keyIs, hp, hk]
      have h2 : keyIs k' old = false := by simp [keyIs, hold, hk]
      simp [h1, hq _ h2]
  | val k' =>
    simp only [Cont.pick, find?_mapInsert]
    by_cases hk : k = k'
    · subst hk
      simp [keyIs, hp, hf]
    · have h1 : keyIs k' ((assignProbe next old.1 k).val, old.2) = false := by simp [keyIs, hp, hk]
      have h2 : keyIs k' old = false := by simp [keyIs, hold, hk]
      simp [h1, hq _ h2]

theorem read_after_key_assign {k : Nat} {kvs : List KV} {old : KV} {rest : List KV} (next : Nat)
    (h : takeFirst (keyIs k) kvs = some (old, rest)) (a : Src) :
    a.read (.map .tree (mapInsert ((assignProbe next old.1 k).val, old.2) rest)) = a.read (.map .tree kvs) := by
  cases a with
  | obj p => rfl
  | own s => exact pick_after_key_assign next h s

/-- **Tree_Set with stored objects as arguments = Tree_Set with their payloads**: reading the value argument after the key
    was assigned in place finds what was there before -/
theorem treeSetSrc_eq (next : Nat) (kvs : List KV) (ka va : Src) :
    treeSetSrc next kvs ka va =
      match ka.read (.map .tree kvs), va.read (.map .tree kvs) with
      | some k, some v => some (treeSet next kvs k v)
      | _, _ => none := by
  unfold treeSetSrc
  cases hk : ka.read (.map .tree kvs) with
  | none => rfl
  | some k =>
    simp only
    cases ht : takeFirst (keyIs k) kvs with
    | none =>
      simp only
      cases hv : va.read (.map .tree kvs) with
      | none => rfl
      | some v => simp [treeSet, ht]
    | some p =>
      obtain ⟨old, rest⟩ := p
      simp only [read_after_key_assign next ht va]
      cases hv : va.read (.map .tree kvs) with
      | none => rfl
      | some v => simp [treeSet, ht]

theorem tableSetSrc_eq (next : Nat) (kvs : List KV) (ka va : Src) :
    tableSetSrc next kvs ka va =
      match ka.read (.map .table kvs), va.read (.map .table kvs) with
      | some k, some v => some (tableSet next kvs k v)
      | _, _ => none := rfl

/-- reads do not depend on the kind of map -/
theorem read_map_kind (mk mk' : MapKind) (kvs : List KV) (a : Src) : a.read (.map mk kvs) = a.read (.map mk' kvs) := by
  cases a with
  | obj p => rfl
  | own s => cases s <;> rfl

theorem mapSetSrc_eq (mk : MapKind) (next : Nat) (kvs : List KV) (ka va : Src) :
    mapSetSrc mk next kvs ka va =
      match ka.read (.map mk kvs), va.read (.map mk kvs) with
      | some k, some v => some (mapSet mk next kvs k v)
      | _, _ => none := by
  cases mk with
  | table => exact tableSetSrc_eq next kvs ka va
  | tree => exact treeSetSrc_eq next kvs ka va

/-! ### references seen from the receiver -/

/-- what the receiver reads through an argument that was resolved before the call, while it is still as it was -/
theorem toSrc_read {w : World} {c : Nat} {r : Ref} {s : Src} {x : Cont} (hs : toSrc w c r = some s)
    (hx : lookup w.objs c = some x) : s.read x = (resolve w r).map (·.pay) := by
  simp only [toSrc] at hs
  cases hr : resolve w r with
  | none => simp [hr] at hs
  | some t =>
    simp only [hr, Option.map_some, Option.some.injEq] at hs
    by_cases hc : r.c = c
    · simp only [hc, if_true] at hs
      subst hs
      have : x.pick r.sel = some t := by
        simp only [resolve, hc, hx, Option.bind_some] at hr; exact hr
      simp [Src.read, this]
    · simp only [hc, if_false] at hs
      subst hs
      rfl

theorem toSrc_isSome {w : World} {c : Nat} {r : Ref} : (toSrc w c r).isSome = (resolve w r).isSome := by
  simp [toSrc]

theorem toSrc_none {w : World} {c : Nat} {r : Ref} (h : resolve w r = none) : toSrc w c r = none := by
  simp [toSrc, h]

theorem toSrc_some {w : World} {c : Nat} {r : Ref} {t : Tok} (h : resolve w r = some t) :
    toSrc w c r = some (if r.c = c then Src.own r.sel else Src.obj t.pay) := by
  simp [toSrc, h]

theorem toSrcArg_read {w : World} {c : Nat} {a : RArg} {s : Src} {x : Cont} (hs : toSrcArg w c a = some s)
    (hx : lookup w.objs c = some x) : s.read x = resolveArg w a := by
  cases a with
  | pay p => simp only [toSrcArg, Option.some.injEq] at hs; subst hs; rfl
  | ref r => exact toSrc_read hs hx

theorem toSrcArg_none {w : World} {c : Nat} {a : RArg} (h : resolveArg w a = none) : toSrcArg w c a = none := by
  cases a with
  | pay p => simp [resolveArg] at h
  | ref r =>
    simp only [resolveArg, Option.map_eq_none_iff] at h
    exact toSrc_none h

theorem toSrcArg_some {w : World} {c : Nat} {a : RArg} {p : Nat} (h : resolveArg w a = some p) :
    ∃ s, toSrcArg w c a = some s := by
  cases a with
  | pay q => exact ⟨_, rfl⟩
  | ref r =>
    simp only [resolveArg, Option.map_eq_some_iff] at h
    obtain ⟨t, ht, _⟩ := h
    exact ⟨_, toSrc_some ht⟩

/-- an Array receives an element of itself: the source is `own` -/
theorem toSrc_own {w : World} {c : Nat} {r : Ref} {t : Tok} (h : resolve w r = some t) (hc : r.c = c) :
    toSrc w c r = some (.own r.sel) := by
  simp [toSrc, h, hc]

theorem toSrc_obj {w : World} {c : Nat} {r : Ref} {t : Tok} (h : resolve w r = some t) (hc : r.c ≠ c) :
    toSrc w c r = some (.obj t.pay) := by
  simp [toSrc, h, hc]

/-! ### operands of `concat` and of the constructors -/

theorem goodPrefix_pays (ps : List Nat) : goodPrefix (ps.map Arg.pay) = (ps, none) := by
  induction ps with
  | nil => rfl
  | cons p ps ih => simp [goodPrefix, ih]

theorem allGood_pays (ps : List Nat) : allGood (ps.map Arg.pay) = true := by simp [allGood, goodPrefix_pays]

theorem listConcatArgs_pays (next : Nat) (xs : List Tok) (ps : List Nat) :
    listConcatArgs next xs (ps.map Arg.pay) = { val := xs ++ mkFresh next ps, issued := mkFresh next ps } := by
  simp [listConcatArgs, goodPrefix_pays]

theorem arrayConcatArgs_pays (next : Nat) (xs : List Tok) (ps : List Nat) :
    arrayConcatArgs next xs (ps.map Arg.pay) = { val := xs ++ mkFresh next ps, issued := mkFresh next ps } := by
  simp [arrayConcatArgs, goodPrefix_pays]

/-- an operand whose read gives `p` however many elements have been linked behind the `xs` the List held before the call -/
def Stable (xs : List Tok) (s : CSrc) (p : Nat) : Prop := ∀ acc : List Tok, s.read (xs ++ acc) = some p

/-- **List_Concat reads each operand when its push runs — and finds what was there before the call**: with operands that
    are stable under pushes (fresh objects, elements of other containers, nodes of the receiver that existed before the
    call) the item-by-item run constructs exactly one element per operand, carrying the payloads as they were. -/
theorem listConcatSrc_stable (next : Nat) (xs : List Tok) {ss : List CSrc} {ps : List Nat}
    (h : List.Forall₂ (Stable xs) ss ps) : ∀ acc : List Tok,
    listConcatSrc next xs acc ss =
      some { val := xs ++ (acc ++ mkFresh (next + acc.length) ps), issued := acc ++ mkFresh (next + acc.length) ps } := by
  induction h with
  | nil => intro acc; simp [listConcatSrc, mkFresh]
  | cons hs _ ih =>
    intro acc
    simp only [listConcatSrc, hs acc]
    rw [ih]
    simp [mkFresh, List.length_append, Nat.add_assoc]

/-- the operand the receiving List sees is stable, and reads the payload the reference resolves to before the call -/
theorem toCSrc_spec {w : World} {c : Nat} {xs : List Tok} (hl : lookup w.objs c = some (.seq .list .probe xs)) (a : RArg) :
    (resolveArg w a = none ∧ toCSrc w c xs a = none) ∨
    (∃ p s, resolveArg w a = some p ∧ toCSrc w c xs a = some s ∧ Stable xs s p) := by
  cases a with
  | pay p => exact Or.inr ⟨p, .obj p, rfl, rfl, fun _ => rfl⟩
  | ref r =>
    simp only [resolveArg, toCSrc]
    by_cases hc : r.c = c
    · have hres : resolve w r = (Cont.seq .list .probe xs).pick r.sel := by simp [resolve, hc, hl]
      rw [hres]
      simp only [hc, if_true]
      cases hsel : r.sel with
      | key k => left; simp [Cont.pick]
      | val k => left; simp [Cont.pick]
      | elem i =>
        simp only [Cont.pick]
        cases hn : normIdx xs.length i with
        | none => left; simp
        | some j =>
          simp only
          cases hg : (xs[j]?).filter (fun t => t.id != 0) with
          | none => left; simp
          | some t =>
            right
            refine ⟨t.pay, .node j, by simp, by simp, fun acc => ?_⟩
            have hj : j < xs.length := by
              cases hx : xs[j]? with
              | none => simp [hx] at hg
              | some u => exact (List.getElem?_eq_some_iff.mp hx).1
            simp [CSrc.read, List.getElem?_append_left hj, hg]
    · simp only [hc, if_false]
      cases hr : resolve w r with
      | none => left; simp
      | some t => right; exact ⟨t.pay, .obj t.pay, by simp, by simp, fun _ => rfl⟩

theorem toCSrcs_spec {w : World} {c : Nat} {xs : List Tok} (hl : lookup w.objs c = some (.seq .list .probe xs))
    (items : List RArg) :
    (resolveArgs w items = none ∧ toCSrcs w c xs items = none) ∨
    (∃ ps ss, resolveArgs w items = some ps ∧ toCSrcs w c xs items = some ss ∧ List.Forall₂ (Stable xs) ss ps) := by
  induction items with
  | nil => exact Or.inr ⟨[], [], rfl, rfl, .nil⟩
  | cons a rest ih =>
    simp only [resolveArgs, toCSrcs]
    rcases toCSrc_spec hl a with ⟨h1, h2⟩ | ⟨p, s, h1, h2, h3⟩
    · left; simp [h1, h2]
    · rcases ih with ⟨i1, i2⟩ | ⟨ps, ss, i1, i2, i3⟩
      · left; simp [h1, h2, i1, i2]
      · right; exact ⟨p :: ps, s :: ss, by simp [h1, i1], by simp [h2, i2], .cons h3 i3⟩

/-- **concat(list, tuple(operands…)) with stored objects among the operands — nodes of the list itself included — is the
    concat of fresh objects with the payloads resolved before the call** -/
theorem listConcat_operands {w : World} {c : Nat} {xs : List Tok} (hl : lookup w.objs c = some (.seq .list .probe xs))
    (items : List RArg) :
    (toCSrcs w c xs items).bind (listConcatSrc w.next xs []) =
      (resolveArgs w items).map (fun ps => listConcatArgs w.next xs (ps.map Arg.pay)) := by
  rcases toCSrcs_spec hl items with ⟨h1, h2⟩ | ⟨ps, ss, h1, h2, h3⟩
  · simp [h1, h2]
  · simp [h1, h2, listConcatSrc_stable w.next xs h3 [], listConcatArgs_pays]

/-! ### every aliased call is the plain call with the resolved payloads -/

def lowered (w : World) (o : Option Op) : World × Obs :=
  match o with
  | some op => step w op
  | none => badOp w

theorem stepAliased_lower (w : World) (c : Nat) (t : ACall) : stepAliased w c t = lowered w (lowerCall w c t) := by
  cases t with
  | push a =>
    simp only [stepAliased, lowerCall]
    cases hl : lookup w.objs c with
    | none => rfl
    | some x =>
      cases x with
      | map mk kvs => rfl
      | cell o => rfl
      | seq k ek xs =>
        cases ek with
        | box => cases k <;> rfl
        | probe =>
          cases hr : resolve w a with
          | none => cases k <;> simp [toSrc_none hr, lowered]
          | some tk =>
            cases k with
            | list =>
              have hs := toSrc_some (c := c) hr
              simp only [hs, readFirst, toSrc_read hs hl, hr, Option.map_some, orBad, Option.getD_some, lowered, step, hl]
            | array =>
              by_cases hc : a.c = c
              · simp [toSrc_own hr hc, hc, lowered]
              · simp [toSrc_obj hr hc, hc, lowered, step, hl]
  | pushAt i a =>
    simp only [stepAliased, lowerCall]
    cases hl : lookup w.objs c with
    | none => rfl
    | some x =>
      cases x with
      | map mk kvs => rfl
      | cell o => rfl
      | seq k ek xs =>
        cases ek with
        | box => cases k <;> rfl
        | probe =>
          cases hr : resolve w a with
          | none => cases k <;> simp [toSrc_none hr, lowered]
          | some tk =>
            cases k with
            | list =>
              have hs := toSrc_some (c := c) hr
              simp only [hs, readFirst, toSrc_read hs hl, hr, Option.map_some, orBad, Option.getD_some, lowered, step, hl]
            | array =>
              by_cases hc : a.c = c
              · simp [toSrc_own hr hc, hc, lowered]
              · simp [toSrc_obj hr hc, hc, lowered, step, hl]
  | set i a =>
    simp only [stepAliased, lowerCall]
    cases hl : lookup w.objs c with
    | none => rfl
    | some x =>
      cases x with
      | map mk kvs => rfl
      | cell o => rfl
      | seq k ek xs =>
        cases ek with
        | box => rfl
        | probe =>
          cases hr : resolve w a with
          | none => simp [toSrc_none hr, lowered]
          | some tk =>
            have hs := toSrc_some (c := c) hr
            simp only [hs, readFirst, toSrc_read hs hl, hr, Option.map_some, orBad, Option.getD_some, lowered, step, hl]
  | rem a =>
    simp only [stepAliased, lowerCall]
    cases hl : lookup w.objs c with
    | none => rfl
    | some x =>
      cases x with
      | map mk kvs => rfl
      | cell o => rfl
      | seq k ek xs =>
        cases ek with
        | box => rfl
        | probe =>
          cases hr : resolve w a with
          | none => simp [toSrc_none hr, lowered]
          | some tk =>
            have hs := toSrc_some (c := c) hr
            simp only [hs, readFirst, toSrc_read hs hl, hr, Option.map_some, orBad, Option.getD_some, lowered, step, hl]
  | mset ka va =>
    simp only [stepAliased, lowerCall]
    cases hl : lookup w.objs c with
    | none => rfl
    | some x =>
      cases x with
      | seq k ek xs => rfl
      | cell o => rfl
      | map mk kvs =>
        cases hk : resolveArg w ka with
        | none => simp [toSrcArg_none hk, lowered]
        | some k =>
          obtain ⟨sk, hsk⟩ := toSrcArg_some (c := c) hk
          cases hv : resolveArg w va with
          | none => simp [hsk, toSrcArg_none hv, lowered]
          | some v =>
            obtain ⟨sv, hsv⟩ := toSrcArg_some (c := c) hv
            simp only [hsk, hsv, mapSetSrc_eq, toSrcArg_read hsk hl, toSrcArg_read hsv hl, hk, hv, Option.map_some, orBad,
              Option.getD_some, lowered, step, hl]
  | mrem ka =>
    simp only [stepAliased, lowerCall]
    cases hl : lookup w.objs c with
    | none => rfl
    | some x =>
      cases x with
      | seq k ek xs => rfl
      | cell o => rfl
      | map mk kvs =>
        cases hr : resolve w ka with
        | none => simp [toSrc_none hr, lowered]
        | some tk =>
          have hs := toSrc_some (c := c) hr
          simp only [hs, mapRemSrc, readFirst, toSrc_read hs hl, hr, Option.map_some, orBad, Option.getD_some, lowered,
            step, hl]
  | concat items =>
    simp only [stepAliased, lowerCall]
    by_cases hdup : dupOperands w items = true
    · simp [hdup, lowered]
    simp only [hdup]
    cases hl : lookup w.objs c with
    | none => rfl
    | some x =>
      cases x with
      | map mk kvs => rfl
      | cell o => rfl
      | seq k ek xs =>
        cases ek with
        | box => cases k <;> rfl
        | probe =>
          cases k with
          | list =>
            simp only [listConcat_operands hl items]
            cases hr : resolveArgs w items with
            | none => simp [orBad, lowered]
            | some ps => simp [orBad, lowered, step, stepTyped, hl]
          | array =>
            by_cases hany : items.any (RArg.inside c) = true
            · simp [hany, lowered]
            · simp only [hany]
              cases hr : resolveArgs w items with
              | none => simp [orBad, lowered]
              | some ps => simp [orBad, lowered, step, stepTyped, hl]
  | newSeq k items =>
    simp only [stepAliased, lowerCall]
    cases hr : resolveArgs w items with
    | none => simp [orBad, lowered]
    | some ps => simp [orBad, lowered, step]
  | newMap k pairs =>
    simp only [stepAliased, lowerCall]
    cases hr : resolvePairs w pairs with
    | none => simp [orBad, lowered]
    | some kvs => simp [orBad, lowered, step]

/-- the plain operation an executed aliased call lowers to is outside the territory of the known findings -/
theorem lowerCall_nkf {w : World} {c : Nat} {t : ACall} {op : Op} (h : lowerCall w c t = some op) :
    noKnownFinding w op = true := by
  cases t with
  | push a =>
    simp only [lowerCall] at h
    split at h
    · simp only [Option.map_eq_some_iff] at h; obtain ⟨_, _, rfl⟩ := h; rfl
    · split at h
      · simp at h
      · simp only [Option.map_eq_some_iff] at h; obtain ⟨_, _, rfl⟩ := h; rfl
    · simp at h
  | pushAt i a =>
    simp only [lowerCall] at h
    split at h
    · simp only [Option.map_eq_some_iff] at h; obtain ⟨_, _, rfl⟩ := h; rfl
    · split at h
      · simp at h
      · simp only [Option.map_eq_some_iff] at h; obtain ⟨_, _, rfl⟩ := h; rfl
    · simp at h
  | set i a =>
    simp only [lowerCall] at h
    split at h
    · rename_i k xs hl
      simp only [Option.map_eq_some_iff] at h; obtain ⟨_, _, rfl⟩ := h
      simp [noKnownFinding, hl]
    · simp at h
  | rem a =>
    simp only [lowerCall] at h
    split at h
    · simp only [Option.map_eq_some_iff] at h; obtain ⟨_, _, rfl⟩ := h; rfl
    · simp at h
  | mset ka va =>
    simp only [lowerCall] at h
    split at h
    · split at h
      · simp only [Option.some.injEq] at h; subst h; rfl
      · simp at h
    · simp at h
  | mrem ka =>
    simp only [lowerCall] at h
    split at h
    · simp only [Option.map_eq_some_iff] at h; obtain ⟨_, _, rfl⟩ := h; rfl
    · simp at h
  | concat items =>
    simp only [lowerCall] at h
    split at h
    · simp at h
    split at h
    · rename_i xs hl
      simp only [Option.map_eq_some_iff] at h; obtain ⟨ps, _, rfl⟩ := h
      simp [noKnownFinding, typedAtomic, hl, allGood_pays]
    · rename_i xs hl
      split at h
      · simp at h
      · simp only [Option.map_eq_some_iff] at h; obtain ⟨ps, _, rfl⟩ := h
        simp [noKnownFinding, typedAtomic, hl, allGood_pays]
    · simp at h
  | newSeq k items =>
    simp only [lowerCall, Option.map_eq_some_iff] at h; obtain ⟨_, _, rfl⟩ := h; rfl
  | newMap k pairs =>
    simp only [lowerCall, Option.map_eq_some_iff] at h; obtain ⟨_, _, rfl⟩ := h; rfl

/-- an in-contract operation of an op file with aliased calls IS an in-contract plain operation -/
theorem inContractA_lower {w : World} {a : AOp} (h : inContractA w a = true) :
    ∃ op, a.lower w = some op ∧ inContract w op = true ∧ stepA w a = step w op := by
  cases a with
  | base op => exact ⟨op, rfl, h, rfl⟩
  | aliased c t =>
    simp only [inContractA, Bool.not_eq_true'] at h
    have he := stepAliased_lower w c t
    cases hl : lowerCall w c t with
    | none => rw [he, hl] at h; simp [lowered, badOp] at h
    | some op =>
      rw [hl] at he
      refine ⟨op, hl, ?_, he⟩
      simp only [inContract, lowerCall_nkf hl, Bool.true_and, Bool.not_eq_true']
      rw [← show (stepAliased w c t) = step w op from he]; exact h

theorem runA_cons (w : World) (op : AOp) (ops : List AOp) :
    runA w (op :: ops) = ((runA (stepA w op).1 ops).1, (stepA w op).2 :: (runA (stepA w op).1 ops).2) := by
  simp [runA]

/-- **an in-contract history with aliased calls is an in-contract history of plain operations** with the same worlds and
    the same observations -/
theorem runA_lower {w : World} {ops : List AOp} (h : allInContractA w ops) :
    runA w ops = run w (lowerRun w ops) ∧ allInContract w (lowerRun w ops) ∧ (lowerRun w ops).length = ops.length := by
  induction ops generalizing w with
  | nil => exact ⟨rfl, trivial, rfl⟩
  | cons a ops ih =>
    obtain ⟨op, hl, hin, hs⟩ := inContractA_lower h.1
    have h2 : allInContractA (step w op).1 ops := by rw [← hs]; exact h.2
    obtain ⟨i1, i2, i3⟩ := ih h2
    refine ⟨?_, ?_, ?_⟩
    · rw [runA_cons, hs, i1]; simp only [lowerRun, hl]; rw [run_cons]
    · simp only [lowerRun, hl]; exact ⟨hin, i2⟩
    · simp only [lowerRun, hl, List.length_cons, i3]

end Cello.Own
