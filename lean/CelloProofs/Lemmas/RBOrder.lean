/-
  Lemmas/RBOrder.lean — the comparison the descent loops of Tree.c call, instantiated with the code's own comparisons:
  `Int_Cmp` of src/Num.c (translated from the source on every run: `CelloGen.Cmp.intCmp`) and `strcmp` of the character
  buffers (`Cello.Cmp.bytesCmp`, what `String_Cmp` computes — C02's `StringCmpIsStrcmp` / C09 tie that text to the source).
  A three-way comparison `c : α → α → Int` that is lawful in the sense of C09 (`LawfulCmpOn`: antisymmetric in sign, `≤`
  transitive) gives, through its sign, a `Std.TransCmp` — the only thing the theorems of C03 ask of the order.
-/
import CelloProofs.Lemmas.Cmp
import CelloProofs.Lemmas.RBArgs

namespace Cello.RB
open Std Cello.Cmp

/-- the `Ordering` a C comparison result stands for: `c < 0`, `c = 0`, `c > 0` (the three tests of the descent loops) -/
def ordOf {α : Type} (c : α → α → Int) (a b : α) : Ordering :=
  if c a b < 0 then .lt else if c a b = 0 then .eq else .gt

theorem ordOf_isLE {α : Type} (c : α → α → Int) (a b : α) : (ordOf c a b).isLE = true ↔ c a b ≤ 0 := by
  unfold ordOf
  split
  · simp [Ordering.isLE]; omega
  · split
    · simp [Ordering.isLE]; omega
    · simp [Ordering.isLE]; omega

/-- a lawful C comparison, pulled back along any view of the keys, is a `TransCmp` -/
theorem transCmp_of_lawful {α κ : Type} (c : α → α → Int) (h : LawfulCmp c) (view : κ → α) :
    TransCmp (fun a b : κ => ordOf c (view a) (view b)) where
  eq_swap := by
    intro a b
    have h1 := h.antisymm (view a) (view b) trivial trivial
    have f := antisymm_facts h1
    simp only [ordOf]
    by_cases p1 : c (view a) (view b) < 0
    · have : 0 < c (view b) (view a) := f.1.mp p1
      have n1 : ¬ c (view b) (view a) < 0 := by omega
      have n2 : ¬ c (view b) (view a) = 0 := by omega
      simp [p1, n1, n2, Ordering.swap]
    · by_cases p2 : c (view a) (view b) = 0
      · have : c (view b) (view a) = 0 := f.2.1.mp p2
        simp [p2, this, Ordering.swap]
      · have p3 : 0 < c (view a) (view b) := by omega
        have : c (view b) (view a) < 0 := f.2.2.mp p3
        simp [p1, p2, this, Ordering.swap]
  isLE_trans := by
    intro a b d h1 h2
    rw [ordOf_isLE] at h1 h2 ⊢
    exact h.le_trans _ _ _ trivial trivial trivial h1 h2

/-- `Int_Cmp` as translated from src/Num.c now: its sign is the order of the two 64-bit integers at any distance -/
theorem intCmp_sign (a b : BitVec 64) :
    (intCmp a b < 0 ↔ a.toInt < b.toInt) ∧ (intCmp a b = 0 ↔ a.toInt = b.toInt) ∧ (0 < intCmp a b ↔ b.toInt < a.toInt) := by
  simp only [intCmp, CelloGen.Cmp.intCmp]; int_cmp_tac

theorem intCmp_lawful : LawfulCmp intCmp :=
  (strictCmpOn_of_key (P := fun _ => True) (c := intCmp) (fun x : BitVec 64 => x.toInt)
    (fun a b _ _ => (intCmp_sign a b).1) (fun a b _ _ => (intCmp_sign a b).2.2)).toLawfulCmpOn

/-- the subtract-and-truncate `Int_Cmp` this tree had before commit 1403e2f (F04) as the order of a Tree: 0 and 2^32 are one
    key (the second `set` overwrites the first), so a Tree with Int keys loses a binding -/
theorem intCmpTruncating_merges_keys :
    ordOf intCmpTruncating (0 : BitVec 64) (BitVec.ofNat 64 (2^32)) = .eq ∧
    ordOf intCmp (0 : BitVec 64) (BitVec.ofNat 64 (2^32)) = .lt := by decide

end Cello.RB
