/- helper lemmas for C11: Range iteration, Range_Len and Range_Get agree for every (start, stop, step) -/
import CelloProofs.Lemmas.IterRun

namespace Cello.Iter

theorem Run.of_term {σ α : Type} {step : σ → σ × Res α} {r : σ × Res α} (h : r.2 = .term) : Run step r [] := by
  obtain ⟨s, x⟩ := r
  simp only at h; subst h; exact Run.term s

/-- a walk along `f 0, f 1, …, f (n-1)` whose step function moves from `f j` to `f (j+1)` and says Terminal exactly
    when `j+1` reaches `n` -/
theorem affine_fwd (step : Int → Int × Res Int) (f : Nat → Int) (n : Nat)
    (hstep : ∀ j, j < n → step (f j) = if j + 1 < n then (f (j + 1), .item (f (j + 1))) else (f (j + 1), .term)) :
    ∀ m j, j < n → n - j = m → Run step (f j, .item (f j)) ((List.range' j (n - j)).map f) := by
  intro m
  induction m with
  | zero => intro j hj hm; omega
  | succ m ih =>
    intro j hj hm
    have e : n - j = (n - (j + 1)) + 1 := by omega
    rw [e, List.range'_succ, List.map_cons]
    refine Run.item _ _ _ ?_
    rw [hstep j hj]
    by_cases h1 : j + 1 < n
    · rw [if_pos h1]; exact ih (j + 1) h1 (by omega)
    · rw [if_neg h1]
      have : n - (j + 1) = 0 := by omega
      rw [this]; exact Run.term _

theorem affine_bwd (step : Int → Int × Res Int) (f : Nat → Int)
    (h0 : (step (f 0)).2 = .term) (hstep : ∀ j, step (f (j + 1)) = (f j, .item (f j))) :
    ∀ j, Run step (f j, .item (f j)) ((List.range (j + 1)).map f).reverse := by
  intro j
  induction j with
  | zero =>
    refine Run.item _ _ _ ?_
    exact Run.of_term h0
  | succ j ih =>
    rw [List.range_succ, List.map_append, List.reverse_append]
    refine Run.item _ _ _ ?_
    rw [hstep j]; exact ih

/-- Range_Len counts exactly the `j` with `start + step*j < stop` (positive step) -/
theorem rangeLen_pos_iff (a b c : Int) (hc : 0 < c) (j : Nat) : a + c * (j : Int) < b ↔ j < rangeLen a b c := by
  have hc0 : c ≠ 0 := by omega
  have hcj : 0 ≤ c * (j : Int) := Int.mul_nonneg (by omega) (by omega)
  unfold rangeLen
  simp only [hc0, if_false, hc, gt_iff_lt, if_true]
  by_cases hba : b ≤ a
  · simp only [hba, if_true]; constructor
    · intro h; omega
    · intro h; omega
  · simp only [hba, if_false]
    have hn : 0 ≤ b - 1 - a := by omega
    rw [Int.tdiv_eq_ediv_of_nonneg hn]
    have hq : 0 ≤ (b - 1 - a) / c := Int.ediv_nonneg hn (by omega)
    rw [Int.lt_toNat]
    have key : (j : Int) ≤ (b - 1 - a) / c ↔ (j : Int) * c ≤ b - 1 - a := Int.le_ediv_iff_mul_le hc
    have hm : (j : Int) * c = c * (j : Int) := Int.mul_comm _ _
    constructor
    · intro h; have := key.mpr (by omega); omega
    · intro h; have := key.mp (by omega); omega

/-- Range_Len counts exactly the `j` with `stop-1 + step*j >= start` (negative step) -/
theorem rangeLen_neg_iff (a b c : Int) (hc : c < 0) (j : Nat) : b - 1 + c * (j : Int) ≥ a ↔ j < rangeLen a b c := by
  have hc0 : c ≠ 0 := by omega
  have hnc : ¬ (c > 0) := by omega
  have hcj : 0 ≤ (-c) * (j : Int) := Int.mul_nonneg (by omega) (by omega)
  have hneg : (-c) * (j : Int) = -(c * (j : Int)) := Int.neg_mul _ _
  unfold rangeLen
  simp only [hc0, if_false, hnc]
  by_cases hba : b ≤ a
  · simp only [hba, if_true]; constructor
    · intro h; omega
    · intro h; omega
  · simp only [hba, if_false]
    have hn : 0 ≤ b - 1 - a := by omega
    rw [Int.tdiv_eq_ediv_of_nonneg hn]
    have hq : 0 ≤ (b - 1 - a) / (-c) := Int.ediv_nonneg hn (by omega)
    rw [Int.lt_toNat]
    have key : (j : Int) ≤ (b - 1 - a) / (-c) ↔ (j : Int) * (-c) ≤ b - 1 - a := Int.le_ediv_iff_mul_le (by omega)
    have hm : (j : Int) * (-c) = (-c) * (j : Int) := Int.mul_comm _ _
    constructor
    · intro h; have := key.mpr (by omega); omega
    · intro h; have := key.mp (by omega); omega

theorem mul_succ_cast (c : Int) (j : Nat) : c * ((j + 1 : Nat) : Int) = c * (j : Int) + c := by
  push_cast; rw [Int.mul_add, Int.mul_one]

theorem rangeLen_zero_step (a b : Int) : rangeLen a b 0 = 0 := by simp [rangeLen]

/-- Range is lawful for every start, stop and step -/
theorem range_lawfulAs (a b c : Int) : LawfulAs (rangeI a b c) (rangeList a b c) := by
  rcases Int.lt_trichotomy c 0 with hc | hc | hc
  · -- negative step: stop-1, stop-1+step, … not below start
    have hc0 : c ≠ 0 := by omega
    have hnc : ¬ (c > 0) := by omega
    have hnc' : ¬ (0 < c) := by omega
    let f : Nat → Int := fun j => b - 1 + c * (j : Int)
    have hlist : rangeList a b c = (List.range (rangeLen a b c)).map f := by
      simp only [rangeList, hnc, if_false]; rfl
    have hnext : ∀ j, j < rangeLen a b c → (rangeI a b c).next (f j) =
        if j + 1 < rangeLen a b c then (f (j + 1), .item (f (j + 1))) else (f (j + 1), .term) := by
      intro j _
      have e : f j + c = f (j + 1) := by simp only [f]; rw [mul_succ_cast]; omega
      have k := rangeLen_neg_iff a b c hc (j + 1)
      simp only [rangeI, hc0, if_false, hnc, false_and, hc, true_and, e]
      by_cases h1 : j + 1 < rangeLen a b c
      · have : ¬ (f (j + 1) < a) := by have := k.mpr h1; simp only [f]; omega
        simp [this, h1]
      · have : f (j + 1) < a := by
          have := mt k.mp h1; simp only [f]; omega
        simp [this, h1]
    have hprev0 : ((rangeI a b c).prev (f 0)).2 = .term := by
      have : f 0 - c ≥ b := by simp only [f]; omega
      simp [rangeI, hc0, hnc', hc, this]
    have hprev : ∀ j, (rangeI a b c).prev (f (j + 1)) = (f j, .item (f j)) := by
      intro j
      have e : f (j + 1) - c = f j := by simp only [f]; rw [mul_succ_cast]; omega
      have hcj : 0 ≤ (-c) * (j : Int) := Int.mul_nonneg (by omega) (by omega)
      have hneg : (-c) * (j : Int) = -(c * (j : Int)) := Int.neg_mul _ _
      have : ¬ (f j ≥ b) := by simp only [f]; omega
      simp [rangeI, hc0, hnc', hc, e, this]
    refine ⟨?_, ?_, ?_, ?_⟩
    · intro s
      rw [hlist]
      by_cases h0 : 0 < rangeLen a b c
      · have k := (rangeLen_neg_iff a b c hc 0).mpr h0
        have hi : (rangeI a b c).init s = (f 0, .item (f 0)) := by
          have : ¬ (b - 1 < a) := by simp at k; omega
          simp [rangeI, hc0, hnc', hc, this, f]
        rw [hi, List.range_eq_range']
        have := affine_fwd (rangeI a b c).next f (rangeLen a b c) hnext _ 0 h0 rfl
        rw [Nat.sub_zero] at this; exact this
      · have hz : rangeLen a b c = 0 := by omega
        have k := mt (rangeLen_neg_iff a b c hc 0).mp (by omega)
        have hi : ((rangeI a b c).init s).2 = .term := by
          have : b - 1 < a := by simp at k; omega
          simp [rangeI, hc0, hnc', hc, this]
        rw [hz]; exact Run.of_term hi
    · intro s
      rw [hlist]
      by_cases h0 : rangeLen a b c = 0
      · have hi : ((rangeI a b c).last s).2 = .term := by simp [rangeI, h0]
        rw [h0]; exact Run.of_term hi
      · obtain ⟨m, hm⟩ : ∃ m, rangeLen a b c = m + 1 := ⟨rangeLen a b c - 1, by omega⟩
        have hi : (rangeI a b c).last s = (f m, .item (f m)) := by
          simp [rangeI, hm, hnc', f]
        rw [hi, hm]
        exact affine_bwd (rangeI a b c).prev f hprev0 hprev m
    · intro n hn
      simp only [rangeI, Option.some.injEq] at hn
      rw [← hn, hlist]; simp
    · intro g hg i hi
      simp only [rangeI, Option.some.injEq] at hg
      subst hg
      have hi' : i < rangeLen a b c := by simpa [hlist] using hi
      have e : (rangeList a b c)[i] = f i := by simp only [hlist, List.getElem_map, List.getElem_range]
      rw [e]
      have h1 : ¬ ((i : Int) < 0) := by omega
      simp only [f]
      simp only [rangeGet, Int.ofNat_eq_natCast, h1, if_false, hnc, false_and, hc, true_and]
      have : (i : Int) ≥ 0 ∧ (i : Int) < (rangeLen a b c : Int) := ⟨by omega, by omega⟩
      simp [this]
  · -- step 0: nothing
    subst hc
    have hl : rangeList a b 0 = [] := by simp [rangeList, rangeLen_zero_step]
    refine ⟨?_, ?_, ?_, ?_⟩
    · intro s; rw [hl]; exact Run.of_term (by simp [rangeI])
    · intro s; rw [hl]; exact Run.of_term (by simp [rangeI, rangeLen_zero_step])
    · intro n hn; simp only [rangeI, Option.some.injEq] at hn; rw [← hn, hl, rangeLen_zero_step]; rfl
    · intro g _ i hi; rw [hl] at hi; simp at hi
  · -- positive step: start, start+step, … below stop
    have hc0 : c ≠ 0 := by omega
    have hnc : ¬ (c < 0) := by omega
    let f : Nat → Int := fun j => a + c * (j : Int)
    have hlist : rangeList a b c = (List.range (rangeLen a b c)).map f := by
      simp only [rangeList, hc, gt_iff_lt, if_true]; rfl
    have hnext : ∀ j, j < rangeLen a b c → (rangeI a b c).next (f j) =
        if j + 1 < rangeLen a b c then (f (j + 1), .item (f (j + 1))) else (f (j + 1), .term) := by
      intro j _
      have e : f j + c = f (j + 1) := by simp only [f]; rw [mul_succ_cast]; omega
      have k := rangeLen_pos_iff a b c hc (j + 1)
      simp only [rangeI, hc0, if_false, hc, gt_iff_lt, true_and, hnc, false_and, e]
      by_cases h1 : j + 1 < rangeLen a b c
      · have : ¬ (f (j + 1) ≥ b) := by have := k.mpr h1; simp only [f]; omega
        simp [this, h1]
      · have : f (j + 1) ≥ b := by
          have := mt k.mp h1; simp only [f]; omega
        simp [this, h1]
    have hprev0 : ((rangeI a b c).prev (f 0)).2 = .term := by
      have : f 0 - c < a := by simp only [f]; omega
      simp [rangeI, hc0, hc, this]
    have hprev : ∀ j, (rangeI a b c).prev (f (j + 1)) = (f j, .item (f j)) := by
      intro j
      have e : f (j + 1) - c = f j := by simp only [f]; rw [mul_succ_cast]; omega
      have hcj : 0 ≤ c * (j : Int) := Int.mul_nonneg (by omega) (by omega)
      have : ¬ (f j < a) := by simp only [f]; omega
      simp [rangeI, hc0, hc, hnc, e, this]
    refine ⟨?_, ?_, ?_, ?_⟩
    · intro s
      rw [hlist]
      by_cases h0 : 0 < rangeLen a b c
      · have k := (rangeLen_pos_iff a b c hc 0).mpr h0
        have hi : (rangeI a b c).init s = (f 0, .item (f 0)) := by
          have : ¬ (a ≥ b) := by simp at k; omega
          simp [rangeI, hc0, hc, hnc, this, f]
        rw [hi, List.range_eq_range']
        have := affine_fwd (rangeI a b c).next f (rangeLen a b c) hnext _ 0 h0 rfl
        rw [Nat.sub_zero] at this; exact this
      · have hz : rangeLen a b c = 0 := by omega
        have k := mt (rangeLen_pos_iff a b c hc 0).mp (by omega)
        have hi : ((rangeI a b c).init s).2 = .term := by
          have : a ≥ b := by simp at k; omega
          simp [rangeI, hc0, hc, this]
        rw [hz]; exact Run.of_term hi
    · intro s
      rw [hlist]
      by_cases h0 : rangeLen a b c = 0
      · have hi : ((rangeI a b c).last s).2 = .term := by simp [rangeI, h0]
        rw [h0]; exact Run.of_term hi
      · obtain ⟨m, hm⟩ : ∃ m, rangeLen a b c = m + 1 := ⟨rangeLen a b c - 1, by omega⟩
        have hi : (rangeI a b c).last s = (f m, .item (f m)) := by
          simp [rangeI, hm, hc, f]
        rw [hi, hm]
        exact affine_bwd (rangeI a b c).prev f hprev0 hprev m
    · intro n hn
      simp only [rangeI, Option.some.injEq] at hn
      rw [← hn, hlist]; simp
    · intro g hg i hi
      simp only [rangeI, Option.some.injEq] at hg
      subst hg
      have hi' : i < rangeLen a b c := by simpa [hlist] using hi
      have e : (rangeList a b c)[i] = f i := by simp only [hlist, List.getElem_map, List.getElem_range]
      rw [e]
      have h1 : ¬ ((i : Int) < 0) := by omega
      simp only [f]
      simp only [rangeGet, Int.ofNat_eq_natCast, h1, if_false, hc, gt_iff_lt, true_and]
      have : (i : Int) ≥ 0 ∧ (i : Int) < (rangeLen a b c : Int) := ⟨by omega, by omega⟩
      simp [this]

end Cello.Iter
