/-
  CelloProofs/Lemmas/OwnSeqMoves.lean — C05, second sentence of the property for **Array**: growth / shrink (`realloc`
  into a new block), the `memmove` of push_at / pop_at, the in-place write of `set`, the record exchanges of the sort
  neither drop nor duplicate an element.

  The sequence steps of Cello/Own.lean (`seqPush`, `arrayPushAt`, `seqPop`, … : list surgery on tokens) are tied here to
  the STORE-level Array of property C04 (Cello/SeqStore.lean `ArrS`: a block of record cells, `memmove` as an index-range
  copy, `realloc` as a new block, `nitems` / `nslots`) instantiated with token-valued records (`α := Tok`).  C04's
  `ArrS.step_sim` (cells ⇒ list-level Array, every operation) and `Arr.step_refines` / `Arr.step_out_of_range`
  (list-level Array ⇒ abstract sequence) are generic in the element type; what is proved here is that the abstract
  sequence step they arrive at IS the ownership step of Cello/Own.lean on the same tokens (`arraySpec`), so the records in
  use in the block after an operation are exactly the tokens the ownership model holds.
  (List: C04's node-level model `LstS` is being reworked by its own engine in this round — not composed here.)
-/
import CelloProofs.Lemmas.Own
import CelloProofs.Lemmas.SeqStoreArr
set_option linter.unusedVariables false
set_option linter.unusedSimpArgs false

namespace Cello.Own
open List

/-- `eq(item, obj)` on probe elements compares payloads (the probe's `Cmp`); identities play no part -/
@[instance_reducible] def payBEq : BEq Tok := ⟨fun a b => a.pay == b.pay⟩

/-- the operations on one Array of probe elements (arguments as in `Op`; `concat` / `assign` carry the source's elements) -/
inductive SOp where
  | push (p : Nat) | pushAt (i : Int) (p : Nat) | pop | popAt (i : Int) | set (i : Int) (p : Nat) | rem (p : Nat)
  | resize (n : Nat) | sort | concat (src : List Tok) | assign (src : List Tok)

/-- the ownership step of Cello/Own.lean for each of them (what `step` commits for an Array of probes) -/
def arrayAbs (next : Nat) (xs : List Tok) : SOp → Res (List Tok)
  | .push p => seqPush next xs p
  | .pushAt i p => arrayPushAt next xs i p
  | .pop => seqPop xs
  | .popAt i => seqPopAt xs i
  | .set i p => seqSetProbe next xs i p
  | .rem p => seqRem xs p
  | .resize n => arrayResize xs n
  | .sort => seqSort xs
  | .concat src => seqConcatProbe next xs src
  | .assign src => seqAssignProbe next xs src

/-- the same call as an operation on the block of records (C04's `Op`, records = tokens): the record written by `push` /
    `push_at` / `concat` / `assign` is the freshly constructed element, the record `set` leaves is the stored element with
    its identity and the new payload (the element's own `Assign` ran in place), `rem` scans with the payload comparison -/
def arrayStoreOp (next : Nat) (xs : List Tok) : SOp → Seq.Op Tok
  | .push p => .push ⟨next, p⟩
  | .pushAt i p => .pushAt ⟨next, p⟩ i
  | .pop => .pop
  | .popAt i => .popAt i
  | .set i p =>
    .set i (match xs[(Seq.normIdx xs.length i).toNat]? with
      | some old => (assignProbe next old p).val
      | none => ⟨next, p⟩)
  | .rem p => .rem ⟨0, p⟩
  | .resize n => .resize n
  | .sort => .sort tokLt
  | .concat src => .concat (mkFresh next (src.map (·.pay)))
  | .assign src => .assign (mkFresh next (src.map (·.pay))) true

def arrSpecStep (xs : List Tok) (op : Seq.Op Tok) : Option (List Tok) := @Seq.Spec.arrStep Tok payBEq xs op
def arrListStep (a : Seq.Arr Tok) (op : Seq.Op Tok) : Seq.Arr Tok × Seq.Res Unit := @Seq.Arr.step Tok payBEq a op
def arrStoreStep (s : Seq.ArrS Tok) (op : Seq.Op Tok) : Seq.ArrS Tok × Seq.Res Unit := @Seq.ArrS.step Tok payBEq s op

theorem cons_arrayAbs (next : Nat) (xs : List Tok) (op : SOp) (hraw : 0 ∉ ids xs) :
    Conserves xs (arrayAbs next xs op).val (arrayAbs next xs op).issued (arrayAbs next xs op).retired ∧
    FreshFrom next (arrayAbs next xs op).issued := by
  cases op with
  | push p => exact cons_seqPush _ _ _
  | pushAt i p => exact cons_arrayPushAt _ _ _ _
  | pop => have := cons_seqPop xs; exact ⟨this.1, by simp only [arrayAbs]; rw [this.2]; rfl⟩
  | popAt i => have := cons_seqPopAt xs i; exact ⟨this.1, by simp only [arrayAbs]; rw [this.2]; rfl⟩
  | set i p => exact cons_seqSetProbe _ _ _ _ hraw
  | rem p => have := cons_seqRem xs p; exact ⟨this.1, by simp only [arrayAbs]; rw [this.2]; rfl⟩
  | resize n => have := cons_arrayResize xs n; exact ⟨this.1, by simp only [arrayAbs]; rw [this.2]; rfl⟩
  | sort => have := cons_seqSort xs; exact ⟨this.1, by simp only [arrayAbs]; rw [this.2]; rfl⟩
  | concat src => exact cons_seqConcatProbe _ _ _
  | assign src => exact cons_seqAssignProbe _ _ _

/-! ### the payload scan of `rem` -/

theorem takeFirst_pay_none {p : Nat} {xs : List Tok} (h : takeFirst (fun t => t.pay == p) xs = none) :
    xs.any (fun a => a.pay == p) = false := by
  induction xs with
  | nil => rfl
  | cons x xs ih =>
    simp only [takeFirst] at h
    split at h
    · cases h
    · rename_i hx
      split at h
      · cases h
      · rename_i hn
        simp only [List.any_cons, ih hn, Bool.or_false]
        simpa using hx

theorem takeFirst_pay_some {p : Nat} {xs : List Tok} {t : Tok} {rest : List Tok}
    (h : takeFirst (fun t => t.pay == p) xs = some (t, rest)) :
    xs.any (fun a => a.pay == p) = true ∧ @List.erase Tok payBEq xs ⟨0, p⟩ = rest := by
  induction xs generalizing t rest with
  | nil => simp [takeFirst] at h
  | cons x xs ih =>
    simp only [takeFirst] at h
    split at h
    · rename_i hx
      cases h
      refine ⟨by simp [hx], ?_⟩
      have : (@BEq.beq Tok payBEq x ⟨0, p⟩) = true := hx
      simp [List.erase, this]
    · rename_i hx
      split at h
      · rename_i y r hy
        cases h
        obtain ⟨h1, h2⟩ := ih hy
        refine ⟨by simp [h1], ?_⟩
        have : (@BEq.beq Tok payBEq x ⟨0, p⟩) = false := by
          show (x.pay == p) = false
          simpa using hx
        simp [List.erase, this, h2]
      · cases h

/-! ### the abstract sequence step of C04 is the ownership step -/

theorem arrInsIdx_of (n : Nat) (i : Int) :
    Seq.Spec.arrInsIdx n i =
      if (if i < 0 then ((n : Int) + 1) + i else i) < 0 ∨ (if i < 0 then ((n : Int) + 1) + i else i) > (n : Int) then none
      else some (if i < 0 then ((n : Int) + 1) + i else i).toNat := by
  unfold Seq.Spec.arrInsIdx
  split_ifs <;> first | rfl | (exfalso; omega)

theorem idx_of (n : Nat) (i : Int) :
    Seq.Spec.idx n i =
      if (if i < 0 then (n : Int) + i else i) < 0 ∨ (if i < 0 then (n : Int) + i else i) ≥ (n : Int) then none
      else some (if i < 0 then (n : Int) + i else i).toNat := by
  unfold Seq.Spec.idx
  split_ifs <;> first | rfl | (exfalso; omega)

/-- For every Array operation: when the ownership step succeeds, C04's abstract step on the same tokens is defined and
    yields the ownership step's contents (for `sort`: a permutation of them — C04's quicksort model and the one of
    Cello/Own.lean are two transcriptions of Array_Sort_By and are not identified here; both permute); when the ownership
    step raises, C04's abstract step is out of range and the ownership step left the contents alone. -/
theorem arraySpec (next : Nat) (xs : List Tok) (op : SOp) :
    ((arrayAbs next xs op).out = .ok →
      ∃ l, arrSpecStep xs (arrayStoreOp next xs op) = some l ∧ l ~ (arrayAbs next xs op).val ∧
        (op ≠ .sort → l = (arrayAbs next xs op).val)) ∧
    ((arrayAbs next xs op).out ≠ .ok →
      arrSpecStep xs (arrayStoreOp next xs op) = none ∧ (arrayAbs next xs op).val = xs) := by
  cases op with
  | push p =>
    refine ⟨fun _ => ⟨_, rfl, Perm.refl _, fun _ => rfl⟩, fun h => absurd rfl h⟩
  | concat src =>
    refine ⟨fun _ => ⟨_, rfl, Perm.refl _, fun _ => rfl⟩, fun h => absurd rfl h⟩
  | assign src =>
    refine ⟨fun _ => ⟨_, rfl, Perm.refl _, fun _ => rfl⟩, fun h => absurd rfl h⟩
  | sort =>
    refine ⟨fun _ => ⟨_, rfl, ?_, fun h => absurd rfl h⟩, fun h => absurd rfl h⟩
    exact (Cello.Sort.sortList_perm tokLt xs).trans (seqSort_perm xs).symm
  | resize n =>
    refine ⟨fun _ => ⟨xs.take n, rfl, ?_, fun _ => ?_⟩, fun h => ?_⟩
    · simp only [arrayAbs, arrayResize, seqClear]; split
      · rename_i h0; subst h0; simp
      · exact Perm.refl _
    · simp only [arrayAbs, arrayResize, seqClear]; split
      · rename_i h0; subst h0; simp
      · rfl
    · exfalso; apply h; simp only [arrayAbs, arrayResize, seqClear]; split <;> rfl
  | pop =>
    simp only [arrayAbs, arrayStoreOp, arrSpecStep, Seq.Spec.arrStep, seqPop]
    cases hl : xs.getLast? with
    | none =>
      have : xs = [] := List.getLast?_eq_none_iff.mp hl
      subst this
      exact ⟨fun h => by simp at h, fun _ => ⟨by simp, rfl⟩⟩
    | some t =>
      have hne : xs ≠ [] := by intro h; subst h; simp at hl
      refine ⟨fun _ => ⟨xs.dropLast, by simp [hne], Perm.refl _, fun _ => rfl⟩, fun h => absurd rfl h⟩
  | pushAt i p =>
    simp only [arrayAbs, arrayStoreOp, arrSpecStep, Seq.Spec.arrStep, arrayPushAt, arrInsIdx_of]
    generalize (if i < 0 then ((xs.length : Int) + 1) + i else i) = j
    by_cases hb : j < 0 ∨ j > (xs.length : Int)
    · simp only [if_pos hb]
      exact ⟨fun h => by simp at h, fun _ => ⟨rfl, trivial⟩⟩
    · simp only [if_neg hb]
      exact ⟨fun _ => ⟨_, rfl, Perm.refl _, fun _ => rfl⟩, fun h => absurd rfl h⟩
  | popAt i =>
    simp only [arrayAbs, arrayStoreOp, arrSpecStep, Seq.Spec.arrStep, seqPopAt, idx_of]
    generalize (if i < 0 then (xs.length : Int) + i else i) = j
    by_cases hb : j < 0 ∨ j ≥ (xs.length : Int)
    · simp only [if_pos hb]
      exact ⟨fun h => by simp at h, fun _ => ⟨rfl, trivial⟩⟩
    · have hlt : j.toNat < xs.length := by omega
      simp only [if_neg hb, List.getElem?_eq_getElem hlt]
      exact ⟨fun _ => ⟨_, rfl, Perm.refl _, fun _ => rfl⟩, fun h => absurd rfl h⟩
  | set i p =>
    simp only [arrayAbs, arrayStoreOp, arrSpecStep, Seq.Spec.arrStep, seqSetProbe, idx_of, Seq.normIdx]
    generalize (if i < 0 then (xs.length : Int) + i else i) = j
    by_cases hb : j < 0 ∨ j ≥ (xs.length : Int)
    · simp only [if_pos hb]
      exact ⟨fun h => by simp at h, fun _ => ⟨rfl, trivial⟩⟩
    · have hlt : j.toNat < xs.length := by omega
      simp only [if_neg hb, List.getElem?_eq_getElem hlt]
      exact ⟨fun _ => ⟨_, rfl, Perm.refl _, fun _ => rfl⟩, fun h => absurd rfl h⟩
  | rem p =>
    simp only [arrayAbs, arrayStoreOp, arrSpecStep, Seq.Spec.arrStep, seqRem, Seq.Spec.mem]
    cases ht : takeFirst (fun t => t.pay == p) xs with
    | none =>
      have hany := takeFirst_pay_none ht
      have : (xs.any fun a => @BEq.beq Tok payBEq a ⟨0, p⟩) = false := hany
      refine ⟨fun h => by simp at h, fun _ => ⟨by simp [this], rfl⟩⟩
    | some tr =>
      obtain ⟨t, rest⟩ := tr
      obtain ⟨hany, her⟩ := takeFirst_pay_some ht
      have : (xs.any fun a => @BEq.beq Tok payBEq a ⟨0, p⟩) = true := hany
      refine ⟨fun _ => ⟨rest, by simp [this, her], Perm.refl _, fun _ => rfl⟩, fun h => absurd rfl h⟩

/-- **Array: the block of records.**  From any store state `s` (cells, `nitems`, block id) that holds a list-level Array
    `a` (`ArrS.Abs`: the first `nitems` cells are written and hold `a.items`, capacity = number of cells — true of
    `Array_New`, preserved by every operation), for every operation: the store-level step (index normalisation, bounds
    check, `nitems++ / --`, `Array_Reserve_More / Less` = `realloc` into a new block, `memmove` of a cell range, the record
    write; the `eq` scan of `rem`; the record exchanges of the quicksort) never reads an unwritten or out-of-block cell
    (`≠ .ub`), succeeds exactly when the ownership step of Cello/Own.lean does, and the records in use afterwards
    (`items?`) are the ownership step's contents — equal, and for `sort` a permutation —, again in a state that satisfies
    `Abs`; hence **records in use afterwards ++ finalised ~ records in use before ++ constructed**: no growth, shrink,
    `memmove` or sort exchange drops or duplicates an element. -/
theorem arrayMoves {s : Seq.ArrS Tok} {a : Seq.Arr Tok} (h : s.Abs a) (next : Nat) (op : SOp) (hraw : 0 ∉ ids a.items) :
    let r := arrayAbs next a.items op
    let c := arrStoreStep s (arrayStoreOp next a.items op)
    s.items? = some a.items ∧ c.2 ≠ .ub ∧ (c.2 = .ok () ↔ r.out = .ok) ∧
    ∃ l a', c.1.Abs a' ∧ c.1.items? = some l ∧ a'.items = l ∧ l ~ r.val ∧ (op ≠ .sort → l = r.val) ∧
      Conserves a.items l r.issued r.retired ∧ FreshFrom next r.issued := by
  intro r c
  have hsim := @Seq.ArrS.step_sim Tok payBEq s a h (arrayStoreOp next a.items op)
  have hcons := cons_arrayAbs next a.items op hraw
  obtain ⟨hok, hbad⟩ := arraySpec next a.items op
  have hitems := Seq.ArrS.items?_eq hsim.1
  refine ⟨Seq.ArrS.items?_eq h, ?_⟩
  by_cases hout : r.out = .ok
  · obtain ⟨l, hl, hperm, heq⟩ := hok hout
    obtain ⟨g1, g2⟩ := @Seq.Arr.step_refines Tok payBEq a (arrayStoreOp next a.items op) l hl
    have hc2 : c.2 = .ok () := by show (arrStoreStep s _).2 = _; unfold arrStoreStep; rw [hsim.2]; exact g1
    refine ⟨(by rw [hc2]; intro h; cases h), ⟨fun _ => hout, fun _ => hc2⟩, l, _, hsim.1, ?_, g2, hperm, heq, ?_, hcons.2⟩
    · show (arrStoreStep s _).1.items? = _; unfold arrStoreStep; rw [hitems, g2]
    · exact ((ids_perm (hperm.append_right _))).trans hcons.1
  · obtain ⟨hnone, hval⟩ := hbad hout
    obtain ⟨g1, e, g2⟩ := @Seq.Arr.step_out_of_range Tok payBEq a (arrayStoreOp next a.items op) hnone
    have hc2 : c.2 = .raised e := by show (arrStoreStep s _).2 = _; unfold arrStoreStep; rw [hsim.2]; exact g2
    refine ⟨(by rw [hc2]; intro h; cases h), ⟨(fun h => by rw [hc2] at h; cases h), fun h => absurd h hout⟩,
      a.items, _, hsim.1, ?_, by rw [g1], by rw [hval], fun _ => hval.symm, ?_, hcons.2⟩
    · show (arrStoreStep s _).1.items? = _; unfold arrStoreStep; rw [hitems, g1]
    · have := hcons.1; rw [hval] at this; exact this

end Cello.Own
